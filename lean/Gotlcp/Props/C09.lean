/-
C09 — no peer input makes an endpoint panic, spin, or buffer without bound.

Property theorems only (helpers: `Gotlcp.Lemmas.Parsers`, `Gotlcp.Lemmas.ParsersLoop`).

(a) NO PANIC.  `Gotlcp.Model.Parsers` transcribes every place where the two stacks index
    peer-controlled bytes by hand, with checked accessors (`Outcome.panic` exactly where the Go
    runtime panics).  The guards in front of those sites are parameters filled from facts
    re-read from the Go AST on every run (`guardsT` / `guardsD`), so the theorems below are
    about the guards that are in the working tree: reverting one of the repairs F2 / F3 / F4
    moves a fact, `C09_facts` stops compiling and so does every theorem that needed the guard.
    Every theorem quantifies over ALL byte strings, all certificate key kinds and all answers
    of the cryptographic library.
(b) NO SPIN and (c) BOUNDED MEMORY: second half of the file.
-/
import Gotlcp.Lemmas.Parsers
import Gotlcp.Lemmas.ParsersLoop
import Gotlcp.Lemmas.ParsersLoopD
import Gotlcp.Lemmas.CertIdx
import Gotlcp.Model.ParsersFacts
import Gotlcp.Tie.UnmarshalTlcp
import Gotlcp.Tie.UnmarshalDtlcp

namespace Gotlcp.Props.C09
open Gotlcp Gotlcp.Model.Parsers Gotlcp.Lemmas.Parsers

/-! ### the facts the theorems rely on -/

/-- what the extractor must have found in key_agreement.go / conn.go of both stacks -/
theorem C09_facts :
    Facts.missing = [] ∧
    -- F2: ECC processClientKeyExchange checks 2 bytes of length prefix and 3 bytes of ASN.1 header
    2 ≤ Facts.tlcp.kxEccCkxMinLen ∧ 3 ≤ Facts.tlcp.kxEccCkxCipherMin ∧
    2 ≤ Facts.dtlcp.kxEccCkxMinLen ∧ 3 ≤ Facts.dtlcp.kxEccCkxCipherMin ∧
    1 ≤ Facts.tlcp.kxEccSkxMaxShort ∧ 1 ≤ Facts.dtlcp.kxEccSkxMaxShort ∧
    -- F3: ECDHE processServerKeyExchange checks the 4 fixed bytes and the 2-byte signature length
    4 ≤ Facts.tlcp.kxDheSkxMinLen ∧ 2 ≤ Facts.tlcp.kxDheSkxSigHdrMin ∧
    4 ≤ Facts.dtlcp.kxDheSkxMinLen ∧ 2 ≤ Facts.dtlcp.kxDheSkxSigHdrMin ∧
    -- F4: checked assertion, nil check, two certificates
    Facts.tlcp.kxEccGckxChecked = true ∧ Facts.dtlcp.kxEccGckxChecked = true ∧
    Facts.tlcp.kxDheGckxNilCheck = true ∧ Facts.dtlcp.kxDheGckxNilCheck = true ∧
    2 ≤ Facts.tlcp.kxDheGckxPeerMin ∧ 2 ≤ Facts.dtlcp.kxDheGckxPeerMin ∧
    -- getECDHEPublicKey: the accepted lengths contain the bytes that are read
    Facts.tlcp.kxDhePubShapes = [(69, 3, false), (71, 5, true)] ∧
    Facts.dtlcp.kxDhePubShapes = [(69, 3, false), (71, 5, true)] ∧
    -- framing constants
    5 ≤ Facts.tlcp.recordHeaderLen ∧ 13 ≤ Facts.dtlcp.recordHeaderLen ∧ 12 ≤ Facts.dtlcp.dtlcpHeaderLen := by
  decide

theorem shapesOk_T : ShapesOk guardsT.dhePubShapes := by
  have h := C09_facts.2.2.2.2.2.2.2.2.2.2.2.2.2.2.2.2.2.1
  intro s hs
  simp only [guardsT, h, List.mem_cons, List.not_mem_nil, or_false] at hs
  rcases hs with rfl | rfl <;> decide

theorem shapesOk_D : ShapesOk guardsD.dhePubShapes := by
  have h := C09_facts.2.2.2.2.2.2.2.2.2.2.2.2.2.2.2.2.2.2.1
  intro s hs
  simp only [guardsD, h, List.mem_cons, List.not_mem_nil, or_false] at hs
  rcases hs with rfl | rfl <;> decide

/-! ### (a) no panic: key agreement, both stacks (`dtls = true` is dtlcp) -/

/-- ECC `processClientKeyExchange`: no ClientKeyExchange body crashes the server (F2 repaired) -/
theorem C09_no_panic_ecc_pckx (dtls haveCerts isDecrypter : Bool) (lib : KxLib) (body : Bytes) :
    eccPckx (guardsOf dtls) haveCerts isDecrypter lib body ≠ .panic := by
  cases dtls
  · exact eccPckx_no_panic guardsT (by decide) (by decide) _ _ _ _
  · exact eccPckx_no_panic guardsD (by decide) (by decide) _ _ _ _

/-- ECC `processServerKeyExchange`: no ServerKeyExchange body / certificate list crashes the client -/
theorem C09_no_panic_ecc_pskx (dtls : Bool) (lib : KxLib) (peer : List KeyKind) (body : Bytes) :
    eccPskx (guardsOf dtls) lib peer body ≠ .panic := by
  cases dtls
  · exact eccPskx_no_panic guardsT (by decide) _ _ _
  · exact eccPskx_no_panic guardsD (by decide) _ _ _

/-- ECC `generateClientKeyExchange`: no server certificate list (any key types, any count)
crashes the client (F4, ECC half) -/
theorem C09_no_panic_ecc_gckx (dtls : Bool) (lib : KxLib) (peer : List KeyKind) :
    eccGckx (guardsOf dtls) lib peer ≠ .panic := by
  cases dtls
  · exact eccGckx_no_panic guardsT (by decide) _ _
  · exact eccGckx_no_panic guardsD (by decide) _ _

/-- `getECDHEPublicKey` -/
theorem C09_no_panic_dhe_pub (dtls : Bool) (lib : KxLib) (body : Bytes) :
    dhePub (guardsOf dtls) lib body ≠ .panic := by
  cases dtls
  · exact dhePub_no_panic guardsT shapesOk_T _ _
  · exact dhePub_no_panic guardsD shapesOk_D _ _

/-- ECDHE `processClientKeyExchange` -/
theorem C09_no_panic_dhe_pckx (dtls : Bool) (lib : KxLib) (peer : List KeyKind) (body : Bytes) :
    dhePckx (guardsOf dtls) lib peer body ≠ .panic := by
  cases dtls
  · exact dhePckx_no_panic guardsT shapesOk_T _ _ _
  · exact dhePckx_no_panic guardsD shapesOk_D _ _ _

/-- ECDHE `processServerKeyExchange`: no ServerKeyExchange body crashes the client (F3 repaired) -/
theorem C09_no_panic_dhe_pskx (dtls : Bool) (lib : KxLib) (peer : List KeyKind) (body : Bytes) :
    (dhePskx (guardsOf dtls) lib peer body).1 ≠ .panic := by
  cases dtls
  · exact dhePskx_no_panic guardsT (by decide) (by decide) _ _ _
  · exact dhePskx_no_panic guardsD (by decide) (by decide) _ _ _

/-- ECDHE `generateClientKeyExchange`: whatever the server sent before (ServerKeyExchange or
not, CertificateRequest or not, certificates of any key type and number) and whatever
encryption key the client holds, the client does not crash (F4, ECDHE half) -/
theorem C09_no_panic_dhe_gckx (dtls : Bool) (lib : KxLib) (tmpKeySet : Bool) (enc : EncPriv) (peer : List KeyKind) :
    dheGckx (guardsOf dtls) lib tmpKeySet enc peer ≠ .panic := by
  cases dtls
  · exact dheGckx_no_panic guardsT (by decide) (by decide) _ _ _ _
  · exact dheGckx_no_panic guardsD (by decide) (by decide) _ _ _ _

/-! ### (a) no panic: record protection, framing, headers -/

/-- `extractPadding` on any decrypted payload -/
theorem C09_no_panic_extractPadding (payload : Bytes) : extractPadding payload ≠ .panic :=
  extractPadding_no_panic payload

/-- tlcp `halfConn.decrypt` on any record that has its header (`readRecordOrCCS` only passes
`rawInput.Next(recordHeaderLen+n)`), for any protection, any answer of the cipher, and a record
counter that has not reached 2^64 - 1 (`incSeq` panics deliberately on wrap-around) -/
theorem C09_no_panic_decrypt_tlcp (k : CipherKind) (lib : DecLib) (seq : Nat) (record : Bytes)
    (hr : Facts.tlcp.recordHeaderLen ≤ record.length) (hb : ∀ bs ms, k = .cbc bs ms → 0 < bs)
    (hs : seq + 1 < 2 ^ 64) : decrypt false Facts.tlcp.recordHeaderLen k lib seq record ≠ .panic :=
  decrypt_no_panic false _ k lib seq record (by decide) hr hb (Or.inr hs)

/-- dtlcp `halfConn.decrypt` (explicit sequence numbers: no counter to overflow) -/
theorem C09_no_panic_decrypt_dtlcp (k : CipherKind) (lib : DecLib) (seq : Nat) (record : Bytes)
    (hr : Facts.dtlcp.recordHeaderLen ≤ record.length) (hb : ∀ bs ms, k = .cbc bs ms → 0 < bs) :
    decrypt true Facts.dtlcp.recordHeaderLen k lib seq record ≠ .panic :=
  decrypt_no_panic true _ k lib seq record (by decide) hr hb (Or.inl rfl)

/-- tlcp `readHandshake`: decoding the 4-byte header and cutting the message out of `c.hand` -/
theorem C09_no_panic_readHandshake_tlcp (hand : Bytes) : frameT Facts.tlcp.maxHandshake hand ≠ .panic :=
  frameT_no_panic _ hand

/-- dtlcp `readHandshake`: decoding the 12-byte header, bounds checks, cutting the fragment out -/
theorem C09_no_panic_readHandshake_dtlcp (hand : Bytes) :
    frameD Facts.dtlcp.maxHandshake Facts.dtlcp.dtlcpHeaderLen hand ≠ .panic :=
  frameD_no_panic _ _ (by decide) hand

/-- tlcp `readRecordOrCCS`: header decoding once `readFromUntil` delivered the header -/
theorem C09_no_panic_header_tlcp (raw : Bytes) (hr : Facts.tlcp.recordHeaderLen ≤ raw.length) :
    headerT Facts.tlcp.recordHeaderLen raw ≠ .panic :=
  headerT_no_panic _ (by decide) raw hr

/-- dtlcp `readRecordOrCCS`: header slicing of any datagram remainder -/
theorem C09_no_panic_header_dtlcp (haveVers : Bool) (vers : Nat) (buf : Bytes) (firstRecord : Bool) :
    splitD Facts.dtlcp.recordHeaderLen Facts.dtlcp.maxCiphertext haveVers vers buf firstRecord ≠ .panic :=
  splitD_no_panic _ _ (by decide) haveVers vers buf firstRecord

/-! ### (a) no panic: the peer's certificate list

`processCertsFromClient`, `verifyServerCertificate` and `verifySessionCertificates` index the
parsed certificate list by hand (`certs[0]`, `certs[1]`, `certs[start:]`) under guards on
`len(certs)`, on the negotiated suite and on the client-auth policy.  The extractor transliterates
the index structure of each function (facts `hsCertIdx*`: every index / slice bound with the
conditions and early returns around it); `Model.CertIdx.mayPanic p n f0 f1` says that SOME path
through it reads the list out of range when it has `n` entries (`f0` = `isECDHE`; conditions the
model does not interpret — policy, verification results — are taken both ways).
`Lemmas.CertIdx.mayPanic_clamp` proves that lengths beyond the largest constant of the program
all behave alike, so the finite evaluation below is the statement for EVERY length. -/

section Certs
open Gotlcp.Model.CertIdx Gotlcp.Lemmas.CertIdx

set_option maxRecDepth 100000 in
/-- the finite checks, on the index programs as they are in the working tree (both stacks) -/
theorem C09_facts_certs :
    check Facts.tlcp.hsCertIdxServer = true ∧ check Facts.tlcp.hsCertIdxClient = true ∧
    check Facts.tlcp.hsCertIdxSession = true ∧
    check Facts.dtlcp.hsCertIdxServer = true ∧ check Facts.dtlcp.hsCertIdxClient = true ∧
    check Facts.dtlcp.hsCertIdxSession = true := by
  decide

/-- the index program of a function, by stack -/
def certProg (dtls : Bool) (which : Nat) : List Tok :=
  match dtls, which with
  | false, 0 => Facts.tlcp.hsCertIdxServer
  | false, 1 => Facts.tlcp.hsCertIdxClient
  | false, _ => Facts.tlcp.hsCertIdxSession
  | true, 0 => Facts.dtlcp.hsCertIdxServer
  | true, 1 => Facts.dtlcp.hsCertIdxClient
  | true, _ => Facts.dtlcp.hsCertIdxSession

theorem certProg_check (dtls : Bool) (which : Nat) : check (certProg dtls which) = true := by
  have f := C09_facts_certs
  cases dtls
  · match which with
    | 0 => exact f.1
    | 1 => exact f.2.1
    | _ + 2 => exact f.2.2.1
  · match which with
    | 0 => exact f.2.2.2.1
    | 1 => exact f.2.2.2.2.1
    | _ + 2 => exact f.2.2.2.2.2

/-- `processCertsFromClient` (server): whatever number `n` of certificates the client's Certificate
message (or the resumed session) carries, whatever suite was negotiated, whatever the client-auth
policy and whatever the results of parsing and chain verification, no path indexes the list out
of range — both stacks -/
theorem C09_no_panic_certs_server (dtls : Bool) (n : Nat) (isECDHE f1 : Bool) :
    ∃ p, progOf (certProg dtls 0) = some p ∧ mayPanic p n isECDHE f1 = false := by
  obtain ⟨p, hp, h⟩ := safe_of_check (certProg_check dtls 0)
  exact ⟨p, hp, h n isECDHE f1⟩

/-- `verifyServerCertificate` (client): the same for the server's Certificate message, with or
without `InsecureSkipVerify` -/
theorem C09_no_panic_certs_client (dtls : Bool) (n : Nat) (f0 f1 : Bool) :
    ∃ p, progOf (certProg dtls 1) = some p ∧ mayPanic p n f0 f1 = false := by
  obtain ⟨p, hp, h⟩ := safe_of_check (certProg_check dtls 1)
  exact ⟨p, hp, h n f0 f1⟩

/-- `verifySessionCertificates` (client, resumption): the certificate list recorded in a cached
session, of any length -/
theorem C09_no_panic_certs_session (dtls : Bool) (n : Nat) (f0 f1 : Bool) :
    ∃ p, progOf (certProg dtls 2) = some p ∧ mayPanic p n f0 f1 = false := by
  obtain ⟨p, hp, h⟩ := safe_of_check (certProg_check dtls 2)
  exact ⟨p, hp, h n f0 f1⟩

-- non-vacuity: the model does find out-of-range reads.  `certs[1]` behind `len(certs) == 0`-only
-- guards (the two guards of processCertsFromClient merged into one that no longer asks for two
-- certificates under ECDHE): a list of exactly one certificate under an ECDHE suite panics …
def mergedGuard : List Tok :=
  [(8, 0, 0), (24, 0, 0), (20, 1, 0), (25, 0, 0), (21, 0, 0), (22, 0, 0), (1, 0, 0), (0, 0, 0), (0, 0, 0),   -- if len < 1 && (isECDHE || ?) { return }
   (8, 0, 0), (23, 0, 0), (20, 1, 0),                                                                      -- if len > 0 {
   (2, 0, 0), (8, 0, 0), (21, 0, 0), (2, 1, 0), (0, 0, 0), (0, 0, 0), (0, 0, 0), (0, 0, 0),               --   certs[0]; if isECDHE { certs[1] } }
   (0, 0, 0)]
example : check mergedGuard = false := by decide
example : (progOf mergedGuard).map (fun p => (mayPanic p 1 true false, mayPanic p 1 false false, mayPanic p 2 true false)) =
    some (true, false, false) := by decide
-- … an index by something the extractor does not interpret, a variable bound and a loop that
-- assigns are never called safe
example : check [(11, 0, 0), (0, 0, 0)] = false := by decide
example : check [(6, 0, 2), (5, 0, 0), (0, 0, 0)] = false := by decide
example : check [(8, 0, 0), (20, 2, 0), (1, 0, 0), (0, 0, 0), (0, 0, 0), (6, 0, 2), (5, 0, 0), (0, 0, 0)] = true := by decide
example : check [(6, 0, 0), (9, 0, 0), (6, 0, 5), (0, 0, 0), (3, 0, 0), (0, 0, 0)] = false := by decide
-- the programs in the tree are not trivial: they do read `certs[1]` and `certs[2:]`
example : (Facts.tlcp.hsCertIdxServer.contains (2, 1, 0) && Facts.tlcp.hsCertIdxClient.contains (4, 2, 0) &&
    Facts.dtlcp.hsCertIdxServer.contains (2, 1, 0) && Facts.dtlcp.hsCertIdxClient.contains (4, 2, 0)) = true := by decide

end Certs

/-! ### the defects on the unchanged tree (negations on concrete witnesses) and non-vacuity -/

/-- a library whose every call fails (the panics below happen before any call) -/
def libNo : KxLib := { decrypt := fun _ => none, verify := false, libOk := false }
/-- a library whose every call succeeds -/
def libYes : KxLib := { decrypt := fun _ => some 48, verify := true, libOk := true }

-- F2: the four ClientKeyExchange bodies of DESIGN.md section 6 crash the unrepaired server …
example : (eccPckx .unrepaired true true libNo [0x00]).isPanic = true := by decide
example : (eccPckx .unrepaired true true libNo [0x00, 0x00]).isPanic = true := by decide
example : (eccPckx .unrepaired true true libNo [0x00, 0x01, 0x30]).isPanic = true := by decide
example : (eccPckx .unrepaired true true libNo [0x00, 0x02, 0x30, 0x00]).isPanic = true := by decide
-- … and are refused by the repaired one
example : (eccPckx .repaired true true libNo [0x00]).cls = "err" := by decide
example : (eccPckx .repaired true true libNo [0x00, 0x02, 0x30, 0x00]).cls = "err" := by decide
-- a well-formed body reaches the decrypter with the declared ciphertext and is accepted
example : eccPckxParse .repaired true [0x00, 0x04, 0x30, 0x81, 0x01, 0xaa] = .ok [0x30, 0x81, 0x01, 0xaa] := by decide
example : (eccPckx .repaired true true libYes [0x00, 0x04, 0x30, 0x81, 0x01, 0xaa]).cls = "ok" := by decide
-- F3: a ServerKeyExchange that ends after a 1-byte point, with 0 or 1 byte of signature length
example : (dhePskx .unrepaired libYes [.sm2, .sm2] [3, 0, 41, 1, 4]).1.isPanic = true := by decide
example : (dhePskx .unrepaired libYes [.sm2, .sm2] [3, 0, 41, 1, 4, 0]).1.isPanic = true := by decide
example : (dhePskx .repaired libYes [.sm2, .sm2] [3, 0, 41, 1, 4, 0]).1.cls = "err" := by decide
example : (dhePskx .repaired libYes [.sm2, .sm2] [3, 0, 41, 1, 4, 0, 1, 9]) = (.ok (), true) := by decide
-- F4: no CertificateRequest (nil client encryption certificate); RSA / Ed25519 encryption certificate
example : (dheGckx .unrepaired libYes true .nilCert [.sm2, .sm2]).isPanic = true := by decide
example : (eccGckx .unrepaired libYes [.sm2, .rsa]).isPanic = true := by decide
example : (eccGckx .unrepaired libYes [.sm2, .ed]).isPanic = true := by decide
example : (dheGckx .repaired libYes true .nilCert [.sm2, .sm2]).cls = "err" := by decide
example : (eccGckx .repaired libYes [.sm2, .rsa]).cls = "err" := by decide
example : (eccGckx .repaired libYes [.sm2, .p256]).cls = "ok" := by decide
example : (dheGckx .repaired libYes true .sm2 [.sm2, .sm2]).cls = "ok" := by decide
-- the guards in the tree are the repaired ones
example : guardsT = .repaired ∧ guardsD = .repaired := by decide
-- framing: a complete 1-byte ServerHelloDone-like message followed by one more byte
example : (frameT 65536 [14, 0, 0, 1, 7, 9]).cls = "ok" := by decide
example : (splitD 13 18432 false 0 [22, 1, 1, 0, 0, 0, 0, 0, 0, 0, 0, 0, 1, 5]).cls = "ok" := by decide

/-! ### (b) no spin and (c) bounded memory — stream stack -/

section Stream
open Gotlcp.Model.ParsersLoop Gotlcp.Lemmas.ParsersLoop

/-- the loop constants and guards the theorems below rely on, as extracted from tlcp -/
theorem C09_facts_stream :
    5 ≤ limitsT.hdr ∧ limitsT.maxPlaintext ≤ limitsT.maxCiphertext ∧
    Facts.tlcp.recRetryGuard = true ∧ Facts.tlcp.recLenGuard = true ∧
    -- the retry counter is reset only by a NON-EMPTY record that is neither an alert nor a ChangeCipherSpec
    Facts.tlcp.recResetCond = ["typ != recordTypeAlert", "typ != recordTypeChangeCipherSpec", "len(data) > 0"] ∧
    Facts.tlcp.hsFrameGuards = ["for c.hand.Len() < 4", "if n > maxHandshake", "for c.hand.Len() < 4+n", "next c.hand.Next(4 + n)"] ∧
    -- F8: handshake records are refused once the handshake is complete
    limitsT.refusePostHs = true := by
  decide

/-- NO SPIN, stream stack.  For every connection state, every byte string still to come, every
segmentation of the transport and every answer of the cipher:
* one pass through `readRecordOrCCS` that does not return an error (it delivers a record or
  asks for a retry) has consumed at least `recordHeaderLen` bytes of input, and a retry leaves
  `retryCount` unchanged, so that `retryReadRecord` counts it;
* `readRecordOrCCS`+`retryReadRecord`, the two loops of `readHandshake`, `readHandshake` and the
  loop of `Read` never reach the `stuck` exit of their well-founded definitions (the measure —
  retry budget, resp. remaining input — really decreases on every iteration) and never panic;
* a `readRecord` that starts with `retryCount ≤ maxUselessRecords` ends with
  `retryCount ≤ maxUselessRecords` when it delivers a record (one more when it gives up). -/
theorem C09_progress (lib : Lib) (s : St) (e : Bool) (need : Nat) :
    (((step limitsT lib s e).2 = .retry ∨ (step limitsT lib s e).2 = .done (.ok ())) →
        (step limitsT lib s e).1.total + Facts.tlcp.recordHeaderLen ≤ s.total) ∧
    ((step limitsT lib s e).2 = .retry → (step limitsT lib s e).1.retry = s.retry) ∧
    ((readRecord limitsT lib s e).2 = .ok () →
        (readRecord limitsT lib s e).1.total + Facts.tlcp.recordHeaderLen ≤ s.total) ∧
    (readRecord limitsT lib s e).2 ≠ .err .stuck ∧ (readRecord limitsT lib s e).2 ≠ .panic ∧
    (s.retry ≤ Facts.tlcp.maxUselessRecords →
        (readRecord limitsT lib s e).1.retry ≤ Facts.tlcp.maxUselessRecords + 1 ∧
        ((readRecord limitsT lib s e).2 = .ok () → (readRecord limitsT lib s e).1.retry ≤ Facts.tlcp.maxUselessRecords)) ∧
    (readUntil limitsT lib s need).2 ≠ .err .stuck ∧ (readUntil limitsT lib s need).2 ≠ .panic ∧
    (readHandshake limitsT lib s).2 ≠ .err .stuck ∧ (readHandshake limitsT lib s).2 ≠ .panic ∧
    (readApp limitsT lib s).2 ≠ .err .stuck ∧ (readApp limitsT lib s).2 ≠ .panic := by
  have h5 : 5 ≤ limitsT.hdr := C09_facts_stream.1
  have sp := step_spec limitsT lib s e h5
  have rs := readRecord_spec limitsT lib e h5 s
  have us := readUntil_spec limitsT lib need h5 s
  have hs := readHandshake_spec limitsT lib h5 s
  have as := readApp_spec limitsT lib h5 s
  exact ⟨sp.consumed, fun h => (sp.retry_keeps h).1, rs.consumed, rs.no_stuck, rs.no_panic, rs.retry_le,
    us.no_stuck, us.no_panic, hs.no_stuck, hs.no_panic, as.no_stuck, as.no_panic⟩

/-- every loop also only ever moves forward through the input: nothing is read twice -/
theorem C09_progress_monotone (lib : Lib) (s : St) :
    (readHandshake limitsT lib s).1.total ≤ s.total ∧ (readApp limitsT lib s).1.total ≤ s.total :=
  ⟨(readHandshake_spec limitsT lib C09_facts_stream.1 s).total_le, (readApp_spec limitsT lib C09_facts_stream.1 s).total_le⟩

/-- BOUNDED MEMORY, stream stack.  For every byte string the peer may send, every
segmentation of the transport into reads of at most `chunk` bytes, every answer of the cipher
and of the message decoders, and every sequence of receive operations of the handshake and of
the application (`readHandshake`, `readChangeCipherSpec`, completion, `Read`), the connection
holds at most one maximum-size handshake message plus one record in `c.hand`, and one
maximum-size record plus one transport read in `c.rawInput`. -/
theorem C09_mem_tlcp (lib : Lib) (chunk : Nat) (hseg : ∀ m, lib.seg m ≤ chunk) (h1 : 1 ≤ chunk)
    (wire : Bytes) (ops : List Op) :
    (run limitsT lib (St.init wire) ops).hand.length ≤ 4 + Facts.tlcp.maxHandshake + Facts.tlcp.maxCiphertext ∧
    (run limitsT lib (St.init wire) ops).raw.length ≤ Facts.tlcp.recordHeaderLen + Facts.tlcp.maxCiphertext + chunk := by
  have f := C09_facts_stream
  have hmp : limitsT.maxPlaintext ≤ limitsT.maxCiphertext := f.2.1
  have inv := run_inv limitsT lib f.1 f.2.2.2.2.2.2 chunk
    (4 + limitsT.maxHandshake + limitsT.maxPlaintext) (limitsT.hdr + limitsT.maxCiphertext + chunk)
    hseg h1 (by omega) (by omega) ops (St.init wire) ⟨by simp [St.init], by simp [St.init]⟩
  obtain ⟨ih, ir⟩ := inv
  have e1 : limitsT.maxHandshake = Facts.tlcp.maxHandshake := rfl
  have e2 : limitsT.maxCiphertext = Facts.tlcp.maxCiphertext := rfl
  have e3 : limitsT.hdr = Facts.tlcp.recordHeaderLen := rfl
  refine ⟨by omega, by omega⟩

/-- the form of the statement with Go's `bytes.MinRead` (512) as the size of a transport read -/
theorem C09_mem_tlcp_minread (lib : Lib) (hseg : ∀ m, lib.seg m ≤ 512) (wire : Bytes) (ops : List Op) :
    (run limitsT lib (St.init wire) ops).hand.length ≤ 4 + Facts.tlcp.maxHandshake + Facts.tlcp.maxCiphertext ∧
    (run limitsT lib (St.init wire) ops).raw.length ≤ Facts.tlcp.recordHeaderLen + Facts.tlcp.maxCiphertext + 512 :=
  C09_mem_tlcp lib 512 hseg (by decide) wire ops

/-- F8 on the unchanged tree, at the level of the model: with `refusePostHs = false` a
handshake record that arrives after the handshake is appended to `c.hand` and reported as
success, so `Read` goes on to the next record; nothing ever removes it. -/
def limitsUnrepaired : Limits := { limitsT with refusePostHs := false }
def sDone : St := { St.init [] with complete := true, prot := true, haveVers := true, hand := [9, 9, 9] }
example : dispatch limitsUnrepaired sDone false 22 [1, 2, 3, 4] =
    ({ sDone with hand := [9, 9, 9, 1, 2, 3, 4] }, .done (.ok ())) := by decide
-- the repaired code refuses the same record and keeps the buffer as it was
example : dispatch limitsT sDone false 22 [1, 2, 3, 4] =
    ({ sDone with inErr := true }, .done (.err .unexpected)) := by decide
-- during the handshake the record is buffered, as it must be
example : (dispatch limitsT { sDone with complete := false } false 22 [1, 2, 3, 4]).1.hand = [9, 9, 9, 1, 2, 3, 4] := by decide
-- non-vacuity of the segmentation hypothesis and of `run`
example : ∃ lib : Lib, ∀ m, lib.seg m ≤ 512 := ⟨{ seg := fun _ => 512, dec := fun _ _ => none, unmarshalOk := fun _ => true }, fun _ => Nat.le_refl _⟩

end Stream

/-! ### (b) no spin and (c) bounded memory — datagram stack -/

section Datagram
open Gotlcp.Model.ParsersLoopD Gotlcp.Lemmas.ParsersLoopD

/-- the loop constants and guards the theorems below rely on, as extracted from dtlcp -/
theorem C09_facts_dtlcp :
    13 ≤ limitsD.hdr ∧ 12 ≤ limitsD.hsHdr ∧ 1 ≤ limitsD.maxHandshake ∧
    Facts.dtlcp.recRetryGuard = true ∧ Facts.dtlcp.fragReadsGuard = true ∧
    Facts.dtlcp.recResetCond = ["typ != recordTypeAlert", "typ != recordTypeChangeCipherSpec", "len(data) > 0"] ∧
    Facts.dtlcp.hsFrameGuards = ["if fragmentReads > maxHandshakeFragments", "for c.handBuf.Len() < dtlcpHeaderLen",
      "if bodyLen > maxHandshake", "if fragOff+fragLen > bodyLen", "for c.handBuf.Len() < dtlcpHeaderLen+fragLen",
      "next c.handBuf.Next(dtlcpHeaderLen + fragLen)"] ∧
    -- F42: handshake records are dropped once the handshake is complete
    limitsD.refusePostHs = true ∧
    -- F43b: readRecordOrCCS returns once it has delivered something instead of reading on
    limitsD.deliveredGuard = true := by
  decide

/-- NO SPIN, datagram stack.  For every connection state, every list of datagrams still to
come and every answer of the cipher (not expanding), of the replay window, of the clocks and of
cookie verification:
* an iteration of the loop of `readRecordOrCCS` that continues (`continue`, or a retry after a
  warning alert) has consumed input — at least a record header of the current datagram, or a
  whole datagram;
* `readRecordOrCCS`+`retryReadRecord`, the loops of `readHandshake`, `readHandshake` and the
  HelloVerifyRequest loop with `readNextClientHello` never reach the `stuck` exit of their
  well-founded definitions and never panic; each of them only moves forward through the input;
* `readHandshake` gives up, without reading, once `fragmentReads` has reached
  `maxHandshakeFragments`. -/
theorem C09_progress_dtlcp (lib : LibD) (hdec : DecLen lib) (s : StD) (e dlv : Bool) (need reads0 k : Nat) :
    ((((∃ e' d', (iter limitsD lib s e dlv).2 = .again e' d') ∨ (iter limitsD lib s e dlv).2 = .retry) →
        (iter limitsD lib s e dlv).1.mu < s.mu)) ∧
    ((readRecord limitsD lib s e).2 = .ok () → (readRecord limitsD lib s e).1.mu < s.mu) ∧
    (readRecord limitsD lib s e).2 ≠ .err .stuck ∧ (readRecord limitsD lib s e).2 ≠ .panic ∧
    (readUntil limitsD lib s need).2 ≠ .err .stuck ∧ (readUntil limitsD lib s need).2 ≠ .panic ∧
    (readHandshake limitsD lib s).2 ≠ .err .stuck ∧ (readHandshake limitsD lib s).2 ≠ .panic ∧
    (readHandshake limitsD lib s).1.mu ≤ s.mu ∧
    (cookieLoop limitsD lib s k).2 ≠ .err .stuck ∧ (cookieLoop limitsD lib s k).2 ≠ .panic ∧
    (cookieLoop limitsD lib s k).1.mu ≤ s.mu ∧
    (Facts.dtlcp.maxHandshakeFragments ≤ reads0 → fragLoop limitsD lib s reads0 = (setErr s, .err .unexpected)) := by
  have f := C09_facts_dtlcp
  have h13 := f.1
  have h12 := f.2.1
  have is := iter_spec limitsD lib h13 hdec s e dlv
  have rs := readRecord_spec limitsD lib h13 hdec s e
  have us := readUntil_spec limitsD lib need h13 hdec s
  have hs := readHandshake_spec limitsD lib h13 h12 hdec s
  have cs := cookieLoop_spec limitsD lib h13 h12 hdec s k
  refine ⟨is.progress, ?_, rs.no_stuck, rs.no_panic, us.no_stuck, us.no_panic, hs.no_stuck, hs.no_panic, hs.mu_le,
    cs.2.1, cs.1, cs.2.2, ?_⟩
  · intro h
    rcases rs.ok_progress h with h | h
    · exact h
    · cases h
  · intro h
    unfold fragLoop
    have : reads0 + 1 > limitsD.maxFragments := by
      show reads0 + 1 > Facts.dtlcp.maxHandshakeFragments; omega
    simp only [this, ↓reduceIte]

/-- BOUNDED MEMORY, datagram stack.  For every list of datagrams the peer may send, every
(non-expanding) cipher answer and every sequence of receive operations of the handshake and
of the application (`readHandshake`, completion, the `readRecord` of `Read`):
* at most `maxHandshakeFragments` reassembly buffers exist per `readHandshake` call made so
  far (they are all released when the handshake completes), each for a message of at most
  `maxHandshake` bytes — message bytes plus one bit per byte;
* the handshake buffer holds at most one maximum-size message with its header plus one datagram;
* the datagram buffer holds at most one maximum-size record with its header. -/
theorem C09_mem_dtlcp (lib : LibD) (hdec : DecLen lib) (dgrams : List Bytes) (ops : List OpD) :
    let s := runD limitsD lib (StD.init dgrams) ops
    s.pending.length ≤ Facts.dtlcp.maxHandshakeFragments * hsCount ops ∧
    (∀ b ∈ s.pending, b.n ≤ Facts.dtlcp.maxHandshake ∧ b.bytes ≤ Facts.dtlcp.maxHandshake + (Facts.dtlcp.maxHandshake + 7) / 8) ∧
    s.hand.length ≤ Facts.dtlcp.dtlcpHeaderLen + Facts.dtlcp.maxHandshake + Facts.dtlcp.maxCiphertext + Facts.dtlcp.recordHeaderLen ∧
    s.raw.length ≤ Facts.dtlcp.maxCiphertext + Facts.dtlcp.recordHeaderLen := by
  have f := C09_facts_dtlcp
  have inv := runD_inv limitsD lib f.1 f.2.1 hdec f.2.2.2.2.2.2.2.1 f.2.2.2.2.2.2.2.2
    (limitsD.hsHdr + limitsD.maxHandshake + (limitsD.maxCiphertext + limitsD.hdr)) limitsD.maxHandshake
    (by omega) (Nat.le_refl _) f.2.2.1 ops (StD.init dgrams) 0
    ⟨by simp [StD.init], by simp [StD.init], by simp [StD.init], by intro b hb; simp [StD.init] at hb⟩
  obtain ⟨ir, ih, ip, io⟩ := inv
  simp only [Nat.zero_add] at ip
  refine ⟨ip, ?_, ?_, ir⟩
  · intro b hb
    have hn : b.n ≤ Facts.dtlcp.maxHandshake := io b hb
    refine ⟨hn, ?_⟩
    unfold PBuf.bytes
    have : (b.n + 7) / 8 ≤ (Facts.dtlcp.maxHandshake + 7) / 8 := Nat.div_le_div_right (by omega)
    omega
  · have e1 : limitsD.hsHdr = Facts.dtlcp.dtlcpHeaderLen := rfl
    have e2 : limitsD.maxHandshake = Facts.dtlcp.maxHandshake := rfl
    have e3 : limitsD.maxCiphertext = Facts.dtlcp.maxCiphertext := rfl
    have e4 : limitsD.hdr = Facts.dtlcp.recordHeaderLen := rfl
    omega

/-- the size of that bound with the constants of this tree, in bytes per `readHandshake` call:
256 buffers of 65536 + 8192 bytes -/
theorem C09_mem_dtlcp_size :
    Facts.dtlcp.maxHandshakeFragments * (Facts.dtlcp.maxHandshake + (Facts.dtlcp.maxHandshake + 7) / 8) = 18874368 := by
  decide

/-- the defect on the unchanged tree, at the level of the model: without the `delivered` guard
the iteration that follows a buffered handshake record reads the NEXT datagram when fewer than a
record header of bytes are left, so one `readRecord` call spans datagrams -/
def limitsDUnrepaired : LimitsD := { limitsD with deliveredGuard := false }
def libNone : LibD := { dec := fun _ => none, replayOk := fun _ _ => true, unmarshalOk := fun _ => true,
                        dwell := false, stale := fun _ => false, cookieOk := fun _ => true }
def sTrail : StD := { StD.init [[9, 9, 9, 9]] with raw := [0], hand := [1, 2, 3], haveVers := true, vers := 257 }
example : (fetchD limitsDUnrepaired sTrail true).1.raw = [9, 9, 9, 9] ∧ (fetchD limitsDUnrepaired sTrail true).2 = none := by decide
example : fetchD limitsD sTrail true = ({ sTrail with raw := [] }, some (.done (.ok ()))) := by decide
-- F42 at the level of the model: post-handshake handshake records
example : (dispatch { limitsD with refusePostHs := false } libNone { sTrail with complete := true, raw := [] } false false 22 [7, 7]).1.hand
    = [1, 2, 3, 7, 7] := by decide
example : (dispatch limitsD libNone { sTrail with complete := true, raw := [] } false false 22 [7, 7]).1.hand = [1, 2, 3] := by decide
-- non-vacuity: a non-expanding cipher exists
example : DecLen libNone := by intro r d h; cases h

end Datagram

/-! ### translated DTLCP decoders

The definitions `Gotlcp.Src.dtlcp.*` are regenerated from dtlcp/handshake_messages.go by
`harness/cmd/go2lean` on every run; `.error` in them is a Go run-time panic (index / slice out
of range, negative `make`) or an exhausted bound of a `for cond {}` loop.  Proofs:
`Gotlcp.Tie.UnmarshalDtlcp`.  No hypothesis on `len(data)` is needed: `dtlcpIsCompleteMessage`
bounds it by `2^24 + 12` before any `uint32(len(…))` conversion. -/

/-- every function the translator was asked for was translated -/
theorem C09_src_translated : Src.untranslated = [] := by decide

/-- `dtlcpIsCompleteMessage`: no byte string, no type code makes it panic -/
theorem C09_src_no_panic_dtlcpIsCompleteMessage_dtlcp (data : List (BitVec 8)) (t : BitVec 8) :
    ∃ r, Src.dtlcp.dtlcpIsCompleteMessage data t = .ok r :=
  Tie.UnmarshalDtlcp.isComplete_ok data t

/-- `dtlcpWriteHeader` (writes `dst[0..11]`; its callers allocate `dst`): returns normally
exactly when `len(dst) ≥ 12`, panics for every shorter destination -/
theorem C09_src_no_panic_dtlcpWriteHeader_dtlcp (dst : List (BitVec 8)) (msgType : BitVec 8) (bodyLen : Int)
    (msgSeq : BitVec 16) (fragOff fragLen : BitVec 32) :
    ((∃ r, Src.dtlcp.dtlcpWriteHeader dst msgType bodyLen msgSeq fragOff fragLen = .ok r) ↔ 12 ≤ dst.length) ∧
    (dst.length < 12 → ∃ e, Src.dtlcp.dtlcpWriteHeader dst msgType bodyLen msgSeq fragOff fragLen = .error e) :=
  ⟨Tie.UnmarshalDtlcp.writeHeader_ok_iff dst msgType bodyLen msgSeq fragOff fragLen,
   Tie.UnmarshalDtlcp.writeHeader_panics dst msgType bodyLen msgSeq fragOff fragLen⟩

/-- `certificateMsg.unmarshal`: the second loop indexes `d[0..2]` and slices `d[3:3+certLen]`
without checks; it is safe because the first loop validated the same walk, and the `uint32`
subtraction `certsLen -= 3 + certLen` never wraps because `len(d) = certsLen` is invariant -/
theorem C09_src_no_panic_certificateMsg_unmarshal_dtlcp (m : Src.dtlcp.certificateMsg) (data : List (BitVec 8)) :
    ∃ r, Src.dtlcp.certificateMsg.unmarshal m data = .ok r :=
  Tie.UnmarshalDtlcp.cert_ok m data

/-- `certificateRequestMsg.unmarshal`: no panic, and the `for len(cas) > 0` loop ends within
`len(data) + 1` iterations -/
theorem C09_src_no_panic_certificateRequestMsg_unmarshal_dtlcp (m : Src.dtlcp.certificateRequestMsg)
    (data : List (BitVec 8)) : ∃ r, Src.dtlcp.certificateRequestMsg.unmarshal m data = .ok r :=
  Tie.UnmarshalDtlcp.creq_ok m data

theorem C09_src_no_panic_serverKeyExchangeMsg_unmarshal_dtlcp (m : Src.dtlcp.serverKeyExchangeMsg)
    (data : List (BitVec 8)) : ∃ r, Src.dtlcp.serverKeyExchangeMsg.unmarshal m data = .ok r :=
  Tie.UnmarshalDtlcp.skx_ok m data

theorem C09_src_no_panic_clientKeyExchangeMsg_unmarshal_dtlcp (m : Src.dtlcp.clientKeyExchangeMsg)
    (data : List (BitVec 8)) : ∃ r, Src.dtlcp.clientKeyExchangeMsg.unmarshal m data = .ok r :=
  Tie.UnmarshalDtlcp.ckx_ok m data

theorem C09_src_no_panic_serverHelloDoneMsg_unmarshal_dtlcp (m : Src.dtlcp.serverHelloDoneMsg)
    (data : List (BitVec 8)) : ∃ r, Src.dtlcp.serverHelloDoneMsg.unmarshal m data = .ok r :=
  Tie.UnmarshalDtlcp.shd_ok m data

/-- non-vacuity: a Certificate message (message_seq 1) carrying the two entries `aa bb` and `cc` -/
def dtlcpTwoCerts : List (BitVec 8) :=
  [11, 0, 0, 12, 0, 1, 0, 0, 0, 0, 0, 12, 0, 0, 9, 0, 0, 2, 0xAA, 0xBB, 0, 0, 1, 0xCC]

example : Src.dtlcp.certificateMsg.unmarshal {} dtlcpTwoCerts =
    .ok ({ raw := dtlcpTwoCerts, certificates := [[0xAA, 0xBB], [0xCC]], messageSeq := 1#16,
           fragmentOffset := 0#32, fragmentLength := 12#32 }, true) := by rfl
-- one byte short: refused by the complete-message guard, receiver untouched
example : Src.dtlcp.certificateMsg.unmarshal {} (dtlcpTwoCerts.take 23) = .ok ({}, false) := by rfl
-- a 3-byte entry header at the very end (`len(d) < 4`): refused by the first loop
example : (Src.dtlcp.certificateMsg.unmarshal {}
    [11, 0, 0, 6, 0, 1, 0, 0, 0, 0, 0, 6, 0, 0, 3, 0, 0, 0]).map (·.2) = .ok false := by rfl
-- `dtlcpWriteHeader` on an 11-byte destination panics
example : Src.dtlcp.dtlcpWriteHeader (List.replicate 11 0#8) 1#8 0 0#16 0#32 0#32 = .error "index out of range" := by rfl

/-! ### end of translated DTLCP decoders -/

/-! ### (a) no panic: the TRANSLATED source text of the hand-written tlcp decoders

`Gotlcp.Src.tlcp.*` is regenerated from tlcp/handshake_messages.go by `harness/cmd/go2lean` on
every run (statement by statement; `a[i]`, `a[lo:hi]`, `make`, `copy` are checked helpers that
return `.error` exactly where the Go runtime panics; a `for cond {}` loop has `len(data)+1`
iterations of fuel and `.error "loop fuel exhausted"` after them).  `Gotlcp.Tie.UnmarshalTlcp`
proves by loop invariants that, for every receiver value and EVERY byte string (no bound on its
length is needed), each function returns `.ok _`. -/

section SrcTlcp
open Gotlcp.Tie.UnmarshalTlcp

-- (`C09_src_translated : Src.untranslated = []` is stated once, above, for both packages)

/-- `tlcpIsCompleteMessage`: never panics, and returns exactly "4-byte header of the given type whose
24-bit length is the number of bytes that follow" -/
theorem C09_src_no_panic_tlcpIsCompleteMessage_tlcp (data : List (BitVec 8)) (msgType : BitVec 8) :
    (∃ r, Src.tlcp.tlcpIsCompleteMessage data msgType = .ok r) ∧
    Src.tlcp.tlcpIsCompleteMessage data msgType = .ok (complete data msgType) :=
  ⟨no_panic_tlcpIsCompleteMessage data msgType, tie_isComplete data msgType⟩

/-- `certificateMsg.unmarshal`: the counting pass keeps `certsLen = len(d)` (no `uint32` wrap-around)
and stays within its fuel; the second pass, which indexes and slices WITHOUT checks, only revisits
what the first pass validated -/
theorem C09_src_no_panic_certificateMsg_unmarshal_tlcp (m : Src.tlcp.certificateMsg) (data : List (BitVec 8)) :
    ∃ r, Src.tlcp.certificateMsg.unmarshal m data = .ok r :=
  no_panic_certificateMsg_unmarshal m data

/-- `certificateRequestMsg.unmarshal` -/
theorem C09_src_no_panic_certificateRequestMsg_unmarshal_tlcp (m : Src.tlcp.certificateRequestMsg)
    (data : List (BitVec 8)) : ∃ r, Src.tlcp.certificateRequestMsg.unmarshal m data = .ok r :=
  no_panic_certificateRequestMsg_unmarshal m data

/-- `serverKeyExchangeMsg.unmarshal` -/
theorem C09_src_no_panic_serverKeyExchangeMsg_unmarshal_tlcp (m : Src.tlcp.serverKeyExchangeMsg)
    (data : List (BitVec 8)) : ∃ r, Src.tlcp.serverKeyExchangeMsg.unmarshal m data = .ok r :=
  no_panic_serverKeyExchangeMsg_unmarshal m data

/-- `clientKeyExchangeMsg.unmarshal` -/
theorem C09_src_no_panic_clientKeyExchangeMsg_unmarshal_tlcp (m : Src.tlcp.clientKeyExchangeMsg)
    (data : List (BitVec 8)) : ∃ r, Src.tlcp.clientKeyExchangeMsg.unmarshal m data = .ok r :=
  no_panic_clientKeyExchangeMsg_unmarshal m data

/-- `serverHelloDoneMsg.unmarshal` -/
theorem C09_src_no_panic_serverHelloDoneMsg_unmarshal_tlcp (m : Src.tlcp.serverHelloDoneMsg)
    (data : List (BitVec 8)) : ∃ r, Src.tlcp.serverHelloDoneMsg.unmarshal m data = .ok r :=
  no_panic_serverHelloDoneMsg_unmarshal m data

-- non-vacuity: the translated certificate decoder on a concrete message with two entries
-- (2 bytes and 1 byte) returns both certificates and `true` …
example :
    isOk (Src.tlcp.certificateMsg.unmarshal {} [11, 0, 0, 12, 0, 0, 9, 0, 0, 2, 0xaa, 0xbb, 0, 0, 1, 0xcc])
      ({ raw := [11, 0, 0, 12, 0, 0, 9, 0, 0, 2, 0xaa, 0xbb, 0, 0, 1, 0xcc],
         certificates := [[0xaa, 0xbb], [0xcc]] }, true) = true := by
  decide
-- … and refuses (returns `false`, does not panic) when the second entry claims one byte too many
example :
    isOk (Src.tlcp.certificateMsg.unmarshal {} [11, 0, 0, 12, 0, 0, 9, 0, 0, 2, 0xaa, 0xbb, 0, 0, 2, 0xcc])
      ({ raw := [11, 0, 0, 12, 0, 0, 9, 0, 0, 2, 0xaa, 0xbb, 0, 0, 2, 0xcc], certificates := [] }, false) = true := by
  decide
-- a CertificateRequest with two certificate types and one 1-byte CA name
example :
    isOk (Src.tlcp.certificateRequestMsg.unmarshal {} [13, 0, 0, 8, 2, 1, 64, 0, 3, 0, 1, 0x55])
      ({ raw := [13, 0, 0, 8, 2, 1, 64, 0, 3, 0, 1, 0x55], certificateTypes := [1, 64],
         certificateAuthorities := [[0x55]] }, true) = true := by
  decide

end SrcTlcp

end Gotlcp.Props.C09

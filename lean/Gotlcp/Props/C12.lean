/-
C12 — shutdown, end-of-stream and errors are reported faithfully and stay reported.

Property theorems over `Gotlcp.Model.ConnAPI` (call-level model of `/repo/tlcp/conn.go`) and
`Gotlcp.Model.RecordRx`.  Histories are arbitrary lists of `Call`s: API calls (`read`, `write`,
`close`, `closeWrite`, `handshake`) interleaved with transport events (`arrive`, `setWFail`), from
an arbitrary connection state.  Reading of the statement: DESIGN.md section 5, C12 (stickiness per
call kind).
-/
import Gotlcp.Lemmas.ConnAPI
import Gotlcp.Lemmas.ConnAPIEof
import Gotlcp.Lemmas.ConnAPIAlert
import Gotlcp.Generated.Facts

set_option linter.unusedSimpArgs false
set_option linter.unusedVariables false

namespace Gotlcp.Props.C12
open Gotlcp.Model.RecordRx
open Gotlcp.Model.ConnAPI
open Gotlcp.Lemmas.ConnAPI
open Gotlcp.Lemmas.RecordRx
open Gotlcp.Lemmas.ConnAPIEof
open Gotlcp.Lemmas.ConnAPIAlert

theorem C12_facts :
    Facts.missing = [] ∧
    Facts.tlcp.apiReadChecksClosed = true ∧
    Facts.tlcp.apiWriteChecksClosed = true ∧
    Facts.tlcp.apiCloseChecksClosed = true ∧
    Facts.tlcp.apiWriteChecksShutdown = true ∧
    Facts.tlcp.apiWriteChecksOutErr = true ∧
    Facts.tlcp.apiWriteLatchesErr = true ∧
    Facts.tlcp.apiCloseNotifyOnce = true ∧
    Facts.tlcp.apiEOFRule = true ∧
    Facts.tlcp.apiTempNotLatched = 2 ∧
    Facts.tlcp.apiHandshakeErrLatched = true ∧
    Facts.tlcp.apiCtxErrReturned = true ∧
    Facts.tlcp.apiInterrupterCloses = true ∧
    Facts.tlcp.apiCloseWriteNeedsHandshake = true ∧
    Facts.tlcp.rxLatchCheckedFirst = true ∧
    Facts.tlcp.rxAppDataNeedsCipher = true ∧
    Facts.tlcp.rxAppDataGuard = "!handshakeComplete || expectChangeCipherSpec" ∧
    Facts.tlcp.rxWarningLevelAlerts = [Facts.tlcp.alertNoRenegotiation, Facts.tlcp.alertCloseNotify] ∧
    Facts.tlcp.recordTypeAlert ≠ Facts.tlcp.recordTypeApplicationData ∧
    Facts.tlcp.recordTypeChangeCipherSpec ≠ Facts.tlcp.recordTypeApplicationData := by
  decide

/-- `c.in.setErrorLocked(c.sendAlert(a))` is "send the alert, then latch the local error" — what the
model's `failAlert` / `outErrAfter` transcribe — only if `sendAlert` and `sendAlertLocked` consist of
exactly these statements: no early return, no dependence on `closeNotifySent` or any other state. -/
theorem C12_facts_sendAlert :
    Facts.tlcp.rxSendAlertStmts = ["c.out.Lock()", "defer c.out.Unlock()", "if c.config != nil && c.config.OnAlert != nil { c.config.OnAlert(uint8(err), c) }", "return c.sendAlertLocked(err)"] ∧
    Facts.tlcp.rxSendAlertLockedStmts = ["switch err { case alertNoRenegotiation, alertCloseNotify: c.tmp[0] = alertLevelWarning default: c.tmp[0] = alertLevelError }", "c.tmp[1] = byte(err)", "_, writeErr := c.writeRecordLocked(recordTypeAlert, c.tmp[0:2])", "if err == alertCloseNotify { return writeErr }", "return c.out.setErrorLocked(&net.OpError{Op: \"local error\", Err: err})"] :=
  ⟨rfl, rfl⟩

/-- the statements the model's `closeNotify` / `closeWrite` (the write side is marked shut down
whatever happened to the alert; the recorded result is what every later call returns) and the
look-ahead of `read` (`lookAhead`: only with `c.input` drained and an alert buffered) transcribe -/
theorem C12_facts_shutdown :
    Facts.tlcp.apiCloseNotifyStmts = ["c.out.Lock()", "defer c.out.Unlock()", "if !c.closeNotifySent { c.SetWriteDeadline(time.Now().Add(time.Second * 5)) c.closeNotifyErr = c.sendAlertLocked(alertCloseNotify) c.closeNotifySent = true c.SetWriteDeadline(time.Now()) }", "return c.closeNotifyErr"] ∧
    Facts.tlcp.apiCloseWriteStmts = ["if !c.handshakeComplete() { return errEarlyCloseWrite }", "return c.closeNotify()"] ∧
    Facts.tlcp.apiReadLoopCond = "c.input.Len() == 0" ∧
    Facts.tlcp.apiLookAheadCond = "n != 0 && c.input.Len() == 0 && c.rawInput.Len() > 0 && recordType(c.rawInput.Bytes()[0]) == recordTypeAlert" ∧
    Facts.tlcp.apiLookAheadBody = "{ if err := c.readRecord(); err != nil { return n, err } }" :=
  ⟨rfl, rfl, rfl, rfl, rfl⟩

/-- the Write / Close interlock on `c.activeCall` the model's `close` (the branch taken while a
`Write` is in flight), `write` and `writeStart` transcribe: `Close` sets the close bit in a
compare-and-swap loop that retries until it succeeds — whatever the number of Writes in flight
(`x|1`) — and only then looks at that number; with a Write in flight it closes the transport and
returns; `Write` refuses a closed connection and counts itself in and out -/
theorem C12_facts_interlock :
    Facts.tlcp.apiCloseInterlockStmts = ["var x int32", "for { x = atomic.LoadInt32(&c.activeCall) if x&1 != 0 { return net.ErrClosed } if atomic.CompareAndSwapInt32(&c.activeCall, x, x|1) { break } }", "if x != 0 { return c.conn.Close() }"] ∧
    Facts.tlcp.apiWriteInterlockStmts = ["for { x := atomic.LoadInt32(&c.activeCall) if x&1 != 0 { return 0, net.ErrClosed } if atomic.CompareAndSwapInt32(&c.activeCall, x, x+2) { break } }", "defer atomic.AddInt32(&c.activeCall, -2)"] :=
  ⟨rfl, rfl⟩

/-- `handshakeContext` watches every context that can be cancelled (not only those with a deadline):
the model's `handshake c true` = "the interrupter closed the transport" presupposes it -/
theorem C12_facts_cancel : Facts.tlcp.apiInterrupterCond = "ctx.Done() != nil" := rfl

/-! ### frames: which fields a call can touch -/

theorem handshake_frame (c : Conn) (cb : Bool) :
    (handshake c cb).1.closedBit = c.closedBit ∧ (handshake c cb).1.cnSent = c.cnSent ∧
    (handshake c cb).1.rcc = c.rcc ∧ (handshake c cb).1.rx = c.rx ∧ (handshake c cb).1.inErrX = c.inErrX ∧
    (handshake c cb).1.outErr = c.outErr ∧ (handshake c cb).1.queue = c.queue ∧
    ((handshake c cb).2 = none → (handshake c cb).1.hsDone = true) ∧
    (∀ e, (handshake c cb).2 = some e → (handshake c cb).1.hsDone = false ∧ (handshake c cb).1.hsErr.isSome = true) ∧
    (c.hsDone = false → c.hsErr.isSome = true → (handshake c cb).1 = c ∧ (handshake c cb).2 = c.hsErr) ∧
    (c.hsDone = true → (handshake c cb).1 = c ∧ (handshake c cb).2 = none) := by
  unfold handshake
  cases hd : c.hsDone <;> cases he : c.hsErr <;> cases cb <;> cases hl : c.localClosed <;>
    cases hs : c.hsScript <;> simp [hd, he, hl, hs]

/-- the handshake has failed for good -/
def HsFailed (c : Conn) : Prop := c.hsDone = false ∧ c.hsErr.isSome = true

/-- writes have failed for good -/
def WriteDead (c : Conn) : Prop :=
  c.closedBit = true ∨ HsFailed c ∨ c.outErr.isSome = true ∨ c.cnSent = true

/-- reads have failed for good -/
def ReadDead (c : Conn) : Prop :=
  HsFailed c ∨ (c.rcc = true ∧ c.closedBit = true) ∨ (c.inErrX.isSome = true ∧ c.rx.input = []) ∨
  (c.rx.err.isSome = true ∧ c.rx.input = [])

theorem read_frame (c : Conn) (n : Nat) :
    (read c n).1.closedBit = c.closedBit ∧ (read c n).1.cnSent = c.cnSent ∧ (read c n).1.rcc = c.rcc ∧
    (c.outErr.isSome = true → (read c n).1.outErr.isSome = true) ∧
    (HsFailed c → (read c n).1 = c) ∧
    (c.hsDone = true → (read c n).1.hsDone = true ∧ (read c n).1.hsErr = c.hsErr) := by
  obtain ⟨f1, f2, f3, f4, f5, f6, f7, f8, f9, f10, f11⟩ := handshake_frame c false
  unfold Model.ConnAPI.read
  by_cases hrc : (c.rcc && c.closedBit) = true
  · simp only [hrc, if_true]
    simp
  simp only [hrc, Bool.false_eq_true, if_false]
  generalize hh : handshake c false = hr at *
  obtain ⟨c1, e1⟩ := hr
  simp only at f1 f2 f3 f4 f5 f6 f7 f8 f9 f10 f11
  have hdone : c.hsDone = true → c1.hsDone = true ∧ c1.hsErr = c.hsErr := by
    intro h; have := (f11 h).1; subst this; exact ⟨h, rfl⟩
  cases e1 with
  | some e =>
    simp only
    exact ⟨f1, f2, f3, fun h => by rw [f6]; exact h, fun h => (f10 h.1 h.2).1, hdone⟩
  | none =>
    simp only
    have hnf : ¬ HsFailed c := by
      intro h; have := (f10 h.1 h.2).2
      have h2 := h.2
      rw [← this] at h2; simp at h2
    have houtA : ∀ (a b : RxState), c1.outErr.isSome = true → (outErrAfter a b c1.outErr).isSome = true := by
      intro a b h; unfold outErrAfter; split <;> simp [h]
    repeat' split
    all_goals simp only
    all_goals refine ⟨?_, ?_, ?_, ?_, fun h => absurd h hnf, ?_⟩
    all_goals first
      | exact f1 | exact f2 | exact f3 | exact hdone
      | (intro h; rw [← f6] at h; first | exact h | exact houtA _ _ h)
      | skip
    all_goals simp_all

theorem write_frame (c : Conn) (d : Bytes) :
    (write c d).1.rx = c.rx ∧ (write c d).1.inErrX = c.inErrX ∧ (write c d).1.rcc = c.rcc ∧
    (write c d).1.closedBit = c.closedBit ∧ (write c d).1.cnSent = c.cnSent ∧
    (c.outErr.isSome = true → (write c d).1.outErr.isSome = true) ∧
    (HsFailed c → (write c d).1 = c) ∧
    (c.hsDone = true → (write c d).1.hsDone = true ∧ (write c d).1.hsErr = c.hsErr) := by
  obtain ⟨f1, f2, f3, f4, f5, f6, f7, f8, f9, f10, f11⟩ := handshake_frame c false
  unfold Model.ConnAPI.write
  by_cases hcb : c.closedBit = true
  · simp only [hcb, if_true]
    simp
  simp only [hcb, Bool.false_eq_true, if_false]
  generalize hh : handshake c false = hr at *
  obtain ⟨c1, e1⟩ := hr
  simp only at f1 f2 f3 f4 f5 f6 f7 f8 f9 f10 f11
  have hdone : c.hsDone = true → c1.hsDone = true ∧ c1.hsErr = c.hsErr := by
    intro h; have := (f11 h).1; subst this; exact ⟨h, rfl⟩
  have hfail : HsFailed c → c1 = c := fun h => (f10 h.1 h.2).1
  cases e1 with
  | some e => simp only; exact ⟨f4, f5, f3, by simp_all, f2, fun h => by rw [f6]; exact h, hfail, hdone⟩
  | none =>
    simp only
    have hnf : ¬ HsFailed c := by
      intro h; have := (f10 h.1 h.2).2
      have h2 := h.2
      rw [← this] at h2; simp at h2
    repeat' split
    all_goals simp only
    all_goals refine ⟨?_, ?_, ?_, ?_, ?_, ?_, fun h => absurd h hnf, ?_⟩
    all_goals first
      | exact f4 | exact f5 | exact f3 | exact f1 | exact f2 | exact hdone
      | (intro h; rw [← f6] at h; exact h)
      | skip
    all_goals simp_all

theorem closeNotify_frame (c : Conn) :
    (closeNotify c).1.rx = c.rx ∧ (closeNotify c).1.inErrX = c.inErrX ∧ (closeNotify c).1.rcc = c.rcc ∧
    (closeNotify c).1.closedBit = c.closedBit ∧ (closeNotify c).1.cnSent = true ∧
    (closeNotify c).1.outErr = c.outErr ∧ (closeNotify c).1.hsDone = c.hsDone ∧ (closeNotify c).1.hsErr = c.hsErr := by
  unfold closeNotify; split <;> simp_all

theorem closeSend_frame (c : Conn) :
    (closeSend c).1.rx = c.rx ∧ (closeSend c).1.inErrX = c.inErrX ∧ (closeSend c).1.rcc = c.rcc ∧
    (closeSend c).1.closedBit = c.closedBit ∧ (c.cnSent = true → (closeSend c).1.cnSent = true) ∧
    (closeSend c).1.outErr = c.outErr ∧ (closeSend c).1.hsDone = c.hsDone ∧ (closeSend c).1.hsErr = c.hsErr := by
  obtain ⟨g1, g2, g3, g4, g5, g6, g7, g8⟩ := closeNotify_frame c
  unfold closeSend
  split
  · exact ⟨g1, g2, g3, g4, fun _ => g5, g6, g7, g8⟩
  · simp

theorem close_frame (c : Conn) :
    (close c).1.rx = c.rx ∧ (close c).1.inErrX = c.inErrX ∧ (close c).1.rcc = c.rcc ∧
    (close c).1.closedBit = true ∧ (c.cnSent = true → (close c).1.cnSent = true) ∧
    (close c).1.outErr = c.outErr ∧ (close c).1.hsDone = c.hsDone ∧ (close c).1.hsErr = c.hsErr ∧
    (c.closedBit = true → (close c).2 = .err .closed) := by
  unfold Model.ConnAPI.close
  by_cases hcb : c.closedBit = true
  · simp [hcb]
  · obtain ⟨g1, g2, g3, g4, g5, g6, g7, g8⟩ := closeSend_frame { c with closedBit := true }
    simp only [hcb, Bool.false_eq_true, if_false]
    by_cases hfl : c.inflight.isSome = true
    · simp [hfl]
    simp only [hfl, Bool.false_eq_true, if_false]
    exact ⟨g1, g2, g3, g4, g5, g6, g7, g8, fun h => absurd h (by simp)⟩

theorem closeWrite_frame (c : Conn) :
    (closeWrite c).1.rx = c.rx ∧ (closeWrite c).1.inErrX = c.inErrX ∧ (closeWrite c).1.rcc = c.rcc ∧
    (closeWrite c).1.closedBit = c.closedBit ∧ (c.cnSent = true → (closeWrite c).1.cnSent = true) ∧
    (closeWrite c).1.outErr = c.outErr ∧ (closeWrite c).1.hsDone = c.hsDone ∧ (closeWrite c).1.hsErr = c.hsErr ∧
    ((closeWrite c).2 ≠ .err .earlyCloseWrite → (closeWrite c).2 ≠ .wouldBlock → (closeWrite c).1.cnSent = true) := by
  unfold closeWrite
  by_cases hd : c.hsDone = true
  · obtain ⟨g1, g2, g3, g4, g5, g6, g7, g8⟩ := closeNotify_frame c
    simp only [hd, Bool.not_true, Bool.false_eq_true, if_false]
    by_cases hfl : (c.inflight.isSome && !c.cnSent) = true
    · simp only [hfl, if_true]; simp at hfl; simp [hfl, hd]
    simp only [hfl, Bool.false_eq_true, if_false]
    generalize closeNotify c = r at *
    obtain ⟨c2, ae⟩ := r
    simp only at g1 g2 g3 g4 g5 g6 g7 g8
    cases ae <;> simp_all
  · simp [hd]

theorem writeStart_frame (c : Conn) (d : Bytes) :
    (writeStart c d).1.rx = c.rx ∧ (writeStart c d).1.inErrX = c.inErrX ∧ (writeStart c d).1.rcc = c.rcc ∧
    (writeStart c d).1.closedBit = c.closedBit ∧ (writeStart c d).1.cnSent = c.cnSent ∧
    (c.outErr.isSome = true → (writeStart c d).1.outErr.isSome = true) ∧
    (HsFailed c → (writeStart c d).1 = c) ∧
    (c.hsDone = true → (writeStart c d).1.hsDone = true ∧ (writeStart c d).1.hsErr = c.hsErr) := by
  obtain ⟨f1, f2, f3, f4, f5, f6, f7, f8, f9, f10, f11⟩ := handshake_frame c false
  unfold Model.ConnAPI.writeStart
  by_cases hcb : c.closedBit = true
  · simp only [hcb, if_true]
    simp
  simp only [hcb, Bool.false_eq_true, if_false]
  generalize hh : handshake c false = hr at *
  obtain ⟨c1, e1⟩ := hr
  simp only at f1 f2 f3 f4 f5 f6 f7 f8 f9 f10 f11
  have hdone : c.hsDone = true → c1.hsDone = true ∧ c1.hsErr = c.hsErr := by
    intro h; have := (f11 h).1; subst this; exact ⟨h, rfl⟩
  have hfail : HsFailed c → c1 = c := fun h => (f10 h.1 h.2).1
  cases e1 with
  | some e => simp only; exact ⟨f4, f5, f3, by simp_all, f2, fun h => by rw [f6]; exact h, hfail, hdone⟩
  | none =>
    simp only
    have hnf : ¬ HsFailed c := by
      intro h; have := (f10 h.1 h.2).2
      have h2 := h.2
      rw [← this] at h2; simp at h2
    repeat' split
    all_goals simp only
    all_goals refine ⟨?_, ?_, ?_, ?_, ?_, ?_, fun h => absurd h hnf, ?_⟩
    all_goals first
      | exact f4 | exact f5 | exact f3 | exact f1 | exact f2 | exact hdone
      | (intro h; rw [← f6] at h; exact h)
      | skip
    all_goals simp_all

theorem writeEnd_frame (c : Conn) :
    (writeEnd c).1.rx = c.rx ∧ (writeEnd c).1.inErrX = c.inErrX ∧ (writeEnd c).1.rcc = c.rcc ∧
    (writeEnd c).1.closedBit = c.closedBit ∧ (writeEnd c).1.cnSent = c.cnSent ∧
    (c.outErr.isSome = true → (writeEnd c).1.outErr.isSome = true) ∧
    (writeEnd c).1.hsDone = c.hsDone ∧ (writeEnd c).1.hsErr = c.hsErr ∧
    (writeEnd c).1.cnErr = c.cnErr ∧ (writeEnd c).1.inflight = none := by
  unfold Model.ConnAPI.writeEnd
  cases hfl : c.inflight with
  | none => simp [hfl]
  | some data =>
    simp only
    split <;> simp

theorem step_handshake_fst (c : Conn) (cb : Bool) : (step c (.handshake cb)).1 = (handshake c cb).1 := by
  simp only [step]
  generalize handshake c cb = r
  obtain ⟨c1, e1⟩ := r
  cases e1 <;> rfl

theorem step_arrive_frame (c : Conn) (it : InItem) :
    (step c (.arrive it)).1.rx = c.rx ∧ (step c (.arrive it)).1.inErrX = c.inErrX ∧
    (step c (.arrive it)).1.rcc = c.rcc ∧ (step c (.arrive it)).1.closedBit = c.closedBit ∧
    (step c (.arrive it)).1.cnSent = c.cnSent ∧ (step c (.arrive it)).1.outErr = c.outErr ∧
    (step c (.arrive it)).1.hsDone = c.hsDone ∧ (step c (.arrive it)).1.hsErr = c.hsErr := by
  simp only [step]
  split <;> simp

/-! ### the three "dead" predicates are closed under every step -/

theorem hsFailed_step (c : Conn) (k : Call) (h : HsFailed c) : HsFailed (step c k).1 := by
  cases k with
  | read n => rw [show (step c (.read n)).1 = (read c n).1 from rfl, (read_frame c n).2.2.2.2.1 h]; exact h
  | write d => rw [show (step c (.write d)).1 = (write c d).1 from rfl, (write_frame c d).2.2.2.2.2.2.1 h]; exact h
  | close =>
    obtain ⟨_, _, _, _, _, _, g7, g8, _⟩ := close_frame c
    exact ⟨by rw [show (step c .close).1 = (close c).1 from rfl, g7]; exact h.1,
           by rw [show (step c .close).1 = (close c).1 from rfl, g8]; exact h.2⟩
  | closeWrite =>
    obtain ⟨_, _, _, _, _, _, g7, g8, _⟩ := closeWrite_frame c
    exact ⟨by rw [show (step c .closeWrite).1 = (closeWrite c).1 from rfl, g7]; exact h.1,
           by rw [show (step c .closeWrite).1 = (closeWrite c).1 from rfl, g8]; exact h.2⟩
  | handshake cb =>
    rw [step_handshake_fst, ((handshake_frame c cb).2.2.2.2.2.2.2.2.2.1 h.1 h.2).1]; exact h
  | arrive it =>
    obtain ⟨_, _, _, _, _, _, g7, g8⟩ := step_arrive_frame c it
    exact ⟨by rw [g7]; exact h.1, by rw [g8]; exact h.2⟩
  | setWFail w => exact h
  | writeStart d => rw [show (step c (.writeStart d)).1 = (writeStart c d).1 from rfl, (writeStart_frame c d).2.2.2.2.2.2.1 h]; exact h
  | writeEnd =>
    obtain ⟨_, _, _, _, _, _, g7, g8, _⟩ := writeEnd_frame c
    exact ⟨by rw [show (step c .writeEnd).1 = (writeEnd c).1 from rfl, g7]; exact h.1,
           by rw [show (step c .writeEnd).1 = (writeEnd c).1 from rfl, g8]; exact h.2⟩

/-- C12 (handshake): once `Handshake` has returned an error, every later `Handshake` — after any
history of other calls and transport events — returns an error as well. -/
theorem C12_sticky_handshake (c : Conn) (cb : Bool) (e : ApiErr) (hist : List Call) (cb' : Bool)
    (h : (handshake c cb).2 = some e) :
    ∃ e', (handshake (after (handshake c cb).1 hist) cb').2 = some e' := by
  have h0 : HsFailed (handshake c cb).1 := (handshake_frame c cb).2.2.2.2.2.2.2.2.1 e h
  have hall : ∀ (hist : List Call) (c : Conn), HsFailed c → HsFailed (after c hist) := by
    intro hist
    induction hist with
    | nil => intro c h; exact h
    | cons k ks ih => intro c h; exact ih _ (hsFailed_step c k h)
  have h1 := hall hist _ h0
  have := ((handshake_frame (after (handshake c cb).1 hist) cb').2.2.2.2.2.2.2.2.2.1 h1.1 h1.2).2
  rw [this]
  cases he : (after (handshake c cb).1 hist).hsErr with
  | none => simp [HsFailed, he] at h1
  | some e' => exact ⟨e', rfl⟩

/-- C12 (context): a context cancelled while the handshake runs makes `HandshakeContext` return
the context's error, and the handshake stays failed.  (That the interrupter goroutine wins the
race against a handshake that is just completing is a property of the runtime, not modelled.) -/
theorem C12_cancel_returns_ctx_err (c : Conn) (h1 : c.hsDone = false) (h2 : c.hsErr = none) :
    (handshake c true).2 = some .ctxCanceled ∧ HsFailed (handshake c true).1 := by
  simp [handshake, h1, h2, HsFailed]

theorem writeDead_step (c : Conn) (k : Call) (h : WriteDead c) : WriteDead (step c k).1 := by
  rcases h with h | h | h | h
  · left
    cases k with
    | read n => rw [show (step c (.read n)).1 = (read c n).1 from rfl, (read_frame c n).1]; exact h
    | write d => rw [show (step c (.write d)).1 = (write c d).1 from rfl, (write_frame c d).2.2.2.1]; exact h
    | close => exact (close_frame c).2.2.2.1
    | closeWrite => rw [show (step c .closeWrite).1 = (closeWrite c).1 from rfl, (closeWrite_frame c).2.2.2.1]; exact h
    | handshake cb => rw [step_handshake_fst, (handshake_frame c cb).1]; exact h
    | arrive it => rw [(step_arrive_frame c it).2.2.2.1]; exact h
    | setWFail w => exact h
    | writeStart d => rw [show (step c (.writeStart d)).1 = (writeStart c d).1 from rfl, (writeStart_frame c d).2.2.2.1]; exact h
    | writeEnd => rw [show (step c .writeEnd).1 = (writeEnd c).1 from rfl, (writeEnd_frame c).2.2.2.1]; exact h
  · right; left; exact hsFailed_step c k h
  · right; right; left
    cases k with
    | read n => exact (read_frame c n).2.2.2.1 h
    | write d => exact (write_frame c d).2.2.2.2.2.1 h
    | close => rw [show (step c .close).1 = (close c).1 from rfl, (close_frame c).2.2.2.2.2.1]; exact h
    | closeWrite => rw [show (step c .closeWrite).1 = (closeWrite c).1 from rfl, (closeWrite_frame c).2.2.2.2.2.1]; exact h
    | handshake cb => rw [step_handshake_fst, (handshake_frame c cb).2.2.2.2.2.1]; exact h
    | arrive it => rw [(step_arrive_frame c it).2.2.2.2.2.1]; exact h
    | setWFail w => exact h
    | writeStart d => exact (writeStart_frame c d).2.2.2.2.2.1 h
    | writeEnd => exact (writeEnd_frame c).2.2.2.2.2.1 h
  · right; right; right
    cases k with
    | read n => rw [show (step c (.read n)).1 = (read c n).1 from rfl, (read_frame c n).2.1]; exact h
    | write d => rw [show (step c (.write d)).1 = (write c d).1 from rfl, (write_frame c d).2.2.2.2.1]; exact h
    | close => exact (close_frame c).2.2.2.2.1 h
    | closeWrite => exact (closeWrite_frame c).2.2.2.2.1 h
    | handshake cb => rw [step_handshake_fst, (handshake_frame c cb).2.1]; exact h
    | arrive it => rw [(step_arrive_frame c it).2.2.2.2.1]; exact h
    | setWFail w => exact h
    | writeStart d => rw [show (step c (.writeStart d)).1 = (writeStart c d).1 from rfl, (writeStart_frame c d).2.2.2.2.1]; exact h
    | writeEnd => rw [show (step c .writeEnd).1 = (writeEnd c).1 from rfl, (writeEnd_frame c).2.2.2.2.1]; exact h

theorem writeDead_after (hist : List Call) : ∀ c, WriteDead c → WriteDead (after c hist) := by
  induction hist with
  | nil => intro c h; exact h
  | cons k ks ih => intro c h; exact ih _ (writeDead_step c k h)

/-- a write on a connection whose write side is dead fails -/
theorem write_dead (c : Conn) (d : Bytes) (h : WriteDead c) : ∃ e, (write c d).2 = .err e := by
  obtain ⟨f1, f2, f3, f4, f5, f6, f7, f8, f9, f10, f11⟩ := handshake_frame c false
  unfold Model.ConnAPI.write
  by_cases hcb : c.closedBit = true
  · exact ⟨.closed, by simp [hcb]⟩
  simp only [hcb, Bool.false_eq_true, if_false]
  generalize hh : handshake c false = hr at *
  obtain ⟨c1, e1⟩ := hr
  simp only at f1 f2 f3 f4 f5 f6 f7 f8 f9 f10 f11
  cases e1 with
  | some e => exact ⟨e, rfl⟩
  | none =>
    simp only
    rcases h with h | h | h | h
    · exact absurd h hcb
    · have := (f10 h.1 h.2).2
      cases he : c.hsErr with
      | none => simp [HsFailed, he] at h
      | some e => rw [he] at this; cases this
    · rw [← f6] at h
      cases ho : c1.outErr with
      | none => simp [ho] at h
      | some e => exact ⟨e, by simp [ho]⟩
    · rw [← f2] at h
      cases ho : c1.outErr with
      | some e => exact ⟨e, by simp [ho]⟩
      | none =>
        simp only [ho]
        by_cases hd : c1.hsDone = true
        · exact ⟨.shutdown, by simp [hd, h]⟩
        · exact ⟨.internal, by simp [hd]⟩

/-- a failed write leaves the write side dead -/
theorem write_err_dead (c : Conn) (d : Bytes) (e : ApiErr) (h : (write c d).2 = .err e) : WriteDead (write c d).1 := by
  obtain ⟨f1, f2, f3, f4, f5, f6, f7, f8, f9, f10, f11⟩ := handshake_frame c false
  unfold Model.ConnAPI.write at h ⊢
  by_cases hcb : c.closedBit = true
  · simp only [hcb, if_true]; exact Or.inl hcb
  simp only [hcb, Bool.false_eq_true, if_false] at h ⊢
  generalize hh : handshake c false = hr at *
  obtain ⟨c1, e1⟩ := hr
  simp only at f1 f2 f3 f4 f5 f6 f7 f8 f9 f10 f11
  cases e1 with
  | some e' => simp only; exact Or.inr (Or.inl (f9 e' rfl))
  | none =>
    simp only at h ⊢
    have hd := f8 rfl
    cases ho : c1.outErr with
    | some e' => simp only [ho]; exact Or.inr (Or.inr (Or.inl (by simp [ho])))
    | none =>
      simp only [ho, hd, Bool.not_true, Bool.false_eq_true, if_false] at h ⊢
      by_cases hcn : c1.cnSent = true
      · simp only [hcn, if_true]; exact Or.inr (Or.inr (Or.inr hcn))
      · simp only [hcn, Bool.false_eq_true, if_false] at h ⊢
        by_cases hfl : c1.inflight.isSome = true
        · simp [hfl] at h
        simp only [hfl, Bool.false_eq_true, if_false] at h ⊢
        by_cases hde : d = []
        · simp [hde] at h
        · simp only [hde, if_false] at h ⊢
          cases hw : wErr c1 with
          | none => simp [hw] at h
          | some e' => simp only [hw]; exact Or.inr (Or.inr (Or.inl (by simp)))

/-- C12 (write): once `Write` has returned an error, every later `Write` — after any history of
other calls and transport events — fails too.  (Every write error is latched, also a timeout:
`setErrorLocked` wraps it into a permanent error.) -/
theorem C12_sticky_write (c : Conn) (d : Bytes) (e : ApiErr) (hist : List Call) (d' : Bytes)
    (h : (write c d).2 = .err e) :
    ∃ e', (write (after (write c d).1 hist) d').2 = .err e' :=
  write_dead _ _ (writeDead_after hist _ (write_err_dead c d e h))

/-- C12 (shutdown of the write side): after `CloseWrite` — whatever it returned, unless it refused
to act because the handshake has not completed: also when the transport failed exactly at the
close_notify record and works again afterwards — every later `Write` fails.  (`closeNotify` sets
`closeNotifySent` whatever `sendAlertLocked` returned: `C12_facts_shutdown`.) -/
theorem C12_write_after_closewrite (c : Conn) (hist : List Call) (d : Bytes)
    (h : (closeWrite c).2 ≠ .err .earlyCloseWrite) (hret : (closeWrite c).2 ≠ .wouldBlock) :
    ∃ e, (write (after (closeWrite c).1 hist) d).2 = .err e :=
  write_dead _ _ (writeDead_after hist _ (Or.inr (Or.inr (Or.inr ((closeWrite_frame c).2.2.2.2.2.2.2.2 h hret)))))

/-- the shutdown of the write side has been attempted and its result is recorded -/
def CnDone (c : Conn) (r : Option ApiErr) : Prop := c.hsDone = true ∧ c.cnSent = true ∧ c.cnErr = r

theorem handshake_cn (c : Conn) (cb : Bool) :
    (handshake c cb).1.cnErr = c.cnErr ∧ (handshake c cb).1.outLog = c.outLog ∧
    (c.hsDone = true → (handshake c cb).1.hsDone = true) := by
  unfold handshake
  cases hd : c.hsDone <;> cases he : c.hsErr <;> cases cb <;> cases hl : c.localClosed <;>
    cases hs : c.hsScript <;> simp [hd, he, hl, hs]

theorem read_cn (c : Conn) (n : Nat) : (read c n).1.cnErr = c.cnErr ∧ (read c n).1.outLog = c.outLog := by
  obtain ⟨h1, h2, _⟩ := handshake_cn c false
  unfold Model.ConnAPI.read
  generalize handshake c false = hr at h1 h2
  obtain ⟨c1, e1⟩ := hr
  simp only at h1 h2
  repeat' split
  all_goals simp_all

theorem write_cn (c : Conn) (d : Bytes) : (write c d).1.cnErr = c.cnErr := by
  obtain ⟨h1, h2, _⟩ := handshake_cn c false
  unfold Model.ConnAPI.write
  generalize handshake c false = hr at h1 h2
  obtain ⟨c1, e1⟩ := hr
  simp only at h1 h2
  repeat' split
  all_goals simp_all

theorem writeStart_cn (c : Conn) (d : Bytes) : (writeStart c d).1.cnErr = c.cnErr := by
  obtain ⟨h1, h2, _⟩ := handshake_cn c false
  unfold Model.ConnAPI.writeStart
  generalize handshake c false = hr at h1 h2
  obtain ⟨c1, e1⟩ := hr
  simp only at h1 h2
  repeat' split
  all_goals simp_all

theorem closeNotify_done (c : Conn) (r : Option ApiErr) (hs : c.cnSent = true) (he : c.cnErr = r) :
    closeNotify c = (c, r) := by
  unfold closeNotify; simp [hs, he]

theorem cnDone_step (c : Conn) (k : Call) (r : Option ApiErr) (h : CnDone c r) : CnDone (step c k).1 r := by
  obtain ⟨hd, hs, he⟩ := h
  cases k with
  | read n =>
    exact ⟨((read_frame c n).2.2.2.2.2 hd).1, by rw [show (step c (.read n)).1 = (read c n).1 from rfl, (read_frame c n).2.1]; exact hs,
      by rw [show (step c (.read n)).1 = (read c n).1 from rfl, (read_cn c n).1]; exact he⟩
  | write d =>
    exact ⟨((write_frame c d).2.2.2.2.2.2.2 hd).1, by rw [show (step c (.write d)).1 = (write c d).1 from rfl, (write_frame c d).2.2.2.2.1]; exact hs,
      by rw [show (step c (.write d)).1 = (write c d).1 from rfl, write_cn c d]; exact he⟩
  | close =>
    show CnDone (close c).1 r
    unfold Model.ConnAPI.close
    by_cases hcb : c.closedBit = true
    · simp only [hcb, if_true]; exact ⟨hd, hs, he⟩
    · simp only [hcb, Bool.false_eq_true, if_false]
      by_cases hfl : c.inflight.isSome = true
      · simp only [hfl, if_true]; exact ⟨hd, hs, he⟩
      simp only [hfl, Bool.false_eq_true, if_false]
      have : closeSend { c with closedBit := true } = ({ c with closedBit := true }, r) := by
        unfold closeSend; simp only [hd, if_true]; exact closeNotify_done _ r hs he
      rw [this]; exact ⟨hd, hs, he⟩
  | closeWrite =>
    show CnDone (closeWrite c).1 r
    unfold closeWrite
    simp only [hd, hs, Bool.not_true, Bool.and_false, Bool.false_eq_true, if_false, closeNotify_done c r hs he]
    cases r <;> exact ⟨hd, hs, he⟩
  | handshake cb =>
    rw [step_handshake_fst]
    exact ⟨(handshake_cn c cb).2.2 hd, by rw [(handshake_frame c cb).2.1]; exact hs, by rw [(handshake_cn c cb).1]; exact he⟩
  | arrive it =>
    obtain ⟨_, _, _, _, g5, _, g7, _⟩ := step_arrive_frame c it
    refine ⟨by rw [g7]; exact hd, by rw [g5]; exact hs, ?_⟩
    simp only [step]; split <;> exact he
  | setWFail w => exact ⟨hd, hs, he⟩
  | writeStart d =>
    exact ⟨((writeStart_frame c d).2.2.2.2.2.2.2 hd).1, by rw [show (step c (.writeStart d)).1 = (writeStart c d).1 from rfl, (writeStart_frame c d).2.2.2.2.1]; exact hs,
      by rw [show (step c (.writeStart d)).1 = (writeStart c d).1 from rfl, writeStart_cn c d]; exact he⟩
  | writeEnd =>
    obtain ⟨_, _, _, _, g5, _, g7, _, g9, _⟩ := writeEnd_frame c
    exact ⟨by rw [show (step c .writeEnd).1 = (writeEnd c).1 from rfl, g7]; exact hd,
      by rw [show (step c .writeEnd).1 = (writeEnd c).1 from rfl, g5]; exact hs,
      by rw [show (step c .writeEnd).1 = (writeEnd c).1 from rfl, g9]; exact he⟩

/-! ### the Write in flight holds `c.out`

`closeNotifySent` changes only under `c.out`; a Write gets in flight only past the test of that flag.
So in every state a history can reach, a Write in flight means the flag is clear. -/

/-- the Write in flight (if any) got past `if c.closeNotifySent` and the flag has not changed since -/
def InflightOk (c : Conn) : Prop := c.inflight.isSome = true → c.cnSent = false

theorem handshake_inflight (c : Conn) (cb : Bool) : (handshake c cb).1.inflight = c.inflight := by
  unfold handshake
  cases hd : c.hsDone <;> cases he : c.hsErr <;> cases cb <;> cases hl : c.localClosed <;>
    cases hs : c.hsScript <;> simp [hd, he, hl, hs]

theorem read_inflight (c : Conn) (n : Nat) : (read c n).1.inflight = c.inflight := by
  have h1 := handshake_inflight c false
  unfold Model.ConnAPI.read
  generalize handshake c false = hr at h1
  obtain ⟨c1, e1⟩ := hr
  simp only at h1
  repeat' split
  all_goals simp_all

theorem write_inflight (c : Conn) (d : Bytes) : (write c d).1.inflight = c.inflight := by
  have h1 := handshake_inflight c false
  unfold Model.ConnAPI.write
  generalize handshake c false = hr at h1
  obtain ⟨c1, e1⟩ := hr
  simp only at h1
  repeat' split
  all_goals simp_all

theorem closeNotify_inflight (c : Conn) : (closeNotify c).1.inflight = c.inflight := by
  unfold closeNotify; split <;> simp

theorem close_inflight (c : Conn) : (close c).1.inflight = c.inflight := by
  unfold Model.ConnAPI.close closeSend
  have := closeNotify_inflight { c with closedBit := true }
  repeat' split
  all_goals simp_all

theorem closeWrite_inflight (c : Conn) : (closeWrite c).1.inflight = c.inflight := by
  unfold closeWrite
  have := closeNotify_inflight c
  generalize closeNotify c = r at this
  obtain ⟨c2, e2⟩ := r
  repeat' split
  all_goals simp_all

/-- a Write gets in flight only with `closeNotifySent` clear -/
theorem writeStart_inflight (c : Conn) (d : Bytes) :
    (writeStart c d).1.inflight = c.inflight ∨ (c.cnSent = false ∧ (writeStart c d).1.inflight = some d) := by
  have h1 := handshake_inflight c false
  have h2 := (handshake_frame c false).2.1
  unfold Model.ConnAPI.writeStart
  generalize handshake c false = hr at h1 h2
  obtain ⟨c1, e1⟩ := hr
  simp only at h1 h2
  repeat' split
  all_goals simp_all

theorem step_inflight (c : Conn) (k : Call) :
    (step c k).1.inflight = c.inflight ∨ (step c k).1.inflight = none ∨
    (c.cnSent = false ∧ ∃ d, k = .writeStart d) := by
  cases k with
  | read n => exact Or.inl (read_inflight c n)
  | write d => exact Or.inl (write_inflight c d)
  | close => exact Or.inl (close_inflight c)
  | closeWrite => exact Or.inl (closeWrite_inflight c)
  | handshake cb => rw [step_handshake_fst]; exact Or.inl (handshake_inflight c cb)
  | arrive it => left; simp only [step]; split <;> rfl
  | setWFail w => exact Or.inl rfl
  | writeStart d =>
    rcases writeStart_inflight c d with h | h
    · exact Or.inl h
    · exact Or.inr (Or.inr ⟨h.1, d, rfl⟩)
  | writeEnd => exact Or.inr (Or.inl (writeEnd_frame c).2.2.2.2.2.2.2.2.2)

/-- `closeNotifySent` is set only by a call that holds `c.out`, i.e. with no Write in flight -/
theorem step_cnSent (c : Conn) (k : Call) (hinv : InflightOk c) :
    (step c k).1.cnSent = c.cnSent ∨ c.inflight = none := by
  cases hfl : c.inflight with
  | none => exact Or.inr rfl
  | some dd =>
    left
    have hcs : c.cnSent = false := hinv (by simp [hfl])
    cases k with
    | read n => exact (read_frame c n).2.1
    | write d => exact (write_frame c d).2.2.2.2.1
    | close =>
      show (close c).1.cnSent = c.cnSent
      unfold Model.ConnAPI.close
      by_cases hcb : c.closedBit = true
      · simp [hcb]
      · simp [hcb, hfl]
    | closeWrite =>
      show (closeWrite c).1.cnSent = c.cnSent
      unfold closeWrite
      by_cases hd : c.hsDone = true
      · simp [hd, hfl, hcs]
      · simp [hd]
    | handshake cb => rw [step_handshake_fst]; exact (handshake_frame c cb).2.1
    | arrive it => exact (step_arrive_frame c it).2.2.2.2.1
    | setWFail w => rfl
    | writeStart d => exact (writeStart_frame c d).2.2.2.2.1
    | writeEnd => exact (writeEnd_frame c).2.2.2.2.1

theorem inflightOk_step (c : Conn) (k : Call) (hinv : InflightOk c) : InflightOk (step c k).1 := by
  intro hsome
  rcases step_inflight c k with h | h | ⟨h, d, rfl⟩
  · rw [h] at hsome
    rcases step_cnSent c k hinv with h2 | h2
    · rw [h2]; exact hinv hsome
    · rw [h2] at hsome; simp at hsome
  · rw [h] at hsome; simp at hsome
  · rw [show (step c (.writeStart d)).1 = (writeStart c d).1 from rfl, (writeStart_frame c d).2.2.2.2.1]; exact h

/-- C12 (the Write/Close interlock, invariant): in every state a history of calls and events reaches
from a state with this property — in particular from a fresh connection — a Write in flight means
`closeNotifySent` is clear. -/
theorem C12_inflight_holds_out (c : Conn) (hinv : InflightOk c) (hist : List Call) : InflightOk (after c hist) := by
  induction hist generalizing c with
  | nil => exact hinv
  | cons k ks ih => exact ih _ (inflightOk_step c k hinv)

example : InflightOk {} := by intro h; simp at h

theorem cnSent_noflight_step (c : Conn) (k : Call) (hs : c.cnSent = true) (hf : c.inflight = none) :
    (step c k).1.inflight = none := by
  rcases step_inflight c k with h | h | ⟨h, _⟩
  · rw [h]; exact hf
  · exact h
  · rw [hs] at h; cases h

theorem cnDone_after (hist : List Call) : ∀ (c : Conn) (r : Option ApiErr), CnDone c r → CnDone (after c hist) r := by
  induction hist with
  | nil => intro c r h; exact h
  | cons k ks ih => intro c r h; exact ih _ r (cnDone_step c k r h)

/-- C12 (errors stay reported, shutdown): once `CloseWrite` has failed — the transport refused the
close_notify record — every later `CloseWrite`, after any history of other calls and transport
events (the transport may work again), reports the same error, and `Close` reports an error too:
the close_notify is not attempted a second time. -/
theorem C12_closewrite_sticky (c : Conn) (e : ApiErr) (hist : List Call) (hinv : InflightOk c)
    (h : (closeWrite c).2 = .err e) (hne : e ≠ .earlyCloseWrite) :
    (closeWrite (after (closeWrite c).1 hist)).2 = .err e ∧
    ∃ e', (close (after (closeWrite c).1 hist)).2 = .err e' := by
  have hd : c.hsDone = true := by
    cases hd : c.hsDone with
    | true => rfl
    | false =>
      have : (closeWrite c).2 = .err .earlyCloseWrite := by unfold closeWrite; simp [hd]
      rw [this] at h; cases h; exact absurd rfl hne
  -- the call returned: no Write was in flight (one in flight would hold `c.out`, with the flag clear)
  have hnf : c.inflight = none := by
    cases hfl : c.inflight with
    | none => rfl
    | some dd =>
      have hcs : c.cnSent = false := hinv (by simp [hfl])
      unfold closeWrite at h
      simp [hd, hfl, hcs] at h
  have hblk : (c.inflight.isSome && !c.cnSent) = false := by simp [hnf]
  have h0 : CnDone (closeWrite c).1 (some e) ∧ (closeWrite c).1.inflight = none := by
    refine ⟨?_, by rw [closeWrite_inflight]; exact hnf⟩
    unfold closeWrite at h ⊢
    simp only [hd, hblk, Bool.not_true, Bool.false_eq_true, if_false] at h ⊢
    have hcn : (closeNotify c).1.cnSent = true ∧ (closeNotify c).1.cnErr = (closeNotify c).2 ∧
        (closeNotify c).1.hsDone = c.hsDone := by
      unfold closeNotify; split <;> simp_all
    generalize closeNotify c = r at h hcn
    obtain ⟨c2, ae⟩ := r
    cases ae with
    | none => simp at h
    | some e2 =>
      simp only [Res.err.injEq] at h
      subst h
      exact ⟨by rw [hcn.2.2]; exact hd, hcn.1, hcn.2.1⟩
  have hall : ∀ (hist : List Call) (c : Conn), (CnDone c (some e) ∧ c.inflight = none) →
      (CnDone (after c hist) (some e) ∧ (after c hist).inflight = none) := by
    intro hist
    induction hist with
    | nil => intro c h; exact h
    | cons k ks ih => intro c h; exact ih _ ⟨cnDone_step c k _ h.1, cnSent_noflight_step c k h.1.2.1 h.2⟩
  obtain ⟨⟨k1, k2, k3⟩, k4⟩ := hall hist _ h0
  generalize after (closeWrite c).1 hist = c3 at k1 k2 k3 k4 ⊢
  constructor
  · unfold closeWrite
    simp only [k1, k2, Bool.not_true, Bool.and_false, Bool.false_eq_true, if_false, closeNotify_done _ _ k2 k3]
  · unfold Model.ConnAPI.close
    by_cases hcb : c3.closedBit = true
    · exact ⟨.closed, by simp [hcb]⟩
    · have hk : c3.inflight.isSome = false := by simp [k4]
      simp only [hcb, hk, Bool.false_eq_true, if_false]
      refine ⟨e, ?_⟩
      have : closeSend { c3 with closedBit := true } = ({ c3 with closedBit := true }, some e) := by
        unfold closeSend; simp only [k1, if_true]; exact closeNotify_done _ _ k2 k3
      rw [this]

/-- alert records this side has put on the wire through `closeNotify` (the only alerts `outLog` records) -/
def alertsSent (c : Conn) : Nat := (c.outLog.filter (fun r => r.1 == P.tAlert)).length

/-- close_notify records still to come at most: one while `closeNotifySent` is clear -/
def cnBudget (c : Conn) : Nat := alertsSent c + (if c.cnSent then 0 else 1)

theorem closeNotify_budget (c : Conn) : cnBudget (closeNotify c).1 ≤ cnBudget c := by
  unfold closeNotify cnBudget alertsSent
  by_cases hs : c.cnSent = true
  · simp [hs]
  · simp only [hs, Bool.false_eq_true, if_false]
    by_cases he : wErr c = none
    · simp [he, List.filter_append]
    · simp [he]

theorem write_budget (c : Conn) (d : Bytes) : cnBudget (write c d).1 = cnBudget c := by
  obtain ⟨_, h2, _⟩ := handshake_cn c false
  have h3 := (handshake_frame c false).2.1
  have hA : (P.tApp == P.tAlert) = false := by decide
  unfold Model.ConnAPI.write cnBudget alertsSent
  generalize handshake c false = hr at h2 h3
  obtain ⟨c1, e1⟩ := hr
  simp only at h2 h3
  repeat' split
  all_goals simp_all [List.filter_append]

theorem writeStart_budget (c : Conn) (d : Bytes) : cnBudget (writeStart c d).1 = cnBudget c := by
  obtain ⟨_, h2, _⟩ := handshake_cn c false
  have h3 := (handshake_frame c false).2.1
  unfold Model.ConnAPI.writeStart cnBudget alertsSent
  generalize handshake c false = hr at h2 h3
  obtain ⟨c1, e1⟩ := hr
  simp only at h2 h3
  repeat' split
  all_goals simp_all [List.filter_append]

/-- C12 (close-notify sent once): in every history of calls and transport events — also when the
first attempt failed at the transport and the transport works again — `closeNotify` puts at most
one close_notify record on the wire per connection, none once `closeNotifySent` is set. -/
theorem C12_close_notify_once (c : Conn) (hist : List Call) :
    alertsSent (after c hist) ≤ alertsSent c + (if c.cnSent then 0 else 1) := by
  have hstep : ∀ (c : Conn) (k : Call), cnBudget (step c k).1 ≤ cnBudget c := by
    intro c k
    cases k with
    | read n =>
      show cnBudget (read c n).1 ≤ cnBudget c
      unfold cnBudget alertsSent
      rw [(read_cn c n).2, (read_frame c n).2.1]; exact Nat.le_refl _
    | write d => exact Nat.le_of_eq (write_budget c d)
    | close =>
      show cnBudget (close c).1 ≤ cnBudget c
      unfold Model.ConnAPI.close
      by_cases hcb : c.closedBit = true
      · simp [hcb]
      · simp only [hcb, Bool.false_eq_true, if_false]
        by_cases hfl : c.inflight.isSome = true
        · simp only [hfl, if_true]; exact Nat.le_refl _
        simp only [hfl, Bool.false_eq_true, if_false]
        unfold closeSend
        split
        · exact closeNotify_budget { c with closedBit := true }
        · exact Nat.le_refl _
    | closeWrite =>
      show cnBudget (closeWrite c).1 ≤ cnBudget c
      unfold closeWrite
      split
      · exact Nat.le_refl _
      split
      · exact Nat.le_refl _
      · have := closeNotify_budget c
        generalize closeNotify c = r at this
        obtain ⟨c2, ae⟩ := r
        cases ae <;> exact this
    | handshake cb =>
      rw [step_handshake_fst]
      unfold cnBudget alertsSent
      rw [(handshake_cn c cb).2.1, (handshake_frame c cb).2.1]; exact Nat.le_refl _
    | arrive it =>
      have h1 : (step c (.arrive it)).1.outLog = c.outLog := by simp only [step]; split <;> rfl
      unfold cnBudget alertsSent
      rw [h1, (step_arrive_frame c it).2.2.2.2.1]; exact Nat.le_refl _
    | setWFail w => exact Nat.le_refl _
    | writeStart d => exact Nat.le_of_eq (writeStart_budget c d)
    | writeEnd =>
      show cnBudget (writeEnd c).1 ≤ cnBudget c
      have hA : (P.tApp == P.tAlert) = false := by decide
      unfold Model.ConnAPI.writeEnd cnBudget alertsSent
      cases hfl : c.inflight with
      | none => simp
      | some data =>
        have hwe : wErr { c with inflight := none } = wErr c := rfl
        simp only [hwe]
        cases hw : wErr c <;> simp [List.filter_append, hA]
  have hall : ∀ (hist : List Call) (c : Conn), cnBudget (after c hist) ≤ cnBudget c := by
    intro hist
    induction hist with
    | nil => intro c; exact Nat.le_refl _
    | cons k ks ih => intro c; exact Nat.le_trans (ih _) (hstep c k)
  have := hall hist c
  unfold cnBudget at this
  omega

/-! ### Close while a Write is in flight -/

theorem closedBit_step (c : Conn) (k : Call) (h : c.closedBit = true) : (step c k).1.closedBit = true := by
  cases k with
  | read n => rw [show (step c (.read n)).1 = (read c n).1 from rfl, (read_frame c n).1]; exact h
  | write d => rw [show (step c (.write d)).1 = (write c d).1 from rfl, (write_frame c d).2.2.2.1]; exact h
  | close => exact (close_frame c).2.2.2.1
  | closeWrite => rw [show (step c .closeWrite).1 = (closeWrite c).1 from rfl, (closeWrite_frame c).2.2.2.1]; exact h
  | handshake cb => rw [step_handshake_fst, (handshake_frame c cb).1]; exact h
  | arrive it => rw [(step_arrive_frame c it).2.2.2.1]; exact h
  | setWFail w => exact h
  | writeStart d => rw [show (step c (.writeStart d)).1 = (writeStart c d).1 from rfl, (writeStart_frame c d).2.2.2.1]; exact h
  | writeEnd => rw [show (step c .writeEnd).1 = (writeEnd c).1 from rfl, (writeEnd_frame c).2.2.2.1]; exact h

theorem closedBit_after (hist : List Call) : ∀ c : Conn, c.closedBit = true → (after c hist).closedBit = true := by
  induction hist with
  | nil => intro c h; exact h
  | cons k ks ih => intro c h; exact ih _ (closedBit_step c k h)

/-- C12 (Close stays reported, whatever was in flight): after `Close` has returned — whatever it
returned, and also when it was called while a `Write` was inside the transport write (then it only
closes the transport to break that Write; the compare-and-swap loop has set the close bit all the
same) — after any history of further calls and events, among them the broken Write returning, a
second `Close` reports that the connection is closed, and every `Write`, whether it runs to the end
or is observed only up to the transport, is refused at the interlock with the closed error. -/
theorem C12_close_twice (c : Conn) (hist : List Call) (d : Bytes) :
    (close (after (close c).1 hist)).2 = .err .closed ∧
    (write (after (close c).1 hist) d).2 = .err .closed ∧
    (writeStart (after (close c).1 hist) d).2 = .err .closed := by
  have h1 := closedBit_after hist _ ((close_frame c).2.2.2.1)
  refine ⟨(close_frame _).2.2.2.2.2.2.2.2 h1, ?_, ?_⟩
  · unfold Model.ConnAPI.write; simp [h1]
  · unfold Model.ConnAPI.writeStart; simp [h1]

/-- … and the Write that was in flight when `Close` was called fails with the closed error when its
transport write returns (the transport was closed under it), nothing of it is logged as written,
and the error is latched on the write half. -/
theorem C12_close_breaks_write (c : Conn) (data : Bytes) (hcb : c.closedBit = false) (hfl : c.inflight = some data) :
    (close c).2 = .ok [] ∧ (close c).1.closedBit = true ∧
    (writeEnd (close c).1).2 = .err .closed ∧ (writeEnd (close c).1).1.outErr = some .closed ∧
    (writeEnd (close c).1).1.outLog = c.outLog ∧ (writeEnd (close c).1).1.cnSent = c.cnSent := by
  unfold Model.ConnAPI.close Model.ConnAPI.writeEnd
  simp [hcb, hfl, wErr]

/-- a `Write` cut in two at the transport write is the same call: with no other Write in flight,
`writeStart` either returns what `write` returns (the call never reached the transport) or parks,
and then `writeEnd` produces the state and the result of `write`. -/
theorem C12_write_split (c : Conn) (d : Bytes) (hfl : c.inflight = none) :
    ((writeStart c d).2 ≠ .wouldBlock → writeStart c d = write c d) ∧
    ((writeStart c d).2 = .wouldBlock → writeEnd (writeStart c d).1 = write c d) := by
  have h1 := handshake_inflight c false
  unfold Model.ConnAPI.writeStart Model.ConnAPI.write
  by_cases hcb : c.closedBit = true
  · simp [hcb]
  simp only [hcb, Bool.false_eq_true, if_false]
  generalize handshake c false = hr at h1
  obtain ⟨c1, e1⟩ := hr
  simp only at h1
  have hf1 : c1.inflight = none := by rw [h1]; exact hfl
  cases e1 with
  | some e => simp
  | none =>
    simp only
    cases ho : c1.outErr with
    | some e => simp
    | none =>
      simp only
      by_cases hd : c1.hsDone = true
      · by_cases hcn : c1.cnSent = true
        · simp [hd, hcn]
        · by_cases hde : d = []
          · simp [hd, hcn, hf1, hde]
          · simp only [hd, hcn, hf1, hde, Bool.not_true, Bool.false_eq_true, if_false, Option.isSome_none]
            refine ⟨fun h => absurd rfl h, fun _ => ?_⟩
            have hce : ({ { c1 with inflight := some d } with inflight := none } : Conn) = c1 := by
              cases c1; simp only at hf1; subst hf1; rfl
            unfold Model.ConnAPI.writeEnd
            simp only [hce]
            rfl
      · simp [hd]

/-! ### a fatal error the record layer detects shuts the write side too -/

def Res.isLocal : Res → Bool
  | .err (.localAlert _) => true
  | .okErr _ (.localAlert _) => true
  | _ => false

/-- a `Read` on an established connection with nothing latched on the read half that reports a
local alert leaves `c.out.err` set — whatever the transport does with writes (`c.wfail`,
`c.localClosed` are arbitrary): `sendAlertLocked` latches the local error after the attempt to
write the alert record, not depending on its outcome (`C12_facts_sendAlert`) -/
theorem read_local_latches_out (c : Conn) (n : Nat) (hd : c.hsDone = true) (hx : c.inErrX = none)
    (hr : c.rx.err = none) (h : Res.isLocal (read c n).2 = true) : (read c n).1.outErr.isSome = true := by
  obtain ⟨_, _, _, _, _, _, _, _, _, _, f11⟩ := handshake_frame c false
  have hh : handshake c false = (c, none) := by
    obtain ⟨a, b⟩ := f11 hd
    exact Prod.ext a b
  unfold Model.ConnAPI.read at h ⊢
  by_cases hrc : (c.rcc && c.closedBit) = true
  · simp [hrc, Res.isLocal] at h
  simp only [hrc, Bool.false_eq_true, if_false, hh] at h ⊢
  by_cases hn : n = 0
  · simp [hn, Res.isLocal] at h
  simp only [hn, if_false, hx] at h ⊢
  by_cases hlc : (c.rx.err = none ∧ c.rx.input = [] ∧ c.localClosed = true)
  · simp [hlc, Res.isLocal] at h
  simp only [hlc, if_false] at h ⊢
  generalize hsq : splitQueue c.queue = sq at h ⊢
  obtain ⟨ws, it, rest⟩ := sq
  simp only at h ⊢
  have hs := readRec_sent (tailOf it) c.seg c.raw (tailBytes it) c.rx ws n hr
  generalize readRec (tailOf it) c.seg c.raw (tailBytes it) c.rx ws n = rr at h hs ⊢
  obtain ⟨⟨⟨rx', ws'⟩, r⟩, raw'⟩ := rr
  simp only at h hs ⊢
  have key : ReadRes.isLocal r = true → (outErrAfter c.rx rx' c.outErr).isSome = true :=
    fun hl => outErrAfter_sent _ _ _ (hs.2 hl)
  cases r with
  | ok d => simp [Res.isLocal] at h
  | okErr d e =>
    cases e <;> simp [Res.isLocal, ofRx] at h
    exact key (by simp [ReadRes.isLocal])
  | err e =>
    cases e <;> simp [Res.isLocal, ofRx] at h
    exact key (by simp [ReadRes.isLocal])
  | blocked d =>
    simp only at h
    repeat' split at h
    all_goals simp [Res.isLocal] at h

/-- C12 (fatal errors stay reported, both directions): once a `Read` on an established connection
has reported a fatal error that this side detected — a local alert: the record did not authenticate,
was oversized, of an unexpected type, … — alone or together with the last bytes, every later
`Write` fails, after any history of other calls and transport events.  The state of the transport
at the moment of the error is arbitrary: the alert record may have been refused (a write deadline
that had lapsed, a transport error) and the transport may work again afterwards. -/
theorem C12_fatal_shuts_write (c : Conn) (n : Nat) (hd : c.hsDone = true) (hx : c.inErrX = none)
    (hr : c.rx.err = none) (h : Res.isLocal (read c n).2 = true) (hist : List Call) (d : Bytes) :
    ∃ e, (write (after (read c n).1 hist) d).2 = .err e :=
  write_dead _ _ (writeDead_after hist _ (Or.inr (Or.inr (Or.inl (read_local_latches_out c n hd hx hr h)))))

-- a forged record while the transport refuses writes (the alert is lost), the transport recovers:
-- the Write fails with the local error
example : run { hsDone := true } [.setWFail .temp, .arrive (.record ⟨forgedMark + 23, 257, [1, 2, 3]⟩), .read 5,
    .setWFail .none, .write [1]] =
    [.event, .event, .err (.localAlert 20), .event, .err (.localAlert 20)] := by decide

/-! ### reads -/

/-- one `read` from a state of the form reached inside `Model.ConnAPI.read` after the close-bit
test and the handshake: the part that deals with the latches and the record layer -/
theorem read_core (c : Conn) (n : Nat) (hn : n ≠ 0) (hrc : (c.rcc && c.closedBit) = false)
    (hd : c.hsDone = true) :
    (ReadDead c → ∃ e, (read c n).2 = .err e ∧ ReadDead (read c n).1) ∧
    (∀ e, (read c n).2 = .err e → e ≠ .transportTemp → ReadDead (read c n).1) ∧
    (∀ d e, (read c n).2 = .okErr d e → e ≠ .transportTemp → e ≠ .block → ReadDead (read c n).1) := by
  obtain ⟨_, _, _, _, _, _, _, _, _, _, f11⟩ := handshake_frame c false
  have hh : handshake c false = (c, none) := by
    obtain ⟨a, b⟩ := f11 hd
    exact Prod.ext a b
  have hnf : ¬ HsFailed c := by intro h; have h1 := h.1; rw [hd] at h1; exact absurd h1 (by simp)
  have hrc' : ¬ (c.rcc = true ∧ c.closedBit = true) := by
    intro h; simp [h.1, h.2] at hrc
  unfold Model.ConnAPI.read
  simp only [hrc, Bool.false_eq_true, if_false, hh, hn]
  cases hx : c.inErrX with
  | some ex =>
    simp only
    by_cases hi : c.rx.input = []
    · simp only [hi, if_true]
      exact ⟨fun _ => ⟨ex, rfl, Or.inr (Or.inr (Or.inl ⟨by simp [hx], hi⟩))⟩,
             fun e _ _ => Or.inr (Or.inr (Or.inl ⟨by simp [hx], hi⟩)), by intro d e h; cases h⟩
    · simp only [hi, if_false]
      refine ⟨?_, (by intro e h; cases h), (by intro d e h; cases h)⟩
      intro hdead
      rcases hdead with h | h | h | h
      · exact absurd h hnf
      · exact absurd h hrc'
      · exact absurd h.2 hi
      · exact absurd h.2 hi
  | none =>
    simp only
    by_cases hlc : c.rx.err = none ∧ c.rx.input = [] ∧ c.localClosed = true
    · simp only [hlc, and_self, if_true]
      exact ⟨fun _ => ⟨.closed, rfl, Or.inr (Or.inr (Or.inl ⟨by simp, hlc.2.1⟩))⟩,
             fun e _ _ => Or.inr (Or.inr (Or.inl ⟨by simp, hlc.2.1⟩)), by intro d e h; cases h⟩
    · simp only [hlc, if_false]
      generalize hsq : splitQueue c.queue = sq
      obtain ⟨ws, it, rest⟩ := sq
      simp only
      generalize tailOf it = tl
      generalize tailBytes it = tb
      obtain ⟨l1, l2, lb, l3⟩ := readRec_latch tl c.seg c.raw tb c.rx ws n hn
      generalize hrcall : readRec tl c.seg c.raw tb c.rx ws n = rc at l1 l2 lb l3
      obtain ⟨⟨⟨rx', ws'⟩, r⟩, raw'⟩ := rc
      simp only at l1 l2 lb l3 ⊢
      refine ⟨?_, ?_, ?_⟩
      · -- dead before: only the record-layer latch can be the reason here
        intro hdead
        rcases hdead with h | h | h | h
        · exact absurd h hnf
        · exact absurd h hrc'
        · simp [hx] at h
        · cases hre : c.rx.err with
          | none => simp [hre] at h
          | some e =>
            have := l3 e hre h.2
            simp only [Prod.mk.injEq] at this
            obtain ⟨⟨rfl, rfl⟩, rfl⟩ := this
            refine ⟨ofRx e, rfl, Or.inr (Or.inr (Or.inr ⟨by simp [hre], h.2⟩))⟩
      · intro e he hne
        cases r with
        | ok d => simp at he
        | okErr d e' => simp at he
        | err e' =>
          obtain ⟨a, b⟩ := l1 e' rfl
          exact Or.inr (Or.inr (Or.inr ⟨by simp [a], b⟩))
        | blocked d =>
          have hin0 := lb d rfl
          by_cases hd0 : d = []
          · subst hd0
            cases it with
            | none => simp at he
            | some i =>
              cases i with
              | record w => simp at he
              | eof pt => simp at he
              | tempErr =>
                simp only [if_true] at he
                cases he; exact absurd rfl hne
              | permErr =>
                simp only [if_true] at he ⊢
                exact Or.inr (Or.inr (Or.inl ⟨by simp, hin0⟩))
          · cases it with
            | none => simp [hd0] at he
            | some i => cases i <;> simp [hd0] at he
      · -- an error returned together with bytes (look-ahead, or a transport error met by it)
        intro d e he hne hnb
        cases r with
        | ok d' => simp at he
        | err e' => simp at he
        | okErr d' e' =>
          obtain ⟨a, b⟩ := l2 d' e' rfl
          exact Or.inr (Or.inr (Or.inr ⟨by simp [a], b⟩))
        | blocked d' =>
          have hin0 := lb d' rfl
          by_cases hd0 : d' = []
          · subst hd0
            cases it with
            | none => simp at he
            | some i => cases i <;> simp at he
          · cases it with
            | none => simp [hd0] at he; exact absurd he.2.symm hnb
            | some i =>
              cases i with
              | record w => simp [hd0] at he; exact absurd he.2.symm hnb
              | eof pt => simp [hd0] at he; exact absurd he.2.symm hnb
              | tempErr => simp [hd0] at he; exact absurd he.2.symm hne
              | permErr =>
                simp only [hd0, if_false]
                exact Or.inr (Or.inr (Or.inl ⟨by simp, hin0⟩))

theorem read_dead (c : Conn) (n : Nat) (hn : n ≠ 0) (h : ReadDead c) :
    ∃ e, (read c n).2 = .err e ∧ ReadDead (read c n).1 := by
  by_cases hrc : (c.rcc && c.closedBit) = true
  · have : read c n = (c, .err .closed) := by unfold Model.ConnAPI.read; simp [hrc]
    rw [this]; exact ⟨.closed, rfl, h⟩
  have hrcf : (c.rcc && c.closedBit) = false := by simpa using hrc
  cases hd : c.hsDone with
  | true => exact (read_core c n hn hrcf hd).1 h
  | false =>
    -- the handshake runs (or has failed) first
    obtain ⟨f1, f2, f3, f4, f5, f6, f7, f8, f9, f10, f11⟩ := handshake_frame c false
    generalize hh : handshake c false = hr at *
    obtain ⟨c1, e1⟩ := hr
    simp only at f1 f2 f3 f4 f5 f6 f7 f8 f9 f10 f11
    cases e1 with
    | some e =>
      have : read c n = (c1, .err e) := by unfold Model.ConnAPI.read; simp [hrcf, hh]
      rw [this]; exact ⟨e, rfl, Or.inl (f9 e rfl)⟩
    | none =>
      have hd1 := f8 rfl
      have hrc1 : (c1.rcc && c1.closedBit) = false := by rw [f3, f1]; exact hrcf
      have heq : read c n = read c1 n := by
        have h11 := handshake_frame c1 false
        have hh1 : handshake c1 false = (c1, none) := by
          obtain ⟨a, b⟩ := h11.2.2.2.2.2.2.2.2.2.2 hd1
          exact Prod.ext a b
        unfold Model.ConnAPI.read
        simp only [hrcf, hrc1, Bool.false_eq_true, if_false, hh, hh1]
      rw [heq]
      apply (read_core c1 n hn hrc1 hd1).1
      rcases h with h | h | h | h
      · have := (f10 h.1 h.2).2
        cases he : c.hsErr with
        | none => have h2 := h.2; simp [he] at h2
        | some e => rw [he] at this; cases this
      · exact Or.inr (Or.inl ⟨by rw [f3]; exact h.1, by rw [f1]; exact h.2⟩)
      · exact Or.inr (Or.inr (Or.inl ⟨by rw [f5]; exact h.1, by rw [f4]; exact h.2⟩))
      · exact Or.inr (Or.inr (Or.inr ⟨by rw [f4]; exact h.1, by rw [f4]; exact h.2⟩))

theorem read_err_dead (c : Conn) (n : Nat) (hn : n ≠ 0) (e : ApiErr) (he : (read c n).2 = .err e)
    (hne : e ≠ .transportTemp) : ReadDead (read c n).1 := by
  by_cases hrc : (c.rcc && c.closedBit) = true
  · have : read c n = (c, .err .closed) := by unfold Model.ConnAPI.read; simp [hrc]
    rw [this]
    simp only [Bool.and_eq_true] at hrc
    exact Or.inr (Or.inl hrc)
  have hrcf : (c.rcc && c.closedBit) = false := by simpa using hrc
  cases hd : c.hsDone with
  | true => exact (read_core c n hn hrcf hd).2.1 e he hne
  | false =>
    obtain ⟨f1, f2, f3, f4, f5, f6, f7, f8, f9, f10, f11⟩ := handshake_frame c false
    generalize hh : handshake c false = hr at *
    obtain ⟨c1, e1⟩ := hr
    simp only at f1 f2 f3 f4 f5 f6 f7 f8 f9 f10 f11
    cases e1 with
    | some e' =>
      have : read c n = (c1, .err e') := by unfold Model.ConnAPI.read; simp [hrcf, hh]
      rw [this]; exact Or.inl (f9 e' rfl)
    | none =>
      have hd1 := f8 rfl
      have hrc1 : (c1.rcc && c1.closedBit) = false := by rw [f3, f1]; exact hrcf
      have heq : read c n = read c1 n := by
        have h11 := handshake_frame c1 false
        have hh1 : handshake c1 false = (c1, none) := by
          obtain ⟨a, b⟩ := h11.2.2.2.2.2.2.2.2.2.2 hd1
          exact Prod.ext a b
        unfold Model.ConnAPI.read
        simp only [hrcf, hrc1, Bool.false_eq_true, if_false, hh, hh1]
      rw [heq] at he ⊢
      exact (read_core c1 n hn hrc1 hd1).2.1 e he hne

theorem read_okErr_dead (c : Conn) (n : Nat) (hn : n ≠ 0) (d : Bytes) (e : ApiErr) (he : (read c n).2 = .okErr d e)
    (hne : e ≠ .transportTemp) (hnb : e ≠ .block) : ReadDead (read c n).1 := by
  by_cases hrc : (c.rcc && c.closedBit) = true
  · have : read c n = (c, .err .closed) := by unfold Model.ConnAPI.read; simp [hrc]
    rw [this] at he; cases he
  have hrcf : (c.rcc && c.closedBit) = false := by simpa using hrc
  cases hd : c.hsDone with
  | true => exact (read_core c n hn hrcf hd).2.2 d e he hne hnb
  | false =>
    obtain ⟨f1, f2, f3, f4, f5, f6, f7, f8, f9, f10, f11⟩ := handshake_frame c false
    generalize hh : handshake c false = hr at *
    obtain ⟨c1, e1⟩ := hr
    simp only at f1 f2 f3 f4 f5 f6 f7 f8 f9 f10 f11
    cases e1 with
    | some e' =>
      have : read c n = (c1, .err e') := by unfold Model.ConnAPI.read; simp [hrcf, hh]
      rw [this] at he; cases he
    | none =>
      have hd1 := f8 rfl
      have hrc1 : (c1.rcc && c1.closedBit) = false := by rw [f3, f1]; exact hrcf
      have heq : read c n = read c1 n := by
        have h11 := handshake_frame c1 false
        have hh1 : handshake c1 false = (c1, none) := by
          obtain ⟨a, b⟩ := h11.2.2.2.2.2.2.2.2.2.2 hd1
          exact Prod.ext a b
        unfold Model.ConnAPI.read
        simp only [hrcf, hrc1, Bool.false_eq_true, if_false, hh, hh1]
      rw [heq] at he ⊢
      exact (read_core c1 n hn hrc1 hd1).2.2 d e he hne hnb

theorem readDead_step (c : Conn) (k : Call) (hk : ∀ n, k = .read n → n ≠ 0) (h : ReadDead c) :
    ReadDead (step c k).1 := by
  cases k with
  | read n => exact (read_dead c n (hk n rfl) h).choose_spec.2
  | write d =>
    obtain ⟨g1, g2, g3, g4, _, _, g7, _⟩ := write_frame c d
    rcases h with h | h | h | h
    · exact Or.inl (hsFailed_step c (.write d) h)
    · exact Or.inr (Or.inl ⟨by rw [show (step c (.write d)).1 = (write c d).1 from rfl, g3]; exact h.1,
                             by rw [show (step c (.write d)).1 = (write c d).1 from rfl, g4]; exact h.2⟩)
    · exact Or.inr (Or.inr (Or.inl ⟨by rw [show (step c (.write d)).1 = (write c d).1 from rfl, g2]; exact h.1,
                                     by rw [show (step c (.write d)).1 = (write c d).1 from rfl, g1]; exact h.2⟩))
    · exact Or.inr (Or.inr (Or.inr ⟨by rw [show (step c (.write d)).1 = (write c d).1 from rfl, g1]; exact h.1,
                                     by rw [show (step c (.write d)).1 = (write c d).1 from rfl, g1]; exact h.2⟩))
  | close =>
    obtain ⟨g1, g2, g3, g4, _, _, _, _, _⟩ := close_frame c
    rcases h with h | h | h | h
    · exact Or.inl (hsFailed_step c .close h)
    · exact Or.inr (Or.inl ⟨by rw [show (step c .close).1 = (close c).1 from rfl, g3]; exact h.1, g4⟩)
    · exact Or.inr (Or.inr (Or.inl ⟨by rw [show (step c .close).1 = (close c).1 from rfl, g2]; exact h.1,
                                     by rw [show (step c .close).1 = (close c).1 from rfl, g1]; exact h.2⟩))
    · exact Or.inr (Or.inr (Or.inr ⟨by rw [show (step c .close).1 = (close c).1 from rfl, g1]; exact h.1,
                                     by rw [show (step c .close).1 = (close c).1 from rfl, g1]; exact h.2⟩))
  | closeWrite =>
    obtain ⟨g1, g2, g3, g4, _, _, _, _, _⟩ := closeWrite_frame c
    rcases h with h | h | h | h
    · exact Or.inl (hsFailed_step c .closeWrite h)
    · exact Or.inr (Or.inl ⟨by rw [show (step c .closeWrite).1 = (closeWrite c).1 from rfl, g3]; exact h.1,
                             by rw [show (step c .closeWrite).1 = (closeWrite c).1 from rfl, g4]; exact h.2⟩)
    · exact Or.inr (Or.inr (Or.inl ⟨by rw [show (step c .closeWrite).1 = (closeWrite c).1 from rfl, g2]; exact h.1,
                                     by rw [show (step c .closeWrite).1 = (closeWrite c).1 from rfl, g1]; exact h.2⟩))
    · exact Or.inr (Or.inr (Or.inr ⟨by rw [show (step c .closeWrite).1 = (closeWrite c).1 from rfl, g1]; exact h.1,
                                     by rw [show (step c .closeWrite).1 = (closeWrite c).1 from rfl, g1]; exact h.2⟩))
  | handshake cb =>
    obtain ⟨f1, _, f3, f4, f5, _⟩ := handshake_frame c cb
    rcases h with h | h | h | h
    · exact Or.inl (hsFailed_step c (.handshake cb) h)
    · exact Or.inr (Or.inl ⟨by rw [step_handshake_fst, f3]; exact h.1, by rw [step_handshake_fst, f1]; exact h.2⟩)
    · exact Or.inr (Or.inr (Or.inl ⟨by rw [step_handshake_fst, f5]; exact h.1, by rw [step_handshake_fst, f4]; exact h.2⟩))
    · exact Or.inr (Or.inr (Or.inr ⟨by rw [step_handshake_fst, f4]; exact h.1, by rw [step_handshake_fst, f4]; exact h.2⟩))
  | arrive it =>
    obtain ⟨g1, g2, g3, g4, _, _, g7, g8⟩ := step_arrive_frame c it
    rcases h with h | h | h | h
    · exact Or.inl ⟨by rw [g7]; exact h.1, by rw [g8]; exact h.2⟩
    · exact Or.inr (Or.inl ⟨by rw [g3]; exact h.1, by rw [g4]; exact h.2⟩)
    · exact Or.inr (Or.inr (Or.inl ⟨by rw [g2]; exact h.1, by rw [g1]; exact h.2⟩))
    · exact Or.inr (Or.inr (Or.inr ⟨by rw [g1]; exact h.1, by rw [g1]; exact h.2⟩))
  | setWFail w => exact h
  | writeStart d =>
    obtain ⟨g1, g2, g3, g4, _, _, g7, _⟩ := writeStart_frame c d
    rcases h with h | h | h | h
    · exact Or.inl (hsFailed_step c (.writeStart d) h)
    · exact Or.inr (Or.inl ⟨by rw [show (step c (.writeStart d)).1 = (writeStart c d).1 from rfl, g3]; exact h.1,
                             by rw [show (step c (.writeStart d)).1 = (writeStart c d).1 from rfl, g4]; exact h.2⟩)
    · exact Or.inr (Or.inr (Or.inl ⟨by rw [show (step c (.writeStart d)).1 = (writeStart c d).1 from rfl, g2]; exact h.1,
                                     by rw [show (step c (.writeStart d)).1 = (writeStart c d).1 from rfl, g1]; exact h.2⟩))
    · exact Or.inr (Or.inr (Or.inr ⟨by rw [show (step c (.writeStart d)).1 = (writeStart c d).1 from rfl, g1]; exact h.1,
                                     by rw [show (step c (.writeStart d)).1 = (writeStart c d).1 from rfl, g1]; exact h.2⟩))
  | writeEnd =>
    obtain ⟨g1, g2, g3, g4, _, _, _, _, _, _⟩ := writeEnd_frame c
    rcases h with h | h | h | h
    · exact Or.inl (hsFailed_step c .writeEnd h)
    · exact Or.inr (Or.inl ⟨by rw [show (step c .writeEnd).1 = (writeEnd c).1 from rfl, g3]; exact h.1,
                             by rw [show (step c .writeEnd).1 = (writeEnd c).1 from rfl, g4]; exact h.2⟩)
    · exact Or.inr (Or.inr (Or.inl ⟨by rw [show (step c .writeEnd).1 = (writeEnd c).1 from rfl, g2]; exact h.1,
                                     by rw [show (step c .writeEnd).1 = (writeEnd c).1 from rfl, g1]; exact h.2⟩))
    · exact Or.inr (Or.inr (Or.inr ⟨by rw [show (step c .writeEnd).1 = (writeEnd c).1 from rfl, g1]; exact h.1,
                                     by rw [show (step c .writeEnd).1 = (writeEnd c).1 from rfl, g1]; exact h.2⟩))

/-- C12 (read): once a `Read` (with a non-empty buffer) has returned an error other than a
temporary transport error (a timeout), every later such `Read` — after any history of other calls
and transport events — returns an error and delivers nothing.  Temporary errors are exempt by
design: `readRecordOrCCS` does not latch them. -/
theorem C12_sticky_read (c : Conn) (n : Nat) (hn : n ≠ 0) (e : ApiErr) (hist : List Call) (n' : Nat) (hn' : n' ≠ 0)
    (hhist : ∀ k ∈ hist, ∀ m, k = .read m → m ≠ 0)
    (h : (read c n).2 = .err e) (hne : e ≠ .transportTemp) :
    ∃ e', (read (after (read c n).1 hist) n').2 = .err e' := by
  have h0 := read_err_dead c n hn e h hne
  have hall : ∀ (hist : List Call) (c : Conn), (∀ k ∈ hist, ∀ m, k = .read m → m ≠ 0) → ReadDead c →
      ReadDead (after c hist) := by
    intro hist
    induction hist with
    | nil => intro c _ h; exact h
    | cons k ks ih =>
      intro c hk h
      exact ih _ (fun k' hk' => hk k' (List.mem_cons_of_mem _ hk')) (readDead_step c k (hk k (by simp)) h)
  obtain ⟨e', he', _⟩ := read_dead _ n' hn' (hall hist _ hhist h0)
  exact ⟨e', he'⟩

/-- C12 (read, error returned with bytes): the same when the error came together with the last
bytes — the close-notify look-ahead of `Read` met the peer's close_notify (end-of-stream), a fatal
alert, a forgery or a failed transport behind the data it had just handed over: every later `Read`
fails and delivers nothing.  (A timeout, and a call cut short by the caller's own deadline, are
exempt as above.) -/
theorem C12_sticky_read_partial (c : Conn) (n : Nat) (hn : n ≠ 0) (d : Bytes) (e : ApiErr) (hist : List Call)
    (n' : Nat) (hn' : n' ≠ 0) (hhist : ∀ k ∈ hist, ∀ m, k = .read m → m ≠ 0)
    (h : (read c n).2 = .okErr d e) (hne : e ≠ .transportTemp) (hnb : e ≠ .block) :
    ∃ e', (read (after (read c n).1 hist) n').2 = .err e' := by
  have h0 := read_okErr_dead c n hn d e h hne hnb
  have hall : ∀ (hist : List Call) (c : Conn), (∀ k ∈ hist, ∀ m, k = .read m → m ≠ 0) → ReadDead c →
      ReadDead (after c hist) := by
    intro hist
    induction hist with
    | nil => intro c _ h; exact h
    | cons k ks ih =>
      intro c hk h
      exact ih _ (fun k' hk' => hk k' (List.mem_cons_of_mem _ hk')) (readDead_step c k (hk k (by simp)) h)
  obtain ⟨e', he', _⟩ := read_dead _ n' hn' (hall hist _ hhist h0)
  exact ⟨e', he'⟩

theorem read_no_pending (c : Conn) (n : Nat) (h : c.rx.err ≠ some .internalPending) :
    (read c n).1.rx.err ≠ some .internalPending := by
  obtain ⟨_, _, _, f4, _⟩ := handshake_frame c false
  unfold Model.ConnAPI.read
  by_cases hrc : (c.rcc && c.closedBit) = true
  · simp only [hrc, if_true]; exact h
  simp only [hrc, Bool.false_eq_true, if_false]
  generalize handshake c false = hr at f4
  obtain ⟨c1, e1⟩ := hr
  simp only at f4
  have h1 : c1.rx.err ≠ some .internalPending := by rw [f4]; exact h
  cases e1 with
  | some e => exact h1
  | none =>
    simp only
    by_cases hn : n = 0
    · simp only [hn, if_true]; exact h1
    simp only [hn, if_false]
    cases hx : c1.inErrX with
    | some ex => simp only; split <;> exact h1
    | none =>
      simp only
      split
      · exact h1
      · generalize splitQueue c1.queue = sq
        obtain ⟨ws, it, rest⟩ := sq
        simp only
        have hrr := readRec_no_pending (tailOf it) c1.seg c1.raw (tailBytes it) c1.rx ws n h1
        generalize readRec (tailOf it) c1.seg c1.raw (tailBytes it) c1.rx ws n = rc at hrr
        obtain ⟨⟨⟨rx', ws'⟩, r⟩, raw'⟩ := rc
        simp only at hrr ⊢
        cases r with
        | ok d => exact hrr
        | okErr d e => exact hrr
        | err e => exact hrr
        | blocked d =>
          cases it with
          | none => exact hrr
          | some i => cases i <;> exact hrr

/-- C12 (the close-notify look-ahead is safe): `readRecord` is only ever entered with `c.input`
drained — by the loop that fills `c.input` and by the look-ahead of `Read`, whose condition
includes `c.input.Len() == 0` (`C12_facts_shutdown`) — so the guard "attempted to read record with
pending application data" never fires and is never latched: for every history of calls and
transport events, however the transport segments the stream (the peer's last data record and its
close_notify in one transport read, any read-buffer sizes), a connection that has not latched that
internal error never does.  With `C12_eof_after_all_data` this is what makes small reads of a
coalesced tail end in end-of-stream after every byte instead of an internal error. -/
theorem C12_lookahead_never_pending (c : Conn) (hist : List Call) (h0 : c.rx.err ≠ some .internalPending) :
    (after c hist).rx.err ≠ some .internalPending := by
  induction hist generalizing c with
  | nil => exact h0
  | cons k ks ih =>
    apply ih
    cases k with
    | read n => exact read_no_pending c n h0
    | write d => rw [show (step c (.write d)).1 = (write c d).1 from rfl, (write_frame c d).1]; exact h0
    | close => rw [show (step c .close).1 = (close c).1 from rfl, (close_frame c).1]; exact h0
    | closeWrite => rw [show (step c .closeWrite).1 = (closeWrite c).1 from rfl, (closeWrite_frame c).1]; exact h0
    | handshake cb => rw [step_handshake_fst, (handshake_frame c cb).2.2.2.1]; exact h0
    | arrive it => rw [(step_arrive_frame c it).1]; exact h0
    | setWFail w => exact h0
    | writeStart d => rw [show (step c (.writeStart d)).1 = (writeStart c d).1 from rfl, (writeStart_frame c d).1]; exact h0
    | writeEnd => rw [show (step c .writeEnd).1 = (writeEnd c).1 from rfl, (writeEnd_frame c).1]; exact h0

/-- C12 (Close, reads): with the close-bit test in `Read` (regenerated fact `apiReadChecksClosed`,
pinned by `C12_facts`), after `Close` every later `Read` fails and delivers nothing — also when
plaintext received earlier is still buffered. -/
theorem C12_read_after_close (c : Conn) (hrcc : c.rcc = true) (hist : List Call) (n : Nat) (hn : n ≠ 0)
    (hhist : ∀ k ∈ hist, ∀ m, k = .read m → m ≠ 0) :
    ∃ e, (read (after (close c).1 hist) n).2 = .err e := by
  have h0 : ReadDead (close c).1 := Or.inr (Or.inl ⟨by rw [(close_frame c).2.2.1]; exact hrcc, (close_frame c).2.2.2.1⟩)
  have hall : ∀ (hist : List Call) (c : Conn), (∀ k ∈ hist, ∀ m, k = .read m → m ≠ 0) → ReadDead c →
      ReadDead (after c hist) := by
    intro hist
    induction hist with
    | nil => intro c _ h; exact h
    | cons k ks ih =>
      intro c hk h
      exact ih _ (fun k' hk' => hk k' (List.mem_cons_of_mem _ hk')) (readDead_step c k (hk k (by simp)) h)
  obtain ⟨e', he', _⟩ := read_dead _ n hn (hall hist _ hhist h0)
  exact ⟨e', he'⟩

/-- the defect F38 in the model of the unrepaired source (`rcc = false`): plaintext buffered before
`Close` is handed out by a `Read` after it -/
example : run { rcc := false, hsDone := true }
    [.arrive (.record ⟨23, 257, [1, 2, 3, 4, 5]⟩), .read 2, .close, .read 10, .read 10] =
    [.event, .ok [1, 2], .ok [], .ok [3, 4, 5], .err .closed] := by decide
example : run { rcc := true, hsDone := true }
    [.arrive (.record ⟨23, 257, [1, 2, 3, 4, 5]⟩), .read 2, .close, .read 10, .read 10] =
    [.event, .ok [1, 2], .ok [], .err .closed, .err .closed] := by decide

/-! ### application data before the handshake has completed -/

/-- C12 (early data): while the handshake is not complete an application-data record is never
accepted — in no state of the record layer (no key yet, keys just switched, CCS expected or not),
whatever protection does with it: the call fails, the error is latched, nothing is delivered. -/
theorem C12_no_early_appdata {β : Type} (D : Dec β) (c : Ctx) (s : RxState) (w : Wire β)
    (hc : c.hsComplete = false) (ht : w.typ = tlcpParams.tApp) :
    ∃ e, (rx tlcpParams D c s w).2 = .err e ∧ (rx tlcpParams D c s w).1.err = some e := by
  have hsh := rx_shape tlcpParams D c s w
  rcases hsh.2 with ⟨e, h1, h2⟩ | ⟨hne, _⟩
  · exact ⟨e, h1, h2⟩
  · exfalso
    -- the only non-error outcomes are excluded by the application-data arm
    revert hne
    unfold rx
    split
    · rename_i r _
      obtain ⟨a, e⟩ := r
      cases a <;> simp [failHdr, fail, failWith]
    · split
      · simp [failAlert]
      · rename_i data _
        have hA : (tlcpParams.tApp == tlcpParams.tAlert) = false := by decide
        have hC : (tlcpParams.tApp == tlcpParams.tCCS) = false := by decide
        simp only [dispatch, ht, hA, hC, hc, beq_self_eq_true, Bool.not_false, Bool.true_or, if_true,
          Bool.false_eq_true, if_false]
        repeat' split
        all_goals simp [failAlert]

/-- C12 (early data, histories): while the handshake is not complete no sequence of records —
of any length, any types, any contents, whatever protection does with them and however the
transport ends — ever puts application data into `c.input`: `readRecord` never reports it filled. -/
theorem C12_no_early_appdata_history {β : Type} (p : Params) (D : Dec β) (c : Ctx) (t : Tail) (stop : Bool)
    (hc : c.hsComplete = false) :
    ∀ (ws : List (Wire β)) (s : RxState), s.input = [] →
      (pump p D c t stop s ws).2.2 ≠ .filled ∧ (pump p D c t stop s ws).1.input = [] := by
  have nodata : ∀ (s : RxState) (w : Wire β) (d : Bytes), (rx p D c s w).2 ≠ .data d := by
    intro s w d
    unfold rx
    split
    · rename_i r _
      obtain ⟨a, e⟩ := r
      cases a <;> simp [failHdr, fail, failWith]
    · split
      · simp [failAlert]
      · rename_i data _
        generalize hr : dispatch p c { s with seq := s.seq + 1 } w.typ data = r
        simp [dispatch, failAlert, fail, failWith, retry, hc] at hr
        repeat' split at hr
        all_goals (subst hr; simp)
  intro ws
  induction ws with
  | nil =>
    intro s hi
    cases he : s.err with
    | some e => simp [pump, he, hi]
    | none =>
      have hp' : pump p D c t stop s [] = ((atTail p c s t).1, [], (atTail p c s t).2) := by simp [pump, he]
      rw [hp']
      obtain ⟨h0, h1⟩ := atTail_shape p c s t
      refine ⟨?_, by simp only; rw [h0, hi]⟩
      rcases h1 with ⟨hb, _⟩ | ⟨e, h2, _⟩
      · simp only; rw [hb]; intro h; cases h
      · simp only; rw [h2]; intro h; cases h
  | cons w ws ih =>
    intro s hi
    cases he : s.err with
    | some e => simp [pump, he, hi]
    | none =>
      have hin := (rx_shape p D c s w).1
      have hnd := nodata s w
      generalize hr : rx p D c s w = r at hin hnd
      obtain ⟨s', o⟩ := r
      simp only at hin hnd
      have hi' : s'.input = [] := by rw [hin, hi]
      cases o with
      | data d => exact absurd rfl (hnd d)
      | err e => simp [pump, he, hi, hr, hi']
      | cont =>
        have : pump p D c t stop s (w :: ws) = pump p D c t stop s' ws := by simp [pump, he, hi, hr]
        rw [this]; exact ih s' hi'
      | hand =>
        cases stop with
        | true => simp [pump, he, hi, hr, hi']
        | false =>
          have : pump p D c t false s (w :: ws) = pump p D c t false s' ws := by simp [pump, he, hi, hr]
          rw [this]; exact ih s' hi'
      | ccs =>
        cases stop with
        | true => simp [pump, he, hi, hr, hi']
        | false =>
          have : pump p D c t false s (w :: ws) = pump p D c t false s' ws := by simp [pump, he, hi, hr]
          rw [this]; exact ih s' hi'

/-! ### end-of-stream -/

theorem causeIn_mono {q T : List InItem} (h : ∀ x ∈ q, x ∈ T) (hc : CauseIn q) : CauseIn T := by
  rcases hc with ⟨w, hw, hcn⟩ | he
  · exact Or.inl ⟨w, h _ hw, hcn⟩
  · exact Or.inr (h _ he)

theorem noEof_of_fields {c c' : Conn} (h : NoEof c) (h1 : c'.rx = c.rx) (h2 : c'.inErrX = c.inErrX)
    (h3 : c.hsErr ≠ some .eof → c'.hsErr ≠ some .eof) : NoEof c' :=
  ⟨by rw [h1]; exact h.1, by rw [h2]; exact h.2.1, h3 h.2.2⟩

/-- C12 (end-of-stream, cause): from any connection state in which no end-of-stream is latched,
for every history of calls and transport events — every arrival pattern of the peer's records,
every way and offset at which the transport ends (`eof none` = on a record boundary,
`eof (some (hdr …))` / `eof (some (body …))` = inside a header / a body), every sequence of read
buffer sizes, interleaved with any other calls — if some `Read` reports end-of-stream, then the
transport stream (what was queued plus what arrived) contains a close_notify record of the peer or
ends exactly on a record boundary. -/
theorem C12_eof_only_at_boundary (c : Conn) (hist : List Call) (h0 : NoEof c) (h : ReadsEOF c hist) :
    CauseIn (c.queue ++ arrivals hist) := by
  have gen : ∀ (hist : List Call) (c : Conn) (T : List InItem), NoEof c → (∀ x ∈ c.queue, x ∈ T) →
      (∀ x ∈ arrivals hist, x ∈ T) → ReadsEOF c hist → CauseIn T := by
    intro hist
    induction hist with
    | nil => intro c T _ _ _ h; exact absurd h (by simp [ReadsEOF])
    | cons k ks ih =>
      intro c T h0 hq ha h
      cases k with
      | read n =>
        simp only [ReadsEOF] at h
        have hstep : (step c (.read n)) = read c n := rfl
        rw [hstep] at h
        rcases read_eofcases c n h0 with ⟨e1, e2, e3, _⟩ | ⟨_, _, _, hc⟩
        · rcases h with ⟨_, h⟩ | h
          · rw [e1] at h; cases h
          · exact ih _ T e2 (fun x hx => hq x (e3 x hx)) (by simpa [arrivals] using ha) h
        · exact causeIn_mono hq hc
      | arrive it =>
        simp only [ReadsEOF] at h
        obtain ⟨a1, a2, a3, _, _, a6⟩ := arrive_queue c it
        rcases h with ⟨⟨n, hn⟩, _⟩ | h
        · cases hn
        · refine ih _ T (noEof_of_fields h0 a1 a2 (fun h => by rw [a3]; exact h)) ?_ ?_ h
          · intro x hx
            rcases a6 x hx with h' | h'
            · exact hq x h'
            · subst h'; exact ha _ (by simp [arrivals])
          · intro x hx; exact ha x (by simp [arrivals, hx])
      | write d =>
        simp only [ReadsEOF] at h
        obtain ⟨b1, b2, b3, b4⟩ := step_other c (.write d) (by intro n h; cases h) (by intro i h; cases h)
        rcases h with ⟨⟨n, hn⟩, _⟩ | h
        · cases hn
        · exact ih _ T (noEof_of_fields h0 b1 b2 b4) (by rw [b3]; exact hq) (by simpa [arrivals] using ha) h
      | close =>
        simp only [ReadsEOF] at h
        obtain ⟨b1, b2, b3, b4⟩ := step_other c .close (by intro n h; cases h) (by intro i h; cases h)
        rcases h with ⟨⟨n, hn⟩, _⟩ | h
        · cases hn
        · exact ih _ T (noEof_of_fields h0 b1 b2 b4) (by rw [b3]; exact hq) (by simpa [arrivals] using ha) h
      | closeWrite =>
        simp only [ReadsEOF] at h
        obtain ⟨b1, b2, b3, b4⟩ := step_other c .closeWrite (by intro n h; cases h) (by intro i h; cases h)
        rcases h with ⟨⟨n, hn⟩, _⟩ | h
        · cases hn
        · exact ih _ T (noEof_of_fields h0 b1 b2 b4) (by rw [b3]; exact hq) (by simpa [arrivals] using ha) h
      | handshake cb =>
        simp only [ReadsEOF] at h
        obtain ⟨b1, b2, b3, b4⟩ := step_other c (.handshake cb) (by intro n h; cases h) (by intro i h; cases h)
        rcases h with ⟨⟨n, hn⟩, _⟩ | h
        · cases hn
        · exact ih _ T (noEof_of_fields h0 b1 b2 b4) (by rw [b3]; exact hq) (by simpa [arrivals] using ha) h
      | setWFail w =>
        simp only [ReadsEOF] at h
        obtain ⟨b1, b2, b3, b4⟩ := step_other c (.setWFail w) (by intro n h; cases h) (by intro i h; cases h)
        rcases h with ⟨⟨n, hn⟩, _⟩ | h
        · cases hn
        · exact ih _ T (noEof_of_fields h0 b1 b2 b4) (by rw [b3]; exact hq) (by simpa [arrivals] using ha) h
      | writeStart dd =>
        simp only [ReadsEOF] at h
        obtain ⟨b1, b2, b3, b4⟩ := step_other c (.writeStart dd) (by intro n h; cases h) (by intro i h; cases h)
        rcases h with ⟨⟨n, hn⟩, _⟩ | h
        · cases hn
        · exact ih _ T (noEof_of_fields h0 b1 b2 b4) (by rw [b3]; exact hq) (by simpa [arrivals] using ha) h
      | writeEnd =>
        simp only [ReadsEOF] at h
        obtain ⟨b1, b2, b3, b4⟩ := step_other c .writeEnd (by intro n h; cases h) (by intro i h; cases h)
        rcases h with ⟨⟨n, hn⟩, _⟩ | h
        · cases hn
        · exact ih _ T (noEof_of_fields h0 b1 b2 b4) (by rw [b3]; exact hq) (by simpa [arrivals] using ha) h
  exact gen hist c _ h0 (fun x hx => by simp [hx]) (fun x hx => by simp [hx]) h

/-- … in particular: a stream that carries no close_notify and does not end on a record boundary
(it is still open, or it ends inside a header or a body) never makes any `Read` report
end-of-stream … -/
theorem C12_no_eof_inside_record (c : Conn) (hist : List Call) (h0 : NoEof c)
    (hcn : ∀ w, InItem.record w ∈ c.queue ++ arrivals hist → isCN w = false)
    (hend : InItem.eof none ∉ c.queue ++ arrivals hist) : ¬ ReadsEOF c hist := by
  intro h
  rcases C12_eof_only_at_boundary c hist h0 h with ⟨w, hw, hc⟩ | he
  · rw [hcn w hw] at hc; cases hc
  · exact hend he

/-- … and where the transport ends inside a record the record layer reports unexpected-EOF (or
refuses the partial header on its own grounds), latched. -/
theorem C12_unexpected_eof_inside_record (c : Ctx) (s : RxState) (t : Tail) (pt : Partial)
    (hp : t.part = some pt) (hc : t.closed = true) :
    ((atTail P c s t).2 = .err .unexpectedEOF ∧ (atTail P c s t).1.err = some .unexpectedEOF) ∨
    ((atTail P c s t).2 = .err .header ∧ (atTail P c s t).1.err = some .header) := by
  unfold atTail
  rw [hp]
  cases pt with
  | hdr ty k => simp [hc]
  | body ty v n =>
    simp only
    split
    · rename_i r hr
      obtain ⟨a, e⟩ := r
      have := hdrCheck_header _ _ _ _ _ _ _ hr
      subst this
      right
      cases a <;> simp [failHdr, fail, failWith]
    · simp [hc]

/-- C12 (end-of-stream, completeness): from any connection state with no end-of-stream latched, for
every history as above: at the first `Read` that reports end-of-stream, the bytes all reads have
delivered are exactly what was pending plus every byte of application data the peer wrote before
it closed (before its close_notify, or before the transport ended) — nothing is missing, nothing
is added (if something was already latched on the read side no `Read` reports end-of-stream at all).  `arr` is what the transport had delivered by then. -/
theorem C12_eof_after_all_data (c : Conn) (hist : List Call) (h0 : NoEof c) (d : Bytes) (arr : List InItem)
    (h : untilEOF c hist [] [] = some (d, arr)) :
    d = c.rx.input ++ appOf (c.queue ++ arr) := by
  have gen : ∀ (hist : List Call) (c : Conn) (acc : Bytes) (arr : List InItem) (B : List InItem) (inp0 : Bytes),
      NoEof c →
      (Live c → acc ++ c.rx.input ++ appOf c.queue = inp0 ++ appOf (B ++ arr) ∧ closedQ c.queue = closedQ (B ++ arr)) →
      ∀ d arr', untilEOF c hist acc arr = some (d, arr') → d = inp0 ++ appOf (B ++ arr') := by
    intro hist
    induction hist with
    | nil => intro c acc arr B inp0 _ _ d arr' h; simp [untilEOF] at h
    | cons k ks ih =>
      intro c acc arr B inp0 h0 hinv d arr' h
      cases k with
      | read n =>
        simp only [untilEOF] at h
        have hstep : (step c (.read n)) = read c n := rfl
        rw [hstep] at h
        rcases read_eofcases c n h0 with ⟨e1, e2, e3, e4⟩ | ⟨z1, z2, z3, _⟩
        · rw [e1] at h
          simp only [Bool.false_eq_true, if_false] at h
          refine ih _ _ _ B inp0 e2 ?_ d arr' h
          intro hl
          obtain ⟨l1, l2, l3⟩ := e4 hl
          obtain ⟨i1, i2⟩ := hinv l1
          refine ⟨?_, by rw [l3]; exact i2⟩
          rw [← i1]
          simp only [List.append_assoc]
          rw [← List.append_assoc (read c n).2.bytes, l2]
        · rw [z1] at h
          simp only [if_true, Option.some.injEq, Prod.mk.injEq] at h
          obtain ⟨rfl, rfl⟩ := h
          obtain ⟨i1, _⟩ := hinv z2
          rw [z3, ← List.append_assoc, i1]
      | arrive it =>
        simp only [untilEOF] at h
        obtain ⟨a1, a2, a3, a4, a5, _⟩ := arrive_queue c it
        refine ih _ _ _ B inp0 (noEof_of_fields h0 a1 a2 (fun h => by rw [a3]; exact h)) ?_ d arr' h
        intro hl
        have hl0 : Live c := ⟨by rw [← a1]; exact hl.1, by rw [← a2]; exact hl.2⟩
        obtain ⟨i1, i2⟩ := hinv hl0
        rw [a1, a4, a5, ← List.append_assoc B arr [it]]
        refine ⟨?_, by rw [closedQ_append, closedQ_append (B ++ arr), i2]⟩
        rw [appOf_append, appOf_append (B ++ arr), i2]
        split
        · exact i1
        · rw [← List.append_assoc, i1, List.append_assoc]
      | write dd =>
        simp only [untilEOF] at h
        obtain ⟨b1, b2, b3, b4⟩ := step_other c (.write dd) (by intro n h; cases h) (by intro i h; cases h)
        refine ih _ _ _ B inp0 (noEof_of_fields h0 b1 b2 b4) ?_ d arr' h
        intro hl
        have hl0 : Live c := ⟨by rw [← b1]; exact hl.1, by rw [← b2]; exact hl.2⟩
        rw [b1, b3]; exact hinv hl0
      | close =>
        simp only [untilEOF] at h
        obtain ⟨b1, b2, b3, b4⟩ := step_other c .close (by intro n h; cases h) (by intro i h; cases h)
        refine ih _ _ _ B inp0 (noEof_of_fields h0 b1 b2 b4) ?_ d arr' h
        intro hl
        have hl0 : Live c := ⟨by rw [← b1]; exact hl.1, by rw [← b2]; exact hl.2⟩
        rw [b1, b3]; exact hinv hl0
      | closeWrite =>
        simp only [untilEOF] at h
        obtain ⟨b1, b2, b3, b4⟩ := step_other c .closeWrite (by intro n h; cases h) (by intro i h; cases h)
        refine ih _ _ _ B inp0 (noEof_of_fields h0 b1 b2 b4) ?_ d arr' h
        intro hl
        have hl0 : Live c := ⟨by rw [← b1]; exact hl.1, by rw [← b2]; exact hl.2⟩
        rw [b1, b3]; exact hinv hl0
      | handshake cb =>
        simp only [untilEOF] at h
        obtain ⟨b1, b2, b3, b4⟩ := step_other c (.handshake cb) (by intro n h; cases h) (by intro i h; cases h)
        refine ih _ _ _ B inp0 (noEof_of_fields h0 b1 b2 b4) ?_ d arr' h
        intro hl
        have hl0 : Live c := ⟨by rw [← b1]; exact hl.1, by rw [← b2]; exact hl.2⟩
        rw [b1, b3]; exact hinv hl0
      | setWFail w =>
        simp only [untilEOF] at h
        obtain ⟨b1, b2, b3, b4⟩ := step_other c (.setWFail w) (by intro n h; cases h) (by intro i h; cases h)
        refine ih _ _ _ B inp0 (noEof_of_fields h0 b1 b2 b4) ?_ d arr' h
        intro hl
        have hl0 : Live c := ⟨by rw [← b1]; exact hl.1, by rw [← b2]; exact hl.2⟩
        rw [b1, b3]; exact hinv hl0
      | writeStart dd =>
        simp only [untilEOF] at h
        obtain ⟨b1, b2, b3, b4⟩ := step_other c (.writeStart dd) (by intro n h; cases h) (by intro i h; cases h)
        refine ih _ _ _ B inp0 (noEof_of_fields h0 b1 b2 b4) ?_ d arr' h
        intro hl
        have hl0 : Live c := ⟨by rw [← b1]; exact hl.1, by rw [← b2]; exact hl.2⟩
        rw [b1, b3]; exact hinv hl0
      | writeEnd =>
        simp only [untilEOF] at h
        obtain ⟨b1, b2, b3, b4⟩ := step_other c .writeEnd (by intro n h; cases h) (by intro i h; cases h)
        refine ih _ _ _ B inp0 (noEof_of_fields h0 b1 b2 b4) ?_ d arr' h
        intro hl
        have hl0 : Live c := ⟨by rw [← b1]; exact hl.1, by rw [← b2]; exact hl.2⟩
        rw [b1, b3]; exact hinv hl0
  exact gen hist c [] [] c.queue c.rx.input h0 (fun _ => ⟨by simp, by simp⟩) d arr h

/-! the end-of-stream theorems are not vacuous -/
section EofExamples
def exConn : Conn := { hsDone := true, rcc := true }
def exData (b : Bytes) : Call := .arrive (.record ⟨23, 257, b⟩)
def exCloseNotify : Call := .arrive (.record ⟨21, 257, [1, 0]⟩)

-- data, more data while reading with small buffers, a warning, close_notify, data after it:
-- end-of-stream comes after exactly the five bytes written before the close_notify
example : untilEOF exConn
    [exData [1, 2, 3], .read 2, exData [4, 5], .read 2, .arrive (.record ⟨21, 257, [1, 90]⟩), .write [9],
     exCloseNotify, exData [6], .read 2, .read 2, .read 2] [] [] =
    some ([1, 2, 3, 4, 5], [.record ⟨23, 257, [1, 2, 3]⟩, .record ⟨23, 257, [4, 5]⟩, .record ⟨21, 257, [1, 90]⟩,
      .record ⟨21, 257, [1, 0]⟩, .record ⟨23, 257, [6]⟩]) := by decide
example : NoEof exConn := ⟨by decide, by decide, by decide⟩
-- the transport ends on a record boundary: end-of-stream; inside a header or a body: unexpected EOF, never EOF
example : run exConn [exData [1], .arrive (.eof none), .read 4, .read 4] = [.event, .event, .ok [1], .err .eof] := by decide
example : run exConn [exData [1], .arrive (.eof (some (.hdr 23 3))), .read 4, .read 4, .read 4] =
    [.event, .event, .ok [1], .err .unexpectedEOF, .err .unexpectedEOF] := by decide
example : run exConn [exData [1], .arrive (.eof (some (.body 23 257 40))), .read 4, .read 4] =
    [.event, .event, .ok [1], .err .unexpectedEOF] := by decide
example : ReadsEOF exConn [exData [1], .arrive (.eof none), .read 4, .read 4] := by
  simp only [ReadsEOF]; right; right; right; left; exact ⟨⟨4, rfl⟩, by decide⟩

/-! the transport delivers the peer's last data record and its close_notify in one read (`seg = .all`):
small reads get every byte, the last of them together with end-of-stream (the look-ahead), and
end-of-stream stays reported; over a record-exact transport the same history reports it one call later -/
def exAll : Conn := { hsDone := true, rcc := true, seg := .all }
example : run exAll [exData [1, 2, 3, 4, 5], exCloseNotify, .read 2, .read 2, .read 2, .read 2] =
    [.event, .event, .ok [1, 2], .ok [3, 4], .okErr [5] .eof, .err .eof] := by decide
example : run exConn [exData [1, 2, 3, 4, 5], exCloseNotify, .read 2, .read 2, .read 2, .read 2] =
    [.event, .event, .ok [1, 2], .ok [3, 4], .ok [5], .err .eof] := by decide
example : untilEOF exAll [exData [1, 2, 3, 4, 5], exCloseNotify, .read 2, .read 2, .read 2, .read 2] [] [] =
    some ([1, 2, 3, 4, 5], [.record ⟨23, 257, [1, 2, 3, 4, 5]⟩, .record ⟨21, 257, [1, 0]⟩]) := by decide
-- a close_notify that arrives after the last transport read is not in `c.rawInput`: no look-ahead
example : run exAll [exData [1, 2, 3], .read 2, exCloseNotify, .read 2, .read 2] =
    [.event, .ok [1, 2], .event, .ok [3], .err .eof] := by decide
-- a fatal alert right behind the data: the bytes, with the error; it stays reported
example : run exAll [exData [1, 2], .arrive (.record ⟨21, 257, [2, 40]⟩), .read 5, .read 5] =
    [.event, .event, .okErr [1, 2] (.remoteAlert 40), .err (.remoteAlert 40)] := by decide
end EofExamples

/-! the transport fails exactly at the close_notify record of `CloseWrite` and works again afterwards:
the write side is shut down all the same, the error stays reported, no second close_notify -/
example : run exConn [.setWFail .temp, .closeWrite, .setWFail .none, .write [1], .closeWrite, .write [2], .close, .close] =
    [.event, .err .transportTemp, .event, .err .shutdown, .err .transportTemp, .err .shutdown,
     .err .transportTemp, .err .closed] := by decide
example : (after exConn [.setWFail .perm, .closeWrite, .setWFail .none, .write [1], .closeWrite, .close]).outLog = [] := by decide
example : (after exConn [.write [7], .closeWrite, .closeWrite, .close]).outLog = [(23, [7]), (21, [1, 0])] := by decide

/-! `Close` while a `Write` sits in the transport write, with plaintext still buffered: nothing more is
handed out, the second `Close` reports closed, the broken Write returns the closed error; without
`Close` the same Write cut in two is an ordinary Write -/
example : run exConn [exData [1, 2, 3, 4, 5], .read 2, .writeStart [7], .close, .read 9, .close, .write [1], .writeEnd, .closeWrite] =
    [.event, .ok [1, 2], .wouldBlock, .ok [], .err .closed, .err .closed, .err .closed, .err .closed, .err .closed] := by decide
example : run exConn [.writeStart [7], .read 0, .handshake false, .writeEnd, .write [8], .closeWrite] =
    [.wouldBlock, .ok [], .ok [], .ok [], .ok [], .ok []] := by decide
example : (after exConn [.writeStart [7], .close, .writeEnd]).outLog = [] := by decide
example : InflightOk (after exConn [.writeStart [7]]) ∧ (after exConn [.writeStart [7]]).inflight = some [7] := by
  refine ⟨C12_inflight_holds_out _ (by intro h; simp [exConn] at h) _, by decide⟩

end Gotlcp.Props.C12

/-
C07 — a server completes only when its client-authentication policy is satisfied.

Model: `Gotlcp.Model.ServerAuthn` (`doFullHandshake`, `processCertsFromClient`,
`checkForResumption`, `doResumeHandshake`, the point of `handshake()` at which `createSessionState`
makes a session resumable, both stacks), parameterised by `Tables` filled from the
regenerated facts `Gotlcp.Facts.{tlcp,dtlcp}.sa*`.  Spec: `Gotlcp.Spec.ServerAuthn`
(`PolicySatisfied`, `FlowOK`), written from the property text and the documented meaning of the
six policies.  x509 path validation and SM2 signature verification are inputs (ideal).

All theorems quantify over every policy and every client behaviour (any number of certificates,
any combination of verdicts, any CertificateVerify, any message order the `Behaviour` vocabulary
can express) and over both stacks' tables.
-/
import Gotlcp.Model.ServerAuthnFacts
import Gotlcp.Tie.Padding

set_option linter.unusedSimpArgs false
set_option linter.unusedVariables false

namespace Gotlcp.Props.C07
open Gotlcp.Spec.ServerAuthn Gotlcp.Model.ServerAuthn

/-- The tables as documented / as the model expects them: the right-hand side of `C07_facts`.
The three flags say whether resumption honours the policy (F6 repaired) and `u` which extended
key usages the chain verification accepts. -/
def docTables (g1 g2 rv : Bool) (u : Usages) : Tables :=
  { order := Policy.all,
    requires := [.requireAnyClientCert, .requireAndVerifyClientCert, .requireAndVerifyAnyKeyUsageClientCert],
    promoteCmp := .ne, promoteExcept := .requestClientCert, promoteTo := .requireAndVerifyClientCert,
    certReqCmp := .ge, certReqRhs := .requestClientCert, certMsgCmp := .ge, certMsgRhs := .requestClientCert,
    verifyCmp := .ge, verifyRhs := .verifyClientCertIfGiven,
    anyUsage := .requireAndVerifyAnyKeyUsageClientCert, usages := u, ecdheMin := 2,
    cvCmp := .gt, cvRhs := 0, resumeNeedGuard := g1, resumeNoPolicyGuard := g2, resumeReverify := rv,
    vhsAssertReturns := true, storeAt := .afterFinished }

/-! ### the tables, lemma by lemma -/

section
variable (g1 g2 rv : Bool) (u : Usages)

theorem requires_eq (p : Policy) : (docTables g1 g2 rv u).requiresClientCert p = p.requiresCert := by
  cases p <;> rfl
theorem verify_eq (p : Policy) :
    (docTables g1 g2 rv u).cmpPol (docTables g1 g2 rv u).verifyCmp p (docTables g1 g2 rv u).verifyRhs = p.verifies := by
  cases p <;> rfl
theorem certmsg_eq (p : Policy) (e : Bool) : certMsgExpected (docTables g1 g2 rv u) p e = certRequested p e := by
  cases p <;> cases e <;> rfl
theorem any_eq (p : Policy) : (p == (docTables g1 g2 rv u).anyUsage) = p.ignoresUsage := by
  cases p <;> rfl
theorem cv_eq (n : Nat) : (docTables g1 g2 rv u).cvCmp.eval n (docTables g1 g2 rv u).cvRhs = decide (n > 0) := by
  rfl

/-- `verifyHandshakeSignature` with the documented tables: nil exactly for an SM2 signature that
verifies under an elliptic-curve key (any other key fails the type assertion, which is an error) -/
theorem verifySig_doc (k : Option KeyKind) (v : CertVerify) :
    verifySig (docTables g1 g2 rv u) k v = (v.valid && k.any KeyKind.canSign) := by
  rcases k with _ | k
  · simp [verifySig, docTables]
  · cases k <;> simp [verifySig, docTables, KeyKind.canSign]

/-- the spec's proof of possession, in the shape the model computes it -/
theorem pop_eq (b : Behaviour) :
    b.pop = b.cv.any (fun v => v.valid && (b.sent.head?.map (·.key)).any KeyKind.canSign) := by
  unfold Behaviour.pop
  rcases b.cv with _ | v <;> rcases b.sent.head? with _ | c <;> simp

/-- the verdict the source's key-usage list selects -/
def codeValid (u : Usages) (p : Policy) (c : Cert) : Bool :=
  if p.ignoresUsage then c.okAnyUsage else
    match u with
    | .clientOnly => c.okClient
    | .clientOrServer => c.okClientOrServer

theorem chainOK_eq (p : Policy) (c : Cert) : chainOK (docTables g1 g2 rv u) p c = codeValid u p c := by
  unfold chainOK codeValid
  rw [any_eq]
  rfl

/-- processCertsFromClient, characterised -/
def pcOK (u : Usages) (p : Policy) (e : Bool) (certs : List Cert) (parseOK : Bool) : Bool :=
  (parseOK || certs.isEmpty) && (!p.requiresCert || !certs.isEmpty) && (!e || decide (2 ≤ certs.length)) &&
  (!p.verifies || (if e then certs.take 2 else certs.take 1).all (codeValid u p)) &&
  (if e then certs.take 2 else certs.take 1).all (·.keyOK)

def okOf : Except Stage Certs → Option Certs
  | .ok c => some c
  | .error _ => none

theorem processCerts_ok (p : Policy) (e : Bool) (certs : List Cert) (parseOK : Bool) :
    okOf (processCerts (docTables g1 g2 rv u) p e certs parseOK) =
      if pcOK u p e certs parseOK then some ⟨certs.length, p.verifies && !certs.isEmpty, certs.head?.map (·.key)⟩ else none := by
  unfold processCerts pcOK
  simp only [requires_eq, verify_eq, chainOK_eq]
  have h2 : (docTables g1 g2 rv u).ecdheMin = 2 := rfl
  simp only [h2]
  rcases certs with _ | ⟨c0, _ | ⟨c1, rest⟩⟩
  · cases e <;> cases parseOK <;> cases hr : p.requiresCert <;> cases hv : p.verifies <;> simp [okOf]
  · cases e <;> cases parseOK <;> cases hr : p.requiresCert <;> cases hv : p.verifies <;>
      cases hk0 : c0.keyOK <;> cases hc0 : codeValid u p c0 <;> simp [okOf, *]
  · have hl1 : ¬ (rest.length + 1 + 1 < 2) := by omega
    have hl2 : 2 ≤ rest.length + 1 + 1 := by omega
    cases e <;> cases parseOK <;> cases hr : p.requiresCert <;> cases hv : p.verifies <;>
      cases hk0 : c0.keyOK <;> cases hc0 : codeValid u p c0 <;>
      cases hk1 : c1.keyOK <;> cases hc1 : codeValid u p c1 <;> simp [okOf, *]

/-- `PolicySatisfied` with the validity verdict as a parameter -/
def PSatV (valid : Cert → Bool) (p : Policy) (b : Behaviour) : Bool :=
  (!p.requiresCert || b.present) && (!p.verifies || b.relied.all valid) && (!b.present || b.pop)

theorem psat_eq (p : Policy) (b : Behaviour) : PolicySatisfied p b = PSatV (validUnder p) p b := rfl

theorem afterCerts_completed (t : Tables) (b : Behaviour) (req : Bool) (pc : Certs) (n : Nat) :
    (afterCerts t b req pc n).completed =
      (b.kxOK && (if t.cvCmp.eval pc.peer t.cvRhs then b.cv.any (verifySig t pc.leaf) else b.cv.isNone) && b.finishedOK) := by
  unfold afterCerts
  cases b.kxOK <;> cases b.finishedOK <;> cases t.cvCmp.eval pc.peer t.cvRhs <;> rcases b.cv with _ | w <;> simp
  all_goals cases verifySig t pc.leaf w <;> simp

theorem afterCerts_chains (t : Tables) (b : Behaviour) (req : Bool) (pc : Certs) (n : Nat) :
    (afterCerts t b req pc n).chains = pc.chains := by
  unfold afterCerts
  cases b.kxOK <;> cases b.finishedOK <;> cases t.cvCmp.eval pc.peer t.cvRhs <;> rcases b.cv with _ | w <;> simp
  all_goals cases verifySig t pc.leaf w <;> simp

theorem afterCerts_peer (t : Tables) (b : Behaviour) (req : Bool) (pc : Certs) (n : Nat) :
    (afterCerts t b req pc n).peerCerts = pc.peer := by
  unfold afterCerts
  cases b.kxOK <;> cases b.finishedOK <;> cases t.cvCmp.eval pc.peer t.cvRhs <;> rcases b.cv with _ | w <;> simp
  all_goals cases verifySig t pc.leaf w <;> simp

theorem full_code (p : Policy) (b : Behaviour) :
    serverCompletes (docTables g1 g2 rv u) p b = (FlowOK p b && PSatV (codeValid u p) p b) := by
  obtain ⟨e, cm, certs, parseOK, kxOK, cv, fin⟩ := b
  unfold serverCompletes full
  simp only [certmsg_eq]
  have hpc := processCerts_ok g1 g2 rv u p e certs parseOK
  cases hreq : certRequested p e <;> cases cm <;> simp [FlowOK, PSatV, hreq]
  · -- no request: NoClientCert on an ECC suite, no Certificate message
    have hp : p = .noClientCert ∧ e = false := by
      cases p <;> cases e <;> simp [certRequested] at hreq <;> simp
    obtain ⟨rfl, rfl⟩ := hp
    simp only [afterCerts_completed, cv_eq, Behaviour.present, Behaviour.sent, Behaviour.relied, Behaviour.pop]
    cases kxOK <;> rcases cv with _ | w <;> cases fin <;> simp [Policy.requiresCert, Policy.verifies]
  · have hpos : decide (certs.length > 0) = !certs.isEmpty := by cases certs <;> simp
    cases hpc' : processCerts (docTables g1 g2 rv u) p e certs parseOK with
    | error s =>
      rw [hpc'] at hpc
      simp only [okOf] at hpc
      have hno : pcOK u p e certs parseOK = false := by
        cases h : pcOK u p e certs parseOK
        · rfl
        · simp [h] at hpc
      simp only [pcOK, Behaviour.present, Behaviour.sent, Behaviour.relied, Behaviour.pop, if_true] at hno ⊢
      symm
      apply Bool.eq_false_iff.mpr
      intro hR
      simp only [Bool.and_eq_true] at hR
      obtain ⟨⟨⟨⟨⟨⟨a1, a2⟩, a3⟩, a4⟩, a5⟩, a6⟩, ⟨⟨b1, b2⟩, b3⟩⟩ := hR
      rw [Bool.or_comm] at a1
      simp [a1, a2, a3, b1, b2] at hno
    | ok pc =>
      rw [hpc'] at hpc
      simp only [okOf] at hpc
      have hyes : pcOK u p e certs parseOK = true := by
        cases h : pcOK u p e certs parseOK
        · simp [h] at hpc
        · rfl
      simp only [hyes, if_true, Option.some.injEq] at hpc
      subst hpc
      simp only [pcOK, afterCerts_completed, cv_eq, hpos, Behaviour.present, Behaviour.sent, Behaviour.relied, Behaviour.pop, if_true] at hyes ⊢
      simp only [Bool.and_eq_true] at hyes
      obtain ⟨⟨⟨⟨h1, h2⟩, h3⟩, h4⟩, h5⟩ := hyes
      rw [Bool.or_comm] at h1
      simp only [h1, h2, h3, h4, h5, Bool.true_and, Bool.and_true]
      rcases certs with _ | ⟨c0, rest⟩ <;> rcases cv with _ | w <;> cases kxOK <;> cases fin <;> simp [verifySig_doc]

end

/-! ### helper lemmas about results -/

section
variable (g1 g2 rv : Bool) (u : Usages)

/-- in the model, what a completed full handshake reports -/
theorem full_report (p : Policy) (b : Behaviour) (h : (full (docTables g1 g2 rv u) p b).completed = true) :
    let r := full (docTables g1 g2 rv u) p b
    (r.peerCerts ≠ 0 → r.popChecked = true ∧ b.pop = true) ∧
    (r.recorded = r.peerCerts) ∧
    (r.peerCerts = b.sent.length) := by
  obtain ⟨e, cm, certs, parseOK, kxOK, cv, fin⟩ := b
  have hpc := processCerts_ok g1 g2 rv u p e certs parseOK
  unfold full at h ⊢
  simp only [certmsg_eq] at h ⊢
  cases hreq : certRequested p e <;> cases cm <;> simp only [hreq, Bool.not_true, Bool.not_false, if_true, if_false, Bool.false_eq_true] at h ⊢
  · -- not requested, no Certificate message
    unfold afterCerts at h ⊢
    simp only [cv_eq, Behaviour.sent, Behaviour.pop] at h ⊢
    cases kxOK <;> rcases cv with _ | w <;> cases fin <;> simp at h ⊢
  · cases hpc' : processCerts (docTables g1 g2 rv u) p e certs parseOK with
    | error s => rw [hpc'] at h; simp at h
    | ok pc =>
      rw [hpc'] at hpc h
      simp only [okOf] at hpc
      have hyes : pcOK u p e certs parseOK = true := by
        cases hh : pcOK u p e certs parseOK
        · simp [hh] at hpc
        · rfl
      simp only [hyes, if_true, Option.some.injEq] at hpc
      subst hpc
      unfold afterCerts at h ⊢
      simp only [cv_eq, Behaviour.sent, Behaviour.pop] at h ⊢
      rcases certs with _ | ⟨c0, rest⟩ <;> cases kxOK <;> rcases cv with _ | w <;> cases fin <;>
        simp [verifySig_doc] at h ⊢
      all_goals (cases hw : w.valid <;> cases hk : c0.key.canSign <;> simp [hw, hk] at h ⊢)

/-- in the model, verified chains are reported only after `certs[0].Verify` (and `certs[1]` for
ECDHE) succeeded under a verifying policy -/
theorem full_chains (p : Policy) (b : Behaviour) (h : (full (docTables g1 g2 rv u) p b).chains = true) :
    p.verifies = true ∧ b.present = true ∧ b.relied.all (codeValid u p) = true := by
  obtain ⟨e, cm, certs, parseOK, kxOK, cv, fin⟩ := b
  have hpc := processCerts_ok g1 g2 rv u p e certs parseOK
  unfold full at h
  simp only [certmsg_eq] at h
  cases hreq : certRequested p e <;> cases cm <;> simp only [hreq, Bool.not_true, Bool.not_false, if_true, if_false, Bool.false_eq_true] at h
  · rw [afterCerts_chains] at h; simp at h
  · cases hpc' : processCerts (docTables g1 g2 rv u) p e certs parseOK with
    | error s => rw [hpc'] at h; simp at h
    | ok pc =>
      rw [hpc'] at hpc h
      simp only [okOf] at hpc
      have hyes : pcOK u p e certs parseOK = true := by
        cases hh : pcOK u p e certs parseOK
        · simp [hh] at hpc
        · rfl
      simp only [hyes, if_true, Option.some.injEq] at hpc
      subst hpc
      simp only [afterCerts_chains] at h
      have hch : (p.verifies && !certs.isEmpty) = true := h
      simp only [Bool.and_eq_true] at hch
      simp only [pcOK, Bool.and_eq_true] at hyes
      obtain ⟨⟨⟨⟨h1, h2⟩, h3⟩, h4⟩, h5⟩ := hyes
      simp only [hch.1, Bool.not_true, Bool.false_or] at h4
      refine ⟨hch.1, ?_, ?_⟩
      · simpa [Behaviour.present, Behaviour.sent] using hch.2
      · simpa [Behaviour.relied, Behaviour.sent] using h4

/-- in the source as it stands (`createSessionState` after `readFinished`) the part of the handshake
after the certificates stores a session exactly when it completes -/
theorem afterCerts_stored (b : Behaviour) (req : Bool) (pc : Certs) (n : Nat) :
    (afterCerts (docTables g1 g2 rv u) b req pc n).stored =
      (afterCerts (docTables g1 g2 rv u) b req pc n).completed := by
  have h1 : ((docTables g1 g2 rv u).storeAt == StorePoint.afterKx) = false := rfl
  have h2 : ((docTables g1 g2 rv u).storeAt == StorePoint.afterCertVerify) = false := rfl
  unfold afterCerts
  simp only [h1, h2]
  cases b.kxOK <;> cases b.finishedOK <;> cases (docTables g1 g2 rv u).cvCmp.eval pc.peer (docTables g1 g2 rv u).cvRhs <;>
    rcases b.cv with _ | w <;> simp
  all_goals cases verifySig (docTables g1 g2 rv u) pc.leaf w <;> simp

theorem full_stored (p : Policy) (b : Behaviour) :
    (full (docTables g1 g2 rv u) p b).stored = (full (docTables g1 g2 rv u) p b).completed := by
  unfold full
  dsimp only
  split
  · split
    · rfl
    · split
      · rfl
      · exact afterCerts_stored _ _ _ _ _ _ _ _
  · split
    · rfl
    · exact afterCerts_stored _ _ _ _ _ _ _ _

/-- a resumed handshake that got as far as `doResumeHandshake` found the session in the cache -/
theorem resume_hit (t : Tables) (p : Policy) (r : Resume) (h : resume t p r ≠ .notResumed) :
    r.cacheHit = true := by
  unfold resume checkForResumption at h
  cases hc : r.cacheHit
  · simp [hc] at h
  · rfl

/-- `sent` of the behaviour a session stands for is the recorded list -/
theorem origOf_sent (r : Resume) : (origOf r).sent = r.recorded := by
  unfold origOf Behaviour.sent
  cases h : r.recorded <;> simp

/-- resumption in the repaired code: a resumed handshake completes only if the recorded
certificates pass `processCertsFromClient` under the policy now in force -/
theorem resume_sound (p : Policy) (r : Resume)
    (hk : (r.recorded.head?.map (·.key)).all KeyKind.canSign = true)
    (h : resumedCompletes (docTables true true true u) p r = true) :
    PSatV (codeValid u p) p (origOf r) = true := by
  unfold resumedCompletes resume at h
  have hpc := processCerts_ok true true true u p r.ecdhe r.recorded true
  cases hchk : checkForResumption (docTables true true true u) p r
  · simp [hchk] at h
  · simp only [hchk, Bool.not_true, Bool.false_eq_true, if_false] at h
    have hrv : (docTables true true true u).resumeReverify = true := rfl
    simp only [hrv, if_true] at h
    cases hpc' : processCerts (docTables true true true u) p r.ecdhe r.recorded true with
    | error s => rw [hpc'] at h; simp at h
    | ok pc =>
      rw [hpc'] at hpc
      simp only [okOf] at hpc
      have hyes : pcOK u p r.ecdhe r.recorded true = true := by
        cases hh : pcOK u p r.ecdhe r.recorded true
        · simp [hh] at hpc
        · rfl
      simp only [pcOK, Bool.and_eq_true] at hyes
      obtain ⟨⟨⟨⟨h1, h2⟩, h3⟩, h4⟩, h5⟩ := hyes
      unfold PSatV Behaviour.present Behaviour.relied Behaviour.pop
      rw [origOf_sent]
      have he : (origOf r).ecdhe = r.ecdhe := rfl
      have hcv : (origOf r).cv = if r.recorded.isEmpty then none else some ⟨true, true⟩ := rfl
      rw [he, hcv]
      simp only [h2, h4, Bool.true_and]
      rcases hrec : r.recorded with _ | ⟨c0, rest⟩
      · simp
      · rw [hrec] at hk
        simpa [CertVerify.valid] using hk

end

/-! ### the code's validity verdict and the documented one -/

/-- with the documented usage list {clientAuth, serverAuth} the verdict the source selects is the
documented validity -/
theorem codeValid_doc (p : Policy) : codeValid .clientOrServer p = validUnder p := by
  funext c
  unfold codeValid validUnder
  rfl

theorem psat_code_eq (p : Policy) (b : Behaviour) :
    PSatV (codeValid .clientOrServer p) p b = PolicySatisfied p b := by
  unfold PSatV PolicySatisfied
  rw [codeValid_doc]

/-! ### C07 property theorems -/

/-- `t` is the table set of one of the two stacks, as regenerated from the source -/
def IsStack (t : Tables) : Prop := tlcpTables = some t ∨ dtlcpTables = some t

/-- **The facts the theorems rely on**: both stacks' regenerated tables are the documented ones
— iota order, `requiresClientCert` truth table, ECDHE promotion, the comparisons guarding
CertificateRequest / mandatory Certificate / chain verification, `len(peerCertificates) > 0`
for CertificateVerify, the ECDHE minimum of two certificates, the accepted extended key usages
{clientAuth, serverAuth}, resumption honouring the policy (F6 repaired), a failed type assertion in
`verifyHandshakeSignature` returning an error — the remaining shape facts hold (among them: the
error of each `Verify` call of `processCertsFromClient` is inspected and returned before anything
else happens to it, an error of `verifyHandshakeSignature` ends `doFullHandshake`, all four suites
sign with ECC_SM3, whose case asserts `*ecdsa.PublicKey` and verifies with `sm2.VerifyASN1WithSM2`;
`createSessionState` is called from one place only, an unconditional statement of the full-handshake
branch of `handshake()` behind the error checks of `pickCipherSuite`, `doFullHandshake`,
`establishKeys` and `readFinished` — `storeAt = afterFinished` — and is the only server-side writer
of a `SessionCache`, never storing nil),
and nothing the extractor looked for is missing. -/
theorem C07_facts :
    tlcpTables = some (docTables true true true .clientOrServer) ∧
    dtlcpTables = some (docTables true true true .clientOrServer) ∧
    tlcpShapeOK = true ∧ dtlcpShapeOK = true ∧
    Facts.missing = [] := by
  refine ⟨by decide, by decide, by decide, by decide, by decide⟩

/-- the fact `second` (the second connection of a history) relies on: on the server side
`c.peerCertificates` / `c.verifiedChains` are assigned by `processCertsFromClient` only, which is
called from `doFullHandshake` and `doResumeHandshake` only — `checkForResumption` writes nothing
into the connection, so a declined resumption leaves it fresh (both stacks). -/
theorem C07_facts_auth_state : tlcpAuthStateOK = true ∧ dtlcpAuthStateOK = true := by
  refine ⟨by decide, by decide⟩

theorem stack_tables {t : Tables} (h : IsStack t) : t = docTables true true true .clientOrServer := by
  rcases h with h | h
  · rw [C07_facts.1] at h; exact (Option.some.inj h).symm
  · rw [C07_facts.2.1] at h; exact (Option.some.inj h).symm

/-- **Completion ⇔ policy, with the validity verdict the source uses**: for every policy and
every client behaviour the server completes exactly when the client's flight is well-formed and
the policy is satisfied, where "valid" is the verdict of `Verify` with the source's key-usage
list.  No side condition. -/
theorem C07_full_code (t : Tables) (ht : IsStack t) (p : Policy) (b : Behaviour) :
    serverCompletes t p b = (FlowOK p b && PSatV (codeValid t.usages p) p b) := by
  rw [stack_tables ht]
  exact full_code _ _ _ _ p b

/-- **Completion ⇔ `PolicySatisfied`** (the statement of C07 for full handshakes), for all six
policies and every behaviour, on both stacks: the server completes exactly when the client's
flight is well-formed and the policy is satisfied. -/
theorem C07_full (t : Tables) (ht : IsStack t) (p : Policy) (b : Behaviour) :
    serverCompletes t p b = ShouldComplete p b := by
  rw [C07_full_code t ht, stack_tables ht]
  show (FlowOK p b && PSatV (codeValid .clientOrServer p) p b) = _
  rw [psat_code_eq]
  rfl

/-- the six policies one by one, in the documented wording (corollaries of `C07_full`) -/
theorem C07_full_by_policy (t : Tables) (ht : IsStack t) (b : Behaviour) :
    (serverCompletes t .noClientCert b = (FlowOK .noClientCert b && (!b.present || b.pop))) ∧
    (serverCompletes t .requestClientCert b = (FlowOK .requestClientCert b && (!b.present || b.pop))) ∧
    (serverCompletes t .requireAnyClientCert b = (FlowOK .requireAnyClientCert b && (b.present && b.pop))) ∧
    (serverCompletes t .verifyClientCertIfGiven b =
      (FlowOK .verifyClientCertIfGiven b && (b.relied.all (·.okClientOrServer) && (!b.present || b.pop)))) ∧
    (serverCompletes t .requireAndVerifyClientCert b =
      (FlowOK .requireAndVerifyClientCert b && (b.present && b.relied.all (·.okClientOrServer) && b.pop))) ∧
    (serverCompletes t .requireAndVerifyAnyKeyUsageClientCert b =
      (FlowOK .requireAndVerifyAnyKeyUsageClientCert b && (b.present && b.relied.all (·.okAnyUsage) && b.pop))) := by
  have e1 : ∀ p : Policy, p.ignoresUsage = false → validUnder p = fun c => c.okClientOrServer := by
    intro p h; funext c; simp [validUnder, h]
  have e2 : validUnder .requireAndVerifyAnyKeyUsageClientCert = fun c => c.okAnyUsage := by
    funext c; simp [validUnder, Policy.ignoresUsage]
  refine ⟨?_, ?_, ?_, ?_, ?_, ?_⟩ <;> rw [C07_full t ht _ b] <;>
    simp only [ShouldComplete, PolicySatisfied, Policy.requiresCert, Policy.verifies, e2,
      e1 .verifyClientCertIfGiven rfl, e1 .requireAndVerifyClientCert rfl] <;>
    cases b.present <;> cases b.pop <;> simp

/-- **Peer certificates mean proof of possession**: after completion a non-empty
peer-certificate list means `verifyHandshakeSignature` ran and accepted a CertificateVerify made
with the first certificate's key over the transcript so far, and that key is an elliptic-curve
key (for a key of any other kind — RSA — the type assertion in `verifyHandshakeSignature` fails
and the handshake ends: no signature at all would otherwise be checked). -/
theorem C07_peer_certs_mean_pop (t : Tables) (ht : IsStack t) (p : Policy) (b : Behaviour)
    (hc : (full t p b).completed = true) (hp : (full t p b).peerCerts ≠ 0) :
    (full t p b).popChecked = true ∧ b.pop = true ∧
    b.cv.any CertVerify.valid = true ∧ (b.sent.head?.map (·.key)).any KeyKind.canSign = true := by
  rw [stack_tables ht] at hc hp ⊢
  have h := (full_report _ _ _ _ p b hc).1 hp
  refine ⟨h.1, h.2, ?_⟩
  have hpop := h.2
  rw [pop_eq] at hpop
  cases hcv : b.cv with
  | none => simp [hcv] at hpop
  | some v => simpa [hcv] using hpop

/-- **Verified chains mean verified**: non-empty verified chains are reported (whether or not the
handshake then completes) only if the policy verifies, a certificate was sent, and every
certificate the server relies on (the signing certificate, for ECDHE also the encryption
certificate) passed `Verify` against the client roots at `Config.Time` with the key usages the
policy calls for. -/
theorem C07_chains_mean_verified (t : Tables) (ht : IsStack t) (p : Policy) (b : Behaviour)
    (h : (full t p b).chains = true) :
    p.verifies = true ∧ b.present = true ∧ b.relied.all (codeValid t.usages p) = true := by
  rw [stack_tables ht] at h ⊢
  exact full_chains _ _ _ _ p b h

/-- **What a session records is covered by a checked proof of possession.** -/
theorem C07_session_pop (t : Tables) (ht : IsStack t) (p : Policy) (b : Behaviour)
    (hc : (full t p b).completed = true) (hr : (full t p b).recorded ≠ 0) :
    b.pop = true ∧ (full t p b).recorded = b.sent.length := by
  rw [stack_tables ht] at hc hr ⊢
  obtain ⟨h1, h2, h3⟩ := full_report _ _ _ _ p b hc
  rw [h2] at hr ⊢
  exact ⟨(h1 hr).2, h3⟩

/-- **Resumption honours the policy** (F6 repaired): a resumed handshake completes under policy
`p` only if the behaviour that created the session — its recorded certificates re-judged under
the client roots and time now in force, its proof of possession checked when they were recorded
(`C07_session_pop`; `hk`: the key it was checked under is therefore an elliptic-curve key, which
`C07_resumed_history` derives from the completion of the first handshake) — satisfies `p`. -/
theorem C07_resumed (t : Tables) (ht : IsStack t) (p : Policy) (r : Resume)
    (hk : (r.recorded.head?.map (·.key)).all KeyKind.canSign = true)
    (h : resumedCompletes t p r = true) : PolicySatisfied p (origOf r) = true := by
  rw [← psat_code_eq]
  rw [stack_tables ht] at h
  exact resume_sound _ p r hk h

/-- the same over two-connection histories: a full handshake of behaviour `b1` under `p1`
completes and stores a session; the session is offered to a server whose policy is `p2` (another
`Config` sharing the cache) where the recorded certificates — the ones the client sent: as many,
the first with the same key — have the verdicts `now`.  If the
resumed handshake completes, the original client behaviour, judged under the configuration now in
force, satisfies `p2`. -/
theorem C07_resumed_history (t : Tables) (ht : IsStack t) (p1 p2 : Policy) (b1 : Behaviour)
    (now : List Cert) (hit mech fin : Bool)
    (hfull : (full t p1 b1).completed = true)
    (hlen : now.length = (full t p1 b1).recorded)
    (hkey : now.head?.map (·.key) = b1.sent.head?.map (·.key))
    (hres : resumedCompletes t p2 ⟨hit, mech, b1.ecdhe, now, fin⟩ = true) :
    PolicySatisfied p2 { b1 with certMsg := !now.isEmpty, certs := now } = true := by
  let r : Resume := ⟨hit, mech, b1.ecdhe, now, fin⟩
  have hsent : (origOf r).sent = now := origOf_sent r
  -- when certificates were recorded, the original CertificateVerify was checked …
  have hpop : now.isEmpty = false → b1.pop = true := by
    intro hn
    have hrec : (full t p1 b1).recorded ≠ 0 := by
      rw [← hlen]; intro h0; rw [List.length_eq_zero_iff] at h0; simp [h0] at hn
    exact (C07_session_pop t ht p1 b1 hfull hrec).1
  -- … under the key of the first recorded certificate, an elliptic-curve key
  have hleaf : (now.head?.map (·.key)).all KeyKind.canSign = true := by
    cases hn : now.isEmpty
    · have hp := hpop hn
      rw [pop_eq, ← hkey] at hp
      rcases hcv : b1.cv with _ | v
      · simp [hcv] at hp
      · rcases hh : now.head? with _ | c
        · simp
        · simp [hcv, hh] at hp
          simp [hp.2]
    · have : now = [] := by simpa using hn
      simp [this]
  have h := C07_resumed t ht p2 r hleaf hres
  -- the two behaviours differ only in `cv`; compare the three clauses
  have hsent' : ({ b1 with certMsg := !now.isEmpty, certs := now } : Behaviour).sent = now := by
    unfold Behaviour.sent; cases hn : now <;> simp
  unfold PolicySatisfied Behaviour.present Behaviour.relied at h ⊢
  rw [hsent] at h
  rw [hsent']
  have he : (origOf r).ecdhe = b1.ecdhe := rfl
  rw [he] at h
  simp only [Bool.and_eq_true] at h ⊢
  refine ⟨⟨h.1.1, h.1.2⟩, ?_⟩
  rcases Bool.eq_false_or_eq_true now.isEmpty with hn | hn
  · simp [hn]
  · have hp := hpop hn
    have hp' : ({ b1 with certMsg := !now.isEmpty, certs := now } : Behaviour).pop = true := by
      rw [pop_eq] at hp ⊢
      rw [hsent', hkey]
      simpa using hp
    rw [hp']; simp

/-! ### when a session becomes resumable -/

/-- **A session is stored exactly by a completed handshake**: `createSessionState` — the only writer
of the server's session cache (`C07_facts`) — runs in a full handshake iff the handshake completes:
after `doFullHandshake` (with the CertificateVerify check) and `readFinished` both returned nil.  A
handshake that stops at the certificates, the key exchange, the CertificateVerify or the Finished
leaves nothing in the cache. -/
theorem C07_stored_iff_completed (t : Tables) (ht : IsStack t) (p : Policy) (b : Behaviour) :
    (full t p b).stored = (full t p b).completed := by
  rw [stack_tables ht]
  exact full_stored _ _ _ _ p b

/-- **A resumable session exists only if the policy was satisfied**: whenever the cache holds a
session made by a client of behaviour `b` under policy `p`, the client's flight was well-formed,
`PolicySatisfied p b` held, and recorded certificates are covered by a checked proof of possession. -/
theorem C07_stored_only_if_policy_satisfied (t : Tables) (ht : IsStack t) (p : Policy) (b : Behaviour)
    (h : (full t p b).stored = true) :
    ShouldComplete p b = true ∧ PolicySatisfied p b = true ∧ ((full t p b).recorded ≠ 0 → b.pop = true) := by
  rw [C07_stored_iff_completed t ht] at h
  have hs : ShouldComplete p b = true := by rw [← C07_full t ht]; exact h
  refine ⟨hs, ?_, fun hr => (C07_session_pop t ht p b h hr).1⟩
  unfold ShouldComplete at hs
  simp only [Bool.and_eq_true] at hs
  exact hs.2

/-- **A failed handshake is never resumed**: when the first connection of a history does not
complete — whatever the reason: bad chain, CertificateVerify missing / by another key / over another
transcript, wrong Finished — offering the session id it announced (with the master secret the client
computed) never resumes: `checkForResumption` returns false and a full handshake follows. -/
theorem C07_failed_first_never_resumes (t : Tables) (ht : IsStack t) (p1 p2 : Policy) (b1 : Behaviour)
    (now : List Cert) (offer mech fin : Bool) (hf : (full t p1 b1).completed = false) :
    history t p1 p2 b1 now offer mech fin = .notResumed := by
  have hs : (full t p1 b1).stored = false := by rw [C07_stored_iff_completed t ht]; exact hf
  unfold history resume checkForResumption
  simp [hs]

/-- **Histories, without assuming that the first handshake completed**: a client of behaviour `b1`
meets a server under `p1`; then the session id of that connection is offered to a server under `p2`
sharing the cache, where the recorded certificates have the verdicts `now`.  If the second
connection is resumed and completes, then the first handshake completed, `b1` satisfied `p1`, and
`b1` judged under the configuration now in force satisfies `p2`. -/
theorem C07_history (t : Tables) (ht : IsStack t) (p1 p2 : Policy) (b1 : Behaviour)
    (now : List Cert) (offer mech fin : Bool)
    (hlen : now.length = (full t p1 b1).recorded)
    (hkey : now.head?.map (·.key) = b1.sent.head?.map (·.key))
    (n : Nat) (ch : Bool) (hres : history t p1 p2 b1 now offer mech fin = .resumedDone n ch) :
    (full t p1 b1).completed = true ∧ PolicySatisfied p1 b1 = true ∧
    PolicySatisfied p2 { b1 with certMsg := !now.isEmpty, certs := now } = true := by
  have hhit := resume_hit t p2 _ (by unfold history at hres; rw [hres]; simp)
  have hst : (full t p1 b1).stored = true := by
    simp only [Bool.and_eq_true] at hhit
    exact hhit.1
  have hfull : (full t p1 b1).completed = true := by rw [← C07_stored_iff_completed t ht]; exact hst
  refine ⟨hfull, (C07_stored_only_if_policy_satisfied t ht p1 b1 hst).2.1, ?_⟩
  apply C07_resumed_history t ht p1 p2 b1 now ((full t p1 b1).stored && offer) mech fin hfull hlen hkey
  unfold resumedCompletes
  unfold history at hres
  rw [hres]

/-- a source that stored the session as soon as the master secret is derived (before the
CertificateVerify is read) would let a client that sent somebody else's trusted certificate with a
CertificateVerify by another key — refused at the proof of possession — resume the session it left
behind: completion with that certificate as peer certificate and verified chains although the
policy was never satisfied (the negation of `C07_history` for such tables, on the witness); the
source as it stands does not resume it -/
example :
    let t : Tables := { docTables true true true .clientOrServer with storeAt := .afterKx }
    let b : Behaviour := { ecdhe := false, certMsg := true, certs := [⟨true, true, true, .sm2⟩], parseOK := true,
                           kxOK := true, cv := some ⟨false, true⟩, finishedOK := true }
    (full t .requireAndVerifyClientCert b).stage = .pop ∧
    (full t .requireAndVerifyClientCert b).completed = false ∧
    (full t .requireAndVerifyClientCert b).stored = true ∧
    history t .requireAndVerifyClientCert .requireAndVerifyClientCert b [⟨true, true, true, .sm2⟩] true true true
      = .resumedDone 1 true ∧
    PolicySatisfied .requireAndVerifyClientCert b = false ∧
    history (docTables true true true .clientOrServer) .requireAndVerifyClientCert .requireAndVerifyClientCert b
      [⟨true, true, true, .sm2⟩] true true true = .notResumed := by decide

/-- the same for a store point after the CertificateVerify but before the Finished: a handshake
whose Finished is wrong would leave a resumable session -/
example :
    let t : Tables := { docTables true true true .clientOrServer with storeAt := .afterCertVerify }
    let b : Behaviour := { ecdhe := false, certMsg := true, certs := [⟨true, true, true, .sm2⟩], parseOK := true,
                           kxOK := true, cv := some ⟨true, true⟩, finishedOK := false }
    (full t .requireAndVerifyClientCert b).stage = .finished ∧ (full t .requireAndVerifyClientCert b).stored = true ∧
    (full (docTables true true true .clientOrServer) .requireAndVerifyClientCert b).stored = false := by decide

/-- non-vacuity of `C07_history`: an honest first connection is resumed -/
example : history (docTables true true true .clientOrServer) .requireAndVerifyClientCert .requireAndVerifyClientCert
    { ecdhe := false, certMsg := true, certs := [⟨true, true, true, .sm2⟩], parseOK := true,
      kxOK := true, cv := some ⟨true, true⟩, finishedOK := true } [⟨true, true, true, .sm2⟩] true true true
    = .resumedDone 1 true := by decide

/-! ### what the second connection reports: declined resumptions -/

theorem second_of_notResumed (t : Tables) (p1 p2 : Policy) (b1 b2 : Behaviour) (now : List Cert) (offer mech : Bool)
    (h : history t p1 p2 b1 now offer mech b2.finishedOK = .notResumed) :
    second t p1 p2 b1 now offer mech b2 = reportFull (full t p2 b2) := by
  unfold second; rw [h]

theorem second_resumed_false (t : Tables) (p1 p2 : Policy) (b1 b2 : Behaviour) (now : List Cert) (offer mech : Bool)
    (h : (second t p1 p2 b1 now offer mech b2).resumed = false) :
    history t p1 p2 b1 now offer mech b2.finishedOK = .notResumed := by
  unfold second at h
  cases hh : history t p1 p2 b1 now offer mech b2.finishedOK with
  | notResumed => rfl
  | resumedDone n ch => rw [hh] at h; simp at h
  | resumedFailed s => rw [hh] at h; simp at h

/-- **A resumption that cannot happen for reasons outside client authentication is declined** — the
session's suite is no longer offered by the ClientHello or no longer supported by the server, the
version differs (`mech = false`) — whatever the session records and whatever the policies are
(any tables). -/
theorem C07_mech_failure_declines (t : Tables) (p1 p2 : Policy) (b1 : Behaviour) (now : List Cert) (offer fin : Bool) :
    history t p1 p2 b1 now offer false fin = .notResumed := by
  unfold history resume checkForResumption
  simp

/-- **A connection that is not resumed reports only what ITS client presented**, for every history:
whatever the first connection was (`b1` under `p1`, completed or not), whatever session id the
second ClientHello offers and for whichever reason the resumption did not happen (nothing offered,
unknown id, the policy gate, suite no longer offered / supported), the second connection's
verified chains are non-empty only if ITS policy verifies, ITS client presented a certificate and
every certificate relied on passed the validation now — and they are that client's chains; after
completion non-empty peer certificates are that client's and its proof of possession was checked;
a client that presented nothing has no verified chains and, after completion, no peer
certificates.  Nothing of the session `checkForResumption` looked at survives on the connection. -/
theorem C07_unresumed_reports_this_client (t : Tables) (ht : IsStack t) (p1 p2 : Policy) (b1 b2 : Behaviour)
    (now : List Cert) (offer mech : Bool)
    (hr : (second t p1 p2 b1 now offer mech b2).resumed = false) :
    ((second t p1 p2 b1 now offer mech b2).chains = true →
        p2.verifies = true ∧ b2.present = true ∧ b2.relied.all (codeValid t.usages p2) = true ∧
        (second t p1 p2 b1 now offer mech b2).chainOwner = .thisClient) ∧
    ((second t p1 p2 b1 now offer mech b2).completed = true → (second t p1 p2 b1 now offer mech b2).peers ≠ 0 →
        b2.pop = true ∧ (second t p1 p2 b1 now offer mech b2).peerOwner = .thisClient) ∧
    (b2.present = false →
        (second t p1 p2 b1 now offer mech b2).chains = false ∧
        ((second t p1 p2 b1 now offer mech b2).completed = true → (second t p1 p2 b1 now offer mech b2).peers = 0)) := by
  rw [second_of_notResumed t p1 p2 b1 b2 now offer mech (second_resumed_false t p1 p2 b1 b2 now offer mech hr)]
  refine ⟨?_, ?_, ?_⟩
  · intro hc
    have hc' : (full t p2 b2).chains = true := hc
    obtain ⟨h1, h2, h3⟩ := C07_chains_mean_verified t ht p2 b2 hc'
    exact ⟨h1, h2, h3, by simp [reportFull, hc']⟩
  · intro hc hp
    have hc' : (full t p2 b2).completed = true := hc
    have hp' : (full t p2 b2).peerCerts ≠ 0 := hp
    refine ⟨(C07_peer_certs_mean_pop t ht p2 b2 hc' hp').2.1, ?_⟩
    simp [reportFull, hp']
  · intro hn
    constructor
    · cases hch : (full t p2 b2).chains with
      | false => simp [reportFull, hch]
      | true => have := (C07_chains_mean_verified t ht p2 b2 hch).2.1; rw [hn] at this; cases this
    · intro hc
      have hc' : (full t p2 b2).completed = true := hc
      have hlen : (full t p2 b2).peerCerts = b2.sent.length := by
        have := (full_report true true true .clientOrServer p2 b2 (by rw [← stack_tables ht]; exact hc')).2.2
        rw [← stack_tables ht] at this; exact this
      have hs : b2.sent = [] := by
        simpa [Behaviour.present] using hn
      simp [reportFull, hlen, hs]

/-- a resumed connection never claims that its certificates are those of the client now
connected: they are the session's (any tables) -/
theorem C07_resumed_reports_the_session (t : Tables) (p1 p2 : Policy) (b1 b2 : Behaviour)
    (now : List Cert) (offer mech : Bool)
    (hr : (second t p1 p2 b1 now offer mech b2).resumed = true) :
    (second t p1 p2 b1 now offer mech b2).chainOwner ≠ .thisClient ∧
    (second t p1 p2 b1 now offer mech b2).peerOwner ≠ .thisClient := by
  unfold second at hr ⊢
  cases hh : history t p1 p2 b1 now offer mech b2.finishedOK with
  | notResumed => rw [hh] at hr; simp [reportFull] at hr
  | resumedDone n ch => cases ch <;> cases hn : (n == 0) <;> simp [hn]
  | resumedFailed s => simp

/-- non-vacuity, and the history of the seeded class: a certificate holder's session (ECC), then a
ClientHello that offers its id but not its suite and a client that presents an empty list under
`VerifyClientCertIfGiven`: declined, completes, no peer certificates, no verified chains -/
example :
    let t := docTables true true true .clientOrServer
    let holder : Behaviour := { ecdhe := false, certMsg := true, certs := [⟨true, true, true, .sm2⟩, ⟨true, true, true, .sm2⟩],
                                parseOK := true, kxOK := true, cv := some ⟨true, true⟩, finishedOK := true }
    let nobody : Behaviour := { ecdhe := false, certMsg := true, certs := [], parseOK := true, kxOK := true, cv := none, finishedOK := true }
    let now : List Cert := [⟨true, true, true, .sm2⟩, ⟨true, true, true, .sm2⟩]
    second t .verifyClientCertIfGiven .verifyClientCertIfGiven holder now true false nobody =
      { completed := true, resumed := false, peers := 0, chains := false, peerOwner := .nobody, chainOwner := .nobody,
        stage := .done, certReq := some true } ∧
    -- the same ClientHello with the suite still on offer resumes, and reports the SESSION's certificates
    second t .verifyClientCertIfGiven .verifyClientCertIfGiven holder now true true nobody =
      { completed := true, resumed := true, peers := 2, chains := true, peerOwner := .session, chainOwner := .session,
        stage := .done, certReq := none } := by decide

/-! ### every certificate the server relies on is judged on its own; foreign keys -/

/-- **Each relied-on certificate is verified separately**: under a verifying policy the server
completes only if the signing certificate AND (for ECDHE) the encryption certificate each pass the
path validation — a good verdict for one never stands in for the other. -/
theorem C07_each_relied_cert_verified (t : Tables) (ht : IsStack t) (p : Policy) (b : Behaviour)
    (hv : p.verifies = true) (hc : serverCompletes t p b = true) :
    (∀ c ∈ b.sent.head?, validUnder p c = true) ∧
    (b.ecdhe = true → ∀ c ∈ b.sent[1]?, validUnder p c = true) := by
  rw [C07_full t ht] at hc
  unfold ShouldComplete PolicySatisfied at hc
  simp only [hv, Bool.not_true, Bool.false_or, Bool.and_eq_true] at hc
  have hall := hc.2.1.2
  unfold Behaviour.relied at hall
  rcases hs : b.sent with _ | ⟨c0, _ | ⟨c1, rest⟩⟩ <;> cases he : b.ecdhe <;> simp [hs, he] at hall ⊢
  all_goals simp [hall]

/-- **A certificate with a foreign key never authenticates**: when the first certificate the
client sent carries a key that is not an elliptic-curve key (RSA, …), the server does not complete
— under any policy, whatever CertificateVerify (garbage, by another key, none) follows. -/
theorem C07_foreign_key_refused (t : Tables) (ht : IsStack t) (p : Policy) (b : Behaviour)
    (hp : b.present = true) (hk : (b.sent.head?.map (·.key)).any KeyKind.canSign = false) :
    serverCompletes t p b = false := by
  rw [C07_full t ht]
  unfold ShouldComplete PolicySatisfied
  rw [pop_eq]
  simp [hp, hk]

/-- mixed pairs on an ECDHE suite: bad signing certificate with a good encryption certificate, and
the reverse, are refused under the three verifying policies and accepted (with a correct
CertificateVerify) under the others -/
example : ∀ certs ∈ [[(⟨false, false, false, .sm2⟩ : Cert), ⟨true, true, true, .sm2⟩],
                     [⟨true, true, true, .sm2⟩, ⟨false, false, false, .sm2⟩]],
    let b : Behaviour := { ecdhe := true, certMsg := true, certs := certs, parseOK := true, kxOK := true,
                           cv := some ⟨true, true⟩, finishedOK := true }
    (∀ p ∈ [Policy.verifyClientCertIfGiven, .requireAndVerifyClientCert, .requireAndVerifyAnyKeyUsageClientCert],
      serverCompletes (docTables true true true .clientOrServer) p b = false) ∧
    (∀ p ∈ [Policy.noClientCert, .requestClientCert, .requireAnyClientCert],
      serverCompletes (docTables true true true .clientOrServer) p b = true) := by decide

/-- a trusted certificate with an RSA key and any CertificateVerify is refused at the proof of
possession; a source whose `verifyHandshakeSignature` did not return an error for a key of the
wrong type would complete on it with peer certificates and verified chains — the negation of
`C07_full` for such tables, on the witness -/
example :
    let b : Behaviour := { ecdhe := false, certMsg := true, certs := [⟨true, true, true, .rsa⟩], parseOK := true,
                           kxOK := true, cv := some ⟨false, false⟩, finishedOK := true }
    (full (docTables true true true .clientOrServer) .requireAndVerifyClientCert b).stage = .pop ∧
    ShouldComplete .requireAndVerifyClientCert b = false ∧
    full { docTables true true true .clientOrServer with vhsAssertReturns := false } .requireAndVerifyClientCert b =
      { completed := true, stage := .done, certReq := true, peerCerts := 1, chains := true, popChecked := true, recorded := 1, stored := true } := by
  decide

/-! ### F6 — the unrepaired code violates the resumption clause (negation on a witness) -/

/-- tables of the source before the repair: `checkForResumption` never consults the policy -/
def unrepaired : Tables := docTables false false false .clientOrServer

/-- the witness: a session created by a client without certificate (under `NoClientCert`),
offered to a server whose policy is `RequireAndVerifyClientCert` and which shares the cache -/
def f6Witness : Resume := { cacheHit := true, mechOK := true, ecdhe := false, recorded := [], finishedOK := true }

/-- F6: before the repair the resumed handshake completes (`DidResume`, 0 peer certificates)
although the policy is not satisfied — the negation of `C07_resumed` on the witness … -/
example : resume unrepaired .requireAndVerifyClientCert f6Witness = .resumedDone 0 false ∧
    PolicySatisfied .requireAndVerifyClientCert (origOf f6Witness) = false := by decide

example : ¬ (∀ p r, resumedCompletes unrepaired p r = true → PolicySatisfied p (origOf r) = true) := by
  intro h
  have := h .requireAndVerifyClientCert f6Witness (by decide)
  revert this; decide

/-- … and the repaired code refuses to resume it (a full handshake follows, which then demands
the certificate) -/
example : resume (docTables true true true .clientOrServer) .requireAndVerifyClientCert f6Witness = .notResumed := by
  decide

/-- second F6 witness: a session made under `RequireAnyClientCert` with a certificate from an
unknown CA is resumed under `RequireAndVerifyClientCert` by the unrepaired code; the repaired
code fails the handshake at chain verification -/
def f6Witness2 : Resume :=
  { cacheHit := true, mechOK := true, ecdhe := false,
    recorded := [⟨false, false, false, .sm2⟩], finishedOK := true }
example : resume unrepaired .requireAndVerifyClientCert f6Witness2 = .resumedDone 1 false ∧
    PolicySatisfied .requireAndVerifyClientCert (origOf f6Witness2) = false ∧
    resume (docTables true true true .clientOrServer) .requireAndVerifyClientCert f6Witness2 = .resumedFailed .chain := by
  decide

/-! ### extended key usage: the documented set is {clientAuth, serverAuth}

The source verifies client chains with `KeyUsages = [ClientAuth, ServerAuth]` (wider than
crypto/tls, which accepts clientAuth only — an observation, not a finding: the property asks for
no particular usage).  `C07_facts` pins the extracted list to that documented set, so a change
that narrows or widens it breaks the theorems; the examples show what each direction would do. -/

/-- a trusted, in-date certificate whose extended key usage is serverAuth only / codeSigning only,
sent with a correct proof of possession by an otherwise correct client -/
def serverAuthOnly : Behaviour :=
  { ecdhe := false, certMsg := true, certs := [⟨false, true, true, .sm2⟩], parseOK := true, kxOK := true,
    cv := some ⟨true, true⟩, finishedOK := true }
def codeSigningOnly : Behaviour :=
  { ecdhe := false, certMsg := true, certs := [⟨false, false, true, .sm2⟩], parseOK := true, kxOK := true,
    cv := some ⟨true, true⟩, finishedOK := true }

/-- serverAuth-only is accepted under the verifying policies; codeSigning-only ("wrong extended
key usage") is refused under them and accepted under `RequireAndVerifyAnyKeyUsageClientCert` -/
example :
    serverCompletes (docTables true true true .clientOrServer) .requireAndVerifyClientCert serverAuthOnly = true ∧
    ShouldComplete .requireAndVerifyClientCert serverAuthOnly = true ∧
    serverCompletes (docTables true true true .clientOrServer) .requireAndVerifyClientCert codeSigningOnly = false ∧
    serverCompletes (docTables true true true .clientOrServer) .verifyClientCertIfGiven codeSigningOnly = false ∧
    serverCompletes (docTables true true true .clientOrServer) .requireAndVerifyAnyKeyUsageClientCert codeSigningOnly = true ∧
    serverCompletes (docTables true true true .clientOrServer) .requireAnyClientCert codeSigningOnly = true := by decide

/-- a source that narrowed the list to clientAuth would refuse what the documented policy accepts
(the negation of `C07_full` for such tables, on the witness) -/
example : serverCompletes (docTables true true true .clientOnly) .requireAndVerifyClientCert serverAuthOnly = false ∧
    ShouldComplete .requireAndVerifyClientCert serverAuthOnly = true := by decide

/-! ### ECDHE and the promoted policy (explained, not a violation)

For ECDHE suites `doFullHandshake` promotes its *local* policy to `RequireAndVerifyClientCert`
(except under `RequestClientCert`), which only decides that a CertificateRequest is sent and a
Certificate message is mandatory; `processCertsFromClient` consults the **configured** policy.
Consequences, all consistent with `PolicySatisfied` (the property speaks about the configured
policy) and with `FlowOK` (an ECDHE exchange needs the client's two certificates):
-/

/-- under `NoClientCert` + ECDHE a client with two certificates from an unknown CA and a correct
CertificateVerify completes (peer certificates reported, no verified chains): the configured
policy does not verify -/
example :
    let b : Behaviour := { ecdhe := true, certMsg := true, certs := [⟨false, false, false, .sm2⟩, ⟨false, false, false, .sm2⟩],
                           parseOK := true, kxOK := true, cv := some ⟨true, true⟩, finishedOK := true }
    full (docTables true true true .clientOrServer) .noClientCert b =
      { completed := true, stage := .done, certReq := true, peerCerts := 2, chains := false, popChecked := true, recorded := 2, stored := true } ∧
    ShouldComplete .noClientCert b = true := by decide

/-- under `NoClientCert` + ECDHE a client without certificates is refused — by the key
exchange's need for two certificates (`FlowOK`), not by the policy -/
example :
    let b : Behaviour := { ecdhe := true, certMsg := true, certs := [], parseOK := true, kxOK := true, cv := none, finishedOK := true }
    serverCompletes (docTables true true true .clientOrServer) .noClientCert b = false ∧
    PolicySatisfied .noClientCert b = true ∧ FlowOK .noClientCert b = false := by decide

/-- the promotion never changes which certificates are verified: chain verification is decided
by the configured policy alone, for every suite -/
theorem C07_verification_by_configured_policy (t : Tables) (ht : IsStack t) (p : Policy) (b : Behaviour)
    (hc : (full t p b).completed = true) :
    (full t p b).chains = (p.verifies && b.present) := by
  rw [stack_tables ht] at hc ⊢
  obtain ⟨e, cm, certs, parseOK, kxOK, cv, fin⟩ := b
  have hpc := processCerts_ok true true true .clientOrServer p e certs parseOK
  unfold full at hc ⊢
  simp only [certmsg_eq] at hc ⊢
  cases hreq : certRequested p e <;> cases cm <;>
    simp only [hreq, Bool.not_true, Bool.not_false, if_true, if_false, Bool.false_eq_true] at hc ⊢
  · rw [afterCerts_chains]; simp [Behaviour.present, Behaviour.sent]
  · cases hpc' : processCerts (docTables true true true .clientOrServer) p e certs parseOK with
    | error s => rw [hpc'] at hc; simp at hc
    | ok pc =>
      rw [hpc'] at hpc
      simp only [okOf] at hpc
      have hyes : pcOK .clientOrServer p e certs parseOK = true := by
        cases hh : pcOK .clientOrServer p e certs parseOK
        · simp [hh] at hpc
        · rfl
      simp only [hyes, if_true, Option.some.injEq] at hpc
      subst hpc
      simp [afterCerts_chains, Behaviour.present, Behaviour.sent]

/-! ### non-vacuity -/

/-- `IsStack` is inhabited: the regenerated tables of both stacks exist -/
example : IsStack (docTables true true true .clientOrServer) := Or.inl C07_facts.1

/-- an honest client with a trusted pair under `RequireAndVerifyClientCert`, ECDHE: completes,
two peer certificates, verified chains, proof of possession checked -/
example :
    let b : Behaviour := { ecdhe := true, certMsg := true, certs := [⟨true, true, true, .sm2⟩, ⟨true, true, true, .sm2⟩],
                           parseOK := true, kxOK := true, cv := some ⟨true, true⟩, finishedOK := true }
    full (docTables true true true .clientOrServer) .requireAndVerifyClientCert b =
      { completed := true, stage := .done, certReq := true, peerCerts := 2, chains := true, popChecked := true, recorded := 2, stored := true } := by
  decide

/-- a certificate sent with the CertificateVerify missing, signed by another key, or signed over
another transcript is refused under every policy that asks for certificates -/
example : ∀ p ∈ [Policy.requestClientCert, .requireAnyClientCert, .verifyClientCertIfGiven,
      .requireAndVerifyClientCert, .requireAndVerifyAnyKeyUsageClientCert],
    ∀ cv ∈ [none, some (⟨false, true⟩ : CertVerify), some ⟨true, false⟩],
    serverCompletes (docTables true true true .clientOrServer) p
      { ecdhe := false, certMsg := true, certs := [⟨true, true, true, .sm2⟩], parseOK := true, kxOK := true,
        cv := cv, finishedOK := true } = false := by decide

/-- a session with a trusted certificate resumes under a verifying policy, with verified chains -/
example : resume (docTables true true true .clientOrServer) .requireAndVerifyClientCert
    { cacheHit := true, mechOK := true, ecdhe := false, recorded := [⟨true, true, true, .sm2⟩], finishedOK := true }
    = .resumedDone 1 true := by decide

/-! ### `requiresClientCert` of the TRANSLATED source (`Gotlcp.Src.tlcp`, regenerated from common.go) -/

/-- The statement-by-statement translation of `requiresClientCert(c ClientAuthType) bool`, as a
function of the `int` code of the policy (`t.ord p`, the iota value), returns for each of the six
documented policies what the regenerated table of the model says (`t.requiresClientCert`), which is
what the documentation says (`Policy.requiresCert`: RequireAnyClientCert, RequireAndVerifyClientCert,
RequireAndVerifyAnyKeyUsageClientCert), and `false` for every other integer. -/
theorem C07_src_requiresClientCert (t : Tables) (ht : tlcpTables = some t) :
    (∀ p : Policy, Src.tlcp.requiresClientCert (t.ord p : Int) = t.requiresClientCert p ∧
                   Src.tlcp.requiresClientCert (t.ord p : Int) = p.requiresCert) ∧
    (∀ c : Int, (∀ p : Policy, c ≠ (t.ord p : Int)) → Src.tlcp.requiresClientCert c = false) := by
  obtain ⟨h1, h2⟩ := Tie.Padding.tie_requiresClientCert t ht
  refine ⟨fun p => ⟨h1 p, ?_⟩, h2⟩
  rw [h1 p, stack_tables (Or.inl ht), requires_eq]

/-- the codes are the iota values 0…5, so "every other integer" is every `c < 0` and every `c ≥ 6` -/
theorem C07_src_requiresClientCert_range (c : Int) (h : c < 0 ∨ 6 ≤ c) :
    Src.tlcp.requiresClientCert c = false := by
  cases hc : Src.tlcp.requiresClientCert c with
  | false => rfl
  | true => have := (Tie.Padding.tie_requiresClientCert_iff c).mp hc; omega

example : Facts.tlcp.saPolicyValues = [0, 1, 2, 3, 4, 5] ∧
    (List.range 8).map (fun (c : Nat) => Src.tlcp.requiresClientCert (c : Int)) =
      [false, false, true, false, true, true, false, false] := by decide

end Gotlcp.Props.C07

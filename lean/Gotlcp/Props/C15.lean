/-
C15 — datagram connections keep message boundaries and respect the path MTU (DTLCP).

Property theorems only (helpers are in `Gotlcp.Lemmas.DtlcpTx`).  Every statement
quantifies over every payload, every `Config.PMTU` value (an arbitrary integer) and every
cipher parameter set of the given kind (any nonce / tag / MAC length; any block size for
CBC).  Model: `Gotlcp.Model.DtlcpTx`, instantiated with `here` = `Model.DtlcpTx.treeConsts` (literal
default PMTU / padding budget, justified by the translation tie `Gotlcp.Tie.RecordSize.Dtlcp`, not
by text-matching facts) over the two package constants `recordHeaderLen`, `maxPlaintext`.
-/
import Gotlcp.Lemmas.DtlcpTx
import Gotlcp.Generated.Facts
import Gotlcp.Tie.RecordSize

set_option linter.unusedSimpArgs false
set_option linter.unusedVariables false

namespace Gotlcp.Props.C15
open Gotlcp.Model.DtlcpTx
open Gotlcp.Lemmas.DtlcpTx
open Gotlcp.Spec

/-- the constants of this tree: `Model.DtlcpTx.treeConsts` (default PMTU 1400, CBC padding
budgeted — literals, tied to the text of `maxPayloadSizeForWrite` / `explicitNonceLen` that is in the
tree by the translation proofs `C15_src_*` below, for all inputs) over the package constants
`recordHeaderLen` and `maxPlaintext` (evaluated by the extractor).  The same record as
`Tie.RecordSize.Dtlcp.K` (`C15_src_translated`) and as the oracle's. -/
def here : Consts := treeConsts Facts.dtlcp.recordHeaderLen Facts.dtlcp.maxPlaintext

/-- the two protected suites' size parameters, from the regenerated facts where the source has
them (explicit nonce = aeadNonceLength − noncePrefixLength, MAC = 32, CBC IV = block = 16);
the 16-byte GCM tag is the library's constant -/
def gcmHere : Cipher := .aead (Facts.dtlcp.aeadNonceLength - Facts.dtlcp.noncePrefixLength) 16
def cbcHere : Cipher := .cbc 16 32

/-- the source shapes the model transcribes (regenerated from the Go AST on every run).
The text of `Conn.maxPayloadSizeForWrite` and `halfConn.explicitNonceLen` themselves (where the PMTU
is read, the default 1400, the base budget, the AEAD / CBC arms, the two clamps and their order, the
arms of the nonce switch) is NOT pinned by text-matching facts any more: both functions are
translated on every run and `Gotlcp.Tie.RecordSize.Dtlcp` proves the translated text equal to the
model instantiated with `here` for all inputs (`C15_src_*` below) — a semantic edit breaks those
proofs, a renaming does not.  Pinned here: the model's constants agree with the documented ones of
the spec; the code the translation does not reach (`prefixNonceAEAD`'s nonce length, `encrypt`, the
splitting loop, `write` / `flush`, the entry points, the receive side). -/
theorem C15_facts :
    Facts.missing = [] ∧
    here.defaultPmtu = DtlcpTxSpec.defaultPmtu ∧ Facts.dtlcp.recordHeaderLen = DtlcpTxSpec.recordHeader ∧
    Facts.dtlcp.maxPlaintext = DtlcpTxSpec.maxPlaintext ∧
    Facts.dtlcp.txAeadExplicitNonce = "return f.NonceSize()" ∧
    Facts.dtlcp.txAeadNonceSize = "return aeadNonceLength - noncePrefixLength" ∧
    Facts.dtlcp.aeadNonceLength - Facts.dtlcp.noncePrefixLength = 8 ∧
    Facts.dtlcp.txEncryptNilAppends = true ∧ Facts.dtlcp.txEncryptAeadSeals = true ∧
    Facts.dtlcp.txCbcPlaintextLen = "len(payload) + len(mac)" ∧
    Facts.dtlcp.txCbcPaddingLen = "blockSize - plaintextLen%blockSize" ∧
    Facts.dtlcp.txCbcGrow = "record, dst = sliceForAppend(record, plaintextLen+paddingLen)" ∧
    Facts.dtlcp.txNonceGrow = "record, explicitNonce = sliceForAppend(record, explicitNonceLen)" ∧
    Facts.dtlcp.txSplitLoopCond = "len(data) > 0" ∧
    Facts.dtlcp.txSplitTake = "maxPayload := c.maxPayloadSizeForWrite(typ); m > maxPayload { m = maxPayload }" ∧
    Facts.dtlcp.txSplitAdvance = "data = data[m:]" ∧ Facts.dtlcp.txSplitWritesPerRecord = 1 ∧
    Facts.dtlcp.txWrite = ["if c.buffering { c.sendBuf = append(c.sendBuf, data...) return len(data), nil }",
                           "n, err := c.pconn.WriteTo(data, c.remoteAddr)", "return n, err"] ∧
    Facts.dtlcp.txFlush = ["if len(c.sendBuf) == 0 { return 0, nil }", "n, err := c.pconn.WriteTo(c.sendBuf, c.remoteAddr)",
                           "c.sendBuf = nil", "c.buffering = false", "return n, err"] ∧
    Facts.dtlcp.txWriteToTail = "return c.writeRecordLocked(recordTypeApplicationData, p)" ∧
    Facts.dtlcp.txWriteCall = "c.writeRecordLocked(recordTypeApplicationData, b)" ∧
    Facts.dtlcp.rxfShortDropped = true ∧ Facts.dtlcp.rxfTruncatedDropped = true ∧
    Facts.dtlcp.rxfRecLen = "int(hdr[11])<<8 | int(hdr[12])" ∧ Facts.dtlcp.rxfEpoch = "uint16(hdr[3])<<8 | uint16(hdr[4])" ∧
    Facts.dtlcp.rxfRecord = "c.rawInputBuf[:recordHeaderLen+recLen]" ∧ Facts.dtlcp.rxfHandsOver = "copy(p, plaintext)" ∧
    Facts.dtlcp.rxfNonAppDataNotReturned = true ∧ Facts.dtlcp.rxReadSkipsEmptyAppData = true ∧
    Facts.dtlcp.replayRxReadFromOrder = ["decrypt", "epoch<", "epoch>", "check"] ∧
    Facts.dtlcp.replayRxReadFromDecryptFail = "discard" ∧
    Facts.dtlcp.replayRxRecordOrder = ["decrypt", "epoch<", "epoch>", "check"] ∧
    Facts.dtlcp.recordTypeApplicationData = 23 ∧ Facts.dtlcp.recordTypeAlert = 21 ∧
    Facts.dtlcp.rxDatagramBuf = "maxCiphertext + recordHeaderLen" ∧ Facts.dtlcp.rxDatagramReadsIntoBuf = true ∧
    Facts.dtlcp.rxDatagramBufSize = Facts.dtlcp.maxCiphertext + Facts.dtlcp.recordHeaderLen ∧
    (Facts.dtlcp.suiteTable.filter (fun r => !r.2.2.2.2.2.1)).map (fun r => (r.2.2.1, r.2.2.2.1)) = [(32, 16), (32, 16)] := by
  decide

/-- the configuration whose `PMTU` the write path reads, from the regenerated facts:
`Clone` copies the field when its literal stores `<receiver>.PMTU` under `PMTU` (and the
generic Clone fact of C01 does not list the field as missing / not verbatim), and
`selectConfigForClient` installs what `GetConfigForClient` returned -/
def cfgHere : CfgConsts :=
  { cloneCopiesPmtu := Facts.dtlcp.clonePmtu == Facts.dtlcp.cloneRecv ++ ".PMTU" &&
      !Facts.dtlcp.cloneMissing.contains "PMTU" && !Facts.dtlcp.cloneNotVerbatim.contains "PMTU",
    forClientInstalled :=
      Facts.dtlcp.txCfgAssigns.contains "Conn.selectConfigForClient: c.config = configForClient" &&
      Facts.dtlcp.txCfgForClient.contains "if configForClient != nil { c.config = configForClient }" }

/-- **Every way a configuration reaches the write path** (regenerated from the Go AST):
`Client` and `Server` store the caller's `*Config`; the only other assignments to a `.config`
selector in the package are the nil default of `clientHandshake` and the installation of the
`GetConfigForClient` result in `selectConfigForClient` (called by `serverHandshake` only);
no statement writes (or takes the address of) a `PMTU` field; the only composite literal with a
`PMTU` key is the one `Config.Clone` returns, and it stores the receiver's value.
(That `maxPayloadSizeForWrite` reads `c.config.PMTU` is no text fact any more: the translated
function is proved equal to the model AT `c.config.PMTU` of the view, `C15_src_max_payload_is_model`.) -/
theorem C15_config_facts :
    Facts.missing = [] ∧
    Facts.dtlcp.txCfgCtor = ["Client: config", "Server: config"] ∧
    Facts.dtlcp.txCfgAssigns = ["Conn.clientHandshake: c.config = defaultConfig()",
                                "Conn.selectConfigForClient: c.config = configForClient"] ∧
    Facts.dtlcp.txCfgForClient = ["if c.config.GetConfigForClient != nil",
                                  "configForClient, err := c.config.GetConfigForClient(chi)",
                                  "if configForClient != nil { c.config = configForClient }"] ∧
    Facts.dtlcp.txCfgForClientCallers = ["Conn.serverHandshake"] ∧
    Facts.dtlcp.txPmtuWrites = [] ∧
    Facts.dtlcp.txPmtuLits = ["Config.Clone: c.PMTU"] ∧
    Facts.dtlcp.clonePmtu = Facts.dtlcp.cloneRecv ++ ".PMTU" ∧
    Facts.dtlcp.cloneMissing.contains "PMTU" = false ∧ Facts.dtlcp.cloneNotVerbatim.contains "PMTU" = false ∧
    cfgHere = { cloneCopiesPmtu := true, forClientInstalled := true } := by
  decide

open Gotlcp.Tie.RecordSize.Dtlcp in
/-- The repair of F9 is in the tree: the CBC branch of `maxPayloadSizeForWrite` rounds the
budget down to the block size, keeps one padding byte and subtracts the MAC.  Not a text fact: the
function TRANSLATED from the source, run on any view whose `c.out` is CBC (any power-of-two block
size up to `2^62`, any non-negative MAC length, any PMTU a Go `int` holds), returns the model's
value on a tree that budgets the padding — by the tie `Tie.RecordSize.Dtlcp.tie_maxPayloadSizeForWrite`. -/
theorem C15_cbc_padding_budgeted :
    here.cbcBudgetsPadding = true ∧
    ∀ (c : Src.dtlcp.Conn) (typ : BitVec 8) (b : Src.dtlcp.goCBC) (k : Nat),
      c.out.cipher = .goCBC b → k ≤ 62 → b.blockSize = (2 : Int) ^ k → 0 ≤ c.out.mac.size →
      -(2 : Int) ^ 63 ≤ c.config.PMTU → c.config.PMTU < (2 : Int) ^ 63 →
      Src.dtlcp.Conn.maxPayloadSizeForWrite c typ
        = .ok (maxPayloadSizeForWrite { here with cbcBudgetsPadding := true } c.config.PMTU
                (.cbc (2 ^ k) c.out.mac.size.toNat) : Int) := by
  refine ⟨rfl, ?_⟩
  intro c typ b k hc hk hb hmac hlo hhi
  obtain ⟨n, h, _, hn, _⟩ := tie_maxPayloadSizeForWrite c typ _ (Matches.cbc b k hc hk hb hmac) hlo hhi
  rw [h, hn]; rfl

/-- **The maximum payload is always usable**: between 1 and `maxPlaintext`, for every PMTU
(also zero, negative, tiny, huge) and every cipher — so the splitting loop terminates. -/
theorem C15_max_payload_range (pmtu : Int) (c : Cipher) :
    1 ≤ maxPayloadSizeForWrite here pmtu c ∧ maxPayloadSizeForWrite here pmtu c ≤ Facts.dtlcp.maxPlaintext :=
  ⟨maxPayload_pos _ _ _, maxPayload_le here pmtu c (by decide)⟩

/-- **No record carries more than 16384 bytes of plaintext** (nor more than the maximum
payload, nor nothing), whatever is written, through `Write`, `WriteTo` or the handshake. -/
theorem C15_plain_le (pmtu : Int) (c : Cipher) (data : Bytes) :
    ∀ p ∈ writeRecordPieces here pmtu c data,
      1 ≤ p.length ∧ p.length ≤ maxPayloadSizeForWrite here pmtu c ∧ p.length ≤ DtlcpTxSpec.maxPlaintext := by
  intro p hp
  have h := splitLoop_pieces _ (maxPayload_pos here pmtu c) _ _ p hp
  have := (C15_max_payload_range pmtu c).2
  have e : Facts.dtlcp.maxPlaintext = DtlcpTxSpec.maxPlaintext := by decide
  exact ⟨h.1, h.2, by omega⟩

/-- **`Write` splits and loses nothing**: the pieces, in order, concatenate to the input
(the loop terminates because `maxPayload ≥ 1`). -/
theorem C15_write_split_concat (pmtu : Int) (c : Cipher) (data : Bytes) :
    (writeRecordPieces here pmtu c data).flatten = data :=
  splitLoop_flatten _ (maxPayload_pos here pmtu c) _ _ (Nat.le_refl _)

/-- **One `WriteTo` of at most `maxPayload` (non-empty) bytes = exactly one record = exactly
one datagram, carrying exactly the payload.** -/
theorem C15_one_datagram (pmtu : Int) (c : Cipher) (b : Bytes) (h0 : 0 < b.length)
    (h : b.length ≤ maxPayloadSizeForWrite here pmtu c) :
    writeRecordPieces here pmtu c b = [b] ∧ writeTo here pmtu c b = [recordLen here c b.length] := by
  have := splitLoop_single _ b h0 h
  constructor
  · exact this
  · simp [writeTo, datagramsDirect, writeRecordPieces, this]

/-- a payload above the maximum leaves as at least two datagrams (message boundary lost:
this is why the property speaks of payloads *not larger than* the maximum) -/
theorem C15_larger_is_split (pmtu : Int) (c : Cipher) (b : Bytes)
    (h : maxPayloadSizeForWrite here pmtu c < b.length) : 2 ≤ (writeTo here pmtu c b).length := by
  simp only [writeTo, datagramsDirect, writeRecordPieces, List.length_map]
  exact splitLoop_two _ (maxPayload_pos here pmtu c) b h

/-- **F24 (finding): an empty payload produces no datagram at all.** -/
theorem C15_empty_sends_nothing (pmtu : Int) (c : Cipher) : writeTo here pmtu c [] = [] := by
  simp [writeTo, datagramsDirect, writeRecordPieces, splitLoop]

/-- the path MTU in force -/
def effPmtu (pmtu : Int) : Int := if pmtu ≤ 0 then (here.defaultPmtu : Int) else pmtu

/-- **Application datagrams fit the path MTU — no cipher and every AEAD** (any explicit
nonce and tag length), for every PMTU that leaves room for one byte (`rawBudget ≥ 1`; below
that the budget is clamped to 1 and nothing can fit: the "smallest workable" PMTU). -/
theorem C15_app_fits_aead (pmtu : Int) (e ov n : Nat)
    (hw : 1 ≤ rawBudget here pmtu (.aead e ov)) (hn : n ≤ maxPayloadSizeForWrite here pmtu (.aead e ov)) :
    (recordLen here (.aead e ov) n : Int) ≤ effPmtu pmtu := by
  have h1 := maxPayload_le_raw here pmtu _ hw
  unfold rawBudget at h1 hw
  simp only [explicitNonceLen] at h1 hw
  unfold recordLen effPmtu
  simp only []
  have e1 : (here.defaultPmtu : Int) = 1400 := rfl
  split at h1 <;> split <;> omega

theorem C15_app_fits_plain (pmtu : Int) (n : Nat)
    (hw : 1 ≤ rawBudget here pmtu .none) (hn : n ≤ maxPayloadSizeForWrite here pmtu .none) :
    (recordLen here .none n : Int) ≤ effPmtu pmtu := by
  have h1 := maxPayload_le_raw here pmtu _ hw
  unfold rawBudget at h1 hw
  simp only [explicitNonceLen] at h1 hw
  unfold recordLen effPmtu
  simp only []
  have e1 : (here.defaultPmtu : Int) = 1400 := rfl
  split at h1 <;> split <;> omega

/-- **Application datagrams fit the path MTU — CBC**, for every block size and MAC length,
on a tree that budgets the padding (`C15_cbc_padding_budgeted`). -/
theorem C15_app_fits_cbc (k : Consts) (hk : k.cbcBudgetsPadding = true) (pmtu : Int) (bs mac n : Nat) (hbs : 0 < bs)
    (hw : 1 ≤ rawBudget k pmtu (.cbc bs mac)) (hn : n ≤ maxPayloadSizeForWrite k pmtu (.cbc bs mac)) :
    (recordLen k (.cbc bs mac) n : Int) ≤ (if pmtu ≤ 0 then (k.defaultPmtu : Int) else pmtu) := by
  have h1 := maxPayload_le_raw k pmtu _ hw
  unfold rawBudget at h1 hw
  simp only [explicitNonceLen, hk, if_true] at h1 hw
  -- base = eff − header − bs ; q = base / bs ; budget = q*bs − 1 − mac ≥ 1
  generalize hp : (if pmtu ≤ 0 then (k.defaultPmtu : Int) else pmtu) = P at h1 hw ⊢
  generalize hbase : P - (k.recordHeaderLen : Int) - (bs : Int) = base at h1 hw
  have hbsI : (0 : Int) < bs := by omega
  have hqle : base / (bs : Int) * (bs : Int) ≤ base := Int.ediv_mul_le base (by omega)
  generalize hq : base / (bs : Int) = q at h1 hw hqle
  have hqpos : 0 < q := by
    apply Int.lt_of_not_ge
    intro hle
    have : q * (bs : Int) ≤ 0 := Int.mul_nonpos_of_nonpos_of_nonneg hle (by omega)
    omega
  obtain ⟨qn, rfl⟩ := Int.eq_ofNat_of_zero_le (Int.le_of_lt hqpos)
  have hpl : n + mac < qn * bs := by
    have : ((n + mac : Nat) : Int) < ((qn * bs : Nat) : Int) := by
      rw [Int.natCast_mul, Int.natCast_add]; omega
    exact Int.ofNat_lt.mp this
  have hpad := padded_le (n + mac) qn bs hbs hpl
  unfold recordLen
  simp only []
  have : (((k.recordHeaderLen + bs + (n + mac) + (bs - (n + mac) % bs) : Nat)) : Int) ≤ k.recordHeaderLen + bs + ((qn * bs : Nat) : Int) := by
    have : k.recordHeaderLen + bs + (n + mac) + (bs - (n + mac) % bs) ≤ k.recordHeaderLen + bs + qn * bs := by omega
    exact_mod_cast this
  rw [Int.natCast_mul] at this
  omega

/-- … in particular for this tree's SM4-CBC-SM3 suites -/
theorem C15_app_fits (pmtu : Int) (n : Nat) :
    (1 ≤ rawBudget here pmtu gcmHere → n ≤ maxPayloadSizeForWrite here pmtu gcmHere →
      (recordLen here gcmHere n : Int) ≤ effPmtu pmtu) ∧
    (1 ≤ rawBudget here pmtu cbcHere → n ≤ maxPayloadSizeForWrite here pmtu cbcHere →
      (recordLen here cbcHere n : Int) ≤ effPmtu pmtu) := by
  constructor
  · exact C15_app_fits_aead pmtu _ _ n
  · intro hw hn
    exact C15_app_fits_cbc here C15_cbc_padding_budgeted.1 pmtu 16 32 n (by decide) hw hn

/-- **The configured path MTU is the one in force, however the configuration was obtained**:
the value `maxPayloadSizeForWrite` reads from `c.config.PMTU` is the `PMTU` the application
configured — when the `*Config` is handed to `Client` / `Server` directly, after any number of
`Config.Clone()` calls, and when a listener configuration's `GetConfigForClient` returns it
(cloned any number of times; whatever the listener's own PMTU). -/
theorem C15_config_pmtu_in_force (r : Reach) (pmtu : Int) : pmtuRead cfgHere r pmtu = pmtu := by
  have hk : cfgHere = { cloneCopiesPmtu := true, forClientInstalled := true } := C15_config_facts.2.2.2.2.2.2.2.2.2.2
  have hv : ∀ v : Via, viaPmtu cfgHere v pmtu = pmtu := by
    intro v
    induction v with
    | direct => rfl
    | clone v ih => simp only [viaPmtu, hk, if_true]; rw [← hk]; exact ih
  cases r with
  | ctor v => exact hv v
  | forClient lp v => simp only [pmtuRead, hk, if_true]; rw [← hk]; exact hv v

/-- … so application datagrams fit the **configured** path MTU for every such connection:
the budget is computed from what the write path reads, the bound is what the application set. -/
theorem C15_app_fits_any_config (r : Reach) (pmtu : Int) (n : Nat) :
    (1 ≤ rawBudget here (pmtuRead cfgHere r pmtu) gcmHere →
      n ≤ maxPayloadSizeForWrite here (pmtuRead cfgHere r pmtu) gcmHere →
      (recordLen here gcmHere n : Int) ≤ effPmtu pmtu) ∧
    (1 ≤ rawBudget here (pmtuRead cfgHere r pmtu) cbcHere →
      n ≤ maxPayloadSizeForWrite here (pmtuRead cfgHere r pmtu) cbcHere →
      (recordLen here cbcHere n : Int) ≤ effPmtu pmtu) := by
  rw [C15_config_pmtu_in_force r pmtu]
  exact C15_app_fits pmtu n

/-- for an arbitrary tree: the configured PMTU survives every derivation **iff** `Clone`
copies it and `selectConfigForClient` installs the per-client configuration (the two facts
`C15_config_facts` pins are exactly what the statement needs) -/
theorem C15_config_pmtu_iff (k : CfgConsts) :
    (∀ (r : Reach) (pmtu : Int), pmtuRead k r pmtu = pmtu) ↔
      (k.cloneCopiesPmtu = true ∧ k.forClientInstalled = true) := by
  constructor
  · intro h
    constructor
    · have := h (.ctor (.clone .direct)) 1
      simp only [pmtuRead, viaPmtu] at this
      cases hc : k.cloneCopiesPmtu <;> simp [hc] at this ⊢
    · have := h (.forClient 2 .direct) 1
      simp only [pmtuRead, viaPmtu] at this
      cases hc : k.forClientInstalled <;> simp [hc] at this ⊢
  · intro ⟨h1, h2⟩ r pmtu
    have hv : ∀ v : Via, viaPmtu k v pmtu = pmtu := by
      intro v
      induction v with
      | direct => rfl
      | clone v ih => simp only [viaPmtu, h1, if_true]; exact ih
    cases r with
    | ctor v => exact hv v
    | forClient lp v => simp only [pmtuRead, h2, if_true]; exact hv v

/-- **Every record a peer may legally send fits the receive buffer**, whatever either side's
PMTU is: the buffer of `readDatagram` is a package constant (`C15_facts`: no reference to
the local, send-side `Config.PMTU`) and holds the largest protected record of every suite.
So a datagram that respected the *sender's* PMTU is never truncated by the receiver. -/
theorem C15_record_fits_receive_buffer (pmtu : Int) (c : Cipher) (hc : c = .none ∨ c = gcmHere ∨ c = cbcHere)
    (n : Nat) (hn : n ≤ maxPayloadSizeForWrite here pmtu c) :
    recordLen here c n ≤ Facts.dtlcp.rxDatagramBufSize := by
  have h1 := (C15_max_payload_range pmtu c).2
  have hb : Facts.dtlcp.rxDatagramBufSize = 18445 := by decide
  have hp : Facts.dtlcp.maxPlaintext = 16384 := by decide
  have h13 : here.recordHeaderLen = 13 := by decide
  have h8 : Facts.dtlcp.aeadNonceLength - Facts.dtlcp.noncePrefixLength = 8 := by decide
  rcases hc with rfl | rfl | rfl
  · simp only [recordLen, h13]; omega
  · simp only [recordLen, gcmHere, h13, h8]; omega
  · simp only [recordLen, cbcHere, h13]; omega

/-! ### what the peer reads -/

/-- the replay-window parameters of this tree: `Model.Replay.treeParams` (tied to the text of
dtlcp/replay.go by the translation proofs `Gotlcp.Tie.Replay`, as in C16 — not text-matching facts) -/
def replayHere : Gotlcp.Model.Replay.Params :=
  Gotlcp.Model.Replay.treeParams Facts.dtlcp.defaultReplayWindowSize

/-- **ReadFrom returns exactly that payload.** For every record protection `P` obeying the
round-trip law (`Laws`; AEAD and CBC alike — `C04_record_roundtrip` is the instance), every
PMTU, every cipher size parameters, every non-empty payload `b` of at most the maximum
payload: `WriteTo` hands exactly one datagram to the network, and the receive step of the peer
— on `ReadFrom` as on the `Read` path — whose read epoch is the sender's and whose window
has not yet seen that sequence number hands up exactly `b` (and advances its window to it).
Any `Config.ReplayWindow`, any window contents. -/
theorem C15_readfrom_identity (P : Protect) (L : Laws P) (pmtu : Int) (c : Cipher) (vers epoch seq : Nat)
    (hv : vers < 65536) (he : epoch < 65536) (hs : seq < 2 ^ 48)
    (b : Bytes) (h0 : 0 < b.length) (hb : b.length ≤ maxPayloadSizeForWrite here pmtu c)
    (cfgWin : Int) (path : RxPath) (st : RxState) (hep : st.readEpoch = epoch) (hw : st.win.right < seq) :
    ∃ d st', writeToWire here P pmtu c vers epoch seq b = [d] ∧
      rxStep P Facts.dtlcp.recordHeaderLen replayHere cfgWin path st d = (st', .data b) ∧
      st'.readEpoch = epoch ∧ st'.win.right = seq := by
  have h1 := (C15_one_datagram pmtu c b h0 hb).1
  have hmax := (C15_max_payload_range pmtu c).2
  have h16 : Facts.dtlcp.maxPlaintext = 16384 := by decide
  have h13 : Facts.dtlcp.recordHeaderLen = 13 := by decide
  obtain ⟨st', hstep, e1, e2⟩ := rxStep_genuine P L replayHere cfgWin path st vers epoch seq b hv he hs h0 (by omega) hep hw
  refine ⟨datagram P ⟨23, vers, epoch, seq⟩ b, st', ?_, ?_, e1, e2⟩
  · simp only [writeToWire, h1, txDatagrams]
  · rw [h13]; exact hstep

/-- **A larger `Write` arrives complete and in order.** Whatever is written (any length; it
is split into records of at most the maximum payload with consecutive sequence numbers), when
the network delivers every datagram once and in order, the peer's receive steps skip nothing
and the concatenation of what they hand up is exactly the written bytes. -/
theorem C15_write_arrives_complete (P : Protect) (L : Laws P) (pmtu : Int) (c : Cipher) (vers epoch seq : Nat)
    (hv : vers < 65536) (he : epoch < 65536) (data : Bytes)
    (hs : seq + (writeRecordPieces here pmtu c data).length ≤ 2 ^ 48)
    (cfgWin : Int) (path : RxPath) (st : RxState) (hep : st.readEpoch = epoch) (hw : st.win.right < seq) :
    let outs := (rxRun P Facts.dtlcp.recordHeaderLen replayHere cfgWin path st
                  (writeToWire here P pmtu c vers epoch seq data)).2
    outs = (writeRecordPieces here pmtu c data).map RxOut.data ∧ received outs = data := by
  have h13 : Facts.dtlcp.recordHeaderLen = 13 := by decide
  have hp : ∀ p ∈ writeRecordPieces here pmtu c data, 0 < p.length ∧ p.length ≤ 16384 := by
    intro p hp
    have := C15_plain_le pmtu c data p hp
    have e : DtlcpTxSpec.maxPlaintext = 16384 := rfl
    omega
  have h := rxRun_pieces P L replayHere cfgWin path vers epoch hv he _ hp seq st hs hep hw
  simp only [writeToWire, h13]
  refine ⟨h, ?_⟩
  rw [h, received_data]
  exact C15_write_split_concat pmtu c data

/-- on the wire a datagram is the 13-byte header plus what `encrypt` produced; when
`encrypt` produces what the size model says, its length is `recordLen` (so `C15_app_fits`
speaks about these very bytes) -/
theorem C15_wire_datagram_length (P : Protect) (c : Cipher) (id : RecId) (p : Bytes)
    (hlen : (P.protect id p).length + here.recordHeaderLen = recordLen here c p.length) :
    (datagram P id p).length = recordLen here c p.length := by
  have h13 : here.recordHeaderLen = 13 := by decide
  unfold datagram recordHeader
  simp [beBytes_length]
  omega

/-- with the model of the wire format written from the standard: same sizes -/
theorem C15_wire_len_matches_spec (n : Nat) :
    recordLen here .none n = DtlcpTxSpec.wireLen .none n ∧
    recordLen here gcmHere n = DtlcpTxSpec.wireLen .gcm n ∧
    recordLen here cbcHere n = DtlcpTxSpec.wireLen .cbc n := by
  have h13 : here.recordHeaderLen = 13 := by decide
  refine ⟨?_, ?_, ?_⟩
  · simp [recordLen, DtlcpTxSpec.wireLen, DtlcpTxSpec.recordHeader, h13]
  · have : Facts.dtlcp.aeadNonceLength - Facts.dtlcp.noncePrefixLength = 8 := by decide
    simp [recordLen, gcmHere, DtlcpTxSpec.wireLen, DtlcpTxSpec.recordHeader, h13, this]
  · simp only [recordLen, cbcHere, DtlcpTxSpec.wireLen, DtlcpTxSpec.recordHeader, h13]
    omega

/-- **A flight is one datagram** (what the code does — the negative half of the property,
finding K3): every record buffered for a flight leaves in a single datagram whose size is
the sum, with no reference to the PMTU. -/
theorem C15_flight_is_one_datagram (pmtu : Int) (c : Cipher) (msgs : List Bytes)
    (h : 0 < (msgs.map fun d => (datagramsDirect here pmtu c d).sum).sum) :
    flightDatagrams here pmtu c msgs = [(msgs.map fun d => (datagramsDirect here pmtu c d).sum).sum] := by
  unfold flightDatagrams flushDatagrams
  have : ¬ (msgs.map fun d => (datagramsDirect here pmtu c d).sum).sum = 0 := by omega
  simp [this]

/-! ### non-vacuity and witnesses -/

private def zeros (n : Nat) : Bytes := List.replicate n 0

private def unrepaired : Consts := { here with cbcBudgetsPadding := false }

/-- **F9 (finding, on the unrepaired code = `cbcBudgetsPadding := false`)**: PMTU 1400 ⇒
maximum payload 1339 ⇒ a datagram of 1405 bytes; with the repair 1327 ⇒ 1389. -/
example :
    maxPayloadSizeForWrite unrepaired 1400 (.cbc 16 32) = 1339 ∧ recordLen unrepaired (.cbc 16 32) 1339 = 1405 ∧
    maxPayloadSizeForWrite { here with cbcBudgetsPadding := true } 1400 (.cbc 16 32) = 1327 ∧
    recordLen here (.cbc 16 32) 1327 = 1389 := by decide

/-- the hypotheses of `C15_app_fits` are satisfiable, and tight: GCM at PMTU 1400 -/
example : rawBudget here 1400 gcmHere = 1363 ∧ maxPayloadSizeForWrite here 1400 gcmHere = 1363 ∧
    recordLen here gcmHere 1363 = 1400 := by decide

/-- below the smallest workable PMTU the clamp to 1 cannot fit (GCM: 13+8+1+16 = 38 > 30) -/
example : rawBudget here 30 gcmHere = -7 ∧ maxPayloadSizeForWrite here 30 gcmHere = 1 ∧ recordLen here gcmHere 1 = 38 := by
  decide

/-- the hypotheses of `C15_readfrom_identity` / `C15_write_arrives_complete` are jointly
satisfiable: the trivial protection (no cipher, epoch 0) obeys `Laws`; 10 bytes at PMTU 17
(maximum payload 4) travel as three datagrams and are read back as 4+4+2 bytes -/
example : Laws ⟨fun _ p => p, fun _ b => some b⟩ :=
  ⟨fun _ _ => rfl, fun _ p h => by simp only []; omega⟩

example :
    let P : Protect := ⟨fun _ p => p, fun _ b => some b⟩
    let data : Bytes := [1, 2, 3, 4, 5, 6, 7, 8, 9, 10]
    let st : RxState := ⟨0, Gotlcp.Model.Replay.newFromConfig replayHere 0⟩
    (writeToWire here P 17 .none 257 0 5 data).map List.length = [17, 17, 15] ∧
    received (rxRun P 13 replayHere 0 .readFrom st (writeToWire here P 17 .none 257 0 5 data)).2 = data ∧
    -- the same datagram twice: the replay window drops the copy
    (rxRun P 13 replayHere 0 .readFrom st ((writeToWire here P 17 .none 257 0 5 data).take 1 ++
        (writeToWire here P 17 .none 257 0 5 data).take 1)).2 = [.data [1, 2, 3, 4], .skipped] := by decide

/-- the class of defect `C15_config_pmtu_in_force` excludes: on a tree whose `Clone` drops the
field, a connection driven by a clone of a configuration with PMTU 1200 budgets for the default
1400 and hands a 1400-byte SM4-GCM datagram to a path configured for 1200; likewise a server
that does not install the per-client configuration keeps the listener's PMTU -/
example :
    let bad : CfgConsts := { cfgHere with cloneCopiesPmtu := false }
    pmtuRead bad (.ctor (.clone .direct)) 1200 = 0 ∧
    maxPayloadSizeForWrite here (pmtuRead bad (.ctor (.clone .direct)) 1200) gcmHere = 1363 ∧
    recordLen here gcmHere 1363 = 1400 ∧
    pmtuRead { cfgHere with forClientInstalled := false } (.forClient 9000 (.clone .direct)) 1200 = 9000 ∧
    -- this tree: direct, cloned twice, per-client clone behind a listener with another PMTU
    pmtuRead cfgHere (.ctor (Via.clones 2)) 1200 = 1200 ∧
    pmtuRead cfgHere (.forClient 9000 (.clone .direct)) 1200 = 1200 ∧
    maxPayloadSizeForWrite here (pmtuRead cfgHere (.forClient 9000 (.clone .direct)) 1200) gcmHere = 1163 := by
  decide

/-- default PMTU, huge PMTU -/
example : maxPayloadSizeForWrite here 0 .none = 1387 ∧ maxPayloadSizeForWrite here (-7) .none = 1387 ∧
    maxPayloadSizeForWrite here 17000 .none = 16384 ∧ maxPayloadSizeForWrite here 13 .none = 1 := by decide

/-- splitting: 10 bytes at maximum payload 4 (PMTU 17) leave as 4+4+2 in three datagrams -/
example : (writeRecordPieces here 17 .none (zeros 10)).map List.length = [4, 4, 2] ∧
    writeTo here 17 .none (zeros 10) = [17, 17, 15] := by decide

/-- **K3 (finding)**: two 100-byte handshake records buffered at PMTU 150 leave as one
226-byte datagram (the driver replays 2 x 1000 bytes at PMTU 1400: 2026 bytes) -/
example : flightDatagrams here 150 .none [zeros 100, zeros 100] = [226] := by decide

/-! ### the size arithmetic, about the SOURCE TEXT

`Gotlcp.Src.dtlcp.{halfConn.explicitNonceLen, Conn.maxPayloadSizeForWrite}` are regenerated from
dtlcp/conn.go by the translator `harness/cmd/go2lean` on every run, statement by statement, over
*views* of `Conn` / `halfConn` (`Dyn` is the dynamic type of the interface value `c.out.cipher`;
`x & ^(b-1)` is two's complement on 64 bits).  `Gotlcp.Tie.RecordSize` proves them equal to
`Model.DtlcpTx` for every view, so the range and path-MTU theorems above hold of the function text
that is in the tree now. -/

theorem C15_src_translated :
    Src.untranslated = [] ∧ Tie.RecordSize.Dtlcp.K = here := ⟨by decide, rfl⟩

open Gotlcp.Tie.RecordSize.Dtlcp in
/-- **The maximum payload is always usable, for the source text** (`C15_max_payload_range`): for
EVERY view of a connection — any dynamic type and sizes of the cipher, any PMTU, any record
type — the translated `maxPayloadSizeForWrite` returns normally a value in `[1, maxPlaintext]`. -/
theorem C15_src_max_payload_range (c : Src.dtlcp.Conn) (typ : BitVec 8) :
    ∃ n, Src.dtlcp.Conn.maxPayloadSizeForWrite c typ = .ok n ∧
      1 ≤ n ∧ n ≤ (Facts.dtlcp.maxPlaintext : Int) := by
  have h := clamp_range (srcRaw c)
  have e : ((Facts.dtlcp.maxPlaintext : Nat) : Int) = 16384 := by decide
  exact ⟨_, src_shape c typ, h.1, by rw [e]; exact h.2⟩

open Gotlcp.Tie.RecordSize.Dtlcp in
/-- **The translated `maxPayloadSizeForWrite` is the model**: every view whose `c.out` is
unprotected, an AEAD with any non-negative nonce / tag lengths, or CBC with any power-of-two block
size up to `2^62` and any non-negative MAC length (`Matches`); every `Config.PMTU` a Go `int`
holds; every record type. -/
theorem C15_src_max_payload_is_model (c : Src.dtlcp.Conn) (typ : BitVec 8) (ciph : Cipher)
    (hm : Matches c.out ciph)
    (hlo : -(2 : Int) ^ 63 ≤ c.config.PMTU) (hhi : c.config.PMTU < (2 : Int) ^ 63) :
    Src.dtlcp.Conn.maxPayloadSizeForWrite c typ
      = .ok (maxPayloadSizeForWrite here c.config.PMTU ciph : Int) := by
  obtain ⟨n, h, _, hn, _⟩ := tie_maxPayloadSizeForWrite c typ ciph hm hlo hhi
  rw [h, hn]; rfl

open Gotlcp.Tie.RecordSize.Dtlcp in
/-- the translated `explicitNonceLen` is the model's -/
theorem C15_src_explicit_nonce (hc : Src.dtlcp.halfConn) (ciph : Cipher) (hm : Matches hc ciph) :
    Src.dtlcp.halfConn.explicitNonceLen hc = .ok (explicitNonceLen ciph : Int) :=
  tie_explicitNonceLen hc ciph hm

open Gotlcp.Tie.RecordSize.Dtlcp in
/-- **Application datagrams fit the path MTU, for the source text** (`C15_app_fits`): on a view
protected by this tree's SM4-GCM or SM4-CBC-SM3 sizes, with a PMTU that leaves room for one byte,
a record of at most as many bytes as the translated function returns is a datagram of at most
the PMTU in force. -/
theorem C15_src_app_fits (c : Src.dtlcp.Conn) (typ : BitVec 8) (ciph : Cipher)
    (hc : ciph = gcmHere ∨ ciph = cbcHere) (hm : Matches c.out ciph)
    (hlo : -(2 : Int) ^ 63 ≤ c.config.PMTU) (hhi : c.config.PMTU < (2 : Int) ^ 63)
    (hw : 1 ≤ rawBudget here c.config.PMTU ciph) :
    ∃ n, Src.dtlcp.Conn.maxPayloadSizeForWrite c typ = .ok n ∧
      ∀ m : Nat, (m : Int) ≤ n → (recordLen here ciph m : Int) ≤ effPmtu c.config.PMTU := by
  refine ⟨_, C15_src_max_payload_is_model c typ ciph hm hlo hhi, ?_⟩
  intro m hmn
  have hmn' : m ≤ maxPayloadSizeForWrite here c.config.PMTU ciph := by omega
  rcases hc with rfl | rfl
  · exact (C15_app_fits c.config.PMTU m).1 hw hmn'
  · exact (C15_app_fits c.config.PMTU m).2 hw hmn'

open Gotlcp.Tie.RecordSize.Dtlcp in
/-- non-vacuity: views of an SM4-GCM connection at PMTU 1400 and of an SM4-CBC-SM3 connection at
the default PMTU satisfy the hypotheses; the translated code run on them (kernel evaluation)
returns 1363 and 1327, and records of that size are datagrams of 1400 and 1389 bytes -/
example :
    let g : Src.dtlcp.Conn := { config := { PMTU := 1400 }, out := { cipher := .goAEAD ⟨16, 8⟩ } }
    let b : Src.dtlcp.Conn := { config := { PMTU := 0 }, out := { cipher := .goCBC ⟨16⟩, mac := ⟨32⟩ } }
    Matches g.out gcmHere ∧ Matches b.out cbcHere ∧
    1 ≤ rawBudget here 1400 gcmHere ∧ 1 ≤ rawBudget here 0 cbcHere ∧
    (Src.dtlcp.Conn.maxPayloadSizeForWrite g 23#8).toOption = some 1363 ∧
    (Src.dtlcp.Conn.maxPayloadSizeForWrite b 23#8).toOption = some 1327 ∧
    recordLen here gcmHere 1363 = 1400 ∧ recordLen here cbcHere 1327 = 1389 := by
  intro g b
  exact ⟨Matches.aead ⟨16, 8⟩ rfl (by decide) (by decide),
    Matches.cbc ⟨16⟩ 4 rfl (by decide) (by decide) (by decide),
    by decide, by decide, by decide, by decide, by decide, by decide⟩

end Gotlcp.Props.C15

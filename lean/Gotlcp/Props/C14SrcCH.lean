/-
C14, property theorems about the TRANSLATED cryptobyte-based decoders (part CH; see DESIGN.md 12.4).
Same namespace as Props/C14.lean; listed in checks/C14.json under extra_props_files.

`Gotlcp.Src.tlcp.codec.clientHelloMsg.unmarshal` / `Gotlcp.Src.dtlcp.codec.clientHelloMsg.unmarshal` are regenerated from
{tlcp,dtlcp}/handshake_messages.go by `harness/cmd/go2lean` on every run (statement by statement; `cryptobyte.String`
is the stub `cbString`, specified in `Gotlcp.Tie.CbString`).  Three layers:

  * `Gotlcp.Tie.CodecCHTlcp` / `CodecCHDtlcp`: for EVERY receiver and EVERY byte string the translated text returns
    what the specification `chSpecT` / `chSpecD` (pure functions on `List (BitVec 8)`, Gotlcp.Tie.CodecCH) says;
  * `Gotlcp.Tie.CodecCHModel`: the specification is the hand model (`Model.Codec.sniStep`, `taStep`, `alpnStep`,
    `clientExtCase`, `clientExtStep`, `decClientHelloBody`, instantiated with the regenerated facts), extension by
    extension;
  * `Gotlcp.Tie.CodecCHCodec`: both combined.

So the translated ClientHello decoders return `(m', true)` with the model's fields exactly when the model decoder
accepts the same bytes and `(_, false)` exactly when it refuses; the round-trip / strictness / re-encoding theorems of
Props/C14.lean, stated about the model, are restated below for the source text.
-/
import Gotlcp.Props.C14
import Gotlcp.Tie.CodecCHCodec

namespace Gotlcp.Props.C14
open Gotlcp Gotlcp.Wire Gotlcp.Wire.Msg
open Gotlcp.Model.Codec

section SrcCH
open Gotlcp.Tie.CbString Gotlcp.Tie.CodecCH Gotlcp.Tie.CodecCHModel Gotlcp.Tie.CodecCHCodec
open Gotlcp.Tie.UnmarshalTlcpCodec (abs Agree)
open Gotlcp.Tie.CodecSmall (agree_accept agree_refuse)

/-- the literals the translated ClientHello decoders compare with (extension codes 0, 3, 5, 10, 13, 16, 66;
identifier types 0, 2, 4, 5; `ReadBytes(…, 32)` twice; message type 1; where the curve / signature-algorithm
lists are re-made) are the regenerated facts the model is instantiated with, and both decoders are in the
guarded list -/
theorem C14_src_codes_clientHello :
    Src.untranslated = [] ∧ CodesOK codesT false ∧ CodesOK codesD true ∧
    u8 codesT.tClientHello = UInt8.ofBitVec 1#8 ∧ codesT.complete.contains codesT.tClientHello = true ∧
    u8 codesD.tClientHello = UInt8.ofBitVec 1#8 ∧ codesD.complete.contains codesD.tClientHello = true :=
  ⟨by decide, codesT_ok, codesD_ok, codes_facts⟩

/-! ### extension by extension: the specification's loop bodies are the model's -/

/-- one server_name list entry (`for !nameList.Empty()`) -/
theorem C14_src_spec_sniStep (v : CHv) (s : List (BitVec 8)) :
    Model.Codec.sniStep (absCH v) (abs s) = (Gotlcp.Tie.CodecCH.sniStep v s).map absP :=
  sniStep_model v s

/-- one trusted authority (`for !taList.Empty()`), both stacks -/
theorem C14_src_spec_taStep (v : CHv) (s : List (BitVec 8)) :
    Model.Codec.taStep codesT (absCH v) (abs s) = (Gotlcp.Tie.CodecCH.taStep v s).map absP ∧
    Model.Codec.taStep codesD (absCH v) (abs s) = (Gotlcp.Tie.CodecCH.taStep v s).map absP :=
  ⟨taStep_model codesT false codesT_ok v s, taStep_model codesD true codesD_ok v s⟩

/-- one ALPN protocol name (`for !protoList.Empty()`) -/
theorem C14_src_spec_alpnStep (v : CHv) (s : List (BitVec 8)) :
    Model.Codec.alpnStep (absCH v) (abs s) = (Gotlcp.Tie.CodecCH.alpnStep v s).map absP :=
  alpnStep_model v s

/-- the `switch extension { … }` (all seven cases and `default`), tlcp: `n` is the bound of the item loops -/
theorem C14_src_spec_clientExtCase_tlcp (n : Nat) (v : CHv) (x : BitVec 16) (d : List (BitVec 8)) (hd : d.length < n) :
    clientExtCase codesT (absCH v) x.toNat (abs d) = (extCaseS false n v x d).map absQ :=
  extCase_model codesT false codesT_ok n v x d hd

theorem C14_src_spec_clientExtCase_dtlcp (n : Nat) (v : CHv) (x : BitVec 16) (d : List (BitVec 8)) (hd : d.length < n) :
    clientExtCase codesD (absCH v) x.toNat (abs d) = (extCaseS true n v x d).map absQ :=
  extCase_model codesD true codesD_ok n v x d hd

/-- one extension (`for !extensions.Empty()`) -/
theorem C14_src_spec_clientExtStep_tlcp (n : Nat) (v : CHv) (s : List (BitVec 8)) (hs : s.length < n) :
    clientExtStep codesT (absCH v) (abs s) = (extStepS false n v s).map absP :=
  extStep_model codesT false codesT_ok n v s hs

theorem C14_src_spec_clientExtStep_dtlcp (n : Nat) (v : CHv) (s : List (BitVec 8)) (hs : s.length < n) :
    clientExtStep codesD (absCH v) (abs s) = (extStepS true n v s).map absP :=
  extStep_model codesD true codesD_ok n v s hs

/-! ### tlcp -/

/-- `clientHelloMsg.unmarshal`, translated text against its specification: every receiver, every byte string -/
theorem C14_src_clientHello_spec_tlcp (m : Src.tlcp.codec.clientHelloMsg) (data : List (BitVec 8)) :
    Res Gotlcp.Tie.CodecCHTlcp.viewT (Src.tlcp.codec.clientHelloMsg.unmarshal m data) (chSpecT data) :=
  Gotlcp.Tie.CodecCHTlcp.tie_clientHello m data

/-- the specification is the model decoder on the same bytes -/
theorem C14_src_clientHello_spec_is_model_tlcp (data : List (BitVec 8)) :
    unmarshalClientHello codesT (abs data) =
      match chSpecT data with
      | some v => .ok (absCH v)
      | none => .reject :=
  spec_model_tlcp data

/-- `clientHelloMsg.unmarshal`: accepted with the model's fields (version, random, session id, cipher suites,
compression methods, server name, trusted authorities, OCSP flag, curves, signature algorithms, ALPN protocols,
IBSDH client id), or refused like the model -/
theorem C14_src_clientHello_tlcp (m : Src.tlcp.codec.clientHelloMsg) (data : List (BitVec 8)) :
    Agree fieldsT (Src.tlcp.codec.clientHelloMsg.unmarshal m data) (unmarshalClientHello codesT (abs data)) :=
  tie_codec_clientHello_tlcp m data

/-- whatever the TRANSLATED decoder accepts the model accepts with the same fields -/
theorem C14_src_accept_is_model_accept_clientHello_tlcp (m m' : Src.tlcp.codec.clientHelloMsg) (data : List (BitVec 8))
    (h : Src.tlcp.codec.clientHelloMsg.unmarshal m data = .ok (m', true)) :
    unmarshalClientHello codesT (abs data) = .ok (fieldsT m') :=
  agree_accept (C14_src_clientHello_tlcp m data) h

/-- whatever the TRANSLATED decoder refuses the model refuses -/
theorem C14_src_refuse_is_model_refuse_clientHello_tlcp (m m' : Src.tlcp.codec.clientHelloMsg) (data : List (BitVec 8))
    (h : Src.tlcp.codec.clientHelloMsg.unmarshal m data = .ok (m', false)) :
    unmarshalClientHello codesT (abs data) = .reject :=
  agree_refuse (C14_src_clientHello_tlcp m data) h

/-- the accepted message keeps the input as `raw` -/
theorem C14_src_clientHello_raw_tlcp (m m' : Src.tlcp.codec.clientHelloMsg) (data : List (BitVec 8))
    (h : Src.tlcp.codec.clientHelloMsg.unmarshal m data = .ok (m', true)) : m'.raw = data :=
  clientHello_raw_tlcp m m' data h

/-- strictness (`C14_strict_clientHello_tlcp` through the tie): what the translated decoder accepts has exactly
the standard's shape — the length fields agree, no trailing bytes -/
theorem C14_src_strict_clientHello_tlcp (m m' : Src.tlcp.codec.clientHelloMsg) (data : List (BitVec 8))
    (h : Src.tlcp.codec.clientHelloMsg.unmarshal m data = .ok (m', true)) :
    Spec.Codec.shape .tlcp .clientHello (abs data) = true :=
  C14_strict_clientHello_tlcp _ _ (C14_src_accept_is_model_accept_clientHello_tlcp m m' data h)

/-- round trip (`C14_roundtrip_clientHello_tlcp` through the tie): the encoding of every in-range ClientHello is
accepted by the translated decoder, whatever the receiver held, with exactly the encoded fields -/
theorem C14_src_roundtrip_clientHello_tlcp (mm : ClientHello) (hw : Spec.Codec.wfClientHello .tlcp mm = true) :
    ∃ b, encClientHello codesT mm = some b ∧
      ∀ (m : Src.tlcp.codec.clientHelloMsg) (data : List (BitVec 8)), abs data = b →
        ∃ m', Src.tlcp.codec.clientHelloMsg.unmarshal m data = .ok (m', true) ∧ fieldsT m' = mm := by
  obtain ⟨b, he, hd⟩ := C14_roundtrip_clientHello_tlcp mm hw
  refine ⟨b, he, ?_⟩
  intro m data hab
  have ha := C14_src_clientHello_tlcp m data
  rw [hab, hd] at ha
  exact ha

/-- re-encoding (`C14_reencode_clientHello_tlcp` through the tie): every canonical encoding (the spec's strict
decoder accepts it) is accepted by the translated decoder with the same fields -/
theorem C14_src_reencode_clientHello_tlcp (m : Src.tlcp.codec.clientHelloMsg) (data : List (BitVec 8)) (h : DHdr)
    (mm : ClientHello) (hs : Spec.Codec.strictClientHello .tlcp (abs data) = some (h, mm)) :
    ∃ m', Src.tlcp.codec.clientHelloMsg.unmarshal m data = .ok (m', true) ∧ fieldsT m' = mm ∧
      encClientHello codesT (fieldsT m') = some (abs data) := by
  obtain ⟨he, hd, _⟩ := C14_reencode_clientHello_tlcp (abs data) h mm hs
  have ha := C14_src_clientHello_tlcp m data
  rw [hd] at ha
  obtain ⟨m', e, hv⟩ := ha
  exact ⟨m', e, hv, by rw [hv]; exact he⟩

/-! ### dtlcp -/

theorem C14_src_clientHello_spec_dtlcp (m : Src.dtlcp.codec.clientHelloMsg) (data : List (BitVec 8)) :
    Res Gotlcp.Tie.CodecCHDtlcp.viewD (Src.dtlcp.codec.clientHelloMsg.unmarshal m data)
      (Gotlcp.Tie.CodecCHDtlcp.chSpecD data) :=
  Gotlcp.Tie.CodecCHDtlcp.tie_clientHello m data

theorem C14_src_clientHello_spec_is_model_dtlcp (data : List (BitVec 8)) :
    Model.CodecDtlcp.decClientHello codesD (abs data) =
      match Gotlcp.Tie.CodecCHDtlcp.chSpecD data with
      | some v => .ok (Gotlcp.Tie.UnmarshalDtlcpCodec.hdrView (Gotlcp.Tie.UnmarshalDtlcp.u16At data 4)
          (Gotlcp.Tie.UnmarshalDtlcp.u24At data 6) (Gotlcp.Tie.UnmarshalDtlcp.u24At data 9), absCH v)
      | none => .reject :=
  spec_model_dtlcp data

/-- `clientHelloMsg.unmarshal` (dtlcp): accepted with the model's header fields (message_seq, fragment_offset,
fragment_length) and body fields (incl. the cookie), or refused like the model -/
theorem C14_src_clientHello_dtlcp (m : Src.dtlcp.codec.clientHelloMsg) (data : List (BitVec 8)) :
    Agree fieldsD (Src.dtlcp.codec.clientHelloMsg.unmarshal m data)
      (Model.CodecDtlcp.decClientHello codesD (abs data)) :=
  tie_codec_clientHello_dtlcp m data

theorem C14_src_accept_is_model_accept_clientHello_dtlcp (m m' : Src.dtlcp.codec.clientHelloMsg) (data : List (BitVec 8))
    (h : Src.dtlcp.codec.clientHelloMsg.unmarshal m data = .ok (m', true)) :
    Model.CodecDtlcp.decClientHello codesD (abs data) = .ok (fieldsD m') :=
  agree_accept (C14_src_clientHello_dtlcp m data) h

theorem C14_src_refuse_is_model_refuse_clientHello_dtlcp (m m' : Src.dtlcp.codec.clientHelloMsg) (data : List (BitVec 8))
    (h : Src.dtlcp.codec.clientHelloMsg.unmarshal m data = .ok (m', false)) :
    Model.CodecDtlcp.decClientHello codesD (abs data) = .reject :=
  agree_refuse (C14_src_clientHello_dtlcp m data) h

theorem C14_src_clientHello_raw_dtlcp (m m' : Src.dtlcp.codec.clientHelloMsg) (data : List (BitVec 8))
    (h : Src.dtlcp.codec.clientHelloMsg.unmarshal m data = .ok (m', true)) : m'.raw = data :=
  clientHello_raw_dtlcp m m' data h

/-- strictness (`C14_strict_clientHello_dtlcp` through the tie) -/
theorem C14_src_strict_clientHello_dtlcp (m m' : Src.dtlcp.codec.clientHelloMsg) (data : List (BitVec 8))
    (h : Src.dtlcp.codec.clientHelloMsg.unmarshal m data = .ok (m', true)) :
    Spec.Codec.shape .dtlcp .clientHello (abs data) = true :=
  C14_strict_clientHello_dtlcp _ _ (C14_src_accept_is_model_accept_clientHello_dtlcp m m' data h)

/-- round trip (`C14_roundtrip_clientHello_dtlcp` through the tie) -/
theorem C14_src_roundtrip_clientHello_dtlcp (h : DHdr) (mm : ClientHello)
    (hw : Spec.Codec.wfClientHello .dtlcp mm = true)
    (hh : ∀ body, encClientHelloBody codesD true mm = some body → Spec.Codec.wfDHdr h body.length = true) :
    ∃ b body, encClientHelloBody codesD true mm = some body ∧ Model.CodecDtlcp.encClientHello codesD h mm = some b ∧
      ∀ (m : Src.dtlcp.codec.clientHelloMsg) (data : List (BitVec 8)), abs data = b →
        ∃ m', Src.dtlcp.codec.clientHelloMsg.unmarshal m data = .ok (m', true) ∧
          fieldsD m' = (⟨h.seq, 0, body.length⟩, mm) := by
  obtain ⟨b, body, hb, he, hd⟩ := C14_roundtrip_clientHello_dtlcp h mm hw hh
  refine ⟨b, body, hb, he, ?_⟩
  intro m data hab
  have ha := C14_src_clientHello_dtlcp m data
  rw [hab, hd] at ha
  exact ha

/-- re-encoding (`C14_reencode_clientHello_dtlcp` through the tie) -/
theorem C14_src_reencode_clientHello_dtlcp (m : Src.dtlcp.codec.clientHelloMsg) (data : List (BitVec 8)) (h : DHdr)
    (mm : ClientHello) (hs : Spec.Codec.strictClientHello .dtlcp (abs data) = some (h, mm)) :
    ∃ m', Src.dtlcp.codec.clientHelloMsg.unmarshal m data = .ok (m', true) ∧ fieldsD m' = (h, mm) ∧
      Model.CodecDtlcp.encClientHello codesD h mm = some (abs data) := by
  obtain ⟨he, hd, _⟩ := C14_reencode_clientHello_dtlcp (abs data) h mm hs
  have ha := C14_src_clientHello_dtlcp m data
  rw [hd] at ha
  obtain ⟨m', e, hv⟩ := ha
  exact ⟨m', e, hv, he⟩

/-! ### non-vacuity -/

/-- accepted with exactly these fields (for `decide`d examples; `Except` has no `DecidableEq`) -/
def accT (x : Except String (Src.tlcp.codec.clientHelloMsg × Bool)) (v : CHv) : Bool :=
  match x with
  | .ok (m, true) => decide (Gotlcp.Tie.CodecCHTlcp.viewT m = v)
  | _ => false
def accD (x : Except String (Src.dtlcp.codec.clientHelloMsg × Bool)) (v : CHv) : Bool :=
  match x with
  | .ok (m, true) => decide (Gotlcp.Tie.CodecCHDtlcp.viewD m = v)
  | _ => false
/-- refused (not an error) -/
def rej {M : Type} (x : Except String (M × Bool)) : Bool :=
  match x with
  | .ok (_, false) => true
  | _ => false

/-- a ClientHello with server_name "a", two curves and ALPN "h2" -/
def helloT : List (BitVec 8) :=
  [1, 0, 0, 72, 1, 1] ++ List.replicate 32 7 ++ [0, 0, 2, 0xe0, 0x53, 1, 0] ++
    [0, 29, 0, 0, 0, 6, 0, 4, 0, 0, 1, 0x61, 0, 10, 0, 6, 0, 4, 0, 41, 0, 23, 0, 16, 0, 5, 0, 3, 2, 0x68, 0x32]

-- the translated decoder accepts it and decodes these fields …
example : accT (Src.tlcp.codec.clientHelloMsg.unmarshal {} helloT)
    { raw := helloT, vers := 0x0101#16, random := List.replicate 32 7, suites := [0xe053#16], compression := [0],
      serverName := [0x61], curves := [41#16, 23#16], alpn := [[0x68, 0x32]] } = true := by decide
-- … the specification says the same …
example : chSpecT helloT = some
    { raw := helloT, vers := 0x0101#16, random := List.replicate 32 7, suites := [0xe053#16], compression := [0],
      serverName := [0x61], curves := [41#16, 23#16], alpn := [[0x68, 0x32]] } := by decide
-- … and so does the model
example : unmarshalClientHello codesT (abs helloT) =
    .ok ⟨(1, 1), List.replicate 32 7, [], [], [(0xe0, 0x53)], [0], [0x61], [], false, [(0, 41), (0, 23)], [], [[0x68, 0x32]], []⟩ := by
  decide
-- refused: a server name ending in a dot ("a." — the `strings.HasSuffix` check inside the name loop)
example : rej (Src.tlcp.codec.clientHelloMsg.unmarshal {}
    ([1, 0, 0, 54, 1, 1] ++ List.replicate 32 7 ++ [0, 0, 2, 0xe0, 0x53, 1, 0] ++
      [0, 11, 0, 0, 0, 7, 0, 5, 0, 0, 2, 0x61, 0x2e])) = true := by decide
-- refused: one byte too many after the ALPN list inside its extension
example : rej (Src.tlcp.codec.clientHelloMsg.unmarshal {}
    ([1, 0, 0, 54, 1, 1] ++ List.replicate 32 7 ++ [0, 0, 2, 0xe0, 0x53, 1, 0] ++
      [0, 11, 0, 16, 0, 7, 0, 4, 3, 0x68, 0x32, 0x33, 0])) = true := by decide
-- refused: truncated (the 24-bit length disagrees)
example : rej (Src.tlcp.codec.clientHelloMsg.unmarshal {} (helloT.take 60)) = true := by decide

/-- the same hello for dtlcp: message_seq 1, cookie aa bb -/
def helloD : List (BitVec 8) :=
  [1, 0, 0, 75, 0, 1, 0, 0, 0, 0, 0, 75, 1, 1] ++ List.replicate 32 7 ++ [0, 2, 0xaa, 0xbb, 0, 2, 0xe0, 0x53, 1, 0] ++
    [0, 29, 0, 0, 0, 6, 0, 4, 0, 0, 1, 0x61, 0, 10, 0, 6, 0, 4, 0, 41, 0, 23, 0, 16, 0, 5, 0, 3, 2, 0x68, 0x32]

example : accD (Src.dtlcp.codec.clientHelloMsg.unmarshal {} helloD)
    { raw := helloD, seq := 1#16, fragOff := 0#32, fragLen := 75#32, vers := 0x0101#16, random := List.replicate 32 7,
      cookie := [0xaa, 0xbb], suites := [0xe053#16], compression := [0],
      serverName := [0x61], curves := [41#16, 23#16], alpn := [[0x68, 0x32]] } = true := by decide
-- two supported-curves extensions: the dtlcp text keeps the list of the LAST one (it re-makes the list) …
example : accD (Src.dtlcp.codec.clientHelloMsg.unmarshal {}
    ([1, 0, 0, 60, 0, 0, 0, 0, 0, 0, 0, 60, 1, 1] ++ List.replicate 32 7 ++ [0, 0, 0, 2, 0xe0, 0x53, 1, 0] ++
      [0, 16, 0, 10, 0, 4, 0, 2, 0, 41, 0, 10, 0, 4, 0, 2, 0, 23]))
    { raw := [1, 0, 0, 60, 0, 0, 0, 0, 0, 0, 0, 60, 1, 1] ++ List.replicate 32 7 ++ [0, 0, 0, 2, 0xe0, 0x53, 1, 0] ++
        [0, 16, 0, 10, 0, 4, 0, 2, 0, 41, 0, 10, 0, 4, 0, 2, 0, 23],
      fragLen := 60#32, vers := 0x0101#16, random := List.replicate 32 7, suites := [0xe053#16], compression := [0],
      curves := [23#16] } = true := by decide
-- … the tlcp text appends
example : accT (Src.tlcp.codec.clientHelloMsg.unmarshal {}
    ([1, 0, 0, 59, 1, 1] ++ List.replicate 32 7 ++ [0, 0, 2, 0xe0, 0x53, 1, 0] ++
      [0, 16, 0, 10, 0, 4, 0, 2, 0, 41, 0, 10, 0, 4, 0, 2, 0, 23]))
    { raw := [1, 0, 0, 59, 1, 1] ++ List.replicate 32 7 ++ [0, 0, 2, 0xe0, 0x53, 1, 0] ++
        [0, 16, 0, 10, 0, 4, 0, 2, 0, 41, 0, 10, 0, 4, 0, 2, 0, 23],
      vers := 0x0101#16, random := List.replicate 32 7, suites := [0xe053#16], compression := [0],
      curves := [41#16, 23#16] } = true := by decide
-- refused: fragment_length disagrees with the body length (the complete-message guard)
example : rej (Src.dtlcp.codec.clientHelloMsg.unmarshal {} (helloD.set 11 74)) = true := by decide

end SrcCH

end Gotlcp.Props.C14

/-
C02 — a verifying client completes only with an authenticated server.

Property theorems only (helpers: `Gotlcp.Lemmas.ClientAuthn`).  The model is
`Gotlcp.Model.ClientAuthn` with its parameters bound to the facts regenerated from the Go
source (`paramsOf`); the spec is `Gotlcp.Spec.ClientAuthn`.  Every theorem quantifies over ALL
verdict vectors (any number of certificates, any chain verdicts, any key kinds, any
ServerKeyExchange or none, any abstract signature scheme `verify`, any randoms / parameters,
any Finished verdict, any cached session, any verdicts of the user callbacks
`VerifyPeerCertificate` / `VerifyConnection`) and both stacks — nothing is enumerated.

Trusted (inputs of the model, see checks/C02.json): smx509 path / validity / name
verification, SM2, the PRF.  `C02_pop_means_key` states under which *symbolic* laws of those
primitives the verdicts mean possession of the private keys.
-/
import Gotlcp.Lemmas.ClientAuthn
import Gotlcp.Model.ClientAuthnFacts

namespace Gotlcp.Props.C02
open Gotlcp.Model.ClientAuthn
open Gotlcp.Lemmas.ClientAuthn
open Gotlcp.Spec.ClientAuthn

variable {K R P S : Type}

/-- The facts of this tree the other theorems rest on.  Breaks (and with it every theorem
below) when ServerKeyExchange becomes optional again (F1), when a certificate is no longer
chain-verified, when a `VerifyOptions` field is dropped, when resumption stops re-verifying
the recorded certificates (F13), when `readFinished` leaves a branch of `handshake()`, when
the Finished comparison changes, when completion is recorded anywhere but after both
branches, when a user callback is mentioned anywhere but in a block that can only refuse
(`if c.config.N != nil { if err := c.config.N(…); err != nil { …; return err } }`), or when the session cache's eviction leaves the evicted session with a wiped but
still present master secret (a publicly known one), or removes the secret while
`processServerHello` no longer refuses a session without one (both inside `GoodResume`). -/
theorem C02_facts :
    (∀ st, GoodFull (paramsOf st) ∧ GoodResume (paramsOf st)) ∧
    -- chain verification is guarded by InsecureSkipVerify only, with the documented options
    Facts.tlcp.caVerifyGuard = "!c.config.InsecureSkipVerify" ∧
    Facts.dtlcp.caVerifyGuard = "!c.config.InsecureSkipVerify" ∧
    Facts.tlcp.caVerifyOpts = ["Roots=c.config.RootCAs", "CurrentTime=c.config.time()",
      "DNSName=c.config.ServerName", "Intermediates=x509.NewCertPool()"] ∧
    Facts.dtlcp.caVerifyOpts = Facts.tlcp.caVerifyOpts ∧
    -- … and resumption re-verifies under the same guard with the same options
    Facts.tlcp.caResumeVerifyGuard = Facts.tlcp.caVerifyGuard ∧
    Facts.dtlcp.caResumeVerifyGuard = Facts.dtlcp.caVerifyGuard ∧
    Facts.tlcp.caResumeVerifyOpts = Facts.tlcp.caVerifyOpts ∧
    Facts.dtlcp.caResumeVerifyOpts = Facts.dtlcp.caVerifyOpts ∧
    -- Finished: full-length, constant-time comparison
    Facts.tlcp.caFinishedCompare =
      "len(verify) != len(serverFinished.verifyData) || subtle.ConstantTimeCompare(verify, serverFinished.verifyData) != 1" ∧
    Facts.dtlcp.caFinishedCompare = Facts.tlcp.caFinishedCompare ∧
    -- completion is recorded once, after both branches of handshake(), nowhere else
    Facts.tlcp.caStatusStoreLast = true ∧ Facts.dtlcp.caStatusStoreLast = true ∧
    Facts.tlcp.caStatusStoresElsewhere = 0 ∧ Facts.dtlcp.caStatusStoresElsewhere = 0 ∧
    -- the eviction path of the session cache and the guard of processServerHello were found
    Facts.tlcp.caEvictionPathFound = 1 ∧ Facts.dtlcp.caEvictionPathFound = 1 ∧
    -- the user callbacks: consulted by verifyServerCertificate after its built-in checks and by
    -- the resumption branch of handshake(), each time in the shape that can only refuse; no other
    -- mention of a callback anywhere on the client's path (nothing is conditional on one)
    Facts.tlcp.caFullCallbacks = ["VerifyPeerCertificate", "VerifyConnection"] ∧
    Facts.dtlcp.caFullCallbacks = Facts.tlcp.caFullCallbacks ∧
    Facts.tlcp.caCallbacksAfterBuiltin = true ∧ Facts.dtlcp.caCallbacksAfterBuiltin = true ∧
    "VerifyConnection" ∈ Facts.tlcp.caResumeSteps ∧ "VerifyConnection" ∈ Facts.dtlcp.caResumeSteps ∧
    Facts.tlcp.caCallbackRefsOutsideRefusal = 0 ∧ Facts.dtlcp.caCallbackRefsOutsideRefusal = 0 ∧
    -- the pre-master secret of the ECC suites: 48 bytes, the 46 after the version filled from
    -- Config.Rand by exactly one call, which is io.ReadFull; that buffer is what is encrypted to
    -- the server's key and returned
    (∀ st, pmsParamsOf st = { len := 48, randFrom := 2, readFull := true }) ∧
    Facts.tlcp.caPremasterFills = ["readfull"] ∧ Facts.dtlcp.caPremasterFills = ["readfull"] ∧
    Facts.tlcp.caPremasterEncryptedAndReturned = true ∧ Facts.dtlcp.caPremasterEncryptedAndReturned = true ∧
    Facts.missing = [] := by
  refine ⟨fun st => ?_, ?_⟩
  · cases st <;> decide
  · refine ⟨by decide, by decide, by decide, by decide, by decide, by decide, by decide, by decide,
      by decide, by decide, by decide, by decide, by decide, by decide, by decide, by decide, by decide,
      by decide, by decide, by decide, by decide, by decide, by decide, by decide, ?_, by decide, by decide,
      by decide, by decide, by decide⟩
    intro st; cases st <;> decide

/-- **Full handshake.**  If the client completes, the peer presented two certificates, both
pass chain / validity / name verification unless verification is disabled, the signed
ServerKeyExchange was received, its signature verifies with the signing certificate's key over
THIS handshake's client random, server random and key-exchange parameters, and Finished was
correct. -/
theorem C02_full (st : Stack) (verify : K → Tbs R P → S → Bool) (skip : Bool) (v : FullView K R P S)
    (h : (fullHandshake (paramsOf st) verify skip v).outcome = .completed) :
    Authenticated (!skip) (evidenceOf verify v) :=
  have gp := (C02_facts.1 st).1
  full_authenticated gp.toGoodFullBase h (Or.inl gp.skx)

/-- Non-vacuity: an honest ECC view completes. -/
def honestView : FullView Nat Nat Nat (Nat × Tbs Nat Nat) :=
  { kex := .ecc, clientRandom := 11, serverRandom := 22, certMsg := true,
    certs := [⟨100, .ecdsa, true, 1000⟩, ⟨200, .ecdsa, true, 2000⟩], parseOK := true,
    skx := some ⟨true, 0, (100, ⟨11, 22, 2000⟩)⟩, certReq := false, clientEncCert := false,
    helloDone := true, ckxOK := true, finishedOK := true }

def pairVerify : Nat → Tbs Nat Nat → (Nat × Tbs Nat Nat) → Bool := fun k m s => decide (s = (k, m))

example : (fullHandshake (paramsOf .tlcp) pairVerify false honestView).outcome = .completed := by decide
example : (fullHandshake (paramsOf .dtlcp) pairVerify false honestView).outcome = .completed := by decide
/-- … and the same view with a signature replayed from a handshake with another client random does not -/
example : (fullHandshake (paramsOf .tlcp) pairVerify false
    { honestView with skx := some ⟨true, 0, (100, ⟨10, 22, 2000⟩)⟩ }).outcome ≠ .completed := by decide

/-- **F1 (negation).**  With ServerKeyExchange optional — the code as it stood — `C02_full` is
false: an ECC flow without the message completes although possession of the signing key was
never shown.  (`caSkxMandatory = false` is what the extractor emits for the unrepaired tree.) -/
def f1Witness : FullView Nat Nat Nat (Nat × Tbs Nat Nat) := { honestView with skx := none }

theorem C02_full_false_when_skx_optional :
    ¬ ∀ (v : FullView Nat Nat Nat (Nat × Tbs Nat Nat)),
      (fullHandshake { paramsOf .tlcp with skxMandatory := false } pairVerify false v).outcome = .completed →
      Authenticated true (evidenceOf pairVerify v) := by
  intro h
  have := h f1Witness (by decide)
  revert this
  decide

/-- **F1 (partial).**  Whatever the ServerKeyExchange policy of the source, the conclusion of
`C02_full` holds for every flow outside the finding: ECDHE suites (the client cannot build
its ClientKeyExchange without the server's signed ephemeral key) and every flow in which the
message is present. -/
theorem C02_full_partial (p : Params) (gp : GoodFullBase p)
    (verify : K → Tbs R P → S → Bool) (skip : Bool) (v : FullView K R P S)
    (h : (fullHandshake p verify skip v).outcome = .completed)
    (hx : v.kex = .ecdhe ∨ v.skx.isSome = true) :
    Authenticated (!skip) (evidenceOf verify v) :=
  full_authenticated gp h (Or.inr hx)

example : GoodFullBase { paramsOf .tlcp with skxMandatory := false } := by decide

/-- **Proofs of possession do not depend on `InsecureSkipVerify`.**  For either setting,
completion implies the ServerKeyExchange signature over this handshake and a correct
Finished; and a non-verifying client completes exactly when a verifying one would, were the
chains in order — the flag removes the chain check and nothing else. -/
theorem C02_insecure_still_pop (st : Stack) (verify : K → Tbs R P → S → Bool) (v : FullView K R P S) :
    (∀ skip, (fullHandshake (paramsOf st) verify skip v).outcome = .completed →
        ProofsOfPossession (evidenceOf verify v)) ∧
    ((fullHandshake (paramsOf st) verify false v).outcome = .completed ↔
      ((fullHandshake (paramsOf st) verify true v).outcome = .completed ∧
        chainsOK (paramsOf st).verifiedIdx v.certs = true)) := by
  constructor
  · intro skip h
    exact (C02_full st verify skip v h).2.2
  · -- the flag only enters `verifyServerCertificate`
    have key : ∀ skip, (fullHandshake (paramsOf st) verify skip v).outcome = .completed ↔
        runSteps (doFullHandshake (paramsOf st) verify skip v) v.finishedOK v.cb (paramsOf st).fullSteps = .ok () :=
      fun skip => finish_completed
    have hd := (C02_facts.1 st).1.stepFull
    have vsc : verifyServerCertificate (paramsOf st) false v = .ok () ↔
        (verifyServerCertificate (paramsOf st) true v = .ok () ∧ chainsOK (paramsOf st).verifiedIdx v.certs = true) := by
      unfold verifyServerCertificate
      by_cases h1 : v.parseOK = true <;> by_cases h2 : v.certs.length < (paramsOf st).minCerts <;>
        cases hc : chainsOK (paramsOf st).verifiedIdx v.certs <;>
        simp [h1, h2, failWith]
    have dfh : doFullHandshake (paramsOf st) verify false v = .ok () ↔
        (doFullHandshake (paramsOf st) verify true v = .ok () ∧ chainsOK (paramsOf st).verifiedIdx v.certs = true) := by
      unfold doFullHandshake
      simp only [firstError_ok, List.mem_cons, List.mem_nil_iff, or_false, forall_eq_or_imp, forall_eq, vsc]
      constructor
      · rintro ⟨a, ⟨b, c⟩, d⟩; exact ⟨⟨a, b, d⟩, c⟩
      · rintro ⟨⟨a, b, d⟩, c⟩; exact ⟨a, ⟨b, c⟩, d⟩
    rw [key, key]
    constructor
    · intro h
      have hs := runSteps_ok h
      have hdf := dfh.mp (runStep_doFull (hs _ hd))
      refine ⟨runSteps_ok_of_all (fun s hsm => ?_), hdf.2⟩
      have := hs s hsm
      unfold runStep at this ⊢
      split
      · exact hdf.1
      · rename_i hne; simpa [hne] using this
    · rintro ⟨h, hc⟩
      have hs := runSteps_ok h
      have hdf := dfh.mpr ⟨runStep_doFull (hs _ hd), hc⟩
      refine runSteps_ok_of_all (fun s hsm => ?_)
      have := hs s hsm
      unfold runStep at this ⊢
      split
      · exact hdf
      · rename_i hne; simpa [hne] using this

/-- non-vacuity: the honest view under an untrusted CA completes only with the flag set -/
def untrustedView : FullView Nat Nat Nat (Nat × Tbs Nat Nat) :=
  { honestView with certs := [⟨100, .ecdsa, false, 1000⟩, ⟨200, .ecdsa, false, 2000⟩] }
example : (fullHandshake (paramsOf .tlcp) pairVerify true untrustedView).outcome = .completed := by decide
example : (fullHandshake (paramsOf .tlcp) pairVerify false untrustedView).outcome ≠ .completed := by decide

/-- **The user callbacks can only add a refusal.**  `Config.VerifyPeerCertificate` and
`Config.VerifyConnection` are arbitrary user code; their verdicts are inputs of the model like
every other verdict.  For every shape of the source the model covers, every connection and
every pair of callback verdicts:
  (1) which branch is taken does not depend on them;
  (2) a connection that completes with callbacks installed completes with none installed —
      no callback makes a handshake succeed that the built-in checks refuse;
  (3) callbacks that return nil change nothing at all. -/
theorem C02_callbacks_only_refuse (p : Params) (verify : K → Tbs R P → S → Bool) (skip : Bool)
    (c : ConnView K R P S) :
    (connect p verify skip c.noCallbacks).resumed = (connect p verify skip c).resumed ∧
    ((connect p verify skip c).result.outcome = .completed →
      (connect p verify skip c.noCallbacks).result.outcome = .completed) ∧
    (Callbacks.accept c.full.cb → (∀ s, c.session = some s → Callbacks.accept s.cb) →
      connect p verify skip c = connect p verify skip c.noCallbacks) := by
  obtain ⟨sess, full⟩ := c
  cases sess with
  | none =>
    refine ⟨rfl, fun h => ?_, fun ha _ => ?_⟩
    · exact full_mono (by simpa [connect] using h)
    · simp only [connect, ConnView.noCallbacks, Option.map_none]
      rw [full_accept ha]
  | some s =>
    simp only [connect, ConnView.noCallbacks, Option.map_some, takesResume_noCallbacks]
    by_cases ht : takesResume p skip s = true
    · simp only [ht, if_true]
      exact ⟨trivial, resumed_mono, fun _ hs => by rw [resumed_accept (hs s rfl)]⟩
    · simp only [ht, Bool.false_eq_true, if_false]
      exact ⟨trivial, full_mono, fun ha _ => by rw [full_accept ha]⟩

/-- **The built-in checks are never waived.**  Whatever callbacks the configuration installs and
whatever they answer, a full handshake of this tree that completes passed every built-in check:
the conclusion of `C02_full` holds for the view, and the same view completes with no callback
installed.  (`evidenceOf` does not look at the callback verdicts: what user code says is no
evidence about the peer.) -/
theorem C02_builtin_checks_never_waived (st : Stack) (verify : K → Tbs R P → S → Bool) (skip : Bool)
    (v : FullView K R P S) (cb : Callbacks)
    (h : (fullHandshake (paramsOf st) verify skip { v with cb := cb }).outcome = .completed) :
    Authenticated (!skip) (evidenceOf verify v) ∧
    (fullHandshake (paramsOf st) verify skip { v with cb := {} }).outcome = .completed :=
  ⟨C02_full st verify skip { v with cb := cb } h, by
    have := full_mono h
    simpa [FullView.noCallbacks] using this⟩

/-- … and the callbacks of this tree are honoured: a full handshake completes only if neither
installed callback returned an error, a resumed one only if `VerifyConnection` did not
(`VerifyPeerCertificate` is not consulted on resumption, as in crypto/tls: the recorded
certificates passed it when the session was created). -/
theorem C02_callback_refusal_honoured (st : Stack) (verify : K → Tbs R P → S → Bool) (skip : Bool) :
    (∀ v : FullView K R P S, (fullHandshake (paramsOf st) verify skip v).outcome = .completed →
      Callbacks.accept v.cb) ∧
    (∀ s : SessView, (resumedHandshake (paramsOf st) s).outcome = .completed → s.cb.vc ≠ some false) := by
  constructor
  · intro v h
    have hc := full_completed_callbacks (C02_facts.1 st).1.stepFull h
    have hl : (paramsOf st).fullCallbacks = ["VerifyPeerCertificate", "VerifyConnection"] := by
      cases st <;> decide
    rw [hl] at hc
    exact ⟨runCallback_vpc (hc _ (by simp)), runCallback_vc (hc _ (by simp))⟩
  · intro s h
    have hv : "VerifyConnection" ∈ (paramsOf st).resumeSteps := by cases st <;> decide
    exact resumed_completed_vc hv h

/-- non-vacuity: the honest view completes under accepting callbacks and fails under a refusing
one; the untrusted view fails under an accepting callback (the configuration of a client that
adds a policy of its own to the normal verification) exactly as without -/
example : (fullHandshake (paramsOf .dtlcp) pairVerify false
    { honestView with cb := ⟨some true, some true⟩ }).outcome = .completed := by decide
example : (fullHandshake (paramsOf .dtlcp) pairVerify false
    { honestView with cb := ⟨some false, none⟩ }).outcome = .failed "verify-peer-certificate" "bad_certificate" := by decide
example : (fullHandshake (paramsOf .tlcp) pairVerify true
    { honestView with cb := ⟨none, some false⟩ }).outcome = .failed "verify-connection" "bad_certificate" := by decide
example : (fullHandshake (paramsOf .dtlcp) pairVerify false
    { untrustedView with cb := ⟨some true, none⟩ }).outcome = .failed "certificate-chain" "bad_certificate" := by decide

/-- **(negation) a callback that may waive the chain check.**  Were a failed chain verification
fatal only when no `VerifyPeerCertificate` is installed — "the callback decides" — the model of
that source would be `waivingVerify` below, and `C02_full` is false for it: a verifying client
with a callback that accepts completes with the untrusted view. -/
def waivingSkip (skip : Bool) (cb : Callbacks) : Bool := skip || cb.vpc.isSome

theorem C02_full_false_when_callback_waives :
    ¬ ∀ (v : FullView Nat Nat Nat (Nat × Tbs Nat Nat)),
      (fullHandshake (paramsOf .dtlcp) pairVerify (waivingSkip false v.cb) v).outcome = .completed →
      Authenticated true (evidenceOf pairVerify v) := by
  intro h
  have := h { untrustedView with cb := ⟨some true, none⟩ } (by decide)
  revert this
  decide

/-- **Resumption.**  If a connection completes on the resumption branch, the peer's Finished was
the correct one for the master secret of the session being resumed (not merely for whatever
the client happened to hold: a cache eviction racing with `loadSession` may leave it holding
nothing, and must never leave it holding a public value) and — unless verification is
disabled — the certificates recorded with the session pass the chain / validity / name checks
of the configuration NOW in use. -/
theorem C02_resumed (st : Stack) (verify : K → Tbs R P → S → Bool) (skip : Bool) (c : ConnView K R P S)
    (hr : (connect (paramsOf st) verify skip c).resumed = true)
    (h : (connect (paramsOf st) verify skip c).result.outcome = .completed) :
    ∃ s, c.session = some s ∧ ResumedAuthenticated (!skip) (sessEvidenceOf s) := by
  unfold connect at hr h
  cases hs : c.session with
  | none => simp [hs] at hr
  | some s =>
    simp only [hs] at hr h
    by_cases ht : takesResume (paramsOf st) skip s = true
    · simp only [ht, if_true] at h
      exact ⟨s, rfl, resumed_authenticated (C02_facts.1 st).2 ht h⟩
    · simp [ht] at hr

/-- the whole connection: whichever branch is taken, completion implies the statement's conjunction -/
theorem C02_connection (st : Stack) (verify : K → Tbs R P → S → Bool) (skip : Bool) (c : ConnView K R P S)
    (h : (connect (paramsOf st) verify skip c).result.outcome = .completed) :
    if (connect (paramsOf st) verify skip c).resumed = true
    then ∃ s, c.session = some s ∧ ResumedAuthenticated (!skip) (sessEvidenceOf s)
    else Authenticated (!skip) (evidenceOf verify c.full) := by
  split
  · rename_i hr; exact C02_resumed st verify skip c hr h
  · rename_i hr
    apply C02_full st verify skip c.full
    unfold connect at h hr
    cases hs : c.session with
    | none => simpa [hs] using h
    | some s =>
      simp only [hs] at h hr
      by_cases ht : takesResume (paramsOf st) skip s = true
      · simp [ht] at hr
      · simpa [ht] using h

/-- non-vacuity: an honest cached session is offered, resumed and completes; the same session
whose certificates do not verify now is not offered and the connection falls back to the
full handshake -/
def honestSess : SessView :=
  { nCerts := 2, chainSig := true, chainEnc := true, serverResumes := true, versOK := true,
    suiteOK := true, evictedInWindow := false, evictedAfterLoad := false, peerFin := some .session }
example : connect (paramsOf .tlcp) pairVerify false ⟨some honestSess, honestView⟩ =
    ⟨⟨.completed, 1⟩, true⟩ := by decide
example : connect (paramsOf .dtlcp) pairVerify false ⟨some { honestSess with chainEnc := false }, untrustedView⟩ =
    ⟨⟨.failed "certificate-chain" "bad_certificate", 0⟩, false⟩ := by decide
/-- … a resumed connection does not consult `VerifyPeerCertificate`, and honours `VerifyConnection` -/
example : (resumedHandshake (paramsOf .tlcp) { honestSess with cb := ⟨some false, some true⟩ }).outcome = .completed := by decide
example : (resumedHandshake (paramsOf .tlcp) { honestSess with cb := ⟨none, some false⟩ }).outcome =
    .failed "verify-connection" "bad_certificate" := by decide

/-- **A secret the cache wiped is never used.**  Whenever other connections' sessions push the
entry out of the cache — after `SessionCache.Get` handed it to `loadSession` and before
`loadSession` took its copy, or at any later moment of the handshake — a completed resumption
computed with the session's own master secret and accepted a Finished computed with it: no
peer completes with the client by guessing what a wiped or dropped buffer contains. -/
theorem C02_wiped_secret_never_used (st : Stack) (s : SessView)
    (h : (resumedHandshake (paramsOf st) s).outcome = .completed) :
    heldSecret (paramsOf st) s = .session ∧ s.peerFin = some .session :=
  have gr := (C02_facts.1 st).2.toGoodResumeBase
  ⟨resumed_held_session gr h, resumed_completed gr h⟩

/-- … and with an eviction that removes the secret (`setZero` then `= nil`, the tree as it
stands) and the guard of `processServerHello`, the evicted session is not resumed at all -/
theorem C02_evicted_session_never_resumed (p : Params) (gr : GoodResumeBase p)
    (hd : p.evictDrops = true) (hg : p.secretGuard = true) (s : SessView)
    (h : (resumedHandshake p s).outcome = .completed) :
    s.evictedInWindow = false ∧ (p.loadClones = false → s.evictedAfterLoad = false) := by
  have he := resumed_not_evicted gr.stepFin hd hg h
  simp only [readsEvicted, Bool.or_eq_false_iff, Bool.and_eq_false_iff, Bool.not_eq_false'] at he
  refine ⟨he.1, fun hc => ?_⟩
  rcases he.2 with h1 | h2
  · simp [hc] at h1
  · exact h2

/-- both shapes of a safe eviction satisfy the hypotheses: wipe-and-drop behind the guard … -/
example : GoodResumeBase { paramsOf .dtlcp with evictWipes := true, evictDrops := true, secretGuard := true } := by
  decide
/-- … and an eviction path without any clean-up, as good for THIS property (the secret stays secret) -/
example : GoodResumeBase { paramsOf .tlcp with evictDrops := false, evictWipes := false } := by decide

/-- non-vacuity: the eviction in the window makes the model refuse, whatever the peer computes with;
an eviction after `loadSession` returned is harmless (private copy) -/
example : ∀ k, (resumedHandshake { paramsOf .dtlcp with evictWipes := true, evictDrops := true, secretGuard := true }
    { honestSess with evictedInWindow := true, peerFin := k }).outcome =
    .failed "resume-master" "internal_error" := by
  intro k; cases k with
  | none => decide
  | some x => cases x <;> decide
example : (resumedHandshake { paramsOf .tlcp with loadClones := true } { honestSess with evictedAfterLoad := true }).outcome =
    .completed := by decide

/-- **(negation) an eviction that wipes without dropping.**  Were the evicted session left with
an all-zero master secret — `setZero` without `= nil` — `C02_resumed` would be false: the
verifying client, its session evicted inside the window of `loadSession`, completes with a
peer that echoes the session id and computes with 48 zero bytes, i.e. proves nothing. -/
def wipedWitness : ConnView Nat Nat Nat (Nat × Tbs Nat Nat) :=
  ⟨some { honestSess with evictedInWindow := true, peerFin := some .zeros }, untrustedView⟩

theorem C02_resumed_false_when_eviction_only_wipes :
    ¬ ∀ (c : ConnView Nat Nat Nat (Nat × Tbs Nat Nat)),
      (connect { paramsOf .dtlcp with evictWipes := true, evictDrops := false } pairVerify false c).resumed = true →
      (connect { paramsOf .dtlcp with evictWipes := true, evictDrops := false } pairVerify false c).result.outcome = .completed →
      ∃ s, c.session = some s ∧ ResumedAuthenticated true (sessEvidenceOf s) := by
  intro h
  obtain ⟨s, hs, ha⟩ := h wipedWitness (by decide) (by decide)
  have : s = { honestSess with evictedInWindow := true, peerFin := some .zeros } := by
    simp only [wipedWitness, Option.some.injEq] at hs; exact hs.symm
  subst this
  revert ha
  decide

/-- … and the same without the guard of `processServerHello`: the dropped (empty) secret is
the very PRF key the wiped one is, so the peer computing with 48 zero bytes completes -/
theorem C02_resumed_false_without_secret_guard :
    ¬ ∀ (s : SessView),
      (resumedHandshake { paramsOf .tlcp with evictDrops := true, secretGuard := false } s).outcome = .completed →
      (sessEvidenceOf s).finishedCorrect = true := by
  intro h
  have := h { honestSess with evictedInWindow := true, peerFin := some .zeros } (by decide)
  revert this
  decide

/-- **F13 (negation).**  Without re-verification of the recorded certificates — the code as it
stood — `C02_resumed` is false: a session recorded under `InsecureSkipVerify` from a server
with untrusted certificates is resumed to completion by a verifying configuration. -/
def f13Witness : ConnView Nat Nat Nat (Nat × Tbs Nat Nat) :=
  ⟨some { honestSess with chainSig := false, chainEnc := false }, untrustedView⟩

theorem C02_resumed_false_without_reverify :
    ¬ ∀ (c : ConnView Nat Nat Nat (Nat × Tbs Nat Nat)),
      (connect { paramsOf .tlcp with resumeReverify := false } pairVerify false c).resumed = true →
      (connect { paramsOf .tlcp with resumeReverify := false } pairVerify false c).result.outcome = .completed →
      ∃ s, c.session = some s ∧ ResumedAuthenticated true (sessEvidenceOf s) := by
  intro h
  obtain ⟨s, hs, ha⟩ := h f13Witness (by decide) (by decide)
  have : s = { honestSess with chainSig := false, chainEnc := false } := by
    simp only [f13Witness, Option.some.injEq] at hs; exact hs.symm
  subst this
  revert ha
  decide

/-- **F13 (partial).**  Whatever the resumption policy of the source: if the session was created
by a full handshake that completed under configuration 1 (`skip₁`, view `v₁`) and the
configuration now in use judges the recorded certificates exactly as configuration 1 did and
does not verify where configuration 1 did not (the excluding hypothesis: same roots, name and
a clock inside the same validity window, not "InsecureSkipVerify then, verifying now"), then
a resumed completion is authenticated. -/
theorem C02_resumed_partial (p : Params) (gp : GoodFullBase p) (gr : GoodResumeBase p)
    (verify : K → Tbs R P → S → Bool) (skip₁ skip₂ : Bool) (v₁ : FullView K R P S) (s : SessView)
    (hcreated : (fullHandshake p verify skip₁ v₁).outcome = .completed)
    (hrecorded : s.nCerts = v₁.certs.length ∧ s.chainSig = chainAt v₁.certs 0 ∧ s.chainEnc = chainAt v₁.certs 1)
    (hnotstricter : skip₁ = true → skip₂ = true)
    (h : (resumedHandshake p s).outcome = .completed) :
    ResumedAuthenticated (!skip₂) (sessEvidenceOf s) := by
  refine ⟨?_, by simp [sessEvidenceOf, resumed_completed gr h]⟩
  intro hv
  have hs2 : skip₂ = false := by cases skip₂ <;> simp_all
  have hs1 : skip₁ = false := by
    cases skip₁ with
    | false => rfl
    | true => simp [hnotstricter rfl] at hs2
  obtain ⟨hd, _⟩ := full_completed gp.stepFull gp.stepFin hcreated
  obtain ⟨hlen, hch, _⟩ := doFull_ok_base hd
  obtain ⟨hn, hsig, henc⟩ := hrecorded
  have hmin := gp.minCerts
  refine ⟨by simp only [sessEvidenceOf]; omega, ?_, ?_⟩
  · simp only [sessEvidenceOf, hsig]; exact chainsOK_mem (hch hs1) gp.idx0
  · simp only [sessEvidenceOf, henc]; exact chainsOK_mem (hch hs1) gp.idx1

example : GoodFullBase { paramsOf .tlcp with skxMandatory := false } ∧
    GoodResumeBase { paramsOf .tlcp with resumeReverify := false } := by decide

/-- **Completion is never reported on an error.**  The connection's completion flag
(`handshakeStatus` / `hsState = stateFinished`) is 1 exactly when the handshake returned
success — for every connection, resumed or not.  (That the flag is stored once, after both
branches, and nowhere else on the client path is the regenerated fact pinned in `C02_facts`.) -/
theorem C02_never_reports_on_error (p : Params) (verify : K → Tbs R P → S → Bool) (skip : Bool)
    (c : ConnView K R P S) :
    (connect p verify skip c).result.handshakeStatus = 1 ↔
      (connect p verify skip c).result.outcome = .completed := by
  unfold connect
  cases c.session with
  | none => exact finish_status
  | some s =>
    simp only
    split
    · exact finish_status
    · exact finish_status

example : (connect (paramsOf .tlcp) pairVerify false ⟨none, untrustedView⟩).result.handshakeStatus = 0 := by decide

/-- **Symbolic corollary: the verdicts mean possession of the private keys.**  Under the
ideal-signature laws (a signature that verifies was made with the private key over exactly
that message; a signature value signs one message) and freshness of the client random drawn
at time `t0`, and under the ideal key-exchange / PRF laws: if the client completes a full
handshake then
  (1) the private signing key of `certs[0]` was used at a time ≥ `t0` — i.e. during this
      handshake, so its holder is there *now* — over this handshake's randoms and parameters;
  (2) a ServerKeyExchange signature that also verifies for any other to-be-signed value —
      e.g. one recorded from an earlier handshake with another client random — is never
      accepted;
  (3) some agent other than the client produced the accepted Finished, hence knows the
      master secret, hence the pre-master secret, hence holds the private key of the
      encryption certificate's key (ECC) / completed the SM2 agreement as its owner (ECDHE). -/
theorem C02_pop_means_key {A : Type} (st : Stack) (W : IdealSig K (Tbs R P) S) (skip : Bool)
    (v : FullView K R P S) (t0 : Nat) (hfresh : FreshClientRandom W v.clientRandom t0)
    (X : IdealKex K A) (hX : X.accepts = v.finishedOK)
    (h : (fullHandshake (paramsOf st) W.verify skip v).outcome = .completed) :
    (∃ c0 c1 rest skx, v.certs = c0 :: c1 :: rest ∧ v.skx = some skx ∧
        (∃ t, t0 ≤ t ∧ W.Signed c0.key (clientTbs v skx c1.der) t) ∧
        (∀ m', W.verify c0.key m' skx.sig = true → m' = clientTbs v skx c1.der)) ∧
    (∃ a, X.ProducedFinished a ∧ X.KnowsMaster a ∧ X.KnowsPreMaster a ∧ X.HoldsPrivate a X.encKey) := by
  have hauth := C02_full st W.verify skip v h
  obtain ⟨_, _, hpres, hsig, hfin⟩ := hauth
  constructor
  · simp only [evidenceOf, sigValidOverThis] at hpres hsig
    cases hx : v.skx with
    | none => simp [hx] at hpres
    | some skx =>
      match hc : v.certs with
      | [] => simp [hx, hc] at hsig
      | [_] => simp [hx, hc] at hsig
      | c0 :: c1 :: rest =>
        simp only [hx, hc] at hsig
        refine ⟨c0, c1, rest, skx, rfl, rfl, ?_, ?_⟩
        · obtain ⟨t, ht⟩ := W.unforgeable _ _ _ hsig
          exact ⟨t, hfresh _ _ _ ht (by simp [clientTbs]), ht⟩
        · intro m' hm'
          exact W.binding _ _ _ _ hm' hsig
  · simp only [evidenceOf] at hfin
    obtain ⟨a, ha⟩ := X.prf_unforgeable (by rw [hX]; exact hfin)
    have hm := X.prf_needs_key a ha
    have hp := X.master_from_premaster a hm
    exact ⟨a, ha, hm, hp, X.premaster_secret a hp⟩

/-- the symbolic laws are jointly satisfiable (term algebra), and the theorem applies to a
completing run -/
example : ∃ a, (termKex Nat 200 true).HoldsPrivate a 200 := ⟨(), rfl⟩
example : ∃ t, (termSig Nat (Tbs Nat Nat)).Signed 100 ⟨11, 22, 2000⟩ t := ⟨7, rfl⟩

example : (fullHandshake (paramsOf .tlcp) (termSig Nat (Tbs Nat Nat)).verify false honestView).outcome = .completed := by
  decide

/-- **The pre-master secret is drawn from the entropy source, all of it.**  For EVERY
`Config.Rand` — any bytes, any schedule of short reads, one byte per call, zero-length reads
in between, all of them legal for an `io.Reader` — if the client gets as far as encrypting a
pre-master secret, that secret is the version followed by the NEXT 46 BYTES OF THE READER'S
OUTPUT, none of them left at the zero value of the buffer; otherwise the client fails (the
reader reported an error).  This is the fact of the code behind the law `premaster_secret` of
`C02_pop_means_key` (only the holder of the encryption private key learns the pre-master secret):
a secret with bytes the reader never supplied can be found by trial against the client's
Finished by a peer that holds no key at all. -/
theorem C02_premaster_from_reader (st : Stack) (vers : Nat) (r : Reader) (pms : List Nat)
    (h : preMaster (pmsParamsOf st) vers r = some pms) :
    pms = [vers / 256, vers % 256] ++ r.stream.take 46 ∧ pms.length = 48 ∧
      pmsDrawn (pmsParamsOf st) r = some 46 := by
  have hp : pmsParamsOf st = { len := 48, randFrom := 2, readFull := true } := by
    cases st <;> decide
  rw [hp] at h ⊢
  simp only [preMaster, pmsDrawn, pmsTail, if_true, Option.map_map] at h ⊢
  cases hr : readFull r.sched r.stream (48 - 2) with
  | none => simp [hr] at h
  | some t =>
    obtain ⟨bs, s', sc'⟩ := t
    obtain ⟨hb, _, hl⟩ := readFull_take _ _ _ _ _ _ hr
    simp only [hr, Option.map_some, Function.comp, Option.some.injEq] at h ⊢
    subst h
    refine ⟨?_, ?_, ?_⟩
    · rw [hb]; simp
    · simp [hl]
    · simp [hl]

/-- non-vacuity: a reader that delivers one byte per call, one that stutters (a zero-length read
before every byte) and one that delivers half of what is asked for all lead to a pre-master
secret; a reader that runs dry makes the client fail -/
example : (preMaster (pmsParamsOf .tlcp) 0x0101 ⟨List.range 100, List.replicate 46 1⟩).isSome = true := by decide
example : preMaster (pmsParamsOf .dtlcp) 0x0101 ⟨List.range 100, (List.replicate 46 [0, 1]).flatten⟩ =
    some ([1, 1] ++ List.range 46) := by decide
example : (preMaster (pmsParamsOf .tlcp) 0x0101 ⟨List.range 100, [23, 12, 6, 3, 1, 1]⟩).isSome = true := by decide
example : preMaster (pmsParamsOf .tlcp) 0x0101 ⟨List.range 100, List.replicate 45 1⟩ = none := by decide

/-- **… and a source that calls `Read` once and ignores the count breaks it**: with a reader that
delivers one byte per call the secret is the version, one byte of the reader and 45 zeros — 256
candidates for a peer without the encryption private key. -/
theorem C02_premaster_false_with_single_read :
    ∃ (r : Reader) (pms : List Nat),
      preMaster { len := 48, randFrom := 2, readFull := false } 0x0101 r = some pms ∧
      pms = [1, 1, 200] ++ List.replicate 45 0 ∧
      pmsDrawn { len := 48, randFrom := 2, readFull := false } r = some 1 :=
  ⟨⟨[200, 201, 202], [1, 1, 1]⟩, _, rfl, by decide, by decide⟩

end Gotlcp.Props.C02

/-
C14, property theorems about the TRANSLATED cryptobyte-based decoders (part SH; see DESIGN.md 12.4).
Same namespace as Props/C14.lean; listed in checks/C14.json under extra_props_files.

`serverHelloMsg.unmarshal` of both stacks, as go2lean re-reads it from /repo on every run
(`Gotlcp.Src.tlcp.codec` / `Gotlcp.Src.dtlcp.codec`; `cryptobyte.String` = the stub `cbString`):
for EVERY receiver value and EVERY byte string the translated function

  * returns `(m', true)` exactly when the hand model (`Model.Codec.unmarshalServerHello codesT` /
    `Model.CodecDtlcp.decServerHello codesD`, instantiated with the regenerated facts) accepts the same bytes,
    and then the nine body fields of `m'` (dtlcp: and the three header fields) are the model's;
  * returns `(m', false)` exactly when the model refuses;

so the theorems C14_total / strict / roundtrip / reencode _serverHello_ of Props/C14.lean, stated about
the model, hold of the source text (`C14_src_strict_…`, `C14_src_roundtrip_…`, `C14_src_reencode_…` below).
How: Tie/CodecSH.lean, Tie/CodecSHDtlcp.lean (translated text = closed form `decBody`, shared by both
stacks), Tie/CodecSHModel.lean (closed form = model, reads one by one, extension loop round by round).
-/
import Gotlcp.Tie.CodecSHModel
import Gotlcp.Lemmas.CodecHelloStrict
import Gotlcp.Lemmas.CodecHelloCanon

namespace Gotlcp.Props.C14
open Gotlcp Gotlcp.Wire Gotlcp.Wire.Msg Gotlcp.Model.Codec
open Gotlcp.Tie.CodecSH Gotlcp.Tie.CodecSHModel
open Gotlcp.Tie.UnmarshalTlcpCodec (abs)

/-- the literals in the translated text (message type 2; extension codes 5, 16, 0; 32 random bytes) are
the regenerated facts the model is instantiated with, both decoders are in the regenerated list of
guarded decoders, and everything the translator was asked for was translated -/
theorem C14_src_codes_serverHello :
    Src.untranslated = [] ∧
    u8 codesT.tServerHello = UInt8.ofBitVec 2#8 ∧ codesT.complete.contains codesT.tServerHello = true ∧
    u8 codesD.tServerHello = UInt8.ofBitVec 2#8 ∧ codesD.complete.contains codesD.tServerHello = true ∧
    codesT.extStatusRequest = 5 ∧ codesT.extALPN = 16 ∧ codesT.extServerName = 0 ∧ codesT.randomLen = 32 ∧
    codesD.extStatusRequest = 5 ∧ codesD.extALPN = 16 ∧ codesD.extServerName = 0 ∧ codesD.randomLen = 32 := by
  decide

/-! ## tlcp -/

/-- **`serverHelloMsg.unmarshal` (tlcp)**: accepted with the model's fields, or refused like the model -/
theorem C14_src_serverHello_tlcp (m : Src.tlcp.codec.serverHelloMsg) (data : List (BitVec 8)) :
    Tie.UnmarshalTlcpCodec.Agree viewT (Src.tlcp.codec.serverHelloMsg.unmarshal m data)
      (unmarshalServerHello codesT (abs data)) :=
  tie_codec_serverHello m data

/-- the receiver afterwards: untouched if the header guard refused, else `raw = data` -/
theorem C14_src_serverHello_receiver_tlcp (m m' : Src.tlcp.codec.serverHelloMsg) (data : List (BitVec 8)) (b : Bool)
    (h : Src.tlcp.codec.serverHelloMsg.unmarshal m data = .ok (m', b)) :
    (m' = m ∧ b = false ∧ Tie.UnmarshalTlcp.complete data 2#8 = false) ∨
    (m'.raw = data ∧ Tie.UnmarshalTlcp.complete data 2#8 = true) :=
  serverHello_rawT m m' data b h

/-- what the TRANSLATED decoder accepts, the model accepts, with these fields -/
theorem C14_src_accept_is_model_accept_serverHello_tlcp (m m' : Src.tlcp.codec.serverHelloMsg)
    (data : List (BitVec 8)) (h : Src.tlcp.codec.serverHelloMsg.unmarshal m data = .ok (m', true)) :
    unmarshalServerHello codesT (abs data) = .ok (viewT m') := by
  have ha := C14_src_serverHello_tlcp m data
  cases ho : unmarshalServerHello codesT (abs data) with
  | ok c =>
    rw [ho] at ha
    obtain ⟨m2, h2, hv⟩ := ha
    rw [h] at h2
    cases h2
    rw [← hv]
  | reject =>
    rw [ho] at ha
    obtain ⟨m2, h2⟩ := ha
    rw [h] at h2
    cases h2
  | panic => rw [ho] at ha; exact ha.elim

/-- what the TRANSLATED decoder refuses, the model refuses -/
theorem C14_src_refuse_is_model_refuse_serverHello_tlcp (m m' : Src.tlcp.codec.serverHelloMsg)
    (data : List (BitVec 8)) (h : Src.tlcp.codec.serverHelloMsg.unmarshal m data = .ok (m', false)) :
    unmarshalServerHello codesT (abs data) = .reject := by
  have ha := C14_src_serverHello_tlcp m data
  cases ho : unmarshalServerHello codesT (abs data) with
  | ok c =>
    rw [ho] at ha
    obtain ⟨m2, h2, hv⟩ := ha
    rw [h] at h2
    cases h2
  | reject => rfl
  | panic => rw [ho] at ha; exact ha.elim

/-- strictness (`C14_strict_serverHello_tlcp`) for the source text: whatever it accepts has the ServerHello
shape of the spec — header length exact, every length prefix exact, every extension body consumed -/
theorem C14_src_strict_serverHello_tlcp (m m' : Src.tlcp.codec.serverHelloMsg) (data : List (BitVec 8))
    (h : Src.tlcp.codec.serverHelloMsg.unmarshal m data = .ok (m', true)) :
    Spec.Codec.shape .tlcp .serverHello (abs data) = true :=
  Lemmas.CodecHelloStrict.strict_serverHello_tlcp codesT helloCodesT codes_factsT.2
    (C14_src_accept_is_model_accept_serverHello_tlcp m m' data h)

/-- round trip (`C14_roundtrip_serverHello_tlcp`) for the source text: the model encoding of every in-range
ServerHello is decoded by the translated decoder to the same fields, whatever the receiver held -/
theorem C14_src_roundtrip_serverHello_tlcp (ms : ServerHello) (hw : Spec.Codec.wfServerHello ms = true) :
    ∃ b, encServerHello codesT ms = some b ∧
      ∀ (m : Src.tlcp.codec.serverHelloMsg) (data : List (BitVec 8)), abs data = b →
        ∃ m', Src.tlcp.codec.serverHelloMsg.unmarshal m data = .ok (m', true) ∧ viewT m' = ms ∧ m'.raw = data := by
  obtain ⟨b, he, hd⟩ := Lemmas.CodecHello.rt_serverHello_tlcp codesT helloCodesT ms hw
  refine ⟨b, he, ?_⟩
  intro m data hdata
  have ha := C14_src_serverHello_tlcp m data
  rw [hdata, hd] at ha
  obtain ⟨m', h1, h2⟩ := ha
  refine ⟨m', h1, h2, ?_⟩
  rcases C14_src_serverHello_receiver_tlcp m m' data true h1 with ⟨_, hb, _⟩ | ⟨hr, _⟩
  · cases hb
  · exact hr

/-- re-encoding (`C14_reencode_serverHello_tlcp`) for the source text: what the spec's strict decoder reads
as `ms`, the translated decoder accepts with exactly the fields `ms` -/
theorem C14_src_reencode_serverHello_tlcp (m : Src.tlcp.codec.serverHelloMsg) (data : List (BitVec 8)) (h : DHdr)
    (ms : ServerHello) (hs : Spec.Codec.strictServerHello .tlcp (abs data) = some (h, ms)) :
    ∃ m', Src.tlcp.codec.serverHelloMsg.unmarshal m data = .ok (m', true) ∧ viewT m' = ms ∧
      encServerHello codesT ms = some (abs data) := by
  obtain ⟨h1, h2, _⟩ := Lemmas.CodecHelloCanon.canon_serverHello_tlcp codesT helloCodesT rfl hs
  have ha := C14_src_serverHello_tlcp m data
  rw [h2] at ha
  obtain ⟨m', e1, e2⟩ := ha
  exact ⟨m', e1, e2, h1⟩

/-! ## dtlcp -/

/-- **`serverHelloMsg.unmarshal` (dtlcp)**: accepted with the model's header fields and body fields, or
refused like the model -/
theorem C14_src_serverHello_dtlcp (m : Src.dtlcp.codec.serverHelloMsg) (data : List (BitVec 8)) :
    Tie.UnmarshalDtlcpCodec.Agree viewD (Src.dtlcp.codec.serverHelloMsg.unmarshal m data)
      (Model.CodecDtlcp.decServerHello codesD (Tie.UnmarshalDtlcpCodec.abs data)) :=
  tie_codec_serverHelloD m data

/-- the receiver afterwards: untouched if the header guard refused, else `raw = data` and the three header
fields are those of `data` -/
theorem C14_src_serverHello_receiver_dtlcp (m m' : Src.dtlcp.codec.serverHelloMsg) (data : List (BitVec 8)) (b : Bool)
    (h : Src.dtlcp.codec.serverHelloMsg.unmarshal m data = .ok (m', b)) :
    (m' = m ∧ b = false ∧ Tie.UnmarshalDtlcpCodec.completeD data 2#8 = false) ∨
    (m'.raw = data ∧ m'.messageSeq = Tie.UnmarshalDtlcp.u16At data 4 ∧
      m'.fragmentOffset = Tie.UnmarshalDtlcp.u24At data 6 ∧ m'.fragmentLength = Tie.UnmarshalDtlcp.u24At data 9 ∧
      Tie.UnmarshalDtlcpCodec.completeD data 2#8 = true) :=
  serverHello_rawD m m' data b h

theorem C14_src_accept_is_model_accept_serverHello_dtlcp (m m' : Src.dtlcp.codec.serverHelloMsg)
    (data : List (BitVec 8)) (h : Src.dtlcp.codec.serverHelloMsg.unmarshal m data = .ok (m', true)) :
    Model.CodecDtlcp.decServerHello codesD (Tie.UnmarshalDtlcpCodec.abs data) = .ok (viewD m') := by
  have ha := C14_src_serverHello_dtlcp m data
  cases ho : Model.CodecDtlcp.decServerHello codesD (Tie.UnmarshalDtlcpCodec.abs data) with
  | ok c =>
    rw [ho] at ha
    obtain ⟨m2, h2, hv⟩ := ha
    rw [h] at h2
    cases h2
    rw [← hv]
  | reject =>
    rw [ho] at ha
    obtain ⟨m2, h2⟩ := ha
    rw [h] at h2
    cases h2
  | panic => rw [ho] at ha; exact ha.elim

theorem C14_src_refuse_is_model_refuse_serverHello_dtlcp (m m' : Src.dtlcp.codec.serverHelloMsg)
    (data : List (BitVec 8)) (h : Src.dtlcp.codec.serverHelloMsg.unmarshal m data = .ok (m', false)) :
    Model.CodecDtlcp.decServerHello codesD (Tie.UnmarshalDtlcpCodec.abs data) = .reject := by
  have ha := C14_src_serverHello_dtlcp m data
  cases ho : Model.CodecDtlcp.decServerHello codesD (Tie.UnmarshalDtlcpCodec.abs data) with
  | ok c =>
    rw [ho] at ha
    obtain ⟨m2, h2, hv⟩ := ha
    rw [h] at h2
    cases h2
  | reject => rfl
  | panic => rw [ho] at ha; exact ha.elim

theorem readyD_serverHello : Lemmas.CodecDtlcp.Ready codesD codesD.tServerHello := ⟨rfl, codes_factsD.2⟩

/-- strictness (`C14_strict_serverHello_dtlcp`) for the source text -/
theorem C14_src_strict_serverHello_dtlcp (m m' : Src.dtlcp.codec.serverHelloMsg) (data : List (BitVec 8))
    (h : Src.dtlcp.codec.serverHelloMsg.unmarshal m data = .ok (m', true)) :
    Spec.Codec.shape .dtlcp .serverHello (Tie.UnmarshalDtlcpCodec.abs data) = true :=
  Lemmas.CodecHelloStrict.strict_serverHello_dtlcp codesD helloCodesD readyD_serverHello
    (C14_src_accept_is_model_accept_serverHello_dtlcp m m' data h)

/-- round trip (`C14_roundtrip_serverHello_dtlcp`) for the source text -/
theorem C14_src_roundtrip_serverHello_dtlcp (h : DHdr) (ms : ServerHello) (hw : Spec.Codec.wfServerHello ms = true)
    (hh : ∀ body, encServerHelloBody codesD ms = some body → Spec.Codec.wfDHdr h body.length = true) :
    ∃ b body, encServerHelloBody codesD ms = some body ∧ Model.CodecDtlcp.encServerHello codesD h ms = some b ∧
      ∀ (m : Src.dtlcp.codec.serverHelloMsg) (data : List (BitVec 8)), Tie.UnmarshalDtlcpCodec.abs data = b →
        ∃ m', Src.dtlcp.codec.serverHelloMsg.unmarshal m data = .ok (m', true) ∧
          viewD m' = (⟨h.seq, 0, body.length⟩, ms) ∧ m'.raw = data := by
  obtain ⟨b, body, h1, h2, h3⟩ :=
    Lemmas.CodecHello.rt_serverHello_dtlcp codesD helloCodesD readyD_serverHello h ms hw hh
  refine ⟨b, body, h1, h2, ?_⟩
  intro m data hdata
  have ha := C14_src_serverHello_dtlcp m data
  rw [hdata, h3] at ha
  obtain ⟨m', e1, e2⟩ := ha
  refine ⟨m', e1, e2, ?_⟩
  rcases C14_src_serverHello_receiver_dtlcp m m' data true e1 with ⟨_, hb, _⟩ | ⟨hr, _⟩
  · cases hb
  · exact hr

/-- re-encoding (`C14_reencode_serverHello_dtlcp`) for the source text -/
theorem C14_src_reencode_serverHello_dtlcp (m : Src.dtlcp.codec.serverHelloMsg) (data : List (BitVec 8)) (h : DHdr)
    (ms : ServerHello) (hs : Spec.Codec.strictServerHello .dtlcp (Tie.UnmarshalDtlcpCodec.abs data) = some (h, ms)) :
    ∃ m', Src.dtlcp.codec.serverHelloMsg.unmarshal m data = .ok (m', true) ∧ viewD m' = (h, ms) ∧
      Model.CodecDtlcp.encServerHello codesD h ms = some (Tie.UnmarshalDtlcpCodec.abs data) := by
  obtain ⟨h1, h2, _⟩ :=
    Lemmas.CodecHelloCanon.canon_serverHello_dtlcp codesD helloCodesD readyD_serverHello rfl hs
  have ha := C14_src_serverHello_dtlcp m data
  rw [h2] at ha
  obtain ⟨m', e1, e2⟩ := ha
  exact ⟨m', e1, e2, h1⟩

/-! ## non-vacuity: a ServerHello with status_request, ALPN, server_name and an unknown extension, through the
translated decoder and through the model; and a refused one (server_name with a body) -/

def shFullT : List (BitVec 8) :=
  [2, 0, 0, 69, 1, 1] ++ List.replicate 32 7 ++ [0, 0xe0, 0x13, 0, 0, 29,
    0, 5, 0, 7, 1, 0, 0, 3, 0xaa, 0xbb, 0xcc, 0, 16, 0, 5, 0, 3, 2, 0x68, 0x32, 0, 0, 0, 0, 0xff, 1, 0, 1, 9]

def shFullD : List (BitVec 8) :=
  [2, 0, 0, 69, 0, 1, 0, 0, 0, 0, 0, 69, 1, 1] ++ List.replicate 32 7 ++ [0, 0xe0, 0x13, 0, 0, 29,
    0, 5, 0, 7, 1, 0, 0, 3, 0xaa, 0xbb, 0xcc, 0, 16, 0, 5, 0, 3, 2, 0x68, 0x32, 0, 0, 0, 0, 0xff, 1, 0, 1, 9]

def shBadT : List (BitVec 8) :=
  [2, 0, 0, 45, 1, 1] ++ List.replicate 32 7 ++ [0, 0xe0, 0x13, 0, 0, 5, 0, 0, 0, 1, 9]

/-- accepted with exactly this model value -/
def acceptsT (x : Except String (Src.tlcp.codec.serverHelloMsg × Bool)) (v : ServerHello) : Bool :=
  match x with
  | .ok (m, true) => decide (viewT m = v)
  | _ => false

def acceptsD (x : Except String (Src.dtlcp.codec.serverHelloMsg × Bool)) (v : DHdr × ServerHello) : Bool :=
  match x with
  | .ok (m, true) => decide (viewD m = v)
  | _ => false

def refuses {M : Type} (x : Except String (M × Bool)) : Bool :=
  match x with
  | .ok (_, false) => true
  | _ => false

example : acceptsT (Src.tlcp.codec.serverHelloMsg.unmarshal {} shFullT)
    ⟨(1, 1), List.replicate 32 7, [], (0xe0, 0x13), 0, true, [0xaa, 0xbb, 0xcc], [0x68, 0x32], true⟩ = true := by decide
example : unmarshalServerHello codesT (abs shFullT) =
    .ok ⟨(1, 1), List.replicate 32 7, [], (0xe0, 0x13), 0, true, [0xaa, 0xbb, 0xcc], [0x68, 0x32], true⟩ := by decide
example : acceptsD (Src.dtlcp.codec.serverHelloMsg.unmarshal {} shFullD)
    (⟨(0, 1), 0, 69⟩, ⟨(1, 1), List.replicate 32 7, [], (0xe0, 0x13), 0, true, [0xaa, 0xbb, 0xcc], [0x68, 0x32], true⟩)
    = true := by decide
example : refuses (Src.tlcp.codec.serverHelloMsg.unmarshal {} shBadT) = true := by decide
example : unmarshalServerHello codesT (abs shBadT) = .reject := by decide

end Gotlcp.Props.C14

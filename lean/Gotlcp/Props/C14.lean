import Gotlcp.Lemmas.Codec
import Gotlcp.Model.CodecParams
namespace Gotlcp.Props.C14
theorem C14_facts : Gotlcp.Facts.missing = [] := by decide
end Gotlcp.Props.C14

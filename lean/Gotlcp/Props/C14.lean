/-
C14 — handshake message encoding and decoding are inverse, strict and total.

Property theorems only (helpers: `Gotlcp.Lemmas.Codec*`).  Every statement quantifies over all
field values / all byte strings.  The models (`Gotlcp.Model.Codec`, `…CodecDtlcp`) are
instantiated with the regenerated source facts (`Model.Codec.codesT`, `codesD`); the spec
(`Gotlcp.Spec.CodecSpec`: `wf…` ranges, `shape`, strict decoders) is written from the standard.

Per message kind K and stack S:
  C14_roundtrip_K_S   fields within the standard's ranges encode, the library's decoder returns
                      them, and the spec's strict decoder accepts the encoding with the same
                      fields (the encoding is the canonical one);
  C14_total_K_S       the decoder returns accept/reject for every byte string, never panics
                      (hand-indexed Go code is modelled with checked accessors);
  C14_strict_K_S      an accepted byte string has the spec's `shape`: header length (DTLCP: and
                      fragment fields) agree with the data, the body is exactly the grammar;
  C14_reencode_K_S    whatever the spec's strict decoder accepts, the library decodes to the same
                      fields, those fields are within range and re-encode to the same bytes.
Emission ("every message the library emits decodes"): C14_emitted_* for the constructors' shape,
and for the ClientHello the constructor itself (`Model.Make.makeClientHello`, hostnameInSNI
included): C14_sni_no_trailing_dot (every ServerName string), C14_makeClientHello_emitted_S,
C14_makeClientHello_decodes_S.
-/
import Gotlcp.Lemmas.Codec
import Gotlcp.Lemmas.CodecDtlcp
import Gotlcp.Lemmas.CodecHello
import Gotlcp.Lemmas.CodecHelloStrict
import Gotlcp.Lemmas.CodecHelloCanon
import Gotlcp.Lemmas.CodecHelloAccept
import Gotlcp.Lemmas.CodecEmitted
import Gotlcp.Lemmas.CodecMake
import Gotlcp.Model.CodecParams
import Gotlcp.Tie.UnmarshalTlcpCodec
import Gotlcp.Tie.UnmarshalDtlcpCodec

set_option linter.unusedSimpArgs false
set_option linter.unusedVariables false

namespace Gotlcp.Props.C14
open Gotlcp Gotlcp.Wire Gotlcp.Wire.Msg
open Gotlcp.Model.Codec
open Gotlcp.Lemmas.Codec
open Gotlcp.Spec.Codec (Stack Kind)

/-- the regenerated facts every theorem below relies on -/
theorem C14_facts :
    Facts.missing = [] ∧
    -- message type codes are the standard's
    [codesT.tClientHello, codesT.tServerHello, codesT.tCertificate, codesT.tServerKeyExchange,
      codesT.tCertificateRequest, codesT.tServerHelloDone, codesT.tCertificateVerify,
      codesT.tClientKeyExchange, codesT.tFinished] = [1, 2, 11, 12, 13, 14, 15, 16, 20] ∧
    [codesD.tClientHello, codesD.tServerHello, codesD.tHelloVerifyRequest, codesD.tCertificate,
      codesD.tServerKeyExchange, codesD.tCertificateRequest, codesD.tServerHelloDone,
      codesD.tCertificateVerify, codesD.tClientKeyExchange, codesD.tFinished] =
      [1, 2, 3, 11, 12, 13, 14, 15, 16, 20] ∧
    -- header lengths and the literals derived from them in the hand-indexed code
    codesT.hl = 4 ∧ codesD.hl = 12 ∧
    Facts.tlcp.codecSkips = [codesT.hl, codesT.hl, codesT.hl, 1] ∧
    [Facts.tlcp.codecMinLen_certificate, Facts.tlcp.codecMinLen_serverKeyExchange,
      Facts.tlcp.codecMinLen_certificateRequest, Facts.tlcp.codecMinLen_serverHelloDone,
      Facts.tlcp.codecMinLen_clientKeyExchange] = [codesT.hl + 3, codesT.hl, codesT.hl + 1, codesT.hl, codesT.hl] ∧
    [Facts.dtlcp.codecMinLen_certificate, Facts.dtlcp.codecMinLen_serverKeyExchange,
      Facts.dtlcp.codecMinLen_certificateRequest, Facts.dtlcp.codecMinLen_serverHelloDone,
      Facts.dtlcp.codecMinLen_clientKeyExchange] = [codesD.hl + 3, codesD.hl, codesD.hl + 1, codesD.hl, codesD.hl] ∧
    [Facts.tlcp.codecMinLen_certificate_op, Facts.tlcp.codecMinLen_serverKeyExchange_op,
      Facts.tlcp.codecMinLen_certificateRequest_op, Facts.tlcp.codecMinLen_serverHelloDone_op,
      Facts.tlcp.codecMinLen_clientKeyExchange_op] = ["<", "<", "<", "==", "<"] ∧
    [Facts.dtlcp.codecMinLen_certificate_op, Facts.dtlcp.codecMinLen_serverKeyExchange_op,
      Facts.dtlcp.codecMinLen_certificateRequest_op, Facts.dtlcp.codecMinLen_serverHelloDone_op,
      Facts.dtlcp.codecMinLen_clientKeyExchange_op] = ["<", "<", "<", "<", "<"] ∧
    -- hello constants
    Facts.tlcp.codecRandomLens = [32, 32, 32, 32] ∧ Facts.dtlcp.codecRandomLens = [32, 32, 32, 32] ∧
    codesT.hashLen = 32 ∧ codesD.hashLen = 32 ∧
    [codesT.extServerName, codesT.extTrustedCAKeys, codesT.extStatusRequest, codesT.extSupportedCurves,
      codesT.extSignatureAlgorithms, codesT.extALPN, codesT.extClientID] = [0, 3, 5, 10, 13, 16, 66] ∧
    [codesD.extServerName, codesD.extTrustedCAKeys, codesD.extStatusRequest, codesD.extSupportedCurves,
      codesD.extSignatureAlgorithms, codesD.extALPN, codesD.extClientID] = [0, 3, 5, 10, 13, 16, 66] ∧
    Facts.tlcp.extensionSupportedGroups = Facts.tlcp.extensionSupportedCurves ∧
    Facts.tlcp.extensionSignatureAlgorithm = Facts.tlcp.extensionSignatureAlgorithms ∧
    Facts.dtlcp.extensionSupportedGroups = Facts.dtlcp.extensionSupportedCurves ∧
    Facts.dtlcp.extensionSignatureAlgorithm = Facts.dtlcp.extensionSignatureAlgorithms ∧
    [codesT.taPreAgreed, codesT.taX509Name, codesT.taKeyHash, codesT.taCertHash] = [0, 2, 4, 5] ∧
    [codesD.taPreAgreed, codesD.taX509Name, codesD.taKeyHash, codesD.taCertHash] = [0, 2, 4, 5] ∧
    -- curve / signature-algorithm lists are not re-made inside the item loop (F28)
    codesT.curvesMode = 0 ∧ codesT.sigAlgsMode = 0 ∧ codesD.curvesMode ≤ 1 ∧ codesD.sigAlgsMode ≤ 1 ∧
    -- every unmarshal starts with the complete-message guard (F18a, F18b)
    (∀ t ∈ [1, 2, 11, 12, 13, 14, 15, 16, 20], codesT.complete.contains t = true) ∧
    (∀ t ∈ [1, 2, 3, 11, 12, 13, 14, 15, 16, 20], codesD.complete.contains t = true) ∧
    Facts.tlcp.codecHasCompleteHelper = true ∧ Facts.dtlcp.codecHasCompleteHelper = true := by
  decide

/-! ## TLCP -/

/-! ### Finished -/

theorem C14_roundtrip_finished_tlcp (m : Blob) (hw : Spec.Codec.wfBlob .finished m = true) :
    ∃ b, encFinished codesT m = some b ∧ unmarshalFinished codesT b = .ok m ∧
      Spec.Codec.strictBlob .tlcp .finished b = some (zeroH, m) := by
  have hl : m.data.length < 16777216 := by
    have : m.data.length = 12 := by simpa [Spec.Codec.wfBlob] using hw
    omega
  obtain ⟨h1, h2⟩ := rt_finished codesT m hl
  exact ⟨_, h1, by rw [unmarshalFinished, guardT_pass _ _ hl]; exact h2, complete_finished codesT rfl m hw⟩

example : Spec.Codec.wfBlob .finished ⟨[1, 2, 3, 4, 5, 6, 7, 8, 9, 10, 11, 12]⟩ = true := by decide

theorem C14_total_finished_tlcp (b : Bytes) : unmarshalFinished codesT b ≠ .panic :=
  guardT_ne_panic _ _ _ (total_finished b)

theorem C14_strict_finished_tlcp (b : Bytes) (m : Blob) (h : unmarshalFinished codesT b = .ok m) :
    Spec.Codec.shape .tlcp .finished b = true :=
  strict_finished (framed_of_guardT (by decide) h).1

theorem C14_reencode_finished_tlcp (b : Bytes) (h : DHdr) (m : Blob)
    (hs : Spec.Codec.strictBlob .tlcp .finished b = some (h, m)) :
    encFinished codesT m = some b ∧ unmarshalFinished codesT b = .ok m ∧ Spec.Codec.wfBlob .finished m = true := by
  obtain ⟨h1, h2, h3⟩ := canon_finished codesT rfl hs
  obtain ⟨hd, body, hsh⟩ := strictBlob_header hs
  exact ⟨h1, by rw [unmarshalFinished, guardT_of_strictHeader codesT (t := codesT.tFinished) rfl hsh]; exact h2, h3⟩

/-! ### ServerHelloDone -/

theorem C14_roundtrip_serverHelloDone_tlcp :
    ∃ b, encServerHelloDone codesT = some b ∧ unmarshalServerHelloDone codesT b = .ok () ∧
      Spec.Codec.strictServerHelloDone .tlcp b = some (zeroH, ()) := by
  obtain ⟨h1, h2⟩ := rt_serverHelloDone codesT
  refine ⟨_, h1, ?_, complete_serverHelloDone codesT rfl⟩
  have := guardT_pass codesT codesT.tServerHelloDone (body := []) (by simp) (decServerHelloDone [u8 codesT.tServerHelloDone, 0, 0, 0])
  rw [unmarshalServerHelloDone]
  exact this.trans h2

theorem C14_total_serverHelloDone_tlcp (b : Bytes) : unmarshalServerHelloDone codesT b ≠ .panic :=
  guardT_ne_panic _ _ _ (total_serverHelloDone b)

theorem C14_strict_serverHelloDone_tlcp (b : Bytes) (h : unmarshalServerHelloDone codesT b = .ok ()) :
    Spec.Codec.shape .tlcp .serverHelloDone b = true := by
  obtain ⟨hk, hf⟩ := framed_of_guardT (by decide) h
  exact strict_serverHelloDone hk hf

theorem C14_reencode_serverHelloDone_tlcp (b : Bytes) (h : DHdr)
    (hs : Spec.Codec.strictServerHelloDone .tlcp b = some (h, ())) :
    encServerHelloDone codesT = some b ∧ unmarshalServerHelloDone codesT b = .ok () := by
  obtain ⟨h1, h2⟩ := canon_serverHelloDone codesT rfl hs
  obtain ⟨hd, body, hsh⟩ := strictServerHelloDone_header hs
  exact ⟨h1, by rw [unmarshalServerHelloDone, guardT_of_strictHeader codesT (t := codesT.tServerHelloDone) rfl hsh]; exact h2⟩

/-! ### CertificateVerify -/

theorem C14_roundtrip_certificateVerify_tlcp (m : Blob) (hw : Spec.Codec.wfBlob .certificateVerify m = true) :
    ∃ b, encCertificateVerify codesT m = some b ∧ unmarshalCertificateVerify codesT b = .ok m ∧
      Spec.Codec.strictBlob .tlcp .certificateVerify b = some (zeroH, m) := by
  have hl : m.data.length < 65536 := by simpa [Spec.Codec.wfBlob] using hw
  obtain ⟨h1, h2⟩ := rt_certificateVerify codesT m hl
  have hc := complete_certificateVerify codesT rfl m hw
  obtain ⟨hd, body, hsh⟩ := strictBlob_header hc
  exact ⟨_, h1, by rw [unmarshalCertificateVerify, guardT_of_strictHeader codesT (t := codesT.tCertificateVerify) rfl hsh]; exact h2, hc⟩

example : Spec.Codec.wfBlob .certificateVerify ⟨[0x30, 0x44, 1, 2, 3]⟩ = true := by decide

theorem C14_total_certificateVerify_tlcp (b : Bytes) : unmarshalCertificateVerify codesT b ≠ .panic :=
  guardT_ne_panic _ _ _ (total_certificateVerify b)

theorem C14_strict_certificateVerify_tlcp (b : Bytes) (m : Blob) (h : unmarshalCertificateVerify codesT b = .ok m) :
    Spec.Codec.shape .tlcp .certificateVerify b = true := by
  obtain ⟨hk, hf⟩ := framed_of_guardT (by decide) h
  exact strict_certificateVerify hk hf

theorem C14_reencode_certificateVerify_tlcp (b : Bytes) (h : DHdr) (m : Blob)
    (hs : Spec.Codec.strictBlob .tlcp .certificateVerify b = some (h, m)) :
    encCertificateVerify codesT m = some b ∧ unmarshalCertificateVerify codesT b = .ok m ∧
      Spec.Codec.wfBlob .certificateVerify m = true := by
  obtain ⟨h1, h2, h3⟩ := canon_certificateVerify codesT rfl hs
  obtain ⟨hd, body, hsh⟩ := strictBlob_header hs
  exact ⟨h1, by rw [unmarshalCertificateVerify, guardT_of_strictHeader codesT (t := codesT.tCertificateVerify) rfl hsh]; exact h2, h3⟩

/-! ### ClientKeyExchange, ServerKeyExchange (opaque bodies) -/

theorem C14_roundtrip_clientKeyExchange_tlcp (m : Blob) (hw : Spec.Codec.wfBlob .clientKeyExchange m = true) :
    ∃ b, encKeyMsg codesT.tClientKeyExchange m = some b ∧ unmarshalClientKeyExchange codesT b = .ok m ∧
      Spec.Codec.strictBlob .tlcp .clientKeyExchange b = some (zeroH, m) := by
  have hl : m.data.length < 16777216 := by simpa [Spec.Codec.wfBlob] using hw
  obtain ⟨h1, h2⟩ := rt_clientKeyExchange codesT.tClientKeyExchange m hl
  exact ⟨_, h1, by rw [unmarshalClientKeyExchange, guardT_pass _ _ hl]; exact h2,
    strictBlob_opaque_mk (Or.inl rfl) m hl⟩

example : Spec.Codec.wfBlob .clientKeyExchange ⟨[0, 3, 0x30, 1, 2]⟩ = true := by decide

theorem C14_total_clientKeyExchange_tlcp (b : Bytes) : unmarshalClientKeyExchange codesT b ≠ .panic :=
  guardT_ne_panic _ _ _ (total_clientKeyExchange b)

theorem C14_strict_clientKeyExchange_tlcp (b : Bytes) (m : Blob) (h : unmarshalClientKeyExchange codesT b = .ok m) :
    Spec.Codec.shape .tlcp .clientKeyExchange b = true :=
  strict_clientKeyExchange (framed_of_guardT (by decide) h).1

theorem C14_reencode_clientKeyExchange_tlcp (b : Bytes) (h : DHdr) (m : Blob)
    (hs : Spec.Codec.strictBlob .tlcp .clientKeyExchange b = some (h, m)) :
    encKeyMsg codesT.tClientKeyExchange m = some b ∧ unmarshalClientKeyExchange codesT b = .ok m ∧
      Spec.Codec.wfBlob .clientKeyExchange m = true := by
  obtain ⟨h1, h2, h3⟩ := canon_clientKeyExchange codesT rfl hs
  obtain ⟨hd, body, hsh⟩ := strictBlob_header hs
  exact ⟨h1, by rw [unmarshalClientKeyExchange, guardT_of_strictHeader codesT (t := codesT.tClientKeyExchange) rfl hsh]; exact h2, h3⟩

theorem C14_roundtrip_serverKeyExchange_tlcp (m : Blob) (hw : Spec.Codec.wfBlob .serverKeyExchange m = true) :
    ∃ b, encKeyMsg codesT.tServerKeyExchange m = some b ∧ unmarshalServerKeyExchange codesT b = .ok m ∧
      Spec.Codec.strictBlob .tlcp .serverKeyExchange b = some (zeroH, m) := by
  have hl : m.data.length < 16777216 := by simpa [Spec.Codec.wfBlob] using hw
  exact ⟨_, rfl, by rw [unmarshalServerKeyExchange, guardT_pass _ _ hl]; exact rt_serverKeyExchange _ m,
    strictBlob_opaque_mk (Or.inr rfl) m hl⟩

example : Spec.Codec.wfBlob .serverKeyExchange ⟨[0x30, 0x45, 2, 0x20]⟩ = true := by decide

theorem C14_total_serverKeyExchange_tlcp (b : Bytes) : unmarshalServerKeyExchange codesT b ≠ .panic :=
  guardT_ne_panic _ _ _ (total_serverKeyExchange b)

theorem C14_strict_serverKeyExchange_tlcp (b : Bytes) (m : Blob) (h : unmarshalServerKeyExchange codesT b = .ok m) :
    Spec.Codec.shape .tlcp .serverKeyExchange b = true :=
  strict_serverKeyExchange (framed_of_guardT (by decide) h).2

theorem C14_reencode_serverKeyExchange_tlcp (b : Bytes) (h : DHdr) (m : Blob)
    (hs : Spec.Codec.strictBlob .tlcp .serverKeyExchange b = some (h, m)) :
    encKeyMsg codesT.tServerKeyExchange m = some b ∧ unmarshalServerKeyExchange codesT b = .ok m ∧
      Spec.Codec.wfBlob .serverKeyExchange m = true := by
  obtain ⟨h1, h2, h3⟩ := canon_serverKeyExchange codesT rfl hs
  obtain ⟨hd, body, hsh⟩ := strictBlob_header hs
  exact ⟨h1, by rw [unmarshalServerKeyExchange, guardT_of_strictHeader codesT (t := codesT.tServerKeyExchange) rfl hsh]; exact h2, h3⟩

/-! ### Certificate (hand-indexed) -/

theorem C14_roundtrip_certificate_tlcp (m : Certificate) (hw : Spec.Codec.wfCertificate m = true) :
    ∃ b, encCertificate codesT m = some b ∧ unmarshalCertificate codesT b = .ok m ∧
      Spec.Codec.strictCertificate .tlcp b = some (zeroH, m) := by
  obtain ⟨b, h1, h2, hok, hl⟩ := complete_certificate codesT rfl m hw
  obtain ⟨hd, body, hsh⟩ := strictCertificate_header h2
  refine ⟨b, h1, ?_, h2⟩
  rw [unmarshalCertificate, guardT_of_strictHeader codesT (t := codesT.tCertificate) rfl hsh]
  simp only [encCertificate, Option.some.injEq] at h1
  subst h1
  have := rt_certificateAt (u8 codesT.tCertificate :: be24 (encCertificateBody m).length) m hok hl
  simpa [decCertificate, be24, show codesT.hl = 4 from rfl] using this

example : Spec.Codec.wfCertificate ⟨[[0x30, 0x82, 1, 2], [0x30, 3]]⟩ = true := by decide

theorem C14_total_certificate_tlcp (b : Bytes) : unmarshalCertificate codesT b ≠ .panic :=
  guardT_ne_panic _ _ _ (total_certificateAt _ b)

theorem C14_strict_certificate_tlcp (b : Bytes) (m : Certificate) (h : unmarshalCertificate codesT b = .ok m) :
    Spec.Codec.shape .tlcp .certificate b = true := by
  obtain ⟨hk, hf⟩ := framed_of_guardT (by decide) h
  exact strict_certificate hk hf

theorem C14_reencode_certificate_tlcp (b : Bytes) (h : DHdr) (m : Certificate)
    (hs : Spec.Codec.strictCertificate .tlcp b = some (h, m)) :
    encCertificate codesT m = some b ∧ unmarshalCertificate codesT b = .ok m ∧ Spec.Codec.wfCertificate m = true := by
  obtain ⟨h1, h2, h3⟩ := canon_certificate codesT rfl rfl hs
  obtain ⟨hd, body, hsh⟩ := strictCertificate_header hs
  exact ⟨h1, by rw [unmarshalCertificate, guardT_of_strictHeader codesT (t := codesT.tCertificate) rfl hsh]; exact h2, h3⟩

/-! ### CertificateRequest (hand-indexed) -/

theorem C14_roundtrip_certificateRequest_tlcp (m : CertificateRequest) (hw : Spec.Codec.wfCertificateRequest m = true) :
    ∃ b, encCertificateRequest codesT m = some b ∧ unmarshalCertificateRequest codesT b = .ok m ∧
      Spec.Codec.strictCertificateRequest .tlcp b = some (zeroH, m) := by
  obtain ⟨b, h1, h2⟩ := complete_certificateRequest codesT rfl m hw
  obtain ⟨h3, h4, _⟩ := canon_certificateRequest codesT rfl rfl h2
  obtain ⟨hd, body, hsh⟩ := strictCertificateRequest_header h2
  exact ⟨b, h1, by rw [unmarshalCertificateRequest, guardT_of_strictHeader codesT (t := codesT.tCertificateRequest) rfl hsh]; exact h4, h2⟩

example : Spec.Codec.wfCertificateRequest ⟨[1, 64], [[0x30, 0x10, 1], [0x30, 2]]⟩ = true := by decide

theorem C14_total_certificateRequest_tlcp (b : Bytes) : unmarshalCertificateRequest codesT b ≠ .panic :=
  guardT_ne_panic _ _ _ (total_certificateRequestAt _ (by decide) b)

theorem C14_strict_certificateRequest_tlcp (b : Bytes) (m : CertificateRequest)
    (h : unmarshalCertificateRequest codesT b = .ok m) :
    Spec.Codec.shape .tlcp .certificateRequest b = true := by
  obtain ⟨hk, body, hb, hl⟩ := guardT_ok (by decide) h
  subst hb
  apply shape_tlcp_mk _ _ hl
  exact decCertificateRequestAt_shape .tlcp (u8 codesT.tCertificateRequest :: be24 body.length) body hk

theorem C14_reencode_certificateRequest_tlcp (b : Bytes) (h : DHdr) (m : CertificateRequest)
    (hs : Spec.Codec.strictCertificateRequest .tlcp b = some (h, m)) :
    encCertificateRequest codesT m = some b ∧ unmarshalCertificateRequest codesT b = .ok m ∧
      Spec.Codec.wfCertificateRequest m = true := by
  obtain ⟨h1, h2, h3⟩ := canon_certificateRequest codesT rfl rfl hs
  obtain ⟨hd, body, hsh⟩ := strictCertificateRequest_header hs
  exact ⟨h1, by rw [unmarshalCertificateRequest, guardT_of_strictHeader codesT (t := codesT.tCertificateRequest) rfl hsh]; exact h2, h3⟩

/-! ## DTLCP (12-byte header; a message object is header fields × body fields)

`wfDHdr h n`: the object describes a complete message (`fragment_offset = 0`, `fragment_length`
0 or the body length `n`); the decoded header then reads `⟨seq, 0, n⟩`. -/

section Dtlcp
open Gotlcp.Model.CodecDtlcp Gotlcp.Lemmas.CodecDtlcp

theorem ready (t : Nat) (h : codesD.complete.contains t = true) : Ready codesD t := ⟨rfl, h⟩

/-! ### Finished -/

theorem C14_roundtrip_finished_dtlcp (h : DHdr) (m : Blob) (hm : Spec.Codec.wfBlob .finished m = true)
    (hw : Spec.Codec.wfDHdr h m.data.length = true) :
    ∃ b, encFinished codesD h m = some b ∧ decFinished codesD b = .ok (⟨h.seq, 0, m.data.length⟩, m) ∧
      Spec.Codec.strictBlob .dtlcp .finished b = some (⟨h.seq, 0, m.data.length⟩, m) := by
  have hlen : m.data.length = 12 := by simpa [Spec.Codec.wfBlob] using hm
  obtain ⟨e1, e2⟩ := Lemmas.CodecDtlcp.rt_finished codesD (ready _ (by decide)) h m hw (by rw [hlen]; decide)
  exact ⟨_, e1, e2, Lemmas.CodecDtlcp.complete_finished codesD rfl h.seq m hm⟩

example : Spec.Codec.wfBlob .finished ⟨[1, 2, 3, 4, 5, 6, 7, 8, 9, 10, 11, 12]⟩ = true ∧
    Spec.Codec.wfDHdr ⟨(0, 7), 0, 0⟩ 12 = true := by decide

theorem C14_total_finished_dtlcp (b : Bytes) : decFinished codesD b ≠ .panic :=
  Lemmas.CodecDtlcp.total_finished codesD (ready _ (by decide)) b

theorem C14_strict_finished_dtlcp (b : Bytes) (x : DHdr × Blob) (h : decFinished codesD b = .ok x) :
    Spec.Codec.shape .dtlcp .finished b = true :=
  Lemmas.CodecDtlcp.strict_finished codesD (ready _ (by decide)) h

theorem C14_reencode_finished_dtlcp (b : Bytes) (h : DHdr) (m : Blob)
    (hs : Spec.Codec.strictBlob .dtlcp .finished b = some (h, m)) :
    encFinished codesD h m = some b ∧ decFinished codesD b = .ok (h, m) ∧ Spec.Codec.wfBlob .finished m = true ∧
      Spec.Codec.wfDHdr h m.data.length = true :=
  Lemmas.CodecDtlcp.canon_finished codesD (ready _ (by decide)) rfl (by decide) hs

/-! ### ServerHelloDone -/

theorem C14_roundtrip_serverHelloDone_dtlcp (h : DHdr) :
    ∃ b, encServerHelloDone codesD h = some b ∧ decServerHelloDone codesD b = .ok (⟨h.seq, 0, 0⟩, ()) ∧
      Spec.Codec.strictServerHelloDone .dtlcp b = some (⟨h.seq, 0, 0⟩, ()) :=
  ⟨_, encServerHelloDone_eq codesD h, Lemmas.CodecDtlcp.rt_serverHelloDone codesD (ready _ (by decide)) h,
    Lemmas.CodecDtlcp.complete_serverHelloDone codesD rfl h.seq⟩

theorem C14_total_serverHelloDone_dtlcp (b : Bytes) : decServerHelloDone codesD b ≠ .panic :=
  Lemmas.CodecDtlcp.total_serverHelloDone codesD (ready _ (by decide)) b

theorem C14_strict_serverHelloDone_dtlcp (b : Bytes) (x : DHdr × Unit) (h : decServerHelloDone codesD b = .ok x) :
    Spec.Codec.shape .dtlcp .serverHelloDone b = true :=
  Lemmas.CodecDtlcp.strict_serverHelloDone codesD (ready _ (by decide)) h

theorem C14_reencode_serverHelloDone_dtlcp (b : Bytes) (h : DHdr)
    (hs : Spec.Codec.strictServerHelloDone .dtlcp b = some (h, ())) :
    encServerHelloDone codesD h = some b ∧ decServerHelloDone codesD b = .ok (h, ()) ∧
      Spec.Codec.wfDHdr h 0 = true :=
  Lemmas.CodecDtlcp.canon_serverHelloDone codesD (ready _ (by decide)) rfl hs

/-! ### CertificateVerify -/

theorem C14_roundtrip_certificateVerify_dtlcp (h : DHdr) (m : Blob)
    (hm : Spec.Codec.wfBlob .certificateVerify m = true) (hw : Spec.Codec.wfDHdr h (2 + m.data.length) = true) :
    ∃ b, encCertificateVerify codesD h m = some b ∧
      decCertificateVerify codesD b = .ok (⟨h.seq, 0, 2 + m.data.length⟩, m) ∧
      Spec.Codec.strictBlob .dtlcp .certificateVerify b = some (⟨h.seq, 0, 2 + m.data.length⟩, m) := by
  have hl : m.data.length < 65536 := by simpa [Spec.Codec.wfBlob] using hm
  obtain ⟨e1, e2⟩ := Lemmas.CodecDtlcp.rt_certificateVerify codesD (ready _ (by decide)) h m hl hw
  exact ⟨_, e1, e2, Lemmas.CodecDtlcp.complete_certificateVerify codesD rfl h.seq m hm⟩

theorem C14_total_certificateVerify_dtlcp (b : Bytes) : decCertificateVerify codesD b ≠ .panic :=
  Lemmas.CodecDtlcp.total_certificateVerify codesD (ready _ (by decide)) b

theorem C14_strict_certificateVerify_dtlcp (b : Bytes) (x : DHdr × Blob) (h : decCertificateVerify codesD b = .ok x) :
    Spec.Codec.shape .dtlcp .certificateVerify b = true :=
  Lemmas.CodecDtlcp.strict_certificateVerify codesD (ready _ (by decide)) h

theorem C14_reencode_certificateVerify_dtlcp (b : Bytes) (h : DHdr) (m : Blob)
    (hs : Spec.Codec.strictBlob .dtlcp .certificateVerify b = some (h, m)) :
    encCertificateVerify codesD h m = some b ∧ decCertificateVerify codesD b = .ok (h, m) ∧
      Spec.Codec.wfBlob .certificateVerify m = true ∧ Spec.Codec.wfDHdr h (2 + m.data.length) = true :=
  Lemmas.CodecDtlcp.canon_certificateVerify codesD (ready _ (by decide)) rfl hs

/-! ### ClientKeyExchange, ServerKeyExchange -/

theorem C14_roundtrip_clientKeyExchange_dtlcp (h : DHdr) (m : Blob)
    (hw : Spec.Codec.wfDHdr h m.data.length = true) :
    ∃ b, encKeyMsg codesD.tClientKeyExchange h m = some b ∧
      decClientKeyExchange codesD b = .ok (⟨h.seq, 0, m.data.length⟩, m) ∧
      Spec.Codec.strictBlob .dtlcp .clientKeyExchange b = some (⟨h.seq, 0, m.data.length⟩, m) := by
  obtain ⟨e1, e2⟩ := Lemmas.CodecDtlcp.rt_clientKeyExchange codesD (ready _ (by decide)) h m hw
  exact ⟨_, e1, e2, Lemmas.CodecDtlcp.strictBlob_opaque_mk (Or.inl rfl) h.seq m (wfDHdr_lt hw)⟩

theorem C14_total_clientKeyExchange_dtlcp (b : Bytes) : decClientKeyExchange codesD b ≠ .panic :=
  Lemmas.CodecDtlcp.total_clientKeyExchange codesD (ready _ (by decide)) b

theorem C14_strict_clientKeyExchange_dtlcp (b : Bytes) (x : DHdr × Blob) (h : decClientKeyExchange codesD b = .ok x) :
    Spec.Codec.shape .dtlcp .clientKeyExchange b = true :=
  strict_opaque codesD (ready _ (by decide)) (Or.inr (Or.inl rfl)) h

theorem C14_reencode_clientKeyExchange_dtlcp (b : Bytes) (h : DHdr) (m : Blob)
    (hs : Spec.Codec.strictBlob .dtlcp .clientKeyExchange b = some (h, m)) :
    encKeyMsg codesD.tClientKeyExchange h m = some b ∧ decClientKeyExchange codesD b = .ok (h, m) ∧
      Spec.Codec.wfBlob .clientKeyExchange m = true ∧ Spec.Codec.wfDHdr h m.data.length = true :=
  Lemmas.CodecDtlcp.canon_clientKeyExchange codesD (ready _ (by decide)) rfl hs

theorem C14_roundtrip_serverKeyExchange_dtlcp (h : DHdr) (m : Blob)
    (hw : Spec.Codec.wfDHdr h m.data.length = true) :
    ∃ b, encKeyMsg codesD.tServerKeyExchange h m = some b ∧
      decServerKeyExchange codesD b = .ok (⟨h.seq, 0, m.data.length⟩, m) ∧
      Spec.Codec.strictBlob .dtlcp .serverKeyExchange b = some (⟨h.seq, 0, m.data.length⟩, m) := by
  obtain ⟨e1, e2⟩ := Lemmas.CodecDtlcp.rt_serverKeyExchange codesD (ready _ (by decide)) h m hw
  exact ⟨_, e1, e2, Lemmas.CodecDtlcp.strictBlob_opaque_mk (Or.inr rfl) h.seq m (wfDHdr_lt hw)⟩

theorem C14_total_serverKeyExchange_dtlcp (b : Bytes) : decServerKeyExchange codesD b ≠ .panic :=
  Lemmas.CodecDtlcp.total_serverKeyExchange codesD (ready _ (by decide)) b

theorem C14_strict_serverKeyExchange_dtlcp (b : Bytes) (x : DHdr × Blob) (h : decServerKeyExchange codesD b = .ok x) :
    Spec.Codec.shape .dtlcp .serverKeyExchange b = true :=
  strict_opaque codesD (ready _ (by decide)) (Or.inl rfl) h

theorem C14_reencode_serverKeyExchange_dtlcp (b : Bytes) (h : DHdr) (m : Blob)
    (hs : Spec.Codec.strictBlob .dtlcp .serverKeyExchange b = some (h, m)) :
    encKeyMsg codesD.tServerKeyExchange h m = some b ∧ decServerKeyExchange codesD b = .ok (h, m) ∧
      Spec.Codec.wfBlob .serverKeyExchange m = true ∧ Spec.Codec.wfDHdr h m.data.length = true :=
  Lemmas.CodecDtlcp.canon_serverKeyExchange codesD (ready _ (by decide)) rfl hs

/-! ### Certificate, CertificateRequest -/

theorem C14_roundtrip_certificate_dtlcp (h : DHdr) (m : Certificate) (hm : Spec.Codec.wfCertificate m = true)
    (hw : Spec.Codec.wfDHdr h (encCertificateBody m).length = true) :
    ∃ b, encCertificate codesD h m = some b ∧
      Model.CodecDtlcp.decCertificate codesD b = .ok (⟨h.seq, 0, (encCertificateBody m).length⟩, m) ∧
      Spec.Codec.strictCertificate .dtlcp b = some (⟨h.seq, 0, (encCertificateBody m).length⟩, m) := by
  obtain ⟨e1, e2⟩ := Lemmas.CodecDtlcp.rt_certificate codesD (ready _ (by decide)) h m hm hw
  exact ⟨_, e1, e2, Lemmas.CodecDtlcp.complete_certificate codesD rfl h.seq m hm⟩

theorem C14_total_certificate_dtlcp (b : Bytes) : Model.CodecDtlcp.decCertificate codesD b ≠ .panic :=
  Lemmas.CodecDtlcp.total_certificate codesD (ready _ (by decide)) b

theorem C14_strict_certificate_dtlcp (b : Bytes) (x : DHdr × Certificate) (h : Model.CodecDtlcp.decCertificate codesD b = .ok x) :
    Spec.Codec.shape .dtlcp .certificate b = true :=
  Lemmas.CodecDtlcp.strict_certificate codesD (ready _ (by decide)) h

theorem C14_reencode_certificate_dtlcp (b : Bytes) (h : DHdr) (m : Certificate)
    (hs : Spec.Codec.strictCertificate .dtlcp b = some (h, m)) :
    encCertificate codesD h m = some b ∧ Model.CodecDtlcp.decCertificate codesD b = .ok (h, m) ∧
      Spec.Codec.wfCertificate m = true ∧ Spec.Codec.wfDHdr h (encCertificateBody m).length = true :=
  Lemmas.CodecDtlcp.canon_certificate codesD (ready _ (by decide)) rfl hs

theorem C14_roundtrip_certificateRequest_dtlcp (h : DHdr) (m : CertificateRequest)
    (hm : Spec.Codec.wfCertificateRequest m = true)
    (hw : Spec.Codec.wfDHdr h (encCertificateRequestBody m).length = true) :
    ∃ b, encCertificateRequest codesD h m = some b ∧
      Model.CodecDtlcp.decCertificateRequest codesD b = .ok (⟨h.seq, 0, (encCertificateRequestBody m).length⟩, m) ∧
      Spec.Codec.strictCertificateRequest .dtlcp b =
        some (⟨h.seq, 0, (encCertificateRequestBody m).length⟩, m) := by
  obtain ⟨e1, e2⟩ := Lemmas.CodecDtlcp.rt_certificateRequest codesD (ready _ (by decide)) h m hm hw
  exact ⟨_, e1, e2, Lemmas.CodecDtlcp.complete_certificateRequest codesD rfl h.seq m hm⟩

theorem C14_total_certificateRequest_dtlcp (b : Bytes) : Model.CodecDtlcp.decCertificateRequest codesD b ≠ .panic :=
  Lemmas.CodecDtlcp.total_certificateRequest codesD (ready _ (by decide)) b

theorem C14_strict_certificateRequest_dtlcp (b : Bytes) (x : DHdr × CertificateRequest)
    (h : Model.CodecDtlcp.decCertificateRequest codesD b = .ok x) : Spec.Codec.shape .dtlcp .certificateRequest b = true :=
  Lemmas.CodecDtlcp.strict_certificateRequest codesD (ready _ (by decide)) h

theorem C14_reencode_certificateRequest_dtlcp (b : Bytes) (h : DHdr) (m : CertificateRequest)
    (hs : Spec.Codec.strictCertificateRequest .dtlcp b = some (h, m)) :
    encCertificateRequest codesD h m = some b ∧ Model.CodecDtlcp.decCertificateRequest codesD b = .ok (h, m) ∧
      Spec.Codec.wfCertificateRequest m = true ∧
      Spec.Codec.wfDHdr h (encCertificateRequestBody m).length = true :=
  Lemmas.CodecDtlcp.canon_certificateRequest codesD (ready _ (by decide)) rfl hs

/-! ### HelloVerifyRequest -/

theorem C14_roundtrip_helloVerifyRequest_dtlcp (h : DHdr) (m : HelloVerifyRequest)
    (hm : Spec.Codec.wfHelloVerifyRequest m = true) (hw : Spec.Codec.wfDHdr h (3 + m.cookie.length) = true) :
    ∃ b, encHelloVerifyRequest codesD h m = some b ∧
      decHelloVerifyRequest codesD b = .ok (⟨h.seq, 0, 3 + m.cookie.length⟩, m) ∧
      Spec.Codec.strictHelloVerifyRequest b = some (⟨h.seq, 0, 3 + m.cookie.length⟩, m) := by
  have hl : m.cookie.length < 256 := by simpa [Spec.Codec.wfHelloVerifyRequest] using hm
  obtain ⟨e1, e2⟩ := Lemmas.CodecDtlcp.rt_helloVerifyRequest codesD (ready _ (by decide)) h m hl hw
  exact ⟨_, e1, e2, Lemmas.CodecDtlcp.complete_helloVerifyRequest codesD rfl h.seq m hm⟩

example : Spec.Codec.wfHelloVerifyRequest ⟨(1, 1), [1, 2, 3, 4]⟩ = true ∧ Spec.Codec.wfDHdr ⟨(0, 1), 0, 7⟩ 7 = true := by
  decide

theorem C14_total_helloVerifyRequest_dtlcp (b : Bytes) : decHelloVerifyRequest codesD b ≠ .panic :=
  Lemmas.CodecDtlcp.total_helloVerifyRequest codesD (ready _ (by decide)) b

theorem C14_strict_helloVerifyRequest_dtlcp (b : Bytes) (x : DHdr × HelloVerifyRequest)
    (h : decHelloVerifyRequest codesD b = .ok x) : Spec.Codec.shape .dtlcp .helloVerifyRequest b = true :=
  Lemmas.CodecDtlcp.strict_helloVerifyRequest codesD (ready _ (by decide)) h

theorem C14_reencode_helloVerifyRequest_dtlcp (b : Bytes) (h : DHdr) (m : HelloVerifyRequest)
    (hs : Spec.Codec.strictHelloVerifyRequest b = some (h, m)) :
    encHelloVerifyRequest codesD h m = some b ∧ decHelloVerifyRequest codesD b = .ok (h, m) ∧
      Spec.Codec.wfHelloVerifyRequest m = true ∧ Spec.Codec.wfDHdr h (3 + m.cookie.length) = true :=
  Lemmas.CodecDtlcp.canon_helloVerifyRequest codesD (ready _ (by decide)) rfl hs

end Dtlcp

/-! ## Hello messages (cryptobyte based; one body model shared by both stacks)

Round trip through all seven client and three server extensions, totality, strictness (every
extension loop consumed exactly the grammar; unknown extensions are opaque) and re-encoding: what
the spec's strict decoders accept — known extensions at most once in the standard's order, host_name
entries only, known identifier types, empty OCSP responder list — is decoded by the library to
in-range fields that encode back to the same bytes. -/

section Hello
open Gotlcp.Lemmas.CodecHello

theorem helloCodesT : HelloCodes codesT := ⟨rfl, rfl, rfl, rfl, rfl, rfl, rfl, rfl, rfl, rfl, rfl, rfl, rfl⟩
theorem helloCodesD : HelloCodes codesD := ⟨rfl, rfl, rfl, rfl, rfl, rfl, rfl, rfl, rfl, rfl, rfl, rfl, rfl⟩

theorem C14_roundtrip_serverHello_tlcp (m : ServerHello) (hw : Spec.Codec.wfServerHello m = true) :
    ∃ b, encServerHello codesT m = some b ∧ unmarshalServerHello codesT b = .ok m :=
  rt_serverHello_tlcp codesT helloCodesT m hw

example : Spec.Codec.wfServerHello ⟨(1, 1), List.replicate 32 7, [1, 2, 3], (0xe0, 0x53), 0, true, [0x30, 3, 1, 2, 3],
    [0x68, 0x32], true⟩ = true := by decide

theorem C14_total_serverHello_tlcp (b : Bytes) : unmarshalServerHello codesT b ≠ .panic :=
  total_serverHello_tlcp codesT b

theorem C14_roundtrip_clientHello_tlcp (m : ClientHello) (hw : Spec.Codec.wfClientHello .tlcp m = true) :
    ∃ b, encClientHello codesT m = some b ∧ unmarshalClientHello codesT b = .ok m :=
  rt_clientHello_tlcp codesT helloCodesT (by decide) (by decide) m hw

example : Spec.Codec.wfClientHello .tlcp ⟨(1, 1), List.replicate 32 9, [], [], [(0xe0, 0x53), (0xe0, 0x13)], [0],
    [0x61, 0x2e, 0x62], [⟨0, []⟩, ⟨2, [0x30, 0]⟩, ⟨4, List.replicate 32 1⟩], true, [(0, 41), (0, 23)], [(7, 4), (4, 3)],
    [[0x68, 0x32], [0x68]], [9, 9]⟩ = true := by decide

theorem C14_total_clientHello_tlcp (b : Bytes) : unmarshalClientHello codesT b ≠ .panic :=
  total_clientHello_tlcp codesT b

theorem C14_roundtrip_serverHello_dtlcp (h : DHdr) (m : ServerHello) (hw : Spec.Codec.wfServerHello m = true)
    (hh : ∀ body, encServerHelloBody codesD m = some body → Spec.Codec.wfDHdr h body.length = true) :
    ∃ b body, encServerHelloBody codesD m = some body ∧ Model.CodecDtlcp.encServerHello codesD h m = some b ∧
      Model.CodecDtlcp.decServerHello codesD b = .ok (⟨h.seq, 0, body.length⟩, m) :=
  rt_serverHello_dtlcp codesD helloCodesD (ready _ (by decide)) h m hw hh

theorem C14_total_serverHello_dtlcp (b : Bytes) : Model.CodecDtlcp.decServerHello codesD b ≠ .panic :=
  total_serverHello_dtlcp codesD (ready _ (by decide)) b

theorem C14_roundtrip_clientHello_dtlcp (h : DHdr) (m : ClientHello) (hw : Spec.Codec.wfClientHello .dtlcp m = true)
    (hh : ∀ body, encClientHelloBody codesD true m = some body → Spec.Codec.wfDHdr h body.length = true) :
    ∃ b body, encClientHelloBody codesD true m = some body ∧ Model.CodecDtlcp.encClientHello codesD h m = some b ∧
      Model.CodecDtlcp.decClientHello codesD b = .ok (⟨h.seq, 0, body.length⟩, m) :=
  rt_clientHello_dtlcp codesD helloCodesD (by decide) (by decide) (ready _ (by decide)) h m hw hh

example : Spec.Codec.wfClientHello .dtlcp ⟨(1, 1), List.replicate 32 9, [], [0xaa, 0xbb], [(0xe0, 0x53)], [0],
    [], [], false, [(0, 41), (0, 23)], [(7, 4), (4, 3)], [], []⟩ = true := by decide

theorem C14_total_clientHello_dtlcp (b : Bytes) : Model.CodecDtlcp.decClientHello codesD b ≠ .panic :=
  total_clientHello_dtlcp codesD (ready _ (by decide)) b

theorem C14_strict_serverHello_tlcp (b : Bytes) (m : ServerHello) (h : unmarshalServerHello codesT b = .ok m) :
    Spec.Codec.shape .tlcp .serverHello b = true :=
  Lemmas.CodecHelloStrict.strict_serverHello_tlcp codesT helloCodesT (by decide) h

theorem C14_strict_clientHello_tlcp (b : Bytes) (m : ClientHello) (h : unmarshalClientHello codesT b = .ok m) :
    Spec.Codec.shape .tlcp .clientHello b = true :=
  Lemmas.CodecHelloStrict.strict_clientHello_tlcp codesT helloCodesT (by decide) h

theorem C14_strict_serverHello_dtlcp (b : Bytes) (x : DHdr × ServerHello)
    (h : Model.CodecDtlcp.decServerHello codesD b = .ok x) : Spec.Codec.shape .dtlcp .serverHello b = true :=
  Lemmas.CodecHelloStrict.strict_serverHello_dtlcp codesD helloCodesD (ready _ (by decide)) h

theorem C14_strict_clientHello_dtlcp (b : Bytes) (x : DHdr × ClientHello)
    (h : Model.CodecDtlcp.decClientHello codesD b = .ok x) : Spec.Codec.shape .dtlcp .clientHello b = true :=
  Lemmas.CodecHelloStrict.strict_clientHello_dtlcp codesD helloCodesD (ready _ (by decide)) h

theorem C14_reencode_serverHello_tlcp (b : Bytes) (h : DHdr) (m : ServerHello)
    (hs : Spec.Codec.strictServerHello .tlcp b = some (h, m)) :
    encServerHello codesT m = some b ∧ unmarshalServerHello codesT b = .ok m ∧ Spec.Codec.wfServerHello m = true :=
  Lemmas.CodecHelloCanon.canon_serverHello_tlcp codesT helloCodesT rfl hs

theorem C14_reencode_clientHello_tlcp (b : Bytes) (h : DHdr) (m : ClientHello)
    (hs : Spec.Codec.strictClientHello .tlcp b = some (h, m)) :
    encClientHello codesT m = some b ∧ unmarshalClientHello codesT b = .ok m ∧
      Spec.Codec.wfClientHello .tlcp m = true :=
  Lemmas.CodecHelloCanon.canon_clientHello_tlcp codesT helloCodesT (by decide) (by decide) rfl hs

theorem C14_reencode_serverHello_dtlcp (b : Bytes) (h : DHdr) (m : ServerHello)
    (hs : Spec.Codec.strictServerHello .dtlcp b = some (h, m)) :
    Model.CodecDtlcp.encServerHello codesD h m = some b ∧ Model.CodecDtlcp.decServerHello codesD b = .ok (h, m) ∧
      Spec.Codec.wfServerHello m = true :=
  Lemmas.CodecHelloCanon.canon_serverHello_dtlcp codesD helloCodesD (ready _ (by decide)) rfl hs

theorem C14_reencode_clientHello_dtlcp (b : Bytes) (h : DHdr) (m : ClientHello)
    (hs : Spec.Codec.strictClientHello .dtlcp b = some (h, m)) :
    Model.CodecDtlcp.encClientHello codesD h m = some b ∧ Model.CodecDtlcp.decClientHello codesD b = .ok (h, m) ∧
      Spec.Codec.wfClientHello .dtlcp m = true :=
  Lemmas.CodecHelloCanon.canon_clientHello_dtlcp codesD helloCodesD (by decide) (by decide) (ready _ (by decide)) rfl hs

/-- the strict decoders are not vacuous: a full ClientHello with all seven extensions is canonical -/
example : (Spec.Codec.strictClientHello .tlcp
    ([1, 0, 0, 63, 1, 1] ++ List.replicate 32 7 ++ [0, 0, 2, 0xe0, 0x53, 1, 0] ++
      [0, 20, 0, 0, 0, 6, 0, 4, 0, 0, 1, 0x61, 0, 10, 0, 6, 0, 4, 0, 41, 0, 23])).isSome = true := by decide

end Hello

/-! ## The strict decoder accepts the library's own encoding of every in-range hello

(`decodeStrict (encode m) = some m`; for the other kinds this is the third conjunct of
`C14_roundtrip_*`.)  The extensions are emitted in the order server_name, trusted_ca_keys,
status_request, supported_groups, signature_algorithms, ALPN, client_id / status_request, ALPN,
server_name — the order the strict decoder expects. -/

section Accept
open Gotlcp.Lemmas.CodecHello Gotlcp.Lemmas.CodecHelloAccept

theorem C14_strict_accepts_encode_serverHello_tlcp (m : ServerHello) (hw : Spec.Codec.wfServerHello m = true) :
    ∃ b, encServerHello codesT m = some b ∧ Spec.Codec.strictServerHello .tlcp b = some (zeroH, m) :=
  accept_serverHello_tlcp codesT helloCodesT rfl m hw

theorem C14_strict_accepts_encode_clientHello_tlcp (m : ClientHello) (hw : Spec.Codec.wfClientHello .tlcp m = true) :
    ∃ b, encClientHello codesT m = some b ∧ Spec.Codec.strictClientHello .tlcp b = some (zeroH, m) :=
  accept_clientHello_tlcp codesT helloCodesT rfl m hw

theorem C14_strict_accepts_encode_serverHello_dtlcp (h : DHdr) (m : ServerHello)
    (hw : Spec.Codec.wfServerHello m = true)
    (hh : ∀ body, encServerHelloBody codesD m = some body → Spec.Codec.wfDHdr h body.length = true) :
    ∃ b body, encServerHelloBody codesD m = some body ∧ Model.CodecDtlcp.encServerHello codesD h m = some b ∧
      Spec.Codec.strictServerHello .dtlcp b = some (⟨h.seq, 0, body.length⟩, m) :=
  accept_serverHello_dtlcp codesD helloCodesD rfl h m hw hh

theorem C14_strict_accepts_encode_clientHello_dtlcp (h : DHdr) (m : ClientHello)
    (hw : Spec.Codec.wfClientHello .dtlcp m = true)
    (hh : ∀ body, encClientHelloBody codesD true m = some body → Spec.Codec.wfDHdr h body.length = true) :
    ∃ b body, encClientHelloBody codesD true m = some body ∧ Model.CodecDtlcp.encClientHello codesD h m = some b ∧
      Spec.Codec.strictClientHello .dtlcp b = some (⟨h.seq, 0, body.length⟩, m) :=
  accept_clientHello_dtlcp codesD helloCodesD rfl h m hw hh

end Accept

/-! ## Every message the constructors emit decodes

`Model.Emitted.emitted…` describe what makeClientHello, the server's hello / certificate /
certificate-request construction, the key agreements, the Finished computation and the cookie
exchange produce (constants from the regenerated facts `Emitted.paramsT/D`).  `C14_emitted_wf_*`:
that shape lies within the standard's ranges; `C14_emitted_decodes_*`: hence the library decodes
its own encoding of it to the same fields.  That the handshake flows call only these constructors
is checked on messages captured from real handshakes (driver phase `captured`), not proved. -/

section Emitted
open Gotlcp.Model.Emitted Gotlcp.Lemmas.CodecEmitted Gotlcp.Lemmas.CodecHello

theorem C14_emit_facts :
    paramsT.vers = 257 ∧ paramsD.vers = 257 ∧ paramsT.randLen = 32 ∧ paramsD.randLen = 32 ∧
    paramsT.sidLen = 32 ∧ paramsD.sidLen = 32 ∧ paramsT.suites.length = 4 ∧ paramsD.suites.length = 4 ∧
    paramsT.compressionNone = 0 ∧ paramsD.compressionNone = 0 ∧ paramsT.sigSM2 = 0x0704 ∧ paramsD.sigSM2 = 0x0704 ∧
    paramsT.certTypes = [1, 64] ∧ paramsD.certTypes = [1, 64] ∧ paramsT.finishedLen = 12 ∧ paramsD.finishedLen = 12 ∧
    codesD.maxHandshake = 65536 := by decide

theorem goodT : GoodParams paramsT := ⟨rfl, by decide, by decide, by decide, rfl⟩
theorem goodD : GoodParams paramsD := ⟨rfl, by decide, by decide, by decide, rfl⟩

theorem C14_emitted_wf_clientHello_tlcp (m : ClientHello) (h : emittedClientHello paramsT false m = true) :
    Spec.Codec.wfClientHello .tlcp m = true := emitted_wf_clientHello paramsT goodT .tlcp m h
theorem C14_emitted_wf_clientHello_dtlcp (m : ClientHello) (h : emittedClientHello paramsD true m = true) :
    Spec.Codec.wfClientHello .dtlcp m = true := emitted_wf_clientHello paramsD goodD .dtlcp m h
theorem C14_emitted_wf_serverHello_tlcp (m : ServerHello) (h : emittedServerHello paramsT m = true) :
    Spec.Codec.wfServerHello m = true := emitted_wf_serverHello paramsT goodT m h
theorem C14_emitted_wf_serverHello_dtlcp (m : ServerHello) (h : emittedServerHello paramsD m = true) :
    Spec.Codec.wfServerHello m = true := emitted_wf_serverHello paramsD goodD m h
theorem C14_emitted_wf_certificate (m : Certificate) (h : emittedCertificate m = true) :
    Spec.Codec.wfCertificate m = true := emitted_wf_certificate m h
theorem C14_emitted_wf_certificateRequest_tlcp (m : CertificateRequest) (h : emittedCertificateRequest paramsT m = true) :
    Spec.Codec.wfCertificateRequest m = true := emitted_wf_certificateRequest paramsT goodT m h
theorem C14_emitted_wf_certificateRequest_dtlcp (m : CertificateRequest) (h : emittedCertificateRequest paramsD m = true) :
    Spec.Codec.wfCertificateRequest m = true := emitted_wf_certificateRequest paramsD goodD m h
theorem C14_emitted_wf_keyExchange (m : Blob) (h : emittedKeyExchange m = true) :
    Spec.Codec.wfBlob .clientKeyExchange m = true ∧ Spec.Codec.wfBlob .serverKeyExchange m = true :=
  ⟨emitted_wf_keyExchange _ (Or.inl rfl) m h, emitted_wf_keyExchange _ (Or.inr rfl) m h⟩
theorem C14_emitted_wf_certificateVerify (m : Blob) (h : emittedCertificateVerify m = true) :
    Spec.Codec.wfBlob .certificateVerify m = true := emitted_wf_certificateVerify m h
theorem C14_emitted_wf_finished_tlcp (m : Blob) (h : emittedFinished paramsT m = true) :
    Spec.Codec.wfBlob .finished m = true := emitted_wf_finished paramsT goodT m h
theorem C14_emitted_wf_finished_dtlcp (m : Blob) (h : emittedFinished paramsD m = true) :
    Spec.Codec.wfBlob .finished m = true := emitted_wf_finished paramsD goodD m h
theorem C14_emitted_wf_helloVerifyRequest (m : HelloVerifyRequest) (h : emittedHelloVerifyRequest paramsD m = true) :
    Spec.Codec.wfHelloVerifyRequest m = true := emitted_wf_helloVerifyRequest paramsD m h

example : emittedClientHello paramsT false ⟨(1, 1), List.replicate 32 9, [], [], [(0xe0, 0x53), (0xe0, 0x13)], [0],
    [0x61, 0x2e, 0x62], [], false, [(0, 41)], [(7, 4)], [[0x68, 0x32]], []⟩ = true := by decide

/-- TLCP: every emitted message decodes to the same fields with the same library -/
theorem C14_emitted_decodes_tlcp :
    (∀ m, emittedClientHello paramsT false m = true →
      ∃ b, encClientHello codesT m = some b ∧ unmarshalClientHello codesT b = .ok m) ∧
    (∀ m, emittedServerHello paramsT m = true →
      ∃ b, encServerHello codesT m = some b ∧ unmarshalServerHello codesT b = .ok m) ∧
    (∀ m, emittedCertificate m = true →
      ∃ b, encCertificate codesT m = some b ∧ unmarshalCertificate codesT b = .ok m) ∧
    (∀ m, emittedKeyExchange m = true →
      ∃ b, encKeyMsg codesT.tServerKeyExchange m = some b ∧ unmarshalServerKeyExchange codesT b = .ok m) ∧
    (∀ m, emittedCertificateRequest paramsT m = true →
      ∃ b, encCertificateRequest codesT m = some b ∧ unmarshalCertificateRequest codesT b = .ok m) ∧
    (∃ b, encServerHelloDone codesT = some b ∧ unmarshalServerHelloDone codesT b = .ok ()) ∧
    (∀ m, emittedKeyExchange m = true →
      ∃ b, encKeyMsg codesT.tClientKeyExchange m = some b ∧ unmarshalClientKeyExchange codesT b = .ok m) ∧
    (∀ m, emittedCertificateVerify m = true →
      ∃ b, encCertificateVerify codesT m = some b ∧ unmarshalCertificateVerify codesT b = .ok m) ∧
    (∀ m, emittedFinished paramsT m = true →
      ∃ b, encFinished codesT m = some b ∧ unmarshalFinished codesT b = .ok m) := by
  refine ⟨?_, ?_, ?_, ?_, ?_, ?_, ?_, ?_, ?_⟩
  · intro m h; exact C14_roundtrip_clientHello_tlcp m (C14_emitted_wf_clientHello_tlcp m h)
  · intro m h; exact C14_roundtrip_serverHello_tlcp m (C14_emitted_wf_serverHello_tlcp m h)
  · intro m h
    obtain ⟨b, h1, h2, _⟩ := C14_roundtrip_certificate_tlcp m (C14_emitted_wf_certificate m h)
    exact ⟨b, h1, h2⟩
  · intro m h
    obtain ⟨b, h1, h2, _⟩ := C14_roundtrip_serverKeyExchange_tlcp m (C14_emitted_wf_keyExchange m h).2
    exact ⟨b, h1, h2⟩
  · intro m h
    obtain ⟨b, h1, h2, _⟩ := C14_roundtrip_certificateRequest_tlcp m (C14_emitted_wf_certificateRequest_tlcp m h)
    exact ⟨b, h1, h2⟩
  · obtain ⟨b, h1, h2, _⟩ := C14_roundtrip_serverHelloDone_tlcp
    exact ⟨b, h1, h2⟩
  · intro m h
    obtain ⟨b, h1, h2, _⟩ := C14_roundtrip_clientKeyExchange_tlcp m (C14_emitted_wf_keyExchange m h).1
    exact ⟨b, h1, h2⟩
  · intro m h
    obtain ⟨b, h1, h2, _⟩ := C14_roundtrip_certificateVerify_tlcp m (C14_emitted_wf_certificateVerify m h)
    exact ⟨b, h1, h2⟩
  · intro m h
    obtain ⟨b, h1, h2, _⟩ := C14_roundtrip_finished_tlcp m (C14_emitted_wf_finished_tlcp m h)
    exact ⟨b, h1, h2⟩

section EmittedDtlcp
open Gotlcp.Model.CodecDtlcp Gotlcp.Lemmas.CodecDtlcp

/-- DTLCP: every emitted message (header fields as the constructors leave them) decodes to the same
body fields; the decoded header reads `⟨seq, 0, body length⟩` -/
theorem C14_emitted_decodes_dtlcp (h : DHdr) (he : emittedDHdr h = true) :
    (∀ m, emittedClientHello paramsD true m = true →
      ∃ b n, Model.CodecDtlcp.encClientHello codesD h m = some b ∧
        Model.CodecDtlcp.decClientHello codesD b = .ok (⟨h.seq, 0, n⟩, m)) ∧
    (∀ m, emittedHelloVerifyRequest paramsD m = true →
      ∃ b n, encHelloVerifyRequest codesD h m = some b ∧ decHelloVerifyRequest codesD b = .ok (⟨h.seq, 0, n⟩, m)) ∧
    (∀ m, emittedServerHello paramsD m = true →
      ∃ b n, Model.CodecDtlcp.encServerHello codesD h m = some b ∧
        Model.CodecDtlcp.decServerHello codesD b = .ok (⟨h.seq, 0, n⟩, m)) ∧
    (∀ m, emittedCertificate m = true →
      ∃ b n, Model.CodecDtlcp.encCertificate codesD h m = some b ∧
        Model.CodecDtlcp.decCertificate codesD b = .ok (⟨h.seq, 0, n⟩, m)) ∧
    (∀ m, emittedKeyExchange m = true →
      ∃ b n, encKeyMsg codesD.tServerKeyExchange h m = some b ∧ decServerKeyExchange codesD b = .ok (⟨h.seq, 0, n⟩, m)) ∧
    (∀ m, emittedCertificateRequest paramsD m = true →
      ∃ b n, Model.CodecDtlcp.encCertificateRequest codesD h m = some b ∧
        Model.CodecDtlcp.decCertificateRequest codesD b = .ok (⟨h.seq, 0, n⟩, m)) ∧
    (∃ b n, encServerHelloDone codesD h = some b ∧ decServerHelloDone codesD b = .ok (⟨h.seq, 0, n⟩, ())) ∧
    (∀ m, emittedKeyExchange m = true →
      ∃ b n, encKeyMsg codesD.tClientKeyExchange h m = some b ∧ decClientKeyExchange codesD b = .ok (⟨h.seq, 0, n⟩, m)) ∧
    (∀ m, emittedCertificateVerify m = true →
      ∃ b n, encCertificateVerify codesD h m = some b ∧ decCertificateVerify codesD b = .ok (⟨h.seq, 0, n⟩, m)) ∧
    (∀ m, emittedFinished paramsD m = true →
      ∃ b n, encFinished codesD h m = some b ∧ decFinished codesD b = .ok (⟨h.seq, 0, n⟩, m)) := by
  refine ⟨?_, ?_, ?_, ?_, ?_, ?_, ?_, ?_, ?_, ?_⟩
  · intro m hm
    have hw := C14_emitted_wf_clientHello_dtlcp m hm
    obtain ⟨body', e1, _, e3⟩ := rt_clientHelloBody codesD helloCodesD (by decide) (by decide) true m (chwf_of hw)
    obtain ⟨b, body, _, h2, h3⟩ := C14_roundtrip_clientHello_dtlcp h m hw
      (fun body hb => wfDHdr_of_emitted he (by rw [e1] at hb; injection hb with hb; rw [← hb]; exact e3))
    exact ⟨b, _, h2, h3⟩
  · intro m hm
    have hw := C14_emitted_wf_helloVerifyRequest m hm
    have hl : m.cookie.length < 256 := by simpa [Spec.Codec.wfHelloVerifyRequest] using hw
    obtain ⟨b, h1, h2, _⟩ := C14_roundtrip_helloVerifyRequest_dtlcp h m hw (wfDHdr_of_emitted he (by omega))
    exact ⟨b, _, h1, h2⟩
  · intro m hm
    have hw := C14_emitted_wf_serverHello_dtlcp m hm
    obtain ⟨body', e1, _, e3⟩ := rt_serverHelloBody codesD helloCodesD m (shwf_of hw)
    obtain ⟨b, body, _, h2, h3⟩ := C14_roundtrip_serverHello_dtlcp h m hw
      (fun body hb => wfDHdr_of_emitted he (by rw [e1] at hb; injection hb with hb; rw [← hb]; exact e3))
    exact ⟨b, _, h2, h3⟩
  · intro m hm
    have hw := C14_emitted_wf_certificate m hm
    obtain ⟨b, h1, h2, _⟩ := C14_roundtrip_certificate_dtlcp h m hw
      (wfDHdr_of_emitted he (wfCertificate_parts hw).2.2)
    exact ⟨b, _, h1, h2⟩
  · intro m hm
    have hl : m.data.length < 16777216 := by simp only [emittedKeyExchange, decide_eq_true_eq] at hm; exact hm.2
    obtain ⟨b, h1, h2, _⟩ := C14_roundtrip_serverKeyExchange_dtlcp h m (wfDHdr_of_emitted he hl)
    exact ⟨b, _, h1, h2⟩
  · intro m hm
    have hw := C14_emitted_wf_certificateRequest_dtlcp m hm
    obtain ⟨b, h1, h2, _⟩ := C14_roundtrip_certificateRequest_dtlcp h m hw
      (wfDHdr_of_emitted he (encCertReqBody_lt hw))
    exact ⟨b, _, h1, h2⟩
  · obtain ⟨b, h1, h2, _⟩ := C14_roundtrip_serverHelloDone_dtlcp h
    exact ⟨b, _, h1, h2⟩
  · intro m hm
    have hl : m.data.length < 16777216 := by simp only [emittedKeyExchange, decide_eq_true_eq] at hm; exact hm.2
    obtain ⟨b, h1, h2, _⟩ := C14_roundtrip_clientKeyExchange_dtlcp h m (wfDHdr_of_emitted he hl)
    exact ⟨b, _, h1, h2⟩
  · intro m hm
    have hw := C14_emitted_wf_certificateVerify m hm
    have hl : m.data.length < 65536 := by simpa [Spec.Codec.wfBlob] using hw
    obtain ⟨b, h1, h2, _⟩ := C14_roundtrip_certificateVerify_dtlcp h m hw (wfDHdr_of_emitted he (by omega))
    exact ⟨b, _, h1, h2⟩
  · intro m hm
    have hw := C14_emitted_wf_finished_dtlcp m hm
    have hl : m.data.length = 12 := by simpa [Spec.Codec.wfBlob] using hw
    obtain ⟨b, h1, h2, _⟩ := C14_roundtrip_finished_dtlcp h m hw (wfDHdr_of_emitted he (by omega))
    exact ⟨b, _, h1, h2⟩

end EmittedDtlcp
end Emitted

/-! ## The ClientHello constructor (configuration -> message)

`Model.Make.makeClientHello` transcribes makeClientHello of both stacks as a function of the
configuration fields it reads; `Model.Make.hostnameInSNI` transcribes the helper that derives the
server_name (C14_make_facts pins the source statements transcribed).  The decoder refuses a
host_name that ends in a dot, so the emitted name must never end in one: C14_sni_no_trailing_dot
proves it for every ServerName string (any number of trailing dots, brackets, zones) and every
answer of the IP-literal test.  C14_makeClientHello_emitted_*: whatever the constructor returns
for a configuration whose echoed / variable-size inputs fit (session id, cookie, well-formed
trusted-CA entries, at least one usable suite, extension block below 2^16) is inside the shape
`emittedClientHello`, hence (C14_makeClientHello_decodes_*) its encoding is decoded by the same
library to the same fields.  The driver's `emit` phase runs the real client on generated
configurations and checks bytes and decodability against this model. -/

section Make
open Gotlcp.Model.Emitted Gotlcp.Model.Make Gotlcp.Lemmas.CodecMake

/-- the source text the emission model transcribes, and the constants it uses -/
theorem C14_make_facts :
    Facts.tlcp.emitSNIStmts = ["host := name",
      "if len(host) > 0 && host[0] == '[' && host[len(host)-1] == ']' { host = host[1 : len(host)-1] }",
      "if i := strings.LastIndex(host, \"%\"); i > 0 { host = host[:i] }",
      "if net.ParseIP(host) != nil { return \"\" }",
      "for len(name) > 0 && name[len(name)-1] == '.' { name = name[:len(name)-1] }",
      "return name"] ∧
    Facts.dtlcp.emitSNIStmts = Facts.tlcp.emitSNIStmts ∧
    Facts.tlcp.emitSNIAssign = "hostnameInSNI(config.ServerName)" ∧
    Facts.dtlcp.emitSNIAssign = "hostnameInSNI(config.ServerName)" ∧
    Facts.tlcp.emitALPNGuard = ["nextProtosLength := 0",
      "for _, proto := range config.NextProtos { if l := len(proto); l == 0 || l > 255 { return nil, errors.New(\"tlcp: invalid NextProtos value\") } nextProtosLength += 1 + len(proto) }",
      "if nextProtosLength > 0xffff { return nil, errors.New(\"tlcp: NextProtos values too large\") }",
      "hello.alpnProtocols = config.NextProtos"] ∧
    Facts.dtlcp.emitALPNGuard = Facts.tlcp.emitALPNGuard ∧
    makeT.ecdhe = [0xe051, 0xe011] ∧ makeD.ecdhe = [0xe051, 0xe011] ∧
    makeT.sigSuites = [0xe051, 0xe011, 0xe013, 0xe053] ∧ makeD.sigSuites = makeT.sigSuites ∧
    makeT.defaultSuites = paramsT.suites ∧ makeD.defaultSuites = paramsD.suites ∧
    makeT.curveSM2 = 41 ∧ makeD.curveSM2 = 41 ∧
    makeT.taHashLen = 32 ∧ makeD.taHashLen = 32 ∧ makeT.taHashTypes = [4, 5] ∧ makeD.taHashTypes = [4, 5] ∧
    Facts.missing = [] :=
  ⟨rfl, rfl, rfl, rfl, rfl, rfl, by decide, by decide, by decide, by decide, by decide, by decide, by decide, by decide,
   by decide, by decide, by decide, by decide, by decide⟩

/-- the server name put on the wire never ends in a dot: for EVERY `Config.ServerName` string and
whatever the IP-literal test answers -/
theorem C14_sni_no_trailing_dot (ip : Bytes → Bool) (name : Bytes) :
    Spec.Codec.noTrailingDot (hostnameInSNI ip name) = true :=
  hostnameInSNI_noTrailingDot ip name

/-- non-vacuity / witnesses: two and three trailing dots, a bracketed IPv6 literal with a zone, an IPv4 literal -/
example : hostnameInSNI isIP [116, 101, 115, 116, 46, 99, 111, 109, 46, 46] = [116, 101, 115, 116, 46, 99, 111, 109] ∧
    hostnameInSNI isIP [97, 46, 46, 46] = [97] ∧
    hostnameInSNI isIP [91, 102, 101, 56, 48, 58, 58, 49, 37, 101, 116, 104, 48, 93] = [] ∧
    hostnameInSNI isIP [49, 46, 50, 46, 51, 46, 52] = [] ∧
    hostnameInSNI isIP [49, 46, 50, 46, 51, 46, 52, 46] = [49, 46, 50, 46, 51, 46, 52] := by decide

theorem C14_makeClientHello_emitted_tlcp (cfg : ClientCfg) (m : ClientHello)
    (h : makeClientHello paramsT makeT cfg = some m)
    (hsid : cfg.sid.length ≤ paramsT.sidLen) (hck : cfg.cookie.length = 0)
    (htas : cfg.tas.all Spec.Codec.wfTA = true) (hne : 0 < m.suites.length)
    (hlen : Spec.Codec.clientExtLen m < 65536) :
    emittedClientHello paramsT false m = true :=
  make_emitted paramsT makeT false cfg m (by decide) (by decide) (by decide) h hsid (by simpa using hck) htas hne hlen

theorem C14_makeClientHello_emitted_dtlcp (cfg : ClientCfg) (m : ClientHello)
    (h : makeClientHello paramsD makeD cfg = some m)
    (hsid : cfg.sid.length ≤ paramsD.sidLen) (hck : cfg.cookie.length < 256)
    (htas : cfg.tas.all Spec.Codec.wfTA = true) (hne : 0 < m.suites.length)
    (hlen : Spec.Codec.clientExtLen m < 65536) :
    emittedClientHello paramsD true m = true :=
  make_emitted paramsD makeD true cfg m (by decide) (by decide) (by decide) h hsid (by simpa using hck) htas hne hlen

/-- repair F60: a key_sm3_hash / cert_sm3_hash entry of an emitted ClientHello always carries exactly
the 32 bytes the decoder reads (a configuration with another length is refused, nothing is sent) -/
theorem C14_makeClientHello_hash_tas (cfg : ClientCfg) (m : ClientHello)
    (h : makeClientHello paramsT makeT cfg = some m ∨ makeClientHello paramsD makeD cfg = some m) :
    ∀ t ∈ m.tas, (t.ty = 4 ∨ t.ty = 5) → t.id.length = 32 := by
  intro t ht hty
  rcases h with h | h
  · exact make_tas_hash paramsT makeT cfg m (by decide) h t ht (by rcases hty with e | e <;> rw [e] <;> decide)
  · exact make_tas_hash paramsD makeD cfg m (by decide) h t ht (by rcases hty with e | e <;> rw [e] <;> decide)

/-- … and the refusal is real: a 5-byte key hash yields no hello at all -/
example : makeClientHello paramsT makeT
    ⟨[97], [], none, [⟨4, [1, 2, 3, 4, 5]⟩], none, 0, List.replicate 32 7, 1700000000, [], []⟩ = none := by decide

/-- the hypotheses are satisfiable on a non-trivial configuration: ServerName "a.b..", two ALPN
names, a trusted-CA entry, default suites without client certificates -/
example : ∃ m, makeClientHello paramsT makeT
      ⟨[97, 46, 98, 46, 46], [[104, 50], [104, 51]], none, [⟨0, []⟩], none, 0, List.replicate 32 7, 1700000000, [], []⟩ = some m ∧
    m.serverName = [97, 46, 98] ∧ m.suites = [(0xe0, 0x53), (0xe0, 0x13)] ∧ m.sigAlgs = [(7, 4)] ∧
    m.random.take 4 = [0x65, 0x53, 0xf1, 0x00] ∧
    m.tas.all Spec.Codec.wfTA = true ∧ Spec.Codec.clientExtLen m < 65536 := by
  refine ⟨_, rfl, ?_⟩
  decide

/-- TLCP: the ClientHello the client constructs is decoded by the same library to the same fields -/
theorem C14_makeClientHello_decodes_tlcp (cfg : ClientCfg) (m : ClientHello)
    (h : makeClientHello paramsT makeT cfg = some m)
    (hsid : cfg.sid.length ≤ paramsT.sidLen) (hck : cfg.cookie.length = 0)
    (htas : cfg.tas.all Spec.Codec.wfTA = true) (hne : 0 < m.suites.length)
    (hlen : Spec.Codec.clientExtLen m < 65536) :
    ∃ b, encClientHello codesT m = some b ∧ unmarshalClientHello codesT b = .ok m :=
  C14_emitted_decodes_tlcp.1 m (C14_makeClientHello_emitted_tlcp cfg m h hsid hck htas hne hlen)

/-- DTLCP: likewise, for the first hello and for the one answering a HelloVerifyRequest -/
theorem C14_makeClientHello_decodes_dtlcp (hd : DHdr) (he : emittedDHdr hd = true) (cfg : ClientCfg) (m : ClientHello)
    (h : makeClientHello paramsD makeD cfg = some m)
    (hsid : cfg.sid.length ≤ paramsD.sidLen) (hck : cfg.cookie.length < 256)
    (htas : cfg.tas.all Spec.Codec.wfTA = true) (hne : 0 < m.suites.length)
    (hlen : Spec.Codec.clientExtLen m < 65536) :
    ∃ b n, Model.CodecDtlcp.encClientHello codesD hd m = some b ∧
      Model.CodecDtlcp.decClientHello codesD b = .ok (⟨hd.seq, 0, n⟩, m) :=
  (C14_emitted_decodes_dtlcp hd he).1 m (C14_makeClientHello_emitted_dtlcp cfg m h hsid hck htas hne hlen)

end Make

/-! ## The translated source text of the hand-written tlcp decoders computes what the model computes

`Gotlcp.Src.tlcp.*` is regenerated from tlcp/handshake_messages.go by `harness/cmd/go2lean` on every
run (a statement-by-statement shallow embedding; bytes are `BitVec 8`, `abs` maps them to the model's
`UInt8`).  `Gotlcp.Tie.UnmarshalTlcp` proves each translated decoder equal to a closed form by loop
invariants; `Gotlcp.Tie.UnmarshalTlcpCodec` proves the closed forms equal to the model decoders
`unmarshalK codesT`.  So, for EVERY receiver value and EVERY byte string, the translated function
returns `(m', true)` with the fields the model decodes exactly when the model accepts, `(m', false)`
exactly when the model refuses, and never panics: the theorems C14_total_K_tlcp, C14_strict_K_tlcp,
C14_reencode_K_tlcp, C14_roundtrip_K_tlcp above, stated about the model, hold of the source text. -/

section SrcTlcp
open Gotlcp.Tie.UnmarshalTlcpCodec

/-- the literals in the translated text (message types 11, 12, 13, 14, 16; header length 4) are the
regenerated facts the model is instantiated with, and all five decoders are in the guarded list -/
theorem C14_src_codes_tlcp :
    Src.untranslated = [] ∧
    u8 codesT.tCertificate = UInt8.ofBitVec 11#8 ∧ u8 codesT.tServerKeyExchange = UInt8.ofBitVec 12#8 ∧
    u8 codesT.tCertificateRequest = UInt8.ofBitVec 13#8 ∧ u8 codesT.tServerHelloDone = UInt8.ofBitVec 14#8 ∧
    u8 codesT.tClientKeyExchange = UInt8.ofBitVec 16#8 ∧ codesT.hl = 4 := by
  decide

/-- `tlcpIsCompleteMessage`: translated text = model, every byte string, each guarded type -/
theorem C14_src_isComplete_tlcp (data : List (BitVec 8)) (t : BitVec 8) (T : Nat) (hT : u8 T = UInt8.ofBitVec t) :
    ∃ b, Src.tlcp.tlcpIsCompleteMessage data t = .ok b ∧
      Model.Codec.tlcpIsCompleteMessage (abs data) T = .ok b :=
  ⟨_, Tie.UnmarshalTlcp.tie_isComplete data t, model_isComplete data t T hT⟩

/-- `certificateMsg.unmarshal`: accepted with the model's certificate list, or refused like the model -/
theorem C14_src_certificate_tlcp (m : Src.tlcp.certificateMsg) (data : List (BitVec 8)) :
    Agree (fun m' => (⟨m'.certificates.map abs⟩ : Certificate)) (Src.tlcp.certificateMsg.unmarshal m data)
      (unmarshalCertificate codesT (abs data)) :=
  tie_codec_certificate m data

/-- `certificateRequestMsg.unmarshal`: certificate types and CA names -/
theorem C14_src_certificateRequest_tlcp (m : Src.tlcp.certificateRequestMsg) (data : List (BitVec 8)) :
    Agree (fun m' => (⟨abs m'.certificateTypes, m'.certificateAuthorities.map abs⟩ : CertificateRequest))
      (Src.tlcp.certificateRequestMsg.unmarshal m data) (unmarshalCertificateRequest codesT (abs data)) :=
  tie_codec_certificateRequest m data

/-- `serverKeyExchangeMsg.unmarshal`: the key blob -/
theorem C14_src_serverKeyExchange_tlcp (m : Src.tlcp.serverKeyExchangeMsg) (data : List (BitVec 8)) :
    Agree (fun m' => (⟨abs m'.key⟩ : Blob)) (Src.tlcp.serverKeyExchangeMsg.unmarshal m data)
      (unmarshalServerKeyExchange codesT (abs data)) :=
  tie_codec_serverKeyExchange m data

/-- `clientKeyExchangeMsg.unmarshal`: the ciphertext blob -/
theorem C14_src_clientKeyExchange_tlcp (m : Src.tlcp.clientKeyExchangeMsg) (data : List (BitVec 8)) :
    Agree (fun m' => (⟨abs m'.ciphertext⟩ : Blob)) (Src.tlcp.clientKeyExchangeMsg.unmarshal m data)
      (unmarshalClientKeyExchange codesT (abs data)) :=
  tie_codec_clientKeyExchange m data

/-- `serverHelloDoneMsg.unmarshal` (returns only the Boolean) -/
theorem C14_src_serverHelloDone_tlcp (m : Src.tlcp.serverHelloDoneMsg) (data : List (BitVec 8)) :
    ∃ b, Src.tlcp.serverHelloDoneMsg.unmarshal m data = .ok b ∧
      unmarshalServerHelloDone codesT (abs data) = (if b then .ok () else .reject) :=
  tie_codec_serverHelloDone m data

/-- consequence, as an instance of how the model theorems transfer: whatever the TRANSLATED
certificate decoder accepts is exactly one canonical encoding — re-encoding the decoded list with the
model encoder gives back the input bytes (`C14_strict_certificate_tlcp` through the tie) -/
theorem C14_src_accept_is_model_accept_certificate_tlcp (m m' : Src.tlcp.certificateMsg) (data : List (BitVec 8))
    (h : Src.tlcp.certificateMsg.unmarshal m data = .ok (m', true)) :
    unmarshalCertificate codesT (abs data) = .ok ⟨m'.certificates.map abs⟩ := by
  have ha := C14_src_certificate_tlcp m data
  cases ho : unmarshalCertificate codesT (abs data) with
  | ok c =>
    rw [ho] at ha
    obtain ⟨m2, h2, hv⟩ := ha
    rw [h] at h2
    cases h2
    rw [← hv]
  | reject =>
    rw [ho] at ha
    obtain ⟨m2, h2⟩ := ha
    rw [h] at h2
    cases h2
  | panic => rw [ho] at ha; exact ha.elim

-- non-vacuity: a two-entry Certificate message through the translated decoder and through the model
example : isOkC (Src.tlcp.certificateMsg.unmarshal {} [11, 0, 0, 12, 0, 0, 9, 0, 0, 2, 0xaa, 0xbb, 0, 0, 1, 0xcc])
    [[0xaa, 0xbb], [0xcc]] = true := by decide
example : unmarshalCertificate codesT (abs [11, 0, 0, 12, 0, 0, 9, 0, 0, 2, 0xaa, 0xbb, 0, 0, 1, 0xcc])
    = .ok ⟨[[0xaa, 0xbb], [0xcc]]⟩ := by decide

end SrcTlcp

/-! ## The translated source text of the hand-written dtlcp decoders computes what the model computes

`Gotlcp.Src.dtlcp.*` is regenerated from dtlcp/handshake_messages.go by `harness/cmd/go2lean` on
every run.  `Gotlcp.Tie.UnmarshalDtlcpCodec` proves, by loop invariants that simulate the model's
loops (`certCount`, `certSplit`, `casLoop`) step by step, that for EVERY receiver value and EVERY
byte string the translated function returns `(m', true)` with the three header fields and the body
fields the model decodes exactly when `Model.CodecDtlcp.decK codesD` accepts, `(m', false)` exactly
when it refuses, and never panics: C14_total_K_dtlcp, C14_strict_K_dtlcp, C14_reencode_K_dtlcp,
C14_roundtrip_K_dtlcp above, stated about the model, hold of the source text. -/

section SrcDtlcp
open Gotlcp.Tie.UnmarshalDtlcpCodec

/-- the literals in the translated text (message types 11, 12, 13, 14, 16; header length 12) are the
regenerated facts the model is instantiated with, and all five decoders are in the guarded list -/
theorem C14_src_codes_dtlcp :
    Src.untranslated = [] ∧
    u8 codesD.tCertificate = UInt8.ofBitVec 11#8 ∧ u8 codesD.tServerKeyExchange = UInt8.ofBitVec 12#8 ∧
    u8 codesD.tCertificateRequest = UInt8.ofBitVec 13#8 ∧ u8 codesD.tServerHelloDone = UInt8.ofBitVec 14#8 ∧
    u8 codesD.tClientKeyExchange = UInt8.ofBitVec 16#8 ∧ codesD.hl = 12 ∧
    codesD.complete.contains codesD.tCertificate = true ∧ codesD.complete.contains codesD.tServerKeyExchange = true ∧
    codesD.complete.contains codesD.tCertificateRequest = true ∧
    codesD.complete.contains codesD.tServerHelloDone = true ∧
    codesD.complete.contains codesD.tClientKeyExchange = true := by
  decide

/-- `dtlcpIsCompleteMessage`: translated text = model, every byte string, every type code -/
theorem C14_src_isComplete_dtlcp (data : List (BitVec 8)) (t : BitVec 8) (T : Nat) (hT : u8 T = UInt8.ofBitVec t) :
    ∃ b, Src.dtlcp.dtlcpIsCompleteMessage data t = .ok b ∧
      Model.CodecDtlcp.isCompleteMessage 12 (Tie.UnmarshalDtlcpCodec.abs data) T = .ok b :=
  ⟨_, isComplete_eq data t, Tie.UnmarshalDtlcpCodec.model_isComplete data t T hT⟩

/-- `certificateMsg.unmarshal`: accepted with the model's header fields and certificate list, or
refused like the model -/
theorem C14_src_certificate_dtlcp (m : Src.dtlcp.certificateMsg) (data : List (BitVec 8)) :
    Tie.UnmarshalDtlcpCodec.Agree
      (fun m' => (hdrView m'.messageSeq m'.fragmentOffset m'.fragmentLength,
                  (⟨m'.certificates.map Tie.UnmarshalDtlcpCodec.abs⟩ : Certificate)))
      (Src.dtlcp.certificateMsg.unmarshal m data)
      (Model.CodecDtlcp.decCertificate codesD (Tie.UnmarshalDtlcpCodec.abs data)) :=
  Tie.UnmarshalDtlcpCodec.tie_codec_certificate m data

/-- `certificateRequestMsg.unmarshal`: header fields, certificate types and CA names -/
theorem C14_src_certificateRequest_dtlcp (m : Src.dtlcp.certificateRequestMsg) (data : List (BitVec 8)) :
    Tie.UnmarshalDtlcpCodec.Agree
      (fun m' => (hdrView m'.messageSeq m'.fragmentOffset m'.fragmentLength,
                  (⟨Tie.UnmarshalDtlcpCodec.abs m'.certificateTypes,
                    m'.certificateAuthorities.map Tie.UnmarshalDtlcpCodec.abs⟩ : CertificateRequest)))
      (Src.dtlcp.certificateRequestMsg.unmarshal m data)
      (Model.CodecDtlcp.decCertificateRequest codesD (Tie.UnmarshalDtlcpCodec.abs data)) :=
  Tie.UnmarshalDtlcpCodec.tie_codec_certificateRequest m data

/-- `serverKeyExchangeMsg.unmarshal`: header fields and the key blob -/
theorem C14_src_serverKeyExchange_dtlcp (m : Src.dtlcp.serverKeyExchangeMsg) (data : List (BitVec 8)) :
    Tie.UnmarshalDtlcpCodec.Agree
      (fun m' => (hdrView m'.messageSeq m'.fragmentOffset m'.fragmentLength,
                  (⟨Tie.UnmarshalDtlcpCodec.abs m'.key⟩ : Blob)))
      (Src.dtlcp.serverKeyExchangeMsg.unmarshal m data)
      (Model.CodecDtlcp.decServerKeyExchange codesD (Tie.UnmarshalDtlcpCodec.abs data)) :=
  Tie.UnmarshalDtlcpCodec.tie_codec_serverKeyExchange m data

/-- `clientKeyExchangeMsg.unmarshal`: header fields and the ciphertext blob -/
theorem C14_src_clientKeyExchange_dtlcp (m : Src.dtlcp.clientKeyExchangeMsg) (data : List (BitVec 8)) :
    Tie.UnmarshalDtlcpCodec.Agree
      (fun m' => (hdrView m'.messageSeq m'.fragmentOffset m'.fragmentLength,
                  (⟨Tie.UnmarshalDtlcpCodec.abs m'.ciphertext⟩ : Blob)))
      (Src.dtlcp.clientKeyExchangeMsg.unmarshal m data)
      (Model.CodecDtlcp.decClientKeyExchange codesD (Tie.UnmarshalDtlcpCodec.abs data)) :=
  Tie.UnmarshalDtlcpCodec.tie_codec_clientKeyExchange m data

/-- `serverHelloDoneMsg.unmarshal`: header fields, empty body -/
theorem C14_src_serverHelloDone_dtlcp (m : Src.dtlcp.serverHelloDoneMsg) (data : List (BitVec 8)) :
    Tie.UnmarshalDtlcpCodec.Agree
      (fun m' => (hdrView m'.messageSeq m'.fragmentOffset m'.fragmentLength, ()))
      (Src.dtlcp.serverHelloDoneMsg.unmarshal m data)
      (Model.CodecDtlcp.decServerHelloDone codesD (Tie.UnmarshalDtlcpCodec.abs data)) :=
  Tie.UnmarshalDtlcpCodec.tie_codec_serverHelloDone m data

/-- `dtlcpWriteHeader` on a destination of at least 12 bytes writes the model's header bytes -/
theorem C14_src_writeHeader_dtlcp (dst : List (BitVec 8)) (h : 12 ≤ dst.length) (t : BitVec 8) (bodyLen : Nat)
    (seq : BitVec 16) (fo fl : BitVec 32) :
    ∃ r, Src.dtlcp.dtlcpWriteHeader dst t (bodyLen : Int) seq fo fl = .ok r ∧
      Tie.UnmarshalDtlcpCodec.abs r =
        Model.CodecDtlcp.writeHeader t.toNat bodyLen (W16.ofNat seq.toNat) fo.toNat fl.toNat ++
          Tie.UnmarshalDtlcpCodec.abs (dst.drop 12) :=
  Tie.UnmarshalDtlcpCodec.tie_codec_writeHeader dst h t bodyLen seq fo fl

/-- consequence, as an instance of how the model theorems transfer: whatever the TRANSLATED dtlcp
certificate decoder accepts, the model decoder accepts with the same header and list (so
`C14_strict_certificate_dtlcp`, `C14_reencode_certificate_dtlcp` apply to it) -/
theorem C14_src_accept_is_model_accept_certificate_dtlcp (m m' : Src.dtlcp.certificateMsg) (data : List (BitVec 8))
    (h : Src.dtlcp.certificateMsg.unmarshal m data = .ok (m', true)) :
    Model.CodecDtlcp.decCertificate codesD (Tie.UnmarshalDtlcpCodec.abs data) =
      .ok (hdrView m'.messageSeq m'.fragmentOffset m'.fragmentLength,
           ⟨m'.certificates.map Tie.UnmarshalDtlcpCodec.abs⟩) := by
  have ha := C14_src_certificate_dtlcp m data
  cases ho : Model.CodecDtlcp.decCertificate codesD (Tie.UnmarshalDtlcpCodec.abs data) with
  | ok c =>
    rw [ho] at ha
    obtain ⟨m2, h2, hv⟩ := ha
    rw [h] at h2
    cases h2
    rw [← hv]
  | reject =>
    rw [ho] at ha
    obtain ⟨m2, h2⟩ := ha
    rw [h] at h2
    cases h2
  | panic => rw [ho] at ha; exact ha.elim

-- non-vacuity: a two-entry Certificate message (message_seq 1) through the model decoder; the same bytes
-- through the translated decoder are an `example` in Props/C09.lean
example : Model.CodecDtlcp.decCertificate codesD (Tie.UnmarshalDtlcpCodec.abs
    [11, 0, 0, 12, 0, 1, 0, 0, 0, 0, 0, 12, 0, 0, 9, 0, 0, 2, 0xaa, 0xbb, 0, 0, 1, 0xcc])
    = .ok (⟨(0, 1), 0, 12⟩, ⟨[[0xaa, 0xbb], [0xcc]]⟩) := by decide

end SrcDtlcp

end Gotlcp.Props.C14

/-
C16 — datagram records are delivered at most once and only if authentic.

Property theorems only (helpers: `Gotlcp.Lemmas.Replay`, `Gotlcp.Lemmas.DtlcpRx`).
Every statement quantifies over every argument of `newReplayWindow` / every configured size and
every delivery history of any length.  The model (`Gotlcp.Model.Replay`, `Gotlcp.Model.DtlcpRx`)
is instantiated with the facts regenerated from the Go source (`P`); the spec is
`Gotlcp.Spec.ReplaySpec`.
-/
import Gotlcp.Lemmas.Replay
import Gotlcp.Lemmas.DtlcpRx
import Gotlcp.Lemmas.DtlcpRxMix
import Gotlcp.Generated.Facts
import Gotlcp.Tie.Replay

namespace Gotlcp.Props.C16
open Gotlcp.Model
open Gotlcp.Model.Replay
open Gotlcp.Model.DtlcpRx
open Gotlcp.Lemmas.Replay
open Gotlcp.Lemmas.DtlcpRx
open Gotlcp.Lemmas.DtlcpRxMix
open Gotlcp.Spec

/-- the parameters of the tree under test (regenerated on every run) -/
def P : Params :=
  treeParams Facts.dtlcp.defaultReplayWindowSize

/-- which invalid input `readRecordOrCCS` drops once the handshake is complete (regenerated) -/
def Q : RxParams :=
  { dropForged := Facts.dtlcp.replayRxRecordDecryptFail == "discard-after-handshake" ||
                  Facts.dtlcp.replayRxRecordDecryptFail == "discard",
    dropMalformed := Facts.dtlcp.replayRxRecordMalformedDrops == Facts.dtlcp.replayRxRecordHeaderChecks }

/-- What the other theorems use from the source.  The window code itself (floor 32, width capped at
the 64 bits of the bitmap) is NOT pinned by text-matching facts any more: `P` is
`Model.Replay.treeParams` and `Gotlcp.Tie.Replay` proves the functions translated from
dtlcp/replay.go equal to the model with exactly these parameters (`C16_src_*` below); on the tree
before the repair of F7 those tie proofs fail.  Pinned here: the bitmap is a `uint64`; the default
size is 64; every construction site passes `Config.ReplayWindow` (when positive, else the default) to
`newReplayWindow`; nothing the extractor looked for is missing.
Receive paths: in `ReadFrom` and in `readRecordOrCCS` the header's epoch and sequence number
are copied into the MAC / additional-data input before `decrypt`, the number handed to
`replayWindow.check` is the header's complete 48-bit sequence number (all six bytes), and the only
`replayWindow.check` call comes after the only `decrypt` call and after the two epoch
comparisons (older: drop, newer: new window);
`ReadFrom` drops a record that fails `decrypt`. -/
theorem C16_facts :
    goodParams P = true ∧
    Facts.dtlcp.replayBitmapBits = 64 ∧
    Facts.dtlcp.defaultReplayWindowSize = 64 ∧
    Facts.dtlcp.replayNewSitesUniform = true ∧
    Facts.dtlcp.replayRxReadFromOrder = ["decrypt", "epoch<", "epoch>", "check"] ∧
    Facts.dtlcp.replayRxRecordOrder = ["decrypt", "epoch<", "epoch>", "check"] ∧
    Facts.dtlcp.replayRxReadFromDecryptFail = "discard" ∧
    Facts.dtlcp.replayRxSeqBound = true ∧
    Facts.dtlcp.replayRxSeqArgFull = true ∧
    Facts.missing = [] := by decide

/-- The repair of F14 is in the tree: after the handshake `readRecordOrCCS` drops a record that
fails `decrypt` and datagrams with a malformed header (all four header checks), instead of
latching a permanent error. -/
theorem C16_facts_read_path : drops Q .read = true := by decide

theorem P_good : goodParams P = true := C16_facts.1

/-- The width distances are compared with is `clamp(size, 32, 64)` for every argument of
`newReplayWindow`: never below 32, never below the requested size up to 64, never above the
64 bits the bitmap has. -/
theorem C16_window_floor (n : Int) :
    span P (newWindow P n) = ReplaySpec.clamp n ∧
    32 ≤ span P (newWindow P n) ∧ span P (newWindow P n) ≤ 64 ∧
    (n ≤ 64 → n ≤ (span P (newWindow P n) : Int)) ∧ (64 ≤ n → span P (newWindow P n) = 64) := by
  have h := span_new P P_good n
  rw [h]
  unfold ReplaySpec.clamp
  refine ⟨rfl, ?_, ?_, ?_, ?_⟩ <;> (repeat' split) <;> omega

/-- The same for the value of `Config.ReplayWindow` at all construction sites: not positive
selects the documented default 64. -/
theorem C16_config_window (c : Int) :
    span P (newFromConfig P c) = ReplaySpec.docWindow c := by
  unfold newFromConfig
  rw [span_new P P_good]
  have hd : P.default = 64 := C16_facts.2.2.1
  unfold configArg ReplaySpec.docWindow
  rw [hd]
  by_cases h : c > 0
  · have : ¬ c ≤ 0 := by omega
    simp [h, this]
  · have : c ≤ 0 := by omega
    simp [h, this, ReplaySpec.clamp]

/-- Refinement, all histories: for every argument `n` of `newReplayWindow` and every delivery
history the answers of `check` are exactly those of the set-based reference with window
`clamp(n, 32, 64)`. -/
theorem C16_window_refines (n : Int) (ss : List Nat) :
    (run P (newWindow P n) ss).2 = (ReplaySpec.run (ReplaySpec.clamp n) [] ss).2 := by
  have hs := span_new P P_good n
  have hW : span P (newWindow P n) ≤ 64 := (C16_window_floor n).2.2.1
  have := run_refines P ss (newWindow P n) [] hW (inv_new P n _)
  rw [hs] at this
  exact this

/-- The same from the configuration value. -/
theorem C16_config_refines (c : Int) (ss : List Nat) :
    (run P (newFromConfig P c) ss).2 = (ReplaySpec.run (ReplaySpec.docWindow c) [] ss).2 := by
  rw [← C16_config_window c]
  have hW : span P (newFromConfig P c) ≤ 64 := (C16_window_floor (configArg P c)).2.2.1
  exact run_refines P ss (newFromConfig P c) [] hW (inv_new P _ _)

/-- At most once, all histories: no sequence number is accepted twice, whatever the size
argument and whatever is delivered in whatever order. -/
theorem C16_at_most_once (n : Int) (ss : List Nat) : (accepted P (newWindow P n) ss).Nodup :=
  (accepted_fresh P ss (newWindow P n) [] (C16_window_floor n).2.2.1 (inv_new P n _)).1

/-- The property as the oracle judges it (`ReplaySpec.judge`: no replay accepted, no fresh
number inside the demanded window refused) holds of the model's answers for all histories. -/
theorem C16_window_property (n : Int) (ss : List Nat) :
    ReplaySpec.judge (ReplaySpec.clamp n) (ss.zip (run P (newWindow P n) ss).2) = none := by
  rw [C16_window_refines]
  exact reference_judged_ok _ _ (Nat.le_refl _) ss 0 []

/-! ### receive paths (`ReadFrom`, `Read`) after the handshake

`Rec.auth` is the verdict of `halfConn.decrypt`.  Ideal record protection is the hypothesis
`Ideal` below — a field of the theorems that need it, not an axiom. -/

/-- a record the peer protected on this connection -/
structure SentRec where
  epoch   : Nat
  seq     : Nat
  kind    : Kind
  payload : Nat
deriving DecidableEq, Repr

def toSent (r : Rec) : SentRec := ⟨r.epoch, r.seq, r.kind, r.payload⟩

/-- Ideal record protection, as a property of a delivery history `ds` relative to what the peer
sent: a record passes `decrypt` only if the peer protected exactly that content under exactly
that epoch and sequence number (integrity of ciphertexts with the header bound into the MAC /
additional data), and the peer uses each (epoch, sequence number) once. -/
structure Ideal (sent : List SentRec) (ds : List Dgram) : Prop where
  authentic_sent : ∀ r, Dgram.record r ∈ ds → r.auth = true → toSent r ∈ sent
  numbering : (sent.map fun s => (s.epoch, s.seq)).Nodup

/-- Every reachable receive state satisfies the representation invariant for some list of
accepted (epoch, sequence number) pairs — for every configured size, path and history. -/
theorem C16_reachable_inv (cfg : Int) (path : Path) (ds : List Dgram) :
    ∃ acc, RxInv P acc (DtlcpRx.run P Q path (afterHandshake P cfg) ds).1 := by
  suffices h : ∀ (ds : List Dgram) (st : State) (acc : List (Nat × Nat)), RxInv P acc st →
      ∃ acc', RxInv P acc' (DtlcpRx.run P Q path st ds).1 from
    h ds _ _ (inv_afterHandshake P P_good cfg)
  intro ds
  induction ds with
  | nil => intro st acc h; exact ⟨acc, h⟩
  | cons d ds ih =>
    intro st acc h
    obtain ⟨acc', hi, _, _⟩ := step_inv P Q path acc st d h
    exact ih _ acc' hi

/-- The window that guards application data is built from the Config that governs the connection
when the read epoch changes: for a connection created with `Config.ReplayWindow = created` on which
the handshake installed a per-client Config (`GetConfigForClient`, `installed = some c`) or none,
the state after the handshake is the one all receive-path theorems start from for the governing
Config's value, and the width distances are compared with is the documented window of THAT value
(never below 32, never below it up to 64) — whatever size the connection was created with. -/
theorem C16_handshake_window_governing (created : Int) (installed : Option Int) :
    afterHandshakeGov P created installed = afterHandshake P (installed.getD created) ∧
    span P (afterHandshakeGov P created installed).win = ReplaySpec.docWindow (installed.getD created) ∧
    (afterHandshakeGov P created installed).win.size = (newFromConfig P (installed.getD created)).size := by
  have h1 : afterHandshakeGov P created installed = afterHandshake P (installed.getD created) := by
    cases installed <;> rfl
  have hsz : ∀ c : Int, ((check P (newFromConfig P c) 0).1).size = (newFromConfig P c).size :=
    fun c => check_size P _ 0
  refine ⟨h1, ?_, ?_⟩
  · rw [h1]
    have := C16_config_window (installed.getD created)
    unfold afterHandshake
    simp only
    unfold span at this ⊢
    rw [hsz]
    exact this
  · rw [h1]; exact hsz _

/-- Authentic only, all histories, both paths: whatever the network delivers (duplicates,
replays, reordering, forgeries, junk), every payload handed to the application is the
content of an application-data record the peer protected on this connection, under the epoch
and sequence number it arrived with. -/
theorem C16_authentic_only (sent : List SentRec) (cfg : Int) (path : Path) (ds : List Dgram)
    (hI : Ideal sent ds) :
    ∀ r ∈ delivered P Q path (afterHandshake P cfg) ds,
      r.kind = .appData ∧ toSent r ∈ sent := by
  intro r hr
  obtain ⟨_, ha, hk, hm⟩ :=
    (delivered_sound P Q path ds _ _ (inv_afterHandshake P P_good cfg)).2 r hr
  exact ⟨hk, hI.authentic_sent r hm ha⟩

/-- At most once, all histories, both paths, across epoch changes: no (epoch, sequence number)
is handed to the application twice. -/
theorem C16_delivered_once (cfg : Int) (path : Path) (ds : List Dgram) :
    ((delivered P Q path (afterHandshake P cfg) ds).map key).Nodup :=
  (delivered_sound P Q path ds _ _ (inv_afterHandshake P P_good cfg)).1

/-- Delivered ⊆ sent as multisets: every record the peer sent is handed over at most once,
and nothing else is. -/
theorem C16_delivered_submultiset (sent : List SentRec) (cfg : Int) (path : Path) (ds : List Dgram)
    (hI : Ideal sent ds) (x : SentRec) :
    ((delivered P Q path (afterHandshake P cfg) ds).map toSent).count x ≤ sent.count x := by
  have hn := C16_delivered_once cfg path ds
  have hnd : ((delivered P Q path (afterHandshake P cfg) ds).map toSent).Nodup := by
    have hk : (delivered P Q path (afterHandshake P cfg) ds).map key =
        ((delivered P Q path (afterHandshake P cfg) ds).map toSent).map (fun s => (s.epoch, s.seq)) := by
      rw [List.map_map]; rfl
    rw [hk] at hn
    exact nodup_of_map _ _ hn
  rw [hnd.count]
  split
  · rename_i hm
    obtain ⟨r, hr, rfl⟩ := List.mem_map.mp hm
    have := (C16_authentic_only sent cfg path ds hI r hr).2
    exact List.count_pos_iff.mpr this
  · exact Nat.zero_le _

/-- A datagram that does not authenticate (forged, modified, junk, from another address) is
never delivered and leaves the receive state — epoch, window, error latch — exactly as it
was, on both paths. -/
theorem C16_forgery_no_effect (path : Path) (st : State) (d : Dgram) (hd : d.authentic = false) :
    (step P Q path st d).1 = st ∧ ∀ pl, (step P Q path st d).2 ≠ .data pl := by
  have hq : drops Q path = true := by
    cases path with
    | readFrom => rfl
    | read => exact C16_facts_read_path
  exact step_forged P Q path st d hd hq

/-- The `ReadFrom` path alone, whatever `readRecordOrCCS` does (holds before the repair of F14
too). -/
theorem C16_forgery_no_effect_partial (q : RxParams) (st : State) (d : Dgram) (hd : d.authentic = false) :
    (step P q .readFrom st d).1 = st ∧ ∀ pl, (step P q .readFrom st d).2 ≠ .data pl :=
  step_forged P q .readFrom st d hd rfl

/-- … and therefore never changes which later records are accepted: deleting every
non-authentic datagram from any history changes neither the final state nor the records
handed to the application. -/
theorem C16_forgeries_removable (cfg : Int) (path : Path) (ds : List Dgram) :
    (DtlcpRx.run P Q path (afterHandshake P cfg) ds).1 =
      (DtlcpRx.run P Q path (afterHandshake P cfg) (ds.filter Dgram.authentic)).1 ∧
    delivered P Q path (afterHandshake P cfg) ds =
      delivered P Q path (afterHandshake P cfg) (ds.filter Dgram.authentic) := by
  have hq : drops Q path = true := by
    cases path with
    | readFrom => rfl
    | read => exact C16_facts_read_path
  exact run_filter P Q path hq ds _

/-- A genuine application record of the current epoch is handed over the first time it
arrives whenever the set-based reference accepts its sequence number (newer than everything
accepted, or inside the window), in every state satisfying the invariant (all reachable
states do: `C16_reachable_inv`) that has no latched stream end. -/
theorem C16_fresh_genuine_delivered (path : Path) (acc : List (Nat × Nat)) (st : State) (r : Rec)
    (h : RxInv P acc st) (ha : r.auth = true) (hk : r.kind = .appData) (he : r.epoch = st.readEpoch)
    (herr : path = .read → st.err = none)
    (hfresh : ReplaySpec.accept (span P st.win) (seenOf st.readEpoch acc) r.seq = true) :
    (step P Q path st (.record r)).2 = .data r.payload :=
  fresh_delivered P Q path acc st r h ha hk he herr hfresh

/-! ### `Read` and `ReadFrom` on one connection, caller buffers of any size

`Gotlcp.Model.DtlcpRxMix`: the socket as a queue, `c.readBuf` (the rest of a record a `Read`
buffer was too small for), what `ReadFrom` leaves in `c.rawInputBuf`, the look-ahead of `Read`.
A history is any list of actions: the network delivers a datagram, the application calls
`Read` with an n-byte buffer, the application calls `ReadFrom` with an n-byte buffer.  A call
hands over `chunk r off cnt`: bytes `off … off+cnt-1` of the payload of record `r`. -/

/-- the datagrams the network delivered in a history -/
def deliveredDgrams : List Act → List Dgram
  | [] => []
  | .deliver m :: as => m.d :: deliveredDgrams as
  | _ :: as => deliveredDgrams as

theorem mem_deliveredDgrams (acts : List Act) (md : MD) (h : Act.deliver md ∈ acts) : md.d ∈ deliveredDgrams acts := by
  induction acts with
  | nil => cases h
  | cons a as ih =>
    rcases List.mem_cons.mp h with rfl | h'
    · exact List.mem_cons_self
    · cases a <;> simp only [deliveredDgrams] <;> first | exact List.mem_cons_of_mem _ (ih h') | exact ih h'

/-- Every byte range handed over, all histories, any mixture of the two read calls, any
buffer sizes, any payload lengths: each call that returns bytes returns a range of the payload
of an authentic application-data record that the network delivered; the range starts exactly
where the bytes of that record handed over by earlier calls end (so no byte of a record is
handed over twice and none out of order), it ends inside the payload, and all ranges under
one (epoch, sequence number) come from one record.  `InOrder … [] outs` says this of every
call relative to the calls before it. -/
theorem C16_mix_in_order_once (cfg : Int) (plen : Nat → Nat) (acts : List Act) :
    InOrder plen (deliveredDgrams acts) []
      (mixRun P Q plen (Mix.start (afterHandshake P cfg)) acts).2 :=
  (mixRun_ok P Q plen (deliveredDgrams acts) acts [(1, 0)] _ []
    (mixInv_start P plen _ _ _ (inv_afterHandshake P P_good cfg))
    (mem_deliveredDgrams acts)).1

/-- … hence, with ideal record protection, every range handed over is part of a payload the
peer protected on this connection under that epoch and sequence number. -/
theorem C16_mix_authentic_only (sent : List SentRec) (cfg : Int) (plen : Nat → Nat) (acts : List Act)
    (hI : Ideal sent (deliveredDgrams acts)) :
    ∀ r off cnt t, MOut.chunk r off cnt t ∈ (mixRun P Q plen (Mix.start (afterHandshake P cfg)) acts).2 →
      r.kind = .appData ∧ toSent r ∈ sent ∧ off + cnt ≤ plen r.payload := by
  have h := C16_mix_in_order_once cfg plen acts
  generalize (mixRun P Q plen (Mix.start (afterHandshake P cfg)) acts).2 = outs at h
  suffices hs : ∀ (outs before : List MOut), InOrder plen (deliveredDgrams acts) before outs →
      ∀ r off cnt t, MOut.chunk r off cnt t ∈ outs →
        r.kind = .appData ∧ toSent r ∈ sent ∧ off + cnt ≤ plen r.payload from hs outs [] h
  intro outs
  induction outs with
  | nil => intro _ _ r off cnt t hm; cases hm
  | cons o os ih =>
    intro before hio r off cnt t hm
    rcases List.mem_cons.mp hm with rfl | hm
    · obtain ⟨a, b, c, _, e, _⟩ := hio.1
      exact ⟨b, hI.authentic_sent r c a, e⟩
    · exact ih _ hio.2 r off cnt t hm

/-- Every reachable state of the mixed machine keeps the replay-window invariant. -/
theorem C16_mix_reachable_inv (cfg : Int) (plen : Nat → Nat) (acts : List Act) :
    ∃ acc, RxInv P acc (mixRun P Q plen (Mix.start (afterHandshake P cfg)) acts).1.st :=
  (mixRun_ok P Q plen (deliveredDgrams acts) acts [(1, 0)] _ []
    (mixInv_start P plen _ _ _ (inv_afterHandshake P P_good cfg))
    (mem_deliveredDgrams acts)).2

/-- Inside every call, datagrams that do not authenticate are skipped without effect: the
record loop of `Read` (no error latched) and the datagram loop of `ReadFrom` end in the same
replay state and with the same result on the socket contents with every such datagram
removed — whatever `c.rawInputBuf` held. -/
theorem C16_mix_forgeries_skipped (st : State) (raw raw' : Option MD) (ms : List MD) :
    (st.err = none →
      (recLoop P Q st ms).1 = (recLoop P Q st (ms.filter fun m => m.d.authentic)).1 ∧
      (recLoop P Q st ms).2.1 = (recLoop P Q st (ms.filter fun m => m.d.authentic)).2.1) ∧
    (fromLoop P st raw ms).1 = (fromLoop P st raw' (ms.filter fun m => m.d.authentic)).1 ∧
    (fromLoop P st raw ms).2.1 = (fromLoop P st raw' (ms.filter fun m => m.d.authentic)).2.1 :=
  ⟨fun h => recLoop_filter P Q C16_facts_read_path ms st h, fromLoop_filter P ms st raw raw'⟩

/-- non-vacuity, and the history of the mixed-call defect class: 96-byte record A partly read
by `Read` (16 bytes), record B by `ReadFrom`, then `Read` hands over the REST OF A — not bytes
of B — and a forged datagram in between changes nothing -/
example :
    let A : Rec := ⟨1, 1, true, .appData, 1⟩
    let B : Rec := ⟨1, 2, true, .appData, 2⟩
    let acts : List Act := [.deliver ⟨.record A, false⟩, .read 16, .deliver ⟨.record ⟨1, 3, false, .appData, 0⟩, false⟩,
      .deliver ⟨.record B, false⟩, .readFrom 4096, .read 4096, .read 4096]
    (mixRun P Q (fun _ => 96) (Mix.start (afterHandshake P 64)) acts).2 =
      [.queued, .chunk A 0 16 .none, .queued, .queued, .chunk B 0 96 .none, .chunk A 16 80 .none, .timeout] := by
  decide

/-- the hypothesis of `C16_mix_authentic_only` is satisfiable on that history -/
example :
    Ideal [⟨1, 1, .appData, 1⟩, ⟨1, 2, .appData, 2⟩]
      (deliveredDgrams [.deliver ⟨.record ⟨1, 1, true, .appData, 1⟩, false⟩, .read 16,
        .deliver ⟨.record ⟨1, 3, false, .appData, 0⟩, false⟩,
        .deliver ⟨.record ⟨1, 2, true, .appData, 2⟩, false⟩, .readFrom 4096, .read 4096, .read 4096]) := by
  refine ⟨?_, by decide⟩
  intro r hm ha
  simp only [deliveredDgrams, List.mem_cons, Dgram.record.injEq, List.not_mem_nil, or_false] at hm
  rcases hm with h | h | h <;> subst h <;> first | (exact absurd ha (by decide)) | decide

/-- the look-ahead of `Read`: `ReadFrom` consumed the close_notify and left it in
`c.rawInputBuf`; the `Read` that drains the rest of record 1 runs `readRecord()` again, finds
the socket empty and returns its bytes together with the timeout -/
example :
    let A : Rec := ⟨1, 1, true, .appData, 1⟩
    let acts : List Act := [.deliver ⟨.record A, false⟩, .deliver ⟨.record ⟨1, 2, true, .closeNotify, 2⟩, true⟩,
      .read 7, .readFrom 100, .read 100]
    (mixRun P Q (fun _ => 21) (Mix.start (afterHandshake P 64)) acts).2 =
      [.queued, .queued, .chunk A 0 7 .none, .eof, .chunk A 7 14 .timeout] := by
  decide

/-! ### non-vacuity and the witnesses of findings F7, F14 -/

/-- a non-trivial history: three records sent, delivered out of order with a replay and two
forgeries in between -/
def exSent : List SentRec := [⟨1, 1, .appData, 1⟩, ⟨1, 2, .appData, 2⟩, ⟨1, 3, .appData, 3⟩]
def exHistory : List Dgram :=
  [.record ⟨1, 2, true, .appData, 2⟩, .record ⟨1, 3, false, .appData, 9⟩, .record ⟨1, 1, true, .appData, 1⟩,
   .short, .record ⟨1, 2, true, .appData, 2⟩, .record ⟨1, 3, true, .appData, 3⟩]

/-- the hypothesis `Ideal` is satisfiable on it … -/
example : Ideal exSent exHistory := by
  refine ⟨?_, by decide⟩
  intro r hm ha
  simp only [exHistory, List.mem_cons, Dgram.record.injEq, List.not_mem_nil, or_false, reduceCtorEq, false_or] at hm
  rcases hm with h | h | h | h | h <;> subst h <;> first | (exact absurd ha (by decide)) | decide

/-- … and both paths hand over exactly the three sent payloads, each once -/
example :
    (delivered P Q .read (afterHandshake P 0) exHistory).map (·.payload) = [2, 1, 3] ∧
    (delivered P Q .readFrom (afterHandshake P 0) exHistory).map (·.payload) = [2, 1, 3] := by
  decide

/-- F14, the code before the repair (`dropForged = false`): on the `Read` path one forged
record latches a permanent error, and the genuine records behind it are never handed over;
`ReadFrom` drops it and carries on. -/
example :
    let g (i : Nat) : Dgram := .record ⟨1, i, true, .appData, i⟩
    let ds : List Dgram := [g 1, .record ⟨1, 2, false, .appData, 0⟩, g 2, g 3]
    (DtlcpRx.run P ⟨false, false⟩ .read (afterHandshake P 64) ds).2 = [.data 1, .error, .error, .error] ∧
    (DtlcpRx.run P ⟨false, false⟩ .readFrom (afterHandshake P 64) ds).2 = [.data 1, .timeout, .data 2, .data 3] ∧
    (DtlcpRx.run P ⟨true, true⟩ .read (afterHandshake P 64) ds).2 = [.data 1, .timeout, .data 2, .data 3] := by
  decide


/-- a non-trivial history on the tree under test: duplicates refused, old-but-inside accepted,
outside the window refused -/
example : (run P (newWindow P 128) [100, 30, 37, 37, 38, 100, 101, 37]).2 =
    [true, false, true, false, true, false, true, false] := by decide

/-- F7, the code before the repair (`newCeil = none`, `spanCeil = none`): a window created
for 128 accepts sequence number 30 again and again once the edge is at 100 — 70 behind the
edge lies inside the width 128, but `1 << 70` is 0 on a `uint64`, so the bit test never fires
and no bit is ever recorded. -/
example : (run ⟨32, none, none, 64⟩ (newWindow ⟨32, none, none, 64⟩ 128) [100, 30, 30, 30]).2 =
    [true, true, true, true] := by decide

example : ¬ (accepted ⟨32, none, none, 64⟩ (newWindow ⟨32, none, none, 64⟩ 128) [100, 30, 30]).Nodup := by decide

/-- and the spec flags exactly that history -/
example : (ReplaySpec.judge (ReplaySpec.clamp 128) ([100, 30, 30].zip [true, true, true])).map (·.1)
    = some "replay-accepted" := by decide

/-- either place of the ceiling repairs it -/
example : (run ⟨32, none, some 64, 64⟩ (newWindow ⟨32, none, some 64, 64⟩ 128) [100, 30, 30, 37, 37]).2 =
    [true, false, false, true, false] := by decide
example : (run ⟨32, some 64, none, 64⟩ (newWindow ⟨32, some 64, none, 64⟩ 128) [100, 30, 30, 37, 37]).2 =
    [true, false, false, true, false] := by decide

/-! ### the same statements about the SOURCE TEXT

`Gotlcp.Src.dtlcp.{newReplayWindow, replayWindow.span, replayWindow.check}` are regenerated
from dtlcp/replay.go by the translator `harness/cmd/go2lean` on every run (uint48/uint64 as
`BitVec 64`, `int` as `Int`, statement by statement).  `Gotlcp.Tie.Replay` proves them equal
to the model for all windows and all 64-bit sequence numbers, so the refinement and the
property hold of the function text that is in the tree now — not only of a transcription
that a differential run compares on samples. -/

theorem C16_src_translated :
    Src.untranslated = [] ∧ Tie.Replay.P = P := ⟨by decide, rfl⟩

/-- Refinement for the translated source, all arguments of `newReplayWindow`, all delivery
histories of 64-bit sequence numbers of any length. -/
theorem C16_src_window_refines (n : Int) (ss : List (BitVec 64)) :
    (Tie.Replay.srcRun (Src.dtlcp.newReplayWindow n) ss).2
      = (ReplaySpec.run (ReplaySpec.clamp n) [] (ss.map (·.toNat))).2 := by
  rw [Tie.Replay.tie_run_new]
  exact C16_window_refines n _

/-- The property as the oracle judges it holds of the translated source for all histories:
no replay accepted, no fresh number inside the demanded window refused. -/
theorem C16_src_window_property (n : Int) (ss : List (BitVec 64)) :
    ReplaySpec.judge (ReplaySpec.clamp n)
      ((ss.map (·.toNat)).zip (Tie.Replay.srcRun (Src.dtlcp.newReplayWindow n) ss).2) = none := by
  rw [Tie.Replay.tie_run_new]
  exact C16_window_property n _

/-- the translated `check` itself, one step, any reachable window -/
theorem C16_src_check_is_model (w : Src.dtlcp.replayWindow) (seq : BitVec 64) (h : 0 ≤ w.size) :
    (Tie.Replay.abs (Src.dtlcp.replayWindow.check w seq).1, (Src.dtlcp.replayWindow.check w seq).2)
      = check P (Tie.Replay.abs w) seq.toNat :=
  (Tie.Replay.tie_check w seq h).1

/-- non-vacuity: the translated code run on a concrete history (kernel evaluation) -/
example : (Tie.Replay.srcRun (Src.dtlcp.newReplayWindow 128) [100#64, 30#64, 37#64, 37#64, 38#64, 100#64, 101#64, 37#64]).2 =
    [true, false, true, false, true, false, true, false] := by decide

end Gotlcp.Props.C16

/-
C09, property theorems about the TRANSLATED cryptobyte-based decoders (part SH; see DESIGN.md 12.4).
Same namespace as Props/C09.lean; listed in checks/C09.json under extra_props_files.

`serverHelloMsg.unmarshal` of both stacks, as go2lean re-reads it from /repo on every run
(`Gotlcp.Src.tlcp.codec` / `Gotlcp.Src.dtlcp.codec`): for EVERY receiver value and EVERY byte string the
translated function returns `.ok _`.  `Except.error` would be a Go run-time panic (the only checked
helper left after the cbString stubs are `Go.slice` in `dtlcpUnmarshalHeader`, `Go.idx` in
`tlcpIsCompleteMessage` / `dtlcpIsCompleteMessage`) or "loop fuel exhausted" (the translator bounds
`for !extensions.Empty()` by `len(data)+1` rounds): the decoder can neither panic nor spin.
No hypothesis on the length of `data` is needed.
-/
import Gotlcp.Tie.CodecSHDtlcp

namespace Gotlcp.Props.C09
open Gotlcp Gotlcp.Tie.CodecSH

/-- tlcp `serverHelloMsg.unmarshal`: never a panic, never out of loop fuel; the value is the closed form
`shT` (header guard, then the body decoder `decBody` shared by both stacks) -/
theorem C09_src_no_panic_serverHelloMsg_unmarshal_tlcp (m : Src.tlcp.codec.serverHelloMsg) (data : List (BitVec 8)) :
    (∃ r, Src.tlcp.codec.serverHelloMsg.unmarshal m data = .ok r) ∧
    Src.tlcp.codec.serverHelloMsg.unmarshal m data = .ok (shT m data) :=
  ⟨⟨_, tie_serverHello m data⟩, tie_serverHello m data⟩

/-- dtlcp `serverHelloMsg.unmarshal` (through `dtlcpIsCompleteMessage` and `dtlcpUnmarshalHeader`) -/
theorem C09_src_no_panic_serverHelloMsg_unmarshal_dtlcp (m : Src.dtlcp.codec.serverHelloMsg) (data : List (BitVec 8)) :
    (∃ r, Src.dtlcp.codec.serverHelloMsg.unmarshal m data = .ok r) ∧
    Src.dtlcp.codec.serverHelloMsg.unmarshal m data = .ok (Tie.CodecSHDtlcp.shD m data) :=
  ⟨⟨_, Tie.CodecSHDtlcp.tie_serverHello m data⟩, Tie.CodecSHDtlcp.tie_serverHello m data⟩

/-- `dtlcpUnmarshalHeader` as `serverHelloMsg.unmarshal` calls it (at least the twelve header bytes are
there — `dtlcpIsCompleteMessage` has checked it): the slice `s[:fragmentLength]` is guarded, no panic -/
theorem C09_src_no_panic_dtlcpUnmarshalHeader_guarded_dtlcp (data : List (BitVec 8)) (h : 12 ≤ data.length) :
    ∃ r, Src.dtlcp.codec.dtlcpUnmarshalHeader data = .ok r :=
  ⟨_, Tie.CodecSHDtlcp.hdr_eq data h⟩

/-- why the extension loop cannot spin, whatever the struct of the stack (`L`): a round that goes on to the
next one has taken at least four bytes off `extensions` (type and length prefix), and never leaves a
pending `return` behind -/
theorem C09_src_serverHello_extension_round_consumes {M : Type} (L : Lens M) (s s' : St M)
    (h : stepG L s = .yield s') : s'.1 = none ∧ s'.2.2.length + 4 ≤ s.2.2.length :=
  stepG_yield L s s' h

/-- … so `len(extensions)+1` rounds (the translator allows `len(data)+1`) always reach `break` with nothing
left, or `return false` -/
theorem C09_src_serverHello_extension_loop_ends {M : Type} (L : Lens M) (n : Nat) (s : St M)
    (h : s.2.2.length < n) :
    ((iter (stepG L) n s).1 = none ∧ (iter (stepG L) n s).2.2 = []) ∨
      ∃ m', (iter (stepG L) n s).1 = some (m', false) :=
  iter_fuel L n s h

/-! non-vacuity: a ServerHello with status_request, ALPN, server_name and an unknown extension is
DECODED by the translated text (all nine fields), and the same message with one byte inside the
server_name extension is REFUSED — neither is "just not a panic" -/

/-- tlcp framing: type 2, length 69 -/
def shFullT : List (BitVec 8) :=
  [2, 0, 0, 69, 1, 1] ++ List.replicate 32 7 ++ [0, 0xe0, 0x13, 0, 0, 29,
    0, 5, 0, 7, 1, 0, 0, 3, 0xaa, 0xbb, 0xcc, 0, 16, 0, 5, 0, 3, 2, 0x68, 0x32, 0, 0, 0, 0, 0xff, 1, 0, 1, 9]

/-- dtlcp framing: type 2, length 69, message_seq 1, fragment_offset 0, fragment_length 69 -/
def shFullD : List (BitVec 8) :=
  [2, 0, 0, 69, 0, 1, 0, 0, 0, 0, 0, 69, 1, 1] ++ List.replicate 32 7 ++ [0, 0xe0, 0x13, 0, 0, 29,
    0, 5, 0, 7, 1, 0, 0, 3, 0xaa, 0xbb, 0xcc, 0, 16, 0, 5, 0, 3, 2, 0x68, 0x32, 0, 0, 0, 0, 0xff, 1, 0, 1, 9]

/-- server_name with a non-empty body -/
def shBadT : List (BitVec 8) :=
  [2, 0, 0, 45, 1, 1] ++ List.replicate 32 7 ++ [0, 0xe0, 0x13, 0, 0, 5, 0, 0, 0, 1, 9]

example : Tie.UnmarshalTlcp.isOk (Src.tlcp.codec.serverHelloMsg.unmarshal {} shFullT)
    ({ raw := shFullT, vers := 0x0101#16, random := List.replicate 32 7, sessionId := [], cipherSuite := 0xe013#16,
       compressionMethod := 0, ocspStapling := true, ocspResponse := [0xaa, 0xbb, 0xcc],
       alpnProtocol := [0x68, 0x32], serverNameAck := true }, true) = true := by decide

example : Tie.UnmarshalTlcp.isOk (Src.dtlcp.codec.serverHelloMsg.unmarshal {} shFullD)
    ({ raw := shFullD, vers := 0x0101#16, random := List.replicate 32 7, sessionId := [], cipherSuite := 0xe013#16,
       compressionMethod := 0, ocspStapling := true, ocspResponse := [0xaa, 0xbb, 0xcc],
       alpnProtocol := [0x68, 0x32], serverNameAck := true, messageSeq := 1, fragmentOffset := 0,
       fragmentLength := 69 }, true) = true := by decide

example : Tie.UnmarshalTlcp.isOk (Src.tlcp.codec.serverHelloMsg.unmarshal {} shBadT)
    ({ raw := shBadT, vers := 0x0101#16, random := List.replicate 32 7, sessionId := [], cipherSuite := 0xe013#16,
       compressionMethod := 0 }, false) = true := by decide

end Gotlcp.Props.C09

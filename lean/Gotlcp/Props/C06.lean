/-
C06 — the protected stream is delivered exactly, in order, within record size limits
(TLCP stream stack).

Property theorems only (helpers are in `Gotlcp.Lemmas.C06Tx` / `C06Rx`).  The models are
`Gotlcp.Model.RecordTx` (sender: `maxPayloadSizeForWrite`, the split loop of
`writeRecordLocked`, ciphertext lengths of `encrypt`) and `Gotlcp.Model.RecordRx` (receiver:
`readFromUntil`/`atLeastReader`/`rawInput`, `readRecordOrCCS`, `Conn.Read`; and
`Model.RecordRxHandshake`: the same receive path while the handshake is still running,
`readFinished`, and the hand-over to `Conn.Read` at the end of `handshake()`; and
`Model.RecordDuplex`: both directions of one endpoint, `CloseWrite`/`closeNotify`), instantiated
with the regenerated source facts (`factsTx`, `factsRx`).  Statements quantify over every
write size and content, every sender state (`bytesSent`, `packetsSent`), dynamic record
sizing on or off, every protection mode, every chunking of the wire — the end of the transport's
stream reported with the last chunk or after it — and every sequence of read-buffer sizes.  Record protection itself is a parameter (`dec`), see C04.
-/
import Gotlcp.Lemmas.C06Tx
import Gotlcp.Lemmas.C06Rx
import Gotlcp.Lemmas.C06Compose
import Gotlcp.Lemmas.C06Handshake
import Gotlcp.Model.RecordTxFacts
import Gotlcp.Model.RecordRxFacts
import Gotlcp.Model.RecordRxStall
import Gotlcp.Generated.Facts
import Gotlcp.Tie.RecordSize

set_option linter.unusedSimpArgs false
set_option linter.unusedVariables false

namespace Gotlcp.Props.C06
open Gotlcp.Model
open Gotlcp.Model.RecordTx
open Gotlcp.Model.RecordRx
open Gotlcp.Lemmas.C06Tx
open Gotlcp.Lemmas.C06Rx
open Gotlcp.Lemmas.C06Compose
open Gotlcp.Lemmas.C06Hs
open Gotlcp

/-- the facts of the source the other theorems rely on.  The statements of
`maxPayloadSizeForWrite` (early returns, base expression, what each cipher case subtracts, the
`pkt > 1000` guard, the ramp and the cap) are NOT pinned by text-matching facts any more (the
informational `Facts.tlcp.mps*`): the function and `halfConn.explicitNonceLen` are translated on
every run and `Gotlcp.Tie.RecordSize.Tlcp` proves the translated text equal to `maxPayload factsTx`
for all inputs (`C06_src_*` below, with the guard literal `Model.RecordTx.treePktGuard`), so a
renaming or an equivalent re-arrangement passes and a semantic change breaks the tie.  Pinned here:
the named constants (evaluated by go/types, not matched as text) and the statements of the code that
is NOT translated (split loop, `encrypt`, the receive path, `Conn.Read`, the AEAD wrapper). -/
theorem C06_facts :
    Facts.tlcp.maxPlaintext = 16384 ∧ Facts.tlcp.maxCiphertext = 18432 ∧
    Facts.tlcp.recordHeaderLen = 5 ∧ Facts.tlcp.tcpMSSEstimate = 1208 ∧
    Facts.tlcp.recordSizeBoostThreshold = 131072 ∧
    Facts.tlcp.aeadNonceLength = 12 ∧ Facts.tlcp.noncePrefixLength = 4 ∧
    factsTx.blockSize = 16 ∧ factsTx.macSize = 32 ∧
    Facts.tlcp.wrSplitLoop = true ∧ Facts.tlcp.wrCountsBytesSent = true ∧
    Facts.tlcp.encCbcPadding = true ∧ Facts.tlcp.encExplicitNonce = true ∧
    Facts.tlcp.aeadExplicitIsNonceMinusPrefix = true ∧
    Facts.tlcp.rxRefusesOverMaxCiphertext = true ∧ Facts.tlcp.rxRefusesOverMaxPlaintext = true ∧
    Facts.tlcp.rxReadsHeaderThenBody = true ∧ Facts.tlcp.readDrainsInput = true ∧
    Facts.tlcp.maxUselessRecords = 16 ∧ Facts.tlcp.VersionTLCP = 257 ∧
    Facts.tlcp.recordTypeAlert = 21 ∧ Facts.tlcp.recordTypeApplicationData = 23 ∧
    Facts.tlcp.recordTypeChangeCipherSpec = 20 ∧ Facts.tlcp.alertCloseNotify = 0 ∧
    Facts.tlcp.recordTypeHandshake = 22 ∧ Facts.tlcp.typeFinished = 20 ∧
    Facts.tlcp.maxHandshake = 65536 ∧ Facts.tlcp.finishedVerifyLength = 12 ∧
    -- frame condition of the handshake/application boundary: only the record layer mentions
    -- `c.rawInput` (what `readFromUntil` buffered ahead is not the handshake's to discard)
    Facts.tlcp.rxRawInputUsers =
      ["Conn.Read", "Conn.newRecordHeaderError", "Conn.readFromUntil", "Conn.readRecordOrCCS"] ∧
    -- `atLeastReader.Read` as transcribed in `Model.RecordRx.atLeast`: the transport's io.EOF is an
    -- error only while bytes are missing (bytes that arrive together with io.EOF count)
    Facts.tlcp.rxAtLeastStmts = true ∧ Facts.tlcp.rxAtLeastShortOnlyWhenShort = true ∧
    -- frame condition of the half-close: the library moves a transport deadline on its own in
    -- `closeNotify` only, and only the write deadline (the other three are the pass-through setters)
    Facts.tlcp.rxDeadlineCalls =
      ["Conn.SetDeadline:SetDeadline", "Conn.SetReadDeadline:SetReadDeadline",
       "Conn.SetWriteDeadline:SetWriteDeadline", "Conn.closeNotify:SetWriteDeadline",
       "Conn.closeNotify:SetWriteDeadline"] ∧
    Facts.missing = [] := by decide

/-! ### sender -/

theorem payloadBytes_facts (k : Kind) :
    payloadBytes factsTx k = (match k with | .none => 1203 | .aead => 1179 | .cbc => 1151) := by
  cases k <;> decide

/-- **Progress.** For every sender state, protection mode and setting, the maximum payload of
the next record is positive — so the split loop consumes at least one byte per record and
terminates — and never above the plaintext limit.  (CBC: `((1208−5−16) & ^15) − 1 − 32 = 1151`.) -/
theorem C06_progress (dyn : Bool) (k : Kind) (app : Bool) (s : TxState) :
    0 < (maxPayload factsTx dyn k app s).1 ∧
    (maxPayload factsTx dyn k app s).1 ≤ (Facts.tlcp.maxPlaintext : Int) := by
  have hp := payloadBytes_facts k
  have hmp : factsTx.maxPlaintext = 16384 := by decide
  have hmp' : Facts.tlcp.maxPlaintext = 16384 := by decide
  unfold maxPayload
  rw [hmp, hmp']
  split
  · simp
  · split
    · simp
    · simp only []
      split
      · simp
      · split
        · simp
        · rename_i h1 h2
          rw [hp] at h2 ⊢
          cases k <;> simp only [] at h2 ⊢ <;> constructor <;> omega

theorem goodMax (dyn : Bool) (k : Kind) (app : Bool) : GoodMax factsTx dyn k app := by
  intro s
  have := C06_progress dyn k app s
  have h : factsTx.maxPlaintext = Facts.tlcp.maxPlaintext := rfl
  rw [h]; exact this

/-- everything about one `Write` at once -/
theorem write_spec (dyn : Bool) (k : Kind) (app : Bool) (s : TxState) (data : Bytes) :
    ∃ rs s', writeRecord factsTx dyn k app s data = some (rs, data.length, s') ∧ rs.flatten = data ∧
      (∀ r ∈ rs, 0 < r.length ∧ r.length ≤ Facts.tlcp.maxPlaintext) := by
  obtain ⟨rs, s', h1, h2, h3⟩ := splitLoop_spec factsTx dyn k app (goodMax dyn k app) data.length s data (Nat.le_refl _)
  refine ⟨rs, s', ?_, h2, h3⟩
  unfold writeRecord
  rw [h1]
  simp only [sum_length_flatten, h2]

/-- **Split and concatenate.** The payloads of the records produced for one `Write`, in order,
are exactly the bytes written — for every size, content, sender state, mode and setting. -/
theorem C06_split_concat (dyn : Bool) (k : Kind) (s : TxState) (data : Bytes) :
    ∃ r, writeRecord factsTx dyn k true s data = some r ∧ r.1.flatten = data := by
  obtain ⟨rs, s', h1, h2, _⟩ := write_spec dyn k true s data
  exact ⟨_, h1, h2⟩

/-- **Write reports the full length.** -/
theorem C06_write_returns_len (dyn : Bool) (k : Kind) (s : TxState) (data : Bytes) :
    ∃ r, writeRecord factsTx dyn k true s data = some r ∧ r.2.1 = data.length := by
  obtain ⟨rs, s', h1, _, _⟩ := write_spec dyn k true s data
  exact ⟨_, h1, rfl⟩

/-- **Plaintext limit.** Every record carries between 1 and `maxPlaintext` = 16384 bytes,
dynamic record sizing on or off. -/
theorem C06_payload_le (dyn : Bool) (k : Kind) (s : TxState) (data : Bytes) :
    ∀ r, writeRecord factsTx dyn k true s data = some r →
      ∀ p ∈ r.1, 0 < p.length ∧ p.length ≤ Facts.tlcp.maxPlaintext := by
  intro r hr
  obtain ⟨rs, s', h1, _, h3⟩ := write_spec dyn k true s data
  rw [h1] at hr
  cases hr
  exact h3

/-- **Ciphertext limit.** A payload within the plaintext limit is protected into at most
`maxCiphertext` = 18432 bytes in every mode (GCM: +24; CBC: at most +64). -/
theorem C06_cipher_le (k : Kind) (n : Nat) (h : n ≤ Facts.tlcp.maxPlaintext) :
    cipherLen factsTx k n ≤ Facts.tlcp.maxCiphertext := by
  have h1 : Facts.tlcp.maxPlaintext = 16384 := by decide
  have h2 : Facts.tlcp.maxCiphertext = 18432 := by decide
  have h3 : factsTx.aeadExplicit = 8 ∧ factsTx.aeadOverhead = 16 ∧ factsTx.blockSize = 16 ∧ factsTx.macSize = 32 := by decide
  obtain ⟨a, b, c, d⟩ := h3
  rw [h1] at h
  rw [h2]
  cases k <;> simp only [cipherLen, a, b, c, d] <;> omega

/-- hence the receiver's `n > maxCiphertext` check never refuses what the sender emits -/
theorem C06_never_refused (dyn : Bool) (k : Kind) (s : TxState) (data : Bytes) :
    ∀ r, writeRecord factsTx dyn k true s data = some r →
      ∀ p ∈ r.1, cipherLen factsTx k p.length ≤ Facts.tlcp.maxCiphertext := by
  intro r hr p hp
  exact C06_cipher_le k p.length (C06_payload_le dyn k s data r hr p hp).2

/-- any sequence of `Write`s: all succeed, each reports its length, and the records in order
concatenate to the concatenation of the writes -/
theorem C06_writes_concat (dyn : Bool) (k : Kind) : ∀ (ws : List Bytes) (s : TxState),
    ∃ rs s', writes factsTx dyn k s ws = some (rs, ws.map (·.length), s') ∧ rs.flatten = ws.flatten ∧
      (∀ r ∈ rs, 0 < r.length ∧ r.length ≤ Facts.tlcp.maxPlaintext) := by
  intro ws
  induction ws with
  | nil => intro s; exact ⟨[], s, rfl, rfl, by simp⟩
  | cons d ds ih =>
    intro s
    obtain ⟨rs, s1, h1, h2, h3⟩ := write_spec dyn k true s d
    obtain ⟨rs', s2, i1, i2, i3⟩ := ih s1
    refine ⟨rs ++ rs', s2, ?_, ?_, ?_⟩
    · simp only [writes, h1, i1, List.map_cons]
    · simp [h2, i2]
    · intro r hr
      rcases List.mem_append.mp hr with h | h
      · exact h3 r h
      · exact i3 r h

set_option maxRecDepth 100000 in
example : (writeRecord factsTx false .cbc true ⟨0, 0⟩ (List.replicate 1200 7)).map
    (fun r => (r.1.map (·.length), r.2.1, r.2.2)) = some ([1151, 49], 1200, ⟨1322, 2⟩) := by decide

set_option maxRecDepth 100000 in
example : (writeRecord factsTx true .aead true ⟨7, 7⟩ (List.replicate 300 7)).map
    (fun r => (r.1.map (·.length), r.2.2)) = some ([300], ⟨7 + 5 + 324, 7⟩) := by decide

/-! ### receiver -/

theorem factsRx_ok : ParamsOK factsRx := ⟨by decide, by decide, by decide, by decide, by decide⟩

/-- **Segmentation independence.** Two transports that carry the same bytes — chunked in any
two ways, each reporting the end of the stream with its last chunk (`eofWithLast`: `n > 0` together
with `io.EOF`) or by a separate empty read — yield the same sequence of records and the same final
condition.  (`expired = false`: the application has not let the read deadline pass.) -/
theorem C06_segmentation_independent (fuel : Nat) (r1 r2 : Raw)
    (h1 : r1.expired = false) (h2 : r2.expired = false) (h : r1.all = r2.all) :
    frames factsRx fuel r1 = frames factsRx fuel r2 :=
  frames_indep factsRx (by decide) (by decide) fuel r1 r2 h1 h2 h

/-- in particular any chunking gives what parsing the concatenation gives, and so does
delivering the stream one byte at a time -/
theorem C06_segmentation_concat (fuel : Nat) (chunks : List Bytes) (e : Bool) :
    frames factsRx fuel { raw := [], chunks := chunks, eofWithLast := e } =
      frames factsRx fuel { raw := [], chunks := [chunks.flatten] } ∧
    frames factsRx fuel { raw := [], chunks := chunks.flatten.map ([·]), eofWithLast := e } =
      frames factsRx fuel { raw := [], chunks := [chunks.flatten] } := by
  constructor
  · apply C06_segmentation_independent _ _ _ rfl rfl; simp [Raw.all]
  · apply C06_segmentation_independent _ _ _ rfl rfl
    simp only [Raw.all, List.nil_append, List.flatten_cons, List.flatten_nil, List.append_nil]
    generalize chunks.flatten = w
    induction w with
    | nil => rfl
    | cons a l ih => simp [ih]

/-- **The end of the transport's stream.**  `readFromUntil(n)` (`atLeastReader.Read` under
`bytes.Buffer.ReadFrom`) on any receive half whose read deadline has not passed — any bytes already
buffered, any chunks to come, the end of the stream reported WITH the last chunk (`n > 0` and
`io.EOF` in the same transport read, which io.Reader allows) or after it: it succeeds exactly when
the requested bytes exist, then holds at least `n` bytes, and no byte is lost or reordered between
the buffer and the transport.  In particular the bytes that arrive together with `io.EOF` count. -/
theorem C06_read_from_until (r : Raw) (hx : r.expired = false) (n : Nat) :
    (r.fill factsRx n).2.2 = decide (n ≤ r.all.length) ∧
    (r.fill factsRx n).1 ++ (r.fill factsRx n).2.1.flatten = r.all ∧
    ((r.fill factsRx n).2.2 = true → n ≤ (r.fill factsRx n).1.length) := by
  have hg : factsRx.eofShortOnlyWhenShort = true := by decide
  simp only [Raw.fill, hg, hx]
  exact ⟨fill_ok _ _ _ _, fill_all _ _ _ _ _ _, fill_len _ _ _ _⟩

/-- what the guard in `atLeastReader.Read` is for: a reader that turns EVERY `io.EOF` of the
transport into `io.ErrUnexpectedEOF` loses the last records whenever the transport hands over its
last bytes together with `io.EOF` — the record and the close-notify are completely buffered, yet
`Read` fails (and keeps failing: the error is latched). -/
example :
    let dec : Dec := fun _ _ b => some b
    let P : RecordRx.Params := { factsRx with eofShortOnlyWhenShort := false }
    let io : Raw := { raw := [], chunks := [[23, 1, 1, 0, 2], [0xaa, 0xbb, 21, 1, 1, 0, 2, 1, 0]], eofWithLast := true }
    (reads P dec { io := io } [4, 4]).1 = [([], some .unexpectedEOF), ([], some .unexpectedEOF)] ∧
    (reads factsRx dec { io := io } [4, 4]).1 = [([0xaa, 0xbb], some .eof), ([], some .eof)] := by decide

/-- **Read with any buffers.** On the stream an honest peer produced (application-data records
`ps`, then a close-notify iff `closed`, delivered in any chunks, the end of the transport's
stream reported with the last chunk (`e`) or separately), for every sequence of
non-empty read buffers: what `Read` has handed out so far, plus what is still buffered or to
come, is the concatenation of the payloads; every `Read` either returns at least one byte
without error or reports end-of-stream — never another error. -/
theorem C06_read_any_buffers (dec : Dec) (ta tl cn : UInt8)
    (hta : ta.toNat = Facts.tlcp.recordTypeApplicationData) (htl : tl.toNat = Facts.tlcp.recordTypeAlert)
    (hcn : cn.toNat = Facts.tlcp.alertCloseNotify)
    (chunks : List Bytes) (e : Bool) (ps : List Bytes) (closed : Bool)
    (hh : Honest factsRx dec ta tl cn 0 chunks.flatten ps closed)
    (bufs : List Nat) (hb : ∀ n ∈ bufs, 1 ≤ n) :
    let r := reads factsRx dec { io := { raw := [], chunks := chunks, eofWithLast := e } } bufs
    (∃ rest, delivered r.1 ++ rest = ps.flatten) ∧
    (∀ o ∈ r.1, (o.2 = none ∧ 0 < o.1.length) ∨ o.2 = some .eof) := by
  intro r
  have hinv : Inv factsRx dec ta tl cn ps.flatten
      ({ io := { raw := [], chunks := chunks, eofWithLast := e } } : Rx) [] := by
    left
    refine ⟨rfl, rfl, ps, closed, ?_, by simp⟩
    simpa [Raw.all] using hh
  obtain ⟨i1, i2, _⟩ := reads_honest factsRx dec factsRx_ok ta tl cn hta htl hcn ps.flatten bufs _ [] hb hinv
  refine ⟨?_, i2⟩
  simp only [List.nil_append] at i1
  rcases i1 with ⟨_, _, ps', c, _, hD⟩ | ⟨_, _, hD⟩
  · exact ⟨_, by rw [← hD, List.append_assoc]⟩
  · exact ⟨[], by simpa using hD⟩

/-- **End-of-stream only after all data.** If any `Read` of the sequence reports end-of-stream
(close-notify seen, or the transport ended at a record boundary), everything that was sent
has been handed out before — including when the close-notify was picked up by the look-ahead
of the `Read` that returned the last bytes. -/
theorem C06_close_after_last (dec : Dec) (ta tl cn : UInt8)
    (hta : ta.toNat = Facts.tlcp.recordTypeApplicationData) (htl : tl.toNat = Facts.tlcp.recordTypeAlert)
    (hcn : cn.toNat = Facts.tlcp.alertCloseNotify)
    (chunks : List Bytes) (e : Bool) (ps : List Bytes) (closed : Bool)
    (hh : Honest factsRx dec ta tl cn 0 chunks.flatten ps closed)
    (bufs : List Nat) (hb : ∀ n ∈ bufs, 1 ≤ n)
    (heof : ∃ o ∈ (reads factsRx dec { io := { raw := [], chunks := chunks, eofWithLast := e } } bufs).1, o.2 = some .eof) :
    delivered (reads factsRx dec { io := { raw := [], chunks := chunks, eofWithLast := e } } bufs).1 = ps.flatten := by
  have hinv : Inv factsRx dec ta tl cn ps.flatten
      ({ io := { raw := [], chunks := chunks, eofWithLast := e } } : Rx) [] := by
    left
    refine ⟨rfl, rfl, ps, closed, ?_, by simp⟩
    simpa [Raw.all] using hh
  obtain ⟨_, _, i3⟩ := reads_honest factsRx dec factsRx_ok ta tl cn hta htl hcn ps.flatten bufs _ [] hb hinv
  simpa using i3 heof

/-- since every error-free `Read` yields at least one byte, a reader that keeps reading sees
end-of-stream after at most `|stream| + 1` reads — and by then has everything -/
theorem C06_read_eventually (dec : Dec) (ta tl cn : UInt8)
    (hta : ta.toNat = Facts.tlcp.recordTypeApplicationData) (htl : tl.toNat = Facts.tlcp.recordTypeAlert)
    (hcn : cn.toNat = Facts.tlcp.alertCloseNotify)
    (chunks : List Bytes) (e : Bool) (ps : List Bytes) (closed : Bool)
    (hh : Honest factsRx dec ta tl cn 0 chunks.flatten ps closed)
    (bufs : List Nat) (hb : ∀ n ∈ bufs, 1 ≤ n) (hlen : ps.flatten.length < bufs.length) :
    delivered (reads factsRx dec { io := { raw := [], chunks := chunks, eofWithLast := e } } bufs).1 = ps.flatten := by
  by_cases heof : ∃ o ∈ (reads factsRx dec { io := { raw := [], chunks := chunks, eofWithLast := e } } bufs).1, o.2 = some .eof
  · exact C06_close_after_last dec ta tl cn hta htl hcn chunks e ps closed hh bufs hb heof
  · -- no end-of-stream: every read returned at least one byte, more than were ever sent
    exfalso
    obtain ⟨⟨rest, hpre⟩, hall⟩ := C06_read_any_buffers dec ta tl cn hta htl hcn chunks e ps closed hh bufs hb
    have hcount : ∀ (outs : List (Bytes × Option RxErr)),
        (∀ o ∈ outs, (o.2 = none ∧ 0 < o.1.length) ∨ o.2 = some .eof) →
        (¬ ∃ o ∈ outs, o.2 = some .eof) → outs.length ≤ (delivered outs).length := by
      intro outs
      induction outs with
      | nil => intro _ _; simp [delivered]
      | cons o os ih =>
        intro h1 h2
        have ho := h1 o List.mem_cons_self
        have hne : ¬ o.2 = some .eof := fun h => h2 ⟨o, List.mem_cons_self, h⟩
        have hpos : 0 < o.1.length := by
          rcases ho with ⟨_, h⟩ | h
          · exact h
          · exact absurd h hne
        have := ih (fun x hx => h1 x (List.mem_cons_of_mem _ hx))
          (fun ⟨x, hx, he⟩ => h2 ⟨x, List.mem_cons_of_mem _ hx, he⟩)
        simp only [delivered, List.map_cons, List.flatten_cons, List.length_append, List.length_cons] at this ⊢
        omega
    have hl : ∀ (bufs : List Nat) (s : Rx), (reads factsRx dec s bufs).1.length = bufs.length := by
      intro bufs
      induction bufs with
      | nil => intro s; rfl
      | cons n ns ih => intro s; simp [reads, ih]
    have h1 := hcount _ hall heof
    rw [hl] at h1
    have h2 := congrArg List.length hpre
    simp only [List.length_append] at h2
    omega

/-- the hypotheses are satisfiable: two records and a close-notify, delivered in awkward
chunks and read with 1-, 2- and 3-byte buffers (protection = identity) -/
example :
    let dec : Dec := fun _ _ b => some b
    let wire : Bytes := [23, 1, 1, 0, 2, 0xaa, 0xbb] ++ [23, 1, 1, 0, 3, 1, 2, 3] ++ [21, 1, 1, 0, 2, 1, 0]
    Honest factsRx dec 23 21 0 0 wire [[0xaa, 0xbb], [1, 2, 3]] true ∧
    (reads factsRx dec { io := { raw := [], chunks := [[23, 1, 1], [0, 2, 0xaa, 0xbb, 23, 1], [1, 0, 3, 1, 2, 3, 21, 1, 1, 0, 2, 1, 0]] } } [1, 2, 3, 1]).1
      = [([0xaa], none), ([0xbb], none), ([1, 2, 3], some .eof), ([], some .eof)] := by
  intro dec wire
  refine ⟨⟨[0xaa, 0xbb], [23, 1, 1, 0, 3, 1, 2, 3] ++ [21, 1, 1, 0, 2, 1, 0], by decide, rfl, by decide, by decide,
    ⟨[1, 2, 3], [21, 1, 1, 0, 2, 1, 0], by decide, rfl, by decide, by decide, ⟨[1, 0], [], 1, by decide, rfl⟩⟩⟩, by decide⟩

/-! ### sender and receiver composed -/

/-- Record protection as the stream sees it, for protection mode `k`: `enc seq typ p` is the
protected fragment `halfConn.encrypt` produces for payload `p` of record type `typ` at write
sequence number `seq`, `dec seq typ c` what `halfConn.decrypt` answers at read sequence number
`seq`.  The two laws are hypotheses, not axioms: `roundtrip` is C04's `C04_record_roundtrip`
(the receiver, expecting the sequence number the sender used, gets the payload back) and `len`
is the length of `encrypt`'s output (`C06_facts` pins its arithmetic; the correspondence runs
compare it with the real `encrypt`).  Instances below show they are jointly satisfiable in
every mode. -/
structure Codec (k : Kind) where
  enc : Nat → UInt8 → Bytes → Bytes
  dec : Dec
  roundtrip : ∀ seq typ p, dec seq typ (enc seq typ p) = some p
  len : ∀ seq typ p, (enc seq typ p).length = cipherLen factsTx k p.length

def appByte : UInt8 := UInt8.ofNat Facts.tlcp.recordTypeApplicationData
def alertByte : UInt8 := UInt8.ofNat Facts.tlcp.recordTypeAlert
def closeNotifyByte : UInt8 := UInt8.ofNat Facts.tlcp.alertCloseNotify
def warningByte : UInt8 := UInt8.ofNat Facts.tlcp.alertLevelWarning

/-- the application-data records on the wire: the `i`-th record of the connection is protected
under sequence number `seq + i` -/
def wire {k : Kind} (C : Codec k) : Nat → List Bytes → Bytes
  | _, [] => []
  | seq, p :: ps => frameBytes factsRx appByte (C.enc seq appByte p) ++ wire C (seq + 1) ps

/-- what follows the data: the close-notify alert `Close`/`CloseWrite` sends (under the next
sequence number), or nothing when the transport is simply shut -/
def ending {k : Kind} (C : Codec k) (seq : Nat) (closed : Bool) : Bytes :=
  if closed then frameBytes factsRx alertByte (C.enc seq alertByte [warningByte, closeNotifyByte]) else []

/-- the exact byte stream an honest sender puts on the transport for the records `recs` -/
def streamBytes {k : Kind} (C : Codec k) (recs : List Bytes) (closed : Bool) : Bytes :=
  wire C 0 recs ++ ending C recs.length closed

theorem wire_honest {k : Kind} (C : Codec k) (closed : Bool) : ∀ (recs : List Bytes) (seq : Nat),
    (∀ p ∈ recs, 0 < p.length ∧ p.length ≤ Facts.tlcp.maxPlaintext) →
    Honest factsRx C.dec appByte alertByte closeNotifyByte seq
      (wire C seq recs ++ ending C (seq + recs.length) closed) recs closed := by
  have hh : factsRx.recordHeaderLen = 5 := by decide
  have hv : factsRx.version < 65536 := by decide
  have hm : factsRx.maxCiphertext < 65536 := by decide
  have hmc : factsRx.maxCiphertext = Facts.tlcp.maxCiphertext := rfl
  intro recs
  induction recs with
  | nil =>
    intro seq _
    cases closed with
    | false => simp [wire, ending, Honest]
    | true =>
      simp only [wire, ending, List.nil_append, List.length_nil, Nat.add_zero, ↓reduceIte, Honest]
      refine ⟨C.enc seq alertByte [warningByte, closeNotifyByte], [], warningByte, ?_, C.roundtrip _ _ _⟩
      have := parseOne_frame factsRx hh hv hm alertByte (C.enc seq alertByte [warningByte, closeNotifyByte]) []
        (by rw [C.len, hmc]; exact C06_cipher_le k _ (by decide))
      simpa using this
  | cons p ps ih =>
    intro seq hall
    obtain ⟨h0, hmax⟩ := hall p List.mem_cons_self
    simp only [wire, Honest, List.append_assoc]
    refine ⟨C.enc seq appByte p, wire C (seq + 1) ps ++ ending C (seq + (p :: ps).length) closed, ?_,
      C.roundtrip _ _ _, h0, hmax, ?_⟩
    · exact parseOne_frame factsRx hh hv hm appByte _ _ (by rw [C.len, hmc]; exact C06_cipher_le k _ hmax)
    · have := ih (seq + 1) (fun q hq => hall q (List.mem_cons_of_mem _ hq))
      have he : seq + 1 + ps.length = seq + (p :: ps).length := by simp only [List.length_cons]; omega
      rw [he] at this
      exact this

/-- **Stream identity (sender ∘ transport ∘ receiver).**  For every list of `Write`s (any
sizes and contents), every sender state, dynamic record sizing on or off, every protection mode
with any protection satisfying `Codec`, closing after the last write or just shutting the
transport, every way the transport chunks the exact byte stream, the end of that stream reported
together with the last chunk (`e = true`: `n > 0` and `io.EOF` in one transport read) or by a
separate empty read, and every sequence of non-empty read buffers:
* every `Write` succeeds and returns its full length;
* what the peer's `Read`s return, concatenated, is a prefix of the concatenation of the writes
  — nothing lost, duplicated or reordered — and each `Read` either yields at least one byte
  or reports end-of-stream, never another error;
* end-of-stream is reported only after everything written has been handed out;
* a reader that performs more reads than there are bytes has read exactly what was written.
Sequence numbers: the sender protects its `i`-th record under sequence number `i`
(`wire`), the receiver presents sequence number `i` to `dec` for the `i`-th record it
opens (`readOne`); `Codec.roundtrip` is used at equal numbers only. -/
theorem C06_stream_identity (dynDisabled : Bool) (k : Kind) (C : Codec k) (s : TxState)
    (ws : List Bytes) (closed : Bool) (chunks : List Bytes) (e : Bool) (bufs : List Nat) :
    ∃ recs s', writes factsTx dynDisabled k s ws = some (recs, ws.map (·.length), s') ∧
      (chunks.flatten = streamBytes C recs closed → (∀ n ∈ bufs, 1 ≤ n) →
        let r := reads factsRx C.dec { io := { raw := [], chunks := chunks, eofWithLast := e } } bufs
        (∃ rest, delivered r.1 ++ rest = ws.flatten) ∧
        (∀ o ∈ r.1, (o.2 = none ∧ 0 < o.1.length) ∨ o.2 = some .eof) ∧
        ((∃ o ∈ r.1, o.2 = some .eof) → delivered r.1 = ws.flatten) ∧
        (ws.flatten.length < bufs.length → delivered r.1 = ws.flatten)) := by
  obtain ⟨recs, s', hw, hflat, hall⟩ := C06_writes_concat dynDisabled k ws s
  refine ⟨recs, s', hw, ?_⟩
  intro hchunks hb r
  have hta : appByte.toNat = Facts.tlcp.recordTypeApplicationData := by decide
  have htl : alertByte.toNat = Facts.tlcp.recordTypeAlert := by decide
  have hcn : closeNotifyByte.toNat = Facts.tlcp.alertCloseNotify := by decide
  have hh : Honest factsRx C.dec appByte alertByte closeNotifyByte 0 chunks.flatten recs closed := by
    have := wire_honest C closed recs 0 hall
    rw [hchunks]
    simpa [streamBytes] using this
  obtain ⟨h1, h2⟩ := C06_read_any_buffers C.dec appByte alertByte closeNotifyByte hta htl hcn chunks e recs closed hh bufs hb
  rw [hflat] at h1
  refine ⟨h1, h2, ?_, ?_⟩
  · intro heof
    rw [← hflat]
    exact C06_close_after_last C.dec appByte alertByte closeNotifyByte hta htl hcn chunks e recs closed hh bufs hb heof
  · intro hlen
    rw [← hflat] at hlen ⊢
    exact C06_read_eventually C.dec appByte alertByte closeNotifyByte hta htl hcn chunks e recs closed hh bufs hb hlen

/-! ### the two directions are independent: half-close -/

open Gotlcp.Model.RecordDuplex in
/-- **`CloseWrite` leaves the receive half alone**: no field of it changes, and the transport's
read deadline is not moved (`Facts.tlcp.rxDeadlineCalls`: `closeNotify` calls `SetWriteDeadline`
only). -/
theorem C06_closewrite_frames_read (ep : Endpoint) : (closeWrite factsDuplex ep).2.rx = ep.rx := by
  have h : factsDuplex.closeNotifyMovesReadDeadline = false := by decide
  unfold closeWrite
  split
  · rfl
  · simp [h]

open Gotlcp.Model.RecordDuplex in
theorem run_reads (dec : Dec) : ∀ (ops : List Op) (ep : Endpoint),
    (run factsRx factsDuplex dec ep ops).1 = (reads factsRx dec ep.rx (readSizes ops)).1 := by
  intro ops
  induction ops with
  | nil => intro ep; rfl
  | cons op ops ih =>
    intro ep
    cases op with
    | read n => simp only [run, readSizes, reads, RecordDuplex.read, ih]
    | closeWrite => simp only [run, readSizes, ih, C06_closewrite_frames_read]

open Gotlcp.Model.RecordDuplex in
/-- **Half-close (request / `CloseWrite` / response).**  One side of a connection performs any
sequence of `Read`s (non-empty buffers) and, at any points between them — before the first `Read`,
in the middle of the peer's stream, several times — calls `CloseWrite`; it may also have done so
before (`sent`).  The peer meanwhile makes any `Write`s and closes or just shuts the transport, and
the transport cuts the exact byte stream in any way, reporting its end with the last chunk or after
it.  Then the conclusion of `C06_stream_identity` holds for this direction as if `CloseWrite` had
never been called: every `Write` of the peer returns its length, the `Read`s deliver a prefix of the
concatenation of the writes, never an error other than end-of-stream, end-of-stream only after
everything, and everything once more reads were made than bytes were written.  Shutting down one
direction does not disturb the other. -/
theorem C06_half_close (dynDisabled : Bool) (k : Kind) (C : Codec k) (s : TxState)
    (ws : List Bytes) (closed : Bool) (chunks : List Bytes) (e : Bool) (sent : Bool) (ops : List Op) :
    ∃ recs s', writes factsTx dynDisabled k s ws = some (recs, ws.map (·.length), s') ∧
      (chunks.flatten = streamBytes C recs closed → (∀ n ∈ readSizes ops, 1 ≤ n) →
        let r := run factsRx factsDuplex C.dec
          { rx := { io := { raw := [], chunks := chunks, eofWithLast := e } }, closeNotifySent := sent } ops
        (∃ rest, delivered r.1 ++ rest = ws.flatten) ∧
        (∀ o ∈ r.1, (o.2 = none ∧ 0 < o.1.length) ∨ o.2 = some .eof) ∧
        ((∃ o ∈ r.1, o.2 = some .eof) → delivered r.1 = ws.flatten) ∧
        (ws.flatten.length < (readSizes ops).length → delivered r.1 = ws.flatten)) := by
  obtain ⟨recs, s', hw, hrest⟩ := C06_stream_identity dynDisabled k C s ws closed chunks e (readSizes ops)
  refine ⟨recs, s', hw, ?_⟩
  intro hc hb r
  have hr : r.1 = (reads factsRx C.dec { io := { raw := [], chunks := chunks, eofWithLast := e } } (readSizes ops)).1 :=
    run_reads C.dec ops _
  rw [hr]
  exact hrest hc hb

open Gotlcp.Model.RecordDuplex in
/-- non-vacuity, and what the theorem excludes.  The peer's stream (two records and a close-notify,
identity protection) is read with a `CloseWrite` before the first `Read` and another one in the
middle: exactly what was written, then end-of-stream.  With a `closeNotify` that moved the read
deadline as well (`SetDeadline` in place of `SetWriteDeadline`) the half-closed side gets nothing:
every `Read` fails with a timeout. -/
example :
    let dec : Dec := fun _ _ b => some b
    let io : Raw := { raw := [], chunks := [[23, 1, 1, 0, 2, 0xaa], [0xbb, 23, 1, 1, 0, 1, 7, 21, 1, 1, 0, 2, 1, 0]] }
    let ops : List Op := [.closeWrite, .read 1, .closeWrite, .read 8, .read 8, .read 8]
    (run factsRx factsDuplex dec { rx := { io := io } } ops).1
      = [([0xaa], none), ([0xbb], none), ([7], some .eof), ([], some .eof)] ∧
    (run factsRx ⟨["Conn.closeNotify:SetDeadline", "Conn.closeNotify:SetDeadline"]⟩ dec { rx := { io := io } } ops).1
      = [([], some .timeout), ([], some .timeout), ([], some .timeout), ([], some .timeout)] := by decide

/-! ### across the end of the handshake -/

theorem factsRx_hsok : HsOK factsRx :=
  ⟨factsRx_ok, by decide, by decide, by decide, by decide, by decide, by decide, by decide⟩

def ccsByte : UInt8 := UInt8.ofNat Facts.tlcp.recordTypeChangeCipherSpec
def hsByte : UInt8 := UInt8.ofNat Facts.tlcp.recordTypeHandshake

/-- **Nothing is lost at the end of the handshake.**  The peer sends its last handshake flight
(ChangeCipherSpec, Finished) and then application data, perhaps a close-notify (`HonestFlight`);
the transport delivers these bytes in any chunks — the Finished and the first application
records in one read, a record header split across reads, one byte at a time — and some of them
may already sit in `rawInput` when the last flight is awaited (`io` is arbitrary: only
`io.all`, buffered bytes followed by the transport's chunks, is constrained).  Then
`readFinished` succeeds, and for every sequence of non-empty read buffers the `Read`s that
follow the handshake hand out a prefix of the payloads, never an error other than
end-of-stream, end-of-stream only after the last byte, and everything after enough reads. -/
theorem C06_boundary_delivered (dec : Dec) (okFin : Bytes → Bool) (ta tl cn : UInt8)
    (hta : ta.toNat = Facts.tlcp.recordTypeApplicationData) (htl : tl.toNat = Facts.tlcp.recordTypeAlert)
    (hcn : cn.toNat = Facts.tlcp.alertCloseNotify)
    (io : Raw) (hx : io.expired = false) (ps : List Bytes) (closed : Bool)
    (hf : HonestFlight factsRx factsHs dec okFin ccsByte hsByte ta tl cn io.all ps closed)
    (bufs : List Nat) (hb : ∀ n ∈ bufs, 1 ≤ n) :
    let r := lastFlightThenReads factsRx factsHs dec okFin { io := io } bufs
    r.1 = none ∧
    (∃ rest, delivered r.2 ++ rest = ps.flatten) ∧
    (∀ o ∈ r.2, (o.2 = none ∧ 0 < o.1.length) ∨ o.2 = some .eof) ∧
    ((∃ o ∈ r.2, o.2 = some .eof) → delivered r.2 = ps.flatten) := by
  intro r
  obtain ⟨s2, h1, hinv⟩ := lastFlight_honest factsRx factsHs dec okFin factsRx_hsok ccsByte hsByte ta tl cn
    (by decide) (by decide) ({ io := io } : HsRx) rfl rfl rfl hx ps closed hf
  have hr : r = (none, (reads factsRx dec (finishHandshake s2) bufs).1) := by
    show lastFlightThenReads factsRx factsHs dec okFin { io := io } bufs = _
    unfold lastFlightThenReads
    rw [h1]
  obtain ⟨i1, i2, i3⟩ := reads_honest factsRx dec factsRx_ok ta tl cn hta htl hcn ps.flatten bufs _ [] hb hinv
  rw [hr]
  refine ⟨rfl, ?_, i2, ?_⟩
  · simp only [List.nil_append] at i1
    rcases i1 with ⟨_, _, ps', c, _, hD⟩ | ⟨_, _, hD⟩
    · exact ⟨_, by rw [← hD, List.append_assoc]⟩
    · exact ⟨[], by simpa using hD⟩
  · intro heof
    simpa using i3 heof

/-- the bytes an honest sender puts on the transport from its ChangeCipherSpec on: the
ChangeCipherSpec record (not protected), the Finished message `fin` protected under the new
keys at sequence number 0, the application records from sequence number 1, the close-notify -/
def flightBytes {k : Kind} (C : Codec k) (fin : Bytes) (recs : List Bytes) (closed : Bool) : Bytes :=
  frameBytes factsRx ccsByte [1] ++ (frameBytes factsRx hsByte (C.enc 0 hsByte fin) ++
    (wire C 1 recs ++ ending C (1 + recs.length) closed))

/-- a well-formed Finished message: header `[typeFinished, 0, 0, |verify data|]` and a body of
that length (12 bytes in TLCP, pinned by `C06_facts`; the lemma needs only that it fits) -/
def finishedMsg (verify : Bytes) : Bytes :=
  [UInt8.ofNat Facts.tlcp.typeFinished, 0, 0, UInt8.ofNat verify.length] ++ verify

theorem flight_honest {k : Kind} (C : Codec k) (okFin : Bytes → Bool) (verify : Bytes)
    (hv : verify.length = Facts.tlcp.finishedVerifyLength) (hok : okFin (finishedMsg verify) = true)
    (recs : List Bytes) (closed : Bool)
    (hall : ∀ p ∈ recs, 0 < p.length ∧ p.length ≤ Facts.tlcp.maxPlaintext) :
    HonestFlight factsRx factsHs C.dec okFin ccsByte hsByte appByte alertByte closeNotifyByte
      (flightBytes C (finishedMsg verify) recs closed) recs closed := by
  have hh : factsRx.recordHeaderLen = 5 := by decide
  have hver : factsRx.version < 65536 := by decide
  have hm : factsRx.maxCiphertext < 65536 := by decide
  have hmc : factsRx.maxCiphertext = Facts.tlcp.maxCiphertext := rfl
  have hvl : Facts.tlcp.finishedVerifyLength = 12 := by decide
  rw [hvl] at hv
  have hfl : (finishedMsg verify).length = 16 := by simp [finishedMsg, hv]
  have hg1 : (finishedMsg verify).getD 1 0 = 0 := rfl
  have hg2 : (finishedMsg verify).getD 2 0 = 0 := rfl
  have hg3 : (finishedMsg verify).getD 3 0 = 12 := by simp [finishedMsg, hv]
  have hbe : be24 ((finishedMsg verify).getD 1 0) ((finishedMsg verify).getD 2 0) ((finishedMsg verify).getD 3 0) = 12 := by
    rw [hg1, hg2, hg3]; decide
  unfold HonestFlight flightBytes
  refine ⟨frameBytes factsRx hsByte (C.enc 0 hsByte (finishedMsg verify)) ++
      (wire C 1 recs ++ ending C (1 + recs.length) closed), C.enc 0 hsByte (finishedMsg verify),
    wire C 1 recs ++ ending C (1 + recs.length) closed, finishedMsg verify,
    ?_, ?_, C.roundtrip _ _ _, ?_, ?_, ?_, ?_, hok, ?_⟩
  · exact parseOne_frame factsRx hh hver hm ccsByte [1] _ (by decide)
  · exact parseOne_frame factsRx hh hver hm hsByte _ _
      (by rw [C.len, hmc]; exact C06_cipher_le k _ (by rw [hfl]; decide))
  · rw [hbe, hfl]
  · rw [hbe]; decide
  · rw [hfl]; decide
  · simp only [finishedMsg, List.cons_append, List.getD_cons_zero]; decide
  · exact wire_honest C closed recs 1 hall

/-- **Stream identity across the end of the handshake (sender ∘ transport ∘ receiver).**  As
`C06_stream_identity`, for a connection whose peer sends the last handshake flight and then
writes at once (the client of a resumed session, the server of a full handshake): the
sender's ChangeCipherSpec, Finished and application records (the `i`-th under sequence number
`i`, the Finished having taken 0) reach the receiver's transport as one byte stream cut into
arbitrary chunks, with any part of it already buffered.  The receiver's handshake completes,
and its `Read`s — any non-empty buffers — return a prefix of the concatenation of the writes,
never an error other than end-of-stream, end-of-stream only after everything, and everything
once more reads were made than bytes were written. -/
theorem C06_stream_identity_across_handshake (dynDisabled : Bool) (k : Kind) (C : Codec k) (s : TxState)
    (okFin : Bytes → Bool) (verify : Bytes) (hv : verify.length = Facts.tlcp.finishedVerifyLength)
    (hok : okFin (finishedMsg verify) = true)
    (ws : List Bytes) (closed : Bool) (io : Raw) (hx : io.expired = false) (bufs : List Nat) :
    ∃ recs s', writes factsTx dynDisabled k s ws = some (recs, ws.map (·.length), s') ∧
      (io.all = flightBytes C (finishedMsg verify) recs closed → (∀ n ∈ bufs, 1 ≤ n) →
        let r := lastFlightThenReads factsRx factsHs C.dec okFin { io := io } bufs
        r.1 = none ∧
        (∃ rest, delivered r.2 ++ rest = ws.flatten) ∧
        (∀ o ∈ r.2, (o.2 = none ∧ 0 < o.1.length) ∨ o.2 = some .eof) ∧
        ((∃ o ∈ r.2, o.2 = some .eof) → delivered r.2 = ws.flatten) ∧
        (ws.flatten.length < bufs.length → delivered r.2 = ws.flatten)) := by
  obtain ⟨recs, s', hw, hflat, hall⟩ := C06_writes_concat dynDisabled k ws s
  refine ⟨recs, s', hw, ?_⟩
  intro hio hb r
  have hta : appByte.toNat = Facts.tlcp.recordTypeApplicationData := by decide
  have htl : alertByte.toNat = Facts.tlcp.recordTypeAlert := by decide
  have hcn : closeNotifyByte.toNat = Facts.tlcp.alertCloseNotify := by decide
  have hf := flight_honest C okFin verify hv hok recs closed hall
  rw [← hio] at hf
  obtain ⟨h0, h1, h2, h3⟩ := C06_boundary_delivered C.dec okFin appByte alertByte closeNotifyByte hta htl hcn
    io hx recs closed hf bufs hb
  rw [hflat] at h1 h3
  refine ⟨h0, h1, h2, h3, ?_⟩
  intro hlen
  by_cases heof : ∃ o ∈ r.2, o.2 = some .eof
  · exact h3 heof
  · exfalso
    -- no end-of-stream: every read returned at least one byte, more than were ever written
    obtain ⟨rest, hpre⟩ := h1
    have hcount : ∀ (outs : List (Bytes × Option RxErr)),
        (∀ o ∈ outs, (o.2 = none ∧ 0 < o.1.length) ∨ o.2 = some .eof) →
        (¬ ∃ o ∈ outs, o.2 = some .eof) → outs.length ≤ (delivered outs).length := by
      intro outs
      induction outs with
      | nil => intro _ _; simp [delivered]
      | cons o os ih =>
        intro h1 h2
        have ho := h1 o List.mem_cons_self
        have hne : ¬ o.2 = some .eof := fun h => h2 ⟨o, List.mem_cons_self, h⟩
        have hpos : 0 < o.1.length := by
          rcases ho with ⟨_, h⟩ | h
          · exact h
          · exact absurd h hne
        have := ih (fun x hx => h1 x (List.mem_cons_of_mem _ hx))
          (fun ⟨x, hx, he⟩ => h2 ⟨x, List.mem_cons_of_mem _ hx, he⟩)
        simp only [delivered, List.map_cons, List.flatten_cons, List.length_append, List.length_cons] at this ⊢
        omega
    have hl : ∀ (bufs : List Nat) (s : Rx), (reads factsRx C.dec s bufs).1.length = bufs.length := by
      intro bufs
      induction bufs with
      | nil => intro s; rfl
      | cons n ns ih => intro s; simp [reads, ih]
    have hrl : r.2.length = bufs.length := by
      show (lastFlightThenReads factsRx factsHs C.dec okFin { io := io } bufs).2.length = _
      have h0' : (lastFlightThenReads factsRx factsHs C.dec okFin { io := io } bufs).1 = none := h0
      unfold lastFlightThenReads at h0' ⊢
      cases hlf : readLastFlight factsRx factsHs C.dec okFin { io := io } with
      | mk e s1 =>
        rw [hlf] at h0'
        cases e with
        | some e => simp at h0'
        | none => simp only []; exact hl bufs _
    have hc := hcount _ h2 heof
    rw [hrl] at hc
    have hp := congrArg List.length hpre
    simp only [List.length_append] at hp
    omega

/-- the laws of `Codec` are satisfiable in every mode: placeholder protections with exactly the
lengths of the real ones (these are the ones the oracle runs) -/
def codecNone : Codec .none where
  enc := fun _ _ p => p
  dec := fun _ _ b => some b
  roundtrip := fun _ _ _ => rfl
  len := fun _ _ _ => rfl

def codecAead : Codec .aead where
  enc := fun _ _ p => List.replicate 8 0 ++ p ++ List.replicate 16 0
  dec := fun _ _ b => some ((b.drop 8).take (b.length - 24))
  roundtrip := by
    intro _ _ p
    have h8 : (List.replicate 8 (0 : UInt8)).length = 8 := by simp
    simp only [List.append_assoc, List.drop_left' h8, List.length_append, List.length_replicate]
    have : 8 + (p.length + 16) - 24 = p.length := by omega
    rw [this, List.take_left' rfl]
  len := by
    intro _ _ p
    have : factsTx.aeadExplicit = 8 ∧ factsTx.aeadOverhead = 16 := by decide
    simp [cipherLen, this.1, this.2]; omega

def cbcPad (n : Nat) : Nat := 16 - (n + 32) % 16

def codecCbc : Codec .cbc where
  enc := fun _ _ p => List.replicate 16 0 ++ p ++ List.replicate (32 + cbcPad p.length - 1) 0 ++
    [UInt8.ofNat (cbcPad p.length - 1)]
  dec := fun _ _ b => some ((b.drop 16).take (b.length - 48 - ((b.getLast?.getD 0).toNat + 1)))
  roundtrip := by
    intro _ _ p
    have hp : 1 ≤ cbcPad p.length ∧ cbcPad p.length ≤ 16 := by unfold cbcPad; omega
    have h16 : (List.replicate 16 (0 : UInt8)).length = 16 := by simp
    have hlast : ((List.replicate 16 (0 : UInt8) ++ p ++ List.replicate (32 + cbcPad p.length - 1) 0 ++
        [UInt8.ofNat (cbcPad p.length - 1)]).getLast?.getD 0).toNat + 1 = cbcPad p.length := by
      simp only [List.getLast?_append, List.getLast?_singleton, Option.some_or, Option.getD_some,
        UInt8.toNat_ofNat']
      omega
    rw [hlast]
    simp only [List.append_assoc, List.drop_left' h16, List.length_append, List.length_replicate,
      List.length_cons, List.length_nil]
    have : 16 + (p.length + (32 + cbcPad p.length - 1 + (0 + 1))) - 48 - cbcPad p.length = p.length := by omega
    rw [this, List.take_left' rfl]
  len := by
    intro _ _ p
    have : factsTx.blockSize = 16 ∧ factsTx.macSize = 32 := by decide
    have hp : 1 ≤ cbcPad p.length := by unfold cbcPad; omega
    simp only [cipherLen, this.1, this.2, List.length_append, List.length_replicate, List.length_cons,
      List.length_nil]
    unfold cbcPad at hp ⊢
    omega

/-- non-vacuity of `C06_stream_identity`: three writes (one empty) in GCM mode with dynamic
sizing, closed, delivered in 3-byte chunks and read with buffers 2,1,5,…: the hypothesis
holds and the reads return exactly what was written, then end-of-stream -/
example :
    let ws : List Bytes := [[1, 2, 3], [], [4, 5]]
    let recs : List Bytes := [[1, 2, 3], [4, 5]]
    let w := streamBytes codecAead recs true
    let chunks : List Bytes := [w.take 3, (w.drop 3).take 3, (w.drop 6).take 30, w.drop 36]
    (writes factsTx false .aead ⟨0, 0⟩ ws).map (·.1) = some recs ∧
    chunks.flatten = w ∧
    (reads factsRx codecAead.dec { io := { raw := [], chunks := chunks } } [2, 1, 5, 5]).1
      = [([1, 2], none), ([3], none), ([4, 5], some .eof), ([], some .eof)] ∧
    -- the same when the transport reports the end of its stream together with the last chunk
    (reads factsRx codecAead.dec { io := { raw := [], chunks := chunks, eofWithLast := true } } [2, 1, 5, 5]).1
      = [([1, 2], none), ([3], none), ([4, 5], some .eof), ([], some .eof)] := by decide

set_option maxRecDepth 100000 in
/-- non-vacuity, on the case the boundary is about: GCM placeholder protection, the peer's
ChangeCipherSpec + Finished + two application records + close-notify; the first transport
read carries the whole last flight and the first 7 bytes of the first application record
(header and two bytes of the body), and 3 bytes were already buffered.  The handshake
completes and the reads return exactly what was written, then end-of-stream. -/
example :
    let verify : Bytes := List.replicate 12 0xab
    let recs : List Bytes := [[1, 2, 3], [4, 5]]
    let w := flightBytes codecAead (finishedMsg verify) recs true
    let io : Raw := { raw := w.take 3, chunks := [(w.drop 3).take (6 + 45 + 7 - 3), (w.drop (6 + 45 + 7)).take 30, w.drop (6 + 45 + 7 + 30)], eofWithLast := true }
    io.all = w ∧
    lastFlightThenReads factsRx factsHs codecAead.dec (fun _ => true) { io := io } [2, 1, 5, 5]
      = (none, [([1, 2], none), ([3], none), ([4, 5], some .eof), ([], some .eof)]) := by decide

set_option maxRecDepth 100000 in
/-- and what the theorem excludes: a hand-over that empties `rawInput` (here: the same run, but
`Conn.Read` starts from the transport alone) loses the buffered bytes — the first `Read`
fails on what is left of the first application record. -/
example :
    let verify : Bytes := List.replicate 12 0xab
    let w := flightBytes codecAead (finishedMsg verify) [[1, 2, 3], [4, 5]] true
    let io : Raw := { raw := [], chunks := [w.take (6 + 45 + 7), w.drop (6 + 45 + 7)] }
    let s1 := (readLastFlight factsRx factsHs codecAead.dec (fun _ => true) { io := io }).2
    s1.io.raw.length = 7 ∧
    ((reads factsRx codecAead.dec { finishHandshake s1 with io := { raw := [], chunks := s1.io.chunks } } [5]).1.map (·.2))
      = [some .badVersion] := by decide

/-! ### the sender's size arithmetic, about the SOURCE TEXT

`Gotlcp.Src.tlcp.{halfConn.explicitNonceLen, Conn.maxPayloadSizeForWrite}` are regenerated from
tlcp/conn.go by the translator `harness/cmd/go2lean` on every run, statement by statement, over
*views* of `Conn` / `halfConn` (only the fields the two functions read; `Dyn` is the dynamic type
of the interface value `c.out.cipher`; the `int64` counters are `BitVec 64` with signed
comparisons; `x & ^(b-1)` is two's complement on 64 bits).  `Gotlcp.Tie.RecordSize` proves them
equal to `Model.RecordTx` for every view in the stated ranges, so the size theorems above hold of
the function text that is in the tree now. -/

theorem C06_src_translated :
    Src.untranslated = [] ∧ Tie.RecordSize.Tlcp.P = factsTx := ⟨by decide, rfl⟩

open Gotlcp.Tie.RecordSize.Tlcp in
/-- **The translated `maxPayloadSizeForWrite` is the model**: for every view of a connection whose
`c.out` is unprotected, SM4-GCM or SM4-CBC-SM3 with the size parameters of `factsTx`
(`Matches`), every pair of non-negative counters, dynamic record sizing on or off, every record
type — same size, same successor counters, nothing else of the view touched. -/
theorem C06_src_max_payload_is_model (c : Src.tlcp.Conn) (typ : BitVec 8) (k : Kind)
    (hm : Matches c.out k) (hp : 0 ≤ c.packetsSent.toInt) (hb : 0 ≤ c.bytesSent.toInt) :
    ∃ c' n, Src.tlcp.Conn.maxPayloadSizeForWrite c typ = .ok (c', n) ∧
      (n, abs c') = maxPayload factsTx c.config.DynamicRecordSizingDisabled k (typ == 23#8) (abs c) ∧
      c'.config = c.config ∧ c'.out = c.out ∧ c'.bytesSent = c.bytesSent :=
  tie_maxPayloadSizeForWrite c typ k hm hp hb

open Gotlcp.Tie.RecordSize.Tlcp in
/-- the translated `explicitNonceLen` is the model's -/
theorem C06_src_explicit_nonce (hc : Src.tlcp.halfConn) (k : Kind) (hm : Matches hc k) :
    Src.tlcp.halfConn.explicitNonceLen hc = .ok (explicitNonceLen factsTx k : Int) :=
  tie_explicitNonceLen hc k hm

open Gotlcp.Tie.RecordSize.Tlcp in
/-- **Progress and plaintext limit, for the source text** (`C06_progress`): for every such view
the translated `maxPayloadSizeForWrite` returns a size in `[1, maxPlaintext]`. -/
theorem C06_src_progress (c : Src.tlcp.Conn) (typ : BitVec 8) (k : Kind)
    (hm : Matches c.out k) (hp : 0 ≤ c.packetsSent.toInt) (hb : 0 ≤ c.bytesSent.toInt) :
    ∃ c' n, Src.tlcp.Conn.maxPayloadSizeForWrite c typ = .ok (c', n) ∧
      0 < n ∧ n ≤ (Facts.tlcp.maxPlaintext : Int) := by
  obtain ⟨c', n, h, he, _⟩ := tie_maxPayloadSizeForWrite c typ k hm hp hb
  have := C06_progress c.config.DynamicRecordSizingDisabled k (typ == 23#8) (abs c)
  have hn : n = (maxPayload factsTx c.config.DynamicRecordSizingDisabled k (typ == 23#8) (abs c)).1 :=
    congrArg Prod.fst he
  exact ⟨c', n, h, by rw [hn]; exact this.1, by rw [hn]; exact this.2⟩

open Gotlcp.Tie.RecordSize.Tlcp in
/-- **Ciphertext limit, for the source text** (`C06_cipher_le`): a record of at most the size the
translated function returns is protected into at most `maxCiphertext` bytes. -/
theorem C06_src_cipher_le (c : Src.tlcp.Conn) (typ : BitVec 8) (k : Kind)
    (hm : Matches c.out k) (hp : 0 ≤ c.packetsSent.toInt) (hb : 0 ≤ c.bytesSent.toInt) :
    ∃ c' n, Src.tlcp.Conn.maxPayloadSizeForWrite c typ = .ok (c', n) ∧
      ∀ m : Nat, (m : Int) ≤ n → cipherLen factsTx k m ≤ Facts.tlcp.maxCiphertext := by
  obtain ⟨c', n, h, _, hle⟩ := C06_src_progress c typ k hm hp hb
  refine ⟨c', n, h, fun m hmn => C06_cipher_le k m ?_⟩
  omega

open Gotlcp.Tie.RecordSize.Tlcp in
/-- **No panic**: for EVERY view — any dynamic type of `c.out.cipher` (also `goStream`, which no
TLCP suite installs), any sizes, any counters (also negative), any record type — both translated
functions return normally: `default: panic("unknown cipher type")` is reached by no value. -/
theorem C06_src_no_panic (c : Src.tlcp.Conn) (typ : BitVec 8) :
    (∃ r, Src.tlcp.Conn.maxPayloadSizeForWrite c typ = .ok r) ∧
    (∃ n, Src.tlcp.halfConn.explicitNonceLen c.out = .ok n) :=
  ⟨⟨_, src_shape c typ⟩, ⟨_, src_nonce c.out⟩⟩

open Gotlcp.Tie.RecordSize.Tlcp in
/-- non-vacuity: an SM4-CBC-SM3 view satisfies the hypotheses, and the translated code run on it
(kernel evaluation) gives the third record of the ramp: 3 × 1151 -/
example :
    let c : Src.tlcp.Conn :=
      { out := { cipher := .goCBC ⟨16⟩, mac := ⟨32⟩ }, packetsSent := 2#64, bytesSent := 4000#64 }
    Matches c.out .cbc ∧ 0 ≤ c.packetsSent.toInt ∧ 0 ≤ c.bytesSent.toInt ∧
    (Src.tlcp.Conn.maxPayloadSizeForWrite c 23#8).toOption = some ({ c with packetsSent := 3#64 }, 3453) := by
  intro c
  exact ⟨Matches.cbc ⟨16⟩ rfl (by decide) (by decide), by decide, by decide, by decide⟩

/-! ### read time-outs (a transport that stalls while the reader's deadline fires) -/

/-- **A time-out inside `readFromUntil` loses nothing.**  On a transport that has not ended and
whose deadline had not passed before the call, `readFromUntil(n)` can only fail by running out of
chunks (the transport `Read` that finds nothing blocks until the read deadline fires).  Whatever
was buffered (`raw`) and however many chunks had arrived by then — part of a record header, a
header and any number of segments of the body — after the failing call `c.rawInput` holds exactly
`raw` followed by all of them, in order (`bytes.Buffer.ReadFrom` appends each chunk as it
receives it), and the transport has handed over nothing else. -/
theorem C06_timeout_keeps_bytes (n : Nat) (raw : Bytes) (cs : List Bytes)
    (h : (fill true false false n raw cs).2.2 = false) :
    (fill true false false n raw cs).1 = raw ++ cs.flatten ∧ (fill true false false n raw cs).2.1 = [] := by
  have hnil := fill_fail_nil false n cs raw h
  have hall := fill_all true false false n cs raw
  rw [hnil] at hall
  simp only [List.flatten_nil, List.append_nil] at hall
  exact ⟨hall, hnil⟩

theorem parseOne_err (P : RecordRx.Params) (w : Bytes) (e : RxErr) (h : (parseOne P w).1 = .err e) :
    (parseOne P w).2 = w := by
  unfold parseOne at h ⊢
  by_cases h1 : w.length < P.recordHeaderLen
  · simp only [h1, ↓reduceIte]
  · simp only [h1, ↓reduceIte] at h ⊢
    split
    · rfl
    · split
      · rfl
      · split
        · rfl
        · rename_i h2 h3 h4
          simp only [h2, h3, h4, ↓reduceIte] at h
          cases h

/-- **Framing that fails — in particular by a time-out — leaves the stream intact**: buffer plus
transport still hold every byte that was to come, in order. -/
theorem C06_timeout_keeps_stream (r : Raw) (hx : r.expired = false) (e : RxErr)
    (h : (nextFrame factsRx r).1 = .err e) : (nextFrame factsRx r).2.all = r.all := by
  have hp := nextFrame_parse factsRx (by decide) (by decide) r hx
  rw [hp.2]
  exact parseOne_err _ _ e (hp.1 ▸ h)

/-- **Time-outs commute with delivery.**  The transport stalls behind the chunks of `r` (any
bytes already buffered, any chunks: the stall may lie anywhere in a header or a body), the
reader's `Read` times out (`nextFrameS`), the reader extends its deadline and the transport
delivers the rest `b` (any chunks; the end reported with the last chunk or after it): the records
framed from then on are exactly those of a transport that delivered `r`'s chunks and `b` without
stalling.  With `C06_segmentation_independent` and `C06_read_any_buffers` (whose statements are
about the bytes still to come): a reader that extends its deadline after every time-out reads
the stream a reader without deadlines reads. -/
theorem C06_timeout_resume (r r' : Raw) (hx : r.expired = false)
    (h : nextFrameS factsRx r = (.err .timeout, r')) (b : List Bytes) (e : Bool) (fuel : Nat) :
    r'.all = r.all ∧
    frames factsRx fuel { r' with chunks := r'.chunks ++ b, eofWithLast := e } =
      frames factsRx fuel { r with chunks := r.chunks ++ b, eofWithLast := e } := by
  have key : ∃ e0, (nextFrame factsRx r).1 = .err e0 ∧ (nextFrame factsRx r).2 = r' := by
    unfold nextFrameS at h
    split at h
    · rename_i r0 heq
      exact ⟨.eof, by rw [heq], by rw [heq]; exact (Prod.mk.inj h).2⟩
    · rename_i r0 heq
      exact ⟨.unexpectedEOF, by rw [heq], by rw [heq]; exact (Prod.mk.inj h).2⟩
    · exact ⟨.timeout, by rw [h], by rw [h]⟩
  obtain ⟨e0, h1, h2⟩ := key
  have hall : r'.all = r.all := h2 ▸ C06_timeout_keeps_stream r hx e0 h1
  have hx' : r'.expired = false := by rw [← h2, (nextFrame_flags factsRx r).1, hx]
  refine ⟨hall, ?_⟩
  refine C06_segmentation_independent fuel _ _ hx' hx ?_
  simp only [Raw.all, List.flatten_append, ← List.append_assoc] at hall ⊢
  rw [hall]

/-- what the theorems exclude: a `readFromUntil` that commits the received bytes only when the
whole request was satisfied drops the three header bytes that arrived before the time-out; the
same stream — one record `aa bb` and a close-notify, the transport stalling after 3 bytes and
after 9 — is read exactly by the model of the code as written, two time-outs included. -/
example :
    (fill true false false 5 [] [[23, 1, 1]]).1 = [23, 1, 1] ∧ (fillDropping 5 [] [[23, 1, 1]]).1 = [] ∧
    (let dec : Dec := fun _ _ b => some b
     let t0 := Stalled.start [[[23, 1, 1]], [[0, 2, 0xaa], [0xbb, 21, 1]], [[1, 0, 2, 1, 0]]] true
     let r1 := t0.read factsRx dec 4
     let r2 := r1.2.2.extend.read factsRx dec 4
     let r3 := r2.2.2.extend.read factsRx dec 4
     (r1.1, r1.2.1) = ([], some .timeout) ∧ (r2.1, r2.2.1) = ([0xaa, 0xbb], some .timeout) ∧
     (r3.1, r3.2.1) = ([], some .eof)) := by decide

end Gotlcp.Props.C06

/-
C15, property theorems about the TRANSLATED sender-side handshake fragmentation
(`Src.dtlcp.tx.Conn.writeHandshakeRecord`; see DESIGN.md 12.4).  Same namespace as Props/C15.lean;
listed in checks/C15.json under extra_props_files.

`Src.dtlcp.tx.Conn.writeHandshakeRecord c msg transcript` is regenerated from dtlcp/conn.go on every run, over
the view described in `Gotlcp.Tie.TxFragment`: `c.sent` is the list of payloads handed to the record layer,
`c.writeErrAt` the call of `writeRecordLocked` that fails (negative: none).  `Except.ok` = the Go function
returns normally (no index / slice panic, the translated loop bound is never exhausted); the result is
`(c', transcript', n, err)`.
-/
import Gotlcp.Generated.Src
import Gotlcp.Tie.TxFragment
import Gotlcp.Props.C15

set_option linter.unusedSimpArgs false
set_option linter.unusedVariables false

namespace Gotlcp.Props.C15
open Gotlcp.Model.DtlcpTx
open Gotlcp.Src.dtlcp.tx
open Gotlcp.Tie.TxFragment (baseConn maxPayload txPlan okWrites sumLen)

/-- **No panic.** For every view of the connection (any PMTU, any cipher sizes, anything sent before, any
failing write), every message of at most `2^32 − 16384` bytes (whether or not `marshal()` fails) and every
transcript, the translated `writeHandshakeRecord` returns normally. -/
theorem C15_src_tx_never_panics (c : Conn) (msg : goMsg) (tr : goTranscript)
    (hlen : msg.data.length ≤ 2 ^ 32 - 16384) :
    ∃ r, Conn.writeHandshakeRecord c msg tr = .ok r :=
  ⟨_, Tie.TxFragment.src_eq c msg tr hlen⟩

/-- … in particular under the bound of the 24-bit length fields, `len(data) < 2^24 + 12` -/
theorem C15_src_tx_never_panics_u24 (c : Conn) (msg : goMsg) (tr : goTranscript)
    (hlen : msg.data.length < 2 ^ 24 + 12) :
    ∃ r, Conn.writeHandshakeRecord c msg tr = .ok r :=
  C15_src_tx_never_panics c msg tr (by omega)

/-- **The length bound is real** (`uint24` is `uint32` in this package): on a view with maximum payload 16384
whose writes never fail, a message of `2^32 + 11` bytes (a body of `2^32 − 1` bytes) makes
`offset + uint24(maxFragBody)` wrap around after 262336 fragments, and `body[offset:fragEnd]` panics
(`Except.error`).  Handshake messages are bounded by `2^24`; no peer can cause this. -/
theorem C15_src_tx_bound_is_real (c : Conn) (msg : goMsg) (tr : goTranscript) (hf : msg.fails = false)
    (hmp : Conn.maxPayloadSizeForWrite c 22#8 = .ok 16384) (hw : c.writeErrAt < 0)
    (hlen : msg.data.length = 2 ^ 32 + 11) :
    Conn.writeHandshakeRecord c msg tr = .error "slice bounds out of range" := by
  rw [Tie.TxFragment.src_maxPayload] at hmp
  injection hmp with hmp
  exact Tie.TxFragment.src_wraps_beyond_bound c msg tr hf hmp hw hlen

/-- the maximum payload of the tx view is what the translated `maxPayloadSizeForWrite` of the base group
(`C15_src_max_payload_range`, `C15_src_max_payload_is_model`, `C15_src_app_fits`) returns on the same view -/
theorem C15_src_tx_max_payload_is_base (c : Conn) (typ : BitVec 8) :
    Conn.maxPayloadSizeForWrite c typ = Src.dtlcp.Conn.maxPayloadSizeForWrite (baseConn c) typ :=
  Tie.TxFragment.maxPayload_base c typ

/-- **Handshake records respect the maximum payload.** Whatever `writeHandshakeRecord` hands to the record
layer — the records of `c'.sent` that were not in `c.sent` — is at most `maxPayloadSizeForWrite(handshake)` bytes
long (so `writeRecordLocked` below emits exactly one record for each of them), and `c.sent` itself is kept. -/
theorem C15_src_tx_records_fit (c : Conn) (msg : goMsg) (tr : goTranscript)
    (hlen : msg.data.length ≤ 2 ^ 32 - 16384)
    (c' : Conn) (tr' : goTranscript) (n : Int) (err : Option Go.Error)
    (h : Conn.writeHandshakeRecord c msg tr = .ok (c', tr', n, err)) :
    ∃ mp new, Conn.maxPayloadSizeForWrite c 22#8 = .ok mp ∧ 1 ≤ mp ∧ mp ≤ (Facts.dtlcp.maxPlaintext : Int) ∧
      c'.sent = c.sent ++ new ∧ ∀ r ∈ new, (r.length : Int) ≤ mp := by
  have hr := Tie.TxFragment.maxPayload_range c
  have e : ((Facts.dtlcp.maxPlaintext : Nat) : Int) = 16384 := by decide
  refine ⟨maxPayload c, ?_⟩
  by_cases hf : msg.fails = true
  · rw [Tie.TxFragment.src_marshal_fails c msg tr hf] at h
    injection h with h
    have hc : c = c' := congrArg Prod.fst h
    subst hc
    exact ⟨[], Tie.TxFragment.src_maxPayload c _, hr.1, by rw [e]; exact hr.2, by simp, by simp⟩
  have hf' : msg.fails = false := by simpa using hf
  cases hp : txPlan (maxPayload c) msg.data with
  | none =>
    rw [Tie.TxFragment.src_refuses c msg tr hlen hf' hp] at h
    injection h with h
    have hc : c = c' := congrArg Prod.fst h
    subst hc
    exact ⟨[], Tie.TxFragment.src_maxPayload c _, hr.1, by rw [e]; exact hr.2, by simp, by simp⟩
  | some l =>
    rw [Tie.TxFragment.src_sends c msg tr hlen hf' l hp] at h
    injection h with h
    have hc := congrArg Prod.fst h
    simp only at hc
    subst hc
    refine ⟨l.take (okWrites c l.length), Tie.TxFragment.src_maxPayload c _, hr.1, by rw [e]; exact hr.2, rfl, ?_⟩
    intro r hr'
    exact Tie.TxFragment.txPlan_fits _ _ l hp r (List.mem_of_mem_take hr')

open Gotlcp.Tie.RecordSize.Dtlcp in
/-- **… hence the path MTU**: on a view that is unprotected (the handshake flights of epoch 0) or protected with
this tree's SM4-GCM or SM4-CBC-SM3 sizes, with a PMTU that leaves room for one byte, every record
`writeHandshakeRecord` hands down becomes a record of at most the path MTU in force
(`C15_app_fits_plain`, `C15_app_fits` through `C15_src_max_payload_is_model`).  (How records are packed into
datagrams is `flush`'s business: finding K3, `C15_flight_is_one_datagram`.) -/
theorem C15_src_tx_records_fit_pmtu (c : Conn) (msg : goMsg) (tr : goTranscript)
    (hlen : msg.data.length ≤ 2 ^ 32 - 16384)
    (ciph : Cipher) (hc : ciph = .none ∨ ciph = gcmHere ∨ ciph = cbcHere) (hm : Matches (baseConn c).out ciph)
    (hlo : -(2 : Int) ^ 63 ≤ c.config.PMTU) (hhi : c.config.PMTU < (2 : Int) ^ 63)
    (hw : 1 ≤ rawBudget here c.config.PMTU ciph)
    (c' : Conn) (tr' : goTranscript) (n : Int) (err : Option Go.Error)
    (h : Conn.writeHandshakeRecord c msg tr = .ok (c', tr', n, err)) :
    ∃ new, c'.sent = c.sent ++ new ∧
      ∀ r ∈ new, (recordLen here ciph r.length : Int) ≤ effPmtu c.config.PMTU := by
  obtain ⟨mp, new, hmp, _, _, hs, hfit⟩ := C15_src_tx_records_fit c msg tr hlen c' tr' n err h
  refine ⟨new, hs, ?_⟩
  intro r hr
  have hmodel := C15_src_max_payload_is_model (baseConn c) 22#8 ciph hm hlo hhi
  rw [← C15_src_tx_max_payload_is_base, hmp] at hmodel
  injection hmodel with hmodel
  have hle : r.length ≤ maxPayloadSizeForWrite here c.config.PMTU ciph := by
    have := hfit r hr
    rw [hmodel] at this
    exact Int.ofNat_le.mp this
  rcases hc with rfl | rfl | rfl
  · exact C15_app_fits_plain c.config.PMTU r.length hw hle
  · exact (C15_app_fits c.config.PMTU r.length).1 hw hle
  · exact (C15_app_fits c.config.PMTU r.length).2 hw hle

/-- **A failing write.** When the `k`-th of the planned records (`l`, see `C17_src_tx_*` for its closed form) is
the one whose `writeRecordLocked` fails: the error is returned, exactly the `k` records before it were handed
down and nothing after it, the returned count is the sum of their lengths; the transcript was written before. -/
theorem C15_src_tx_failing_write (c : Conn) (msg : goMsg) (tr : goTranscript)
    (hlen : msg.data.length ≤ 2 ^ 32 - 16384) (hf : msg.fails = false)
    (l : List (List (BitVec 8))) (hp : txPlan (maxPayload c) msg.data = some l)
    (k : Nat) (hk : k < l.length) (he : c.writeErrAt = (c.sent.length : Int) + (k : Int)) :
    Conn.writeHandshakeRecord c msg tr = .ok
      ({ c with sent := c.sent ++ l.take k }, { tr with written := tr.written ++ msg.data },
       sumLen (l.take k), some Go.Error.other) := by
  rw [Tie.TxFragment.src_sends c msg tr hlen hf l hp]
  have : okWrites c l.length = k := by
    unfold okWrites
    rw [if_pos (by omega)]
    omega
  rw [this, if_pos hk]

/-- … and when no planned write fails, all records are handed down and no error is returned -/
theorem C15_src_tx_no_failing_write (c : Conn) (msg : goMsg) (tr : goTranscript)
    (hlen : msg.data.length ≤ 2 ^ 32 - 16384) (hf : msg.fails = false)
    (l : List (List (BitVec 8))) (hp : txPlan (maxPayload c) msg.data = some l)
    (he : c.writeErrAt < (c.sent.length : Int) ∨ (c.sent.length : Int) + (l.length : Int) ≤ c.writeErrAt) :
    Conn.writeHandshakeRecord c msg tr = .ok
      ({ c with sent := c.sent ++ l }, { tr with written := tr.written ++ msg.data }, sumLen l, none) := by
  rw [Tie.TxFragment.src_sends c msg tr hlen hf l hp]
  have : okWrites c l.length = l.length := by
    unfold okWrites
    rw [if_neg (by omega)]
  rw [this, if_neg (by omega), List.take_length]

/-- non-vacuity: the TRANSLATED code run by the kernel.  An unprotected view at PMTU 45 has maximum payload 32;
a 52-byte message (40-byte body) leaves as two records of 32 bytes; with the second write failing, as one
record, 32 bytes counted and the error returned; at PMTU 16397 the maximum payload is 16384 (the view of
`C15_src_tx_bound_is_real` exists). -/
example :
    let bs (l : List Nat) : List (BitVec 8) := l.map (BitVec.ofNat 8)
    let msg : goMsg := { data := bs ([11,0,0,40, 0,3, 0,0,0, 0,0,40] ++ List.range 40) }
    let c0 : Conn := { config := { PMTU := 45 }, writeErrAt := -1 }
    (Conn.maxPayloadSizeForWrite c0 22#8).toOption = some 32 ∧
    (Conn.writeHandshakeRecord c0 msg {}).toOption.map (fun r => (r.1.sent.map List.length, r.2.2.1, r.2.2.2))
      = some ([32, 32], 64, none) ∧
    (Conn.writeHandshakeRecord { c0 with writeErrAt := 1 } msg {}).toOption.map
        (fun r => (r.1.sent.map List.length, r.2.2.1, r.2.2.2))
      = some ([32], 32, some Go.Error.other) ∧
    (Conn.maxPayloadSizeForWrite { config := { PMTU := 16397 }, writeErrAt := -1 } 22#8).toOption = some 16384 := by
  decide

end Gotlcp.Props.C15

/-
C15, property theorems about the TRANSLATED sender-side handshake fragmentation
(`Src.dtlcp.tx.Conn.writeHandshakeRecord`; see DESIGN.md 12.4).  Same namespace as Props/C15.lean;
listed in checks/C15.json under extra_props_files.
-/
import Gotlcp.Generated.Src

namespace Gotlcp.Props.C15

end Gotlcp.Props.C15

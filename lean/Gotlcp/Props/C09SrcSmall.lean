/-
C09, property theorems about the TRANSLATED cryptobyte-based decoders (part Small; see DESIGN.md 12.4).
Same namespace as Props/C09.lean; listed in checks/C09.json under extra_props_files.

`Gotlcp.Src.tlcp.codec.*` / `Gotlcp.Src.dtlcp.codec.*` are regenerated from {tlcp,dtlcp}/handshake_messages.go
by `harness/cmd/go2lean` on every run; `.error` in them is a Go run-time panic (index / slice out of range,
negative `make`) or an exhausted loop bound.  For every receiver value and EVERY byte string (no bound on the
length is needed: the only `int` conversions are of 8/16/24/32-bit lengths) each function of this part returns
`.ok _`; none of them has a loop, so "cannot spin" is immediate; what they allocate is bounded by the input.
Proofs: `Gotlcp.Tie.CodecSmall`, `Gotlcp.Tie.CodecSmallDtlcp` (closed forms).
-/
import Gotlcp.Tie.CodecSmall
import Gotlcp.Tie.CodecSmallDtlcp

namespace Gotlcp.Props.C09
open Gotlcp

/-- tlcp `finishedMsg.unmarshal`: no panic; an accepted verify_data is the input without its 4-byte header (the
24-bit length of the header is the length prefix of the vector) -/
theorem C09_src_no_panic_finishedMsg_unmarshal_tlcp (m : Src.tlcp.codec.finishedMsg) (data : List (BitVec 8)) :
    ∃ m' ok, Src.tlcp.codec.finishedMsg.unmarshal m data = .ok (m', ok) ∧
      (ok = true → m'.verifyData.length + 4 = data.length) := by
  refine ⟨_, _, Tie.CodecSmall.finished_eq m data, ?_⟩
  exact Tie.CodecSmall.finSpec_len m data

/-- tlcp `certificateVerifyMsg.unmarshal`: no panic; an accepted signature is 6 bytes shorter than the input -/
theorem C09_src_no_panic_certificateVerifyMsg_unmarshal_tlcp (m : Src.tlcp.codec.certificateVerifyMsg)
    (data : List (BitVec 8)) :
    ∃ m' ok, Src.tlcp.codec.certificateVerifyMsg.unmarshal m data = .ok (m', ok) ∧
      (ok = true → m'.signature.length + 6 = data.length) := by
  refine ⟨_, _, Tie.CodecSmall.certificateVerify_eq m data, ?_⟩
  exact Tie.CodecSmall.cvSpec_len m data

/-- `readUint64` (tlcp) -/
theorem C09_src_no_panic_readUint64_tlcp (s : List (BitVec 8)) (out : BitVec 64) :
    ∃ r, Src.tlcp.codec.readUint64 s out = .ok r := ⟨_, Tie.CodecSmall.readUint64_eq s out⟩

/-- `readUint64` (dtlcp) -/
theorem C09_src_no_panic_readUint64_dtlcp (s : List (BitVec 8)) (out : BitVec 64) :
    ∃ r, Src.dtlcp.codec.readUint64 s out = .ok r := ⟨_, Tie.CodecSmall.readUint64_eq s out⟩

/-- `dtlcpUnmarshalHeader`: the unchecked-looking `s[:fragmentLength]` is guarded by the comparison in front of
it; the body it returns is never longer than what follows the header -/
theorem C09_src_no_panic_dtlcpUnmarshalHeader_dtlcp (data : List (BitVec 8)) :
    ∃ t bl seq fo fl body ok, Src.dtlcp.codec.dtlcpUnmarshalHeader data = .ok (t, bl, seq, fo, fl, body, ok) ∧
      body.length ≤ data.length - 12 := by
  obtain ⟨t, bl, seq, fo, fl, body, ok, h, hiff, hok, hno⟩ := Tie.CodecSmallDtlcp.unmarshalHeader_spec data
  refine ⟨t, bl, seq, fo, fl, body, ok, h, ?_⟩
  cases ok with
  | false => rw [(hno rfl).2.2.2.2.2]; simp
  | true =>
    obtain ⟨_, _, _, _, _, _, _, _, hb⟩ := hok rfl
    rw [hb]
    split
    · simp
    · rw [List.length_take, List.length_drop]; omega

/-- dtlcp `finishedMsg.unmarshal`: `make([]byte, bodyLen)` takes its size from the peer's header, but behind the
guard `bodyLen` is `len(data) - 12`, and more than `maxHandshake` is refused before the allocation -/
theorem C09_src_no_panic_finishedMsg_unmarshal_dtlcp (m : Src.dtlcp.codec.finishedMsg) (data : List (BitVec 8)) :
    ∃ m' ok, Src.dtlcp.codec.finishedMsg.unmarshal m data = .ok (m', ok) ∧
      (ok = true → m'.verifyData.length + 12 = data.length ∧ m'.verifyData.length ≤ 65536) := by
  refine ⟨_, _, Tie.CodecSmallDtlcp.finished_eq m data, ?_⟩
  exact Tie.CodecSmallDtlcp.finSpec_len m data

/-- dtlcp `certificateVerifyMsg.unmarshal` -/
theorem C09_src_no_panic_certificateVerifyMsg_unmarshal_dtlcp (m : Src.dtlcp.codec.certificateVerifyMsg)
    (data : List (BitVec 8)) :
    ∃ m' ok, Src.dtlcp.codec.certificateVerifyMsg.unmarshal m data = .ok (m', ok) ∧
      (ok = true → m'.signature.length + 14 = data.length) := by
  refine ⟨_, _, Tie.CodecSmallDtlcp.certificateVerify_eq m data, ?_⟩
  exact Tie.CodecSmallDtlcp.cvSpec_len m data

/-- dtlcp `helloVerifyRequestMsg.unmarshal` -/
theorem C09_src_no_panic_helloVerifyRequestMsg_unmarshal_dtlcp (m : Src.dtlcp.codec.helloVerifyRequestMsg)
    (data : List (BitVec 8)) :
    ∃ m' ok, Src.dtlcp.codec.helloVerifyRequestMsg.unmarshal m data = .ok (m', ok) ∧
      (ok = true → m'.cookie.length + 15 = data.length ∧ m'.cookie.length < 256) := by
  refine ⟨_, _, Tie.CodecSmallDtlcp.helloVerifyRequest_eq m data, ?_⟩
  exact Tie.CodecSmallDtlcp.hvrSpec_len m data

-- non-vacuity: a body length of 2^24-1 announced in a 12-byte message is refused by the guard (no allocation) …
example : Src.dtlcp.codec.finishedMsg.unmarshal {} [20, 0xff, 0xff, 0xff, 0, 0, 0, 0, 0, 0xff, 0xff, 0xff] =
    .ok ({}, false) := by
  rw [Tie.CodecSmallDtlcp.finished_eq]; exact congrArg Except.ok (by decide)
-- … a CertificateVerify whose inner length points past the end is refused without a panic …
example : Src.tlcp.codec.certificateVerifyMsg.unmarshal {} [15, 0, 0, 3, 0xff, 0xff, 1] =
    .ok ({ raw := [15, 0, 0, 3, 0xff, 0xff, 1] }, false) := by
  rw [Tie.CodecSmall.certificateVerify_eq]; exact congrArg Except.ok (by decide)
-- … and an accepted one
example : Src.tlcp.codec.certificateVerifyMsg.unmarshal {} [15, 0, 0, 3, 0, 1, 0xcc] =
    .ok ({ raw := [15, 0, 0, 3, 0, 1, 0xcc], signature := [0xcc] }, true) := by
  rw [Tie.CodecSmall.certificateVerify_eq]; exact congrArg Except.ok (by decide)

end Gotlcp.Props.C09

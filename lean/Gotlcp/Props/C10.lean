/-
C10 — session resumption is sound and falls back transparently.

Property theorems only (helpers: `Gotlcp.Lemmas.Resumption`, `Gotlcp.Lemmas.ResumptionInv`,
`Gotlcp.Lemmas.ResumptionFail`, `Gotlcp.Lemmas.ResumptionPeer`).
The model is `Gotlcp.Model.Resumption`: a world of caches and session objects, one step per
connection (harness actions on the caches, two configurations — cipher suites, the server's
client-authentication policy, the client's certificate — and a man-in-the-middle fault).
All statements hold for every history of any length, every cache capacity (including 1),
every sequence of configurations and faults; the parameters that distinguish trees
(`perKeyObject` – F5, `storeAfterFinished` – F16, `verifyOnLoad` – F13, `strictDelete` – F17)
come from the regenerated facts and are pinned by `C10_facts`.

Session identifiers are drawn from `src : Nat → Nat`, the model of `Config.rand`; "the random
source does not repeat" is the hypothesis `Function.Injective src` (trusted RNG).
-/
import Gotlcp.Lemmas.ResumptionInv
import Gotlcp.Lemmas.ResumptionFail
import Gotlcp.Lemmas.ResumptionPeer
import Gotlcp.Oracle.C10

set_option linter.unusedSimpArgs false
set_option linter.unusedVariables false

namespace Gotlcp.Props.C10
open Gotlcp.Model
open Gotlcp.Model.Resumption
open Gotlcp.Model.LRU (Entry)
open Gotlcp.Lemmas.Resumption
open Gotlcp.Lemmas.ResumptionInv
open Gotlcp.Lemmas.ResumptionFail
open Gotlcp.Lemmas.ResumptionPeer

/-- the world reached by a history from empty caches -/
def reach (p : Params) (src : Nat → Nat) (d : Nat) (ccap scap : Int) (h : List Conn) : World :=
  (run p src (Resumption.init d ccap scap) h).1

/-- the world in which connection `c` starts: after the harness actions that precede it -/
def startOf (p : Params) (src : Nat → Nat) (w : World) (c : Conn) : World := runPres p src c w c.pre

/-- the repaired client: one object per key (F5), session stored after the server's Finished (F16) -/
structure Repaired (p : Params) : Prop where
  perKey : p.perKeyObject = true
  after  : p.storeAfterFinished = true

theorem reach_inv (p : Params) (hr : Repaired p) (src : Nat → Nat) (hinj : Function.Injective src)
    (d : Nat) (ccap scap : Int) (h : List Conn) : Inv src (reach p src d ccap scap h) :=
  inv_run p hr.perKey hr.after hinj h _ (inv_init d ccap scap)

/-! ### resumption happens only for a session the server still holds -/

/-- **Resumed only if.** In any world whatsoever (so after any history), if either side of the
next connection reports resumption, then the client offered an identifier `x`, the ServerHello
echoes it, and at that moment the server's cache holds an entry for `x` whose session has the
negotiated protocol version and a suite that both configurations enable now; that suite is the
one the connection uses. -/
theorem C10_resumed_only_if (p : Params) (src : Nat → Nat) (w : World) (c : Conn)
    (h : (step p src w c).2.sRes = true ∨ (step p src w c).2.cRes = true) :
    ∃ x so, (step p src w c).2.offered = some x ∧ (step p src w c).2.returned = some x ∧
      (⟨idKey x, some so⟩ : Entry) ∈ ((startOf p src w c).servers c.server).q ∧
      ((startOf p src w c).heap so).vers = p.version ∧
      ((startOf p src w c).heap so).suite ∈ c.csuites ∧ ((startOf p src w c).heap so).suite ∈ c.ssuites ∧
      (step p src w c).2.suite = some ((startOf p src w c).heap so).suite := by
  unfold step at h ⊢
  unfold startOf
  generalize runPres p src c w c.pre = w' at h ⊢
  unfold connect at h ⊢
  simp only [] at h ⊢
  split at h
  · rename_i so hr
    have ho := (resume_obs p (afterCheck p w' c).1 c (loadedOf p w' c) so (w'.nSec, w'.nSec + 1)
      (fullOutcome p c)).2 (h.symm)
    have hfr := afterCheck_frame p w' c
    have hal := afterLoad_frame p w' c
    unfold afterCheck at hr
    obtain ⟨x, hx, hso, _, hvers, hs1, hs2, _, _⟩ := checkForResumption_some hr
    rw [hal.1] at hso
    rw [hal.2.1] at hvers hs1 hs2
    refine ⟨x, so, ?_, ?_, hso, hvers, offer_sub p _ hs1, hs2, ?_⟩
    · rw [ho.2.2]
      have : offeredId (afterCheck p w' c).1 (loadedOf p w' c) = offeredId (afterLoad p w' c) (loadedOf p w' c) := by
        unfold offeredId; rw [hfr.1, hal.2.1]
      rw [this]; exact hx
    · rw [ho.1, ho.2.2]
      have : offeredId (afterCheck p w' c).1 (loadedOf p w' c) = offeredId (afterLoad p w' c) (loadedOf p w' c) := by
        unfold offeredId; rw [hfr.1, hal.2.1]
      rw [this]; exact hx
    · rw [ho.2.1, hfr.1]
  · rename_i hr
    split at h
    · simp [failed] at h
    · have := full_obs p src (afterCheck p w' c).1 c (loadedOf p w' c) ‹_› (w'.nSec, w'.nSec + 1)
        (fullOutcome p c)
      rcases h with h | h
      · rw [this.2] at h; cases h
      · rw [this.1] at h; cases h

/-- **Both report.** In any world, if both sides of the next connection complete, they agree on
whether it was a resumption. -/
theorem C10_both_report (p : Params) (src : Nat → Nat) (w : World) (c : Conn)
    (hc : (step p src w c).2.cOk = true) (hs : (step p src w c).2.sOk = true) :
    (step p src w c).2.cRes = (step p src w c).2.sRes := by
  unfold step at hc hs ⊢
  exact connect_both_report p src _ c hc hs

/-! ### transparent fall-back, identity (histories of any length, repaired client) -/

/-- **Fallback.** After ANY history (any number of connections to any servers, with any
configurations, evictions, forged or stale cache entries, lost server caches and
man-in-the-middle failures; client cache of any capacity including 1), an undisturbed
connection either is a resumption that completes on both sides (both report it, the ServerHello
echoes the offered identifier), or is a full handshake that behaves exactly as if nothing had
been offered: it completes iff the cache-less handshake of the two configurations completes
(`fullOutcome`: they share a suite and the client has a certificate when the policy requires one),
negotiates the suite a full handshake negotiates (`pickSuite`), authenticates the server it is
run with, and gets a new identifier from the random source. No third outcome exists — in
particular no honest handshake fails because of what a cache holds (F5). -/
theorem C10_fallback (p : Params) (hr : Repaired p) (src : Nat → Nat) (hinj : Function.Injective src)
    (d : Nat) (ccap scap : Int) (h : List Conn) (c : Conn) (hf : c.fault = .none) :
    let o := (step p src (reach p src d ccap scap h) c).2
    let full := fullOutcome p c
    (o.cOk = true ∧ o.sOk = true ∧ o.cRes = true ∧ o.sRes = true ∧ o.offered.isSome = true ∧ o.returned = o.offered) ∨
    (o.cRes = false ∧ o.sRes = false ∧ o.cOk = full.isSome ∧ o.sOk = full.isSome ∧
      (∀ su, full = some su → o.suite = some su ∧ o.peer = some c.server ∧
        o.returned = some (src (startOf p src (reach p src d ccap scap h) c).nId))) := by
  intro o full
  have hi := inv_runPres p hinj c c.pre _ (reach_inv p hr src hinj d ccap scap h)
  have := connect_honest p hinj hi c hf
  have hfull := connect_full p src (runPres p src c (reach p src d ccap scap h) c.pre) c
  rcases this with ⟨a, b, c', d', e, f, _, _⟩ | ⟨a, b, c', d', e⟩
  · exact Or.inl ⟨a, b, c', d', e, f⟩
  · right
    rw [hfull] at c' d' e
    exact ⟨a, b, c', d', fun su hsu => ⟨(e su hsu).1, (e su hsu).2.1, (e su hsu).2.2.1⟩⟩

/-- **Same identity.** After any history, whenever the client side of a connection completes
(resumed or not, disturbed or not) the peer identity it reports is the identity of the server
it is talking to — for a resumed connection that is the identity recorded by the original
connection, because a session is only ever resumed by the server that issued its identifier. -/
theorem C10_same_identity (p : Params) (hr : Repaired p) (src : Nat → Nat) (hinj : Function.Injective src)
    (d : Nat) (ccap scap : Int) (h : List Conn) (c : Conn)
    (hc : (step p src (reach p src d ccap scap h) c).2.cOk = true) (j : Nat)
    (hj : (step p src (reach p src d ccap scap h) c).2.peer = some j) : j = c.server := by
  have hi := inv_runPres p hinj c c.pre _ (reach_inv p hr src hinj d ccap scap h)
  exact connect_identity p hi c hc j hj

/-- with the F13 repair (certificates re-verified on load) a resumed connection always reports
the server's identity (never "no certificates") -/
theorem C10_same_identity_resumed (p : Params) (hr : Repaired p) (hv : p.verifyOnLoad = true) (src : Nat → Nat)
    (hinj : Function.Injective src) (d : Nat) (ccap scap : Int) (h : List Conn) (c : Conn) (hf : c.fault = .none)
    (hres : (step p src (reach p src d ccap scap h) c).2.cRes = true) :
    (step p src (reach p src d ccap scap h) c).2.peer = some c.server := by
  have hi := inv_runPres p hinj c c.pre _ (reach_inv p hr src hinj d ccap scap h)
  rcases connect_honest p hinj hi c hf with ⟨_, _, _, _, _, _, _, hp⟩ | ⟨a, _⟩
  · exact hp hv
  · unfold step at hres; rw [a] at hres; cases hres

/-! ### the server's view of its peer: same identity as the original -/

/-- **Resumed server identity (one connection).** In any world whatsoever, if the server side of
the next connection reports resumption, the session it resumes is in its cache under the offered
identifier, and the peer identity it reports (`ConnectionState().PeerCertificates`) is exactly the
client certificate recorded in that session — under EVERY client-authentication policy (for the
non-verifying policies too); both of the server's callbacks (`VerifyPeerCertificate`,
`VerifyConnection`) are run on that identity, and `VerifiedChains` is set iff the policy verifies
and a certificate is recorded. A session without a client certificate is not resumed under a
policy that requires one, and a session with one is not resumed under NoClientCert. -/
theorem C10_resumed_server_identity (p : Params) (src : Nat → Nat) (w : World) (c : Conn)
    (h : (step p src w c).2.sRes = true) :
    ∃ x so, (step p src w c).2.offered = some x ∧
      (⟨idKey x, some so⟩ : Entry) ∈ ((startOf p src w c).servers c.server).q ∧
      (step p src w c).2.speer = ((startOf p src w c).heap so).cpeer ∧
      (step p src w c).2.vpc = some ((startOf p src w c).heap so).cpeer ∧
      (step p src w c).2.vc = some ((startOf p src w c).heap so).cpeer ∧
      (step p src w c).2.sver = (verifiesCert p c.auth && ((startOf p src w c).heap so).cpeer.isSome) ∧
      (((startOf p src w c).heap so).cpeer.isNone = true → requiresCert p c.auth = false) ∧
      (((startOf p src w c).heap so).cpeer.isSome = true → c.auth ≠ 0) := by
  unfold step at h ⊢
  unfold startOf
  exact connect_resumed_server p src _ c h

/-- **Full-handshake server identity (one connection).** In any world, if the server completes a
connection that is not a resumption, the peer identity it reports is the certificate the client
sent: the configured one when the policy asks for a certificate, nothing otherwise; a required
certificate was not missing. (This is what `createSessionState` records in the new session.) -/
theorem C10_full_server_identity (p : Params) (src : Nat → Nat) (w : World) (c : Conn)
    (hs : (step p src w c).2.sOk = true) (hr : (step p src w c).2.sRes = false) :
    (step p src w c).2.speer = sentCert p c ∧
    (step p src w c).2.vpc = (if requestsCert p c.auth then some (sentCert p c) else none) ∧
    (step p src w c).2.vc = some (sentCert p c) ∧
    (step p src w c).2.sver = (verifiesCert p c.auth && (sentCert p c).isSome) ∧
    certMissing p c = false := by
  unfold step at hs hr ⊢
  exact connect_full_server p src _ c hs hr

/-- **Same identity on the server side.** After ANY history (any parameters, any random source:
no hypothesis is needed), if the server side of the next connection completes as a resumption,
then an EARLIER connection of the history reached the same server, was completed by it as a full
handshake whose ServerHello carried the identifier that is offered now, and the client identity
the server reports now is the one it reported then — whatever client-authentication policies the
two connections ran under and whatever certificate the client is configured with now. -/
theorem C10_same_identity_server (p : Params) (src : Nat → Nat) (d : Nat) (ccap scap : Int) (h : List Conn) (c : Conn)
    (hs : (step p src (reach p src d ccap scap h) c).2.sOk = true)
    (hres : (step p src (reach p src d ccap scap h) c).2.sRes = true) :
    ∃ (i : Nat) (ci : Conn) (oi : Obs), h[i]? = some ci ∧ (run p src (Resumption.init d ccap scap) h).2[i]? = some oi ∧
      ci.server = c.server ∧ oi.sOk = true ∧ oi.sRes = false ∧
      oi.returned = (step p src (reach p src d ccap scap h) c).2.offered ∧
      oi.speer = (step p src (reach p src d ccap scap h) c).2.speer := by
  have hx := sext_run p src h [] _ (sext_init d ccap scap)
  rw [List.append_nil] at hx
  have h0 := sext_frame (frame_runPres p src c c.pre _) hx
  obtain ⟨x, so, hoff, hmem, hsp, _⟩ := C10_resumed_server_identity p src (reach p src d ccap scap h) c hres
  simp only [startOf] at hmem hsp
  obtain ⟨_, hkey, hin⟩ := h0 c.server _ hmem so rfl
  have hid : x = ((runPres p src c (reach p src d ccap scap h) c.pre).heap so).id := idKey_inj hkey
  obtain ⟨i, ci, oi, a, b, m⟩ := mem_issuedAll h _ hin
  obtain ⟨m1, m2, m3, m4, m5⟩ := mem_issued m
  refine ⟨i, ci, oi, a, b, m3.symm, m1, m2, ?_, ?_⟩
  · rw [m4, hoff, hid]; rfl
  · rw [m5, hsp]; rfl

/-! ### new sessions get new identifiers -/

/-- **Fresh identifiers.** After any history, if the next connection's ServerHello carries an
identifier that is not an echo of the offered one, it is the next draw `src n` of the random
source (n = number of draws so far) and — when that source does not repeat — it differs from
the identifier of every session object that exists anywhere: in the client cache, in any
server cache, wiped, forged or genuine. (Its length and origin in the source text are the
facts `resSessionIdLen = 32`, `resSessionIdFromRand` of `C10_facts`.) -/
theorem C10_fresh_ids (p : Params) (hr : Repaired p) (src : Nat → Nat) (hinj : Function.Injective src)
    (d : Nat) (ccap scap : Int) (h : List Conn) (c : Conn) (y : Nat)
    (hy : (step p src (reach p src d ccap scap h) c).2.returned = some y)
    (hnew : (step p src (reach p src d ccap scap h) c).2.returned ≠ (step p src (reach p src d ccap scap h) c).2.offered) :
    y = src (startOf p src (reach p src d ccap scap h) c).nId ∧
    ∀ o : Nat, o < (startOf p src (reach p src d ccap scap h) c).nObj →
      ((startOf p src (reach p src d ccap scap h) c).heap o).id ≠ y := by
  have hi := inv_runPres p hinj c c.pre _ (reach_inv p hr src hinj d ccap scap h)
  unfold step at hy hnew
  rcases connect_returned p src _ c y hy with he | he
  · exact absurd he hnew
  · refine ⟨he, ?_⟩
    intro o ho
    rw [he]
    exact fresh_of_inv hi hinj ho (Nat.le_refl _)

/-- **A refused session is answered with a fresh identifier.** Over any history (any length), for a
connection in which the server does NOT accept the offered session — `checkForResumption` answers no:
the identifier is unknown, forged, evicted or lost, or the server still HOLDS the session but its
version, its suite (no longer enabled after a reconfiguration, no longer offered) or the
client-authentication policy forbid resuming it — the ServerHello, if one is sent, carries the next
draw of the random source: never the identifier the client offered (which would make the client take
the full handshake for a resumption) and — the source not repeating — not the identifier of any
session object that exists anywhere. Unlike `C10_fresh_ids` there is no hypothesis that the returned
identifier differs from the offered one: that is the conclusion. That doFullHandshake has exactly one,
unconditional, write of the ServerHello's identifier, a new 32-byte buffer filled from `Config.rand`,
is the regenerated fact of `C10_facts_fresh_id`. -/
theorem C10_refused_fresh_id (p : Params) (hr : Repaired p) (src : Nat → Nat) (hinj : Function.Injective src)
    (d : Nat) (ccap scap : Int) (h : List Conn) (c : Conn) (y : Nat)
    (href : (afterCheck p (startOf p src (reach p src d ccap scap h) c) c).2 = none)
    (hy : (step p src (reach p src d ccap scap h) c).2.returned = some y) :
    y = src (startOf p src (reach p src d ccap scap h) c).nId ∧
    (step p src (reach p src d ccap scap h) c).2.offered ≠ some y ∧
    ∀ o : Nat, o < (startOf p src (reach p src d ccap scap h) c).nObj →
      ((startOf p src (reach p src d ccap scap h) c).heap o).id ≠ y := by
  have hi := inv_runPres p hinj c c.pre _ (reach_inv p hr src hinj d ccap scap h)
  unfold step at hy ⊢
  have he := connect_refused_returned p src _ c y href hy
  have hfresh : ∀ o : Nat, o < (startOf p src (reach p src d ccap scap h) c).nObj →
      ((startOf p src (reach p src d ccap scap h) c).heap o).id ≠ y := by
    intro o ho
    rw [he]
    exact fresh_of_inv hi hinj ho (Nat.le_refl _)
  refine ⟨he, ?_, hfresh⟩
  rw [connect_offered]
  cases hl : loadedOf p (runPres p src c (reach p src d ccap scap h) c.pre) c with
  | none => simp [offeredId]
  | some lo =>
    have hlo : lo < (startOf p src (reach p src d ccap scap h) c).nObj :=
      hi.allocC _ (loadSession_some (p := p) (d := c.dst) hl).2.1 lo rfl
    simp only [offeredId, Option.map_some, ne_eq, Option.some.injEq]
    exact hfresh lo hlo

/-! ### a failed session is not offered again -/

/-- **Failed sessions are not offered again.** Over any history (any length) in which the harness
does not itself copy sessions between destinations, no connection offers a session that an earlier
connection whose handshake ended in an error at the client had OFFERED (whether or not the
server accepted it: the deferred cleanup deletes the loaded session on any error, its guard
`session != nil && err != nil` is pinned in `C10_facts` and does not depend on `didResume`) or
had IN USE (named by the ServerHello: a resumption attempt, or a full handshake that failed at
the server's Finished — the new session is never stored: this is where the call order
`readFinished` before `createNewSession` is used, F16). `NotReoffered a b` reads: if `a` failed
at the client, `b` offers neither what `a` offered nor what `a`'s ServerHello named. -/
theorem C10_failed_not_reoffered (p : Params) (hr : Repaired p) (src : Nat → Nat) (hinj : Function.Injective src)
    (d : Nat) (ccap scap : Int) (h : List Conn) (hs : ∀ c ∈ h, noStaleConn c) :
    (run p src (Resumption.init d ccap scap) h).2.Pairwise NotReoffered :=
  (noReoffer_pairwise _ [] (run_noReoffer p hr.perKey hr.after hinj h [] _ (inv_init d ccap scap)
    (fext_init d ccap scap) hs)).1

/-! ### the tie to the source: regenerated facts -/

set_option maxRecDepth 100000 in
/-- The facts the theorems rest on, as extracted from this tree (both stacks): the client stores
an object of its own under each of its two keys (F5 repaired) and only after `readFinished`
(F16 repaired); loadSession looks the session up by destination and re-verifies its recorded
certificates (F13 repaired) and hands the handshake a copy of its own (F40 repaired: an eviction
during the handshake cannot wipe the session in use); the deferred cleanup removes a loaded session on any error under
both keys; the server stores a session once — after the client's Finished is verified and before its own is sent —
and draws new 32-byte identifiers from `Config.rand`.
NOT a text fact any more: the guards by which the server decides on resumption (identifier known, client
authentication policy, version, suite offered by the client, suite enabled by the server).
`checkForResumption` of both stacks is TRANSLATED to Lean on every run and Props/C10SrcSel.lean proves, about the
translated text, when it answers true (`C10_src_sel_resume_iff_*`) and that its decision is the model's
(`C10_src_sel_is_model_*`); the list `resServerGuards` is informational. -/
theorem C10_facts :
    Oracle.C10.tlcpParams.perKeyObject = true ∧ Oracle.C10.dtlcpParams.perKeyObject = true ∧
    Oracle.C10.tlcpParams.storeAfterFinished = true ∧ Oracle.C10.dtlcpParams.storeAfterFinished = true ∧
    Oracle.C10.tlcpParams.verifyOnLoad = true ∧ Oracle.C10.dtlcpParams.verifyOnLoad = true ∧
    Facts.tlcp.resClientFullOrder = ["doFullHandshake", "establishKeys", "sendFinished", "readFinished", "createNewSession"] ∧
    Facts.dtlcp.resClientFullOrder = Facts.tlcp.resClientFullOrder ∧
    Facts.tlcp.resClientResumeOrder = ["establishKeys", "readFinished", "sendFinished"] ∧
    Facts.dtlcp.resClientResumeOrder = Facts.tlcp.resClientResumeOrder ∧
    Facts.tlcp.resServerFullOrder = ["pickCipherSuite", "doFullHandshake", "establishKeys", "readFinished", "createSessionState", "sendFinished"] ∧
    Facts.dtlcp.resServerFullOrder = Facts.tlcp.resServerFullOrder ∧
    Facts.tlcp.resServerResumeOrder = ["doResumeHandshake", "establishKeys", "sendFinished", "readFinished"] ∧
    Facts.dtlcp.resServerResumeOrder = Facts.tlcp.resServerResumeOrder ∧
    Facts.tlcp.resClientPutKeys = ["sessionKey", "dst"] ∧ Facts.dtlcp.resClientPutKeys = ["sessionKey", "dst"] ∧
    Facts.tlcp.resCleanupGuard = "session != nil && err != nil" ∧ Facts.dtlcp.resCleanupGuard = "session != nil && err != nil" ∧
    Facts.tlcp.resCleanupKeys = ["dst", "sessionId"] ∧ Facts.dtlcp.resCleanupKeys = ["dst", "sessionId"] ∧
    Facts.tlcp.resCleanupPutsNil = true ∧ Facts.dtlcp.resCleanupPutsNil = true ∧
    Facts.tlcp.resLoadKey = "dest" ∧ Facts.dtlcp.resLoadKey = "dest" ∧
    Facts.tlcp.resLoadClones = true ∧ Facts.dtlcp.resLoadClones = true ∧
    Facts.tlcp.resClientResumedExpr = "hs.session != nil && hs.hello.sessionId != nil && len(hs.serverHello.sessionId) > 0 && bytes.Equal(hs.serverHello.sessionId, hs.hello.sessionId)" ∧
    Facts.dtlcp.resClientResumedExpr = Facts.tlcp.resClientResumedExpr ∧
    Facts.tlcp.resClientChecks = ["hs.session.vers != c.vers", "hs.session.cipherSuite != hs.suite.id", "!(len(hs.session.masterSecret) > 0)"] ∧
    Facts.dtlcp.resClientChecks = Facts.tlcp.resClientChecks ∧
    Facts.tlcp.resSessionIdLen = 32 ∧ Facts.dtlcp.resSessionIdLen = 32 ∧
    Facts.tlcp.resSessionIdFromRand = true ∧ Facts.dtlcp.resSessionIdFromRand = true ∧
    Facts.tlcp.resServerPutCount = 1 ∧ Facts.dtlcp.resServerPutCount = 1 ∧
    Facts.missing = [] := by
  decide

set_option maxRecDepth 100000 in
/-- The facts behind the server's view of its peer (both stacks): the client-authentication
policies are the six of the enumeration (a certificate is required under 2, 4, 5, requested from 1,
verified from 3); on the resumption path the server calls `processCertsFromClient` — the only
function of handshake_server.go that assigns `c.peerCertificates` — UNCONDITIONALLY on the
certificates collected from `hs.sessionState.peerCertificates`, then `VerifyConnection` when
configured; a new session records `hs.peerCertificates`, which doFullHandshake sets from
`c.peerCertificates`. -/
theorem C10_facts_peer :
    Oracle.C10.tlcpParams.requires = [2, 4, 5] ∧ Oracle.C10.dtlcpParams.requires = [2, 4, 5] ∧
    Oracle.C10.tlcpParams.requestFrom = 1 ∧ Oracle.C10.dtlcpParams.requestFrom = 1 ∧
    Oracle.C10.tlcpParams.verifyFrom = 3 ∧ Oracle.C10.dtlcpParams.verifyFrom = 3 ∧
    Facts.tlcp.saPolicyOrder.length = 6 ∧ Facts.dtlcp.saPolicyOrder = Facts.tlcp.saPolicyOrder ∧
    Facts.tlcp.resResumeCertGuards = [] ∧ Facts.dtlcp.resResumeCertGuards = [] ∧
    Facts.tlcp.resResumeCertArg = "Certificate{Certificate: sessionCerts}" ∧ Facts.dtlcp.resResumeCertArg = Facts.tlcp.resResumeCertArg ∧
    Facts.tlcp.resResumeCertSource = "hs.sessionState.peerCertificates" ∧ Facts.dtlcp.resResumeCertSource = Facts.tlcp.resResumeCertSource ∧
    Facts.tlcp.resResumeVerifyConnGuards = ["c.config.VerifyConnection != nil"] ∧
    Facts.dtlcp.resResumeVerifyConnGuards = Facts.tlcp.resResumeVerifyConnGuards ∧
    Facts.tlcp.resServerPeerWriters = ["Conn.processCertsFromClient"] ∧ Facts.dtlcp.resServerPeerWriters = Facts.tlcp.resServerPeerWriters ∧
    Facts.tlcp.resSessionPeerExpr = "hs.peerCertificates" ∧ Facts.dtlcp.resSessionPeerExpr = "hs.peerCertificates" ∧
    Facts.tlcp.resFullRecordsPeer = true ∧ Facts.dtlcp.resFullRecordsPeer = true ∧
    Facts.missing = [] := by
  decide

/-- doFullHandshake (both stacks) writes the ServerHello's session identifier exactly ONCE, outside
every condition — a new 32-byte buffer — and fills it from `Config.rand` outside every condition: a full
handshake never names an identifier taken from anywhere else (the offered one, the session
checkForResumption found but refused). This is what `fullBranch` of the model transcribes and what
`C10_refused_fresh_id` / `C10_fresh_ids` rest on. -/
theorem C10_facts_fresh_id :
    Facts.tlcp.resSessionIdWrites = ["fresh:32"] ∧ Facts.dtlcp.resSessionIdWrites = ["fresh:32"] ∧
    Facts.tlcp.resSessionIdRandGuards = [] ∧ Facts.dtlcp.resSessionIdRandGuards = [] ∧
    Facts.missing = [] := by
  decide

/-- The offered session identifier is OPAQUE to the server (both stacks): of all functions of
handshake_server.go only `checkForResumption` (emptiness test and cache key, see the guards in
`C10_facts`) and `doResumeHandshake` (echo into the ServerHello) read `clientHello.sessionId`. No
other step of the server handshake — processClientHello in particular — looks at it, so an
identifier of any legal length 1..32 that the server does not hold is just a cache miss: this is
why the model's identifiers are naturals without a length and one `Pre.forge` stands for the
forged / foreign identifiers of every length (the driver offers every length on both stacks). -/
theorem C10_facts_opaque_id :
    Facts.tlcp.resOfferedIdReaders = ["serverHandshakeState.checkForResumption", "serverHandshakeState.doResumeHandshake"] ∧
    Facts.dtlcp.resOfferedIdReaders = Facts.tlcp.resOfferedIdReaders ∧
    Facts.missing = [] := by
  decide

/-- both stacks run the repaired client -/
theorem C10_repaired : Repaired Oracle.C10.tlcpParams ∧ Repaired Oracle.C10.dtlcpParams :=
  ⟨⟨C10_facts.1, C10_facts.2.2.1⟩, ⟨C10_facts.2.1, C10_facts.2.2.2.1⟩⟩

/-! ### non-vacuity and the witnesses of the two findings -/

section examples
open Gotlcp.Oracle.C10

def hon (dst : Nat) : Conn := { pre := [], dst := dst, server := dst, csuites := [57427, 57363], ssuites := [57427, 57363], fault := .none }

/-- a history in which resumption happens (so `C10_resumed_only_if` is not vacuous) and one in
which the fall-back branch is taken after the server lost its cache -/
example : ((run tlcpParams id (Resumption.init 64 1 4) [hon 0, hon 0, { hon 0 with pre := [.dropServer] }, hon 0]).2.map
    (fun o => (o.cOk, o.sOk, o.cRes, o.sRes))) =
    [(true, true, false, false), (true, true, true, true), (true, true, false, false), (true, true, true, true)] := by decide

/-- F5 witness: with one object under both keys (`perKeyObject := false`, the code before the
repair) and a client cache of capacity 1, the second honest connection fails on both sides. -/
example : ((run { tlcpParams with perKeyObject := false } id (Resumption.init 64 1 4) [hon 0, hon 0, hon 0]).2.map
    (fun o => (o.cOk, o.sOk))) = [(true, true), (false, false), (true, true)] := by decide

/-- F16 witness: with `createNewSession` before `readFinished` (`storeAfterFinished := false`) a
session whose handshake failed at the server's Finished is offered — and resumed — by the next
connection. -/
example : ((run { tlcpParams with storeAfterFinished := false } id (Resumption.init 64 4 4)
      [{ hon 0 with fault := .serverFin }, hon 0]).2.map (fun o => (o.cOk, o.offered, o.returned, o.cRes))) =
    [(false, none, some 0, false), (true, some 0, some 0, true)] := by decide

/-- … and on the repaired order the same history offers nothing and runs a full handshake -/
example : ((run tlcpParams id (Resumption.init 64 4 4)
      [{ hon 0 with fault := .serverFin }, hon 0]).2.map (fun o => (o.cOk, o.offered, o.returned, o.cRes))) =
    [(false, none, some 0, false), (true, none, some 1, false)] := by decide

example : Function.Injective (id : Nat → Nat) := fun _ _ h => h

/-- a client with certificate 0 under each of the five policies that ask for one: connection 0 is
a full handshake, 1 and 2 are resumed and the server reports the same client identity every time
(`C10_same_identity_server`, `C10_resumed_server_identity` are not vacuous) -/
example : ([1, 2, 3, 4, 5].map fun a =>
    ((run tlcpParams id (Resumption.init 64 4 4)
      [{ hon 0 with auth := a, ccert := some 0 }, { hon 0 with auth := a, ccert := some 0 }, { hon 0 with auth := a, ccert := some 0 }]).2.map
      (fun o => (o.sRes, o.sOk && o.speer == some 0 && o.vpc == some (some 0) && o.vc == some (some 0))))) =
    List.replicate 5 [(false, true), (true, true), (true, true)] := by decide

/-- the two client-authentication guards of checkForResumption: a session without a client
certificate is not resumed once the policy requires one (the full handshake then fails: the client
has none), and a session with one is not resumed under NoClientCert (full handshake, no identity) -/
example : ((run tlcpParams id (Resumption.init 64 4 4)
      [hon 0, { hon 0 with auth := 2 }, { hon 0 with auth := 1, ccert := some 1 }, { hon 0 with ccert := some 1 }]).2.map
      (fun o => (o.cOk, o.sOk, o.sRes, o.speer))) =
    [(true, true, false, none), (false, false, false, none), (true, true, false, some 1), (true, true, false, none)] := by decide

end examples

end Gotlcp.Props.C10

/-
C10 — session resumption is sound and falls back transparently.
-/
import Gotlcp.Model.Resumption
import Gotlcp.Generated.Facts

namespace Gotlcp.Props.C10
open Gotlcp.Model
open Gotlcp.Model.Resumption

theorem C10_facts : Facts.missing = [] := by decide

end Gotlcp.Props.C10

/-
C18 — a DTLCP server commits and amplifies nothing before a valid cookie returns.

Property theorems only (helpers are in `Gotlcp.Lemmas.Cookie`).  The model is
`Gotlcp.Model.Cookie`; the byte layouts it uses (`marshalForCookie`: what the Go function of that
name appends; `cookieInputFramed`: what `generateCookie` writes into the HMAC) are literal
definitions of the model, tied for all inputs to the functions TRANSLATED from the Go source on
every run (`Gotlcp.Tie.Cookie`, `C18_src_*` below) and no longer read from text-matching facts; the
control skeleton of the cookie loop (untranslated code) comes from `Facts.dtlcp.cookieLoop*` /
`cookiePre*` / `cookiePost*`.

HMAC-SM3 is ideal: the theorems quantify over a structure `IdealMAC` whose laws are
hypotheses (instantiated below to show they are satisfiable), never axioms.
-/
import Gotlcp.Lemmas.Cookie
import Gotlcp.Lemmas.Fragment
import Gotlcp.Generated.Facts
import Gotlcp.Tie.Cookie

namespace Gotlcp.Props.C18
open Gotlcp Gotlcp.Model.Cookie Gotlcp.Lemmas.Cookie

/-! ### ideal MAC -/

/-- Dolev–Yao abstraction of a secure MAC: verification accepts exactly the tag computed
under the same key for the same message, and tags of different (key, message) pairs differ. -/
structure IdealMAC (Key Tag : Type) where
  mac : Key → Bytes → Tag
  verify : Key → Bytes → Tag → Bool
  verify_iff : ∀ k x t, verify k x t = true ↔ t = mac k x
  mac_inj : ∀ k x k' x', mac k x = mac k' x' → k = k' ∧ x = x'

/-- the laws are jointly satisfiable: the free term algebra, tag = the pair (key, message) -/
def IdealMAC.free (Key : Type) [DecidableEq Key] : IdealMAC Key (Key × Bytes) where
  mac k x := (k, x)
  verify k x t := decide (t = (k, x))
  verify_iff := by intros; simp
  mac_inj := by intro k x k' x' h; exact Prod.mk.inj h

/-- … also with byte strings as tags (one-byte keys, tag = key ‖ message) -/
def IdealMAC.bytes : IdealMAC UInt8 Bytes where
  mac k x := k :: x
  verify k x t := decide (t = k :: x)
  verify_iff := by intros; simp
  mac_inj := by intro k x k' x' h; exact List.cons.inj h

/-! ### the facts the theorems below rest on -/

/-- calls that commit the server: certificate selection, private-key use, key agreement -/
def commitCalls : List String :=
  ["getCertificate", "getEKCertificate", "Sign", "Decrypt", "ECDH", "GenerateAgreementData",
   "generateServerKeyExchange", "processClientKeyExchange", "doFullHandshake", "doResumeHandshake",
   "processClientHello", "establishKeys"]

/-- application callbacks of `Config` that see the ClientHello or the peer (and the helpers
that build their argument / select the per-client Config) -/
def helloCallbacks : List String :=
  ["GetConfigForClient", "GetCertificate", "GetKECertificate", "VerifyPeerCertificate", "VerifyConnection",
   "clientHelloInfo", "selectConfigForClient"]

/-- SM3 digest size in bytes (GB/T 32905): the length of an HMAC-SM3 cookie -/
def macLen : Nat := 32

/-- What the other theorems use from the UNTRANSLATED source.  The cookie helpers themselves are not
pinned by text-matching facts any more (formerly `cookieParamsLayout`, `cookieWrites`,
`cookieMacIsHmacSm3OfSecret`, `cookieVerifyRecomputesConstTime`, which stay in `Facts` as
information): `Gotlcp.Tie.Cookie` proves the functions translated from the Go text on every run equal
to the model — `tie_marshalForCookie` (layout), `tie_generateCookie` + `tie_cookieInput` (HMAC with
algorithm SM3, keyed with the `secret` argument, over 16-bit address length ‖ address ‖ parameters),
`tie_verifyCookie` (recompute, `subtle.ConstantTimeCompare`; any other comparison is outside the
translator's subset and lands in `Src.untranslated`, pinned empty by `C18_src_translated`). -/
theorem C18_facts :
    Facts.missing = []
    ∧ Facts.dtlcp.recordHeaderLen = recordHeaderLen ∧ Facts.dtlcp.dtlcpHeaderLen = handshakeHeaderLen
    ∧ Facts.dtlcp.hvrBodyLenExpr = "2 + 1 + len(m.cookie)"
    ∧ Facts.dtlcp.typeHelloVerifyRequest = 3 ∧ Facts.dtlcp.typeCertificate = 11
    -- cookie loop: `params := marshalForCookie(); secret := effectiveCookieSecret();
    --               if <cond> { …send HVR…; continue }; break`
    ∧ Facts.dtlcp.cookieLoopShape = true ∧ Facts.dtlcp.cookieLoopDropsLeftover = true
    ∧ Facts.dtlcp.cookieWaitTimeoutCalls = []
    -- readHandshake drops the reassembly buffer of a rebuilt message before delivering it
    ∧ Facts.dtlcp.cookieRxDeliveredBufferDropped = true
    ∧ Facts.dtlcp.cookieLoopHvrCond =
        "len(clientHello.cookie) == 0 || !verifyCookie(secret, c.remoteAddr.String(), params, clientHello.cookie)"
    ∧ Facts.dtlcp.cookieLoopIssue = "generateCookie(secret, c.remoteAddr.String(), params)"
    ∧ Facts.dtlcp.cookieLoopHvrLiteral = "helloVerifyRequestMsg{ serverVersion: VersionTLCP, cookie: cookie, }"
    ∧ Facts.dtlcp.cookieLoopDirectCalls =
        ["readClientHello", "marshalForCookie", "effectiveCookieSecret", "verifyCookie", "String",
         "generateCookie", "String", "setMessageSeq", "Store", "writeHandshakeRecord", "Store", "flush",
         "Reset", "readNextClientHello"]
    -- after the loop: the handshake proper (possibly preceded by per-client config selection)
    ∧ "handshake" ∈ Facts.dtlcp.cookiePostDirectCalls
    ∧ Facts.dtlcp.cookiePreHandshakeWrites = ["helloVerifyRequestMsg"]
    ∧ (∀ f ∈ commitCalls, f ∉ Facts.dtlcp.cookiePreReachable ∧ f ∈ Facts.dtlcp.cookiePostOnlyReachable)
    -- secret: configured one if non-empty, else a per-connection field filled once from config.rand()
    ∧ Facts.dtlcp.cookieSecretConfiguredFirst = true ∧ Facts.dtlcp.cookieSecretPerConnField = true
    ∧ Facts.dtlcp.cookieSecretFromConfigRand = true ∧ Facts.dtlcp.cookieSecretLen = 32
    ∧ Facts.dtlcp.cookieSecretAssignSites = 1
    -- no application callback that sees the hello runs before a valid cookie (F48 repair)
    ∧ (∀ f ∈ helloCallbacks, f ∉ Facts.dtlcp.cookiePreReachable ∧ f ∈ Facts.dtlcp.cookiePostOnlyReachable) := by
  decide

/-- `marshalForCookie` of this tree: the model's literal layout; `tie_marshalForCookie` proves the
function translated from the Go source equal to it for every hello (`C18_src_params_injective`) -/
def marshal (h : Hello) : Bytes := marshalForCookie h

/-- the HMAC input of `generateCookie` of this tree: the model's framed input; `tie_generateCookie`
and `tie_cookieInput` prove the translated Go function MACs exactly this (`C18_src_binding`) -/
def cookieInput (addr params : Bytes) : Bytes := cookieInputFramed addr params

theorem marshal_eq (h : Hello) : marshal h = marshalForCookie h := rfl

theorem cookieInput_eq (a p : Bytes) : cookieInput a p = cookieInputFramed a p := rfl

/-! ### injectivity of the covered parameters -/

/-- `marshalForCookie` determines version, random, session id, cipher suites and compression
methods of every decodable ClientHello. -/
theorem C18_params_injective (h h' : Hello) (w : h.WF) (w' : h'.WF) (e : marshal h = marshal h') : h = h' := by
  rw [marshal_eq, marshal_eq] at e
  exact marshalForCookie_inj w w' e

def helloA : Hello := ⟨0x0101, List.replicate 32 7, [1, 2], [0xe013, 0xe011], [0]⟩
def helloB : Hello := { helloA with sessionId := [1], suites := [0x02e0, 0x13e0, 0x1100] }
example : helloA.WF ∧ helloB.WF ∧ helloA ≠ helloB ∧ marshal helloA ≠ marshal helloB := by
  refine ⟨⟨?_, ?_, ?_, ?_, ?_, ?_⟩, ⟨?_, ?_, ?_, ?_, ?_, ?_⟩, ?_, ?_⟩ <;> decide

/-! ### binding of a cookie to address, parameters and secret -/

/-- The HMAC input determines the address and the parameters. -/
theorem C18_binding (a a' p p' : Bytes) (la : a.length < 65536) (la' : a'.length < 65536)
    (e : cookieInput a p = cookieInput a' p') : a = a' ∧ p = p' := by
  rw [cookieInput_eq, cookieInput_eq] at e
  exact cookieInputFramed_inj la la' e

/-! F15 (unrepaired tree: input = address ‖ parameters): the input does **not** determine them.
`hello55` sent from "1.2.3.4:55" and `hello5` sent from "1.2.3.4:5" are both decodable and
different, yet have the same HMAC input — a cookie issued to one verifies for the other. -/
-- "1.2.3.4:55" and "1.2.3.4:5"
def addr55 : Bytes := [0x31, 0x2e, 0x32, 0x2e, 0x33, 0x2e, 0x34, 0x3a, 0x35, 0x35]
def addr5 : Bytes := [0x31, 0x2e, 0x32, 0x2e, 0x33, 0x2e, 0x34, 0x3a, 0x35]
def hello55 : Hello := ⟨0x0101, List.replicate 31 0xab ++ [1], [], [0xe013, 0xe011], [0]⟩
def hello5 : Hello := ⟨0x3501, 1 :: List.replicate 31 0xab, [0], [0xe013, 0xe011], [0]⟩

example : cookieInputPlain addr55 (marshalForCookie hello55) = cookieInputPlain addr5 (marshalForCookie hello5)
    ∧ addr55 ≠ addr5 ∧ hello55 ≠ hello5 ∧ hello55.wf = true ∧ hello5.wf = true := by decide

/-- … and the repaired framing separates exactly this pair. -/
example : cookieInput addr55 (marshal hello55) ≠ cookieInput addr5 (marshal hello5) := by decide

/-- what remains true of the unrepaired framing: equal address lengths -/
theorem C18_binding_partial (a a' p p' : Bytes) (hl : a.length = a'.length)
    (e : cookieInputPlain a p = cookieInputPlain a' p') : a = a' ∧ p = p' :=
  cookieInputPlain_inj_of_length hl e

/-- With an ideal MAC a cookie issued under secret `k` to address `a` for hello `h` verifies
under `k'` for (`a'`, `h'`) exactly when secret, address and all covered parameters are the same. -/
theorem C18_accept_iff {Key Tag : Type} (M : IdealMAC Key Tag) (k k' : Key) (a a' : Bytes) (h h' : Hello)
    (w : h.WF) (w' : h'.WF) (la : a.length < 65536) (la' : a'.length < 65536) :
    M.verify k' (cookieInput a' (marshal h')) (M.mac k (cookieInput a (marshal h))) = true
      ↔ (k' = k ∧ a' = a ∧ h' = h) := by
  rw [M.verify_iff]
  constructor
  · intro e
    obtain ⟨hk, hx⟩ := M.mac_inj _ _ _ _ e
    obtain ⟨ha, hp⟩ := C18_binding _ _ _ _ la la' hx
    exact ⟨hk.symm, ha.symm, (C18_params_injective _ _ w w' hp).symm⟩
  · rintro ⟨rfl, rfl, rfl⟩; rfl

example : (IdealMAC.free Bytes).verify [9] (cookieInput addr5 (marshal hello5))
    ((IdealMAC.free Bytes).mac [9] (cookieInput addr55 (marshal hello55))) = false := by decide

/-- Changing any byte of a cookie makes it invalid. -/
theorem C18_any_byte_change_invalid {Key : Type} (M : IdealMAC Key Bytes) (k : Key) (x : Bytes)
    (i : Nat) (d : UInt8) (hi : i < (M.mac k x).length) (hd : d ≠ 0) :
    M.verify k x ((M.mac k x).set i ((M.mac k x)[i] ^^^ d)) = false := by
  cases hv : M.verify k x ((M.mac k x).set i ((M.mac k x)[i] ^^^ d)) with
  | false => rfl
  | true => exact absurd ((M.verify_iff _ _ _).mp hv) (set_xor_ne _ _ _ hi hd)

example : IdealMAC.bytes.verify 5 [1, 2] ((IdealMAC.bytes.mac 5 [1, 2]).set 2 (2 ^^^ 0x80)) = false
    ∧ IdealMAC.bytes.verify 5 [1, 2] (IdealMAC.bytes.mac 5 [1, 2]) = true := by decide

/-! ### the sender's address as the server prints it

`serverHandshake` binds the cookie to `c.remoteAddr.String()` (pinned in `C18_facts`:
`cookieLoopHvrCond`, `cookieLoopIssue`); for the `*net.UDPAddr` values the net package reports
that text is the printed host, a colon and the decimal port (`hostPort`; the driver compares it
with `RemoteAddr().String()` of the real connection for every UDP peer it makes). -/

/-- The HMAC input determines the printed host **and the port** of the sender, and the
parameters: a cookie issued to host:p1 is not the cookie of host:p2, nor of another host with the
same port, whatever the hello. -/
theorem C18_binding_endpoint (h h' : Bytes) (p p' : Nat) (x x' : Bytes)
    (la : (hostPort h p).length < 65536) (la' : (hostPort h' p').length < 65536)
    (e : cookieInput (hostPort h p) x = cookieInput (hostPort h' p') x') : h = h' ∧ p = p' ∧ x = x' := by
  obtain ⟨ea, ex⟩ := C18_binding _ _ _ _ la la' e
  obtain ⟨eh, ep⟩ := hostPort_inj ea
  exact ⟨eh, ep, ex⟩

/-- … hence, with an ideal MAC, the cookie issued to endpoint (h, p) verifies at endpoint (h', p')
exactly when secret, host, port and all covered parameters are the same. -/
theorem C18_accept_iff_endpoint {Key Tag : Type} (M : IdealMAC Key Tag) (k k' : Key) (h h' : Bytes) (p p' : Nat)
    (m m' : Hello) (w : m.WF) (w' : m'.WF)
    (la : (hostPort h p).length < 65536) (la' : (hostPort h' p').length < 65536) :
    M.verify k' (cookieInput (hostPort h' p') (marshal m')) (M.mac k (cookieInput (hostPort h p) (marshal m))) = true
      ↔ (k' = k ∧ h' = h ∧ p' = p ∧ m' = m) := by
  rw [C18_accept_iff M k k' _ _ m m' w w' la la']
  constructor
  · rintro ⟨hk, ha, hm⟩
    obtain ⟨eh, ep⟩ := hostPort_inj ha
    exact ⟨hk, eh, ep, hm⟩
  · rintro ⟨rfl, rfl, rfl, rfl⟩; exact ⟨rfl, rfl, rfl⟩

-- "192.0.2.7", ports 40001 / 40002 / 4000; the printed text and what it is split back into
def host7 : Bytes := [0x31, 0x39, 0x32, 0x2e, 0x30, 0x2e, 0x32, 0x2e, 0x37]
example : hostPort host7 40001 = host7 ++ [0x3a, 0x34, 0x30, 0x30, 0x30, 0x31]
    ∧ splitHostPort (host7 ++ [0x3a, 0x34, 0x30, 0x30, 0x30, 0x31]) = some (host7, 40001)
    ∧ cookieInput (hostPort host7 40001) (marshal helloA) ≠ cookieInput (hostPort host7 40002) (marshal helloA)
    ∧ cookieInput (hostPort host7 4000) (marshal helloA) ≠ cookieInput (hostPort host7 40001) (marshal helloA)
    ∧ (IdealMAC.free Bytes).verify [9] (cookieInput (hostPort host7 40002) (marshal helloA))
        ((IdealMAC.free Bytes).mac [9] (cookieInput (hostPort host7 40001) (marshal helloA))) = false := by
  have d1 : dec 40001 = [0x34, 0x30, 0x30, 0x30, 0x31] := by simp [dec, b8]
  have d2 : dec 40002 = [0x34, 0x30, 0x30, 0x30, 0x32] := by simp [dec, b8]
  have d3 : dec 4000 = [0x34, 0x30, 0x30, 0x30] := by simp [dec, b8]
  simp only [hostPort, d1, d2, d3]
  decide

/-! ### no amplification -/

/-- The HelloVerifyRequest datagram (record header + handshake header + version + cookie
length + 32-byte cookie) is never larger than the datagram of a ClientHello that decodes. -/
theorem C18_no_amplification (body : Bytes) (d : Decoded) (hd : decodeCore body = some d) :
    datagramLen Facts.dtlcp.recordHeaderLen Facts.dtlcp.dtlcpHeaderLen (hvrBodyLen macLen)
      ≤ datagramLen Facts.dtlcp.recordHeaderLen Facts.dtlcp.dtlcpHeaderLen body.length := by
  have := decodeCore_min hd
  simp only [datagramLen, hvrBodyLen, macLen]
  omega

/-- A ClientHello sent in `k ≥ 1` fragments costs the client `k` record and handshake headers:
the single HelloVerifyRequest is not larger than the sum of the `k` datagrams. -/
theorem C18_no_amplification_fragmented (body : Bytes) (d : Decoded) (hd : decodeCore body = some d)
    (k : Nat) (hk : 1 ≤ k) :
    datagramLen Facts.dtlcp.recordHeaderLen Facts.dtlcp.dtlcpHeaderLen (hvrBodyLen macLen)
      ≤ fragmentedLen Facts.dtlcp.recordHeaderLen Facts.dtlcp.dtlcpHeaderLen body.length k := by
  have := decodeCore_min hd
  have h1 : 1 * (Facts.dtlcp.recordHeaderLen + Facts.dtlcp.dtlcpHeaderLen)
      ≤ k * (Facts.dtlcp.recordHeaderLen + Facts.dtlcp.dtlcpHeaderLen) := Nat.mul_le_mul_right _ hk
  simp only [datagramLen, fragmentedLen, hvrBodyLen, macLen] at *
  omega

/-- Several ClientHellos in one datagram (packed into one record, or one record each): the
server answers the datagram once (the rest of it is discarded — regenerated fact
`cookieLoopDropsLeftover`), so all it sends is still not larger than what it received. -/
theorem C18_no_amplification_packed (body : Bytes) (d : Decoded) (hd : decodeCore body = some d)
    (n : Nat) (hn : 1 ≤ n) (oneRecord : Bool) :
    answersPerDatagram Facts.dtlcp.cookieLoopDropsLeftover n
        * datagramLen Facts.dtlcp.recordHeaderLen Facts.dtlcp.dtlcpHeaderLen (hvrBodyLen macLen)
      ≤ packedLen Facts.dtlcp.recordHeaderLen Facts.dtlcp.dtlcpHeaderLen body.length n oneRecord := by
  have hb := decodeCore_min hd
  have hf : Facts.dtlcp.cookieLoopDropsLeftover = true := by decide
  have h1 : min 1 n = 1 := by omega
  simp only [answersPerDatagram, hf, if_true, h1, Nat.one_mul, datagramLen, hvrBodyLen, macLen, packedLen]
  cases oneRecord with
  | true =>
    have := Nat.le_mul_of_pos_left (Facts.dtlcp.dtlcpHeaderLen + body.length) (show 0 < n by omega)
    simp only [if_true]; omega
  | false =>
    have := Nat.le_mul_of_pos_left (Facts.dtlcp.recordHeaderLen + Facts.dtlcp.dtlcpHeaderLen + body.length) (show 0 < n by omega)
    simp only [Bool.false_eq_true, if_false]; omega

/-- F32 (unrepaired loop: one reply per buffered hello): two minimal hellos packed into one
record cost 115 bytes and are answered with 120. -/
example : ¬ (answersPerDatagram false 2 * datagramLen 13 12 (hvrBodyLen macLen) ≤ packedLen 13 12 39 2 true) := by decide

/-- the bound is tight: the smallest decodable ClientHello is 64 bytes on the wire, the reply 60 -/
example : (decodeCore (encodeBody ⟨0x0101, List.replicate 32 0, [], [], []⟩ [])).isSome = true
    ∧ datagramLen Facts.dtlcp.recordHeaderLen Facts.dtlcp.dtlcpHeaderLen
        (encodeBody ⟨0x0101, List.replicate 32 0, [], [], []⟩ []).length = 64
    ∧ datagramLen Facts.dtlcp.recordHeaderLen Facts.dtlcp.dtlcpHeaderLen (hvrBodyLen macLen) = 60 := by decide

/-! ### fragments of a ClientHello in the cookie phase

The cookie loop answers what `readHandshake` delivers. `message_seq` is not checked on receipt,
so the only thing that keeps a repeated fragment from making the same ClientHello "arrive" again
is that the reassembly buffer of a rebuilt message is dropped before the message is delivered
(`Model.Fragment.apply`, the `erase`; pinned for this tree by `cookieRxDeliveredBufferDropped` in
`C18_facts`). Then every delivery of a fragmented message consumes its buffer, and a datagram
that carries less than the whole message into an empty slot delivers nothing: no
HelloVerifyRequest answers it. -/

theorem frag_lookup_erase (st : Model.Fragment.Pending) (s : Nat) :
    Model.Fragment.lookup (Model.Fragment.erase st s) s = none := by
  unfold Model.Fragment.lookup Model.Fragment.erase
  rw [Option.map_eq_none_iff, List.find?_eq_none]
  intro x hx
  have := (List.mem_filter.mp hx).2
  simpa using this

/-- a rebuilt (fragmented) message is delivered once: afterwards no buffer is pending under its
`message_seq`, whatever was pending before -/
theorem C18_fragment_buffer_consumed (strict : Bool) (st st' : Model.Fragment.Pending)
    (m : Model.Fragment.FragMsg) (d : Bytes) (hfrag : m.len < m.total ∨ m.off > 0)
    (h : Model.Fragment.apply strict st m = (st', .deliver d)) :
    Model.Fragment.lookup st' m.seq = none := by
  unfold Model.Fragment.apply at h
  have hc : (decide (m.len < m.total) || decide (m.off > 0)) = true := by
    cases hfrag with
    | inl a => simp [a]
    | inr a => simp [a]
  rw [if_pos hc] at h
  split at h
  · simp at h
  · dsimp only at h
    split at h
    · simp at h
    · simp only [Prod.mk.injEq] at h
      rw [← h.1]; exact frag_lookup_erase st m.seq

/-- a datagram that carries less than the whole message, with no buffer pending under its
`message_seq` (in particular: any fragment that comes after the message was rebuilt and
delivered), delivers nothing — `readHandshake` keeps reading and the cookie loop sends nothing -/
theorem C18_late_fragment_silent (strict : Bool) (st : Model.Fragment.Pending)
    (m : Model.Fragment.FragMsg) (hnone : Model.Fragment.lookup st m.seq = none) (hlt : m.len < m.total) :
    (Model.Fragment.apply strict st m).2 = .cont := by
  unfold Model.Fragment.apply
  have hc : (decide (m.len < m.total) || decide (m.off > 0)) = true := by simp [hlt]
  rw [if_pos hc, hnone]
  simp only []
  have hn : (Model.Fragment.newBuf m.total).n = m.total := Lemmas.Fragment.newBuf_n_pos _ (by omega)
  have hinc : Model.Fragment.complete
      (Model.Fragment.addFragment (Model.Fragment.newBuf m.total) m.off m.len m.payload).1 = false := by
    rw [Bool.eq_false_iff]
    intro hcm
    rw [Lemmas.Fragment.complete_iff_tb, Lemmas.Fragment.add_n, hn] at hcm
    -- an index the fragment does not reach
    let j := if m.off = 0 then m.len else 0
    have hj : j < m.total := by simp only [j]; split <;> omega
    have := hcm j hj
    rw [Lemmas.Fragment.add_tb _ _ _ _ (Lemmas.Fragment.newBuf_wf _), Lemmas.Fragment.newBuf_tb, hn] at this
    simp only [Bool.false_or, Bool.and_eq_true, decide_eq_true_eq, j] at this
    split at this <;> omega
  rw [hinc]
  rfl

/-- hence: after a fragmented ClientHello was rebuilt and delivered, a repeat of any of its proper
fragments is not answered (nothing reaches the cookie loop) -/
theorem C18_repeated_fragment_not_answered (strict : Bool) (st st' : Model.Fragment.Pending)
    (m m' : Model.Fragment.FragMsg) (d : Bytes) (hfrag : m.len < m.total ∨ m.off > 0)
    (h : Model.Fragment.apply strict st m = (st', .deliver d))
    (hseq : m'.seq = m.seq) (hlt : m'.len < m'.total) :
    (Model.Fragment.apply strict st' m').2 = .cont :=
  C18_late_fragment_silent strict st' m' (hseq ▸ C18_fragment_buffer_consumed strict st st' m d hfrag h) hlt

/-- a 44-byte hello in fragments 0+40, 40+4: delivered at the second datagram; the repeats of the
last fragment deliver nothing; a repeat of all fragments delivers it once more -/
example : rxFragments true 44 [] [(0, 40), (40, 4), (40, 4), (40, 4), (0, 40), (40, 4), (0, 44)]
    = [false, true, false, false, true, false, true] := by decide

/-! ### what happens before a valid cookie -/

/-- Cookie loop of `serverHandshake` (its shape is pinned by `C18_facts`, including that the
read-timeout branch of `readNextClientHello` makes no call, i.e. one reply per received hello
and none while the peer is silent): for every sequence of received hellos, every reaction before the loop exits is exactly one HelloVerifyRequest,
the loop exits only on a hello whose cookie is non-empty and valid, and nothing that selects
a certificate, uses a private key or starts key agreement is reachable before the exit while
all of it is reachable after; likewise no application callback that sees the hello
(GetConfigForClient, GetCertificate, …) runs before a valid cookie (since the F48 repair). -/
theorem C18_pre_cookie_actions (inp : List (Bool × Bool)) :
    (∀ a ∈ (runLoop macLen inp).1, a = .hvr macLen ∨ a = .proceed)
    ∧ (∀ i (hi : i < (runLoop macLen inp).1.length), (runLoop macLen inp).1[i] = .proceed →
        inp[i]? = some (false, true) ∧ i + 1 = (runLoop macLen inp).1.length)
    ∧ ((∀ e ∈ inp, e ≠ (false, true)) → runLoop macLen inp = (inp.map fun _ => .hvr macLen, false))
    ∧ (∀ f ∈ commitCalls, f ∉ Facts.dtlcp.cookiePreReachable ∧ f ∈ Facts.dtlcp.cookiePostOnlyReachable)
    ∧ Facts.dtlcp.cookiePreHandshakeWrites = ["helloVerifyRequestMsg"]
    ∧ (∀ f ∈ helloCallbacks, f ∉ Facts.dtlcp.cookiePreReachable ∧ f ∈ Facts.dtlcp.cookiePostOnlyReachable) := by
  refine ⟨?_, ?_, ?_, C18_facts.2.2.2.2.2.2.2.2.2.2.2.2.2.2.2.2.1, C18_facts.2.2.2.2.2.2.2.2.2.2.2.2.2.2.2.1, by decide⟩
  · induction inp with
    | nil => intro a ha; simp [runLoop] at ha
    | cons x xs ih =>
      obtain ⟨e, v⟩ := x
      intro a ha
      unfold runLoop at ha
      cases hs : loopStep e v macLen with
      | proceed => simp [hs] at ha; exact Or.inr ha
      | hvr n =>
        have hn : n = macLen := by unfold loopStep at hs; split at hs <;> simp at hs; exact hs.symm
        simp only [hs, List.mem_cons] at ha
        rcases ha with rfl | ha
        · exact Or.inl (by rw [hn])
        · exact ih a ha
  · induction inp with
    | nil => intro i hi; simp [runLoop] at hi
    | cons x xs ih =>
      obtain ⟨e, v⟩ := x
      intro i hi hp
      unfold runLoop at hi hp ⊢
      cases hs : loopStep e v macLen with
      | proceed =>
        simp only [hs, List.length_cons, List.length_nil] at hi hp ⊢
        have : i = 0 := by omega
        subst this
        refine ⟨?_, rfl⟩
        unfold loopStep at hs
        split at hs
        · simp at hs
        · rename_i hc
          cases e <;> cases v <;> simp_all
      | hvr n =>
        simp only [hs, List.length_cons] at hi hp ⊢
        cases i with
        | zero => simp at hp
        | succ j =>
          simp only [List.getElem_cons_succ] at hp
          have := ih j (by omega) hp
          simp only [List.getElem?_cons_succ]
          exact ⟨this.1, by omega⟩
  · induction inp with
    | nil => intro _; rfl
    | cons x xs ih =>
      obtain ⟨e, v⟩ := x
      intro hne
      have hx : (e, v) ≠ (false, true) := hne _ (by simp)
      have hs : loopStep e v macLen = .hvr macLen := by
        unfold loopStep; cases e <;> cases v <;> simp_all
      unfold runLoop
      rw [hs, ih (fun e he => hne e (by simp [he]))]
      simp

example : runLoop macLen [(true, false), (false, false), (false, true), (true, false)]
    = ([.hvr 32, .hvr 32, .proceed], true) := by decide

/-! ### the secret -/

/-- `effectiveCookieSecret` (shape pinned by `C18_facts`): a configured non-empty secret is
used as is; otherwise the connection uses its own field, filled on first use with the bytes
it draws from `config.rand()` and never reassigned, so the secret is stable on one connection
and two connections that draw different bytes use different secrets. -/
theorem C18_secret_per_conn (cfg field draw draw2 : Bytes) :
    (cfg.length > 0 → effectiveSecret cfg field draw = (cfg, field))
    ∧ (cfg.length = 0 → field.length = 0 → draw.length > 0 →
        (effectiveSecret cfg field draw).1 = draw
        ∧ (effectiveSecret cfg (effectiveSecret cfg field draw).2 draw2).1 = draw)
    ∧ (cfg.length = 0 → draw ≠ draw2 →
        (effectiveSecret cfg [] draw).1 ≠ (effectiveSecret cfg [] draw2).1)
    ∧ Facts.dtlcp.cookieSecretConfiguredFirst = true ∧ Facts.dtlcp.cookieSecretPerConnField = true
    ∧ Facts.dtlcp.cookieSecretFromConfigRand = true ∧ Facts.dtlcp.cookieSecretLen = 32
    ∧ Facts.dtlcp.cookieSecretAssignSites = 1 := by
  refine ⟨?_, ?_, ?_, by decide, by decide, by decide, by decide, by decide⟩
  · intro h; simp [effectiveSecret, h]
  · intro h0 hf hd
    have h0' : ¬ cfg.length > 0 := by omega
    have hd' : ¬ draw.length = 0 := by omega
    simp [effectiveSecret, h0', hf, hd']
  · intro h0 hne
    have h0' : ¬ cfg.length > 0 := by omega
    simp [effectiveSecret, h0', hne]

example : (effectiveSecret [] [] [1, 2, 3]).1 = [1, 2, 3]
    ∧ (effectiveSecret [] (effectiveSecret [] [] [1, 2, 3]).2 [4, 5, 6]).1 = [1, 2, 3]
    ∧ (effectiveSecret [7] [] [1, 2, 3]).1 = [7] := by decide

/-- The per-connection secret is read with `io.ReadFull` (pinned in `C18_facts`:
`cookieSecretFromConfigRand` is the call `io.ReadFull(c.config.rand(), c.cookieSecret)` on a
buffer of `cookieSecretLen` bytes): however short the reads of `Config.Rand` are (each at least
one byte), the secret is the first `cookieSecretLen` bytes the source produces — all of them
random, at least the 16 the documentation of `CookieSecret` asks for — so two connections whose
sources differ anywhere in those bytes use different secrets. -/
theorem C18_secret_full_draw (s s' : Bytes) (chunks chunks' : List Nat)
    (hc : Facts.dtlcp.cookieSecretLen ≤ chunks.length) (hc' : Facts.dtlcp.cookieSecretLen ≤ chunks'.length) :
    drawSecret Facts.dtlcp.cookieSecretLen s chunks = s.take Facts.dtlcp.cookieSecretLen
    ∧ (Facts.dtlcp.cookieSecretLen ≤ s.length → (drawSecret Facts.dtlcp.cookieSecretLen s chunks).length = Facts.dtlcp.cookieSecretLen)
    ∧ (s.take Facts.dtlcp.cookieSecretLen ≠ s'.take Facts.dtlcp.cookieSecretLen →
        drawSecret Facts.dtlcp.cookieSecretLen s chunks ≠ drawSecret Facts.dtlcp.cookieSecretLen s' chunks')
    ∧ 16 ≤ Facts.dtlcp.cookieSecretLen ∧ Facts.dtlcp.cookieSecretFromConfigRand = true := by
  have hd : ∀ (t : Bytes) (cs : List Nat), Facts.dtlcp.cookieSecretLen ≤ cs.length →
      drawSecret Facts.dtlcp.cookieSecretLen t cs = t.take Facts.dtlcp.cookieSecretLen := by
    intro t cs h
    simp [drawSecret, effectiveSecret, readFull_eq_take cs t _ h]
  refine ⟨hd s chunks hc, ?_, ?_, by decide, by decide⟩
  · intro hl; rw [hd s chunks hc, List.length_take]; omega
  · intro hne; rw [hd s chunks hc, hd s' chunks' hc']; exact hne

/-- one byte per Read, 32 reads: the whole secret comes from the source -/
example : drawSecret 4 [1, 2, 3, 4, 5, 6] [1, 1, 1, 1] = [1, 2, 3, 4]
    ∧ drawSecret 4 [1, 2, 3, 4, 5, 6] [3, 0, 7] = [1, 2, 3, 4]
    ∧ drawSecret 4 [1, 2, 3, 4, 5, 6] [64] = [1, 2, 3, 4] := by decide

/-! ### the same statements about the SOURCE TEXT

`Gotlcp.Src.dtlcp.{clientHelloMsg.marshalForCookie, generateCookie, verifyCookie}` are regenerated
from dtlcp/handshake_server.go and dtlcp/cookie.go by the translator `harness/cmd/go2lean` on every
run; `hmac.New(sm3.New, k)`/`Write`/`Sum(nil)` is the parameter `ext.hmacSM3 k input`,
`subtle.ConstantTimeCompare` is equality.  `Gotlcp.Tie.Cookie` proves that the translated text MACs
exactly the model's framed input over exactly the model's parameter encoding, for all inputs. -/

open Gotlcp.Tie.Cookie in
theorem C18_src_translated : Src.untranslated = [] := by decide

open Gotlcp.Tie.Cookie in
/-- The byte string the translated `generateCookie` authenticates determines the client address
and the parameter bytes (addresses shorter than 64 KiB, as every `net.Addr.String()` is). -/
theorem C18_src_binding (a a' p p' : BV) (la : a.length < 65536) (la' : a'.length < 65536)
    (e : srcCookieInput a p = srcCookieInput a' p') : a = a' ∧ p = p' := by
  have e' := congrArg toBytes e
  rw [tie_cookieInput, tie_cookieInput] at e'
  have := cookieInputFramed_inj (by simpa using la) (by simpa using la') e'
  exact ⟨toBytes_inj this.1, toBytes_inj this.2⟩

open Gotlcp.Tie.Cookie in
/-- The translated `marshalForCookie` determines version, random, session id, cipher suites and
compression methods of every decodable ClientHello. -/
theorem C18_src_params_injective (m m' : Src.dtlcp.clientHelloMsg)
    (w : (absHello m).WF) (w' : (absHello m').WF)
    (e : Src.dtlcp.clientHelloMsg.marshalForCookie m = Src.dtlcp.clientHelloMsg.marshalForCookie m') :
    absHello m = absHello m' := by
  have e' := congrArg toBytes e
  rw [tie_marshalForCookie, tie_marshalForCookie] at e'
  exact marshalForCookie_inj w w' e'

open Gotlcp.Tie.Cookie in
/-- With an ideal keyed hash (injective in key and input — a hypothesis on the parameter, never an
axiom) the translated `verifyCookie` accepts the cookie the translated `generateCookie` issued under
secret `k` to address `a` for hello `m` exactly for the same secret, the same address and the same
covered parameters. -/
theorem C18_src_accept_iff (ext : Go.Extern)
    (hinj : ∀ k x k' x', ext.hmacSM3 k x = ext.hmacSM3 k' x' → k = k' ∧ x = x')
    (k k' a a' : BV) (m m' : Src.dtlcp.clientHelloMsg)
    (w : (absHello m).WF) (w' : (absHello m').WF) (la : a.length < 65536) (la' : a'.length < 65536) :
    Src.dtlcp.verifyCookie ext k' a' (Src.dtlcp.clientHelloMsg.marshalForCookie m')
        (Src.dtlcp.generateCookie ext k a (Src.dtlcp.clientHelloMsg.marshalForCookie m)) = true
      ↔ (k' = k ∧ a' = a ∧ absHello m' = absHello m) := by
  rw [tie_verifyCookie, tie_generateCookie, decide_eq_true_iff]
  constructor
  · intro e
    obtain ⟨hk, hx⟩ := hinj _ _ _ _ e
    obtain ⟨ha, hp⟩ := C18_src_binding _ _ _ _ la' la hx
    exact ⟨hk, ha, C18_src_params_injective _ _ w' w hp⟩
  · rintro ⟨rfl, rfl, hm⟩
    have : Src.dtlcp.clientHelloMsg.marshalForCookie m' = Src.dtlcp.clientHelloMsg.marshalForCookie m := by
      apply toBytes_inj
      rw [tie_marshalForCookie, tie_marshalForCookie, hm]
    rw [this]

open Gotlcp.Tie.Cookie in
/-- The translated `generateCookie`, fed the printed endpoint host:port as `serverHandshake` does
(`c.remoteAddr.String()`), authenticates a byte string that determines host and port. -/
theorem C18_src_binding_endpoint (a a' x x' : BV) (h h' : Bytes) (p p' : Nat)
    (ha : toBytes a = hostPort h p) (ha' : toBytes a' = hostPort h' p')
    (la : a.length < 65536) (la' : a'.length < 65536)
    (e : srcCookieInput a x = srcCookieInput a' x') : h = h' ∧ p = p' ∧ x = x' := by
  obtain ⟨ea, ex⟩ := C18_src_binding a a' x x' la la' e
  have : hostPort h p = hostPort h' p' := by rw [← ha, ← ha', ea]
  obtain ⟨eh, ep⟩ := hostPort_inj this
  exact ⟨eh, ep, ex⟩

/-- non-vacuity: the translated code evaluated by the kernel on a concrete hello and address, with
"tag = key ‖ input" as the keyed hash -/
def exExt : Go.Extern := ⟨fun _ k x => k ++ x⟩
def exSrcHello : Src.dtlcp.clientHelloMsg :=
  { vers := 0x0101#16, random := List.replicate 32 (7#8), sessionId := [1#8],
    cipherSuites := [0xe013#16, 0xe011#16], compressionMethods := [0#8] }
example :
    Src.dtlcp.verifyCookie exExt [9#8] [0x31#8, 0x3a#8, 0x35#8] (Src.dtlcp.clientHelloMsg.marshalForCookie exSrcHello)
        (Src.dtlcp.generateCookie exExt [9#8] [0x31#8, 0x3a#8, 0x35#8] (Src.dtlcp.clientHelloMsg.marshalForCookie exSrcHello)) = true
    ∧ Src.dtlcp.verifyCookie exExt [9#8] [0x31#8, 0x3a#8] (Src.dtlcp.clientHelloMsg.marshalForCookie exSrcHello)
        (Src.dtlcp.generateCookie exExt [9#8] [0x31#8, 0x3a#8, 0x35#8] (Src.dtlcp.clientHelloMsg.marshalForCookie exSrcHello)) = false := by
  decide

end Gotlcp.Props.C18

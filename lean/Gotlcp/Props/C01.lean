/-
C01 — honest handshakes end in agreement on every negotiated parameter.

Property theorems only (helpers are in `Gotlcp.Lemmas.Negotiate`).  Every statement
quantifies over ALL pairs of configurations: `CipherSuites` and `NextProtos` lists of any
length, content and order, any number of certificates, any version window, every policy,
key type and CA combination, with or without `Clone()`; and over both stacks (`st`).
The history theorems (`C01_history*`) in addition quantify over ALL histories: any number of
connections between the same two parties, with any reconfiguration (`Reconf`: enabled suites
and protocols of either side, Clone(), the server's use of its session cache) between any
two of them; they are proved by induction on the history with an invariant on what the two
session caches hold.

The model is `Gotlcp.Model.Negotiate` instantiated with the tables and code shapes
regenerated from the Go source (`factsP st`, from `Gotlcp.Facts`); the spec
(`Gotlcp.Spec.Negotiate`: `compatible`, `expected`, `mutualSuite`, `alpnRule`) is written
from the documentation and mentions no fact.

Tie by translation (`C01_src_*`, last section): `Config.supportedVersions`, `Config.mutualVersion`,
`supportedVersionsFromMax`, `negotiateALPN` and `checkALPN` of BOTH stacks are translated to Lean on
every run (`Gotlcp.Src`); `Gotlcp.Tie.Negotiate` proves them equal to the model's functions, which is
where `factsP`'s version table and ALPN loop shape come from (`Model.Negotiate.treeVersions`,
`treeAlpnOuterIsFirstArg` — literals, not text-matching facts), and the statements about version and
ALPN agreement are restated, for ALL inputs, about the translated functions themselves.
-/
import Gotlcp.Lemmas.Negotiate
import Gotlcp.Lemmas.NegotiateHistory
import Gotlcp.Model.NegotiateFacts
import Gotlcp.Tie.Negotiate

set_option linter.unusedSimpArgs false
set_option linter.unusedVariables false

namespace Gotlcp.Props.C01
open Gotlcp.Negotiate
open Gotlcp.Model.Negotiate
open Gotlcp.Spec.Negotiate
open Gotlcp.Lemmas.Negotiate

/-! ### the regenerated facts are the documented tables -/

/-- Everything the theorems below rely on, pinned to the source of this tree: the suite table with
its flags, the ECDHE ids of the guards, the numeric order of the policies, `requiresClientCert`, the
iteration shape of `makeClientHello`, the argument order at the call of
`negotiateALPN` (server's list first), the ECDHE
policy override, the request and verification thresholds, the repaired certificate list of
the client (F36), the re-check of the recorded client certificates by `doResumeHandshake`, the Clone
field sets — for both stacks; nothing the extractor looked for is missing.
NOT pinned by text-matching facts any more: the version table, the loop shape of `negotiateALPN` and
its h2 / http/1.1 fallback literals.  `factsP` takes them from `Model.Negotiate.treeVersions` /
`treeAlpnOuterIsFirstArg`, and `Gotlcp.Tie.Negotiate` proves the functions translated from the source
of both stacks equal to the model with exactly these values (`C01_src_is_model` below).  Likewise the preference
order, the (empty) list of disabled suites, the iteration shapes of `selectCipherSuite` / the server's
`pickCipherSuite` and the policy / version / suite guards of `checkForResumption`: `factsP` takes them from
`treePref`, `treeDisabled`, `treeServerPrefFirst`, `treeResumePolicyGuards`, `treeResumeSuiteGuards`, and
`Gotlcp.Tie.Select` / `Gotlcp.Tie.ResumeDecision` prove the translated functions equal to the model with these
values (`C01_src_sel_is_model_*` in Props/C01SrcSel.lean); the text facts `negSelectServerFirst`,
`negPrefListFromOrder`, `negResumePolicyGuards`, `negResumeSuiteGuards` are informational. -/
theorem C01_facts :
    tlcpParams = refParams ∧ dtlcpParams = refParams ∧
    Facts.tlcp.negHelloFromOrder = true ∧ Facts.dtlcp.negHelloFromOrder = true ∧
    Facts.tlcp.negEcdheAuthOverride = true ∧ Facts.dtlcp.negEcdheAuthOverride = true ∧
    Facts.tlcp.negCertReqFromRequest = true ∧ Facts.dtlcp.negCertReqFromRequest = true ∧
    Facts.tlcp.negVerifyFromIfGiven = true ∧ Facts.dtlcp.negVerifyFromIfGiven = true ∧
    Facts.tlcp.negResumeReprocessesCerts = true ∧ Facts.dtlcp.negResumeReprocessesCerts = true ∧
    Facts.tlcp.VersionTLCP = docVersion ∧ Facts.dtlcp.VersionTLCP = docVersion ∧
    Facts.missing = [] := by
  decide

theorem factsP_eq (st : Stack) : factsP st = refParams := by
  cases st
  · exact C01_facts.1
  · exact C01_facts.2.1

/-! ### success exactly when compatible, and then exactly the expected parameters -/

/-- A handshake between two unmodified endpoints succeeds iff the configurations are compatible. -/
theorem C01_success_iff_compatible (st : Stack) (c : ClientCfg) (s : ServerCfg) :
    isOk (negotiate (factsP st) c s) = true ↔ compatible c s = true := by
  rw [factsP_eq]
  obtain ⟨h1, h2⟩ := negotiate_ref c s
  constructor
  · intro h
    cases hc : compatible c s with
    | true => rfl
    | false => rw [h2 hc] at h; cases h
  · intro h
    rw [h1 h]; rfl

/-- Whatever a successful handshake reports, on either end, is what the spec prescribes. -/
theorem C01_agreed_is_expected (st : Stack) (c : ClientCfg) (s : ServerCfg) (a : Agreed)
    (h : negotiate (factsP st) c s = .ok a) : a = expected c s := by
  rw [factsP_eq] at h
  obtain ⟨h1, h2⟩ := negotiate_ref c s
  cases hc : compatible c s with
  | true => rw [h1 hc] at h; exact (Except.ok.inj h).symm
  | false =>
    have := h2 hc
    rw [h] at this
    cases this

/-- Both endpoints report the same version, suite, application protocol and resumption
flag; the version is 0x0101; the client sees the server's two certificates, the server sees
exactly the certificates the client presented. -/
theorem C01_views_agree (st : Stack) (c : ClientCfg) (s : ServerCfg) (a : Agreed)
    (h : negotiate (factsP st) c s = .ok a) :
    a.client.vers = a.server.vers ∧ a.client.suite = a.server.suite ∧
    a.client.alpn = a.server.alpn ∧ a.client.resumed = a.server.resumed ∧
    a.client.vers = docVersion ∧ a.client.resumed = false ∧
    a.client.peerCerts = [.S, .E] ∧ a.server.peerCerts = clientCertsSeen c s a.server.suite := by
  have := C01_agreed_is_expected st c s a h
  subst this
  exact ⟨rfl, rfl, rfl, rfl, rfl, rfl, rfl, rfl⟩

/-- The next connection between the same two configurations also succeeds, with the same
parameters and certificates, and both ends report the same resumption flag: resumed exactly
when both sides have a session cache and the server's policy admits the recorded session
(a NoClientCert server falls back to a full handshake for a session that recorded client
certificates, i.e. after ECDHE). -/
theorem C01_next_connection (st : Stack) (c : ClientCfg) (s : ServerCfg) (h : compatible c s = true) :
    negotiateNext (factsP st) c s (expected c s) = .ok (expectedNext c s) ∧
    (expectedNext c s).client.resumed = (expectedNext c s).server.resumed ∧
    (expectedNext c s).client.resumed = resumable c s ∧
    (resumable c s = true → c.cache = true ∧ s.cache = true) ∧
    (c.cache = true → s.cache = true → s.auth ≠ .noClientCert → resumable c s = true) ∧
    (expectedNext c s).client.suite = (expected c s).client.suite ∧
    (expectedNext c s).client.alpn = (expected c s).client.alpn ∧
    (expectedNext c s).server.peerCerts = (expected c s).server.peerCerts := by
  rw [factsP_eq]
  refine ⟨negotiateNext_ref c s h, rfl, rfl, ?_, ?_, rfl, rfl, rfl⟩
  · intro hr
    unfold resumable at hr
    simp only [Bool.and_eq_true] at hr
    exact ⟨hr.1.1, hr.1.2⟩
  · intro h1 h2 h3
    unfold resumable
    cases ha : s.auth <;> simp_all

/-! ### histories: any number of connections, reconfigurations in between -/

/-- EVERY connection of EVERY history between two parties is as the spec prescribes
(`historyOK`, `connOK`): starting with empty session caches, whatever the sequence of
reconfigurations, each connection succeeds iff the configurations then in use are compatible,
and is either a full handshake reporting exactly what a first connection of these
configurations reports, or the resumption of the most recent full handshake with that
session's suite — still enabled and keyed on both sides of the configurations in use — and
certificates, a freshly negotiated application protocol, and a session cache on both sides. -/
theorem C01_history (st : Stack) (c : ClientCfg) (s : ServerCfg) (rs : List Reconf) :
    historyOK c s none rs ((runHistory (factsP st) c s {} rs).map outcome) = true := by
  rw [factsP_eq]
  exact history_ref c s rs {} none (Or.inl rfl)

/-- The same, spelled out for the `i`-th connection: it succeeds iff its configurations are
compatible; then both ends agree on version 0x0101, suite, protocol and resumption flag, the
suite is one both configurations in use enable and have keys for, the protocol is what the
ALPN rule selects for the lists in use; a connection that is not a resumption reports exactly
`expected` (so its suite is the first mutual one); a resumption needs a cache on both sides
and repeats suite and certificates of an EARLIER full handshake `j < i` of the same history. -/
theorem C01_history_each (st : Stack) (c0 : ClientCfg) (s0 : ServerCfg) (rs : List Reconf)
    (i : Nat) (r : Reconf) (x : Option Agreed) (hr : rs[i]? = some r)
    (hx : ((runHistory (factsP st) c0 s0 {} rs).map outcome)[i]? = some x) :
    (x.isSome = true ↔ compatible (r.client c0) (r.server s0) = true) ∧
    ∀ a, x = some a →
      a.client.vers = docVersion ∧ viewsAgree a = true ∧
      usable (r.client c0) (r.server s0) a.client.suite = true ∧
      alpnRule (r.server s0).alpn (r.client c0).alpn = some a.client.alpn ∧
      ((a.client.resumed || a.server.resumed) = false → a = expected (r.client c0) (r.server s0)) ∧
      ((a.client.resumed || a.server.resumed) = true →
        (r.client c0).cache = true ∧ (r.server s0).cache = true ∧
        ∃ j b, j < i ∧ ((runHistory (factsP st) c0 s0 {} rs).map outcome)[j]? = some (some b) ∧
          (b.client.resumed || b.server.resumed) = false ∧
          a = resumedFrom b (r.client c0) (r.server s0)) := by
  obtain ⟨o', hok, hfrom⟩ := historyOK_nth c0 s0 rs none _ (C01_history st c0 s0 rs) i r x hr hx
  cases x with
  | none =>
    refine ⟨?_, fun a h => by cases h⟩
    have : compatible (r.client c0) (r.server s0) = false := by simpa [connOK] using hok
    simp [this]
  | some a =>
    obtain ⟨h1, h2, h3, h4, h5, h6, h7⟩ := connOK_some _ _ _ _ hok
    refine ⟨by simp [h1], fun a' ha' => ?_⟩
    cases ha'
    refine ⟨h2, h3, h4, h5, h6, fun hres => ?_⟩
    obtain ⟨hc, hs, b, hb, hab⟩ := h7 hres
    refine ⟨hc, hs, ?_⟩
    rcases hfrom b hb with hn | ⟨j, hj, hxj, hnr⟩
    · cases hn
    · exact ⟨j, b, hj, hxj, hnr, hab⟩

/-- Without reconfiguration — the same two compatible configurations connecting `n + 1`
times, for every `n` — the first connection reports `expected`, and EVERY later one
`expectedNext`: it succeeds with the same suite, protocol and certificates, resumed exactly
when `resumable` (both sides cache and the policy admits the recorded session). -/
theorem C01_history_constant (st : Stack) (c : ClientCfg) (s : ServerCfg) (r : Reconf) (n : Nat)
    (h : compatible (r.client c) (r.server s) = true) :
    runHistory (factsP st) c s {} (List.replicate (n + 1) r) =
      .ok (expected (r.client c) (r.server s)) ::
        List.replicate n (.ok (expectedNext (r.client c) (r.server s))) := by
  rw [factsP_eq]
  exact constant_history c s r n h

/-! ### the suite is the first mutual one in the documented priority order -/

/-- The extracted preference order IS the documented one, and the negotiated suite is its
first element that both sides enabled and have keys for: it is usable, and every suite
before it in the order is not. -/
theorem C01_suite_is_first_mutual (st : Stack) (c : ClientCfg) (s : ServerCfg) (a : Agreed)
    (h : negotiate (factsP st) c s = .ok a) :
    Facts.tlcp.preferenceOrder = docOrder ∧ Facts.dtlcp.preferenceOrder = docOrder ∧
    docOrder = [0xe053, 0xe013, 0xe051, 0xe011] ∧
    a.server.suite = a.client.suite ∧ usable c s a.client.suite = true ∧
    ∃ before after, docOrder = before ++ a.client.suite :: after ∧ ∀ x, x ∈ before → usable c s x = false := by
  refine ⟨by decide, by decide, rfl, ?_⟩
  have hcomp := (C01_success_iff_compatible st c s).mp (by rw [h]; rfl)
  have := C01_agreed_is_expected st c s a h
  subst this
  obtain ⟨_, _, _, ⟨suite, hm, _⟩⟩ := compatible_parts c s hcomp
  have hs : (expected c s).client.suite = suite := by
    show (mutualSuite c s).getD 0 = suite
    rw [hm]; rfl
  rw [hs]
  refine ⟨hs, ?_⟩
  unfold mutualSuite at hm
  obtain ⟨hu, before, after, hd, hb⟩ := List.find?_eq_some_iff_append.mp hm
  exact ⟨hu, before, after, hd, fun x hx => by simpa using hb x hx⟩

/-! ### ALPN -/

/-- The negotiated application protocol is what the documented rule selects, on both ends. -/
theorem C01_alpn_rule (st : Stack) (c : ClientCfg) (s : ServerCfg) (a : Agreed)
    (h : negotiate (factsP st) c s = .ok a) :
    alpnRule s.alpn c.alpn = some a.client.alpn ∧ a.server.alpn = a.client.alpn := by
  have hcomp := (C01_success_iff_compatible st c s).mp (by rw [h]; rfl)
  have := C01_agreed_is_expected st c s a h
  subst this
  obtain ⟨_, _, ⟨proto, ha⟩, _⟩ := compatible_parts c s hcomp
  refine ⟨?_, rfl⟩
  show alpnRule s.alpn c.alpn = some ((alpnRule s.alpn c.alpn).getD "")
  rw [ha]; rfl

/-- The rule, spelled out: nothing is negotiated when either side lists nothing. -/
theorem C01_alpn_ignored (server client : List String) (h : server = [] ∨ client = []) :
    alpnRule server client = some "" := by
  unfold alpnRule
  rcases h with h | h <;> subst h <;> simp

/-- … otherwise a selected protocol is the first entry of the server's list that the client
listed (the server's order decides, not the client's). -/
theorem C01_alpn_server_preference (server client : List String) (p : String)
    (hs : server ≠ []) (hc : client ≠ []) (h : alpnRule server client = some p) (hp : p ≠ "") :
    p ∈ client ∧ ∃ before after, server = before ++ p :: after ∧ ∀ x, x ∈ before → x ∉ client := by
  unfold alpnRule at h
  have he : (server.isEmpty || client.isEmpty) = false := by
    cases server <;> cases client <;> simp_all
  simp only [he, Bool.false_eq_true, if_false] at h
  cases hf : server.find? (fun sp => client.contains sp) with
  | some r =>
    rw [hf] at h
    have : r = p := by simpa using h
    subst this
    obtain ⟨hu, before, after, hd, hb⟩ := List.find?_eq_some_iff_append.mp hf
    refine ⟨by simpa using hu, before, after, hd, fun x hx => ?_⟩
    have := hb x hx
    simpa using this
  | none =>
    rw [hf] at h
    simp only at h
    split at h
    · exact absurd (Option.some.inj h).symm hp
    · cases h

/-- … and without a common protocol the handshake fails, except that an "h2" server lets an
"http/1.1" client through with no protocol selected. -/
theorem C01_alpn_disjoint (server client : List String)
    (hs : server ≠ []) (hc : client ≠ []) (hd : ∀ x, x ∈ server → x ∉ client) :
    alpnRule server client =
      if "h2" ∈ server ∧ "http/1.1" ∈ client then some "" else none := by
  unfold alpnRule
  have he : (server.isEmpty || client.isEmpty) = false := by
    cases server <;> cases client <;> simp_all
  simp only [he, Bool.false_eq_true, if_false]
  have hf : server.find? (fun sp => client.contains sp) = none := by
    rw [List.find?_eq_none]
    intro x hx
    simpa using hd x hx
  rw [hf]
  simp

/-! ### the configured order of CipherSuites is ignored -/

/-- Permuting either side's configured `CipherSuites` changes neither whether the handshake
succeeds nor any parameter it ends with. -/
theorem C01_order_independent (st : Stack) (c : ClientCfg) (s : ServerCfg)
    (l l' m m' : List Nat) (hc : c.suites = some l) (hs : s.suites = some m)
    (hl : l.Perm l') (hm : m.Perm m') :
    outcome (negotiate (factsP st) { c with suites := some l' } { s with suites := some m' }) =
    outcome (negotiate (factsP st) c s) := by
  rw [factsP_eq, outcome_ref, outcome_ref]
  have hu : ∀ id, usable { c with suites := some l' } { s with suites := some m' } id = usable c s id := by
    intro id
    apply usable_congr
    · intro id; show enabled (some l') id = enabled c.suites id; rw [hc]; exact (enabled_perm l l' hl id).symm
    · intro id; show enabled (some m') id = enabled s.suites id; rw [hs]; exact (enabled_perm m m' hm id).symm
    · rfl
    · rfl
    · rfl
  have hms : mutualSuite { c with suites := some l' } { s with suites := some m' } = mutualSuite c s := by
    unfold mutualSuite
    exact find?_congr' (fun x _ => hu x)
  have hcomp : compatible { c with suites := some l' } { s with suites := some m' } = compatible c s := by
    unfold compatible
    rw [hms]
    rfl
  have hexp : expected { c with suites := some l' } { s with suites := some m' } = expected c s := by
    unfold expected expectedWith
    rw [hms]
    rfl
  rw [hcomp, hexp]

/-! ### Clone -/

/-- `Config.Clone` copies every field verbatim in both stacks (regenerated AST fact), and
consequently using either configuration through `Clone()` changes nothing. -/
theorem C01_clone (st : Stack) (c : ClientCfg) (s : ServerCfg) :
    Facts.tlcp.cloneMissing = [] ∧ Facts.tlcp.cloneNotVerbatim = [] ∧
    Facts.dtlcp.cloneMissing = [] ∧ Facts.dtlcp.cloneNotVerbatim = [] ∧
    outcome (negotiate (factsP st) { c with clone := true } { s with clone := true }) =
      outcome (negotiate (factsP st) { c with clone := false } { s with clone := false }) := by
  refine ⟨by decide, by decide, by decide, by decide, ?_⟩
  rw [factsP_eq, outcome_ref, outcome_ref]
  rfl

/-! ### non-vacuity: a compatible pair, and an incompatible pair per failure kind -/

/-- defaults on both sides: ECC_SM4_GCM_SM3, no protocol, no client certificate -/
example : outcome (negotiate refParams {} {}) = some (expected {} {}) ∧ compatible {} {} = true ∧
    (expected {} {}).client.suite = 0xe053 := by decide

/-- mutual authentication with ECDHE only, ALPN by server preference, through Clone -/
example :
    let c : ClientCfg := { suites := some [0xe011, 0xe051], nCerts := 2, alpn := ["h2", "http/1.1"], clone := true }
    let s : ServerCfg := { auth := .requireAndVerifyClientCert, cas := .root, alpn := ["http/1.1", "h2"], clone := true }
    compatible c s = true ∧ (expected c s).client.suite = 0xe051 ∧ (expected c s).server.alpn = "http/1.1" ∧
    (expected c s).server.peerCerts = [.S, .E] ∧ outcome (negotiate refParams c s) = some (expected c s) := by decide

example : failureOf (negotiate refParams { minV := 0x0102 } {}) = some .clientNoVersion ∧ compatible { minV := 0x0102 } {} = false := by decide
example : failureOf (negotiate refParams {} { maxV := 0x0100 }) = some .version ∧ compatible {} { maxV := 0x0100 } = false := by decide
example : failureOf (negotiate refParams { alpn := ["spdy"] } { alpn := ["h2"] }) = some .alpn ∧
    compatible { alpn := ["spdy"] } { alpn := ["h2"] } = false := by decide
example : failureOf (negotiate refParams {} { nCerts := 1 }) = some .serverNoCert ∧ compatible {} { nCerts := 1 } = false := by decide
example : failureOf (negotiate refParams {} { sigKey := .ed25519 }) = some .serverKeyType ∧ compatible {} { sigKey := .ed25519 } = false := by decide
example : failureOf (negotiate refParams { suites := some [0xe013] } { suites := some [0xe053] }) = some .noSuite ∧
    compatible { suites := some [0xe013] } { suites := some [0xe053] } = false := by decide
/-- ECDHE without both client key pairs is not even offered -/
example : failureOf (negotiate refParams { suites := some [0xe051], nCerts := 1 } {}) = some .noSuite ∧
    compatible { suites := some [0xe051], nCerts := 1 } {} = false := by decide
example : failureOf (negotiate refParams {} { sigKey := .p256 }) = some .skxSignature ∧ compatible {} { sigKey := .p256 } = false := by decide
example : failureOf (negotiate refParams {} { auth := .requireAnyClientCert }) = some .certMissing ∧
    compatible {} { auth := .requireAnyClientCert } = false := by decide
example : failureOf (negotiate refParams { nCerts := 1, family := .other } { auth := .verifyClientCertIfGiven, cas := .none }) = some .certVerify ∧
    compatible { nCerts := 1, family := .other } { auth := .verifyClientCertIfGiven, cas := .none } = false := by decide
/-- ECDHE when the server's CA list rules the client's certificates out -/
example : failureOf (negotiate refParams { suites := some [0xe051], nCerts := 2, family := .other } { cas := .root }) = some .clientNoEncCert ∧
    compatible { suites := some [0xe051], nCerts := 2, family := .other } { cas := .root } = false := by decide
example : failureOf (negotiate refParams { suites := some [0xe051], nCerts := 1, getKECert := true, family := .other } { cas := .root }) = some .ecdheCerts ∧
    compatible { suites := some [0xe051], nCerts := 1, getKECert := true, family := .other } { cas := .root } = false := by decide

/-! ### histories: non-vacuity and the two defect classes the history theorems exclude -/

/-- five connections of two caching defaults: full, then four resumptions -/
example :
    (runHistory refParams { cache := true } {} {} (List.replicate 5 { scache := true })).map
      (fun r => (outcome r).map fun a => (a.client.suite, a.client.resumed)) =
    [some (0xe053, false), some (0xe053, true), some (0xe053, true), some (0xe053, true), some (0xe053, true)] := by
  decide

/-- the server is reconfigured (a Clone sharing the cache) to CBC only: the GCM session is not
resumed, the connection is a full handshake with the suite both sides now enable; switching
back resumes the CBC session because it is still enabled; a server without any common suite
is refused and the client forgets the session, so the next connection is full again -/
example :
    (runHistory refParams { cache := true } {} {}
      [{ scache := true }, { scache := true, ss := some [0xe013], sclone := true }, { scache := true },
       { scache := true, ss := some [0xe051] }, { scache := true }]).map
      (fun r => (outcome r).map fun a => (a.client.suite, a.client.resumed)) =
    [some (0xe053, false), some (0xe013, false), some (0xe013, true), none, some (0xe053, false)] := by
  decide

/-- a model whose `checkForResumption` lost its suite guards (`resumeSuiteGuards := false`)
resumes the GCM session under a configuration that enables CBC only — and the spec rejects
that history, while it accepts the one of the code as it is -/
example :
    let rs : List Reconf := [{ scache := true }, { scache := true, ss := some [0xe013] }]
    historyOK { cache := true } {} none rs
      ((runHistory { refParams with resumeSuiteGuards := false } { cache := true } {} {} rs).map outcome) = false ∧
    historyOK { cache := true } {} none rs ((runHistory refParams { cache := true } {} {} rs).map outcome) = true := by
  decide

/-- the spec rejects a history whose third connection fails although nothing changed -/
example :
    historyOK { cache := true } {} none (List.replicate 3 { scache := true })
      [some (expected { cache := true } { cache := true }), some (expectedNext { cache := true } { cache := true }), none] = false := by
  decide

/-! ### finding F36 (repaired): the unrepaired client breaks `C01_success_iff_compatible` -/

/-- With the client as it was before the repair (`encCertNeedsSig := false`: the encryption
certificate is sent even without a signing certificate), a client that only has an
encryption key pair cannot connect to a server that merely *requests* a certificate,
although the pair is compatible — and connects once the certificate list is repaired. -/
example :
    let c : ClientCfg := { getKECert := true }
    let s : ServerCfg := { auth := .requestClientCert }
    compatible c s = true ∧
    failureOf (negotiate { refParams with encCertNeedsSig := false } c s) = some .certVerifyMsg ∧
    outcome (negotiate refParams c s) = some (expected c s) := by decide

/-! ### the translated source (tie by translation, `Gotlcp.Tie.Negotiate`)

`Gotlcp.Src.{tlcp,dtlcp}.neg.*` and `Gotlcp.Src.{tlcp,dtlcp}.supportedVersionsFromMax` are regenerated from
the Go source on every run.  The statements below are about THOSE definitions, for all inputs: every
list of byte strings (a Go string is its bytes; valid UTF-8 or not), every 16-bit version window,
every peer version list. -/

section src
open Gotlcp.Tie.Negotiate

/-- the translated `negotiateALPN(serverProtos, clientProtos)` of a stack -/
def srcNegotiateALPN : Stack → List Str → List Str → Str × Option Go.Error
  | .tlcp => Src.tlcp.neg.negotiateALPN
  | .dtlcp => Src.dtlcp.neg.negotiateALPN

/-- the translated `checkALPN(clientProtos, serverProto)` of a stack -/
def srcCheckALPN : Stack → List Str → Str → Option Go.Error
  | .tlcp => Src.tlcp.neg.checkALPN
  | .dtlcp => Src.dtlcp.neg.checkALPN

/-- the translated `(&Config{MinVersion: mn, MaxVersion: mx}).supportedVersions(isClient)` of a stack -/
def srcSupportedVersions : Stack → BitVec 16 → BitVec 16 → Bool → List (BitVec 16)
  | .tlcp, mn, mx, b => Src.tlcp.neg.Config.supportedVersions ⟨mn, mx⟩ b
  | .dtlcp, mn, mx, b => Src.dtlcp.neg.Config.supportedVersions ⟨mn, mx⟩ b

/-- the translated `(&Config{MinVersion: mn, MaxVersion: mx}).mutualVersion(isClient, peerVersions)` -/
def srcMutualVersion : Stack → BitVec 16 → BitVec 16 → Bool → List (BitVec 16) → BitVec 16 × Bool
  | .tlcp, mn, mx, b, peer => Src.tlcp.neg.Config.mutualVersion ⟨mn, mx⟩ b peer
  | .dtlcp, mn, mx, b, peer => Src.dtlcp.neg.Config.mutualVersion ⟨mn, mx⟩ b peer

/-- the translated `supportedVersionsFromMax(maxVersion)` of a stack -/
def srcVersionsFromMax : Stack → BitVec 16 → List (BitVec 16)
  | .tlcp => Src.tlcp.supportedVersionsFromMax
  | .dtlcp => Src.dtlcp.supportedVersionsFromMax

theorem srcNegotiateALPN_eq (st : Stack) (s c : List Str) : srcNegotiateALPN st s c = alpnPick s c := by
  cases st
  · exact negotiateALPN_eq_tlcp s c
  · exact negotiateALPN_eq_dtlcp s c

theorem srcCheckALPN_eq (st : Stack) (c : List Str) (p : Str) : srcCheckALPN st c p = checkPick c p := by
  cases st
  · exact checkALPN_eq_tlcp c p
  · exact checkALPN_eq_dtlcp c p

theorem srcSupportedVersions_eq (st : Stack) (mn mx : BitVec 16) (b : Bool) :
    srcSupportedVersions st mn mx b = [0x0101#16].filter (keepVersion mn mx) := by
  cases st
  · exact supportedVersions_eq_tlcp ⟨mn, mx⟩ b
  · exact supportedVersions_eq_dtlcp ⟨mn, mx⟩ b

theorem srcMutualVersion_eq (st : Stack) (mn mx : BitVec 16) (b : Bool) (peer : List (BitVec 16)) :
    srcMutualVersion st mn mx b peer = mutualPick (srcSupportedVersions st mn mx b) peer := by
  cases st
  · exact mutualVersion_eq_tlcp ⟨mn, mx⟩ b peer
  · exact mutualVersion_eq_dtlcp ⟨mn, mx⟩ b peer

/-- Every function the translator was asked for was translated, and the model instance of this file
takes its version table and its ALPN loop shape from the values `Gotlcp.Tie.Negotiate` proves about the
translated text. -/
theorem C01_src_translated :
    Src.untranslated = [] ∧
    ∀ st, (factsP st).versions = treeVersions ∧ (factsP st).alpnServerFirst = true :=
  ⟨by decide, fun st => by cases st <;> exact ⟨rfl, by decide⟩⟩

/-- The translated functions of either stack ARE the model this file's theorems are about (the
model of either stack, `st'`): `negotiateALPN`, `checkALPN` on all lists of strings (as their UTF-8
bytes), `Config.supportedVersions`, `Config.mutualVersion`, `supportedVersionsFromMax` on all version
windows, peer lists and ClientHello versions (as 16-bit numbers). -/
theorem C01_src_is_model (st st' : Stack) :
    (∀ s c : List String,
      srcNegotiateALPN st (s.map strBytes) (c.map strBytes) = encALPN (negotiateALPN (factsP st') s c)) ∧
    (∀ (c : List String) (p : String),
      srcCheckALPN st (c.map strBytes) (strBytes p) = encCheck (checkALPN c p)) ∧
    (∀ (mn mx : BitVec 16) (isClient : Bool),
      (srcSupportedVersions st mn mx isClient).map (·.toNat) = supportedVersions (factsP st') mn.toNat mx.toNat) ∧
    (∀ (mn mx : BitVec 16) (isClient : Bool) (peer : List (BitVec 16)),
      srcMutualVersion st mn mx isClient peer =
        encVersion (mutualVersion (factsP st') mn.toNat mx.toNat (peer.map (·.toNat)))) ∧
    (∀ m : BitVec 16, (srcVersionsFromMax st m).map (·.toNat) = versionsFromMax (factsP st') m.toNat) := by
  obtain ⟨hv, ha⟩ := C01_src_translated.2 st'
  cases st
  · exact ⟨tie_negotiateALPN_tlcp _ ha, tie_checkALPN_tlcp,
      fun mn mx b => tie_supportedVersions_tlcp _ hv ⟨mn, mx⟩ b,
      fun mn mx b peer => tie_mutualVersion_tlcp _ hv ⟨mn, mx⟩ b peer, tie_versionsFromMax_tlcp _ hv⟩
  · exact ⟨tie_negotiateALPN_dtlcp _ ha, tie_checkALPN_dtlcp,
      fun mn mx b => tie_supportedVersions_dtlcp _ hv ⟨mn, mx⟩ b,
      fun mn mx b peer => tie_mutualVersion_dtlcp _ hv ⟨mn, mx⟩ b peer, tie_versionsFromMax_dtlcp _ hv⟩

/-- The translated `negotiateALPN` computes the DOCUMENTED rule (the spec `alpnRule`, which mentions
neither the model nor a fact) on every pair of protocol lists. -/
theorem C01_src_alpn_is_rule (st : Stack) (server client : List String) :
    srcNegotiateALPN st (server.map strBytes) (client.map strBytes) = encALPN (alpnRule server client) := by
  rw [srcNegotiateALPN_eq, alpnPick_map]

/-- AGREEMENT: whatever protocol the translated server-side `negotiateALPN` (of either stack) selects
without error is accepted by the translated client-side `checkALPN` (of either stack) given the same
client list — for all byte strings. -/
theorem C01_src_alpn_agreement (st st' : Stack) (server client : List Str) (p : Str)
    (h : srcNegotiateALPN st server client = (p, none)) : srcCheckALPN st' client p = none := by
  rw [srcNegotiateALPN_eq] at h
  rw [srcCheckALPN_eq]
  unfold alpnPick at h
  unfold checkPick
  by_cases hp : (p == []) = true
  · simp only [hp, if_true]
  · have hp' : (p == []) = false := by simpa using hp
    have hne : p ≠ [] := by simpa using hp
    simp only [hp', Bool.false_eq_true, if_false]
    split at h
    · exact absurd (congrArg Prod.fst h).symm hne
    · rename_i he
      simp only [Bool.or_eq_true, not_or, Bool.not_eq_true] at he
      cases hf : server.find? (fun sp => client.contains sp) with
      | some r =>
        rw [hf] at h
        have hr : r = p := congrArg Prod.fst h
        subst hr
        have hc : client.contains r = true := List.find?_some hf
        simp only [he.2, hc, Bool.false_eq_true, if_false, if_true]
      | none =>
        rw [hf] at h
        simp only at h
        split at h
        · exact absurd (congrArg Prod.fst h).symm hne
        · cases congrArg Prod.snd h

/-- Nothing is negotiated, and nothing fails, when either side lists nothing. -/
theorem C01_src_alpn_ignored (st : Stack) (server client : List Str) (h : server = [] ∨ client = []) :
    srcNegotiateALPN st server client = ([], none) := by
  rw [srcNegotiateALPN_eq]
  unfold alpnPick
  rcases h with h | h <;> subst h <;> simp

/-- A selected protocol is the FIRST entry of the SERVER's list that the client listed (the server's
order decides, not the client's), and comes without error. -/
theorem C01_src_alpn_server_preference (st : Stack) (server client : List Str) (p : Str) (e : Option Go.Error)
    (h : srcNegotiateALPN st server client = (p, e)) (hp : p ≠ []) :
    e = none ∧ p ∈ client ∧
    ∃ before after, server = before ++ p :: after ∧ ∀ x, x ∈ before → x ∉ client := by
  rw [srcNegotiateALPN_eq] at h
  unfold alpnPick at h
  split at h
  · exact absurd (congrArg Prod.fst h).symm hp
  · cases hf : server.find? (fun sp => client.contains sp) with
    | some r =>
      rw [hf] at h
      have hr : r = p := congrArg Prod.fst h
      subst hr
      obtain ⟨hu, before, after, hd, hb⟩ := List.find?_eq_some_iff_append.mp hf
      refine ⟨(congrArg Prod.snd h).symm, by simpa using hu, before, after, hd, fun x hx => ?_⟩
      have := hb x hx
      simpa using this
    | none =>
      rw [hf] at h
      simp only at h
      split at h <;> exact absurd (congrArg Prod.fst h).symm hp

/-- When the lists have a protocol in common, the negotiation succeeds with one of them. -/
theorem C01_src_alpn_mutual_succeeds (st : Stack) (server client : List Str) (x : Str)
    (hs : x ∈ server) (hc : x ∈ client) :
    ∃ p, srcNegotiateALPN st server client = (p, none) ∧ p ∈ server ∧ p ∈ client := by
  rw [srcNegotiateALPN_eq]
  unfold alpnPick
  have he : (server.isEmpty || client.isEmpty) = false := by
    cases server <;> cases client <;> simp_all
  simp only [he, Bool.false_eq_true, if_false]
  cases hf : server.find? (fun sp => client.contains sp) with
  | some r =>
    exact ⟨r, rfl, List.mem_of_find?_eq_some hf, by simpa using List.find?_some hf⟩
  | none =>
    rw [List.find?_eq_none] at hf
    have := hf x hs
    simp [hc] at this

/-- Without a common protocol the negotiation fails — except that a server listing "h2" lets a client
listing "http/1.1" through with no protocol selected. -/
theorem C01_src_alpn_disjoint (st : Stack) (server client : List Str)
    (hs : server ≠ []) (hc : client ≠ []) (hd : ∀ x, x ∈ server → x ∉ client) :
    srcNegotiateALPN st server client =
      if strBytes "h2" ∈ server ∧ strBytes "http/1.1" ∈ client then ([], none)
      else ([], some Go.Error.other) := by
  rw [srcNegotiateALPN_eq, strBytes_h2, strBytes_http11]
  unfold alpnPick
  have he : (server.isEmpty || client.isEmpty) = false := by
    cases server <;> cases client <;> simp_all
  simp only [he, Bool.false_eq_true, if_false]
  have hf : server.find? (fun sp => client.contains sp) = none := by
    rw [List.find?_eq_none]
    intro x hx
    simpa using hd x hx
  rw [hf]
  simp

/-- The translated `checkALPN` accepts exactly: no protocol, or a protocol the client listed; every
refusal is an error value. -/
theorem C01_src_checkALPN_iff (st : Stack) (client : List Str) (p : Str) :
    (srcCheckALPN st client p = none ↔ p = [] ∨ p ∈ client) ∧
    (srcCheckALPN st client p = none ∨ srcCheckALPN st client p = some Go.Error.other) := by
  rw [srcCheckALPN_eq]
  unfold checkPick
  by_cases hp : p = []
  · subst hp; simp
  · have hp' : (p == []) = false := by simpa using hp
    simp only [hp', Bool.false_eq_true, if_false, hp, false_or]
    cases client with
    | nil => simp
    | cons a t =>
      simp only [List.isEmpty_cons, Bool.false_eq_true, if_false]
      cases hc : (a :: t).contains p with
      | true => simp only [if_true, true_iff, true_or, and_true]; simpa using hc
      | false =>
        simp only [Bool.false_eq_true, if_false, or_true, and_true]
        constructor
        · intro h; cases h
        · intro h
          have : (a :: t).contains p = true := by simpa using h
          rw [hc] at this; cases this

/-- The translated `Config.supportedVersions` returns exactly the versions of the table — the single
version 0x0101 — that lie inside the configured window (0 = no bound), whatever `isClient`. -/
theorem C01_src_supportedVersions (st : Stack) (mn mx : BitVec 16) (isClient : Bool) (v : BitVec 16) :
    (v ∈ srcSupportedVersions st mn mx isClient ↔
      v = 0x0101#16 ∧ (mn = 0#16 ∨ mn ≤ v) ∧ (mx = 0#16 ∨ v ≤ mx)) ∧
    (0x0101#16 : BitVec 16).toNat = docVersion ∧
    srcSupportedVersions st mn mx isClient = srcSupportedVersions st mn mx (!isClient) := by
  refine ⟨?_, rfl, by rw [srcSupportedVersions_eq, srcSupportedVersions_eq]⟩
  rw [srcSupportedVersions_eq, List.mem_filter]
  unfold keepVersion
  simp only [List.mem_singleton, Bool.and_eq_true, Bool.not_eq_true', Bool.and_eq_false_iff,
    bne_eq_false_iff_eq, decide_eq_false_iff_not, BitVec.not_lt, gt_iff_lt]

/-- The translated `Config.mutualVersion` returns a version BOTH sides support, the peer's order having
priority; it reports failure exactly when there is none, and then returns 0. -/
theorem C01_src_mutualVersion (st : Stack) (mn mx : BitVec 16) (isClient : Bool) (peer : List (BitVec 16)) :
    (∀ v, srcMutualVersion st mn mx isClient peer = (v, true) →
      v ∈ srcSupportedVersions st mn mx isClient ∧
      ∃ before after, peer = before ++ v :: after ∧
        ∀ x, x ∈ before → x ∉ srcSupportedVersions st mn mx isClient) ∧
    ((srcMutualVersion st mn mx isClient peer).2 = false ↔
      ∀ x, x ∈ peer → x ∉ srcSupportedVersions st mn mx isClient) ∧
    ((srcMutualVersion st mn mx isClient peer).2 = false → (srcMutualVersion st mn mx isClient peer).1 = 0#16) := by
  rw [srcMutualVersion_eq]
  unfold mutualPick
  cases hf : peer.find? (fun pv => (srcSupportedVersions st mn mx isClient).contains pv) with
  | some r =>
    obtain ⟨hu, before, after, hd, hb⟩ := List.find?_eq_some_iff_append.mp hf
    refine ⟨fun v hv => ?_, ?_, fun h => by cases h⟩
    · have hr : r = v := congrArg Prod.fst hv
      subst hr
      exact ⟨by simpa using hu, before, after, hd, fun x hx => by simpa using hb x hx⟩
    · simp only [Bool.true_eq_false, false_iff]
      intro h
      have h1 : r ∈ peer := List.mem_of_find?_eq_some hf
      exact h r h1 (by simpa using hu)
  | none =>
    refine ⟨fun v hv => (by cases congrArg Prod.snd hv), ?_, fun _ => rfl⟩
    simp only [true_iff]
    rw [List.find?_eq_none] at hf
    intro x hx
    simpa using hf x hx

/-- VERSION AGREEMENT on the translated code: a client with window `cmn..cmx` puts its first supported
version `hv` into the ClientHello; when the server with window `smn..smx` selects `v` from
`supportedVersionsFromMax hv`, then `v` is 0x0101, both configurations support it, and the client's
own check of the ServerHello version (`mutualVersion(roleClient, []uint16{v})`) accepts exactly `v`. -/
theorem C01_src_version_agreement (st : Stack) (cmn cmx smn smx hv v : BitVec 16)
    (hc : (srcSupportedVersions st cmn cmx true).head? = some hv)
    (hs : srcMutualVersion st smn smx false (srcVersionsFromMax st hv) = (v, true)) :
    v = 0x0101#16 ∧ v ∈ srcSupportedVersions st cmn cmx true ∧ v ∈ srcSupportedVersions st smn smx false ∧
    srcMutualVersion st cmn cmx true [v] = (v, true) := by
  have hhv : hv ∈ srcSupportedVersions st cmn cmx true := List.mem_of_head? hc
  have hhv1 : hv = 0x0101#16 := ((C01_src_supportedVersions st cmn cmx true hv).1.mp hhv).1
  obtain ⟨hvs, _⟩ := (C01_src_mutualVersion st smn smx false _).1 v hs
  have hv1 : v = 0x0101#16 := ((C01_src_supportedVersions st smn smx false v).1.mp hvs).1
  have hvc : v ∈ srcSupportedVersions st cmn cmx true := by rw [hv1, ← hhv1]; exact hhv
  refine ⟨hv1, hvc, hvs, ?_⟩
  rw [srcMutualVersion_eq]
  unfold mutualPick
  simp [List.find?_cons, hvc]

/-! non-vacuity: the translated code evaluated by the kernel -/

/-- server preference, not client preference; the fallback; the refusal -/
example :
    srcNegotiateALPN .tlcp [strBytes "h2", strBytes "http/1.1"] [strBytes "http/1.1", strBytes "h2"] = (strBytes "h2", none) ∧
    srcNegotiateALPN .dtlcp [strBytes "http/1.1", strBytes "h2"] [strBytes "h2", strBytes "http/1.1"] = (strBytes "http/1.1", none) ∧
    srcNegotiateALPN .dtlcp [strBytes "h2"] [strBytes "http/1.1"] = ([], none) ∧
    srcNegotiateALPN .tlcp [strBytes "http/1.1"] [strBytes "h2"] = ([], some Go.Error.other) ∧
    srcNegotiateALPN .tlcp [strBytes "spdy"] [] = ([], none) := by decide

/-- `checkALPN` accepts what was listed and refuses the rest; bytes that are not UTF-8 are strings too -/
example :
    srcCheckALPN .tlcp [strBytes "h2"] (strBytes "h2") = none ∧
    srcCheckALPN .dtlcp [strBytes "h2"] (strBytes "http/1.1") = some Go.Error.other ∧
    srcCheckALPN .tlcp [] (strBytes "h2") = some Go.Error.other ∧
    srcCheckALPN .dtlcp [] [] = none ∧
    srcNegotiateALPN .tlcp [[0xff#8, 0xfe#8]] [[0xc0#8], [0xff#8, 0xfe#8]] = ([0xff#8, 0xfe#8], none) := by decide

/-- version windows: inside, below `MinVersion`, above `MaxVersion`; a 0x03xx ClientHello is refused -/
example :
    srcSupportedVersions .tlcp 0 0 true = [0x0101#16] ∧ srcSupportedVersions .dtlcp 0x0100#16 0x0101#16 false = [0x0101#16] ∧
    srcSupportedVersions .tlcp 0x0102#16 0 true = [] ∧ srcSupportedVersions .dtlcp 0 0x0100#16 false = [] ∧
    srcMutualVersion .tlcp 0 0 false (srcVersionsFromMax .tlcp 0x0101#16) = (0x0101#16, true) ∧
    srcMutualVersion .dtlcp 0 0 false (srcVersionsFromMax .dtlcp 0x0303#16) = (0#16, false) ∧
    srcMutualVersion .tlcp 0 0x0100#16 false (srcVersionsFromMax .tlcp 0x0101#16) = (0#16, false) ∧
    srcMutualVersion .tlcp 0 0 true [0x0303#16, 0x0101#16] = (0x0101#16, true) := by decide

end src

end Gotlcp.Props.C01

/-
C14, property theorems about the TRANSLATED encoders (`marshal` of every message of both stacks
except certificateMsg and certificateRequestMsg; see DESIGN.md 12.4).  Same namespace as Props/C14.lean;
listed in checks/C14.json under extra_props_files.

`Gotlcp.Src.tlcp.codec.*.marshal` / `Gotlcp.Src.dtlcp.codec.*.marshal`, `dtlcpMarshalHeader`,
`dtlcpWriteHeader` and `*.messageType` are regenerated from {tlcp,dtlcp}/handshake_messages.go by
`harness/cmd/go2lean` on every run, statement by statement; `cryptobyte.Builder` is the stub `cbBuilder`
(`X.AddUintNLengthPrefixed(func(b){BODY})` = BODY on a fresh child, then `X.addLengthPrefixed (N/8) child`),
whose methods `Gotlcp.Tie.CbBuilder` specifies.  `Gotlcp.Tie.CodecEnc*` prove every translated marshal equal
to the hand model's encoder (`Gotlcp.Model.Codec` / `Model.CodecDtlcp`, instantiated with the regenerated
facts) on the abstracted fields.  Below:

  * `C14_src_enc_<msg>_<stack>`     the tie, for every FRESH message object (`raw` empty): the marshal returns a
                                     nil error exactly when the model encoder returns `some b`, the bytes then are
                                     `b`, `m.raw` is set to them and nothing else changes; when the model refuses
                                     the marshal returns the builder's error, no bytes, and `m` untouched;
  * `C14_src_enc_cached_<stack>`    with the cache filled (`raw` non-empty) every marshal returns `raw` unchanged;
  * `C14_src_enc_ok_iff_*`, `…_refuses_*`, `…_wf_*`   which objects are refused: exactly the over-long fields the
                                     model refuses; every in-range object (the spec's `wf…`) is encoded;
  * `C14_src_enc_complete_*`        what a successful marshal returns is a complete message of the right type
                                     whose 24-bit length field is the body length — stated with the predicates the
                                     translated `tlcpIsCompleteMessage` / `dtlcpIsCompleteMessage` compute;
  * `C14_src_enc_roundtrip_*`       ROUND TRIP ON TRANSLATED CODE: `unmarshal (marshal m).bytes` accepts and returns
                                     the fields of `m`, for in-range `m`, whatever the receiver held — composed with
                                     the decoder ties of Props/C14.lean, C14SrcSmall.lean, C14SrcCH.lean, C14SrcSH.lean;
                                     `…_roundtrip_object_*` (tlcp hellos): the decoded object IS `{ m with raw := bytes }`;
  * `C14_src_enc_no_panic_dtlcp`    no dtlcp marshal (they index slices) panics, for any object.

certificateMsg.marshal / certificateRequestMsg.marshal write the message through a moving window `y := x[k:]`
of the result; value semantics cannot express that, the translator's alias analysis refuses both, and they stay
with model + correspondence (an earlier translation of certificateMsg.marshal was found wrong by this tie: the
generated definition left the certificate list zeroed; alias.go now counts `m.raw = x` as a read of `x`).
-/
import Gotlcp.Props.C14
import Gotlcp.Props.C14SrcSmall
import Gotlcp.Props.C14SrcCH
import Gotlcp.Props.C14SrcSH
import Gotlcp.Tie.CodecEncFacts

namespace Gotlcp.Props.C14
open Gotlcp Gotlcp.Wire Gotlcp.Wire.Msg
open Gotlcp.Model.Codec
open Gotlcp.Tie.CbBuilder (bld oapp w16 BV)
open Gotlcp.Tie.UnmarshalTlcpCodec (abs)
open Gotlcp.Tie.UnmarshalDtlcpCodec (hdrView)

/-- everything the translator was asked for was translated; the literals in the translated encoders (message
types, extension codes, trusted-authority identifier types, the 32-byte random) are the regenerated facts
the model encoders are instantiated with -/
theorem C14_src_enc_codes :
    Src.untranslated = [] ∧
    [codesT.tClientHello, codesT.tServerHello, codesT.tServerKeyExchange, codesT.tServerHelloDone,
      codesT.tCertificateVerify, codesT.tClientKeyExchange, codesT.tFinished] = [1, 2, 12, 14, 15, 16, 20] ∧
    [codesD.tClientHello, codesD.tServerHello, codesD.tHelloVerifyRequest, codesD.tServerKeyExchange,
      codesD.tServerHelloDone, codesD.tCertificateVerify, codesD.tClientKeyExchange, codesD.tFinished] =
      [1, 2, 3, 12, 14, 15, 16, 20] ∧
    [codesT.extServerName, codesT.extTrustedCAKeys, codesT.extStatusRequest, codesT.extSupportedCurves,
      codesT.extSignatureAlgorithms, codesT.extALPN, codesT.extClientID] = [0, 3, 5, 10, 13, 16, 66] ∧
    [codesD.extServerName, codesD.extTrustedCAKeys, codesD.extStatusRequest, codesD.extSupportedCurves,
      codesD.extSignatureAlgorithms, codesD.extALPN, codesD.extClientID] = [0, 3, 5, 10, 13, 16, 66] ∧
    [codesT.taPreAgreed, codesT.taX509Name, codesT.taKeyHash, codesT.taCertHash] = [0, 2, 4, 5] ∧
    [codesD.taPreAgreed, codesD.taX509Name, codesD.taKeyHash, codesD.taCertHash] = [0, 2, 4, 5] ∧
    codesT.randomLen = 32 ∧ codesD.randomLen = 32 := by
  decide

/-! ## the builder stub -/

/-- `cbBuilder` under the abstraction `bld` (`none` = `Bytes()` returns an error): the translated methods are
the model's combinators — append, and the length-prefixed vectors `vec8` / `vec16` / `vec24`, which fail
exactly when the child failed or does not fit the prefix; `Bytes()` returns the abstracted bytes -/
theorem C14_src_enc_builder (b child : Src.tlcp.codec.cbBuilder) (x : List (BitVec 8)) (v : BitVec 16) :
    bld ({} : Src.tlcp.codec.cbBuilder) = some [] ∧
    bld (Src.tlcp.codec.cbBuilder.AddBytes b x) = oapp (bld b) (some (abs x)) ∧
    bld (Src.tlcp.codec.cbBuilder.AddUint16 b v) = oapp (bld b) (some (w16 v).bytes) ∧
    bld (Src.tlcp.codec.cbBuilder.addLengthPrefixed b 1 child) = oapp (bld b) ((bld child).bind vec8) ∧
    bld (Src.tlcp.codec.cbBuilder.addLengthPrefixed b 2 child) = oapp (bld b) ((bld child).bind vec16) ∧
    bld (Src.tlcp.codec.cbBuilder.addLengthPrefixed b 3 child) = oapp (bld b) ((bld child).bind vec24) ∧
    (match bld b with
      | some r => ∃ bs, Src.tlcp.codec.cbBuilder.Bytes b = (bs, none) ∧ abs bs = r
      | none => Src.tlcp.codec.cbBuilder.Bytes b = ([], some Go.Error.other)) :=
  ⟨rfl, Tie.CbBuilder.bld_addBytes b x, Tie.CbBuilder.bld_addUint16 b v, Tie.CbBuilder.bld_addLP1 b child,
    Tie.CbBuilder.bld_addLP2 b child, Tie.CbBuilder.bld_addLP3 b child, Tie.CbBuilder.bytes_bld b⟩

/-- the dtlcp group's copy of the builder is the same functions on an isomorphic type -/
theorem C14_src_enc_builder_dtlcp (b child : Src.dtlcp.codec.cbBuilder) (k : Int) (x : List (BitVec 8)) :
    Tie.CbBuilder.cv (Src.dtlcp.codec.cbBuilder.AddBytes b x) = Src.tlcp.codec.cbBuilder.AddBytes (Tie.CbBuilder.cv b) x ∧
    Tie.CbBuilder.cv (Src.dtlcp.codec.cbBuilder.addLengthPrefixed b k child) =
      Src.tlcp.codec.cbBuilder.addLengthPrefixed (Tie.CbBuilder.cv b) k (Tie.CbBuilder.cv child) ∧
    Src.dtlcp.codec.cbBuilder.Bytes b = Src.tlcp.codec.cbBuilder.Bytes (Tie.CbBuilder.cv b) :=
  ⟨Tie.CbBuilder.dtlcp_AddBytes b x, Tie.CbBuilder.dtlcp_addLengthPrefixed b k child, Tie.CbBuilder.dtlcp_Bytes b⟩

/-! ## tlcp: the ties -/

section SrcEncTlcp
open Gotlcp.Tie.CodecEnc
open Gotlcp.Src.tlcp.codec

/-- **`finishedMsg.marshal`** = `encFinished` -/
theorem C14_src_enc_finished_tlcp (m : finishedMsg) (h : m.raw = []) :
    EncAgree (fun r => { m with raw := r }) m (finishedMsg.marshal m) (encFinished codesT ⟨abs m.verifyData⟩) :=
  tie_enc_finished m h

/-- **`certificateVerifyMsg.marshal`** = `encCertificateVerify` -/
theorem C14_src_enc_certificateVerify_tlcp (m : certificateVerifyMsg) (h : m.raw = []) :
    EncAgree (fun r => { m with raw := r }) m (certificateVerifyMsg.marshal m)
      (encCertificateVerify codesT ⟨abs m.signature⟩) :=
  tie_enc_certificateVerify m h

/-- **`serverKeyExchangeMsg.marshal`** = `encKeyMsg` (hand-written: no error, no panic; the length bytes truncate) -/
theorem C14_src_enc_serverKeyExchange_tlcp (m : serverKeyExchangeMsg) (h : m.raw = []) :
    ∃ bytes, serverKeyExchangeMsg.marshal m = .ok ({ m with raw := bytes }, bytes, none) ∧
      encKeyMsg codesT.tServerKeyExchange ⟨abs m.key⟩ = some (abs bytes) :=
  tie_enc_serverKeyExchange m h

/-- **`clientKeyExchangeMsg.marshal`** = `encKeyMsg` -/
theorem C14_src_enc_clientKeyExchange_tlcp (m : clientKeyExchangeMsg) (h : m.raw = []) :
    ∃ bytes, clientKeyExchangeMsg.marshal m = .ok ({ m with raw := bytes }, bytes, none) ∧
      encKeyMsg codesT.tClientKeyExchange ⟨abs m.ciphertext⟩ = some (abs bytes) :=
  tie_enc_clientKeyExchange m h

/-- **`serverHelloDoneMsg.marshal`** = `encServerHelloDone` (no fields, no cache) -/
theorem C14_src_enc_serverHelloDone_tlcp (m : serverHelloDoneMsg) :
    serverHelloDoneMsg.marshal m = .ok ([14#8, 0#8, 0#8, 0#8], none) ∧
      encServerHelloDone codesT = some (abs [14#8, 0#8, 0#8, 0#8]) :=
  tie_enc_serverHelloDone m

/-- **`serverHelloMsg.marshal`** = `encServerHello`, all three extensions -/
theorem C14_src_enc_serverHello_tlcp (m : serverHelloMsg) (h : m.raw = []) :
    EncAgree (fun r => { m with raw := r }) m (serverHelloMsg.marshal m) (encServerHello codesT (absSH m)) :=
  tie_enc_serverHello m h

/-- **`clientHelloMsg.marshal`** = `encClientHello`, all seven extensions -/
theorem C14_src_enc_clientHello_tlcp (m : clientHelloMsg) (h : m.raw = []) :
    EncAgree (fun r => { m with raw := r }) m (clientHelloMsg.marshal m) (encClientHello codesT (absCH m)) :=
  tie_enc_clientHello m h

/-- per extension of the ClientHello: each guarded block of the translated marshal appends, under `bld`, exactly
the model's encoding of that extension (the whole `exts` builder is `encClientExtensions`) -/
theorem C14_src_enc_clientHello_extensions_tlcp (m : clientHelloMsg) (e : cbBuilder) :
    bld (chF1 m e) = oapp (bld e) (encSNI codesT (abs m.serverName)) ∧
    bld (chF2 m e) = oapp (bld e)
      (ext codesT.extTrustedCAKeys (vec16x2 (concatMapM (encTA codesT) (m.trustedAuthorities.map absTA)))) ∧
    bld (chF3 e) = oapp (bld e) (ext codesT.extStatusRequest (some [1, 0, 0, 0, 0])) ∧
    bld (chF4 m e) = oapp (bld e) (ext codesT.extSupportedCurves (vec16x2 (some (w16s (m.supportedCurves.map w16))))) ∧
    bld (chF5 m e) = oapp (bld e)
      (ext codesT.extSignatureAlgorithms (vec16x2 (some (w16s (m.supportedSignatureAlgorithms.map w16))))) ∧
    bld (chF6 m e) = oapp (bld e) (ext codesT.extALPN (vec16x2 (concatMapM alpnItem (m.alpnProtocols.map abs)))) ∧
    bld (chF7 m e) = oapp (bld e) (ext codesT.extClientID (vec16x2 (some (abs m.ibsdhClientID)))) ∧
    bld (chExts m) = encClientExtensions codesT (absCH m) :=
  ⟨bld_chF1 m e, bld_chF2 m e, bld_chF3 e, bld_chF4 m e, bld_chF5 m e, bld_chF6 m e, bld_chF7 m e, bld_chExts m⟩

/-- with the cache filled every tlcp marshal returns `raw`, a nil error, and leaves the object alone -/
theorem C14_src_enc_cached_tlcp :
    (∀ m : finishedMsg, m.raw ≠ [] → finishedMsg.marshal m = (m, m.raw, none)) ∧
    (∀ m : certificateVerifyMsg, m.raw ≠ [] → certificateVerifyMsg.marshal m = (m, m.raw, none)) ∧
    (∀ m : serverKeyExchangeMsg, m.raw ≠ [] → serverKeyExchangeMsg.marshal m = .ok (m, m.raw, none)) ∧
    (∀ m : clientKeyExchangeMsg, m.raw ≠ [] → clientKeyExchangeMsg.marshal m = .ok (m, m.raw, none)) ∧
    (∀ m : serverHelloMsg, m.raw ≠ [] → serverHelloMsg.marshal m = (m, m.raw, none)) ∧
    (∀ m : clientHelloMsg, m.raw ≠ [] → clientHelloMsg.marshal m = (m, m.raw, none)) :=
  ⟨marshal_finished_cached, marshal_certificateVerify_cached, marshal_serverKeyExchange_cached,
    marshal_clientKeyExchange_cached, marshal_serverHello_cached, marshal_clientHello_cached⟩

/-! ### which objects are refused -/

/-- `finishedMsg.marshal` fails exactly when verify_data does not fit the 24-bit length -/
theorem C14_src_enc_ok_iff_finished_tlcp (m : finishedMsg) (h : m.raw = []) :
    (finishedMsg.marshal m).2.2 = none ↔ m.verifyData.length < 16777216 := by
  rw [encAgree_err_iff (C14_src_enc_finished_tlcp m h), encFinished_isSome]
  simp

/-- `certificateVerifyMsg.marshal` fails exactly when the signature does not fit the 16-bit length -/
theorem C14_src_enc_ok_iff_certificateVerify_tlcp (m : certificateVerifyMsg) (h : m.raw = []) :
    (certificateVerifyMsg.marshal m).2.2 = none ↔ m.signature.length < 65536 := by
  rw [encAgree_err_iff (C14_src_enc_certificateVerify_tlcp m h), encCertificateVerify_isSome]
  simp

/-- the hello marshals fail exactly when the model refuses … -/
theorem C14_src_enc_ok_iff_hello_tlcp :
    (∀ m : serverHelloMsg, m.raw = [] →
      ((serverHelloMsg.marshal m).2.2 = none ↔ (encServerHello codesT (absSH m)).isSome = true)) ∧
    (∀ m : clientHelloMsg, m.raw = [] →
      ((clientHelloMsg.marshal m).2.2 = none ↔ (encClientHello codesT (absCH m)).isSome = true)) :=
  ⟨fun m h => encAgree_err_iff (C14_src_enc_serverHello_tlcp m h),
   fun m h => encAgree_err_iff (C14_src_enc_clientHello_tlcp m h)⟩

/-- … for instance a random that is not 32 bytes, or a session id that does not fit its 8-bit length:
builder error, no bytes, object untouched -/
theorem C14_src_enc_refuses_hello_tlcp :
    (∀ m : serverHelloMsg, m.raw = [] → m.random.length ≠ 32 ∨ 256 ≤ m.sessionId.length →
      serverHelloMsg.marshal m = (m, [], some Go.Error.other)) ∧
    (∀ m : clientHelloMsg, m.raw = [] → m.random.length ≠ 32 ∨ 256 ≤ m.sessionId.length →
      clientHelloMsg.marshal m = (m, [], some Go.Error.other)) := by
  refine ⟨fun m h hb => ?_, fun m h hb => ?_⟩
  · have ha := C14_src_enc_serverHello_tlcp m h
    have hn : encServerHello codesT (absSH m) = none := by
      rcases hb with hb | hb
      · exact encServerHello_random _ _ (by rw [show codesT.randomLen = 32 from rfl]; simpa [absSH] using hb)
      · exact encServerHello_sessionId _ _ (by simpa [absSH] using hb)
    rw [hn] at ha; exact ha
  · have ha := C14_src_enc_clientHello_tlcp m h
    have hn : encClientHello codesT (absCH m) = none := by
      rcases hb with hb | hb
      · exact encClientHello_random _ _ (by rw [show codesT.randomLen = 32 from rfl]; simpa [absCH] using hb)
      · exact encClientHello_sessionId _ _ (by simpa [absCH] using hb)
    rw [hn] at ha; exact ha

/-- every in-range ServerHello / ClientHello object (the spec's `wf…`, through the abstraction) is encoded:
nil error (`C14_roundtrip_serverHello_tlcp`, `C14_roundtrip_clientHello_tlcp` through the tie) -/
theorem C14_src_enc_wf_hello_tlcp :
    (∀ m : serverHelloMsg, m.raw = [] → Spec.Codec.wfServerHello (absSH m) = true →
      (serverHelloMsg.marshal m).2.2 = none) ∧
    (∀ m : clientHelloMsg, m.raw = [] → Spec.Codec.wfClientHello .tlcp (absCH m) = true →
      (clientHelloMsg.marshal m).2.2 = none) := by
  refine ⟨fun m h hw => ?_, fun m h hw => ?_⟩
  · obtain ⟨b, he, _⟩ := C14_roundtrip_serverHello_tlcp (absSH m) hw
    exact (C14_src_enc_ok_iff_hello_tlcp.1 m h).2 (by rw [he]; rfl)
  · obtain ⟨b, he, _⟩ := C14_roundtrip_clientHello_tlcp (absCH m) hw
    exact (C14_src_enc_ok_iff_hello_tlcp.2 m h).2 (by rw [he]; rfl)

/-! ### a successful marshal returns a complete message -/

/-- what a successful cryptobyte-based tlcp marshal returns is a complete message of its type: type byte,
24-bit length equal to the number of bytes that follow (`complete` is the predicate the translated
`tlcpIsCompleteMessage` computes: `Tie.UnmarshalTlcp.tie_isComplete`), and it is what `raw` now holds -/
theorem C14_src_enc_complete_tlcp :
    (∀ (m m' : finishedMsg) bytes, m.raw = [] → finishedMsg.marshal m = (m', bytes, none) →
      Tie.UnmarshalTlcp.complete bytes 20#8 = true ∧ m'.raw = bytes ∧ m'.verifyData = m.verifyData) ∧
    (∀ (m m' : certificateVerifyMsg) bytes, m.raw = [] → certificateVerifyMsg.marshal m = (m', bytes, none) →
      Tie.UnmarshalTlcp.complete bytes 15#8 = true ∧ m'.raw = bytes ∧ m'.signature = m.signature) ∧
    (∀ (m m' : serverHelloMsg) bytes, m.raw = [] → serverHelloMsg.marshal m = (m', bytes, none) →
      Tie.UnmarshalTlcp.complete bytes 2#8 = true ∧ m' = { m with raw := bytes }) ∧
    (∀ (m m' : clientHelloMsg) bytes, m.raw = [] → clientHelloMsg.marshal m = (m', bytes, none) →
      Tie.UnmarshalTlcp.complete bytes 1#8 = true ∧ m' = { m with raw := bytes }) := by
  refine ⟨fun m m' bytes h hm => ?_, fun m m' bytes h hm => ?_, fun m m' bytes h hm => ?_, fun m m' bytes h hm => ?_⟩
  · have ha := C14_src_enc_finished_tlcp m h
    cases ho : encFinished codesT ⟨abs m.verifyData⟩ with
    | none => rw [ho, hm] at ha; simp [EncAgree] at ha
    | some b =>
      rw [ho, hm] at ha
      obtain ⟨bs, e, hab⟩ := ha
      simp only [Prod.mk.injEq] at e
      obtain ⟨e1, e2, _⟩ := e
      subst e2
      refine ⟨complete_of_framed _ _ codesT.tFinished (by decide) (by rw [hab]; exact framed_finished _ _ ho), ?_, ?_⟩ <;> rw [e1]
  · have ha := C14_src_enc_certificateVerify_tlcp m h
    cases ho : encCertificateVerify codesT ⟨abs m.signature⟩ with
    | none => rw [ho, hm] at ha; simp [EncAgree] at ha
    | some b =>
      rw [ho, hm] at ha
      obtain ⟨bs, e, hab⟩ := ha
      simp only [Prod.mk.injEq] at e
      obtain ⟨e1, e2, _⟩ := e
      subst e2
      refine ⟨complete_of_framed _ _ codesT.tCertificateVerify (by decide) (by rw [hab]; exact framed_certificateVerify _ _ ho), ?_, ?_⟩ <;>
        rw [e1]
  · have ha := C14_src_enc_serverHello_tlcp m h
    cases ho : encServerHello codesT (absSH m) with
    | none => rw [ho, hm] at ha; simp [EncAgree] at ha
    | some b =>
      rw [ho, hm] at ha
      obtain ⟨bs, e, hab⟩ := ha
      simp only [Prod.mk.injEq] at e
      obtain ⟨e1, e2, _⟩ := e
      subst e2
      exact ⟨complete_of_framed _ _ codesT.tServerHello (by decide) (by rw [hab]; exact framed_serverHello _ _ ho), e1⟩
  · have ha := C14_src_enc_clientHello_tlcp m h
    cases ho : encClientHello codesT (absCH m) with
    | none => rw [ho, hm] at ha; simp [EncAgree] at ha
    | some b =>
      rw [ho, hm] at ha
      obtain ⟨bs, e, hab⟩ := ha
      simp only [Prod.mk.injEq] at e
      obtain ⟨e1, e2, _⟩ := e
      subst e2
      exact ⟨complete_of_framed _ _ codesT.tClientHello (by decide) (by rw [hab]; exact framed_clientHello _ _ ho), e1⟩

/-- the hand-written key-exchange marshals return a complete message as long as the blob fits 24 bits (above
that the length bytes truncate: the message is then NOT complete — the Go code has no check) -/
theorem C14_src_enc_complete_keyExchange_tlcp :
    (∀ m : serverKeyExchangeMsg, m.raw = [] → m.key.length < 16777216 →
      ∃ bytes, serverKeyExchangeMsg.marshal m = .ok ({ m with raw := bytes }, bytes, none) ∧
        Tie.UnmarshalTlcp.complete bytes 12#8 = true) ∧
    (∀ m : clientKeyExchangeMsg, m.raw = [] → m.ciphertext.length < 16777216 →
      ∃ bytes, clientKeyExchangeMsg.marshal m = .ok ({ m with raw := bytes }, bytes, none) ∧
        Tie.UnmarshalTlcp.complete bytes 16#8 = true) := by
  refine ⟨fun m h hl => ?_, fun m h hl => ?_⟩
  · obtain ⟨bytes, e, hm⟩ := C14_src_enc_serverKeyExchange_tlcp m h
    exact ⟨bytes, e, complete_of_framed _ _ codesT.tServerKeyExchange (by decide)
      (framed_keyMsg _ ⟨abs m.key⟩ (by simpa using hl) hm)⟩
  · obtain ⟨bytes, e, hm⟩ := C14_src_enc_clientKeyExchange_tlcp m h
    exact ⟨bytes, e, complete_of_framed _ _ codesT.tClientKeyExchange (by decide)
      (framed_keyMsg _ ⟨abs m.ciphertext⟩ (by simpa using hl) hm)⟩

/-! ### round trip on translated code (encoder tie ∘ model round trip ∘ decoder tie) -/

/-- Finished: `unmarshal (marshal m)` accepts and returns `verifyData`, whatever the receiver `m0` held -/
theorem C14_src_enc_roundtrip_finished_tlcp (m m0 : finishedMsg) (h : m.raw = []) (hl : m.verifyData.length = 12) :
    ∃ bytes m', finishedMsg.marshal m = ({ m with raw := bytes }, bytes, none) ∧
      finishedMsg.unmarshal m0 bytes = .ok (m', true) ∧ m'.verifyData = m.verifyData := by
  have hw : Spec.Codec.wfBlob .finished ⟨abs m.verifyData⟩ = true := by simp [Spec.Codec.wfBlob, hl]
  obtain ⟨b, h1, h2, _⟩ := C14_roundtrip_finished_tlcp ⟨abs m.verifyData⟩ hw
  obtain ⟨bytes, m', e1, e2, e3⟩ := enc_rt (C14_src_enc_finished_tlcp m h) ⟨b, h1, h2⟩
    (dec_of_agree (fun d => C14_src_finished_tlcp m0 d))
  exact ⟨bytes, m', e1, e2, abs_injective (by simpa using e3)⟩

/-- CertificateVerify -/
theorem C14_src_enc_roundtrip_certificateVerify_tlcp (m m0 : certificateVerifyMsg) (h : m.raw = [])
    (hl : m.signature.length < 65536) :
    ∃ bytes m', certificateVerifyMsg.marshal m = ({ m with raw := bytes }, bytes, none) ∧
      certificateVerifyMsg.unmarshal m0 bytes = .ok (m', true) ∧ m'.signature = m.signature := by
  have hw : Spec.Codec.wfBlob .certificateVerify ⟨abs m.signature⟩ = true := by simp [Spec.Codec.wfBlob, hl]
  obtain ⟨b, h1, h2, _⟩ := C14_roundtrip_certificateVerify_tlcp ⟨abs m.signature⟩ hw
  obtain ⟨bytes, m', e1, e2, e3⟩ := enc_rt (C14_src_enc_certificateVerify_tlcp m h) ⟨b, h1, h2⟩
    (dec_of_agree (fun d => C14_src_certificateVerify_tlcp m0 d))
  exact ⟨bytes, m', e1, e2, abs_injective (by simpa using e3)⟩

/-- ServerKeyExchange (the decoder is the hand-indexed one of the group `Src.tlcp`) -/
theorem C14_src_enc_roundtrip_serverKeyExchange_tlcp (m : serverKeyExchangeMsg) (m0 : Src.tlcp.serverKeyExchangeMsg)
    (h : m.raw = []) (hl : m.key.length < 16777216) :
    ∃ bytes m', serverKeyExchangeMsg.marshal m = .ok ({ m with raw := bytes }, bytes, none) ∧
      Src.tlcp.serverKeyExchangeMsg.unmarshal m0 bytes = .ok (m', true) ∧ m'.key = m.key := by
  have hw : Spec.Codec.wfBlob .serverKeyExchange ⟨abs m.key⟩ = true := by simp [Spec.Codec.wfBlob, hl]
  obtain ⟨b, h1, h2, _⟩ := C14_roundtrip_serverKeyExchange_tlcp ⟨abs m.key⟩ hw
  obtain ⟨bytes, m', e1, e2, e3⟩ := enc_rt_hand (C14_src_enc_serverKeyExchange_tlcp m h) ⟨b, h1, h2⟩
    (dec_of_agree (fun d => C14_src_serverKeyExchange_tlcp m0 d))
  exact ⟨bytes, m', e1, e2, abs_injective (by simpa using e3)⟩

/-- ClientKeyExchange -/
theorem C14_src_enc_roundtrip_clientKeyExchange_tlcp (m : clientKeyExchangeMsg) (m0 : Src.tlcp.clientKeyExchangeMsg)
    (h : m.raw = []) (hl : m.ciphertext.length < 16777216) :
    ∃ bytes m', clientKeyExchangeMsg.marshal m = .ok ({ m with raw := bytes }, bytes, none) ∧
      Src.tlcp.clientKeyExchangeMsg.unmarshal m0 bytes = .ok (m', true) ∧ m'.ciphertext = m.ciphertext := by
  have hw : Spec.Codec.wfBlob .clientKeyExchange ⟨abs m.ciphertext⟩ = true := by simp [Spec.Codec.wfBlob, hl]
  obtain ⟨b, h1, h2, _⟩ := C14_roundtrip_clientKeyExchange_tlcp ⟨abs m.ciphertext⟩ hw
  obtain ⟨bytes, m', e1, e2, e3⟩ := enc_rt_hand (C14_src_enc_clientKeyExchange_tlcp m h) ⟨b, h1, h2⟩
    (dec_of_agree (fun d => C14_src_clientKeyExchange_tlcp m0 d))
  exact ⟨bytes, m', e1, e2, abs_injective (by simpa using e3)⟩

/-- ServerHelloDone -/
theorem C14_src_enc_roundtrip_serverHelloDone_tlcp (m : serverHelloDoneMsg) (m0 : Src.tlcp.serverHelloDoneMsg) :
    ∃ bytes, serverHelloDoneMsg.marshal m = .ok (bytes, none) ∧
      Src.tlcp.serverHelloDoneMsg.unmarshal m0 bytes = .ok true :=
  ⟨_, (C14_src_enc_serverHelloDone_tlcp m).1, rfl⟩

/-- ServerHello: every in-range object; the decoded object has the same model view (all nine fields) and its
`raw` is the encoding -/
theorem C14_src_enc_roundtrip_serverHello_tlcp (m m0 : serverHelloMsg) (h : m.raw = [])
    (hw : Spec.Codec.wfServerHello (absSH m) = true) :
    ∃ bytes m', serverHelloMsg.marshal m = ({ m with raw := bytes }, bytes, none) ∧
      serverHelloMsg.unmarshal m0 bytes = .ok (m', true) ∧ Tie.CodecSHModel.viewT m' = absSH m ∧ m'.raw = bytes := by
  obtain ⟨b, he, hrt⟩ := C14_src_roundtrip_serverHello_tlcp (absSH m) hw
  have ha := C14_src_enc_serverHello_tlcp m h
  rw [he] at ha
  obtain ⟨bytes, e, hab⟩ := ha
  obtain ⟨m', e1, e2, e3⟩ := hrt m0 bytes hab
  exact ⟨bytes, m', e, e1, e2, e3⟩

/-- ClientHello: every in-range object, all seven extensions; the decoded object has the same model view -/
theorem C14_src_enc_roundtrip_clientHello_tlcp (m m0 : clientHelloMsg) (h : m.raw = [])
    (hw : Spec.Codec.wfClientHello .tlcp (absCH m) = true) :
    ∃ bytes m', clientHelloMsg.marshal m = ({ m with raw := bytes }, bytes, none) ∧
      clientHelloMsg.unmarshal m0 bytes = .ok (m', true) ∧ Tie.CodecCHCodec.fieldsT m' = absCH m := by
  obtain ⟨b, he, hrt⟩ := C14_src_roundtrip_clientHello_tlcp (absCH m) hw
  have ha := C14_src_enc_clientHello_tlcp m h
  rw [he] at ha
  obtain ⟨bytes, e, hab⟩ := ha
  obtain ⟨m', e1, e2⟩ := hrt m0 bytes hab
  exact ⟨bytes, m', e, e1, e2⟩

/-! ### the same, at the level of objects: decoding the encoding gives back the object `marshal` left behind -/

/-- the decoder tie's view of a ServerHello object is this file's abstraction -/
theorem viewT_absSH (m : serverHelloMsg) : Tie.CodecSHModel.viewT m = absSH m := by
  unfold Tie.CodecSHModel.viewT Tie.CodecSHModel.view Tie.CodecSH.getT absSH
  simp only [Tie.CodecEncDtlcp.w16_eq]
  first | rfl | (simp only [Tie.CodecCHModel.w16]; rfl)

theorem fieldsT_absCH (m : clientHelloMsg) : Tie.CodecCHCodec.fieldsT m = absCH m := by
  have hf : Tie.CodecCHModel.w16 = w16 := funext fun v => (Tie.CodecEncDtlcp.w16_eq v).symm
  unfold Tie.CodecCHCodec.fieldsT Tie.CodecCHModel.absCH Tie.CodecCHTlcp.viewT absCH
  simp only [hf, List.map_map]
  rfl

/-- **ServerHello, round trip on translated code, object level**: decoding what `marshal` returned gives back
exactly the object `marshal` left behind (every field, and `raw` = the encoding), whatever the receiver held -/
theorem C14_src_enc_roundtrip_object_serverHello_tlcp (m m0 : serverHelloMsg) (h : m.raw = [])
    (hw : Spec.Codec.wfServerHello (absSH m) = true) :
    ∃ bytes, serverHelloMsg.marshal m = ({ m with raw := bytes }, bytes, none) ∧
      serverHelloMsg.unmarshal m0 bytes = .ok ({ m with raw := bytes }, true) := by
  obtain ⟨bytes, m', e1, e2, e3, e4⟩ := C14_src_enc_roundtrip_serverHello_tlcp m m0 h hw
  refine ⟨bytes, e1, ?_⟩
  rw [e2]
  rw [viewT_absSH] at e3
  have := absSH_inj m' m e3
  cases m'; cases m
  simp only [serverHelloMsg.mk.injEq, true_and] at this e4 h ⊢
  subst e4
  simp only [Except.ok.injEq, Prod.mk.injEq, serverHelloMsg.mk.injEq, true_and, and_true]
  exact this

/-- **ClientHello, round trip on translated code, object level** -/
theorem C14_src_enc_roundtrip_object_clientHello_tlcp (m m0 : clientHelloMsg) (h : m.raw = [])
    (hw : Spec.Codec.wfClientHello .tlcp (absCH m) = true) :
    ∃ bytes, clientHelloMsg.marshal m = ({ m with raw := bytes }, bytes, none) ∧
      clientHelloMsg.unmarshal m0 bytes = .ok ({ m with raw := bytes }, true) := by
  obtain ⟨bytes, m', e1, e2, e3⟩ := C14_src_enc_roundtrip_clientHello_tlcp m m0 h hw
  refine ⟨bytes, e1, ?_⟩
  have e4 := C14_src_clientHello_raw_tlcp m0 m' bytes e2
  rw [e2]
  rw [fieldsT_absCH] at e3
  have := absCH_inj m' m e3
  cases m'; cases m
  simp only [clientHelloMsg.mk.injEq, true_and] at this e4 h ⊢
  subst e4
  simp only [Except.ok.injEq, Prod.mk.injEq, clientHelloMsg.mk.injEq, true_and, and_true]
  exact this

-- non-vacuity: concrete objects through the translated encoders
example : (finishedMsg.marshal { verifyData := [1, 2, 3] }).2 = ([20, 0, 0, 3, 1, 2, 3], none) := by decide
example : (certificateVerifyMsg.marshal { signature := [0x30, 1] }).2 = ([15, 0, 0, 4, 0, 2, 0x30, 1], none) := by decide
example : (clientHelloMsg.marshal { random := [1, 2, 3] }).2 = ([], some Go.Error.other) := by decide
example : (serverHelloMsg.marshal { vers := 0x0101#16, random := List.replicate 32 7#8, cipherSuite := 0xe053#16, alpnProtocol := [0x68, 0x32], serverNameAck := true }).2 =
    ([2, 0, 0, 53, 1, 1] ++ List.replicate 32 7#8 ++ [0, 0xe0, 0x53, 0, 0, 13, 0, 16, 0, 5, 0, 3, 2, 0x68, 0x32, 0, 0, 0, 0],
      none) := by decide
example : (serverHelloMsg.marshal { raw := [9, 9], vers := 0x0101#16 }).2 = ([9, 9], none) := by decide

end SrcEncTlcp

/-! ## dtlcp -/

section SrcEncDtlcp
open Gotlcp.Model.CodecDtlcp
open Gotlcp.Tie.CodecEnc (abs_injective enc_rt_hand dec_of_agreeD)
open Gotlcp.Tie.CodecEncDtlcp
open Gotlcp.Src.dtlcp.codec

/-- **`dtlcpMarshalHeader`**: never fails; the model's 12-byte header (`fragLen = 0` means "the body length") in
front of the body -/
theorem C14_src_enc_marshalHeader_dtlcp (t : BitVec 8) (T : Nat) (hT : u8 T = UInt8.ofBitVec t) (body : List (BitVec 8))
    (seq : BitVec 16) (fo fl : BitVec 32) :
    ∃ x, dtlcpMarshalHeader t body seq fo fl = .ok (x, none) ∧
      abs x = header T body.length (hdrView seq fo fl) ++ abs body :=
  tie_marshalHeader t T hT body seq fo fl

/-- `messageType` of every message object is its type code -/
theorem C14_src_enc_messageType_dtlcp :
    (∀ m, clientHelloMsg.messageType m = 1#8) ∧ (∀ m, serverHelloMsg.messageType m = 2#8) ∧
    (∀ m, helloVerifyRequestMsg.messageType m = 3#8) ∧ (∀ m, certificateMsg.messageType m = 11#8) ∧
    (∀ m, serverKeyExchangeMsg.messageType m = 12#8) ∧ (∀ m, serverHelloDoneMsg.messageType m = 14#8) ∧
    (∀ m, certificateVerifyMsg.messageType m = 15#8) ∧ (∀ m, clientKeyExchangeMsg.messageType m = 16#8) ∧
    (∀ m, finishedMsg.messageType m = 20#8) :=
  messageTypes

/-- **`finishedMsg.marshal`** (hand-written in dtlcp: no error, no panic) -/
theorem C14_src_enc_finished_dtlcp (m : finishedMsg) (h : m.raw = []) :
    ∃ bytes, finishedMsg.marshal m = .ok ({ m with raw := bytes }, bytes, none) ∧
      encFinished codesD (hdrView m.messageSeq m.fragmentOffset m.fragmentLength) ⟨abs m.verifyData⟩ = some (abs bytes) :=
  tie_enc_finished m h

/-- **`certificateVerifyMsg.marshal`** (the 16-bit signature length truncates) -/
theorem C14_src_enc_certificateVerify_dtlcp (m : certificateVerifyMsg) (h : m.raw = []) :
    ∃ bytes, certificateVerifyMsg.marshal m = .ok ({ m with raw := bytes }, bytes, none) ∧
      encCertificateVerify codesD (hdrView m.messageSeq m.fragmentOffset m.fragmentLength) ⟨abs m.signature⟩ =
        some (abs bytes) :=
  tie_enc_certificateVerify m h

/-- **`helloVerifyRequestMsg.marshal`** (the 8-bit cookie length truncates) -/
theorem C14_src_enc_helloVerifyRequest_dtlcp (m : helloVerifyRequestMsg) (h : m.raw = []) :
    ∃ bytes, helloVerifyRequestMsg.marshal m = .ok ({ m with raw := bytes }, bytes, none) ∧
      encHelloVerifyRequest codesD (hdrView m.messageSeq m.fragmentOffset m.fragmentLength) (absHVR m) =
        some (abs bytes) :=
  tie_enc_helloVerifyRequest m h

/-- **`serverKeyExchangeMsg.marshal`** -/
theorem C14_src_enc_serverKeyExchange_dtlcp (m : serverKeyExchangeMsg) (h : m.raw = []) :
    ∃ bytes, serverKeyExchangeMsg.marshal m = .ok ({ m with raw := bytes }, bytes, none) ∧
      encKeyMsg codesD.tServerKeyExchange (hdrView m.messageSeq m.fragmentOffset m.fragmentLength) ⟨abs m.key⟩ =
        some (abs bytes) :=
  tie_enc_serverKeyExchange m h

/-- **`clientKeyExchangeMsg.marshal`** -/
theorem C14_src_enc_clientKeyExchange_dtlcp (m : clientKeyExchangeMsg) (h : m.raw = []) :
    ∃ bytes, clientKeyExchangeMsg.marshal m = .ok ({ m with raw := bytes }, bytes, none) ∧
      encKeyMsg codesD.tClientKeyExchange (hdrView m.messageSeq m.fragmentOffset m.fragmentLength) ⟨abs m.ciphertext⟩ =
        some (abs bytes) :=
  tie_enc_clientKeyExchange m h

/-- **`serverHelloDoneMsg.marshal`** (writes type and message_seq only) -/
theorem C14_src_enc_serverHelloDone_dtlcp (m : serverHelloDoneMsg) (h : m.raw = []) :
    ∃ bytes, serverHelloDoneMsg.marshal m = .ok ({ m with raw := bytes }, bytes, none) ∧
      encServerHelloDone codesD (hdrView m.messageSeq m.fragmentOffset m.fragmentLength) = some (abs bytes) :=
  tie_enc_serverHelloDone m h

/-- **`serverHelloMsg.marshal`** = `Model.CodecDtlcp.encServerHello` (cryptobyte body, `dtlcpMarshalHeader`); no panic -/
theorem C14_src_enc_serverHello_dtlcp (m : serverHelloMsg) (h : m.raw = []) :
    EncAgreeE (fun r => { m with raw := r }) m (serverHelloMsg.marshal m)
      (Model.CodecDtlcp.encServerHello codesD (hdrView m.messageSeq m.fragmentOffset m.fragmentLength) (absSH m)) :=
  tie_enc_serverHello m h

/-- **`clientHelloMsg.marshal`** = `Model.CodecDtlcp.encClientHello` (with the cookie vector); no panic -/
theorem C14_src_enc_clientHello_dtlcp (m : clientHelloMsg) (h : m.raw = []) :
    EncAgreeE (fun r => { m with raw := r }) m (clientHelloMsg.marshal m)
      (Model.CodecDtlcp.encClientHello codesD (hdrView m.messageSeq m.fragmentOffset m.fragmentLength) (absCH m)) :=
  tie_enc_clientHello m h

/-- with the cache filled every dtlcp marshal returns `raw`, a nil error, and leaves the object alone -/
theorem C14_src_enc_cached_dtlcp :
    (∀ m : finishedMsg, m.raw ≠ [] → finishedMsg.marshal m = .ok (m, m.raw, none)) ∧
    (∀ m : certificateVerifyMsg, m.raw ≠ [] → certificateVerifyMsg.marshal m = .ok (m, m.raw, none)) ∧
    (∀ m : helloVerifyRequestMsg, m.raw ≠ [] → helloVerifyRequestMsg.marshal m = .ok (m, m.raw, none)) ∧
    (∀ m : serverKeyExchangeMsg, m.raw ≠ [] → serverKeyExchangeMsg.marshal m = .ok (m, m.raw, none)) ∧
    (∀ m : clientKeyExchangeMsg, m.raw ≠ [] → clientKeyExchangeMsg.marshal m = .ok (m, m.raw, none)) ∧
    (∀ m : serverHelloDoneMsg, m.raw ≠ [] → serverHelloDoneMsg.marshal m = .ok (m, m.raw, none)) ∧
    (∀ m : serverHelloMsg, m.raw ≠ [] → serverHelloMsg.marshal m = .ok (m, m.raw, none)) ∧
    (∀ m : clientHelloMsg, m.raw ≠ [] → clientHelloMsg.marshal m = .ok (m, m.raw, none)) :=
  ⟨marshal_finished_cached, marshal_certificateVerify_cached, marshal_helloVerifyRequest_cached,
    marshal_serverKeyExchange_cached, marshal_clientKeyExchange_cached, marshal_serverHelloDone_cached,
    marshal_serverHello_cached, marshal_clientHello_cached⟩

/-- every in-range dtlcp hello object is encoded (nil error) -/
theorem C14_src_enc_wf_hello_dtlcp :
    (∀ m : serverHelloMsg, m.raw = [] → Spec.Codec.wfServerHello (absSH m) = true →
      ∃ bytes, serverHelloMsg.marshal m = .ok ({ m with raw := bytes }, bytes, none)) ∧
    (∀ m : clientHelloMsg, m.raw = [] → Spec.Codec.wfClientHello .dtlcp (absCH m) = true →
      ∃ bytes, clientHelloMsg.marshal m = .ok ({ m with raw := bytes }, bytes, none)) := by
  refine ⟨fun m h hw => ?_, fun m h hw => ?_⟩
  · have ha := C14_src_enc_serverHello_dtlcp m h
    obtain ⟨body, hb, _⟩ := Lemmas.CodecHello.rt_serverHelloBody codesD helloCodesD (absSH m) (Lemmas.CodecHello.shwf_of hw)
    unfold Model.CodecDtlcp.encServerHello at ha
    rw [hb] at ha
    obtain ⟨bytes, e, _⟩ := ha
    exact ⟨bytes, e⟩
  · have ha := C14_src_enc_clientHello_dtlcp m h
    obtain ⟨body, hb, _⟩ := Lemmas.CodecHello.rt_clientHelloBody codesD helloCodesD (by decide) (by decide) true (absCH m)
      (Lemmas.CodecHello.chwf_of hw)
    unfold Model.CodecDtlcp.encClientHello at ha
    rw [hb] at ha
    obtain ⟨bytes, e, _⟩ := ha
    exact ⟨bytes, e⟩

/-- an object that describes a complete message (`fragment_offset = 0`, `fragment_length` 0 or the body
length, body below 2^24) is encoded as one: the output passes the predicate `completeD` that the translated
`dtlcpIsCompleteMessage` computes (`Tie.UnmarshalDtlcpCodec.isComplete_eq`) -/
theorem C14_src_enc_complete_dtlcp :
    (∀ m : finishedMsg, m.raw = [] →
      Spec.Codec.wfDHdr (hdrView m.messageSeq m.fragmentOffset m.fragmentLength) m.verifyData.length = true →
      ∃ bytes, finishedMsg.marshal m = .ok ({ m with raw := bytes }, bytes, none) ∧
        Tie.UnmarshalDtlcpCodec.completeD bytes 20#8 = true) ∧
    (∀ m : serverKeyExchangeMsg, m.raw = [] →
      Spec.Codec.wfDHdr (hdrView m.messageSeq m.fragmentOffset m.fragmentLength) m.key.length = true →
      ∃ bytes, serverKeyExchangeMsg.marshal m = .ok ({ m with raw := bytes }, bytes, none) ∧
        Tie.UnmarshalDtlcpCodec.completeD bytes 12#8 = true) ∧
    (∀ m : clientKeyExchangeMsg, m.raw = [] →
      Spec.Codec.wfDHdr (hdrView m.messageSeq m.fragmentOffset m.fragmentLength) m.ciphertext.length = true →
      ∃ bytes, clientKeyExchangeMsg.marshal m = .ok ({ m with raw := bytes }, bytes, none) ∧
        Tie.UnmarshalDtlcpCodec.completeD bytes 16#8 = true) := by
  refine ⟨fun m h hw => ?_, fun m h hw => ?_, fun m h hw => ?_⟩
  · obtain ⟨bytes, e, hm⟩ := C14_src_enc_finished_dtlcp m h
    refine ⟨bytes, e, completeD_of_header bytes 20#8 codesD.tFinished (by decide) _ (abs m.verifyData) (by simpa using hw) ?_⟩
    unfold Model.CodecDtlcp.encFinished at hm
    exact (Option.some.inj hm).symm
  · obtain ⟨bytes, e, hm⟩ := C14_src_enc_serverKeyExchange_dtlcp m h
    refine ⟨bytes, e, completeD_of_header bytes 12#8 codesD.tServerKeyExchange (by decide) _ (abs m.key) (by simpa using hw) ?_⟩
    unfold Model.CodecDtlcp.encKeyMsg at hm
    exact (Option.some.inj hm).symm
  · obtain ⟨bytes, e, hm⟩ := C14_src_enc_clientKeyExchange_dtlcp m h
    refine ⟨bytes, e, completeD_of_header bytes 16#8 codesD.tClientKeyExchange (by decide) _ (abs m.ciphertext) (by simpa using hw) ?_⟩
    unfold Model.CodecDtlcp.encKeyMsg at hm
    exact (Option.some.inj hm).symm

/-! ### round trip on translated code -/

/-- Finished -/
theorem C14_src_enc_roundtrip_finished_dtlcp (m m0 : finishedMsg) (h : m.raw = []) (hl : m.verifyData.length = 12)
    (hw : Spec.Codec.wfDHdr (hdrView m.messageSeq m.fragmentOffset m.fragmentLength) 12 = true) :
    ∃ bytes m', finishedMsg.marshal m = .ok ({ m with raw := bytes }, bytes, none) ∧
      finishedMsg.unmarshal m0 bytes = .ok (m', true) ∧ m'.verifyData = m.verifyData ∧
      hdrView m'.messageSeq m'.fragmentOffset m'.fragmentLength = ⟨W16.ofNat m.messageSeq.toNat, 0, 12⟩ := by
  have hm : Spec.Codec.wfBlob .finished ⟨abs m.verifyData⟩ = true := by simp [Spec.Codec.wfBlob, hl]
  obtain ⟨b, h1, h2, _⟩ := C14_roundtrip_finished_dtlcp (hdrView m.messageSeq m.fragmentOffset m.fragmentLength)
    ⟨abs m.verifyData⟩ hm (by simpa [hl] using hw)
  obtain ⟨bytes, m', e1, e2, e3⟩ := enc_rt_hand (C14_src_enc_finished_dtlcp m h) ⟨b, h1, h2⟩
    (dec_of_agreeD (fun d => C14_src_finished_dtlcp m0 d))
  simp only [Prod.mk.injEq, Blob.mk.injEq] at e3
  refine ⟨bytes, m', e1, e2, abs_injective e3.2, ?_⟩
  rw [e3.1]; simp [hdrView, hl]

/-- CertificateVerify -/
theorem C14_src_enc_roundtrip_certificateVerify_dtlcp (m m0 : certificateVerifyMsg) (h : m.raw = [])
    (hl : m.signature.length < 65536)
    (hw : Spec.Codec.wfDHdr (hdrView m.messageSeq m.fragmentOffset m.fragmentLength) (2 + m.signature.length) = true) :
    ∃ bytes m', certificateVerifyMsg.marshal m = .ok ({ m with raw := bytes }, bytes, none) ∧
      certificateVerifyMsg.unmarshal m0 bytes = .ok (m', true) ∧ m'.signature = m.signature ∧
      hdrView m'.messageSeq m'.fragmentOffset m'.fragmentLength =
        ⟨W16.ofNat m.messageSeq.toNat, 0, 2 + m.signature.length⟩ := by
  have hm : Spec.Codec.wfBlob .certificateVerify ⟨abs m.signature⟩ = true := by simp [Spec.Codec.wfBlob, hl]
  obtain ⟨b, h1, h2, _⟩ := C14_roundtrip_certificateVerify_dtlcp (hdrView m.messageSeq m.fragmentOffset m.fragmentLength)
    ⟨abs m.signature⟩ hm (by simpa using hw)
  obtain ⟨bytes, m', e1, e2, e3⟩ := enc_rt_hand (C14_src_enc_certificateVerify_dtlcp m h) ⟨b, h1, h2⟩
    (dec_of_agreeD (fun d => C14_src_certificateVerify_dtlcp m0 d))
  simp only [Prod.mk.injEq, Blob.mk.injEq] at e3
  refine ⟨bytes, m', e1, e2, abs_injective e3.2, ?_⟩
  rw [e3.1]; simp [hdrView]

/-- HelloVerifyRequest -/
theorem C14_src_enc_roundtrip_helloVerifyRequest_dtlcp (m m0 : helloVerifyRequestMsg) (h : m.raw = [])
    (hl : m.cookie.length < 256)
    (hw : Spec.Codec.wfDHdr (hdrView m.messageSeq m.fragmentOffset m.fragmentLength) (3 + m.cookie.length) = true) :
    ∃ bytes m', helloVerifyRequestMsg.marshal m = .ok ({ m with raw := bytes }, bytes, none) ∧
      helloVerifyRequestMsg.unmarshal m0 bytes = .ok (m', true) ∧ m'.cookie = m.cookie ∧
      W16.ofNat m'.serverVersion.toNat = W16.ofNat m.serverVersion.toNat := by
  have hm : Spec.Codec.wfHelloVerifyRequest (absHVR m) = true := by simp [Spec.Codec.wfHelloVerifyRequest, absHVR, hl]
  obtain ⟨b, h1, h2, _⟩ := C14_roundtrip_helloVerifyRequest_dtlcp (hdrView m.messageSeq m.fragmentOffset m.fragmentLength)
    (absHVR m) hm (by simpa [absHVR] using hw)
  obtain ⟨bytes, m', e1, e2, e3⟩ := enc_rt_hand (C14_src_enc_helloVerifyRequest_dtlcp m h) ⟨b, h1, h2⟩
    (dec_of_agreeD (fun d => C14_src_helloVerifyRequest_dtlcp m0 d))
  simp only [Prod.mk.injEq, absHVR, HelloVerifyRequest.mk.injEq] at e3
  exact ⟨bytes, m', e1, e2, abs_injective e3.2.2, by rw [e3.2.1, w16_eq]⟩

/-- ServerKeyExchange (decoder: the hand-indexed one of the group `Src.dtlcp`) -/
theorem C14_src_enc_roundtrip_serverKeyExchange_dtlcp (m : serverKeyExchangeMsg) (m0 : Src.dtlcp.serverKeyExchangeMsg)
    (h : m.raw = [])
    (hw : Spec.Codec.wfDHdr (hdrView m.messageSeq m.fragmentOffset m.fragmentLength) m.key.length = true) :
    ∃ bytes m', serverKeyExchangeMsg.marshal m = .ok ({ m with raw := bytes }, bytes, none) ∧
      Src.dtlcp.serverKeyExchangeMsg.unmarshal m0 bytes = .ok (m', true) ∧ m'.key = m.key := by
  obtain ⟨b, h1, h2, _⟩ := C14_roundtrip_serverKeyExchange_dtlcp (hdrView m.messageSeq m.fragmentOffset m.fragmentLength)
    ⟨abs m.key⟩ (by simpa using hw)
  obtain ⟨bytes, m', e1, e2, e3⟩ := enc_rt_hand (C14_src_enc_serverKeyExchange_dtlcp m h) ⟨b, h1, h2⟩
    (dec_of_agreeD (fun d => C14_src_serverKeyExchange_dtlcp m0 d))
  simp only [Prod.mk.injEq, Blob.mk.injEq] at e3
  exact ⟨bytes, m', e1, e2, abs_injective e3.2⟩

/-- ClientKeyExchange -/
theorem C14_src_enc_roundtrip_clientKeyExchange_dtlcp (m : clientKeyExchangeMsg) (m0 : Src.dtlcp.clientKeyExchangeMsg)
    (h : m.raw = [])
    (hw : Spec.Codec.wfDHdr (hdrView m.messageSeq m.fragmentOffset m.fragmentLength) m.ciphertext.length = true) :
    ∃ bytes m', clientKeyExchangeMsg.marshal m = .ok ({ m with raw := bytes }, bytes, none) ∧
      Src.dtlcp.clientKeyExchangeMsg.unmarshal m0 bytes = .ok (m', true) ∧ m'.ciphertext = m.ciphertext := by
  obtain ⟨b, h1, h2, _⟩ := C14_roundtrip_clientKeyExchange_dtlcp (hdrView m.messageSeq m.fragmentOffset m.fragmentLength)
    ⟨abs m.ciphertext⟩ (by simpa using hw)
  obtain ⟨bytes, m', e1, e2, e3⟩ := enc_rt_hand (C14_src_enc_clientKeyExchange_dtlcp m h) ⟨b, h1, h2⟩
    (dec_of_agreeD (fun d => C14_src_clientKeyExchange_dtlcp m0 d))
  simp only [Prod.mk.injEq, Blob.mk.injEq] at e3
  exact ⟨bytes, m', e1, e2, abs_injective e3.2⟩

/-- ServerHelloDone: the encoder ignores `fragmentOffset` / `fragmentLength`, so every object round-trips -/
theorem C14_src_enc_roundtrip_serverHelloDone_dtlcp (m : serverHelloDoneMsg) (m0 : Src.dtlcp.serverHelloDoneMsg)
    (h : m.raw = []) :
    ∃ bytes m', serverHelloDoneMsg.marshal m = .ok ({ m with raw := bytes }, bytes, none) ∧
      Src.dtlcp.serverHelloDoneMsg.unmarshal m0 bytes = .ok (m', true) ∧
      hdrView m'.messageSeq m'.fragmentOffset m'.fragmentLength = ⟨W16.ofNat m.messageSeq.toNat, 0, 0⟩ := by
  obtain ⟨b, h1, h2, _⟩ := C14_roundtrip_serverHelloDone_dtlcp (hdrView m.messageSeq m.fragmentOffset m.fragmentLength)
  obtain ⟨bytes, m', e1, e2, e3⟩ := enc_rt_hand (C14_src_enc_serverHelloDone_dtlcp m h) ⟨b, h1, h2⟩
    (dec_of_agreeD (fun d => C14_src_serverHelloDone_dtlcp m0 d))
  simp only [Prod.mk.injEq, and_true] at e3
  exact ⟨bytes, m', e1, e2, by rw [e3]; rfl⟩

/-- ServerHello: in-range object describing a complete message -/
theorem C14_src_enc_roundtrip_serverHello_dtlcp (m m0 : serverHelloMsg) (h : m.raw = [])
    (hw : Spec.Codec.wfServerHello (absSH m) = true)
    (hh : ∀ body, encServerHelloBody codesD (absSH m) = some body →
      Spec.Codec.wfDHdr (hdrView m.messageSeq m.fragmentOffset m.fragmentLength) body.length = true) :
    ∃ bytes m' body, serverHelloMsg.marshal m = .ok ({ m with raw := bytes }, bytes, none) ∧
      serverHelloMsg.unmarshal m0 bytes = .ok (m', true) ∧ encServerHelloBody codesD (absSH m) = some body ∧
      Tie.CodecSHModel.viewD m' = (⟨W16.ofNat m.messageSeq.toNat, 0, body.length⟩, absSH m) ∧ m'.raw = bytes := by
  obtain ⟨b, body, hb, he, hrt⟩ := C14_src_roundtrip_serverHello_dtlcp
    (hdrView m.messageSeq m.fragmentOffset m.fragmentLength) (absSH m) hw hh
  have ha := C14_src_enc_serverHello_dtlcp m h
  rw [he] at ha
  obtain ⟨bytes, e, hab⟩ := ha
  obtain ⟨m', e1, e2, e3⟩ := hrt m0 bytes hab
  exact ⟨bytes, m', body, e, e1, hb, e2, e3⟩

/-- ClientHello (with the cookie): in-range object describing a complete message -/
theorem C14_src_enc_roundtrip_clientHello_dtlcp (m m0 : clientHelloMsg) (h : m.raw = [])
    (hw : Spec.Codec.wfClientHello .dtlcp (absCH m) = true)
    (hh : ∀ body, encClientHelloBody codesD true (absCH m) = some body →
      Spec.Codec.wfDHdr (hdrView m.messageSeq m.fragmentOffset m.fragmentLength) body.length = true) :
    ∃ bytes m' body, clientHelloMsg.marshal m = .ok ({ m with raw := bytes }, bytes, none) ∧
      clientHelloMsg.unmarshal m0 bytes = .ok (m', true) ∧ encClientHelloBody codesD true (absCH m) = some body ∧
      Tie.CodecCHCodec.fieldsD m' = (⟨W16.ofNat m.messageSeq.toNat, 0, body.length⟩, absCH m) := by
  obtain ⟨b, body, hb, he, hrt⟩ := C14_src_roundtrip_clientHello_dtlcp
    (hdrView m.messageSeq m.fragmentOffset m.fragmentLength) (absCH m) hw hh
  have ha := C14_src_enc_clientHello_dtlcp m h
  rw [he] at ha
  obtain ⟨bytes, e, hab⟩ := ha
  obtain ⟨m', e1, e2⟩ := hrt m0 bytes hab
  exact ⟨bytes, m', body, e, e1, hb, e2⟩

/-- no dtlcp marshal panics, for any object (fresh or cached): `Except.ok` always -/
theorem C14_src_enc_no_panic_dtlcp :
    (∀ m : finishedMsg, ∃ r, finishedMsg.marshal m = .ok r) ∧
    (∀ m : certificateVerifyMsg, ∃ r, certificateVerifyMsg.marshal m = .ok r) ∧
    (∀ m : helloVerifyRequestMsg, ∃ r, helloVerifyRequestMsg.marshal m = .ok r) ∧
    (∀ m : serverKeyExchangeMsg, ∃ r, serverKeyExchangeMsg.marshal m = .ok r) ∧
    (∀ m : clientKeyExchangeMsg, ∃ r, clientKeyExchangeMsg.marshal m = .ok r) ∧
    (∀ m : serverHelloDoneMsg, ∃ r, serverHelloDoneMsg.marshal m = .ok r) ∧
    (∀ m : serverHelloMsg, ∃ r, serverHelloMsg.marshal m = .ok r) ∧
    (∀ m : clientHelloMsg, ∃ r, clientHelloMsg.marshal m = .ok r) := by
  refine ⟨fun m => ?_, fun m => ?_, fun m => ?_, fun m => ?_, fun m => ?_, fun m => ?_, fun m => ?_, fun m => ?_⟩
  · by_cases h : m.raw = []
    · obtain ⟨b, e, _⟩ := C14_src_enc_finished_dtlcp m h; exact ⟨_, e⟩
    · exact ⟨_, C14_src_enc_cached_dtlcp.1 m h⟩
  · by_cases h : m.raw = []
    · obtain ⟨b, e, _⟩ := C14_src_enc_certificateVerify_dtlcp m h; exact ⟨_, e⟩
    · exact ⟨_, C14_src_enc_cached_dtlcp.2.1 m h⟩
  · by_cases h : m.raw = []
    · obtain ⟨b, e, _⟩ := C14_src_enc_helloVerifyRequest_dtlcp m h; exact ⟨_, e⟩
    · exact ⟨_, C14_src_enc_cached_dtlcp.2.2.1 m h⟩
  · by_cases h : m.raw = []
    · obtain ⟨b, e, _⟩ := C14_src_enc_serverKeyExchange_dtlcp m h; exact ⟨_, e⟩
    · exact ⟨_, C14_src_enc_cached_dtlcp.2.2.2.1 m h⟩
  · by_cases h : m.raw = []
    · obtain ⟨b, e, _⟩ := C14_src_enc_clientKeyExchange_dtlcp m h; exact ⟨_, e⟩
    · exact ⟨_, C14_src_enc_cached_dtlcp.2.2.2.2.1 m h⟩
  · by_cases h : m.raw = []
    · obtain ⟨b, e, _⟩ := C14_src_enc_serverHelloDone_dtlcp m h; exact ⟨_, e⟩
    · exact ⟨_, C14_src_enc_cached_dtlcp.2.2.2.2.2.1 m h⟩
  · by_cases h : m.raw = []
    · have ha := C14_src_enc_serverHello_dtlcp m h
      cases ho : Model.CodecDtlcp.encServerHello codesD (hdrView m.messageSeq m.fragmentOffset m.fragmentLength) (absSH m) with
      | none => rw [ho] at ha; exact ⟨_, ha⟩
      | some b => rw [ho] at ha; obtain ⟨bs, e, _⟩ := ha; exact ⟨_, e⟩
    · exact ⟨_, C14_src_enc_cached_dtlcp.2.2.2.2.2.2.1 m h⟩
  · by_cases h : m.raw = []
    · have ha := C14_src_enc_clientHello_dtlcp m h
      cases ho : Model.CodecDtlcp.encClientHello codesD (hdrView m.messageSeq m.fragmentOffset m.fragmentLength) (absCH m) with
      | none => rw [ho] at ha; exact ⟨_, ha⟩
      | some b => rw [ho] at ha; obtain ⟨bs, e, _⟩ := ha; exact ⟨_, e⟩
    · exact ⟨_, C14_src_enc_cached_dtlcp.2.2.2.2.2.2.2 m h⟩

-- non-vacuity: concrete dtlcp objects through the translated encoders
example : finishedMsg.marshal { verifyData := [1, 2, 3], messageSeq := 5#16 } =
    .ok ({ raw := [20, 0, 0, 3, 0, 5, 0, 0, 0, 0, 0, 3, 1, 2, 3], verifyData := [1, 2, 3], messageSeq := 5#16 },
      [20, 0, 0, 3, 0, 5, 0, 0, 0, 0, 0, 3, 1, 2, 3], none) := rfl
example : helloVerifyRequestMsg.marshal { serverVersion := 0x0101#16, cookie := [9, 8], messageSeq := 1#16 } =
    .ok ({ raw := [3, 0, 0, 5, 0, 1, 0, 0, 0, 0, 0, 5, 1, 1, 2, 9, 8], serverVersion := 0x0101#16, cookie := [9, 8], messageSeq := 1#16 },
      [3, 0, 0, 5, 0, 1, 0, 0, 0, 0, 0, 5, 1, 1, 2, 9, 8], none) := rfl
example : clientHelloMsg.marshal { random := [1] } = .ok ({ random := [1] }, [], some Go.Error.other) := rfl

end SrcEncDtlcp

end Gotlcp.Props.C14

/-
C14, property theorems about the TRANSLATED encoders (`marshal` of every message of both stacks
except certificateRequestMsg; see DESIGN.md 12.4).  Same namespace as Props/C14.lean; listed in
checks/C14.json under extra_props_files.
-/
import Gotlcp.Tie.CbString

namespace Gotlcp.Props.C14

end Gotlcp.Props.C14

/-
C03 — tampering with a handshake never yields two completed endpoints that differ.

Property theorems only (helpers: `Gotlcp.Lemmas.Transcript`, `Gotlcp.Lemmas.TranscriptInv`).
Model: `Gotlcp.Model.Transcript` (symbolic; primitives are the hypothesis structure `Prims`,
instantiated below to show the laws are jointly satisfiable).  Spec: `Gotlcp.Spec.Tamper`.

Every theorem is for ALL honest behaviours (`World`: message contents, master secrets,
configuration-dependent decisions are arbitrary functions of the endpoint's history) and ALL
attackers (arbitrary strategies; at the handshake layer: arbitrary sequences of well-framed
messages and ChangeCipherSpec signals fed to either endpoint).
-/
import Gotlcp.Lemmas.TranscriptConn
import Gotlcp.Spec.TamperSpec
import Gotlcp.Generated.Facts
import Gotlcp.Model.TranscriptFacts
import Gotlcp.Model.TranscriptSym

set_option linter.unusedSimpArgs false
set_option linter.unusedVariables false

namespace Gotlcp.Props.C03
open Gotlcp.Model.Transcript
open Gotlcp.Lemmas.Transcript
open Gotlcp.Spec.Tamper

variable {P : Prims} {k : Codes} {f : TFlags} {W : World P}

/-- the symbolic secrecy assumption: a verify_data value an endpoint accepted (which is, by the
comparison it passed, PRF(that endpoint's master secret, label, digest)) was written into a
Finished message by one of the two honest endpoints — the attacker cannot produce
PRF(master, ·) values itself. -/
def SecretMaster (k : Codes) (c s : HS P) : Prop :=
  ∀ vd, vd ∈ finAccepted k c.log ++ finAccepted k s.log → vd ∈ finSent k c.log ++ finSent k s.log

/-- every message of both histories has a length field that matches its body (what
`readHandshake` guarantees for accepted messages and `marshal` for written ones) -/
def FramedLogs (c s : HS P) : Prop := ∀ m, m ∈ msgsOf c.log ++ msgsOf s.log → WellFramed m

/-- what an endpoint wrote and accepted, as the spec's `EndpointLog` -/
def logOf (h : HS P) : EndpointLog Item := ⟨sentOf h.log, acceptedOf h.log⟩

/-! ### the transcript hash is injective on message lists -/

/-- 4-byte-header framing: a framed message determines its type, its body and what follows -/
theorem C03_frame_injective {t t' : UInt8} {a a' r r' : Bytes} (ha : a.length < 16777216) (ha' : a'.length < 16777216)
    (h : t :: (be24 a.length ++ a) ++ r = t' :: (be24 a'.length ++ a') ++ r') : t = t' ∧ a = a' ∧ r = r' :=
  frame_injective ha ha' h

/-- hence `H(m₁ ‖ … ‖ mₙ)` with `H` injective on byte strings is injective on lists of framed
messages: the concatenation is uniquely parseable -/
theorem C03_transcript_hash_injective (P : Prims) {a b : List Msg} (ha : ∀ m ∈ a, WellFramed m)
    (hb : ∀ m ∈ b, WellFramed m) (h : hashT P a = hashT P b) : a = b :=
  hashT_injective P ha hb h

/-! ### both complete ⇒ same transcript -/

/-- Handshake layer, any inputs: feed ANY sequences of well-framed messages and
ChangeCipherSpec signals to a client machine and to a server machine.  If both reach `done`,
then (under the symbolic laws and the secrecy assumption) what each accepted is, item for item
and with the ChangeCipherSpec signals in the same places, what the other wrote. -/
theorem C03_same_transcript_any_inputs (hk : k.ok = true) (hf : f.sound = true) {c s : HS P}
    (hc : ReachR k f W .client c) (hs : ReachR k f W .server s)
    (dc : c.ctl = .done) (ds : s.ctl = .done)
    (hfr : FramedLogs c s) (hsm : SecretMaster k c s) :
    SameTranscript (logOf c) (logOf s) ∧ c.ms = s.ms := by
  have ne := codesNe hk
  have shc : Shape k c := reach_shape W hk hf hc.reach
  have shs : Shape k s := reach_shape W hk hf hs.reach
  simp only [Shape, dc] at shc
  simp only [Shape, ds] at shs
  obtain ⟨hi, hm⟩ := done_agree ne shc shs hc.role hs.role hfr hsm
  obtain ⟨Ac, sc, tc⟩ := shc
  obtain ⟨As, ss, ts⟩ := shs
  have cc : c.log = assign k true false 0 (itemsOf c.log) := by
    have := tc.canon; rw [hc.role] at this; exact this
  have cs : s.log = assign k false false 0 (itemsOf s.log) := by
    have := ts.canon; rw [hs.role] at this; exact this
  refine ⟨⟨?_, ?_⟩, hm⟩
  · show acceptedOf c.log = sentOf s.log
    rw [cc, cs, hi, ← accepted_client_eq_sent_server]
  · show acceptedOf s.log = sentOf c.log
    rw [cc, cs, hi, ← accepted_server_eq_sent_client]

/-- The whole system, for ALL attacker strategies and any number of moves: two connections
(record layer + handshake layer) and an attacker who decides every delivery from the honest
outputs so far (drop, duplicate, reorder, alter, inject are all instances).  If both
connections report completion, each accepted exactly the messages and ChangeCipherSpec signals
the other sent. -/
theorem C03_both_complete_same_transcript (hk : k.ok = true) (hf : f.sound = true) (att : Attacker) (n : Nat) :
    let g := Global.run k f W att n (Global.init k W)
    g.c.status = .done → g.s.status = .done →
    FramedLogs g.c.hs g.s.hs → SecretMaster k g.c.hs g.s.hs →
    SameTranscript (logOf g.c.hs) (logOf g.s.hs) := by
  intro g dc ds hfr hsm
  have ok := global_run_ok (k := k) (f := f) (W := W) att n _ global_init_ok
  exact (C03_same_transcript_any_inputs hk hf ok.c.reach ok.s.reach (ok.c.done dc) (ok.s.done ds) hfr hsm).1

/-! ### the facts the theorems rely on -/

/-- The regenerated source facts: the nine handshake type codes are pairwise different bytes,
and both stacks perform exactly the transcript operations the model assumes (ClientHello and
ServerHello added by `transcriptMsg` in that order, every message of the full handshake
written / read with the hash or added right after, Finished and CertificateVerify read with
`nil` and added only after the check, Finished compared over its whole length); the stream
stack keeps the record-layer guards (version compared only under `haveVers`, ChangeCipherSpec
only when expected and with an empty handshake buffer, no handshake record while a
ChangeCipherSpec is expected).  Nothing the extractor looks for is missing. -/
theorem C03_facts :
    tlcpCodes.ok = true ∧ dtlcpCodes.ok = true ∧
    tlcpFlags.sound = true ∧ dtlcpFlags.sound = true ∧
    tlcpFlags.recordStrict = true ∧
    dtlcpFlags.versCheckedOnlyWhenHave = true ∧ dtlcpFlags.ccsNeedsExpect = true ∧
    dtlcpFlags.hsRefusedWhenCCSExpected = true ∧
    Facts.tlcp.trClientHandshake = ["W:hello:nil", "R:nil"] ∧
    Facts.dtlcp.trClientHandshake = ["W:hello:nil", "R:nil"] ∧
    Facts.missing = [] := by decide

end Gotlcp.Props.C03

/-
C03 — tampering with a handshake never yields two completed endpoints that differ.

Property theorems only (helpers: `Gotlcp.Lemmas.Transcript`, `Gotlcp.Lemmas.TranscriptInv`).
Model: `Gotlcp.Model.Transcript` (symbolic; primitives are the hypothesis structure `Prims`,
instantiated below to show the laws are jointly satisfiable).  Spec: `Gotlcp.Spec.Tamper`.

Every theorem is for ALL honest behaviours (`World`: message contents, master secrets,
configuration-dependent decisions are arbitrary functions of the endpoint's history) and ALL
attackers (arbitrary strategies; at the handshake layer: arbitrary sequences of well-framed
messages and ChangeCipherSpec signals fed to either endpoint).
-/
import Gotlcp.Lemmas.TranscriptHeads
import Gotlcp.Lemmas.TranscriptDY
import Gotlcp.Spec.TamperSpec
import Gotlcp.Generated.Facts
import Gotlcp.Model.TranscriptFacts
import Gotlcp.Model.TranscriptSym

set_option linter.unusedSimpArgs false
set_option linter.unusedVariables false

namespace Gotlcp.Props.C03
open Gotlcp.Model.Transcript
open Gotlcp.Lemmas.Transcript
open Gotlcp.Spec.Tamper

variable {P : Prims} {k : Codes} {f : TFlags} {W : World P}

/-- the symbolic secrecy assumption: a verify_data value an endpoint accepted (which is, by the
comparison it passed, PRF(that endpoint's master secret, label, digest)) was written into a
Finished message by one of the two honest endpoints — the attacker cannot produce
PRF(master, ·) values itself. -/
def SecretMaster (k : Codes) (c s : HS P) : Prop :=
  ∀ vd, vd ∈ finAccepted k c.log ++ finAccepted k s.log → vd ∈ finSent k c.log ++ finSent k s.log

/-- every message of both histories has a length field that matches its body (what
`readHandshake` guarantees for accepted messages and `marshal` for written ones) -/
def FramedLogs (c s : HS P) : Prop := ∀ m, m ∈ msgsOf c.log ++ msgsOf s.log → WellFramed m

/-- what an endpoint wrote and accepted, as the spec's `EndpointLog` -/
def logOf (h : HS P) : EndpointLog Item := ⟨sentOf h.log, acceptedOf h.log⟩

/-! ### the transcript hash is injective on message lists -/

/-- 4-byte-header framing: a framed message determines its type, its body and what follows -/
theorem C03_frame_injective {t t' : UInt8} {a a' r r' : Bytes} (ha : a.length < 16777216) (ha' : a'.length < 16777216)
    (h : t :: (be24 a.length ++ a) ++ r = t' :: (be24 a'.length ++ a') ++ r') : t = t' ∧ a = a' ∧ r = r' :=
  frame_injective ha ha' h

/-- hence `H(m₁ ‖ … ‖ mₙ)` with `H` injective on byte strings is injective on lists of framed
messages: the concatenation is uniquely parseable -/
theorem C03_transcript_hash_injective (P : Prims) {a b : List Msg} (ha : ∀ m ∈ a, WellFramed m)
    (hb : ∀ m ∈ b, WellFramed m) (h : hashT P a = hashT P b) : a = b :=
  hashT_injective P ha hb h

/-! ### both complete ⇒ same transcript -/

/-- Handshake layer, any inputs: feed ANY sequences of well-framed messages and
ChangeCipherSpec signals to a client machine and to a server machine.  If both reach `done`,
then (under the symbolic laws and the secrecy assumption) what each accepted is, item for item
and with the ChangeCipherSpec signals in the same places, what the other wrote. -/
theorem C03_same_transcript_any_inputs (hk : k.ok = true) (hf : f.sound = true) {c s : HS P}
    (hc : ReachR k f W .client c) (hs : ReachR k f W .server s)
    (dc : c.ctl = .done) (ds : s.ctl = .done)
    (hfr : FramedLogs c s) (hsm : SecretMaster k c s) :
    SameTranscript (logOf c) (logOf s) ∧ c.ms = s.ms := by
  have ne := codesNe hk
  have shc : Shape k c := reach_shape W hk hf hc.reach
  have shs : Shape k s := reach_shape W hk hf hs.reach
  simp only [Shape, dc] at shc
  simp only [Shape, ds] at shs
  obtain ⟨hi, hm⟩ := done_agree ne shc shs hc.role hs.role hfr hsm
  obtain ⟨Ac, sc, tc⟩ := shc
  obtain ⟨As, ss, ts⟩ := shs
  have cc : c.log = assign k true false 0 (itemsOf c.log) := by
    have := tc.canon; rw [hc.role] at this; exact this
  have cs : s.log = assign k false false 0 (itemsOf s.log) := by
    have := ts.canon; rw [hs.role] at this; exact this
  refine ⟨⟨?_, ?_⟩, hm⟩
  · show acceptedOf c.log = sentOf s.log
    rw [cc, cs, hi, ← accepted_client_eq_sent_server]
  · show acceptedOf s.log = sentOf c.log
    rw [cc, cs, hi, ← accepted_server_eq_sent_client]

/-- The whole system, for ALL attacker strategies and any number of moves: two connections
(record layer + handshake layer) and an attacker who decides every delivery from the honest
outputs so far (drop, duplicate, reorder, alter, inject are all instances).  If both
connections report completion, each accepted exactly the messages and ChangeCipherSpec signals
the other sent. -/
theorem C03_both_complete_same_transcript (hk : k.ok = true) (hf : f.sound = true) (att : Attacker) (n : Nat) :
    let g := Global.run k f W att n (Global.init k f W)
    g.c.status = .done → g.s.status = .done →
    FramedLogs g.c.hs g.s.hs → SecretMaster k g.c.hs g.s.hs →
    SameTranscript (logOf g.c.hs) (logOf g.s.hs) := by
  intro g dc ds hfr hsm
  have ok := global_run_ok (k := k) (f := f) (W := W) att n _ global_init_ok
  exact (C03_same_transcript_any_inputs hk hf ok.c.reach ok.s.reach (ok.c.done dc) (ok.s.done ds) hfr hsm).1

/-! ### the hypotheses are jointly satisfiable: an untampered run

`symPrims` instantiates the primitive laws; `exWorld` is an honest world (full handshake with
ServerKeyExchange, no client authentication); `forwarder` is the attacker who delivers every
honest record unchanged and in order.  Both connections complete, every message is well framed
and every accepted Finished value was written by the peer. -/

def exWorld : World symPrims where
  say := fun r t log => [if r.isClient then 1 else 2, UInt8.ofNat t, UInt8.ofNat log.length]
  master := fun _ _ => (7 : Nat)
  choice := fun _ q _ => match q with
    | .accept => true
    | .sendSKX => true
    | _ => false
  reenc := fun _ m => m

def forwarder : Attacker where
  next := fun outs delivered =>
    let toS := outs.filterMap (fun p => if p.1 = Role.client then some p.2 else none)
    let toC := outs.filterMap (fun p => if p.1 = Role.server then some p.2 else none)
    let nS := (delivered.filter (fun p => p.1 = Role.server)).length
    let nC := (delivered.filter (fun p => p.1 = Role.client)).length
    match toS[nS]? with
    | some r => some (Role.server, r)
    | none =>
      match toC[nC]? with
      | some r => some (Role.client, r)
      | none => none

def exRun : Global symPrims :=
  Global.run tlcpCodes tlcpFlags exWorld forwarder 40 (Global.init tlcpCodes tlcpFlags exWorld)

set_option maxRecDepth 100000 in
example : exRun.c.status = .done ∧ exRun.s.status = .done ∧ exRun.c.hs.log.length = 10 ∧
    (msgsOf exRun.c.hs.log ++ msgsOf exRun.s.hs.log).all wellFramedB = true ∧
    (finAccepted tlcpCodes exRun.c.hs.log ++ finAccepted tlcpCodes exRun.s.hs.log).all
      (fun vd => (finSent tlcpCodes exRun.c.hs.log ++ finSent tlcpCodes exRun.s.hs.log).contains vd) = true := by
  decide

/-- and a tampered run in which neither completes: the attacker who flips the last byte of
the first ServerHello it forwards -/
def flipper : Attacker where
  next := fun outs delivered =>
    match forwarder.next outs delivered with
    | some (Role.client, r) =>
      if (delivered.filter (fun p => p.1 = Role.client)).length = 0 then
        some (Role.client, { r with payload := r.payload.dropLast ++ [0xEE] })
      else some (Role.client, r)
    | x => x

set_option maxRecDepth 100000 in
example :
    let g := Global.run tlcpCodes tlcpFlags exWorld flipper 40 (Global.init tlcpCodes tlcpFlags exWorld)
    g.c.status ≠ .done ∧ g.s.status ≠ .done := by
  decide

/-! ### which bytes of a received message the Finished exchange covers

Several received messages are read with `transcript = nil` and added to the hash afterwards by
`transcriptMsg` (ServerHello on the client; ClientHello and CertificateVerify — on the datagram
stack also Certificate and ClientKeyExchange — on the server; the peer's Finished on both).
`transcriptMsg` hashes `marshal()` of the DECODED message: the bytes that were received when
`unmarshal` kept them in `raw` and `marshal` returns `raw`, a re-encoding of the parsed fields
otherwise.  That is the regenerated flag `decodedKeepRaw`, part of `TFlags.sound`. -/

/-- With the flag, what `transcriptMsg` hashes for a decoded message is the message as received. -/
theorem C03_decoded_message_hashed_as_received (hf : f.sound = true) (r : Role) (m : Msg) :
    asMarshalled f W r m = m :=
  asMarshalled_eq (flagsTrue hf) W r m

/-- Hence, in every reachable completed state, the content of `finishedHash` is exactly the
endpoint's history: every handshake message it sent and every handshake message it accepted, in
order and byte for byte (nothing a decoder skipped is left out of the Finished computation). -/
theorem C03_finished_hash_covers_history (hk : k.ok = true) (hf : f.sound = true) {h : HS P}
    (hr : Reach k f W h) (hd : h.ctl = .done) : h.transcript = msgsOf h.log := by
  have sh : Shape k h := reach_shape W hk hf hr
  simp only [Shape, hd] at sh
  obtain ⟨A, s, t⟩ := sh
  exact t.trans

/-- The flag is necessary (the model mirrors the code including this defect): when the client's
ServerHello decoder does not keep the received bytes and the re-encoding forgets a trailing byte
the decoder skips, the attacker who appends one such byte to the ServerHello (framing fixed up)
is not detected — both endpoints complete although the ServerHello the client accepted is not
the one the server sent. -/
def lossyFlags : TFlags := { tlcpFlags with decodedKeepRaw := false }

def lossyWorld : World symPrims :=
  { exWorld with reenc := fun _ m => if mtype m = tlcpCodes.tSH then frame (mtype m) (mbody m).dropLast else m }

def padder : Attacker where
  next := fun outs delivered =>
    match forwarder.next outs delivered with
    | some (Role.client, r) =>
      if (delivered.filter (fun p => p.1 = Role.client)).length = 0 then
        some (Role.client, { r with payload := frame (mtype r.payload) (mbody r.payload ++ [0xEE]) })
      else some (Role.client, r)
    | x => x

set_option maxRecDepth 100000 in
example :
    let g := Global.run tlcpCodes lossyFlags lossyWorld padder 40 (Global.init tlcpCodes lossyFlags lossyWorld)
    g.c.status = .done ∧ g.s.status = .done ∧ acceptedOf g.c.hs.log ≠ sentOf g.s.hs.log := by
  decide

-- … and with the flag as extracted from this tree the same attacker is refused
set_option maxRecDepth 100000 in
example :
    let g := Global.run tlcpCodes tlcpFlags lossyWorld padder 40 (Global.init tlcpCodes tlcpFlags lossyWorld)
    g.c.status ≠ .done ∧ g.s.status ≠ .done := by
  decide

/-! ### the ChangeCipherSpec signal is accepted, never inferred

`C03_same_transcript_any_inputs` puts the ChangeCipherSpec signals of both histories in the same
places.  That rests on the flag `ccsOnlyByRecord` (part of `TFlags.sound`): the read side changes
its cipher state — and stops waiting for the ChangeCipherSpec — only when a ChangeCipherSpec
record was received; a handshake record that arrives while the ChangeCipherSpec is expected
(datagram stack: a record that already carries the next epoch) is refused. -/

/-- With the flag, no record switches the read cipher by itself: the implicit switch of the
defect branch is the identity on every connection state and for every record. -/
theorem C03_no_implicit_cipher_switch (hf : f.sound = true) (c : Conn P) (r : Record) :
    Conn.implicitSwitch k f c r = c := by
  have ft := flagsTrue hf
  simp [Conn.implicitSwitch, ft.ccsOnlyByRecord]

/-- … and a handshake record that arrives while the ChangeCipherSpec is expected ends the
handshake with `unexpected_message` — whatever it contains and whichever keys protect it. -/
theorem C03_handshake_record_refused_while_ccs_expected (hf : f.sound = true) (hr : f.hsRefusedWhenCCSExpected = true)
    (c : Conn P) (data : Bytes) (he : c.hs.expectCCS = true) :
    Conn.onHandshakeRecord k f W c data = Conn.failLocal k c k.aUnexpected := by
  simp [Conn.onHandshakeRecord, hr, he]

/-- A ChangeCipherSpec record that arrives while none is expected — in particular one injected
in transit anywhere before the peer's own — ends the handshake with `unexpected_message`, in every
connection state and whatever the record contains: it is never dropped and read over.  (The flag
`ccsNeedsExpect` is regenerated from the guard AND its action: `!expectChangeCipherSpec` must answer
with the fatal alert, see `flagsOf`.) -/
theorem C03_unexpected_ccs_refused (hr : f.ccsNeedsExpect = true) (hh : f.ccsNeedsEmptyHand = true)
    (c : Conn P) (data : Bytes) (he : c.hs.expectCCS = false) :
    (Conn.onCCSRecord k f c data).status = .failed s!"local:{k.aUnexpected}" ∨
    (Conn.onCCSRecord k f c data).status = .failed s!"local:{k.aDecode}" := by
  unfold Conn.onCCSRecord
  by_cases hd : data ≠ [1]
  · right; simp [hd, Conn.failLocal]
  · left
    by_cases hn : c.hand ≠ []
    · simp [hd, hh, hn, Conn.failLocal]
    · simp [hd, hr, hh, hn, he, Conn.failLocal]

-- the hypotheses hold for the flags extracted from this tree (both stacks refuse an unexpected
-- ChangeCipherSpec with the fatal alert; the empty-buffer guard is the stream stack's)
example : tlcpFlags.ccsNeedsExpect = true ∧ tlcpFlags.ccsNeedsEmptyHand = true ∧ dtlcpFlags.ccsNeedsExpect = true := by
  decide

/-- The flag is necessary (the model mirrors the defect branch): when a handshake record switches
the cipher state by itself, the attacker who removes the client's ChangeCipherSpec record — and
nothing else — is not detected: both endpoints complete although the server accepted no
ChangeCipherSpec where the client sent one. -/
def implicitFlags : TFlags := { tlcpFlags with ccsOnlyByRecord := false }

def ccsDropper : Attacker where
  next := fun outs delivered =>
    -- forward everything in order, except the client's ChangeCipherSpec record
    let toS := (outs.filterMap (fun p => if p.1 = Role.client then some p.2 else none)).filter
      (fun r => r.typ ≠ tlcpCodes.rtCCS)
    let toC := outs.filterMap (fun p => if p.1 = Role.server then some p.2 else none)
    let nS := (delivered.filter (fun p => p.1 = Role.server)).length
    let nC := (delivered.filter (fun p => p.1 = Role.client)).length
    match toS[nS]? with
    | some r => some (Role.server, r)
    | none =>
      match toC[nC]? with
      | some r => some (Role.client, r)
      | none => none

set_option maxRecDepth 100000 in
example :
    let g := Global.run tlcpCodes implicitFlags exWorld ccsDropper 40 (Global.init tlcpCodes implicitFlags exWorld)
    g.c.status = .done ∧ g.s.status = .done ∧ acceptedOf g.s.hs.log ≠ sentOf g.c.hs.log := by
  decide

-- … and with the flag as extracted from this tree the same attacker stops the handshake
set_option maxRecDepth 100000 in
example :
    let g := Global.run tlcpCodes tlcpFlags exWorld ccsDropper 40 (Global.init tlcpCodes tlcpFlags exWorld)
    g.c.status ≠ .done ∧ g.s.status ≠ .done := by
  decide

/-! ### no tampering makes an endpoint panic

`handshakeContext` panics when `handshake()` returned an error on a connection that is marked
complete (or nil on one that is not).  The attacker may also CLOSE a transport at any moment
(`Attacker.cut`): from then on the endpoint's writes fail, and `handshake()` returns that error.
Because completion is marked as the last step of `handshake()`, behind the flush of the last
flight (regenerated flag `doneMarkedLast`), the mark and the result always agree. -/

/-- For ALL attackers (deliveries and transport closures decided from everything seen so far),
all honest behaviours and any number of moves: neither endpoint panics. -/
theorem C03_no_panic (hm : f.doneMarkedLast = true) (att : Attacker) (n : Nat) :
    let g := Global.run k f W att n (Global.init k f W)
    g.c.panics = false ∧ g.s.panics = false := by
  intro g
  have ok := global_run_ok (k := k) (f := f) (W := W) att n _ global_init_ok
  exact ⟨ok.c.no_panic hm, ok.s.no_panic hm⟩

/-- … and an endpoint is marked complete exactly when its handshake returned nil. -/
theorem C03_marked_iff_completed (hm : f.doneMarkedLast = true) (att : Attacker) (n : Nat) :
    let g := Global.run k f W att n (Global.init k f W)
    (g.c.marked = true ↔ g.c.status = .done) ∧ (g.s.marked = true ↔ g.s.status = .done) := by
  intro g
  have ok := global_run_ok (k := k) (f := f) (W := W) att n _ global_init_ok
  exact ⟨ok.c.mark hm, ok.s.mark hm⟩

/-- The flag is necessary: when the server marks completion once the client's Finished verified,
BEFORE its own ChangeCipherSpec + Finished are written, the attacker who forwards everything and
closes the server's transport as soon as the client has written its Finished makes the server
panic (its last write fails on a connection already marked complete). -/
def earlyMarkFlags : TFlags := { tlcpFlags with doneMarkedLast := false }

def cutter : Attacker where
  next := forwarder.next
  cut := fun outs _ r => r = Role.server ∧
    (outs.filter (fun p => p.1 = Role.client ∧ p.2.typ = tlcpCodes.rtHS)).length ≥ 3

set_option maxRecDepth 100000 in
example :
    let g := Global.run tlcpCodes earlyMarkFlags exWorld cutter 40 (Global.init tlcpCodes earlyMarkFlags exWorld)
    g.s.panics = true ∧ g.s.status = .failed "closed" := by
  decide

-- … with the flag as extracted from this tree the same attacker gets an ordinary error
set_option maxRecDepth 100000 in
example :
    let g := Global.run tlcpCodes tlcpFlags exWorld cutter 40 (Global.init tlcpCodes tlcpFlags exWorld)
    g.s.panics = false ∧ g.s.status = .failed "closed" ∧ g.c.status = .running := by
  decide

/-! ### identical views -/

def firstOfType (t : Nat) : List Item → Option Msg
  | [] => none
  | .msg m :: r => if mtype m = t then some m else firstOfType t r
  | .ccs :: r => firstOfType t r

/-- an endpoint's conclusions, read off what came from the client and what came from the
server (for the client: what it sent / what it accepted; for the server the other way round) -/
def viewOf (k : Codes) (fromClient fromServer : List Item) (ms : Option P.Secret) : View Msg Bytes P.Secret :=
  { clientHello := firstOfType k.tCH fromClient
    serverHello := firstOfType k.tSH fromServer
    serverCertificate := firstOfType k.tCert fromServer
    clientCertificate := firstOfType k.tCert fromClient
    clientFinished := (firstOfType k.tFin fromClient).map mbody
    serverFinished := (firstOfType k.tFin fromServer).map mbody
    master := ms }

def clientView (k : Codes) (c : HS P) : View Msg Bytes P.Secret := viewOf k (sentOf c.log) (acceptedOf c.log) c.ms
def serverView (k : Codes) (s : HS P) : View Msg Bytes P.Secret := viewOf k (acceptedOf s.log) (sentOf s.log) s.ms

/-- Both complete ⇒ identical views: the same two hello messages (hence the same version,
suite, session id and application protocol — all fields of ClientHello / ServerHello), the same
Certificate messages (peer certificates), the same two Finished values, the same master secret
(a resumed handshake takes the peer certificates recorded with that session). -/
theorem C03_views_agree (hk : k.ok = true) (hf : f.sound = true) {c s : HS P}
    (hc : ReachR k f W .client c) (hs : ReachR k f W .server s)
    (dc : c.ctl = .done) (ds : s.ctl = .done)
    (hfr : FramedLogs c s) (hsm : SecretMaster k c s) :
    Views (clientView k c) (serverView k s) := by
  obtain ⟨⟨h1, h2⟩, h3⟩ := C03_same_transcript_any_inputs hk hf hc hs dc ds hfr hsm
  simp only [logOf] at h1 h2
  unfold Views clientView serverView
  rw [h1, ← h2, h3]

/-! ### no downgrade -/

/-- Both complete ⇒ the two hello messages both endpoints hold are exactly those of the
untampered handshake: the ClientHello the honest client generates by itself and the ServerHello
the honest server generates in answer to exactly that ClientHello.  The negotiated tuple
(version, suite, session id, application protocol, resumption) is a function of these two
messages — so it is what the untampered handshake negotiates: no downgrade. -/
theorem C03_no_downgrade (hk : k.ok = true) (hf : f.sound = true) {c s : HS P}
    (hc : ReachR k f W .client c) (hs : ReachR k f W .server s)
    (dc : c.ctl = .done) (ds : s.ctl = .done)
    (hfr : FramedLogs c s) (hsm : SecretMaster k c s) :
    (clientView k c).clientHello = some (honestCH k W) ∧
    (clientView k c).serverHello = some (honestSH k W (honestCH k W)) ∧
    (serverView k s).clientHello = some (honestCH k W) ∧
    (serverView k s).serverHello = some (honestSH k W (honestCH k W)) := by
  have ne := codesNe hk
  have hv := C03_views_agree hk hf hc hs dc ds hfr hsm
  obtain ⟨⟨h1, h2⟩, _⟩ := C03_same_transcript_any_inputs hk hf hc hs dc ds hfr hsm
  simp only [logOf] at h1 h2
  obtain ⟨rc, hrc⟩ := client_head hc
  have tCH : mtype (honestCH k W) = k.tCH := mtype_frame ne.lt_CH _
  -- the server answered: its history starts with the accepted ClientHello and its ServerHello
  have hsh := server_head hs
  rcases hsh with ⟨_, hctl⟩ | ⟨ch, rs, hrs⟩
  · rcases hctl with hctl | ⟨a, hctl⟩ <;> rw [ds] at hctl <;> cases hctl
  have e1 : sentOf c.log = .msg (honestCH k W) :: sentOf rc := by rw [← hrc]; rfl
  have e2 : acceptedOf s.log = .msg ch :: acceptedOf rs := by rw [← hrs]; rfl
  have e3 : sentOf s.log = .msg (honestSH k W ch) :: sentOf rs := by rw [← hrs]; rfl
  have hch : ch = honestCH k W := by
    rw [e1, e2] at h2
    simp only [List.cons.injEq, Item.msg.injEq] at h2
    exact h2.1
  subst hch
  have tSH : mtype (honestSH k W (honestCH k W)) = k.tSH := mtype_frame ne.lt_SH _
  have s1 : (serverView k s).clientHello = some (honestCH k W) := by
    simp [serverView, viewOf, e2, firstOfType, tCH]
  have s2 : (serverView k s).serverHello = some (honestSH k W (honestCH k W)) := by
    simp [serverView, viewOf, e3, firstOfType, tSH]
  unfold Views at hv
  rw [hv]
  exact ⟨s1, s2, s1, s2⟩

/-! ### the record-layer facts found on the real code -/

/-- The one field outside the transcript (stream stack): while `haveVers` is false — the first
record in each direction — the record-layer version is not compared with anything (it only has
to be below 0x1000), so altering it changes nothing at all: the connection ends up in exactly
the same state, hence the same views. -/
theorem C03_record_version_unauthenticated (hv : f.versCheckedOnlyWhenHave = true) (c : Conn P) (r : Record) (v : Nat)
    (h0 : c.haveVers = false) (hr : r.vers < 4096) (hv' : v < 4096) :
    Conn.deliver k f W c { r with vers := v } = Conn.deliver k f W c r := by
  unfold Conn.deliver Conn.headerCheck Conn.openRecord Conn.implicitSwitch
  simp [hv, h0, Nat.not_le.mpr hr, Nat.not_le.mpr hv']

/-- … and once the version is agreed (`haveVers`), a record with any other version is refused
with `protocol_version` whatever else it contains. -/
theorem C03_record_version_checked_after_hello (hv : f.versCheckedOnlyWhenHave = true) (c : Conn P) (r : Record)
    (hrun : c.status = .running) (h1 : c.haveVers = true) (hr : r.vers ≠ k.vers) :
    Conn.deliver k f W c r = Conn.failLocal k c k.aProtoVers := by
  unfold Conn.deliver Conn.headerCheck
  simp [hv, h1, hr, hrun]

/-- An injected warning alert (other than close_notify) in the clear is dropped on the floor:
only the counter of useless records moves (at most `maxUselessRecords` in a row). -/
theorem C03_warning_alert_ignored (c : Conn P) (desc : UInt8) (v : Nat)
    (hrun : c.status = .running) (hin : c.inOn = false) (hvers : v = k.vers)
    (hd : desc.toNat ≠ k.aCloseNotify) (hw : k.aWarning < 256) (hne : k.rtAlert ≠ k.rtApp) (hnh : k.rtAlert ≠ k.rtHS)
    (hlen : 2 ≤ k.maxCiphertext) (hkv : k.vers < 4096) (hret : c.retry + 1 ≤ k.maxUseless) :
    Conn.deliver k f W c ⟨k.rtAlert, v, [UInt8.ofNat k.aWarning, desc]⟩ = { c with retry := c.retry + 1 } := by
  have hwn : (UInt8.ofNat k.aWarning).toNat = k.aWarning := by
    rw [Gotlcp.Lemmas.Transcript.ofNat_toNat]; omega
  unfold Conn.deliver Conn.headerCheck Conn.openRecord Conn.dispatch Conn.onAlert Conn.implicitSwitch
  subst hvers
  have h2 : ¬ (k.maxCiphertext < 2) := by omega
  have h3 : ¬ (k.maxUseless < c.retry + 1) := by omega
  simp [hrun, hin, hd, hne, hnh, hwn, h2, h3, Nat.not_le.mpr hkv]

/-! ### the secrecy assumption, discharged symbolically for the ECC flow -/

section dy
open Gotlcp.Lemmas.TranscriptDY

/-- ECC key exchange on a term algebra: whatever the honest endpoints put on the wire reveals
the pre-master secret only under the server's encryption key (`aenc pkS pms` — the
ClientKeyExchange) and contains PRF(master, x) only for the `x` they computed Finished values
over (`Fin`).  Then the Dolev–Yao attacker (pairing, projection, encryption, decryption with
every key but the server's private key, PRF application, all public values) can derive
neither the pre-master secret nor the master secret, and every `PRF(master, x)` it can derive
has an `x` an honest endpoint used: it cannot produce PRF(master, ·) values of its own.
When the attacker substitutes the certificate (so that the client encrypts under another key)
the hypothesis `hK` fails for the ClientKeyExchange — that case is C02's. -/
theorem C03_secret_master_ecc {seed : Tm} {Fin K : Tm → Prop} (hK : ∀ t, K t → Ok seed Fin t) :
    ¬ Derivable K .pms ∧ ¬ Derivable K (master seed) ∧
    ∀ x, Derivable K (.prf (master seed) x) → Fin x := by
  refine ⟨fun h => derivable_ok hK h, fun h => (derivable_ok hK h).1 rfl, fun x h => (derivable_ok hK h).2 rfl⟩

/-- non-vacuity: the wire of an ECC handshake (ClientKeyExchange = pre-master under the
server's key, two Finished values, public hellos) satisfies the hypothesis, and the attacker
does derive the honest Finished value it saw -/
example :
    let seed := Tm.pub 0
    let Fin : Tm → Prop := fun x => x = .pub 10 ∨ x = .pub 11
    let K : Tm → Prop := fun t => t = .aenc .pkS .pms ∨ t = .prf (master seed) (.pub 10) ∨
      t = .prf (master seed) (.pub 11) ∨ t = .pair (.pub 1) (.pub 2)
    (∀ t, K t → Ok seed Fin t) ∧ Derivable K (.prf (master seed) (.pub 10)) := by
  refine ⟨?_, Derivable.known (Or.inr (Or.inl rfl))⟩
  intro t ht
  rcases ht with rfl | rfl | rfl | rfl <;> simp [Ok, master]

end dy

/-! ### the facts the theorems rely on -/

/-- The regenerated source facts: the nine handshake type codes are pairwise different bytes,
and both stacks perform exactly the transcript operations the model assumes (ClientHello and
ServerHello added by `transcriptMsg` in that order, every message of the full handshake
written / read with the hash or added right after, Finished and CertificateVerify read with
`nil` and added only after the check, Finished compared over its whole length; a received
message enters the hash with the bytes that were received — `readHandshake` hashes the `data` it
decoded and every type handed to `transcriptMsg` keeps its decoded bytes in `raw`); the stream
stack keeps the record-layer guards (version compared only under `haveVers`, ChangeCipherSpec
only when expected and with an empty handshake buffer, no handshake record while a
ChangeCipherSpec is expected); on both stacks the read cipher state is switched only in the
ChangeCipherSpec case of `readRecordOrCCS` (datagram stack: or by `readChangeCipherSpec` consuming
the `deferredCCS` note that case left), `expectChangeCipherSpec` is cleared only there, and
`handshake()` of both roles marks the connection complete as its last step, behind the flush of
the last flight; the datagram stack keeps the cookie prelude (first ClientHello,
HelloVerifyRequest) out of the transcript.  Nothing the extractor looks for is missing. -/
theorem C03_facts :
    tlcpCodes.ok = true ∧ dtlcpCodes.ok = true ∧
    tlcpFlags.sound = true ∧ dtlcpFlags.sound = true ∧
    tlcpFlags.recordStrict = true ∧
    -- the read cipher is switched by ChangeCipherSpec records only (in `sound`; spelled out), and
    -- completion is marked as the last step of `handshake()` on both stacks
    tlcpFlags.ccsOnlyByRecord = true ∧ dtlcpFlags.ccsOnlyByRecord = true ∧
    tlcpFlags.doneMarkedLast = true ∧ dtlcpFlags.doneMarkedLast = true ∧
    Facts.tlcp.trInCipherSwitches = [ccsCase] ∧
    Facts.dtlcp.trInCipherSwitches = cipherSwitchSites ∧
    Facts.tlcp.trExpectCcsAssigns = [] ∧ Facts.dtlcp.trExpectCcsAssigns = [ccsCase] ∧
    Facts.dtlcp.trDeferredCcsSets = [ccsCase] ∧
    dtlcpFlags.versCheckedOnlyWhenHave = true ∧ dtlcpFlags.ccsNeedsExpect = true ∧
    dtlcpFlags.hsRefusedWhenCCSExpected = true ∧
    Facts.tlcp.trClientHandshake = ["W:hello:nil", "R:nil"] ∧
    -- datagram stack: every ClientHello of the cookie loop is written, and every answer
    -- (HelloVerifyRequest or ServerHello) read, with `nil`; HelloVerifyRequest is written with
    -- `nil`; only the final `hs.hello` / `hs.clientHello` enters the transcript
    Facts.dtlcp.trClientHandshake = ["W:hello:nil", "R:nil"] ∧
    Facts.dtlcp.trServerHandshake = ["W:hvr:nil"] ∧
    Facts.dtlcp.trClientHSAdds = ["hs.hello", "hs.serverHello"] ∧
    -- received bytes enter the hash: `readHandshake(hash)` writes the `data` it decoded, and
    -- every message type handed to `transcriptMsg` keeps the decoded bytes (`decodedKeepRaw`,
    -- part of `sound`; spelled out here)
    Facts.tlcp.trReadHandshakeHashed = ["data"] ∧ Facts.tlcp.trReadHandshakeDecoded = ["data"] ∧
    Facts.dtlcp.trReadHandshakeHashed = ["data"] ∧ Facts.dtlcp.trReadHandshakeDecoded = ["data"] ∧
    tlcpFlags.decodedKeepRaw = true ∧ dtlcpFlags.decodedKeepRaw = true ∧
    Facts.tlcp.trAddedTypes = ["certificateVerifyMsg", "clientHelloMsg", "finishedMsg", "serverHelloMsg"] ∧
    Facts.dtlcp.trAddedTypes = ["certificateMsg", "certificateVerifyMsg", "clientHelloMsg", "clientKeyExchangeMsg",
      "finishedMsg", "serverHelloMsg"] ∧
    Facts.missing = [] := by decide

end Gotlcp.Props.C03

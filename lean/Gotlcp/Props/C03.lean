/-
C03 — tampering with a handshake never yields two completed endpoints that differ.

Property theorems only (helpers: `Gotlcp.Lemmas.Transcript`, `Gotlcp.Lemmas.TranscriptInv`).
Model: `Gotlcp.Model.Transcript` (symbolic; primitives are the hypothesis structure `Prims`,
instantiated below to show the laws are jointly satisfiable).  Spec: `Gotlcp.Spec.Tamper`.

Every theorem is for ALL honest behaviours (`World`: message contents, master secrets,
configuration-dependent decisions are arbitrary functions of the endpoint's history) and ALL
attackers (arbitrary strategies; at the handshake layer: arbitrary sequences of well-framed
messages and ChangeCipherSpec signals fed to either endpoint).
-/
import Gotlcp.Lemmas.TranscriptInv
import Gotlcp.Spec.TamperSpec
import Gotlcp.Generated.Facts

set_option linter.unusedSimpArgs false
set_option linter.unusedVariables false

namespace Gotlcp.Props.C03
open Gotlcp.Model.Transcript
open Gotlcp.Lemmas.Transcript
open Gotlcp.Spec.Tamper

variable {P : Prims} {k : Codes} {f : TFlags} {W : World P}

/-- the symbolic secrecy assumption: a verify_data value an endpoint accepted (which is, by the
comparison it passed, PRF(that endpoint's master secret, label, digest)) was written into a
Finished message by one of the two honest endpoints — the attacker cannot produce
PRF(master, ·) values itself. -/
def SecretMaster (k : Codes) (c s : HS P) : Prop :=
  ∀ vd, vd ∈ finAccepted k c.log ++ finAccepted k s.log → vd ∈ finSent k c.log ++ finSent k s.log

/-- every message of both histories has a length field that matches its body (what
`readHandshake` guarantees for accepted messages and `marshal` for written ones) -/
def FramedLogs (c s : HS P) : Prop := ∀ m, m ∈ msgsOf c.log ++ msgsOf s.log → WellFramed m

/-- what an endpoint wrote and accepted, as the spec's `EndpointLog` -/
def logOf (h : HS P) : EndpointLog Item := ⟨sentOf h.log, acceptedOf h.log⟩

end Gotlcp.Props.C03

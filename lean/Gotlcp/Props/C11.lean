/-
C11 — the session cache is a correct bounded LRU that never harms a live session.

Property theorems only (helpers are in `Gotlcp.Lemmas.LRU`).  All statements quantify over
every capacity, every key/value alphabet and every operation sequence of any length.
The model is `Gotlcp.Model.LRU`, parameterised by the regenerated source facts
`Facts.{tlcp,dtlcp}.lru*`; the spec is the textbook map `Gotlcp.Spec.LRUMap`. The heap half
(`Gotlcp.Model.LRUHeap`: which backing arrays the reference fields of sessions, handshake copies
and connection states point at, what an eviction overwrites / drops) carries "never harms a
live session" from the master secret to every field (`C11_live_intact`).
-/
import Gotlcp.Lemmas.LRU
import Gotlcp.Lemmas.LRUConc
import Gotlcp.Lemmas.LRUHeap
import Gotlcp.Generated.Facts

set_option linter.unusedSimpArgs false

namespace Gotlcp.Props.C11
open Gotlcp.Model.LRU
open Gotlcp.Lemmas.LRU
open Gotlcp.Model.LRUHeap
open Gotlcp.Lemmas.LRUHeap
open Gotlcp.Spec

/-! ### one-step preservation -/

theorem put_inv (b : Bool) (s : State) (k : Key) (v : Option ObjId) (h : Inv s) :
    Inv (put b s k v) := by
  obtain ⟨hc, hs, hn⟩ := h
  unfold put
  split
  · rename_i hk
    cases v with
    | none =>
      exact ⟨hc, Nat.le_trans (remove_length_le _ _) hs, nodup_remove k hn⟩
    | some o =>
      refine ⟨hc, ?_, nodup_cons_remove k _ hn⟩
      have := length_remove_lt hk
      simp only [List.length_cons]; omega
  · rename_i hk
    have hk' : hasKey s.q k = false := by simpa using hk
    have hnot : k ∉ s.q.map (·.key) := by
      intro hm; rw [← hasKey_iff] at hm; simp [hk'] at hm
    split
    · exact ⟨hc, hs, hn⟩
    · split
      · rename_i hl
        refine ⟨hc, by simp only [List.length_cons]; omega, ?_⟩
        unfold NodupKeys; simp only [List.map_cons, List.nodup_cons]; exact ⟨hnot, hn⟩
      · rename_i hl
        split
        · refine ⟨hc, by simp only [List.length_cons, List.length_nil]; omega, ?_⟩
          unfold NodupKeys; simp
        · rename_i back hlast
          refine ⟨hc, ?_, ?_⟩
          · simp only [List.length_cons, List.length_dropLast]
            have : s.q ≠ [] := by intro h0; simp [h0] at hlast
            have := List.length_pos_iff.mpr this
            omega
          · unfold NodupKeys; simp only [List.map_cons, List.nodup_cons]
            refine ⟨?_, nodup_dropLast hn⟩
            intro hm
            obtain ⟨e, he, hek⟩ := List.mem_map.mp hm
            exact hnot (List.mem_map.mpr ⟨e, mem_dropLast_of he, hek⟩)

theorem get_inv (s : State) (k : Key) (h : Inv s) : Inv (Model.LRU.get s k).1 := by
  obtain ⟨hc, hs, hn⟩ := h
  unfold Model.LRU.get
  by_cases hk : (k == "") = true
  · simp only [hk, if_true]
    cases s.q.head? <;> exact ⟨hc, hs, hn⟩
  · simp only [hk, Bool.false_eq_true, if_false]
    cases hf : findVal s.q k with
    | none => exact ⟨hc, hs, hn⟩
    | some v =>
      have hh : hasKey s.q k = true := by
        cases hb : hasKey s.q k with
        | true => rfl
        | false => rw [← findVal_none_iff] at hb; simp [hb] at hf
      refine ⟨hc, ?_, nodup_cons_remove k _ hn⟩
      have := length_remove_lt hh
      simp only [List.length_cons]; omega

theorem step_inv (b : Bool) (s : State) (op : Op) (h : Inv s) : Inv (step b s op).1 := by
  cases op with
  | put k v => exact put_inv b s k v h
  | get k => exact get_inv s k h

theorem run_inv (b : Bool) (s : State) (ops : List Op) (h : Inv s) : Inv (run b s ops).1 := by
  induction ops generalizing s with
  | nil => exact h
  | cons op ops ih =>
    simp only [run]
    exact ih _ (step_inv b s op h)

theorem init_inv (d : Nat) (hd : 0 < d) (c : Int) : Inv (init d c) := by
  unfold init
  refine ⟨?_, by simp, by unfold NodupKeys; simp⟩
  by_cases h : c < 1
  · simp [h, hd]
  · simp only [h, if_false]; omega

/-- the capacity the constructor really uses -/
def effCap (d : Nat) (c : Int) : Nat := if c < 1 then d else c.toNat

theorem run_cap (b : Bool) (s : State) (ops : List Op) : (run b s ops).1.cap = s.cap := by
  induction ops generalizing s with
  | nil => rfl
  | cons op ops ih =>
    simp only [run]
    rw [ih]
    cases op with
    | put k v =>
      simp only [step, put]
      split
      · split <;> rfl
      · split
        · rfl
        · split
          · rfl
          · split <;> rfl
    | get k =>
      simp only [step, Model.LRU.get]
      split
      · split <;> rfl
      · split <;> rfl

/-! ### C11 property theorems -/

/-- **Never more entries than the capacity**, for every requested capacity (values < 1 mean
the default), every operation sequence, before or after the F17 repair. -/
theorem C11_size (b : Bool) (d : Nat) (hd : 0 < d) (c : Int) (ops : List Op) :
    (run b (init d c) ops).1.q.length ≤ effCap d c := by
  have h := (run_inv b _ ops (init_inv d hd c)).size
  rw [run_cap] at h
  exact h

/-- **At most one entry per key** in every reachable state. -/
theorem C11_nodup_keys (b : Bool) (d : Nat) (hd : 0 < d) (c : Int) (ops : List Op) :
    ((run b (init d c) ops).1.q.map (·.key)).Nodup :=
  (run_inv b _ ops (init_inv d hd c)).nodup

/-! #### refinement of the textbook LRU map -/

def specOp : Op → LRUMap.Op ObjId
  | .put k v => .put k v
  | .get k => .get k

/-- an implementation result agrees with a specification result -/
def outAgrees : Out → Option (Option ObjId) → Prop
  | .unit, none => True
  | .got v ok, some r => v = r ∧ ok = r.isSome
  | _, _ => False

theorem put_allSome (s : State) (k : Key) (v : Option ObjId) (h : AllSome s.q) :
    AllSome (put true s k v).q := by
  unfold put
  by_cases hk : hasKey s.q k = true
  · simp only [hk, if_true]
    cases v with
    | none => exact allSome_remove k h
    | some o =>
      intro e he
      rcases List.mem_cons.mp he with rfl | he
      · rfl
      · exact allSome_remove k h e he
  · have hk' : hasKey s.q k = false := by simpa using hk
    simp only [hk', Bool.false_eq_true, if_false]
    cases v with
    | none => simp only [Bool.true_and, Option.isNone_none, if_true]; exact h
    | some o =>
      simp only [Bool.true_and, Option.isNone_some, Bool.false_eq_true, if_false]
      by_cases hl : s.q.length < s.cap
      · simp only [hl, if_true]
        intro e he
        rcases List.mem_cons.mp he with rfl | he
        · rfl
        · exact h e he
      · simp only [hl, if_false]
        cases s.q.getLast? with
        | none => intro e he; simp at he; subst he; rfl
        | some back =>
          intro e he
          rcases List.mem_cons.mp he with rfl | he
          · rfl
          · exact allSome_dropLast h e he

theorem get_allSome (s : State) (k : Key) (h : AllSome s.q) : AllSome (Model.LRU.get s k).1.q := by
  unfold Model.LRU.get
  by_cases hk : (k == "") = true
  · simp only [hk, if_true]; cases s.q.head? <;> exact h
  · simp only [hk, Bool.false_eq_true, if_false]
    cases hf : findVal s.q k with
    | none => exact h
    | some v =>
      intro e he
      rcases List.mem_cons.mp he with rfl | he
      · exact findVal_some_of_allSome h hf
      · exact allSome_remove k h e he

/-- One step of the (repaired) code is one step of the textbook map. -/
theorem step_refines (s : State) (op : Op) (hi : Inv s) (ha : AllSome s.q) :
    let r := step true s op
    let m := abs s
    (match op with
     | .put k v => abs r.1 = LRUMap.put m k v ∧ r.2 = .unit
     | .get k   => abs r.1 = (LRUMap.get m k).1 ∧ outAgrees r.2 (some (LRUMap.get m k).2)) := by
  obtain ⟨hc, hs, hn⟩ := hi
  cases op with
  | put k v =>
    simp only [step, and_true]
    unfold put abs LRUMap.put
    by_cases hk : hasKey s.q k = true
    · simp only [hk, if_true]
      cases v with
      | none => simp only [absItems_remove]
      | some o =>
        simp only [LRUMap.Map.mk.injEq, true_and]
        have h1 : absItems (⟨k, some o⟩ :: remove s.q k) = (k, o) :: LRUMap.erase (absItems s.q) k := by
          rw [← absItems_remove]; rfl
        rw [h1]
        symm; apply take_of_length_le
        rw [← absItems_remove]
        have := length_remove_lt hk
        simp only [List.length_cons, absItems_length (allSome_remove k ha)]; omega
    · have hk' : hasKey s.q k = false := by simpa using hk
      simp only [hk', Bool.false_eq_true, if_false]
      have herase : LRUMap.erase (absItems s.q) k = absItems s.q := by
        rw [← absItems_remove, remove_of_not_hasKey _ _ hk']
      cases v with
      | none =>
        simp only [Bool.true_and, Option.isNone_none, if_true, herase]
      | some o =>
        simp only [Bool.true_and, Option.isNone_some, Bool.false_eq_true, if_false, herase]
        by_cases hl : s.q.length < s.cap
        · simp only [hl, if_true, LRUMap.Map.mk.injEq, true_and]
          have h1 : absItems (⟨k, some o⟩ :: s.q) = (k, o) :: absItems s.q := rfl
          rw [h1]; symm; apply take_of_length_le
          simp only [List.length_cons, absItems_length ha]; omega
        · simp only [hl, if_false]
          have hlen : s.q.length = s.cap := by omega
          cases hlast : s.q.getLast? with
          | none =>
            have : s.q = [] := by simpa using hlast
            rw [this] at hlen; simp at hlen; omega
          | some back =>
            simp only [LRUMap.Map.mk.injEq, true_and]
            have h1 : absItems (⟨k, some o⟩ :: s.q.dropLast) = (k, o) :: (absItems s.q).dropLast := by
              rw [← absItems_dropLast ha]; rfl
            rw [h1]; symm
            apply take_cons_full _ _ _ hc
            rw [absItems_length ha]; exact hlen
  | get k =>
    simp only [step]
    unfold Model.LRU.get abs LRUMap.get
    by_cases hk : (k == "") = true
    · simp only [hk, if_true]
      cases hq : s.q with
      | nil => simp [absItems, hq, outAgrees]
      | cons e rest =>
        have he := ha e (by rw [hq]; exact List.mem_cons_self)
        cases hv : e.val with
        | none => simp [hv] at he
        | some v =>
          simp [absItems, hq, List.filterMap_cons, toPair, hv, outAgrees]
    · simp only [hk, Bool.false_eq_true, if_false]
      rw [lookup_abs ha]
      cases hf : findVal s.q k with
      | none => simp [outAgrees]
      | some v =>
        have hvs := findVal_some_of_allSome ha hf
        cases v with
        | none => simp at hvs
        | some o =>
          simp only [Option.bind_some, id, outAgrees, Option.isSome_some, and_self, and_true,
            LRUMap.Map.mk.injEq, true_and]
          rw [← absItems_remove]
          simp [absItems, toPair, List.filterMap_cons]

/-- running sequences: the list of results of the model agrees pointwise with the spec -/
def outsAgree : List Out → List (Option (Option ObjId)) → Prop
  | [], [] => True
  | o :: os, r :: rs => outAgrees o r ∧ outsAgree os rs
  | _, _ => False

theorem run_refines (s : State) (ops : List Op) (hi : Inv s) (ha : AllSome s.q) :
    abs (run true s ops).1 = (LRUMap.run (abs s) (ops.map specOp)).1 ∧
    outsAgree (run true s ops).2 (LRUMap.run (abs s) (ops.map specOp)).2 := by
  induction ops generalizing s with
  | nil => exact ⟨rfl, trivial⟩
  | cons op ops ih =>
    have hstep := step_refines s op hi ha
    have hi' := step_inv true s op hi
    cases op with
    | put k v =>
      obtain ⟨h1, h2⟩ := hstep
      have ha' : AllSome (step true s (.put k v)).1.q := put_allSome s k v ha
      obtain ⟨ih1, ih2⟩ := ih _ hi' ha'
      simp only [run, List.map_cons, specOp, LRUMap.run]
      rw [h1] at ih1 ih2
      exact ⟨ih1, by rw [h2]; exact ⟨trivial, ih2⟩⟩
    | get k =>
      obtain ⟨h1, h2⟩ := hstep
      have ha' : AllSome (step true s (.get k)).1.q := get_allSome s k ha
      obtain ⟨ih1, ih2⟩ := ih _ hi' ha'
      simp only [run, List.map_cons, specOp, LRUMap.run]
      rw [h1] at ih1 ih2
      exact ⟨ih1, h2, ih2⟩

/-- **The cache is the textbook bounded LRU map**: for every capacity and every sequence of
store / delete / lookup operations, every result returned by the (F17-repaired) code equals
the result of the specification, and the final contents agree — so a lookup returns the
latest value stored under the key unless it was deleted or evicted, and eviction removes the
least recently used entry, because that is what the specification does by definition. -/
theorem C11_refines (d : Nat) (hd : 0 < d) (c : Int) (ops : List Op) :
    let r := run true (init d c) ops
    let sp := LRUMap.run ({ cap := effCap d c, items := [] } : LRUMap.Map ObjId) (ops.map specOp)
    abs r.1 = sp.1 ∧ outsAgree r.2 sp.2 := by
  have h := run_refines (init d c) ops (init_inv d hd c) (by intro e he; simp [init] at he)
  simpa [abs, init, effCap, absItems] using h

/-! #### eviction never harms a session reachable under another key -/

/-- every value stored by the sequence is a fresh object (what the repaired client does:
one independent `SessionState` per `Put`) -/
def FreshPuts : List ObjId → List Op → Prop
  | _, [] => True
  | used, .get _ :: ops => FreshPuts used ops
  | used, .put _ none :: ops => FreshPuts used ops
  | used, .put _ (some o) :: ops => o ∉ used ∧ FreshPuts (o :: used) ops

/-- objects in the cache are pairwise distinct, known to `used`, and none of them is wiped -/
structure Safe (used : List ObjId) (s : State) : Prop where
  liveNodup : (live s).Nodup
  liveUsed  : ∀ o ∈ live s, o ∈ used
  zeroUsed  : ∀ o ∈ s.zeroed, o ∈ used
  unharmed  : ∀ o ∈ live s, o ∉ s.zeroed

theorem live_remove_sub (q : List Entry) (k : Key) :
    ((remove q k).filterMap (·.val)).Sublist (q.filterMap (·.val)) := by
  unfold remove; exact (List.filter_sublist).filterMap _

theorem live_dropLast_sub (q : List Entry) :
    (q.dropLast.filterMap (·.val)).Sublist (q.filterMap (·.val)) :=
  (List.dropLast_sublist q).filterMap _

theorem live_getLast {q : List Entry} {back : Entry} (h : q.getLast? = some back) :
    q.filterMap (·.val) = q.dropLast.filterMap (·.val) ++ (match back.val with | some o => [o] | none => []) := by
  have hq : q = q.dropLast ++ [back] := by
    have hne : q ≠ [] := by intro h0; simp [h0] at h
    have := List.dropLast_concat_getLast hne
    rw [List.getLast?_eq_some_getLast hne] at h
    injection h with h
    rw [← h]; exact this.symm
  conv => lhs; rw [hq]
  rw [List.filterMap_append]
  cases hb : back.val <;> simp [List.filterMap_cons, hb]

theorem safe_sub {used : List ObjId} {s : State} (hs : Safe used s) (q' : List Entry)
    (hsub : (q'.filterMap (·.val)).Sublist (live s)) : Safe used { s with q := q' } := by
  refine ⟨List.Nodup.sublist hsub hs.liveNodup, ?_, hs.zeroUsed, ?_⟩
  · intro o ho; exact hs.liveUsed o (hsub.subset ho)
  · intro o ho; exact hs.unharmed o (hsub.subset ho)

theorem put_safe (b : Bool) (used : List ObjId) (s : State) (k : Key) (v : Option ObjId)
    (hs : Safe used s) (hv : ∀ o, v = some o → o ∉ used) :
    Safe (match v with | some o => o :: used | none => used) (put b s k v) := by
  have weaken : ∀ {s' : State}, Safe used s' → ∀ o, Safe (o :: used) s' := by
    intro s' h o
    exact ⟨h.liveNodup, fun x hx => List.mem_cons_of_mem _ (h.liveUsed x hx),
      fun x hx => List.mem_cons_of_mem _ (h.zeroUsed x hx), h.unharmed⟩
  -- inserting a fresh object in front of a safe sub-state
  have consFresh : ∀ (o : ObjId) (q' : List Entry) (z : List ObjId), o ∉ used →
      (q'.filterMap (·.val)).Nodup → (∀ x ∈ q'.filterMap (·.val), x ∈ used) →
      (∀ x ∈ z, x ∈ used) → (∀ x ∈ q'.filterMap (·.val), x ∉ z) →
      Safe (o :: used) { s with q := ⟨k, some o⟩ :: q', zeroed := z } := by
    intro o q' z ho hnd hlu hzu hun
    refine ⟨?_, ?_, ?_, ?_⟩
    · show (List.filterMap (·.val) (⟨k, some o⟩ :: q')).Nodup
      simp only [List.filterMap_cons, List.nodup_cons]
      exact ⟨fun hm => ho (hlu o hm), hnd⟩
    · intro x hx
      have hx' : x ∈ List.filterMap (·.val) (⟨k, some o⟩ :: q') := hx
      simp only [List.filterMap_cons, List.mem_cons] at hx'
      rcases hx' with rfl | hx'
      · exact List.mem_cons_self
      · exact List.mem_cons_of_mem _ (hlu x hx')
    · intro x hx; exact List.mem_cons_of_mem _ (hzu x hx)
    · intro x hx
      have hx' : x ∈ List.filterMap (·.val) (⟨k, some o⟩ :: q') := hx
      simp only [List.filterMap_cons, List.mem_cons] at hx'
      rcases hx' with rfl | hx'
      · exact fun hz => ho (hzu x hz)
      · exact hun x hx'
  unfold put
  by_cases hk : hasKey s.q k = true
  · simp only [hk, if_true]
    cases v with
    | none => exact safe_sub hs _ (live_remove_sub s.q k)
    | some o =>
      have ho := hv o rfl
      have hsub := live_remove_sub s.q k
      exact consFresh o _ s.zeroed ho (List.Nodup.sublist hsub hs.liveNodup)
        (fun x hx => hs.liveUsed x (hsub.subset hx)) hs.zeroUsed
        (fun x hx => hs.unharmed x (hsub.subset hx))
  · have hk' : hasKey s.q k = false := by simpa using hk
    simp only [hk', Bool.false_eq_true, if_false]
    by_cases hb : (b && v.isNone) = true
    · simp only [hb, if_true]
      cases v with
      | none => exact hs
      | some o => simp at hb
    · simp only [hb, if_false]
      by_cases hl : s.q.length < s.cap
      · simp only [hl, if_true]
        cases v with
        | none =>
          refine ⟨?_, ?_, hs.zeroUsed, ?_⟩
          · show (List.filterMap (·.val) (⟨k, none⟩ :: s.q)).Nodup
            simp only [List.filterMap_cons]; exact hs.liveNodup
          · intro x hx
            have hx' : x ∈ List.filterMap (·.val) (⟨k, none⟩ :: s.q) := hx
            simp only [List.filterMap_cons] at hx'; exact hs.liveUsed x hx'
          · intro x hx
            have hx' : x ∈ List.filterMap (·.val) (⟨k, none⟩ :: s.q) := hx
            simp only [List.filterMap_cons] at hx'; exact hs.unharmed x hx'
        | some o =>
          exact consFresh o s.q s.zeroed (hv o rfl) hs.liveNodup hs.liveUsed hs.zeroUsed hs.unharmed
      · simp only [hl, if_false]
        cases hlast : s.q.getLast? with
        | none =>
          have hq : s.q = [] := by simpa using hlast
          cases v with
          | none =>
            refine ⟨by simp [live], by simp [live], hs.zeroUsed, by simp [live]⟩
          | some o =>
            exact consFresh o [] s.zeroed (hv o rfl) (by simp) (by simp) hs.zeroUsed (by simp)
        | some back =>
          have hsplit := live_getLast hlast
          have hsub := live_dropLast_sub s.q
          -- the evicted object is not among the remaining ones
          have hnd : (s.q.filterMap (·.val)).Nodup := hs.liveNodup
          rw [hsplit] at hnd
          have hzu : ∀ x ∈ (match back.val with | some o => o :: s.zeroed | none => s.zeroed), x ∈ used := by
            intro x hx
            cases hbv : back.val with
            | none => rw [hbv] at hx; exact hs.zeroUsed x hx
            | some ob =>
              rw [hbv] at hx
              rcases List.mem_cons.mp hx with rfl | hx
              · apply hs.liveUsed
                show x ∈ s.q.filterMap (·.val)
                rw [hsplit, hbv]; simp
              · exact hs.zeroUsed x hx
          have hun : ∀ x ∈ s.q.dropLast.filterMap (·.val),
              x ∉ (match back.val with | some o => o :: s.zeroed | none => s.zeroed) := by
            intro x hx
            have hx0 := hs.unharmed x (hsub.subset hx)
            cases hbv : back.val with
            | none => exact hx0
            | some ob =>
              rw [hbv] at hnd
              intro hz
              rcases List.mem_cons.mp hz with rfl | hz
              · have := (List.nodup_append.mp hnd).2.2 x hx x (by simp)
                exact this rfl
              · exact hx0 hz
          cases v with
          | none =>
            refine ⟨?_, ?_, hzu, ?_⟩
            · show (List.filterMap (·.val) (⟨k, none⟩ :: s.q.dropLast)).Nodup
              simp only [List.filterMap_cons]
              exact List.Nodup.sublist hsub hs.liveNodup
            · intro x hx
              have hx' : x ∈ List.filterMap (·.val) (⟨k, none⟩ :: s.q.dropLast) := hx
              simp only [List.filterMap_cons] at hx'
              exact hs.liveUsed x (hsub.subset hx')
            · intro x hx
              have hx' : x ∈ List.filterMap (·.val) (⟨k, none⟩ :: s.q.dropLast) := hx
              simp only [List.filterMap_cons] at hx'
              exact hun x hx'
          | some o =>
            exact consFresh o _ _ (hv o rfl) (List.Nodup.sublist hsub hs.liveNodup)
              (fun x hx => hs.liveUsed x (hsub.subset hx)) hzu hun

theorem mem_live_of_mem {q : List Entry} {e : Entry} {o : ObjId} (he : e ∈ q) (hv : e.val = some o) :
    o ∈ q.filterMap (·.val) :=
  List.mem_filterMap.mpr ⟨e, he, hv⟩

theorem not_mem_live_remove {k : Key} {e : Entry} {o : ObjId} :
    ∀ (q : List Entry), (q.filterMap (·.val)).Nodup → e ∈ q → e.key = k → e.val = some o →
      o ∉ (remove q k).filterMap (·.val) := by
  intro q
  induction q with
  | nil => intro _ he; simp at he
  | cons x q ih =>
    intro hnd he hek hev
    have hsub := live_remove_sub q k
    rcases List.mem_cons.mp he with rfl | he'
    · -- the head is the entry: it is filtered out, and `o` is not in the tail
      have hrm : remove (e :: q) k = remove q k := by
        unfold remove; simp [List.filter_cons, hek]
      rw [hrm]
      simp only [List.filterMap_cons, hev, List.nodup_cons] at hnd
      exact fun hm => hnd.1 (hsub.subset hm)
    · have hoq : o ∈ q.filterMap (·.val) := mem_live_of_mem he' hev
      cases hxv : x.val with
      | none =>
        simp only [List.filterMap_cons, hxv] at hnd
        have := ih hnd he' hek hev
        unfold remove at this ⊢
        by_cases hxk : x.key = k
        · simpa [List.filter_cons, hxk] using this
        · simpa [List.filter_cons, hxk, List.filterMap_cons, hxv] using this
      | some ox =>
        simp only [List.filterMap_cons, hxv, List.nodup_cons] at hnd
        have := ih hnd.2 he' hek hev
        unfold remove at this ⊢
        by_cases hxk : x.key = k
        · simpa [List.filter_cons, hxk] using this
        · simp only [List.filter_cons, bne_iff_ne, ne_eq, hxk, not_false_eq_true, decide_true,
            if_true, List.filterMap_cons, hxv, List.mem_cons, not_or]
          refine ⟨?_, by simpa using this⟩
          rintro rfl
          exact hnd.1 hoq

theorem get_safe (used : List ObjId) (s : State) (k : Key) (hs : Safe used s) :
    Safe used (Model.LRU.get s k).1 := by
  unfold Model.LRU.get
  by_cases hk : (k == "") = true
  · simp only [hk, if_true]; cases s.q.head? <;> exact hs
  · simp only [hk, Bool.false_eq_true, if_false]
    cases hf : findVal s.q k with
    | none => exact hs
    | some v =>
      have hsub := live_remove_sub s.q k
      unfold findVal at hf
      obtain ⟨e, he, rfl⟩ := Option.map_eq_some_iff.mp hf
      have hek : e.key = k := by simpa using List.find?_some he
      have hmem := List.mem_of_find?_eq_some he
      cases hv : e.val with
      | none =>
        refine ⟨?_, ?_, hs.zeroUsed, ?_⟩
        · show (List.filterMap (·.val) (⟨k, none⟩ :: remove s.q k)).Nodup
          simp only [List.filterMap_cons]; exact List.Nodup.sublist hsub hs.liveNodup
        · intro x hx
          have hx' : x ∈ List.filterMap (·.val) (⟨k, none⟩ :: remove s.q k) := hx
          simp only [List.filterMap_cons] at hx'; exact hs.liveUsed x (hsub.subset hx')
        · intro x hx
          have hx' : x ∈ List.filterMap (·.val) (⟨k, none⟩ :: remove s.q k) := hx
          simp only [List.filterMap_cons] at hx'; exact hs.unharmed x (hsub.subset hx')
      | some o =>
        have hol : o ∈ live s := mem_live_of_mem hmem hv
        have hfresh := not_mem_live_remove s.q hs.liveNodup hmem hek hv
        refine ⟨?_, ?_, hs.zeroUsed, ?_⟩
        · show (List.filterMap (·.val) (⟨k, some o⟩ :: remove s.q k)).Nodup
          simp only [List.filterMap_cons, List.nodup_cons]
          exact ⟨hfresh, List.Nodup.sublist hsub hs.liveNodup⟩
        · intro x hx
          have hx' : x ∈ List.filterMap (·.val) (⟨k, some o⟩ :: remove s.q k) := hx
          simp only [List.filterMap_cons, List.mem_cons] at hx'
          rcases hx' with rfl | hx'
          · exact hs.liveUsed x hol
          · exact hs.liveUsed x (hsub.subset hx')
        · intro x hx
          have hx' : x ∈ List.filterMap (·.val) (⟨k, some o⟩ :: remove s.q k) := hx
          simp only [List.filterMap_cons, List.mem_cons] at hx'
          rcases hx' with rfl | hx'
          · exact hs.unharmed x hol
          · exact hs.unharmed x (hsub.subset hx')

theorem run_safe (b : Bool) (used : List ObjId) (s : State) (ops : List Op)
    (hs : Safe used s) (hf : FreshPuts used ops) :
    ∃ used', Safe used' (run b s ops).1 := by
  induction ops generalizing s used with
  | nil => exact ⟨used, hs⟩
  | cons op ops ih =>
    simp only [run]
    cases op with
    | get k => exact ih used _ (get_safe used s k hs) hf
    | put k v =>
      cases v with
      | none =>
        have := put_safe b used s k none hs (by intro o h; cases h)
        exact ih used _ this hf
      | some o =>
        obtain ⟨ho, hf'⟩ := hf
        have := put_safe b used s k (some o) hs (by intro o' h; cases h; exact ho)
        exact ih (o :: used) _ this hf'

/-- **Eviction and deletion never harm a live session.**  For every capacity and every
operation sequence in which each stored session is an object of its own (what the client
does after the F5 repair), no session reachable through the cache — under any key — ever has
its master secret wiped: the only object an operation wipes is the one held by the entry it
evicts, and that object is reachable under no other key. Holds before and after the F17
repair (`b` arbitrary). -/
theorem C11_live_unharmed (b : Bool) (d : Nat) (c : Int) (ops : List Op) (hf : FreshPuts [] ops) :
    ∀ o ∈ live (run b (init d c) ops).1, o ∉ (run b (init d c) ops).1.zeroed := by
  have h0 : Safe [] (init d c) := ⟨by simp [live, init], by simp [live, init], by simp [init], by simp [live, init]⟩
  obtain ⟨_, h⟩ := run_safe b [] (init d c) ops h0 hf
  exact h.unharmed

/-- The only object an operation can wipe is the one held by the least recently used entry
at the moment of an eviction (one-step frame condition used by `C11_live_unharmed`). -/
theorem C11_zero_only_evicted (b : Bool) (s : State) (op : Op) (o : ObjId)
    (h : o ∈ (step b s op).1.zeroed) :
    o ∈ s.zeroed ∨ (∃ back, s.q.getLast? = some back ∧ back.val = some o ∧ s.cap ≤ s.q.length) := by
  cases op with
  | get k =>
    simp only [step, Model.LRU.get] at h
    split at h
    · split at h <;> exact Or.inl h
    · split at h <;> exact Or.inl h
  | put k v =>
    simp only [step, put] at h
    split at h
    · split at h <;> exact Or.inl h
    · split at h
      · exact Or.inl h
      · split at h
        · exact Or.inl h
        · rename_i hlen
          split at h
          · exact Or.inl h
          · rename_i back hb
            cases hv : back.val with
            | none => simp only [hv] at h; exact Or.inl h
            | some ob =>
              simp only [hv, List.mem_cons] at h
              rcases h with rfl | h
              · exact Or.inr ⟨back, hb, hv, by omega⟩
              · exact Or.inl h

/-! #### every field: eviction never changes a live session or a session in use -/

/-- **Eviction and deletion never change ANY field of a live session or of a session in use.**
`alloc` is the heap the history works on: for every object — stored sessions, the private copy
a handshake works on, the state of an open connection — the backing arrays its reference
fields point at, with whatever sharing the program created (`SessionState.clone()` shares the
session identifier and the peer certificates with its original, a connection shares the peer
certificates of the session it was created from / resumed). `E` is what the eviction path
does through the evicted pointer (fields overwritten in place, fields set to nil), `deep` the
fields whose storage is never shared (the fields `clone()` re-allocates). If every field the
eviction overwrites in place is such a field (`hsub`), then for every capacity and every
operation sequence that stores each session object once:
  * every reference of every session still reachable through the cache — under any key — is
    unchanged, and
  * every reference of every object that was never handed to the cache — a connection state, the
    copy a running handshake uses — is unchanged,
whatever was evicted in between. The hypotheses are facts of this tree (`C11_facts`:
`lruEvictInPlace ⊆ lruCloneDeep`) or checked on real handshake histories (`DeepUnshared`,
one object per `Put`). -/
theorem C11_live_intact (E : Evict) (deep : List Field) (hsub : ∀ f ∈ E.inPlace, f ∈ deep)
    (alloc : List Ref) (hd : DeepUnshared deep alloc)
    (b : Bool) (d : Nat) (c : Int) (ops : List Op) (hf : FreshPuts [] ops) :
    let s := (run b (init d c) ops).1
    (∀ r ∈ alloc, r.obj ∈ live s → status E alloc s.zeroed r = .ok) ∧
    (∀ r ∈ alloc, r.obj ∉ putObjs ops → status E alloc s.zeroed r = .ok) := by
  intro s
  constructor
  · intro r hr hl
    exact status_ok_of_not_evicted E deep hsub alloc hd _ r hr (C11_live_unharmed b d c ops hf r.obj hl)
  · intro r hr hnp
    refine status_ok_of_not_evicted E deep hsub alloc hd _ r hr ?_
    intro hz
    rcases run_reach b (init d c) ops r.obj (Or.inr hz) with h | h | h
    · simp [live, init] at h
    · simp [init] at h
    · exact hnp h

/-- Frame condition of the heap: when more objects become evicted, a reference changes only if
it belongs to a newly evicted object, or points — in a field the eviction overwrites in place —
at the very backing array a newly evicted object points at. -/
theorem C11_change_frame (E : Evict) (alloc : List Ref) (before after : List ObjId)
    (hmono : ∀ o ∈ before, o ∈ after) (r : Ref)
    (hne : status E alloc before r ≠ status E alloc after r) :
    ∃ o, o ∈ after ∧ o ∉ before ∧
      (r.obj = o ∨ (r.field ∈ E.inPlace ∧ ∃ r' ∈ alloc, r'.obj = o ∧ r'.field = r.field ∧ r'.buf = r.buf)) := by
  by_cases hA : after.contains r.obj = before.contains r.obj
  · by_cases hB : bufCleared E alloc after r.field r.buf = bufCleared E alloc before r.field r.buf
    · exfalso; apply hne; unfold status; rw [hA, hB]
    · -- the backing array became overwritten
      cases hb : bufCleared E alloc before r.field r.buf with
      | true =>
        exfalso; apply hB; rw [hb]
        unfold bufCleared at hb ⊢
        simp only [Bool.and_eq_true, List.any_eq_true, beq_iff_eq] at hb ⊢
        obtain ⟨hin, r', hr', hfb, hev⟩ := hb
        exact ⟨hin, r', hr', hfb, List.contains_iff_mem.mpr (hmono _ (List.contains_iff_mem.mp hev))⟩
      | false =>
        cases ha : bufCleared E alloc after r.field r.buf with
        | false => exfalso; apply hB; rw [ha, hb]
        | true =>
          unfold bufCleared at ha
          simp only [Bool.and_eq_true, List.any_eq_true, beq_iff_eq] at ha
          obtain ⟨hin, r', hr', ⟨hbuf, hf⟩, hev⟩ := ha
          refine ⟨r'.obj, List.contains_iff_mem.mp hev, ?_, Or.inr ⟨List.contains_iff_mem.mp hin, r', hr', rfl, hf, hbuf⟩⟩
          intro hbef
          have : bufCleared E alloc before r.field r.buf = true := by
            unfold bufCleared
            simp only [Bool.and_eq_true, List.any_eq_true, beq_iff_eq]
            exact ⟨hin, r', hr', ⟨hbuf, hf⟩, List.contains_iff_mem.mpr hbef⟩
          rw [hb] at this; cases this
  · cases hb : before.contains r.obj with
    | true =>
      exfalso; apply hA; rw [hb]
      exact List.contains_iff_mem.mpr (hmono _ (List.contains_iff_mem.mp hb))
    | false =>
      cases ha : after.contains r.obj with
      | false => exfalso; apply hA; rw [ha, hb]
      | true =>
        refine ⟨r.obj, List.contains_iff_mem.mp ha, ?_, Or.inl rfl⟩
        intro hm
        have := List.contains_iff_mem.mpr hm
        rw [hb] at this; cases this

/-! #### concurrent use is equivalent to a sequential order -/

/-- **Linearizability.** For any number of goroutines, any programs and ANY schedule: the
cache contents equal those of the *sequential* run of the completed calls taken in the order
in which they acquired the mutex; every goroutine received exactly the results that
sequential run gives to its calls; and each goroutine's completed calls are a prefix of its
program in program order (so the sequential order respects every thread's own order).
The content that ties this to the source is `C11_facts`: `Put` and `Get` hold the cache
mutex for their whole body (first statements `c.Lock(); defer c.Unlock()`), which is what
the two-action model of a call in `Model/LRUConc.lean` encodes. -/
theorem C11_linearizable (b : Bool) (s0 : State) (p0 : Nat → List Op) (sched : List Nat) :
    let c := Model.LRUConc.exec b (Model.LRUConc.start s0 p0) sched
    let seq := run b s0 (c.done.map (·.2))
    c.cache = seq.1 ∧
    (∀ t, c.outs t = Model.LRUConc.outsOf t c.done seq.2) ∧
    (∀ t, Model.LRUConc.opsOf t c.done ++ c.progs t = p0 t) := by
  have h := Lemmas.LRUConc.inv_exec b s0 p0 _ sched (Lemmas.LRUConc.inv_start b s0 p0)
  exact ⟨h.cacheEq, h.outsEq, h.progEq⟩

/-- two goroutines, one schedule: both calls complete and thread 1's lookup sees thread 0's store -/
example :
    let p0 : Nat → List Op := fun t => if t = 0 then [.put "a" (some 1)] else if t = 1 then [.get "a"] else []
    let c := Model.LRUConc.exec true (Model.LRUConc.start (init 64 2) p0) [0, 1, 0, 1, 1]
    c.done = [(0, .put "a" (some 1)), (1, .get "a")] ∧ c.outs 1 = [.got (some 1) true] := by decide

/-! #### the tie to the source: regenerated facts -/

/-- The facts the theorems above are stated over, as extracted from this tree: both stacks
construct the cache with floor 1 and default 64, hold the mutex for the whole body of `Put`
and `Get` (so concurrent use is equivalent to the sequential order of lock acquisition —
`C11_linearizable`), and `Put(k, nil)` for an absent key returns without inserting. -/
theorem C11_facts :
    Facts.tlcp.lruDefaultCap = 64 ∧ Facts.dtlcp.lruDefaultCap = 64 ∧
    Facts.tlcp.lruCapFloorIsOne = true ∧ Facts.dtlcp.lruCapFloorIsOne = true ∧
    Facts.tlcp.lruPutLocked = true ∧ Facts.tlcp.lruGetLocked = true ∧
    Facts.dtlcp.lruPutLocked = true ∧ Facts.dtlcp.lruGetLocked = true ∧
    Facts.tlcp.lruPutNilAbsentReturns = true ∧ Facts.dtlcp.lruPutNilAbsentReturns = true ∧
    Facts.missing = [] := by
  decide

/-- the eviction path of this tree, as extracted -/
def evictTlcp : Evict := ⟨Facts.tlcp.lruEvictInPlace, Facts.tlcp.lruEvictDropped⟩
def evictDtlcp : Evict := ⟨Facts.dtlcp.lruEvictInPlace, Facts.dtlcp.lruEvictDropped⟩

/-- The heap facts of this tree (both stacks): `SessionState` has exactly three reference
fields; `clone()` is a struct copy that re-allocates the master secret; the eviction path of
`Put` overwrites in place and drops the master secret and nothing else, does nothing opaque
with the evicted session, and neither `Put` nor `Get` touches a session anywhere else — so
every field the cache overwrites in place is a field `clone()` gives storage of its own
(the hypothesis `hsub` of `C11_live_intact`). -/
theorem C11_facts_heap :
    Facts.tlcp.lruSessionRefFields = ["sessionId", "masterSecret", "peerCertificates"] ∧
    Facts.dtlcp.lruSessionRefFields = ["sessionId", "masterSecret", "peerCertificates"] ∧
    Facts.tlcp.lruCloneShallowFirst = true ∧ Facts.dtlcp.lruCloneShallowFirst = true ∧
    Facts.tlcp.lruCloneDeep = ["masterSecret"] ∧ Facts.dtlcp.lruCloneDeep = ["masterSecret"] ∧
    Facts.tlcp.lruEvictInPlace = ["masterSecret"] ∧ Facts.dtlcp.lruEvictInPlace = ["masterSecret"] ∧
    Facts.tlcp.lruEvictDropped = ["masterSecret"] ∧ Facts.dtlcp.lruEvictDropped = ["masterSecret"] ∧
    Facts.tlcp.lruEvictOpaque = false ∧ Facts.dtlcp.lruEvictOpaque = false ∧
    Facts.tlcp.lruTouchesElsewhere = false ∧ Facts.dtlcp.lruTouchesElsewhere = false := by
  decide

/-- every field the eviction of this tree overwrites in place is re-allocated by `clone()` -/
theorem C11_facts_inplace_sub_deep :
    (∀ f ∈ evictTlcp.inPlace, f ∈ Facts.tlcp.lruCloneDeep) ∧
    (∀ f ∈ evictDtlcp.inPlace, f ∈ Facts.dtlcp.lruCloneDeep) := by
  decide

/-- `C11_refines`, `C11_size` and `C11_live_unharmed` restated for the model instantiated with
the facts extracted from THIS tree (both stacks): the statement the correspondence check ties
to the running code (`oracle_c11` runs exactly `run Facts.*.lruPutNilAbsentReturns (init
Facts.*.lruDefaultCap c)`). -/
theorem C11_code (c : Int) (ops : List Op) :
    (let r := run Facts.tlcp.lruPutNilAbsentReturns (init Facts.tlcp.lruDefaultCap c) ops
     let sp := LRUMap.run ({ cap := effCap 64 c, items := [] } : LRUMap.Map ObjId) (ops.map specOp)
     abs r.1 = sp.1 ∧ outsAgree r.2 sp.2 ∧ r.1.q.length ≤ effCap 64 c ∧
       (FreshPuts [] ops → ∀ o ∈ live r.1, o ∉ r.1.zeroed)) ∧
    (let r := run Facts.dtlcp.lruPutNilAbsentReturns (init Facts.dtlcp.lruDefaultCap c) ops
     let sp := LRUMap.run ({ cap := effCap 64 c, items := [] } : LRUMap.Map ObjId) (ops.map specOp)
     abs r.1 = sp.1 ∧ outsAgree r.2 sp.2 ∧ r.1.q.length ≤ effCap 64 c ∧
       (FreshPuts [] ops → ∀ o ∈ live r.1, o ∉ r.1.zeroed)) := by
  have f1 : Facts.tlcp.lruPutNilAbsentReturns = true := by decide
  have f2 : Facts.dtlcp.lruPutNilAbsentReturns = true := by decide
  have f3 : Facts.tlcp.lruDefaultCap = 64 := by decide
  have f4 : Facts.dtlcp.lruDefaultCap = 64 := by decide
  rw [f1, f2, f3, f4]
  have hr := C11_refines 64 (by decide) c ops
  have hs := C11_size true 64 (by decide) c ops
  have hl := C11_live_unharmed true 64 c ops
  exact ⟨⟨hr.1, hr.2, hs, hl⟩, ⟨hr.1, hr.2, hs, hl⟩⟩

/-- `C11_live_intact` for the eviction path and the `clone()` extracted from THIS tree (both
stacks): on any heap in which master-secret storage is not shared, any history that stores each
session object once leaves every field of every reachable session, and of every object never
handed to the cache (connection states, a handshake's private copy), unchanged. This is the
statement `oracle_c11` ties to the running code: it predicts the observed field changes with
exactly `status evict* alloc zeroed`. -/
theorem C11_code_heap (alloc : List Ref) (c : Int) (ops : List Op) (hf : FreshPuts [] ops) :
    (DeepUnshared Facts.tlcp.lruCloneDeep alloc →
      let s := (run Facts.tlcp.lruPutNilAbsentReturns (init Facts.tlcp.lruDefaultCap c) ops).1
      ∀ r ∈ alloc, (r.obj ∈ live s ∨ r.obj ∉ putObjs ops) → status evictTlcp alloc s.zeroed r = .ok) ∧
    (DeepUnshared Facts.dtlcp.lruCloneDeep alloc →
      let s := (run Facts.dtlcp.lruPutNilAbsentReturns (init Facts.dtlcp.lruDefaultCap c) ops).1
      ∀ r ∈ alloc, (r.obj ∈ live s ∨ r.obj ∉ putObjs ops) → status evictDtlcp alloc s.zeroed r = .ok) := by
  constructor
  · intro hd s r hr h
    have := C11_live_intact evictTlcp _ C11_facts_inplace_sub_deep.1 alloc hd
      Facts.tlcp.lruPutNilAbsentReturns Facts.tlcp.lruDefaultCap c ops hf
    rcases h with h | h
    · exact this.1 r hr h
    · exact this.2 r hr h
  · intro hd s r hr h
    have := C11_live_intact evictDtlcp _ C11_facts_inplace_sub_deep.2 alloc hd
      Facts.dtlcp.lruPutNilAbsentReturns Facts.dtlcp.lruDefaultCap c ops hf
    rcases h with h | h
    · exact this.1 r hr h
    · exact this.2 r hr h

/-! #### non-vacuity -/

/-- the heap one real full handshake creates (observed, phase conn): session 1 under the
session-id key, its `clone()` 2 under the destination key (own master secret, shared identifier
and certificates), connection 1000 sharing the certificates -/
def heapOfOneHandshake : List Ref :=
  [⟨1, "sessionId", 1⟩, ⟨1, "masterSecret", 1⟩, ⟨1, "peerCertificates", 1⟩,
   ⟨2, "sessionId", 1⟩, ⟨2, "masterSecret", 2⟩, ⟨2, "peerCertificates", 1⟩,
   ⟨1000, "peerCertificates", 1⟩]

example : DeepUnshared ["masterSecret"] heapOfOneHandshake :=
  (deepUnshared_iff _ _).mp (by decide)

/-- capacity 1, this tree's eviction: storing the clone evicts session 1, whose master secret is
dropped; session 2 (reachable) and connection 1000 (in use) keep every field -/
example :
    let s := (run true (init 64 1) [.put "sid" (some 1), .put "dst" (some 2)]).1
    s.zeroed = [1] ∧ live s = [2] ∧
    heapOfOneHandshake.map (status ⟨["masterSecret"], ["masterSecret"]⟩ heapOfOneHandshake s.zeroed)
      = [.ok, .dropped, .ok, .ok, .ok, .ok, .ok] := by decide

/-- why `hsub` is needed (the shape of seeded defect C11-f): an eviction path that also clears
the peer certificates in place — a field `clone()` shares — leaves the reachable session 2 and
the open connection 1000 with cleared certificates. -/
example :
    let s := (run true (init 64 1) [.put "sid" (some 1), .put "dst" (some 2)]).1
    let E : Evict := ⟨["masterSecret", "peerCertificates"], ["masterSecret", "peerCertificates"]⟩
    2 ∈ live s ∧ status E heapOfOneHandshake s.zeroed ⟨2, "peerCertificates", 1⟩ = .cleared ∧
    1000 ∉ putObjs [.put "sid" (some 1), .put "dst" (some 2)] ∧
    status E heapOfOneHandshake s.zeroed ⟨1000, "peerCertificates", 1⟩ = .cleared := by decide

/-- why `DeepUnshared` is needed (the shape of seeded defect C11-a): a `clone()` that shares the
master secret's storage has its master secret overwritten when the original is evicted. -/
example :
    let s := (run true (init 64 1) [.put "sid" (some 1), .put "dst" (some 2)]).1
    let alloc : List Ref := [⟨1, "masterSecret", 1⟩, ⟨2, "masterSecret", 1⟩]
    2 ∈ live s ∧ status ⟨["masterSecret"], ["masterSecret"]⟩ alloc s.zeroed ⟨2, "masterSecret", 1⟩ = .cleared := by
  decide

example : FreshPuts [] [.put "a" (some 1), .put "b" (some 2), .get "a", .put "c" (some 3), .put "a" none] := by
  simp [FreshPuts]

example : (run true (init 64 2) [.put "a" (some 1), .put "b" (some 2), .get "a", .put "c" (some 3), .get "b"]).2
    = [.unit, .unit, .got (some 1) true, .unit, .got none false] := by decide

/-- F5 witness (why `FreshPuts` is needed): one object under two keys at capacity 1 is wiped
while still reachable. This is what the client did before the repair. -/
example : let s := (run true (init 64 1) [.put "sid" (some 7), .put "dst" (some 7)]).1
    7 ∈ live s ∧ 7 ∈ s.zeroed := by decide

/-- F17 witness: before the repair (`b = false`) deleting an absent key evicts a live entry
and answers `(nil, true)` afterwards. -/
example : (run false (init 64 2) [.put "a" (some 1), .put "b" (some 2), .put "zz" none, .get "a", .get "zz"]).2
    = [.unit, .unit, .unit, .got none false, .got none true] := by decide

end Gotlcp.Props.C11

/-
C08 — each endpoint accepts exactly the message orders the standard allows.

Property theorems only (helpers: `Gotlcp.Lemmas.Flow`).  The model is GENERATED: the acceptor
`Model.Flow.accepts` interprets the control skeletons `Facts.<stack>.flows` and the
`readRecordOrCCS` decision table `Facts.<stack>.recordTable`, both re-extracted from the Go
source on every run; the spec `Spec.StandardFlow` lists the legal flows from the standard.

The main theorems are LANGUAGE EQUALITIES for ALL words over the alphabet (no length bound):
the kernel checks a bisimulation between the two acceptors on their (finitely many) control
states (`bisimCertificate … = true` by `decide`), and `Lemmas.Flow.accepts_eq_of_bisim` turns it
into equality of the accepted languages by induction on the word, carrying the counter of
ignorable records along generically.  A skeleton in which an assertion is switched
mandatory ↔ optional, a state is dropped or duplicated, the ChangeCipherSpec rule is relaxed …
makes `bisimCertificate` evaluate to `false`, and the theorem stops compiling.
-/
import Gotlcp.Lemmas.Flow
import Gotlcp.Generated.Facts

namespace Gotlcp.Props.C08
open Gotlcp.Flow
open Gotlcp.Model.Flow
open Gotlcp.Lemmas.Flow
open Gotlcp.Spec.StandardFlow

/-! ### the endpoints of this tree -/

def tlcpSk : Skeleton where
  flows := Facts.tlcp.flows
  table := Facts.tlcp.recordTable
  pre := Facts.tlcp.recordPre
  retryIncrementsFirst := Facts.tlcp.retryIncrementsFirst
  retryLimitCond := Facts.tlcp.retryLimitCond
  ecdheNeedsSkx := Facts.tlcp.ecdheClientCkxNeedsSkx
  maxUseless := Facts.tlcp.maxUselessRecords

def clientRoot : String := "client:Conn.clientHandshake"
def serverRoot : String := "server:Conn.serverHandshake"

/-- what is fixed before the first message: (resume?, ECDHE suite?) for a client -/
def clientCfg (resume ecdhe : Bool) : Cfg :=
  { resume := resume, certRequested := false, emptyOK := false, ecdhe := ecdhe }

/-- (resume?, CertificateRequest sent?, empty certificate list acceptable?) for a server -/
def serverCfg (resume requested emptyOK : Bool) : Cfg :=
  { resume := resume, certRequested := requested, emptyOK := emptyOK, ecdhe := false }

/-! ### from a checked bisimulation to language equality -/

/-- the finite certificate the kernel evaluates: same tolerance, and the pairs reachable from
the two initial states form a bisimulation -/
def bisimCertificate (s : Skeleton) (root : String) (cfg : Cfg) (F : Flows) : Bool :=
  s.maxUseless == maxIgnorable &&
  match start cfg (progOf s root) with
  | none => false
  | some q0 => bisimFrom (auto cfg (progOf s root)) specAuto q0 F

theorem lang_eq_of_certificate (s : Skeleton) (root : String) (cfg : Cfg) (F : Flows)
    (h : bisimCertificate s root cfg F = true) (w : List Kind) :
    accepts s root cfg w = inLang F w := by
  unfold bisimCertificate at h
  simp only [Bool.and_eq_true, beq_iff_eq] at h
  obtain ⟨hmax, h2⟩ := h
  unfold accepts
  cases hs : start cfg (progOf s root) with
  | none => simp [hs] at h2
  | some q0 =>
    simp only [hs] at h2
    simp only
    rw [← specAuto_correct F w, hmax]
    exact accepts_eq_of_bisimFrom _ _ q0 F h2 maxIgnorable w

/-! ### C08: the four languages, TLCP -/

set_option maxRecDepth 200000

/-- every scenario of one stack: (entry function, configuration, standard language) -/
def tlcpScenarios : List (String × Cfg × Flows) :=
  [(clientRoot, clientCfg false false, clientFull ⟨false⟩), (clientRoot, clientCfg false true, clientFull ⟨true⟩),
   (clientRoot, clientCfg true false, clientResumed), (clientRoot, clientCfg true true, clientResumed),
   (serverRoot, serverCfg false false false, serverFull ⟨false, false⟩),
   (serverRoot, serverCfg false false true, serverFull ⟨false, true⟩),
   (serverRoot, serverCfg false true false, serverFull ⟨true, false⟩),
   (serverRoot, serverCfg false true true, serverFull ⟨true, true⟩),
   (serverRoot, serverCfg true false false, serverResumed), (serverRoot, serverCfg true false true, serverResumed),
   (serverRoot, serverCfg true true false, serverResumed), (serverRoot, serverCfg true true true, serverResumed)]

/-- the kernel evaluates the bisimulation check of all twelve scenarios (one evaluation, so
that the skeleton is compiled once) -/
theorem tlcp_bisimulations :
    tlcpScenarios.all (fun c => bisimCertificate tlcpSk c.1 c.2.1 c.2.2) = true := by decide +kernel

theorem iff_of_bool_eq {a b : Bool} (h : a = b) : a = true ↔ b = true := by rw [h]

/-- language equality for the `i`-th scenario -/
theorem tlcp_at (i : Nat) (h : i < tlcpScenarios.length) (w : List Kind) :
    accepts tlcpSk (tlcpScenarios[i]).1 (tlcpScenarios[i]).2.1 w = inLang (tlcpScenarios[i]).2.2 w :=
  lang_eq_of_certificate tlcpSk _ _ _
    ((List.all_eq_true.mp tlcp_bisimulations) _ (List.getElem_mem h)) w

/-- client, full handshake: ServerHello, Certificate, ServerKeyExchange, [CertificateRequest],
ServerHelloDone, ChangeCipherSpec, Finished — and nothing else (F1 repaired: a flow without
ServerKeyExchange is refused) -/
theorem C08_client_full (ecdhe : Bool) (w : List Kind) :
    accepts tlcpSk clientRoot (clientCfg false ecdhe) w = true ↔ inLang (clientFull ⟨ecdhe⟩) w = true := by
  cases ecdhe
  · exact iff_of_bool_eq (tlcp_at 0 (by decide) w)
  · exact iff_of_bool_eq (tlcp_at 1 (by decide) w)

/-- client, resumed: ServerHello (echo), ChangeCipherSpec, Finished -/
theorem C08_client_resumed (ecdhe : Bool) (w : List Kind) :
    accepts tlcpSk clientRoot (clientCfg true ecdhe) w = true ↔ inLang clientResumed w = true := by
  cases ecdhe
  · exact iff_of_bool_eq (tlcp_at 2 (by decide) w)
  · exact iff_of_bool_eq (tlcp_at 3 (by decide) w)

/-- server, full handshake: ClientHello, Certificate iff requested, ClientKeyExchange,
CertificateVerify iff a certificate was sent, ChangeCipherSpec, Finished -/
theorem C08_server_full (requested emptyOK : Bool) (w : List Kind) :
    accepts tlcpSk serverRoot (serverCfg false requested emptyOK) w = true ↔
      inLang (serverFull ⟨requested, emptyOK⟩) w = true := by
  cases requested <;> cases emptyOK
  · exact iff_of_bool_eq (tlcp_at 4 (by decide) w)
  · exact iff_of_bool_eq (tlcp_at 5 (by decide) w)
  · exact iff_of_bool_eq (tlcp_at 6 (by decide) w)
  · exact iff_of_bool_eq (tlcp_at 7 (by decide) w)

/-- server, resumed: ClientHello, ChangeCipherSpec, Finished -/
theorem C08_server_resumed (requested emptyOK : Bool) (w : List Kind) :
    accepts tlcpSk serverRoot (serverCfg true requested emptyOK) w = true ↔ inLang serverResumed w = true := by
  cases requested <;> cases emptyOK
  · exact iff_of_bool_eq (tlcp_at 8 (by decide) w)
  · exact iff_of_bool_eq (tlcp_at 9 (by decide) w)
  · exact iff_of_bool_eq (tlcp_at 10 (by decide) w)
  · exact iff_of_bool_eq (tlcp_at 11 (by decide) w)

/-! ### C08: the four languages, DTLCP

Same flows behind the cookie exchange, with the datagram allowance of the spec: a duplicate of
the first message of the peer's previous flight (HelloVerifyRequest / ClientHello) is dropped
while the next flight is awaited (`Spec.StandardFlow.dtlcpClient`, `dtlcpServer`). -/

def dtlcpSk : Skeleton where
  flows := Facts.dtlcp.flows
  table := Facts.dtlcp.recordTable
  pre := Facts.dtlcp.recordPre
  retryIncrementsFirst := Facts.dtlcp.retryIncrementsFirst
  retryLimitCond := Facts.dtlcp.retryLimitCond
  ecdheNeedsSkx := Facts.dtlcp.ecdheClientCkxNeedsSkx
  maxUseless := Facts.dtlcp.maxUselessRecords

def bisimCertificateI (s : Skeleton) (root : String) (cfg : Cfg) (F : FlowsI) : Bool :=
  s.maxUseless == maxIgnorable &&
  match start cfg (progOf s root) with
  | none => false
  | some q0 => bisimFrom (auto cfg (progOf s root)) specAutoI q0 F

theorem lang_eq_of_certificateI (s : Skeleton) (root : String) (cfg : Cfg) (F : FlowsI)
    (h : bisimCertificateI s root cfg F = true) (w : List Kind) :
    accepts s root cfg w = inLangI F w := by
  unfold bisimCertificateI at h
  simp only [Bool.and_eq_true, beq_iff_eq] at h
  obtain ⟨hmax, h2⟩ := h
  unfold accepts
  cases hs : start cfg (progOf s root) with
  | none => simp [hs] at h2
  | some q0 =>
    simp only [hs] at h2
    simp only
    rw [← specAutoI_correct F w, hmax]
    exact accepts_eq_of_bisimFrom _ _ q0 F h2 maxIgnorable w

def dtlcpScenarios : List (String × Cfg × FlowsI) :=
  [(clientRoot, clientCfg false false, dtlcpClient (clientFull ⟨false⟩)),
   (clientRoot, clientCfg false true, dtlcpClient (clientFull ⟨true⟩)),
   (clientRoot, clientCfg true false, dtlcpClient clientResumed), (clientRoot, clientCfg true true, dtlcpClient clientResumed),
   (serverRoot, serverCfg false false false, dtlcpServer (serverFull ⟨false, false⟩)),
   (serverRoot, serverCfg false false true, dtlcpServer (serverFull ⟨false, true⟩)),
   (serverRoot, serverCfg false true false, dtlcpServer (serverFull ⟨true, false⟩)),
   (serverRoot, serverCfg false true true, dtlcpServer (serverFull ⟨true, true⟩)),
   (serverRoot, serverCfg true false false, dtlcpServer serverResumed), (serverRoot, serverCfg true false true, dtlcpServer serverResumed),
   (serverRoot, serverCfg true true false, dtlcpServer serverResumed), (serverRoot, serverCfg true true true, dtlcpServer serverResumed)]

theorem dtlcp_bisimulations :
    dtlcpScenarios.all (fun c => bisimCertificateI dtlcpSk c.1 c.2.1 c.2.2) = true := by decide +kernel

theorem dtlcp_at (i : Nat) (h : i < dtlcpScenarios.length) (w : List Kind) :
    accepts dtlcpSk (dtlcpScenarios[i]).1 (dtlcpScenarios[i]).2.1 w = inLangI (dtlcpScenarios[i]).2.2 w :=
  lang_eq_of_certificateI dtlcpSk _ _ _
    ((List.all_eq_true.mp dtlcp_bisimulations) _ (List.getElem_mem h)) w

theorem C08_dtlcp_client_full (ecdhe : Bool) (w : List Kind) :
    accepts dtlcpSk clientRoot (clientCfg false ecdhe) w = true ↔
      inLangI (dtlcpClient (clientFull ⟨ecdhe⟩)) w = true := by
  cases ecdhe
  · exact iff_of_bool_eq (dtlcp_at 0 (by decide) w)
  · exact iff_of_bool_eq (dtlcp_at 1 (by decide) w)

theorem C08_dtlcp_client_resumed (ecdhe : Bool) (w : List Kind) :
    accepts dtlcpSk clientRoot (clientCfg true ecdhe) w = true ↔ inLangI (dtlcpClient clientResumed) w = true := by
  cases ecdhe
  · exact iff_of_bool_eq (dtlcp_at 2 (by decide) w)
  · exact iff_of_bool_eq (dtlcp_at 3 (by decide) w)

theorem C08_dtlcp_server_full (requested emptyOK : Bool) (w : List Kind) :
    accepts dtlcpSk serverRoot (serverCfg false requested emptyOK) w = true ↔
      inLangI (dtlcpServer (serverFull ⟨requested, emptyOK⟩)) w = true := by
  cases requested <;> cases emptyOK
  · exact iff_of_bool_eq (dtlcp_at 4 (by decide) w)
  · exact iff_of_bool_eq (dtlcp_at 5 (by decide) w)
  · exact iff_of_bool_eq (dtlcp_at 6 (by decide) w)
  · exact iff_of_bool_eq (dtlcp_at 7 (by decide) w)

theorem C08_dtlcp_server_resumed (requested emptyOK : Bool) (w : List Kind) :
    accepts dtlcpSk serverRoot (serverCfg true requested emptyOK) w = true ↔
      inLangI (dtlcpServer serverResumed) w = true := by
  cases requested <;> cases emptyOK
  · exact iff_of_bool_eq (dtlcp_at 8 (by decide) w)
  · exact iff_of_bool_eq (dtlcp_at 9 (by decide) w)
  · exact iff_of_bool_eq (dtlcp_at 10 (by decide) w)
  · exact iff_of_bool_eq (dtlcp_at 11 (by decide) w)

/-! ### all scenarios at once, and the corollaries of the property statement -/

/-- role × full/resumed × the options fixed before the first message -/
inductive Scenario
  | clientFull (ecdhe : Bool)
  | clientResumed (ecdhe : Bool)
  | serverFull (requested emptyOK : Bool)
  | serverResumed (requested emptyOK : Bool)

def Scenario.root : Scenario → String
  | .clientFull _ | .clientResumed _ => clientRoot
  | .serverFull _ _ | .serverResumed _ _ => serverRoot

def Scenario.cfg : Scenario → Cfg
  | .clientFull e => clientCfg false e
  | .clientResumed e => clientCfg true e
  | .serverFull r o => serverCfg false r o
  | .serverResumed r o => serverCfg true r o

/-- the standard's language for the scenario -/
def Scenario.lang : Scenario → Flows
  | .clientFull e => Gotlcp.Spec.StandardFlow.clientFull ⟨e⟩
  | .clientResumed _ => Gotlcp.Spec.StandardFlow.clientResumed
  | .serverFull r o => Gotlcp.Spec.StandardFlow.serverFull ⟨r, o⟩
  | .serverResumed _ _ => Gotlcp.Spec.StandardFlow.serverResumed

theorem bool_eq_of_iff {a b : Bool} (h : a = true ↔ b = true) : a = b := by
  cases a <;> cases b <;> simp_all

/-- the accepted language of the TLCP endpoint is the standard's, in every scenario, for every word -/
theorem C08_language (sc : Scenario) (w : List Kind) :
    accepts tlcpSk sc.root sc.cfg w = inLang sc.lang w := by
  cases sc with
  | clientFull e => exact bool_eq_of_iff (C08_client_full e w)
  | clientResumed e => exact bool_eq_of_iff (C08_client_resumed e w)
  | serverFull r o => exact bool_eq_of_iff (C08_server_full r o w)
  | serverResumed r o => exact bool_eq_of_iff (C08_server_resumed r o w)

theorem lang_warnFree (sc : Scenario) : sc.lang.all warnFree = true := by
  cases sc with
  | clientFull e => cases e <;> decide
  | clientResumed e => cases e <;> decide
  | serverFull r o => cases r <;> cases o <;> decide
  | serverResumed r o => cases r <;> cases o <;> decide

theorem lang_noAdjDup (sc : Scenario) : sc.lang.all noAdjDup = true := by
  cases sc with
  | clientFull e => cases e <;> decide
  | clientResumed e => cases e <;> decide
  | serverFull r o => cases r <;> cases o <;> decide
  | serverResumed r o => cases r <;> cases o <;> decide

/-- the one legal omission: the optional CertificateRequest of the ECC client flow -/
theorem lang_noOmission (sc : Scenario) (h : sc ≠ .clientFull false) : noOmission sc.lang = true := by
  cases sc with
  | clientFull e => cases e <;> first | decide | exact absurd rfl h
  | clientResumed e => cases e <;> decide
  | serverFull r o => cases r <;> cases o <;> decide
  | serverResumed r o => cases r <;> cases o <;> decide

/-- repetition: a word in which a message kind occurs twice in a row (warning alerts in between
or not) is never accepted -/
theorem C08_repeat_fails (sc : Scenario) (a m b : List Kind) (k : Kind) (hk : k ≠ .warningAlert)
    (hm : ∀ x ∈ m, x = Kind.warningAlert) :
    accepts tlcpSk sc.root sc.cfg (a ++ [k] ++ m ++ [k] ++ b) = false := by
  rw [C08_language]
  exact inLang_repeat _ (lang_warnFree sc) (lang_noAdjDup sc) a m b k hk hm

/-- foreign message: a kind that occurs in no legal flow of the scenario is fatal wherever it appears -/
theorem C08_foreign_fails (sc : Scenario) (k : Kind) (hk : k ≠ .warningAlert)
    (hforeign : sc.lang.all (fun f => !f.contains k) = true) (w : List Kind) (hw : k ∈ w) :
    accepts tlcpSk sc.root sc.cfg w = false := by
  rw [C08_language]
  exact inLang_foreign _ (lang_warnFree sc) k hk hforeign w hw

/-- omission: dropping any message from an accepted word gives a word that is not accepted (the
only scenario with an optional message, the ECC client's CertificateRequest, is excluded here and
covered by `C08_client_full` itself) -/
theorem C08_omission_fails (sc : Scenario) (hsc : sc ≠ .clientFull false) (a b : List Kind) (k : Kind)
    (hk : k ≠ .warningAlert) (h : accepts tlcpSk sc.root sc.cfg (a ++ [k] ++ b) = true) :
    accepts tlcpSk sc.root sc.cfg (a ++ b) = false := by
  rw [C08_language] at h ⊢
  exact inLang_omission _ (lang_warnFree sc) (lang_noOmission sc hsc) a b k hk h

/-- bounded tolerance: `maxUselessRecords + 1` consecutive warning alerts are fatal, wherever they occur -/
theorem C08_useless_bound (sc : Scenario) (a b : List Kind) :
    accepts tlcpSk sc.root sc.cfg
      (a ++ List.replicate (Facts.tlcp.maxUselessRecords + 1) .warningAlert ++ b) = false := by
  rw [C08_language]
  have : Facts.tlcp.maxUselessRecords = maxIgnorable := by decide
  rw [this]
  exact inLang_long_warn_run _ a b

/-- ChangeCipherSpec never takes effect while handshake bytes sent before it are still unread
(both stacks, whether or not a ChangeCipherSpec is expected): a Finished coalesced into the
record of the message before it, i.e. sent before ChangeCipherSpec and unprotected, cannot be
accepted (F34 repaired in dtlcp; tlcp always had the rule) -/
theorem C08_ccs_needs_empty_hand (expect : Bool) :
    classify (progOf tlcpSk serverRoot).table { recOf .ccs with pending := true } expect ≠ .change ∧
    classify (progOf dtlcpSk serverRoot).table { recOf .ccs with pending := true } expect ≠ .change := by
  cases expect <;> decide +kernel

/-- the facts the theorems above rest on, as extracted from this tree -/
theorem C08_facts :
    Facts.missing = [] ∧
    compiles tlcpSk clientRoot = true ∧ compiles tlcpSk serverRoot = true ∧
    Facts.tlcp.maxUselessRecords = 16 ∧
    Facts.tlcp.retryIncrementsFirst = true ∧ Facts.tlcp.retryLimitCond = "c.retryCount > maxUselessRecords" ∧
    Facts.tlcp.clientResumesOnlyOnEcho = true ∧
    compiles dtlcpSk clientRoot = true ∧ compiles dtlcpSk serverRoot = true ∧
    Facts.dtlcp.maxUselessRecords = 16 ∧
    Facts.dtlcp.retryIncrementsFirst = true ∧ Facts.dtlcp.retryLimitCond = "c.retryCount > maxUselessRecords" ∧
    Facts.dtlcp.clientResumesOnlyOnEcho = true := by
  decide

/-! ### non-vacuity and the finding F1 -/

open Kind in
/-- the legal flows are accepted (with tolerated warning alerts), so the equalities are not about empty languages -/
example : accepts tlcpSk clientRoot (clientCfg false false)
    [serverHello, warningAlert, certificate, serverKeyExchange, certificateRequest, serverHelloDone, ccs, finished] = true := by
  decide

open Kind in
example : accepts tlcpSk serverRoot (serverCfg false true true)
    [clientHello, certificateEmpty, clientKeyExchange, ccs, warningAlert, finished] = true := by decide

open Kind in
/-- 16 warning alerts are tolerated -/
example : accepts tlcpSk clientRoot (clientCfg true false)
    ([serverHello] ++ List.replicate 16 warningAlert ++ [ccs, finished]) = true := by decide

open Kind in
/-- F1, on the repaired tree: the flow without ServerKeyExchange is refused … -/
example : accepts tlcpSk clientRoot (clientCfg false false)
    [serverHello, certificate, serverHelloDone, ccs, finished] = false := by decide

/-- the skeleton of `doFullHandshake` as it was extracted before the repair (ServerKeyExchange optional) -/
def preRepairDoFull : List RawOp :=
  [([], "read", "&hs.finishedHash", ""),
   ([], "must", "certificateMsg", "len(certMsg.certificates) == 0"),
   ([], "read", "&hs.finishedHash", ""),
   ([], "opt", "serverKeyExchangeMsg", ""),
   ([("opt", "serverKeyExchangeMsg")], "call", "keyAgreement.processServerKeyExchange", ""),
   ([("opt", "serverKeyExchangeMsg")], "read", "&hs.finishedHash", ""),
   ([], "opt", "certificateRequestMsg", ""),
   ([("opt", "certificateRequestMsg")], "read", "&hs.finishedHash", ""),
   ([], "must", "serverHelloDoneMsg", ""),
   ([], "call", "keyAgreement.generateClientKeyExchange", ""),
   ([], "return", "ok", "")]

def preRepairSk : Skeleton :=
  { tlcpSk with flows := tlcpSk.flows.map (fun f =>
      if f.1 == "client:clientHandshakeState.doFullHandshake" then (f.1, preRepairDoFull) else f) }

open Kind in
/-- … while the pre-repair skeleton accepts it although it is not in the standard's language:
the negation of C08 (and of C02) on the unchanged tree -/
example : accepts preRepairSk clientRoot (clientCfg false false)
      [serverHello, certificate, serverHelloDone, ccs, finished] = true ∧
    inLang (clientFull ⟨false⟩) [serverHello, certificate, serverHelloDone, ccs, finished] = false := by
  decide

end Gotlcp.Props.C08

/-
C08 — each endpoint accepts exactly the message orders the standard allows.

Property theorems only (helpers: `Gotlcp.Lemmas.Flow`).  The model is GENERATED: the acceptor
`Model.Flow.accepts` interprets the control skeletons `Facts.<stack>.flows` and the
`readRecordOrCCS` decision table `Facts.<stack>.recordTable`, both re-extracted from the Go
source on every run; the spec `Spec.StandardFlow` lists the legal flows from the standard.

The main theorems are LANGUAGE EQUALITIES for ALL words over the alphabet (no length bound):
the kernel checks a bisimulation between the two acceptors on their (finitely many) control
states (`certificate … = true` by `decide`), and `Lemmas.Flow.accepts_eq_of_bisim` turns it
into equality of the accepted languages by induction on the word, carrying the counter of
ignorable records along generically.  A skeleton in which an assertion is switched
mandatory ↔ optional, a state is dropped or duplicated, the ChangeCipherSpec rule is relaxed …
makes `certificate` evaluate to `false`, and the theorem stops compiling.
-/
import Gotlcp.Lemmas.Flow
import Gotlcp.Generated.Facts

namespace Gotlcp.Props.C08
open Gotlcp.Flow
open Gotlcp.Model.Flow
open Gotlcp.Lemmas.Flow
open Gotlcp.Spec.StandardFlow

/-! ### the endpoints of this tree -/

def tlcpSk : Skeleton where
  flows := Facts.tlcp.flows
  table := Facts.tlcp.recordTable
  pre := Facts.tlcp.recordPre
  retryIncrementsFirst := Facts.tlcp.retryIncrementsFirst
  retryLimitCond := Facts.tlcp.retryLimitCond
  ecdheNeedsSkx := Facts.tlcp.ecdheClientCkxNeedsSkx
  maxUseless := Facts.tlcp.maxUselessRecords

def clientRoot : String := "client:Conn.clientHandshake"
def serverRoot : String := "server:Conn.serverHandshake"

/-- what is fixed before the first message: (resume?, ECDHE suite?) for a client -/
def clientCfg (resume ecdhe : Bool) : Cfg :=
  { resume := resume, certRequested := false, emptyOK := false, ecdhe := ecdhe }

/-- (resume?, CertificateRequest sent?, empty certificate list acceptable?) for a server -/
def serverCfg (resume requested emptyOK : Bool) : Cfg :=
  { resume := resume, certRequested := requested, emptyOK := emptyOK, ecdhe := false }

/-! ### from a checked bisimulation to language equality -/

/-- the finite certificate the kernel evaluates: same tolerance, and the pairs reachable from
the two initial states form a bisimulation -/
def certificate (s : Skeleton) (root : String) (cfg : Cfg) (F : Flows) : Bool :=
  s.maxUseless == maxIgnorable &&
  match start cfg (progOf s root) with
  | none => false
  | some q0 => bisimFrom (auto cfg (progOf s root)) specAuto q0 F

theorem lang_eq_of_certificate (s : Skeleton) (root : String) (cfg : Cfg) (F : Flows)
    (h : certificate s root cfg F = true) (w : List Kind) :
    accepts s root cfg w = inLang F w := by
  unfold certificate at h
  simp only [Bool.and_eq_true, beq_iff_eq] at h
  obtain ⟨hmax, h2⟩ := h
  unfold accepts
  cases hs : start cfg (progOf s root) with
  | none => simp [hs] at h2
  | some q0 =>
    simp only [hs] at h2
    simp only
    rw [← specAuto_correct F w, hmax]
    exact accepts_eq_of_bisimFrom _ _ q0 F h2 maxIgnorable w

/-! ### C08: the four languages, TLCP -/

set_option maxRecDepth 200000

/-- client, full handshake: ServerHello, Certificate, ServerKeyExchange, [CertificateRequest],
ServerHelloDone, ChangeCipherSpec, Finished — and nothing else (F1 repaired: a flow without
ServerKeyExchange is refused) -/
theorem C08_client_full (ecdhe : Bool) (w : List Kind) :
    accepts tlcpSk clientRoot (clientCfg false ecdhe) w = true ↔ inLang (clientFull ⟨ecdhe⟩) w = true := by
  cases ecdhe
  · rw [lang_eq_of_certificate tlcpSk clientRoot _ (clientFull ⟨false⟩) (by decide)]
  · rw [lang_eq_of_certificate tlcpSk clientRoot _ (clientFull ⟨true⟩) (by decide)]

/-- client, resumed: ServerHello (echo), ChangeCipherSpec, Finished -/
theorem C08_client_resumed (ecdhe : Bool) (w : List Kind) :
    accepts tlcpSk clientRoot (clientCfg true ecdhe) w = true ↔ inLang clientResumed w = true := by
  cases ecdhe <;> rw [lang_eq_of_certificate tlcpSk clientRoot _ clientResumed (by decide)]

/-- server, full handshake: ClientHello, Certificate iff requested, ClientKeyExchange,
CertificateVerify iff a certificate was sent, ChangeCipherSpec, Finished -/
theorem C08_server_full (requested emptyOK : Bool) (w : List Kind) :
    accepts tlcpSk serverRoot (serverCfg false requested emptyOK) w = true ↔
      inLang (serverFull ⟨requested, emptyOK⟩) w = true := by
  cases requested <;> cases emptyOK
  · rw [lang_eq_of_certificate tlcpSk serverRoot _ (serverFull ⟨false, false⟩) (by decide)]
  · rw [lang_eq_of_certificate tlcpSk serverRoot _ (serverFull ⟨false, true⟩) (by decide)]
  · rw [lang_eq_of_certificate tlcpSk serverRoot _ (serverFull ⟨true, false⟩) (by decide)]
  · rw [lang_eq_of_certificate tlcpSk serverRoot _ (serverFull ⟨true, true⟩) (by decide)]

/-- server, resumed: ClientHello, ChangeCipherSpec, Finished -/
theorem C08_server_resumed (requested emptyOK : Bool) (w : List Kind) :
    accepts tlcpSk serverRoot (serverCfg true requested emptyOK) w = true ↔ inLang serverResumed w = true := by
  cases requested <;> cases emptyOK <;> rw [lang_eq_of_certificate tlcpSk serverRoot _ serverResumed (by decide)]

end Gotlcp.Props.C08

/-
C20 — the protocol adapter routes by record version and loses no bytes.

Property theorems only (helpers are in `Gotlcp.Lemmas.PA`).  The model is `Gotlcp.Model.PA`
instantiated with the regenerated source facts (`factsP`, from `Facts.pa.*`); the spec is
`Gotlcp.Spec.PA`.  Statements quantify over every transport script (every segmentation of
every byte stream, with read time-outs anywhere), every configuration shape, every sequence
of read-buffer sizes and every number of caller retries.

Third round: the retry statements are (also) about the PUBLIC object the application holds
(`Model.PA.Pub`, `call` = `ProtocolSwitchServerConn.Read/Write` through `conn()`):
  * `C20_facts_public`        what `conn()` / `detect()` keep of a detection, as extracted
  * `C20_public_sound`        every answer of every call is an I/O error or the documented verdict
  * `C20_public_retry_routes` a client that sent a full header is routed after at most as many
                              failed calls as the transport had read time-outs; failed calls are
                              time-outs, nothing else
  * `C20_facts_locks`, `C20_unblockers_never_wait`, `C20_parked_first_call_can_be_closed`
                              Close and the deadline setters need no mutex that a goroutine
                              parked in the header peek (or in the selected stack) holds

Tie by translation (last section): `ProtocolDetectConn.ReadFirstHeader` / `Read` are re-translated from
pa/conn.go on every run (`Gotlcp.Src.pa`, over a scripted transport) and `Gotlcp.Tie.PA` proves
  * `C20_src_no_byte_lost`, `C20_src_detect_then_serve`, `C20_src_version_bytes` the property DIRECTLY about the
                              translated text, for every script (data together with errors, empty
                              steps, errors anywhere), every call sequence, every buffer
  * `C20_src_refines_model`   the translated functions compute what `Model.PA` computes with the
                              parameters `factsP` has (which is what justifies those four literals)
-/
import Gotlcp.Lemmas.PA
import Gotlcp.Lemmas.PARetry
import Gotlcp.Lemmas.PAListen
import Gotlcp.Lemmas.Locks
import Gotlcp.Model.PAFacts
import Gotlcp.Model.PALock
import Gotlcp.Generated.Facts
import Gotlcp.Tie.PA

set_option linter.unusedSimpArgs false
set_option linter.unusedVariables false

namespace Gotlcp.Props.C20
open Gotlcp.Model.PA
open Gotlcp.Lemmas.PA
open Gotlcp

/-- the spec's verdicts as outcomes of the model -/
def ofSpec : Spec.PA.Verdict → Route
  | .tlcp => .tlcp
  | .tls => .tls
  | .unsupported => .unsupported
  | .config => .config

/-- a fresh adapter connection over the transport script `evs` -/
def fresh (evs : List Ev) : SC := { p := { evs := evs } }

/-- the facts of the source the other theorems rely on.  (What `ReadFirstHeader` does — header length 5,
version bytes at 1 and 2, `io.ReadFull` into the kept buffer, its error returned — is no longer a text fact:
`factsP` holds literals that `C20_src_refines_model` ties to the translated function.) -/
theorem C20_facts :
    Facts.pa.dispatch = [(1, 1, 1, 1, 1), (3, 2, 2, 2, 1)] ∧
    Facts.pa.dispatchOnMajor = true ∧ Facts.pa.dispatchDefaultUnsupported = true ∧
    Facts.pa.detectReturnsHeaderErr = true ∧ Facts.pa.unsupportedSentinelTyped = true ∧
    Facts.missing = [] := by decide

/-- what the public object keeps of a detection: `Read` and `Write` go through `conn()`; `conn()`
returns the installed stack or else runs `detect()` — at EVERY call, no other state is consulted
first; no field of the object besides `wrapped` is written on the way (no stored error, no
once-only guard); `wrapped` is assigned by the two constructor rows of the dispatch and nowhere
else.  Hence the model's `call` is `detect`. -/
theorem C20_facts_public :
    Facts.pa.callsViaConn = ["Read", "Write"] ∧ Facts.pa.connDetectsWheneverUnwrapped = true ∧
    Facts.pa.failureKeptFields = [] ∧ Facts.pa.wrappedOnlyFromDispatch = true ∧
    factsP.retriesDetect = true := by decide

theorem factsP_valid : Valid factsP := ⟨by decide, by decide, by decide⟩

/-- **Dispatch.** For all 256 major version bytes and every configuration shape the
`switch` extracted from `detect` decides exactly as documented: 0x01 → TLCP, 0x03 → TLS
(configuration error when that configuration is absent), anything else → unsupported.
Proved by case analysis on the rows of the extracted table, not by enumeration. -/
theorem C20_dispatch (cfg : Cfg) (v : UInt8) :
    route factsP cfg v = ofSpec (Spec.PA.route cfg.tlcp cfg.tls v) := by
  have ht : factsP.table = [(1, 1, 1), (3, 2, 2)] := by decide
  have hd : factsP.defaultUnsupported = true := by decide
  unfold route
  rw [ht, hd]
  unfold Spec.PA.route
  by_cases h1 : v = 1
  · subst h1
    cases cfg with
    | mk a b => cases a <;> simp [List.find?, cfgNil, ctorRoute, ofSpec]
  · by_cases h3 : v = 3
    · subst h3
      cases cfg with
      | mk a b => cases b <;> simp [List.find?, cfgNil, ctorRoute, ofSpec]
    · have n1 : ¬ (1 = v.toNat) := by
        intro h; apply h1; apply UInt8.toNat_inj.mp; simpa using h.symm
      have n3 : ¬ (3 = v.toNat) := by
        intro h; apply h3; apply UInt8.toNat_inj.mp; simpa using h.symm
      have b1 : (1 == v.toNat) = false := by simpa using n1
      have b3 : (3 == v.toNat) = false := by simpa using n3
      simp [List.find?, b1, b3, h1, h3, ofSpec]

example : route factsP ⟨true, false⟩ 0x03 = .config ∧ route factsP ⟨true, true⟩ 0x01 = .tlcp ∧
    route factsP ⟨true, true⟩ 0x02 = .unsupported := by decide

/-- **No byte lost, duplicated or reordered.** After a successful header peek, for EVERY
transport script and EVERY sequence of read-buffer sizes, what the serving stack has read
through `ProtocolDetectConn.Read`, followed by the header bytes still to be replayed and the
bytes still in the transport, is exactly the client's stream from its first byte.  In
particular what was read is always a prefix of the client's stream. -/
theorem C20_stream_complete (evs : List Ev) (bufs : List Nat)
    (hok : (readFirstHeader factsP { evs := evs }).1 = .ok) :
    let s1 := (readFirstHeader factsP { evs := evs }).2
    let r := reads s1 bufs
    delivered r.1 ++ (r.2.hdr ++ pending r.2.evs) = pending evs ∧
    Spec.PA.isPrefix (delivered r.1) (pending evs) = true := by
  intro s1 r
  have hs : HOK factsP ({ evs := evs } : PD) := Or.inl (by simp [isFresh])
  obtain ⟨h1, h2, h3, h4, h5⟩ := rfh_spec factsP { evs := evs } factsP_valid hs
  obtain ⟨h5a, _⟩ := h5 hok
  have hacc : accounted factsP ({ evs := evs } : PD) = pending evs := by
    simp [accounted, isFresh]
  have htk : s1.hdr.take s1.filled = s1.hdr := by
    show (readFirstHeader factsP { evs := evs }).2.hdr.take _ = _
    rw [h5a, ← h1]; exact List.take_length
  have h0 : s1.hdr ++ pending s1.evs = pending evs := by
    rw [← hacc, ← h3]; show _ = s1.hdr.take s1.filled ++ _; rw [htk]
  have hinv : delivered r.1 ++ (r.2.hdr ++ pending r.2.evs) = pending evs := by
    rw [← h0]; exact reads_pending bufs s1
  refine ⟨hinv, ?_⟩
  rw [← hinv]; exact isPrefix_append _ _

/-- the stack is told end-of-stream only after it has read everything -/
theorem C20_stream_eof (evs : List Ev) (bufs : List Nat)
    (hok : (readFirstHeader factsP { evs := evs }).1 = .ok)
    (heof : ∃ o ∈ (reads (readFirstHeader factsP { evs := evs }).2 bufs).1, o.2 = some .eof) :
    delivered (reads (readFirstHeader factsP { evs := evs }).2 bufs).1 = pending evs := by
  have h : delivered (reads (readFirstHeader factsP { evs := evs }).2 bufs).1 ++
      ((reads (readFirstHeader factsP { evs := evs }).2 bufs).2.hdr ++
        pending (reads (readFirstHeader factsP { evs := evs }).2 bufs).2.evs) = pending evs :=
    (C20_stream_complete evs bufs hok).1
  obtain ⟨hh, he⟩ := reads_eof bufs _ heof
  rw [hh, he] at h
  simpa [pending] using h

/-- reading goes on until everything is delivered: any sequence of non-empty buffers that is
at least as long as (header bytes + transport bytes + transport events) drains the stream -/
theorem C20_stream_eventually (evs : List Ev) (bufs : List Nat)
    (hok : (readFirstHeader factsP { evs := evs }).1 = .ok)
    (hpos : ∀ n ∈ bufs, 1 ≤ n)
    (hlen : measure (readFirstHeader factsP { evs := evs }).2 ≤ bufs.length) :
    delivered (reads (readFirstHeader factsP { evs := evs }).2 bufs).1 = pending evs := by
  have h : delivered (reads (readFirstHeader factsP { evs := evs }).2 bufs).1 ++
      ((reads (readFirstHeader factsP { evs := evs }).2 bufs).2.hdr ++
        pending (reads (readFirstHeader factsP { evs := evs }).2 bufs).2.evs) = pending evs :=
    (C20_stream_complete evs bufs hok).1
  obtain ⟨hh, he⟩ := reads_progress bufs _ hpos hlen
  rw [hh, he] at h
  simpa [pending] using h

example : let evs := [Ev.data [22, 1], .data [1, 0, 2, 9], .data [8, 7]]
    (readFirstHeader factsP { evs := evs }).1 = .ok ∧
    (reads (readFirstHeader factsP { evs := evs }).2 [2, 0, 1, 4, 3]).1
      = [([22, 1], none), ([], none), ([1], none), ([0, 2, 9], none), ([8, 7], none)] := by decide

/-- **Zero-length read.** `Read` with an empty buffer returns nothing, no error, and changes
nothing — whatever part of the header is still to be replayed. -/
theorem C20_zero_len_read (s : PD) : pdRead s 0 = ([], none, s) := by
  unfold pdRead
  split
  · rename_i h; simp [tRead_zero]
  · rename_i h
    have : ¬ s.hdr.length ≤ 0 := by omega
    simp [this]

/-- **Retries are sound.** However often the caller calls `Read`/`Write` again after an
error (read deadline expired, unsupported protocol, …), and wherever the transport's
time-outs fall: no call panics; every routing decision ever reported — a stack or the
unsupported/configuration error — is the documented one for the FIRST record's major
version byte (`sent[1]`, and the client did send a full header); and once a stack is
installed, replayed header + pending transport bytes are the client's stream from its
first byte. -/
theorem C20_retry_sound (evs : List Ev) (cfg : Cfg) (k : Nat) :
    let r := attempts factsP cfg k (fresh evs)
    (∀ x ∈ r.1, x ≠ .panic) ∧
    (∀ x ∈ r.1, (∃ e, x = .io e) ∨
      ∃ v, Spec.PA.routeOfStream cfg.tlcp cfg.tls (pending evs) = some v ∧ x = ofSpec v) ∧
    (r.2.wrapped ≠ none → r.2.p.hdr ++ pending r.2.p.evs = pending evs) := by
  have hres : factsP.resumable = true := by decide
  have hmi : factsP.majorIndex = 1 := by decide
  have hhl : factsP.headerLen = 5 := by decide
  -- generalised over the state reached after earlier failed attempts
  have key : ∀ (k : Nat) (c : SC), c.wrapped = none → HOK factsP c.p →
      accounted factsP c.p = pending evs →
      (∀ x ∈ (attempts factsP cfg k c).1, x ≠ .panic) ∧
      (∀ x ∈ (attempts factsP cfg k c).1, (∃ e, x = .io e) ∨
        ∃ v, Spec.PA.routeOfStream cfg.tlcp cfg.tls (pending evs) = some v ∧ x = ofSpec v) ∧
      ((attempts factsP cfg k c).2.wrapped ≠ none →
        (attempts factsP cfg k c).2.p.hdr ++ pending (attempts factsP cfg k c).2.p.evs = pending evs) := by
    intro k
    induction k with
    | zero =>
      intro c hw _ _
      simp [attempts, hw]
    | succ k ih =>
      intro c hw hs hacc
      obtain ⟨⟨hs', hacc'⟩, hstep⟩ := detect_step factsP cfg c factsP_valid hres hw hs
      rw [hacc] at hacc' hstep
      -- what this attempt reports
      have hthis : ((∃ e, (detect factsP cfg c).1 = .io e) ∨
          ∃ v, Spec.PA.routeOfStream cfg.tlcp cfg.tls (pending evs) = some v ∧
            (detect factsP cfg c).1 = ofSpec v) := by
        rcases hstep with ⟨e, he, _⟩ | ⟨mj, hr, hidx, hlen, _, _⟩
        · exact Or.inl ⟨e, he⟩
        · refine Or.inr ⟨Spec.PA.route cfg.tlcp cfg.tls mj, ?_, ?_⟩
          · unfold Spec.PA.routeOfStream Spec.PA.recordHeaderLen
            rw [hhl] at hlen
            rw [hmi] at hidx
            have : ¬ (pending evs).length < 5 := by omega
            simp [this, hidx]
          · rw [hr]; exact C20_dispatch cfg mj
      have hnp : (detect factsP cfg c).1 ≠ .panic := by
        rcases hthis with ⟨e, he⟩ | ⟨v, _, hv⟩
        · rw [he]; simp
        · rw [hv]; cases v <;> simp [ofSpec]
      simp only [attempts]
      split
      · rename_i hstop
        refine ⟨by simpa using hnp, by simpa using hthis, ?_⟩
        intro _
        rcases hstep with ⟨e, he, _⟩ | ⟨mj, _, _, _, _, hstream⟩
        · rw [he] at hstop; simp [Route.served] at hstop
        · exact hstream
      · rename_i hgo
        have hw' : (detect factsP cfg c).2.wrapped = none := by
          rcases hstep with ⟨e, _, hwn⟩ | ⟨mj, hr, _, _, hwr, _⟩
          · exact hwn
          · rw [hwr]
            rw [hr] at hgo
            simp only [Bool.or_eq_true, not_or] at hgo
            simp [hgo.1]
        obtain ⟨i1, i2, i3⟩ := ih (detect factsP cfg c).2 hw' hs' hacc'
        refine ⟨?_, ?_, i3⟩
        · intro x hx
          simp only [List.mem_cons] at hx
          rcases hx with hx | hx
          · rw [hx]; exact hnp
          · exact i1 x hx
        · intro x hx
          simp only [List.mem_cons] at hx
          rcases hx with hx | hx
          · rw [hx]; exact hthis
          · exact i2 x hx
  exact key k (fresh evs) rfl (Or.inl (by simp [fresh, isFresh])) (by simp [fresh, accounted, isFresh])

/-- **A client that goes away before sending five bytes gets an error**, at every call, however
its bytes were segmented: never a served connection, never a panic (the model is total, so it
never hangs either).  `major`/`minor` are nevertheless assigned from the partly filled buffer,
as in the code; nothing depends on them. -/
theorem C20_short_is_error (evs : List Ev) (cfg : Cfg) (k : Nat)
    (hshort : (pending evs).length < 5) :
    ∀ x ∈ (attempts factsP cfg k (fresh evs)).1, ∃ e, x = .io e := by
  intro x hx
  obtain ⟨_, h2, _⟩ := C20_retry_sound evs cfg k
  rcases h2 x hx with h | ⟨v, hv, _⟩
  · exact h
  · unfold Spec.PA.routeOfStream Spec.PA.recordHeaderLen at hv
    simp [hshort] at hv

/-- … and, when the transport only ends (no read deadline), the first call's error is
end-of-stream: `EOF` when nothing arrived, `ErrUnexpectedEOF` otherwise. -/
theorem C20_short_error_kind (evs : List Ev) (cfg : Cfg)
    (hshort : (pending evs).length < 5) (hnt : noTimeout evs = true) :
    (detect factsP cfg (fresh evs)).1 =
      .io (if (pending evs).length = 0 then .eof else .unexpectedEOF) := by
  have hs : HOK factsP (fresh evs).p := Or.inl (by simp [fresh, isFresh])
  obtain ⟨_, _, _, h4, h5⟩ := rfh_spec factsP (fresh evs).p factsP_valid hs
  have hst : hdrStart factsP (fresh evs).p = (List.replicate 5 (0 : UInt8), 0) := by
    simp [hdrStart, fresh]; decide
  have hp := readFull_pending evs 5
  have hl := readFull_length evs 5
  have he := readFull_err_eof evs 5 hnt
  have hlt : (readFull evs 5).1.length < 5 := by
    have : (readFull evs 5).1.length ≤ (pending evs).length := by
      rw [← hp, List.length_append]; omega
    omega
  have hne := readFull_short evs 5 hlt
  have hE : (readFull evs 5).2.1 = some .eof := by
    rcases he with h | h
    · exact absurd h hne
    · exact h
  -- nothing follows the bytes obtained: the transport is at its end
  have hpend : (readFull evs 5).1.length = (pending evs).length := by
    have : pending (readFull evs 5).2.2 = [] := by
      clear hp hl he hne h4 h5 hst hs
      -- end-of-stream from readFull means the script is exhausted
      have aux : ∀ (l : List Ev) (n : Nat), (readFull l n).2.1 = some .eof →
          pending (readFull l n).2.2 = [] := by
        intro l
        induction l with
        | nil => intro n; cases n <;> simp [readFull, pending]
        | cons e r ih =>
          intro n h
          cases n with
          | zero => simp [readFull] at h
          | succ n =>
            cases e with
            | timeout => simp [readFull] at h
            | data c =>
              simp only [readFull] at h ⊢
              split
              · rename_i hc; simp only [hc, ↓reduceIte] at h; exact ih _ h
              · rename_i hc; simp only [hc, ↓reduceIte] at h; simp at h
      exact aux evs 5 hE
    rw [← hp, List.length_append, this]; simp
  unfold detect
  simp only [fresh]
  unfold readFirstHeader
  have hst' : hdrStart factsP ({ evs := evs } : PD) = (List.replicate 5 (0 : UInt8), 0) := hst
  rw [hst']
  have hmi : factsP.majorIndex = 1 := by decide
  have hni : factsP.minorIndex = 2 := by decide
  simp only [hmi, hni, List.length_replicate, Nat.sub_zero]
  have hsl : (splice (List.replicate 5 (0 : UInt8)) 0 (readFull evs 5).1).length = 5 := by
    rw [splice_length] <;> simp; omega
  rw [List.getElem?_eq_getElem (by omega), List.getElem?_eq_getElem (by omega)]
  simp only [readFullErr, hE]
  have : ¬ 5 ≤ (readFull evs 5).1.length := by omega
  simp only [this, ↓reduceIte]
  by_cases h0 : (pending evs).length = 0
  · have : ¬ 0 < (readFull evs 5).1.length := by omega
    simp [this, h0]
  · have : 0 < (readFull evs 5).1.length := by omega
    simp [this, h0]

example : (attempts factsP ⟨true, true⟩ 3 (fresh [.data [22], .timeout, .data [1, 1]])).1
    = [.io .timeout, .io .unexpectedEOF, .io .eof] := by decide

/-! ### the public object: `Read` / `Write` of the connection `Accept` returned -/

/-- a fresh public object over the transport script `evs` -/
def pub (evs : List Ev) : Pub := { c := fresh evs }

theorem pub_inv (cfg : Cfg) (evs : List Ev) : PubInv factsP cfg (pending evs) (pub evs) :=
  ⟨Or.inl (by simp [pub, fresh, isFresh]), by simp [pub, fresh, accounted, isFresh], Or.inl rfl⟩

/-- **Every call on the public object answers soundly.**  Whatever the transport script, the
configuration shape and the number `k` of `Read` / `Write` calls the application makes (going on
after errors, going on after it is served): all `k` calls return; none panics; every answer is
an I/O error or the documented verdict for the FIRST record's major version byte — and a verdict
is only ever given when the client did send a full header. -/
theorem C20_public_sound (evs : List Ev) (cfg : Cfg) (k : Nat) :
    let r := calls factsP cfg k (pub evs)
    r.1.length = k ∧ (∀ x ∈ r.1, x ≠ .panic) ∧
    (∀ x ∈ r.1, (∃ e, x = .io e) ∨
      ∃ v, Spec.PA.routeOfStream cfg.tlcp cfg.tls (pending evs) = some v ∧ x = ofSpec v) := by
  have hmi : factsP.majorIndex = 1 := by decide
  have hhl : factsP.headerLen = 5 := by decide
  obtain ⟨h1, h2, _⟩ := calls_spec factsP cfg factsP_valid (by decide) C20_facts_public.2.2.2.2
    (pending evs) k (pub evs) (pub_inv cfg evs)
  have h3 : ∀ x ∈ (calls factsP cfg k (pub evs)).1, (∃ e, x = .io e) ∨
      ∃ v, Spec.PA.routeOfStream cfg.tlcp cfg.tls (pending evs) = some v ∧ x = ofSpec v := by
    intro x hx
    rcases h2 x hx with h | ⟨mj, hidx, hlen, hr⟩
    · exact Or.inl h
    · refine Or.inr ⟨Spec.PA.route cfg.tlcp cfg.tls mj, ?_, ?_⟩
      · unfold Spec.PA.routeOfStream Spec.PA.recordHeaderLen
        rw [hhl] at hlen
        rw [hmi] at hidx
        have : ¬ (pending evs).length < 5 := by omega
        simp [this, hidx]
      · rw [hr]; exact C20_dispatch cfg mj
  refine ⟨h1, ?_, h3⟩
  intro x hx
  rcases h3 x hx with ⟨e, he⟩ | ⟨v, _, hv⟩
  · rw [he]; simp
  · rw [hv]; cases v <;> simp [ofSpec]

/-- **A retry after a failed detection routes.**  The client sent a full record header — in
whatever pieces, with read time-outs (expired read deadlines) wherever the script has them.
Then on the public object: a call fails only with a time-out; there are at most as many failed
calls as the script has time-outs (each failed call has consumed one); hence an application
that calls `Read` / `Write` once more than that IS answered with the documented verdict for the
first record's major version byte.  Nothing of a failed attempt sticks. -/
theorem C20_public_retry_routes (evs : List Ev) (cfg : Cfg) (k : Nat)
    (hfull : 5 ≤ (pending evs).length) :
    let r := calls factsP cfg k (pub evs)
    (∀ x ∈ r.1, ∀ e, x = .io e → e = .timeout) ∧
    (r.1.filter Route.isIO).length ≤ nTimeouts evs ∧
    (nTimeouts evs < k → ∃ x ∈ r.1, ∃ v,
      Spec.PA.routeOfStream cfg.tlcp cfg.tls (pending evs) = some v ∧ x = ofSpec v) := by
  have hhl : factsP.headerLen = 5 := by decide
  obtain ⟨h1, _, h3⟩ := calls_spec factsP cfg factsP_valid (by decide) C20_facts_public.2.2.2.2
    (pending evs) k (pub evs) (pub_inv cfg evs)
  obtain ⟨j1, j2⟩ := h3 (by rw [hhl]; exact hfull)
  obtain ⟨_, _, s3⟩ := C20_public_sound evs cfg k
  have j2' : ((calls factsP cfg k (pub evs)).1.filter Route.isIO).length ≤ nTimeouts evs := by
    have : nTimeouts (pub evs).c.p.evs = nTimeouts evs := rfl
    omega
  refine ⟨j1, j2', ?_⟩
  intro hk
  -- otherwise all k answers were I/O errors: more failed calls than time-outs
  apply Classical.byContradiction
  intro hno
  have hall : ∀ x ∈ (calls factsP cfg k (pub evs)).1, Route.isIO x = true := by
    intro x hx
    rcases s3 x hx with ⟨e, he⟩ | ⟨v, hv, hxv⟩
    · rw [he]; rfl
    · exact absurd ⟨x, hx, v, hv, hxv⟩ hno
  have : (calls factsP cfg k (pub evs)).1.filter Route.isIO = (calls factsP cfg k (pub evs)).1 :=
    List.filter_eq_self.mpr hall
  rw [this, h1] at j2'
  omega

/-- non-vacuity: one header byte, an expired deadline, then the rest — first call a time-out,
second call served by the TLCP stack, and it stays so -/
example : (calls factsP ⟨true, true⟩ 3 (pub [.data [0x16], .timeout, .data [1, 1, 0, 5, 9]])).1
    = [.io .timeout, .tlcp, .tlcp] := by decide

/-- the negation: when `conn()` keeps the outcome of the first detection for good (a once-only
idiom, a stored error — `retriesDetect := false`) the same client is never served -/
example : (calls { factsP with retriesDetect := false } ⟨true, true⟩ 3
      (pub [.data [0x16], .timeout, .data [1, 1, 0, 5, 9]])).1
    = [.io .timeout, .io .timeout, .io .timeout] := by decide

/-! ### Close and the deadline setters while the first call is parked -/

/-- what the extracted programs say: the object embeds the raw connection it was built on; the
four calls that get a parked goroutine back are straight-line, balanced programs that acquire no
mutex which ANY method of the object holds across a transport read, a transport write or a call
into the selected stack's own I/O. -/
theorem C20_facts_locks :
    Facts.pa.swEmbedsRawConn = true ∧
    Facts.pa.swUnblockers.map (·.1) = ["Close", "SetDeadline", "SetReadDeadline", "SetWriteDeadline"] ∧
    (∀ u ∈ Facts.pa.swUnblockers,
      Model.Locks.ordered id [] (Model.Locks.ofEvents Unit u.2) = true ∧
      ∀ l ∈ acquiresEv u.2, ∀ p ∈ Facts.pa.swProgs, l ∉ Model.Locks.heldAtIO [] p.2) := by decide

theorem acquires_ofEvents (evs : List (Nat × Nat)) :
    Lemmas.Locks.acquires (Model.Locks.ofEvents Unit evs) = acquiresEv evs := by
  induction evs with
  | nil => rfl
  | cons e r ih =>
    obtain ⟨k, l⟩ := e
    match k with
    | 0 => simp [Model.Locks.ofEvents, Lemmas.Locks.acquires, acquiresEv, ih]
    | 1 => simp [Model.Locks.ofEvents, Lemmas.Locks.acquires, acquiresEv, ih]
    | k + 2 => simp [Model.Locks.ofEvents, Lemmas.Locks.acquires, acquiresEv, ih]

/-- **Close and the deadline setters never wait.**  Whatever the other goroutines using the
connection are parked on — each holding only mutexes that the extracted programs hold across
transport I/O, e.g. the first `Read` inside `detect()` waiting for the client's header with
`c.lock` held — a goroutine calling `Close`, `SetDeadline`, `SetReadDeadline` or
`SetWriteDeadline` on the public object runs to the END of the call on its own.  (That the closed
transport / the expired deadline then makes the parked call return an error is the transport's
contract and a runtime observation: phase `close`.) -/
theorem C20_unblockers_never_wait (name : String)
    (hname : name ∈ ["Close", "SetDeadline", "SetReadDeadline", "SetWriteDeadline"])
    (a b : List (Model.Locks.Thread Unit))
    (hparked : ∀ u ∈ a ++ b, ∀ l ∈ u.held, ∃ p ∈ Facts.pa.swProgs, l ∈ Model.Locks.heldAtIO [] p.2)
    (sh : Model.Locks.Shared Unit) :
    ∃ th' sh', Model.Locks.Reach (Model.Locks.LockM Unit)
        ⟨a ++ ({ prog := Model.Locks.ofEvents Unit (Model.Locks.lookupProg Facts.pa.swUnblockers name) } :
          Model.Locks.Thread Unit) :: b, sh⟩
        ⟨a ++ th' :: b, sh'⟩ ∧ th'.prog = [] := by
  obtain ⟨_, hnames, hall⟩ := C20_facts_locks
  -- the looked-up program is one of the extracted ones
  have hmem : ∃ u ∈ Facts.pa.swUnblockers, u.2 = Model.Locks.lookupProg Facts.pa.swUnblockers name := by
    have hin : name ∈ Facts.pa.swUnblockers.map (·.1) := by rw [hnames]; exact hname
    obtain ⟨q, hq, hqn⟩ := List.mem_map.mp hin
    unfold Model.Locks.lookupProg
    cases hf : Facts.pa.swUnblockers.find? (fun p => p.1 == name) with
    | none =>
      have := List.find?_eq_none.mp hf q hq
      simp [hqn] at this
    | some r => exact ⟨r, List.mem_of_find?_eq_some hf, rfl⟩
  obtain ⟨u, hu, hue⟩ := hmem
  obtain ⟨hord, hdisj⟩ := hall u hu
  rw [← hue]
  apply Lemmas.Locks.solo_run id a b (Model.Locks.ofEvents Unit u.2) [] _ sh
  · simp
  · exact hord
  · intro t ht l hl hacq
    rw [acquires_ofEvents] at hacq
    obtain ⟨p, hp, hheld⟩ := hparked t ht l hl
    exact hdisj l hacq p hp hheld

/-- the scenario of the property's last sentence, on the extracted programs: a goroutine parked
in its first `Read` or `Write` — in the header peek (transport read under `c.lock`) or, once
routed, inside the selected stack — and ANOTHER goroutine calling Close or a deadline setter:
that call returns.  (Finite: 2 methods x 2 parking places x 4 calls; this is the function the
oracle predicts phase `close` with.) -/
theorem C20_parked_first_call_can_be_closed :
    ∀ m ∈ ["Read", "Write"], ∀ k ∈ [evTransportRead, evIntoStack],
    ∀ u ∈ ["Close", "SetDeadline", "SetReadDeadline", "SetWriteDeadline"],
      unblockerReturns Facts.pa.swProgs Facts.pa.swUnblockers m k u = true := by decide

/-- non-vacuity: the first `Read` IS parked with the mutex held … -/
example : parkAt evTransportRead [] (Model.Locks.lookupProg Facts.pa.swProgs "Read")
    = some ([0], [(1, 0), (0, 0), (1, 0), (12, 0)]) := by decide

/-- … and a `Close` that first looks the installed stack up under that mutex (`c.lock.Lock();
w := c.wrapped; c.lock.Unlock(); w.Close() / c.Conn.Close()`) never returns: the parked `Read` is
waiting for exactly that call -/
example : unblockerReturns Facts.pa.swProgs
    [("Close", [(0, 0), (1, 0), (12, 0), (8, 0)])] "Read" evTransportRead "Close" = false := by decide

/-! ### the listener in front of several peers

`Model.PAListen`: one accept loop, blocking transports, time in ticks (within a tick everything happens that can
happen without further input from a peer).  A peer is the tick its connection is established and its acts (send a
chunk / disconnect, each after a gap); every list of peers is a schedule: silent peers, slow peers, first records
split over time, early disconnects, in every order. -/

/-- what `listener.Accept` does, as extracted: the inner listener's `Accept` and nothing else on the way — no
transport read, no lock, no call into a stack on the accepted connection before it is returned (the constructor
call is inlined by the extractor; `go` statements are not part of the program); the returned object is the
constructor's over the raw connection.  Hence the model's accept loop does not peek. -/
theorem C20_facts_listener :
    Facts.pa.acceptProg = [(20, 0)] ∧ Facts.pa.acceptWrapsRaw = true ∧ factsAcceptPeeks = false := by decide

/-- **Connections are independent.**  For every schedule of peers, every configuration shape and every read-buffer
size: the outcome of connection `i` — the tick `Accept` returns it, the tick and the answer of the first call on
it, the bytes the serving stack reads — is `solo` of peer `i` and its arrival tick: a function that does not
mention any other peer.  In particular a peer that stays silent, sends slowly or never completes its first record
delays nobody. -/
theorem C20_listener_independent (cfg : Cfg) (rb : Nat) (peers : List Peer) :
    listen factsP cfg factsAcceptPeeks rb peers =
      (arrivals 0 peers).map (fun ap => solo factsP cfg rb ap.1 ap.2) := by
  rw [C20_facts_listener.2.2]
  exact listenRun_solo factsP cfg rb peers 0 0 (Nat.le_refl 0)

/-- the same, pointwise: two schedules in which connection `i` arrives at the same tick with the same acts give
it the same outcome, whatever else differs -/
theorem C20_listener_independent_at (cfg : Cfg) (rb : Nat) (peers peers' : List Peer) (i j : Nat)
    (h : (arrivals 0 peers)[i]? = (arrivals 0 peers')[j]?) :
    (listen factsP cfg factsAcceptPeeks rb peers)[i]? = (listen factsP cfg factsAcceptPeeks rb peers')[j]? := by
  rw [C20_listener_independent, C20_listener_independent, List.getElem?_map, List.getElem?_map, h]

/-- **`Accept` consumes nothing.**  The object the application gets for a peer is a fresh detector over the raw
connection: no header bytes held, everything the peer sends still pending in the transport; and it gets it the
tick the peer connects — also for a peer that never sends a byte, so the application has a connection to put a
deadline on or to close. -/
theorem C20_accept_consumes_nothing (cfg : Cfg) (rb a : Nat) (p : Peer) :
    handed factsP cfg factsAcceptPeeks p.acts = fresh (script p.acts) ∧
    (handed factsP cfg factsAcceptPeeks p.acts).p.hdr = [] ∧
    pending (handed factsP cfg factsAcceptPeeks p.acts).p.evs = stream p.acts ∧
    (solo factsP cfg rb a p).acc = some a := by
  rw [C20_facts_listener.2.2]
  refine ⟨rfl, rfl, pending_script p.acts, ?_⟩
  unfold solo serveConn
  simp only []
  split <;> rfl

theorem call_pub_one (cfg : Cfg) (evs : List Ev) :
    (calls factsP cfg 1 (pub evs)).1 = [(call factsP cfg (pub evs)).1] := by
  simp [calls]

/-- **Every peer is served on its own clock.**  For connection `i` arriving at tick `a` (all of it about `solo`,
i.e. by `C20_listener_independent` about the listener in front of ANY other peers):
  * the peer sends a complete first record header (five bytes, in whatever pieces, over whatever time): the first
    call on its connection returns at the tick `r` its fifth byte is sent (`readyAt`, read off its own acts), with
    the documented verdict for ITS first record's major version byte; when a stack serves it, that stack reads
    exactly the peer's stream from its first byte;
  * the peer goes away before five bytes: the first call returns an I/O error the tick it goes away — not a hang;
  * the peer stays silent: the call is parked, but the application holds the connection (accepted at `a`). -/
theorem C20_listener_serves (cfg : Cfg) (rb a : Nat) (p : Peer) :
    (5 ≤ (stream p.acts).length →
      ∃ r v, readyAt 5 a p.acts = some r ∧ a ≤ r ∧
        Spec.PA.routeOfStream cfg.tlcp cfg.tls (stream p.acts) = some v ∧
        (solo factsP cfg rb a p).dec = some (r, ofSpec v) ∧
        (1 ≤ rb → (ofSpec v).served = true → (solo factsP cfg rb a p).got = stream p.acts)) ∧
    ((stream p.acts).length < 5 → ∀ r, readyAt 5 a p.acts = some r →
      ∃ e, (solo factsP cfg rb a p).dec = some (r, .io e)) ∧
    (readyAt 5 a p.acts = none →
      (solo factsP cfg rb a p).dec = none ∧ (solo factsP cfg rb a p).acc = some a) := by
  have hhl : factsP.headerLen = 5 := by decide
  have hres : factsP.resumable = true := by decide
  have hrd : factsP.retriesDetect = true := C20_facts_public.2.2.2.2
  have hcall : call factsP cfg (pub (script p.acts)) =
      ((detect factsP cfg (fresh (script p.acts))).1,
        { pub (script p.acts) with c := (detect factsP cfg (fresh (script p.acts))).2 }) := by
    simp [call, hrd, pub]
  have hsolo : ∀ r, readyAt 5 a p.acts = some r → a ≤ r →
      (solo factsP cfg rb a p).dec = some (r, (call factsP cfg (pub (script p.acts))).1) ∧
      (solo factsP cfg rb a p).got =
        (if (call factsP cfg (pub (script p.acts))).1.served then
          delivered (reads (call factsP cfg (pub (script p.acts))).2.c.p
            (drainReads (call factsP cfg (pub (script p.acts))).2.c.p rb)).1 else []) := by
    intro r hr har
    have hm : max a r = r := by omega
    unfold solo serveConn
    simp only [hhl, hr, hm]
    exact ⟨rfl, rfl⟩
  refine ⟨?_, ?_, ?_⟩
  · intro hfull
    obtain ⟨r, hr, har⟩ := readyAt_of_stream p.acts 5 a hfull
    obtain ⟨hdec, hgot⟩ := hsolo r hr har
    have hfull' : 5 ≤ (pending (script p.acts)).length := by rw [pending_script]; exact hfull
    obtain ⟨_, _, h3⟩ := C20_public_retry_routes (script p.acts) cfg 1 hfull'
    obtain ⟨x, hx, v, hv, hxv⟩ := h3 (by rw [nTimeouts_script]; omega)
    rw [call_pub_one] at hx
    simp only [List.mem_singleton] at hx
    rw [pending_script] at hv
    refine ⟨r, v, hr, har, hv, ?_, ?_⟩
    · rw [hdec, ← hx, hxv]
    · intro hrb hserved
      rw [hgot, ← hx, hxv, hserved]
      simp only [↓reduceIte]
      -- the state the stack reads from: replayed header ++ pending = the peer's stream
      have hs : HOK factsP (fresh (script p.acts)).p := Or.inl (by simp [fresh, isFresh])
      obtain ⟨_, hstep⟩ := detect_step factsP cfg (fresh (script p.acts)) factsP_valid hres rfl hs
      have hacc : accounted factsP (fresh (script p.acts)).p = stream p.acts := by
        simp [fresh, accounted, isFresh, pending_script]
      have hd1 : (detect factsP cfg (fresh (script p.acts))).1 = ofSpec v := by
        have := congrArg Prod.fst hcall
        simp only [] at this
        rw [← this, ← hx, hxv]
      have hstream : (detect factsP cfg (fresh (script p.acts))).2.p.hdr ++
          pending (detect factsP cfg (fresh (script p.acts))).2.p.evs = stream p.acts := by
        rcases hstep with ⟨e, he, _⟩ | ⟨mj, _, _, _, _, hst⟩
        · rw [hd1] at he; cases v <;> simp [ofSpec] at he
        · rw [← hacc]; exact hst
      have hst2 : (call factsP cfg (pub (script p.acts))).2.c.p =
          (detect factsP cfg (fresh (script p.acts))).2.p := by rw [hcall]
      rw [hst2]
      generalize (detect factsP cfg (fresh (script p.acts))).2.p = s at hstream
      have hpos : ∀ n ∈ drainReads s rb, 1 ≤ n := by
        intro n hn
        simp only [drainReads, List.mem_replicate] at hn
        omega
      have hlen : Lemmas.PA.measure s ≤ (drainReads s rb).length := by
        simp [drainReads, Lemmas.PA.measure, evCount_eq]
      obtain ⟨hh, he⟩ := reads_progress (drainReads s rb) s hpos hlen
      have hp := reads_pending (drainReads s rb) s
      rw [hh, he] at hp
      rw [← hstream, ← hp]
      simp [pending]
  · intro hshort r hr
    have har := readyAt_ge p.acts 5 a r hr
    obtain ⟨hdec, _⟩ := hsolo r hr har
    obtain ⟨_, _, h3⟩ := C20_public_sound (script p.acts) cfg 1
    have hx := h3 (call factsP cfg (pub (script p.acts))).1 (by rw [call_pub_one]; simp)
    rcases hx with ⟨e, he⟩ | ⟨v, hv, _⟩
    · exact ⟨e, by rw [hdec, he]⟩
    · rw [pending_script] at hv
      unfold Spec.PA.routeOfStream Spec.PA.recordHeaderLen at hv
      simp [hshort] at hv
  · intro hnone
    unfold solo serveConn
    simp [hhl, hnone]

/-- non-vacuity, the schedule of the demonstration: a silent peer connects first; then a peer whose first record
arrives split over three ticks; then a peer that goes away after three bytes; then a TLS peer.  Everybody is
accepted the tick it arrives; the second is routed at tick 3 (its fifth byte), the third gets its error at tick 2,
the fourth is routed at tick 2; the silent one is parked. -/
def demoPeers : List Peer :=
  [⟨0, []⟩,
   ⟨1, [(0, .send [0x16, 1]), (1, .send [1, 0]), (1, .send [6, 0xa0])]⟩,
   ⟨0, [(0, .send [0x16, 3, 3]), (1, .close)]⟩,
   ⟨1, [(0, .send [0x16, 3, 3, 0, 2, 0xb0, 0xb1])]⟩]

example : listen factsP ⟨true, true⟩ factsAcceptPeeks 4 demoPeers =
    [{ acc := some 0 }, { acc := some 1, dec := some (3, .tlcp), got := [0x16, 1, 1, 0, 6, 0xa0] },
     { acc := some 1, dec := some (2, .io .unexpectedEOF) },
     { acc := some 2, dec := some (2, .tls), got := [0x16, 3, 3, 0, 2, 0xb0, 0xb1] }] := by decide

/-- the negation: when `Accept` itself peeks the header (`conn.detect()` before returning, the error dropped), the
silent peer at the head of the queue parks the accept loop for good: nobody behind it is ever accepted, although
two of them sent complete first records and one went away -/
example : listen factsP ⟨true, true⟩ true 4 demoPeers = [{}, {}, {}, {}] := by decide

/-- … and a slow peer delays everybody behind it until ITS fifth byte: the TLS peer, complete at tick 2, is
accepted and routed at tick 3 only; the error of the peer that went away changes from `unexpected EOF` to `EOF`
(the peek inside `Accept` has eaten the first report) -/
example : listen factsP ⟨true, true⟩ true 4 demoPeers.tail =
    [{ acc := some 3, dec := some (3, .tlcp), got := [0x16, 1, 1, 0, 6, 0xa0] },
     { acc := some 3, dec := some (3, .io .eof) },
     { acc := some 3, dec := some (3, .tls), got := [0x16, 3, 3, 0, 2, 0xb0, 0xb1] }] := by decide

/-! ### the finding F21 (repaired by `fixes/F21.patch`)

With the original `ReadFirstHeader` (a fresh buffer on every call: `resumable := false`) a
retry after an error takes bytes from the middle of the stream for the record header.
The two witnesses the driver replays first: -/

def origP : Params := { factsP with resumable := false }

/-- a first record with major version 0x02 ends up served by the TLCP stack -/
example : (attempts origP ⟨true, true⟩ 2
      (fresh [.data [0x16, 0x02, 0x00, 0x00, 0x05], .data [0x16, 0x01, 0x01, 0x00, 0x2e]])).1
    = [.unsupported, .tlcp] := by decide

/-- a TLS client hit by one read time-out inside its header is routed to TLCP, and the stack
starts reading at byte 3 of the stream -/
example :
    (attempts origP ⟨true, true⟩ 2
      (fresh [.data [0x16, 0x03, 0x03], .timeout, .data [0x00, 0x01, 0x01, 0x00, 0x00, 0x2a]])).1
      = [.io .timeout, .tlcp] ∧
    (attempts origP ⟨true, true⟩ 2
      (fresh [.data [0x16, 0x03, 0x03], .timeout, .data [0x00, 0x01, 0x01, 0x00, 0x00, 0x2a]])).2.p.hdr
      = [0x00, 0x01, 0x01, 0x00, 0x00] := by decide

/-- the same scripts on the repaired code -/
example : (attempts factsP ⟨true, true⟩ 2
      (fresh [.data [0x16, 0x02, 0x00, 0x00, 0x05], .data [0x16, 0x01, 0x01, 0x00, 0x2e]])).1
    = [.unsupported, .unsupported] ∧
    (attempts factsP ⟨true, true⟩ 2
      (fresh [.data [0x16, 0x03, 0x03], .timeout, .data [0x00, 0x01, 0x01, 0x00, 0x00, 0x2a]])).1
    = [.io .timeout, .tls] := by decide

/-! ### the translated source: `Gotlcp.Src.pa`, regenerated from pa/conn.go on every run

`ProtocolDetectConn.ReadFirstHeader`, `ProtocolDetectConn.Read` and `protocolVersion`, statement by statement, over
the scripted transport `goTransport` (a list of `readStep {data, err}`: the most one `Read` returns and the error
it reports once the step is used up — so data TOGETHER with an error, empty reads and errors anywhere are all
scripts; the end of the script is `io.EOF`) with `goTransport.readFull` = `io.ReadFull`.  The statements below are
about that text, not about `Model.PA`. -/

section Src
open Gotlcp.Src.pa
open Gotlcp.Tie.PA

/-- everything the translator was asked for was translated -/
theorem C20_src_translated : Src.untranslated = [] := by decide

/-- a fresh detecting connection over a transport script (what `NewProtocolSwitchServerConn` builds) -/
def srcFresh (script : List readStep) : ProtocolDetectConn := { Conn := { script := script } }

/-- **No byte is lost, duplicated or reordered (translated code).**  For EVERY connection state, every transport
script in it and every sequence of `ReadFirstHeader` / `Read(b)` calls with arbitrary buffers, interleaved in any
way in which each call is made in a state in which it is allowed (`ReadFirstHeader` while the header is peeked:
no buffer yet, or the five-byte buffer with fill mark ≤ 5; `Read` when nothing of the buffer is unfilled): every
call returns — no Go panic, the bound of the translated `io.ReadFull` loop is never reached — and the bytes the
`Read` calls handed out (`b[:n]` of each), followed by the header bytes still held and all data still in the
script, are exactly the bytes that were pending at the start. -/
theorem C20_src_no_byte_lost (c : ProtocolDetectConn) (calls : List Call) (h : Disciplined c calls) :
    ∃ c' outs, run c calls = .ok (c', outs) ∧ outs.length = calls.length ∧
      deliveredBytes outs ++ pendingBytes c' = pendingBytes c :=
  no_byte_lost calls c h

/-- … and the single steps this is the induction of (each for every state allowed, every script, every buffer):
`ReadFirstHeader` changes nothing pending, keeps the five-byte buffer, and a nil return means the header is
complete; `Read` hands out a prefix of what is pending (`0 ≤ n ≤ len(b)`, the rest of `b` untouched) and never
touches the version bytes. -/
theorem C20_src_steps :
    (∀ c : ProtocolDetectConn, PeekInv c →
      ∃ c' e, ProtocolDetectConn.ReadFirstHeader c = .ok (c', e) ∧ PeekInv c' ∧
        pendingBytes c' = pendingBytes c ∧ (e = none → Ready c')) ∧
    (∀ (c : ProtocolDetectConn) (b : List (BitVec 8)), Full c →
      ∃ c' b' n e, ProtocolDetectConn.Read c b = .ok (c', b', n, e) ∧ 0 ≤ n ∧ n ≤ (b.length : Int) ∧
        b'.length = b.length ∧ b'.drop n.toNat = b.drop n.toNat ∧
        b'.take n.toNat ++ pendingBytes c' = pendingBytes c ∧ Full c' ∧
        ProtocolDetectConn.protocolVersion c' = ProtocolDetectConn.protocolVersion c) := by
  refine ⟨?_, ?_⟩
  · intro c h
    obtain ⟨c', e, he, h1, h2, h3, hp, _, _, hok⟩ := rfh_step c h
    exact ⟨c', e, he, Or.inr ⟨h1, h2, h3⟩, hp, fun h0 => ⟨h1, hok h0⟩⟩
  · intro c b h
    obtain ⟨c', b', n, e, he, h1, h2, h3, h4, h5, h6, h7, h8⟩ := read_step c b h
    refine ⟨c', b', n, e, he, h1, h2, h3, h4, h5, h6, ?_⟩
    simp only [ProtocolDetectConn.protocolVersion, Id.run, pure, h7, h8]

/-- **`detect`, then the serving stack (translated code).**  A fresh connection over ANY script; `k` calls of
`ReadFirstHeader`, going on after whatever errors (this is `detect` being retried): all return, hand nothing out,
lose nothing.  If one of them returned nil then the client had sent at least five bytes, `protocolVersion()` is
bytes 1 and 2 of the client's stream — the routing input — and EVERY sequence of `Read(b)` calls that follows (the
serving stack, any buffer sizes) returns and hands out, followed by what is still pending, exactly the client's
stream from its first byte; the version bytes never change again. -/
theorem C20_src_detect_then_serve (script : List readStep) (k : Nat) (bufs : List (List (BitVec 8))) :
    ∃ c1 outs1, run (srcFresh script) (List.replicate k .rfh) = .ok (c1, outs1) ∧ outs1.length = k ∧
      deliveredBytes outs1 = [] ∧ pendingBytes c1 = scriptData script ∧
      ((∃ o ∈ outs1, o.err = none) →
        5 ≤ (scriptData script).length ∧
        (scriptData script)[1]? = some (ProtocolDetectConn.protocolVersion c1).1 ∧
        (scriptData script)[2]? = some (ProtocolDetectConn.protocolVersion c1).2 ∧
        ∃ c2 outs2, run c1 (bufs.map .read) = .ok (c2, outs2) ∧ outs2.length = bufs.length ∧
          deliveredBytes outs2 ++ pendingBytes c2 = scriptData script ∧
          ProtocolDetectConn.protocolVersion c2 = ProtocolDetectConn.protocolVersion c1) := by
  have hp0 : pendingBytes (srcFresh script) = scriptData script := by
    simp [pendingBytes, held, srcFresh]
  obtain ⟨c1, os1, hr, hl, hd, hp, hrest⟩ := detect_then_serve (srcFresh script) (Or.inl rfl) k bufs
  rw [hp0] at hp hrest
  refine ⟨c1, os1, hr, hl, hd, hp, ?_⟩
  intro hsome
  obtain ⟨h5, hmj, hmn, c2, os2, hr2, hl2, hp2, v1, v2⟩ := hrest hsome
  refine ⟨h5, hmj, hmn, c2, os2, hr2, hl2, hp2, ?_⟩
  simp only [ProtocolDetectConn.protocolVersion, Id.run, pure, v1, v2]

/-- **The version bytes (translated code).**  From any state in which the header peek may start, a
`ReadFirstHeader` that returns nil leaves in `(major, minor)` bytes 1 and 2 of the bytes that were pending — for a
fresh connection: of the client's stream.  `detect` switches on exactly this `major` (fact `dispatchOnMajor`,
`C20_dispatch`). -/
theorem C20_src_version_bytes (c : ProtocolDetectConn) (h : PeekInv c) (c' : ProtocolDetectConn)
    (hok : ProtocolDetectConn.ReadFirstHeader c = .ok (c', none)) :
    (pendingBytes c)[1]? = some c'.major ∧ (pendingBytes c)[2]? = some c'.minor ∧
      c'.recordHeader = (pendingBytes c).take 5 := by
  obtain ⟨c'', e, he, h1, h2, h3, hp, hmj, hmn, hfull⟩ := rfh_step c h
  rw [hok] at he
  injection he with he; injection he with hc hee
  subst hc; subst hee
  have h5 := hfull rfl
  have hheld : held c' = c'.recordHeader := held_full (Or.inr (by rw [h1, h5]; decide))
  rw [← hp]
  unfold pendingBytes
  rw [hheld]
  refine ⟨?_, ?_, ?_⟩
  · rw [List.getElem?_append_left (by rw [h1]; decide)]; exact hmj
  · rw [List.getElem?_append_left (by rw [h1]; decide)]; exact hmn
  · rw [List.take_left' h1]

/-- **The translated code computes the model** (`Model.PA` with the parameters `factsP` has — this is what makes
`headerLen := 5`, `majorIndex := 1`, `minorIndex := 2`, `resumable := true` there facts of the source).  Under the
abstraction `cPD` / `cScript` (model event `data c` ↦ a step with `c` and no error, `timeout` ↦ an empty step with
an error), for every model script:
  * `goTransport.Read` = `tRead`, `goTransport.readFull` = `readFull` + `readFullErr`, for every buffer;
  * `ProtocolDetectConn.Read` = `pdRead` in every state, for every buffer;
  * `ProtocolDetectConn.ReadFirstHeader` = `readFirstHeader factsP` in every state of the invariant `J` (which
    holds initially and is kept by `readFirstHeader`, and by `pdRead` once the header is complete), and neither
    panics; hence `k` retried header peeks and any sequence of reads compute the model's states, bytes and
    errors. -/
theorem C20_src_refines_model :
    TreeP factsP ∧
    (∀ (evs : List Ev) (b : List (BitVec 8)),
      goTransport.Read { script := cScript evs } b =
        .ok ({ script := cScript (tRead evs b.length).2.2 },
          bv (tRead evs b.length).1 ++ b.drop (tRead evs b.length).1.length,
          ((tRead evs b.length).1.length : Int), (tRead evs b.length).2.1.map cErr)) ∧
    (∀ (evs : List Ev) (buf : List (BitVec 8)),
      goTransport.readFull { script := cScript evs } buf =
        .ok ({ script := cScript (readFull evs buf.length).2.2 },
          bv (readFull evs buf.length).1 ++ buf.drop (readFull evs buf.length).1.length,
          ((readFull evs buf.length).1.length : Int),
          (readFullErr (readFull evs buf.length).1.length buf.length (readFull evs buf.length).2.1).map cErr)) ∧
    (∀ (s : PD) (b : List (BitVec 8)),
      ProtocolDetectConn.Read (cPD s) b =
        .ok (cPD (pdRead s b.length).2.2, bv (pdRead s b.length).1 ++ b.drop (pdRead s b.length).1.length,
          ((pdRead s b.length).1.length : Int), (pdRead s b.length).2.1.map cErr)) ∧
    (∀ s : PD, J s →
      ProtocolDetectConn.ReadFirstHeader (cPD s) =
          .ok (cPD (readFirstHeader factsP s).2, rfhErr (readFirstHeader factsP s).1) ∧
        (readFirstHeader factsP s).1 ≠ .panic ∧ J (readFirstHeader factsP s).2) ∧
    (∀ evs : List Ev, J { evs := evs }) ∧
    (∀ (s : PD) (n : Nat), J s → MFull s → J (pdRead s n).2.2 ∧ MFull (pdRead s n).2.2) ∧
    (∀ (k : Nat) (s : PD), J s →
      run (cPD s) (List.replicate k .rfh) =
        .ok (cPD (rfhs factsP k s).2, (rfhs factsP k s).1.map fun r => { bytes := [], err := rfhErr r })) ∧
    (∀ (bufs : List (List (BitVec 8))) (s : PD),
      run (cPD s) (bufs.map .read) =
        .ok (cPD (reads s (bufs.map List.length)).2,
          (reads s (bufs.map List.length)).1.map fun o => { bytes := bv o.1, err := o.2.map cErr })) := by
  have hP : TreeP factsP := ⟨rfl, rfl, rfl, rfl⟩
  refine ⟨hP, tie_Read, tie_readFull, tie_pdRead, ?_, J_init, J_pdRead, ?_, tie_reads⟩
  · intro s h
    obtain ⟨h1, h2⟩ := tie_readFirstHeader factsP hP s h.pre
    exact ⟨h1, h2, J_readFirstHeader factsP hP s h⟩
  · intro k s h
    exact (tie_rfhs factsP hP k s h).1

/-- non-vacuity, and the shapes the model's transport cannot express: a read time-out after two header bytes, a
step that carries data AND an error, the first record split over three steps.  Four `ReadFirstHeader` calls
(two fail, the third completes the header, the fourth is a no-op), then `Read`s with buffers 3, 4, 4, 1: the
stream comes out whole, then `io.EOF`. -/
def srcScript1 : List readStep :=
  [⟨[22#8, 1#8], none⟩, ⟨[], some .other⟩, ⟨[1#8, 0#8], some .other⟩, ⟨[9#8, 77#8, 78#8], none⟩, ⟨[79#8], none⟩]

example : (run (srcFresh srcScript1) [.rfh, .rfh, .rfh, .rfh, .read [0#8, 0#8, 0#8], .read [0#8, 0#8, 0#8, 0#8],
      .read [0#8, 0#8, 0#8, 0#8], .read [0#8]]).toOption.map (·.2)
    = some [⟨[], some .other⟩, ⟨[], some .other⟩, ⟨[], none⟩, ⟨[], none⟩, ⟨[22#8, 1#8, 1#8], none⟩,
        ⟨[0#8, 9#8, 77#8, 78#8], none⟩, ⟨[79#8], none⟩, ⟨[], some .eof⟩] := by decide

example : ((run (srcFresh srcScript1) [.rfh, .rfh, .rfh]).toOption.map
      fun r => (ProtocolDetectConn.protocolVersion r.1, r.1.recordHeader))
    = some ((1#8, 1#8), [22#8, 1#8, 1#8, 0#8, 9#8]) ∧ scriptData srcScript1 = [22#8, 1#8, 1#8, 0#8, 9#8, 77#8, 78#8, 79#8] := by
  decide

/-- the hypothesis `Disciplined` of `C20_src_no_byte_lost` is needed, i.e. the translated code (and the Go code)
does lose / invent bytes under the two call orders it excludes — orders `detect` never produces (it installs the
serving stack only after `ReadFirstHeader` returned nil and never calls it again), but `ProtocolDetectConn` is an
exported type:
(1) a `Read` while the header is incomplete hands the UNFILLED part of the buffer to the caller as data
    (`22 1` were read, `0 0 0` are buffer zeros); -/
example : (run (srcFresh srcScript1) [.rfh, .read [7#8, 7#8, 7#8, 7#8, 7#8, 7#8]]).toOption.map (·.2)
    = some [⟨[], some .other⟩, ⟨[22#8, 1#8, 0#8, 0#8, 0#8, 1#8], none⟩] := by decide

/-- (2) a `ReadFirstHeader` after a `Read` that took only part of the header re-makes the buffer and drops the
rest of the header (`1 0 2` never come out). -/
example : (run (srcFresh [⟨[22#8, 1#8, 1#8, 0#8, 2#8, 50#8, 51#8], none⟩])
      [.rfh, .read [0#8, 0#8], .rfh, .read [0#8, 0#8, 0#8, 0#8, 0#8, 0#8, 0#8, 0#8]]).toOption.map (·.2)
    = some [⟨[], none⟩, ⟨[22#8, 1#8], none⟩, ⟨[], some .unexpectedEOF⟩, ⟨[50#8, 51#8, 0#8, 0#8, 0#8], some .eof⟩] := by
  decide

end Src

end Gotlcp.Props.C20

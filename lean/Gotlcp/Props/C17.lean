/-
C17 — fragmented handshake messages reassemble exactly, for any fragmentation (DTLCP).

Property theorems only (helpers are in `Gotlcp.Lemmas.Fragment`).  Every statement
quantifies over every message length, every fragment list (any order, overlap,
duplication, gaps, out-of-range fragments) and, for the sender, every fragment body size.
Model: `Gotlcp.Model.Fragment` (fragmentBuffer, writeHandshakeRecord, the fragment branch of
readHandshake); spec: `Gotlcp.Spec.FragmentSpec` (coverage as a set of byte indices).
-/
import Gotlcp.Lemmas.Fragment
import Gotlcp.Generated.Facts
import Gotlcp.Tie.Fragment

set_option linter.unusedSimpArgs false
set_option linter.unusedVariables false

namespace Gotlcp.Props.C17
open Gotlcp.Model.Fragment
open Gotlcp.Lemmas.Fragment
open Gotlcp.Spec

/-- The source shapes this model transcribes (regenerated from the Go AST on every run):
the floor of `newFragmentBuffer`, the bounds guard, copy and bit loop of `addFragment`, the
full/rem/mask expressions and tests of `complete`, `assembled`; the guards, their order,
the calls and the rebuilt header of `readHandshake`; the splitting arithmetic of
`writeHandshakeRecord`; the constants 12 / 65536 / 256. -/
-- (The statement-text facts about dtlcp/fragment.go that used to be pinned here — guard, copy, bit loop, masks —
-- are superseded by the tie by translation: `Gotlcp.Tie.Fragment` proves the TRANSLATED functions equal to the
-- model for all inputs, which is insensitive to renamings and equivalent re-arrangements of the text.)
-- (Likewise the statement-text facts about the SENDER `writeHandshakeRecord` — single-record test, `maxFragBody`,
-- `fragEnd` and its clamp, the loop header — are no longer pinned: the function is translated on every run and
-- `Gotlcp.Tie.TxFragment` / `Gotlcp.Tie.TxFragmentModel` prove the translated text equal to the model
-- `writeHandshake` for all inputs (`C17_src_tx_is_model` in Props/C17SrcTx.lean).  The extractor still emits
-- `txSingleWhenFits`, `txMaxFragBody`, `txFragEnd`, `txLoop`, … for information; a renamed local leaves them
-- empty without breaking anything.)
theorem C17_facts :
    Facts.missing = [] ∧
    Facts.dtlcp.dtlcpHeaderLen = 12 ∧ Facts.dtlcp.maxHandshake = FragmentSpec.maxHandshake ∧
    Facts.dtlcp.maxHandshakeFragments = FragmentSpec.maxFragmentIterations ∧
    Facts.dtlcp.rxFragmentCapFatal = true ∧ Facts.dtlcp.rxTooLongFatal = true ∧ Facts.dtlcp.rxOobFatal = true ∧
    Facts.dtlcp.rxTooLongBeforeOob = true ∧ Facts.dtlcp.rxFragmentBranch = true ∧
    Facts.dtlcp.rxAddCall = "fb.addFragment(uint24(fragOff), uint24(fragLen), data[dtlcpHeaderLen:])" ∧
    Facts.dtlcp.rxNewCall = "newFragmentBuffer(uint24(bodyLen))" ∧
    Facts.dtlcp.rxRebuiltHeader = ["data[0]", "data[1]", "data[2]", "data[3]", "data[4]", "data[5]",
                                   "0", "0", "0", "data[1]", "data[2]", "data[3]"] ∧
    Facts.dtlcp.rxBodyLen = "int(data[1])<<16 | int(data[2])<<8 | int(data[3])" ∧
    Facts.dtlcp.rxFragOff = "int(data[6])<<16 | int(data[7])<<8 | int(data[8])" ∧
    Facts.dtlcp.rxFragLen = "int(data[9])<<16 | int(data[10])<<8 | int(data[11])" := by
  decide

/-- The repair of finding F19 is present in the tree: a fragment whose announced message
length differs from the buffer pending for its `message_seq` is refused.  The receiver
theorems below that mention `Facts.dtlcp.rxTotalMismatchFatal` need it. -/
theorem C17_total_mismatch_refused : Facts.dtlcp.rxTotalMismatchFatal = true := by decide

/-! ### stale-buffer cleanup: reassembly does not depend on the configured clock -/

/-- Both ends of the age computation read the SAME clock (regenerated from the Go AST on every run):
the only stamp of a reassembly buffer is `fb.receivedAt = <clock>` in `addFragment`, every source of the
"now" that `cleanupStaleFragments` compares with it is that same expression, the comparison is
`now.Sub(fb.receivedAt) > timeout` and the timeout the receive path passes is the 30 s constant. An
injectable clock (`Config.Time`) at ONE of the two sites makes the age of a buffer a difference across two
clocks: with a configured clock more than 30 s ahead every pending buffer looks stale when the next
fragment arrives and no message of two or more fragments ever completes (`C17_two_clocks_witness`). -/
theorem C17_facts_one_clock :
    Facts.dtlcp.fragStampClock ≠ "" ∧
    Facts.dtlcp.fragCleanupClocks = [Facts.dtlcp.fragStampClock] ∧
    Facts.dtlcp.fragCleanupCond = "now.Sub(fb.receivedAt) > timeout" ∧
    Facts.dtlcp.fragCleanupTimeoutSeconds = 30 ∧
    Facts.missing = [] := by
  decide

/-- **The cleanup is blind to the offset and to the choice of the clock, as long as it is ONE clock.**
When stamps and "now" come from the same clock, shifted by any offset `k` against real time (a configured
time source hours or years away from the wall clock), the cleanup keeps exactly the buffers it keeps with
the unshifted clock: only the elapsed time counts. -/
theorem C17_cleanup_offset_free (k t timeout : Int) (st : Stamped) :
    cleanupAt (fun x => x + k) (fun x => x + k) t timeout st = cleanupAt id id t timeout st := by
  unfold cleanupAt staleAt
  congr 1
  funext e
  have : t + k - (e.2 + k) = t - e.2 := by omega
  simp [this]

/-- **No buffer is dropped before the timeout has really passed.** With one clock that does not run
backwards faster than real time (`clk t − clk s ≤ t − s` is all that is used: wall clock, shifted, another
epoch), a cleanup at real time `t` keeps every buffer stamped at most `timeout` before `t` — so inside
one flight, where fragments follow each other within the timeout, reassembly proceeds exactly as without
the cleanup (which is what the model of `readHandshake` and every receiver theorem assume). -/
theorem C17_cleanup_keeps_recent (clk : Int → Int) (t timeout : Int) (st : Stamped)
    (hclk : ∀ e ∈ st, clk t - clk e.2 ≤ t - e.2) (hrecent : ∀ e ∈ st, t - e.2 ≤ timeout) :
    cleanupAt clk clk t timeout st = st := by
  unfold cleanupAt staleAt
  apply List.filter_eq_self.mpr
  intro e he
  have h1 := hclk e he
  have h2 := hrecent e he
  simp only [Bool.not_eq_true', decide_eq_false_iff_not]
  omega

/-- Two clocks (the seeded defect's witness): stamps from the wall clock, "now" from a configured clock
one hour ahead — a buffer stamped in the same instant (age 0) is dropped; with one clock it is kept. -/
theorem C17_two_clocks_witness :
    cleanupAt id (fun x => x + 3600 * 1000000000) 5 (30 * 1000000000) [(7, 5)] = [] ∧
    cleanupAt (fun x => x + 3600 * 1000000000) (fun x => x + 3600 * 1000000000) 5 (30 * 1000000000) [(7, 5)] = [(7, 5)] := by
  decide

/-! ### the reassembly buffer -/

/-- `numBytes` of the buffer `newFragmentBuffer(total)` creates -/
def numBytes (total : Nat) : Nat := if total < 1 then 1 else total

/-- **Bitmask invariant.** For every announced length and every fragment list: the buffer
reports complete iff every byte index below `numBytes` lies in a fragment that was accepted
(the spec's coverage set).  Includes the `n & 7` tail mask and whole-byte 0xFF test. -/
theorem C17_complete_iff_covered (total : Nat) (fs : List Frag) :
    complete (run (newBuf total) fs).1 = true ↔
      ∀ i < numBytes total, FragmentSpec.covered (numBytes total) (fs.map toSpec) i = true := by
  rw [complete_iff_tb, run_n]
  have hn : (newBuf total).n = numBytes total := rfl
  rw [hn]
  constructor
  · intro h i hi
    have := h i hi
    rw [run_tb _ _ (newBuf_wf _), newBuf_tb, hn] at this
    simpa using this
  · intro h i hi
    rw [run_tb _ _ (newBuf_wf _), newBuf_tb, hn]
    simp [h i hi]

/-- for a non-empty message this is exactly the spec's completeness predicate -/
theorem C17_complete_iff_spec (total : Nat) (h : 0 < total) (fs : List Frag) :
    complete (run (newBuf total) fs).1 = FragmentSpec.isComplete total (fs.map toSpec) := by
  have hn : numBytes total = total := by unfold numBytes; split <;> omega
  have := C17_complete_iff_covered total fs
  rw [hn, ← isComplete_iff] at this
  exact Bool.eq_iff_iff.mpr this

/-- **Empty messages.** `newFragmentBuffer(0)` allocates one byte: the buffer behaves as a
buffer for a ONE-byte message (complete only after a fragment covering index 0 was accepted,
`assembled` has length 1), unlike the spec, for which an empty message is complete at once.
`C17_empty_unreachable` shows `readHandshake` never creates such a buffer. -/
theorem C17_empty_message (fs : List Frag) :
    (complete (run (newBuf 0) fs).1 = true ↔ FragmentSpec.covered 1 (fs.map toSpec) 0 = true) ∧
    (assembled (run (newBuf 0) fs).1).length = 1 := by
  constructor
  · rw [C17_complete_iff_covered]
    constructor
    · intro h; exact h 0 (by decide)
    · intro h i hi
      have : i = 0 := by simp [numBytes] at hi; omega
      subst this; exact h
  · unfold assembled
    rw [(run_wf _ fs (newBuf_wf 0)).dlen, run_n]; rfl

/-- the accept bit of every `addFragment` is the spec's admissibility test -/
theorem C17_accept_iff_admissible (total : Nat) (fs : List Frag) :
    (run (newBuf total) fs).2 = fs.map fun f => (toSpec f).admissible (numBytes total) :=
  run_oks _ _

/-- **Out-of-range fragments are rejected and change nothing** (any buffer state). -/
theorem C17_reject_oob (fb : FragBuf) (off len : Nat) (frag : Bytes) (h : off + len > fb.n) :
    addFragment fb off len frag = (fb, false) := by
  unfold addFragment; simp [h]

/-- **Never partial.** If some byte index of the message is not covered by an accepted
fragment, the buffer is not complete — whatever else was received. -/
theorem C17_never_partial (total : Nat) (h : 0 < total) (fs : List Frag) (i : Nat) (hi : i < total)
    (hun : FragmentSpec.covered total (fs.map toSpec) i = false) :
    complete (run (newBuf total) fs).1 = false := by
  rw [C17_complete_iff_spec total h]
  apply Bool.eq_false_iff.mpr
  intro hc
  have := (isComplete_iff _ _).mp hc i hi
  rw [hun] at this; exact absurd this (by simp)

/-- **Exact reassembly.** Fragments that carry bytes of `m` (those within range; others are
rejected anyway), in any order, with any overlap and duplication: once complete, the
assembled bytes are exactly `m`. -/
theorem C17_assembled_exact (m : Bytes) (hm : 0 < m.length) (fs : List Frag)
    (hc : ∀ f ∈ fs, f.off + f.len ≤ m.length → Consistent m f)
    (hcomp : complete (run (newBuf m.length) fs).1 = true) :
    assembled (run (newBuf m.length) fs).1 = m :=
  run_exact m hm fs hc hcomp

/-- … and it is complete as soon as the fragments cover `m` (so: rebuilt exactly when covered) -/
theorem C17_rebuilt_when_covered (m : Bytes) (hm : 0 < m.length) (fs : List Frag)
    (hc : ∀ f ∈ fs, f.off + f.len ≤ m.length → Consistent m f)
    (hcov : FragmentSpec.isComplete m.length (fs.map toSpec) = true) :
    complete (run (newBuf m.length) fs).1 = true ∧ assembled (run (newBuf m.length) fs).1 = m := by
  have h1 : complete (run (newBuf m.length) fs).1 = true := by rw [C17_complete_iff_spec _ hm]; exact hcov
  exact ⟨h1, run_exact m hm fs hc h1⟩

theorem covered_perm (n : Nat) (fs fs' : List Frag) (hp : fs.Perm fs') (i : Nat) :
    FragmentSpec.covered n (fs.map toSpec) i = FragmentSpec.covered n (fs'.map toSpec) i := by
  unfold FragmentSpec.covered
  exact (hp.map toSpec).any_eq

/-- **Order independence, stated outright.** Two arrival orders of the same fragments (any permutation of
the list, duplicates and overlaps included): the buffer is complete after the one iff after the other,
and when the fragments carry bytes of `m` a complete buffer holds the same bytes — `m` — under both. -/
theorem C17_order_independent (m : Bytes) (hm : 0 < m.length) (fs fs' : List Frag) (hp : fs.Perm fs')
    (hc : ∀ f ∈ fs, f.off + f.len ≤ m.length → Consistent m f) :
    complete (run (newBuf m.length) fs).1 = complete (run (newBuf m.length) fs').1 ∧
    (complete (run (newBuf m.length) fs).1 = true →
      assembled (run (newBuf m.length) fs).1 = m ∧ assembled (run (newBuf m.length) fs').1 = m) := by
  have hcomp : complete (run (newBuf m.length) fs).1 = complete (run (newBuf m.length) fs').1 := by
    rw [C17_complete_iff_spec _ hm, C17_complete_iff_spec _ hm]
    unfold FragmentSpec.isComplete
    congr 1
    funext i
    exact covered_perm _ _ _ hp i
  refine ⟨hcomp, fun h => ⟨run_exact m hm fs hc h, ?_⟩⟩
  have hc' : ∀ f ∈ fs', f.off + f.len ≤ m.length → Consistent m f :=
    fun f hf => hc f (hp.mem_iff.mpr hf)
  exact run_exact m hm fs' hc' (hcomp ▸ h)

/-- non-vacuity: three bytes in two overlapping fragments, both arrival orders, complete and equal -/
example :
    let m : Bytes := [1, 2, 3]
    let a : Frag := ⟨0, 2, [1, 2]⟩
    let b : Frag := ⟨1, 2, [2, 3]⟩
    complete (run (newBuf m.length) [a, b]).1 = true ∧ assembled (run (newBuf m.length) [a, b]).1 = m ∧
    complete (run (newBuf m.length) [b, a]).1 = true ∧ assembled (run (newBuf m.length) [b, a]).1 = m ∧
    complete (run (newBuf m.length) [a]).1 = false := by decide

/-! ### sender ∘ receiver -/

/-- **Sender/receiver round trip at buffer level, independent of the path MTU.** For every
body and every fragment body size `mfb > 0`: feeding the sender's fragments — in any order,
any number of times each — rebuilds exactly `body`.  The right-hand side does not mention
`mfb`: the reassembled message, hence the transcript, is the same for every PMTU. -/
theorem C17_sender_receiver (body : Bytes) (hb : 0 < body.length) (mfb : Nat) (hm : 0 < mfb)
    (l : List Frag) (hsub : ∀ f ∈ l, f ∈ fragmentize body mfb) (hall : ∀ f ∈ fragmentize body mfb, f ∈ l) :
    complete (run (newBuf body.length) l).1 = true ∧ assembled (run (newBuf body.length) l).1 = body := by
  apply C17_rebuilt_when_covered body hb l
  · intro f hf _; exact (fragmentize_consistent body mfb f (hsub f hf)).2.1
  · rw [isComplete_iff]
    intro i hi
    apply covered_of_subset _ ((fragmentize body mfb).map toSpec)
    · intro f hf
      obtain ⟨g, hg, rfl⟩ := List.mem_map.mp hf
      exact List.mem_map.mpr ⟨g, hall g hg, rfl⟩
    · exact fragmentize_covers body mfb hm i hi

/-- every fragment the sender emits fits the record payload budget: 12 + len ≤ maxPayload -/
theorem C17_sender_fragment_fits (body : Bytes) (maxPayload : Nat) (h : Facts.dtlcp.dtlcpHeaderLen < maxPayload)
    (f : Frag) (hf : f ∈ fragmentize body (maxPayload - Facts.dtlcp.dtlcpHeaderLen)) :
    (header 0 0 0 0 0).length + f.body.length ≤ maxPayload := by
  obtain ⟨_, _, hl, hm⟩ := fragmentize_consistent body _ f hf
  have : Facts.dtlcp.dtlcpHeaderLen = 12 := by decide
  rw [this] at hm h
  simp [header, be3, be2]; omega

/-! ### the receive path (`readHandshake`) -/

/-- `readHandshake` with this tree's constants -/
def recvHere := recv Facts.dtlcp.rxTotalMismatchFatal Facts.dtlcp.maxHandshake Facts.dtlcp.maxHandshakeFragments

/-- **Receiver refuses fragments that exceed the announced length**: fatal, table unchanged. -/
theorem C17_recv_reject_oob (b : Bool) (maxHs fuel : Nat) (st : Pending) (m : FragMsg) (ms : List FragMsg)
    (hlen : m.total ≤ maxHs) (h : m.off + m.len > m.total) :
    recv b maxHs (fuel + 1) st (m :: ms) = (st, .fatal .oob, m :: ms) := by
  unfold recv check
  have : ¬ m.total > maxHs := by omega
  simp [this, h]

/-- **No buffer for an empty message**: the fragment branch is entered only for `total > 0`,
so the one-byte anomaly of `C17_empty_message` cannot be reached from the network. -/
theorem C17_empty_unreachable (b : Bool) (maxHs : Nat) (st : Pending) (m : FragMsg)
    (hinv : PInv maxHs st) (hck : check maxHs m.total m.off m.len = none) :
    PInv maxHs (apply b st m).1 :=
  (apply_inv b maxHs st m hinv hck).1

/-- **The receiver never delivers a partially covered message.** Whatever `readHandshake`
returns is either an unfragmented message taken verbatim, or `rebuilt header ++ data` of a
buffer all of whose byte indices were covered by accepted fragments; with the repair of F19
in the tree (`C17_total_mismatch_refused`) the header announces exactly the buffer's length. -/
theorem C17_recv_never_partial (st st' : Pending) (ms rest : List FragMsg) (d : Bytes)
    (hinv : PInv Facts.dtlcp.maxHandshake st) (h : recvHere st ms = (st', .msg d, rest)) :
    ∃ m ∈ ms, (¬ (m.len < m.total ∨ m.off > 0) ∧ d = header m.typ m.total m.seq m.off m.len ++ m.payload) ∨
      ∃ fs body, d = header m.typ m.total m.seq 0 m.total ++ body ∧ body.length = m.total ∧ 0 < m.total ∧
        body = assembled (run (newBuf m.total) fs).1 ∧
        ∀ i < m.total, FragmentSpec.covered m.total (fs.map toSpec) i = true := by
  obtain ⟨m, hm, _, hd⟩ := recv_msg _ _ _ st st' ms rest d hinv h
  refine ⟨m, hm, ?_⟩
  rcases hd with hd | ⟨fb, fs, hp, hfs, hc, hdd, htot⟩
  · exact Or.inl hd
  · right
    have ht : fb.total = m.total := htot C17_total_mismatch_refused
    have hsz := reach_sizes fb ⟨fs, hfs⟩ hp
    refine ⟨fs, fb.data, hdd, by rw [hsz.2.1, ht], by omega, ?_, ?_⟩
    · unfold assembled; rw [← ht, ← hfs]
    · have hcov := (C17_complete_iff_covered fb.total fs).mp (by rw [← hfs]; exact hc)
      have hn : numBytes fb.total = fb.total := by unfold numBytes; split <;> omega
      rw [hn, ht] at hcov
      exact hcov

/-- **Receiver rebuilds exactly, for any fragmentation.** Any list of genuine fragments of a
message `m` (each strictly smaller than `m` or at a non-zero offset) that jointly cover it —
any order, overlap, duplication — and is not longer than the iteration budget makes
`readHandshake` return `header ++ m`, byte for byte. -/
theorem C17_recv_exact (typ seq : Nat) (m : Bytes) (hm : 0 < m.length) (hmax : m.length ≤ Facts.dtlcp.maxHandshake)
    (fs : List Frag) (hfuel : fs.length ≤ Facts.dtlcp.maxHandshakeFragments)
    (hfs : ∀ f ∈ fs, f.off + f.len ≤ m.length ∧ Consistent m f ∧ (f.len < m.length ∨ f.off > 0))
    (hcov : FragmentSpec.isComplete m.length (fs.map toSpec) = true) :
    ∃ st' rest, recvHere [] (fs.map (msgOf typ m.length seq))
      = (st', .msg (header typ m.length seq 0 m.length ++ m), rest) := by
  apply recv_exact _ _ typ seq m hm hmax _ [] [] fs hfuel hfs (by simp)
  · simp [bufOf, lookup, run]
  · have : bufOf [] seq m.length = (run (newBuf m.length) []).1 := by simp [bufOf, lookup, run]
    rw [this]
    apply Bool.eq_false_iff.mpr
    intro hc
    have := (C17_complete_iff_spec m.length hm []).symm ▸ hc
    have h0 := (isComplete_iff _ _).mp this 0 hm
    simp [FragmentSpec.covered] at h0
  · simpa using (isComplete_iff _ _).mp hcov

/-- **End to end, for every PMTU.** What `writeHandshakeRecord` emits for a body larger than
the fragment size `mfb > 0` is reassembled by `readHandshake` to exactly the unfragmented
encoding `header ++ body` — the bytes both transcripts hash — provided the number of
fragments stays within the receiver's iteration cap (this is what "smallest workable PMTU"
means: `⌈|body| / mfb⌉ ≤ maxHandshakeFragments`). -/
theorem C17_sender_receiver_conn (typ seq : Nat) (body : Bytes) (mfb : Nat) (hm : 0 < mfb) (hbig : mfb < body.length)
    (hmax : body.length ≤ Facts.dtlcp.maxHandshake)
    (hcnt : (fragmentize body mfb).length ≤ Facts.dtlcp.maxHandshakeFragments) :
    ∃ st' rest, recvHere [] ((fragmentize body mfb).map (msgOf typ body.length seq))
      = (st', .msg (header typ body.length seq 0 body.length ++ body), rest) := by
  apply C17_recv_exact typ seq body (by omega) hmax _ hcnt
  · intro f hf
    obtain ⟨h1, h2, _, h4⟩ := fragmentize_consistent body mfb f hf
    exact ⟨h1, h2, Or.inl (by omega)⟩
  · rw [isComplete_iff]; intro i hi; exact fragmentize_covers body mfb hm i hi

/-- **Bounded pending state.** One `readHandshake` call adds at most `maxHandshakeFragments`
buffers, every pending buffer holds `total ≤ maxHandshake` data bytes and `⌈total/8⌉` mask
bytes, and `total > 0`.  (The bound is per call: buffers keyed by an attacker-chosen
`message_seq` survive the call — see the report for the size this allows.) -/
theorem C17_bounded_state (st : Pending) (ms : List FragMsg) (hinv : PInv Facts.dtlcp.maxHandshake st) :
    (recvHere st ms).1.length ≤ st.length + Facts.dtlcp.maxHandshakeFragments ∧
    ∀ p ∈ (recvHere st ms).1, 0 < p.2.total ∧ p.2.total ≤ Facts.dtlcp.maxHandshake ∧
      p.2.data.length = p.2.total ∧ p.2.received.length = (p.2.total + 7) / 8 := by
  obtain ⟨hi, hl⟩ := recv_bound Facts.dtlcp.rxTotalMismatchFatal Facts.dtlcp.maxHandshake
    Facts.dtlcp.maxHandshakeFragments st ms hinv
  refine ⟨hl, ?_⟩
  intro p hp
  obtain ⟨r, hpos, hle⟩ := hi p hp
  have := reach_sizes p.2 r hpos
  exact ⟨hpos, hle, this.2.1, this.2.2⟩

/-- a sequence of `readHandshake` calls (each with the fragment messages that arrive for it) -/
def session : Pending → List (List FragMsg) → Pending
  | st, [] => st
  | st, ms :: calls => session (recvHere st ms).1 calls

/-- over a whole handshake: at most `calls × maxHandshakeFragments` buffers are ever pending -/
theorem C17_bounded_session (calls : List (List FragMsg)) (st : Pending) (hinv : PInv Facts.dtlcp.maxHandshake st) :
    (session st calls).length ≤ st.length + calls.length * Facts.dtlcp.maxHandshakeFragments ∧
    PInv Facts.dtlcp.maxHandshake (session st calls) := by
  induction calls generalizing st with
  | nil => exact ⟨by simp [session], hinv⟩
  | cons ms calls ih =>
    obtain ⟨hi, hl⟩ := recv_bound Facts.dtlcp.rxTotalMismatchFatal Facts.dtlcp.maxHandshake
      Facts.dtlcp.maxHandshakeFragments st ms hinv
    obtain ⟨h1, h2⟩ := ih (recvHere st ms).1 hi
    refine ⟨?_, h2⟩
    simp only [session, List.length_cons]
    have e : (recvHere st ms).1.length ≤ st.length + Facts.dtlcp.maxHandshakeFragments := hl
    rw [Nat.succ_mul]
    omega

/-! ### the transcript does not depend on the path MTU -/

theorem header_length (typ total seq off len : Nat) : (header typ total seq off len).length = 12 := by
  simp [header, be3, be2]

/-- what `writeHandshakeRecord` puts on the wire for the message `header ++ body` is the
encoding of `txMsgs`: the whole message in one record when it fits, otherwise one record per
fragment, each carrying the message's own type, length and `message_seq` (read back from the
marshalled header bytes) and its offset / length. -/
theorem C17_wire_is_txMsgs (typ seq : Nat) (htyp : typ < 256) (hseq : seq < 65536) (body : Bytes) (mp : Nat) (hmp : 12 < mp) :
    writeHandshake (header typ body.length seq 0 body.length ++ body) mp =
      if 12 + body.length ≤ mp then .single (header typ body.length seq 0 body.length ++ body)
      else .frags ((txMsgs typ seq body mp).map FragMsg.encode) := by
  have hl := header_length typ body.length seq 0 body.length
  unfold writeHandshake
  simp only [List.length_append, hl]
  by_cases h1 : 12 + body.length ≤ mp
  · simp [h1]
  · have h2 : ¬ 12 + body.length ≤ 12 := by omega
    have h3 : ¬ mp ≤ 12 := by omega
    simp only [h1, h2, h3, if_false]
    have ht : (header typ body.length seq 0 body.length ++ body).take 12 = header typ body.length seq 0 body.length := by
      rw [List.take_append_of_le_length (by omega), List.take_of_length_le (by omega)]
    have hd : (header typ body.length seq 0 body.length ++ body).drop 12 = body := by
      rw [List.drop_append_of_le_length (by omega), List.drop_of_length_le (by omega)]; rfl
    rw [ht, hd]
    have e0 : ((header typ body.length seq 0 body.length).getD 0 0).toNat = typ := by
      simp [header, UInt8.toNat_ofNat']; omega
    have e45 : ((header typ body.length seq 0 body.length).getD 4 0).toNat <<< 8 |||
        ((header typ body.length seq 0 body.length).getD 5 0).toNat = seq := by
      simp only [header, be3, be2, List.cons_append, List.nil_append, List.getD_eq_getElem?_getD]
      simp only [List.getElem?_cons_succ, List.getElem?_cons_zero, Option.getD_some, UInt8.toNat_ofNat']
      rw [← Nat.shiftLeft_add_eq_or_of_lt (by omega)]
      simp only [Nat.shiftRight_eq_div_pow, Nat.shiftLeft_eq]
      omega
    rw [e0, e45]
    simp only [txMsgs, h1, if_false, List.map_map]
    congr 1

/-- **The bytes both transcripts hash are the same for every path MTU.** The sender hashes
the unfragmented encoding `data` before it splits the message (`writeHandshakeT`, pinned by
`C17_transcript_facts`); whatever record payload size `mp > 12` the sender's PMTU gives —
one record, or any number of fragments within the receiver's iteration cap — the message
`readHandshake` delivers (and hashes) is exactly `data`: the header normalised to
fragment_offset 0 and fragment_length = length, followed by the body. So the Finished values
are computed over the unfragmented form on both sides, independently of either PMTU. -/
theorem C17_transcript_pmtu_independent (typ seq : Nat) (body : Bytes) (mp : Nat) (hmp : 12 < mp)
    (hmax : body.length ≤ Facts.dtlcp.maxHandshake)
    (hcnt : (fragmentize body (mp - 12)).length ≤ Facts.dtlcp.maxHandshakeFragments) :
    (writeHandshakeT (header typ body.length seq 0 body.length ++ body) mp).1
        = header typ body.length seq 0 body.length ++ body ∧
    ∃ st' rest, recvHere [] (txMsgs typ seq body mp)
        = (st', .msg (header typ body.length seq 0 body.length ++ body), rest) := by
  refine ⟨rfl, ?_⟩
  unfold txMsgs
  by_cases h1 : 12 + body.length ≤ mp
  · simp only [h1, if_true]
    have hf : Facts.dtlcp.maxHandshakeFragments = 255 + 1 := by decide
    unfold recvHere
    rw [hf]
    unfold recv
    have hck : check Facts.dtlcp.maxHandshake body.length 0 body.length = none := by
      unfold check
      have a : ¬ body.length > Facts.dtlcp.maxHandshake := by omega
      have b : ¬ 0 + body.length > body.length := by omega
      simp [a, b]
    simp only [hck]
    rw [apply_whole _ _ _ (by simp)]
    exact ⟨_, _, rfl⟩
  · simp only [h1, if_false]
    exact C17_sender_receiver_conn typ seq body (mp - 12) (by omega) (by omega) hmax hcnt

/-- two endpoints (or two runs) with different PMTUs hash the same bytes for the same message -/
theorem C17_transcript_same_for_all_pmtu (typ seq : Nat) (body : Bytes) (mp1 mp2 : Nat) (h1 : 12 < mp1) (h2 : 12 < mp2)
    (hmax : body.length ≤ Facts.dtlcp.maxHandshake)
    (hc1 : (fragmentize body (mp1 - 12)).length ≤ Facts.dtlcp.maxHandshakeFragments)
    (hc2 : (fragmentize body (mp2 - 12)).length ≤ Facts.dtlcp.maxHandshakeFragments) :
    ∃ d, (∃ st r, recvHere [] (txMsgs typ seq body mp1) = (st, .msg d, r)) ∧
         (∃ st r, recvHere [] (txMsgs typ seq body mp2) = (st, .msg d, r)) ∧
         d = (writeHandshakeT (header typ body.length seq 0 body.length ++ body) mp1).1 ∧
         d = (writeHandshakeT (header typ body.length seq 0 body.length ++ body) mp2).1 :=
  ⟨_, (C17_transcript_pmtu_independent typ seq body mp1 h1 hmax hc1).2,
      (C17_transcript_pmtu_independent typ seq body mp2 h2 hmax hc2).2, rfl, rfl⟩

/-- The source facts behind the receiver's hashing and the sender's treatment of the marshalled bytes: the
receiver calls `transcript.Write(data)` once, after the header was rebuilt and the message unmarshalled; the
sender's fragment loop builds every header in an array declared inside the loop and never writes into (nor hands
to a call other than `len` / as a source of `append`) the marshalled encoding or a slice of it — an effect on the
message object's cached bytes that the value semantics of the translation would not show
(`txLoopBuildsFreshHeader`, extracted without reference to the names of the locals).
That the SENDER writes the marshalled, unfragmented `data` to the transcript exactly once, whatever happens
afterwards, is no text fact any more: it is proved of the translated `writeHandshakeRecord`
(`C17_src_tx_is_model`, `C17_src_tx_fragments` in Props/C17SrcTx.lean). -/
theorem C17_transcript_facts :
    Facts.dtlcp.txLoopBuildsFreshHeader = true ∧
    Facts.dtlcp.rxTranscriptWrites = ["transcript.Write(data)"] ∧ Facts.dtlcp.rxTranscriptAfterRebuild = true := by
  decide

/-! ### non-vacuity and witnesses -/

private def b (l : List Nat) : Bytes := l.map UInt8.ofNat

/-- the hypotheses of `C17_assembled_exact` / `C17_rebuilt_when_covered` are satisfiable on a
non-trivial input: 11 bytes (tail mask in use), overlap, duplicate, reverse order, one
out-of-range fragment -/
example :
    let m := b [1,2,3,4,5,6,7,8,9,10,11]
    let fs : List Frag := [⟨8, 3, b [9,10,11]⟩, ⟨9, 3, b [0,0,0]⟩, ⟨3, 6, b [4,5,6,7,8,9]⟩, ⟨8, 3, b [9,10,11]⟩, ⟨0, 4, b [1,2,3,4]⟩]
    (run (newBuf 11) fs).2 = [true, false, true, true, true] ∧
    complete (run (newBuf 11) fs).1 = true ∧ assembled (run (newBuf 11) fs).1 = m ∧
    complete (run (newBuf 11) (fs.take 4)).1 = false := by decide

/-- a gap of one byte in the tail byte of the bitmap keeps the message incomplete -/
example : complete (run (newBuf 11) [⟨0, 10, b [1,2,3,4,5,6,7,8,9,10]⟩]).1 = false := by decide

/-- the sender at fragment size 4 and 7 and the receiver agree on an 11-byte body -/
example :
    let body := b [1,2,3,4,5,6,7,8,9,10,11]
    assembled (run (newBuf 11) (fragmentize body 4)).1 = body ∧
    assembled (run (newBuf 11) (fragmentize body 7).reverse).1 = body ∧
    (fragmentize body 4).length = 3 := by decide

/-- empty message: not complete until a fragment covers index 0; the spec says complete -/
example : complete (newBuf 0) = false ∧ FragmentSpec.isComplete 0 [] = true ∧
    (addFragment (newBuf 0) 0 1 (b [7])).2 = true := by decide

/-- **F19 (finding, on the unrepaired code = `strictTotal := false`)**: a fragment announcing
total 3 is merged into the 5-byte message pending under the same `message_seq` (bytes 1..2
overwritten), and a completing fragment that announces total 4 yields a delivered message
whose header says 4 while 5 body bytes follow (and enter the transcript).  With the repair
(`strictTotal := true`) the mismatching fragment is fatal. -/
example :
    let f0 : FragMsg := ⟨20, 5, 0, 0, 3, b [1,2,3]⟩
    let bad : FragMsg := ⟨20, 3, 0, 1, 2, b [0xaa,0xbb]⟩
    let f3 : FragMsg := ⟨20, 4, 0, 3, 1, b [4]⟩
    let f4 : FragMsg := ⟨20, 5, 0, 4, 1, b [5]⟩
    (recv false 65536 256 [] [f0, bad, f3, f3, f4]).2.1 = .msg (header 20 5 0 0 5 ++ b [1,0xaa,0xbb,4,5]) ∧
    (recv false 65536 256 [] [f0, f4, f3]).2.1 = .msg (header 20 4 0 0 4 ++ b [1,2,3,4,5]) ∧
    (recv true 65536 256 [] [f0, bad, f3, f3, f4]).2.1 = .fatal .mismatch ∧
    (recv true 65536 256 [] [f0, f4, f3]).2.1 = .fatal .mismatch := by decide

/-! ### the buffer theorems, for the TRANSLATED source

`Gotlcp.Src.dtlcp.newFragmentBuffer / fragmentBuffer.addFragment / .complete / .assembled` are
regenerated from `dtlcp/fragment.go` by `go2lean` on every run; `Gotlcp.Tie.Fragment` proves
them equal to the model for all inputs and free of panics (`tie_new`, `tie_add`,
`tie_complete`, `tie_run`, `tie_session`).  So the buffer theorems above hold of the function
text that is in the tree now.  `srcSession t fs` = `newFragmentBuffer(t)`, then `addFragment`
for every element of `fs`, then `(accept bits, complete(), assembled())`; `Except.ok` means no
run-time panic (index, slice bounds, `make`). -/

theorem C17_src_translated : Src.untranslated = [] := by decide

/-- one call of the translated `addFragment` on any well-formed buffer, any `uint32` (hence any
`uint24`) offset and length, any body: no panic, the model's step, well-formedness kept -/
theorem C17_src_add_is_model (fb : Src.dtlcp.fragmentBuffer) (h : Tie.Fragment.WF fb)
    (off len : BitVec 32) (frag : List (BitVec 8)) :
    ∃ fb' ok, Src.dtlcp.fragmentBuffer.addFragment fb off len frag = .ok (fb', ok) ∧
      (Tie.Fragment.abs fb', ok)
        = addFragment (Tie.Fragment.abs fb) off.toNat len.toNat (frag.map Tie.Fragment.ob) ∧
      Tie.Fragment.WF fb' :=
  Tie.Fragment.tie_add fb h off len frag

/-- the translated `complete` on any well-formed buffer: no panic, the model's answer -/
theorem C17_src_complete_is_model (fb : Src.dtlcp.fragmentBuffer) (h : Tie.Fragment.WF fb) :
    Src.dtlcp.fragmentBuffer.complete fb = .ok (complete (Tie.Fragment.abs fb)) :=
  Tie.Fragment.tie_complete fb h

/-- **No panic.** Any announced length, any fragment list: `copy(fb.data[offset:offset+length],
frag)`, every bitmap index in `addFragment` and `complete`, and both `make` calls stay in range. -/
theorem C17_src_never_panics (t : BitVec 32) (fs : List Tie.Fragment.SrcFrag) :
    ∃ r, Tie.Fragment.srcSession t fs = .ok r := by
  obtain ⟨d, e, _⟩ := Tie.Fragment.tie_session t fs
  exact ⟨_, e⟩

/-- **Bitmask invariant, translated source**: `complete()` answers true iff every byte index
below `numBytes` lies in an accepted fragment. -/
theorem C17_src_complete_iff_covered (t : BitVec 32) (fs : List Tie.Fragment.SrcFrag) :
    ∃ oks c d, Tie.Fragment.srcSession t fs = .ok (oks, c, d) ∧
      (c = true ↔ ∀ i < numBytes t.toNat,
        FragmentSpec.covered (numBytes t.toNat) ((fs.map Tie.Fragment.absFrag).map toSpec) i = true) := by
  obtain ⟨d, e, _⟩ := Tie.Fragment.tie_session t fs
  exact ⟨_, _, d, e, C17_complete_iff_covered t.toNat _⟩

/-- the accept bits of the translated `addFragment` are the spec's admissibility test -/
theorem C17_src_accept_iff_admissible (t : BitVec 32) (fs : List Tie.Fragment.SrcFrag) :
    ∃ c d, Tie.Fragment.srcSession t fs =
      .ok ((fs.map Tie.Fragment.absFrag).map (fun f => (toSpec f).admissible (numBytes t.toNat)), c, d) := by
  obtain ⟨d, e, _⟩ := Tie.Fragment.tie_session t fs
  rw [C17_accept_iff_admissible] at e
  exact ⟨_, d, e⟩

/-- **Out-of-range fragments are rejected and change nothing** — any buffer state at all -/
theorem C17_src_reject_oob (fb : Src.dtlcp.fragmentBuffer) (off len : BitVec 32) (frag : List (BitVec 8))
    (h : (off.toNat : Int) + (len.toNat : Int) > fb.numBytes) :
    Src.dtlcp.fragmentBuffer.addFragment fb off len frag = .ok (fb, false) := by
  unfold Src.dtlcp.fragmentBuffer.addFragment
  simp only [bind, Except.bind, pure, Except.pure, h, decide_true, if_true]

/-- **Never partial, translated source.** -/
theorem C17_src_never_partial (t : BitVec 32) (h : 0 < t.toNat) (fs : List Tie.Fragment.SrcFrag)
    (i : Nat) (hi : i < t.toNat)
    (hun : FragmentSpec.covered t.toNat ((fs.map Tie.Fragment.absFrag).map toSpec) i = false) :
    ∃ oks d, Tie.Fragment.srcSession t fs = .ok (oks, false, d) := by
  obtain ⟨d, e, _⟩ := Tie.Fragment.tie_session t fs
  rw [C17_never_partial t.toNat h _ i hi hun] at e
  exact ⟨_, d, e⟩

/-- fragment `f` carries the bytes of `m` at its offset (source-level bytes) -/
def SrcConsistent (m : List (BitVec 8)) (f : Tie.Fragment.SrcFrag) : Prop :=
  f.len.toNat ≤ f.body.length ∧ ∀ j < f.len.toNat, f.body[j]? = m[f.off.toNat + j]?

theorem srcConsistent_abs (m : List (BitVec 8)) (f : Tie.Fragment.SrcFrag) (h : SrcConsistent m f) :
    Consistent (m.map Tie.Fragment.ob) (Tie.Fragment.absFrag f) := by
  refine ⟨by simp only [Tie.Fragment.absFrag, List.length_map]; exact h.1, ?_⟩
  intro j hj
  simp only [Tie.Fragment.absFrag, List.getElem?_map]
  rw [h.2 j hj]

/-- **Exact reassembly, translated source.** Whenever the translated `complete()` says true
after fragments of `m` (any order, overlap, duplication; out-of-range ones are rejected
anyway), the translated `assembled()` returns exactly `m`. -/
theorem C17_src_assembled_exact (m : List (BitVec 8)) (hm : 0 < m.length) (hlen : m.length < 2 ^ 32)
    (fs : List Tie.Fragment.SrcFrag)
    (hc : ∀ f ∈ fs, f.off.toNat + f.len.toNat ≤ m.length → SrcConsistent m f)
    (oks : List Bool) (d : List (BitVec 8))
    (h : Tie.Fragment.srcSession (BitVec.ofNat 32 m.length) fs = .ok (oks, true, d)) : d = m := by
  obtain ⟨d', e, hd⟩ := Tie.Fragment.tie_session (BitVec.ofNat 32 m.length) fs
  have ht : (BitVec.ofNat 32 m.length).toNat = (m.map Tie.Fragment.ob).length := by
    rw [BitVec.toNat_ofNat, List.length_map]; exact Nat.mod_eq_of_lt hlen
  rw [ht] at e hd
  rw [e] at h
  injection h with h
  injection h with _ h
  injection h with hcomp hdd
  subst hdd
  have hex := C17_assembled_exact (m.map Tie.Fragment.ob) (by rw [List.length_map]; exact hm)
    (fs.map Tie.Fragment.absFrag)
    (by
      intro g hg hle
      obtain ⟨f, hf, rfl⟩ := List.mem_map.mp hg
      rw [List.length_map] at hle
      exact srcConsistent_abs m f (hc f hf hle))
    hcomp
  rw [hex] at hd
  exact (List.map_inj_right (fun x y hxy => Tie.Fragment.ob_inj.mp hxy)).mp hd

/-- … and the translated source is complete and returns exactly `m` as soon as the fragments
cover `m` -/
theorem C17_src_rebuilt_when_covered (m : List (BitVec 8)) (hm : 0 < m.length) (hlen : m.length < 2 ^ 32)
    (fs : List Tie.Fragment.SrcFrag)
    (hc : ∀ f ∈ fs, f.off.toNat + f.len.toNat ≤ m.length → SrcConsistent m f)
    (hcov : FragmentSpec.isComplete m.length ((fs.map Tie.Fragment.absFrag).map toSpec) = true) :
    ∃ oks, Tie.Fragment.srcSession (BitVec.ofNat 32 m.length) fs = .ok (oks, true, m) := by
  obtain ⟨d', e, hd⟩ := Tie.Fragment.tie_session (BitVec.ofNat 32 m.length) fs
  have ht : (BitVec.ofNat 32 m.length).toNat = (m.map Tie.Fragment.ob).length := by
    rw [BitVec.toNat_ofNat, List.length_map]; exact Nat.mod_eq_of_lt hlen
  rw [ht] at e hd
  have hr := C17_rebuilt_when_covered (m.map Tie.Fragment.ob) (by rw [List.length_map]; exact hm)
    (fs.map Tie.Fragment.absFrag)
    (by
      intro g hg hle
      obtain ⟨f, hf, rfl⟩ := List.mem_map.mp hg
      rw [List.length_map] at hle
      exact srcConsistent_abs m f (hc f hf hle))
    (by rw [List.length_map]; exact hcov)
  rw [hr.1] at e
  rw [hr.2] at hd
  have : d' = m := (List.map_inj_right (fun x y hxy => Tie.Fragment.ob_inj.mp hxy)).mp hd
  subst this
  exact ⟨_, e⟩

/-- non-vacuity: the TRANSLATED code run on a concrete fragment set by the kernel — 11 bytes
(tail mask in use), overlap, duplicate, reverse order, one out-of-range fragment; and the same
set without its last fragment is not complete -/
example :
    let bs (l : List Nat) : List (BitVec 8) := l.map (BitVec.ofNat 8)
    let fs : List Tie.Fragment.SrcFrag :=
      [⟨8#32, 3#32, bs [9,10,11]⟩, ⟨9#32, 3#32, bs [0,0,0]⟩, ⟨3#32, 6#32, bs [4,5,6,7,8,9]⟩,
       ⟨8#32, 3#32, bs [9,10,11]⟩, ⟨0#32, 4#32, bs [1,2,3,4]⟩]
    (Tie.Fragment.srcSession 11#32 fs).toOption
      = some ([true, false, true, true, true], true, bs [1,2,3,4,5,6,7,8,9,10,11]) ∧
    (Tie.Fragment.srcSession 11#32 (fs.take 4)).toOption.map (fun r => (r.1, r.2.1))
      = some ([true, false, true, true], false) := by
  decide

end Gotlcp.Props.C17

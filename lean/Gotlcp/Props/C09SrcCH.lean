/-
C09, property theorems about the TRANSLATED cryptobyte-based decoders (part CH; see DESIGN.md 12.4).
Same namespace as Props/C09.lean; listed in checks/C09.json under extra_props_files.
-/
import Gotlcp.Tie.CbString

namespace Gotlcp.Props.C09

end Gotlcp.Props.C09

/-
C09, property theorems about the TRANSLATED cryptobyte-based decoders (part CH; see DESIGN.md 12.4).
Same namespace as Props/C09.lean; listed in checks/C09.json under extra_props_files.

`clientHelloMsg.unmarshal` of both stacks, as translated statement by statement from the Go source on every run
(`Gotlcp.Src.tlcp.codec` / `Gotlcp.Src.dtlcp.codec`): for EVERY receiver and EVERY byte string the result is
`.ok _`, never `.error` — no index / slice / `make` panic, and none of the seven `for !s.Empty() { … }` loops
(cipher suites, extensions, server names, trusted authorities, curves, signature algorithms, ALPN protocols; each
translated as at most `len(data)+1` iterations followed by `throw "loop fuel exhausted"`) runs out of fuel: every
iteration takes at least one byte off its String (`StepOK`), so the decoder cannot spin.  No hypothesis on the
length of `data` is needed.  Proofs: Gotlcp.Tie.CodecCHTlcp / CodecCHDtlcp (`tie_clientHello`: the result is what
the specification `chSpecT` / `chSpecD` says; the loop rule is `Gotlcp.Tie.CodecCH.loop_rule`).
-/
import Gotlcp.Tie.CodecCHTlcp
import Gotlcp.Tie.CodecCHDtlcp

namespace Gotlcp.Props.C09
open Gotlcp
open Gotlcp.Tie.CodecCH

/-- tlcp `clientHelloMsg.unmarshal` never panics and never exhausts a loop bound -/
theorem C09_src_no_panic_clientHelloMsg_unmarshal_tlcp (m : Src.tlcp.codec.clientHelloMsg) (data : List (BitVec 8)) :
    ∃ r, Src.tlcp.codec.clientHelloMsg.unmarshal m data = .ok r :=
  (Gotlcp.Tie.CodecCHTlcp.tie_clientHello m data).noError

/-- dtlcp `clientHelloMsg.unmarshal` (behind `dtlcpIsCompleteMessage` and `dtlcpUnmarshalHeader`) likewise -/
theorem C09_src_no_panic_clientHelloMsg_unmarshal_dtlcp (m : Src.dtlcp.codec.clientHelloMsg) (data : List (BitVec 8)) :
    ∃ r, Src.dtlcp.codec.clientHelloMsg.unmarshal m data = .ok r :=
  (Gotlcp.Tie.CodecCHDtlcp.tie_clientHello m data).noError

/-- the stronger form: the answer is exactly the specification's — `(m', true)` with the specified fields or
`(_, false)` — so in particular the Boolean is never wrong because of a silently exhausted loop -/
theorem C09_src_no_panic_clientHello_result_tlcp (m : Src.tlcp.codec.clientHelloMsg) (data : List (BitVec 8)) :
    Res Gotlcp.Tie.CodecCHTlcp.viewT (Src.tlcp.codec.clientHelloMsg.unmarshal m data) (chSpecT data) :=
  Gotlcp.Tie.CodecCHTlcp.tie_clientHello m data

theorem C09_src_no_panic_clientHello_result_dtlcp (m : Src.dtlcp.codec.clientHelloMsg) (data : List (BitVec 8)) :
    Res Gotlcp.Tie.CodecCHDtlcp.viewD (Src.dtlcp.codec.clientHelloMsg.unmarshal m data)
      (Gotlcp.Tie.CodecCHDtlcp.chSpecD data) :=
  Gotlcp.Tie.CodecCHDtlcp.tie_clientHello m data

/-- a specification step never lengthens the String (the fact behind "fuel `len(data)+1` suffices"), for the
outermost loop; the inner loops are `sniStep_dec`, `taStep_dec`, `alpnStep_dec`, `u16Step_dec` -/
theorem C09_src_no_panic_clientHello_ext_step_consumes (reset : Bool) (n : Nat) (v v' : CHv) (s s' : List (BitVec 8))
    (h : extStepS reset n v s = some (v', s')) : s'.length + 4 ≤ s.length := by
  unfold extStepS at h
  cases h1 : rdU16 s with
  | none => simp [h1] at h
  | some p =>
    obtain ⟨ty, s1⟩ := p
    simp only [h1] at h
    cases h2 : rdVec 2 s1 with
    | none => simp [h2] at h
    | some q =>
      obtain ⟨d, s2⟩ := q
      simp only [h2] at h
      have l1 := rdU16_len h1
      have l2 := rdVec_len h2
      cases h3 : extCaseS reset n v ty d with
      | none => simp [h3] at h
      | some w =>
        simp only [h3] at h
        split at h
        · simp only [Option.some.injEq, Prod.mk.injEq] at h
          rw [← h.2]; omega
        · cases h

/-- not vacuous: a ClientHello with three extensions goes through all of it (accepted), and a hello whose
extension block is cut short is refused, not an error -/
example : (match Src.tlcp.codec.clientHelloMsg.unmarshal {}
    ([1, 0, 0, 72, 1, 1] ++ List.replicate 32 7 ++ [0, 0, 2, 0xe0, 0x53, 1, 0] ++
      [0, 29, 0, 0, 0, 6, 0, 4, 0, 0, 1, 0x61, 0, 10, 0, 6, 0, 4, 0, 41, 0, 23, 0, 16, 0, 5, 0, 3, 2, 0x68, 0x32]) with
    | .ok (m, true) => m.serverName == [0x61] && m.alpnProtocols == [[0x68, 0x32]]
    | _ => false) = true := by decide
example : (match Src.tlcp.codec.clientHelloMsg.unmarshal {}
    ([1, 0, 0, 52, 1, 1] ++ List.replicate 32 7 ++ [0, 0, 2, 0xe0, 0x53, 1, 0] ++
      [0, 29, 0, 0, 0, 6, 0, 4, 0, 0, 1, 0x61, 0, 10, 0]) with
    | .ok (_, false) => true
    | _ => false) = true := by decide

end Gotlcp.Props.C09

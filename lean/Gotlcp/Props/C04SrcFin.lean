/-
C04, property theorems about the TRANSLATED Finished computation (`Src.<stack>.fin.finishedHash`;
see DESIGN.md 12.4).  Same namespace as Props/C04.lean; listed in checks/C04.json under
extra_props_files.
-/
import Gotlcp.Props.C04
import Gotlcp.Tie.Finished

set_option linter.unusedSimpArgs false
set_option linter.unusedVariables false

namespace Gotlcp.Props.C04
open Gotlcp
open Gotlcp.Crypto
open Gotlcp.Lemmas.KeySchedule
open Gotlcp.Model.KeySchedule

/-- the model's PRF cut to a length is the standard's PRF -/
private theorem prf12_is_spec (P : Prims) (hl : ∀ k m, (P.hmac k m).length = P.hLen) (hpos : 0 < P.hLen)
    (secret label seed : Bytes) (n : Nat) :
    prf12 P.hmac secret label seed n = Spec.KeySchedule.prf P secret label seed n := by
  simp only [prf12, Spec.KeySchedule.prf, PRF.prf]
  rw [C04_phash_is_P_SM3 P.hmac P.hLen hl hpos]

/-- **verify_data, on the translated source.** For every keyed hash of fixed positive output length
(`P.hmac`), every transcript hash `h` (whatever was written into it) and every master secret, the
translated `clientSum` / `serverSum` of BOTH stacks return normally and their 12 bytes are the
standard's `verify_data = PRF(master_secret, finished_label, Hash(handshake_messages))[0..11]`, where
`Hash(handshake_messages)` is what `h.Sum()` returns for the bytes written so far (`P.hash`). -/
theorem C04_src_verify_data (ext : Go.Extern) (P : Prims) (hP : P.hmac = Tie.KeySched.hm ext .sm3)
    (hl : ∀ k x, (ext.hmac .sm3 k x).length = P.hLen) (hpos : 0 < P.hLen)
    (alg : Go.HashAlg) (key : List (BitVec 8))
    (hH : ∀ t, P.hash t = Tie.KeySched.toBytes (ext.hmac alg key (Tie.KeySched.ofBytes t)))
    (transcript master : List (BitVec 8)) (v : BitVec 16) :
    (∃ r, Src.tlcp.fin.finishedHash.clientSum ext { msgHash := { alg := alg, key := key, input := transcript }, version := v } master = .ok r ∧
      r.length = 12 ∧
      Tie.KeySched.toBytes r = Spec.KeySchedule.verifyData P (Tie.KeySched.toBytes master) .client (Tie.KeySched.toBytes transcript)) ∧
    (∃ r, Src.tlcp.fin.finishedHash.serverSum ext { msgHash := { alg := alg, key := key, input := transcript }, version := v } master = .ok r ∧
      r.length = 12 ∧
      Tie.KeySched.toBytes r = Spec.KeySchedule.verifyData P (Tie.KeySched.toBytes master) .server (Tie.KeySched.toBytes transcript)) ∧
    (∃ r, Src.dtlcp.fin.finishedHash.clientSum ext { msgHash := { alg := alg, key := key, input := transcript }, version := v } master = .ok r ∧
      r.length = 12 ∧
      Tie.KeySched.toBytes r = Spec.KeySchedule.verifyData P (Tie.KeySched.toBytes master) .client (Tie.KeySched.toBytes transcript)) ∧
    (∃ r, Src.dtlcp.fin.finishedHash.serverSum ext { msgHash := { alg := alg, key := key, input := transcript }, version := v } master = .ok r ∧
      r.length = 12 ∧
      Tie.KeySched.toBytes r = Spec.KeySchedule.verifyData P (Tie.KeySched.toBytes master) .server (Tie.KeySched.toBytes transcript)) := by
  have hlP : ∀ k m, (P.hmac k m).length = P.hLen := by
    rw [hP]; exact Tie.KeySched.hm_length ext .sm3 P.hLen hl
  have hd : P.hash (Tie.KeySched.toBytes transcript) = Tie.KeySched.toBytes (ext.hmac alg key transcript) := by
    rw [hH]; simp
  refine ⟨?_, ?_, ?_, ?_⟩
  · obtain ⟨r, h1, h2, h3⟩ := Tie.Finished.tie_clientSum_tlcp ext P.hLen hl hpos
      { msgHash := { alg := alg, key := key, input := transcript }, version := v } master
    refine ⟨r, h1, h2, ?_⟩
    rw [h3, ← hP, prf12_is_spec P hlP hpos]
    simp only [Spec.KeySchedule.verifyData, Spec.KeySchedule.finishedLabel, hd]; rfl
  · obtain ⟨r, h1, h2, h3⟩ := Tie.Finished.tie_serverSum_tlcp ext P.hLen hl hpos
      { msgHash := { alg := alg, key := key, input := transcript }, version := v } master
    refine ⟨r, h1, h2, ?_⟩
    rw [h3, ← hP, prf12_is_spec P hlP hpos]
    simp only [Spec.KeySchedule.verifyData, Spec.KeySchedule.finishedLabel, hd]; rfl
  · obtain ⟨r, h1, h2, h3⟩ := Tie.Finished.tie_clientSum_dtlcp ext P.hLen hl hpos
      { msgHash := { alg := alg, key := key, input := transcript }, version := v } master
    refine ⟨r, h1, h2, ?_⟩
    rw [h3, ← hP, prf12_is_spec P hlP hpos]
    simp only [Spec.KeySchedule.verifyData, Spec.KeySchedule.finishedLabel, hd]; rfl
  · obtain ⟨r, h1, h2, h3⟩ := Tie.Finished.tie_serverSum_dtlcp ext P.hLen hl hpos
      { msgHash := { alg := alg, key := key, input := transcript }, version := v } master
    refine ⟨r, h1, h2, ?_⟩
    rw [h3, ← hP, prf12_is_spec P hlP hpos]
    simp only [Spec.KeySchedule.verifyData, Spec.KeySchedule.finishedLabel, hd]; rfl

/-- **the transcript hash covers every message written, in order** (translated `finishedHash.Write`, tlcp):
after any sequence of writes the hash holds the concatenation of the messages after what it held
before; algorithm, key and version are untouched. -/
theorem C04_src_transcript_accumulates (h : Src.tlcp.fin.finishedHash) (msgs : List (List (BitVec 8))) :
    (msgs.foldl (fun h m => (Src.tlcp.fin.finishedHash.Write h m).1) h).msgHash.input = h.msgHash.input ++ msgs.flatten ∧
    (msgs.foldl (fun h m => (Src.tlcp.fin.finishedHash.Write h m).1) h).msgHash.alg = h.msgHash.alg ∧
    (msgs.foldl (fun h m => (Src.tlcp.fin.finishedHash.Write h m).1) h).msgHash.key = h.msgHash.key ∧
    (msgs.foldl (fun h m => (Src.tlcp.fin.finishedHash.Write h m).1) h).version = h.version :=
  Tie.Finished.writes_tlcp h msgs

-- non-vacuity: the translated text evaluated in the kernel with the toy keyed hash of Props/C04: the 12 bytes
-- are the standard's verify_data computed by the spec, and they differ for the two roles
set_option maxRecDepth 16384 in
example : ((Src.tlcp.fin.finishedHash.clientSum toyExt { msgHash := { alg := .sm3, key := [], input := [1#8, 2#8] }, version := 0x0101#16 } [7#8]).toOption.map Tie.KeySched.toBytes)
    = some (Spec.KeySchedule.verifyData { toyPrims with hash := fun t => Tie.KeySched.toBytes (toyExt.hmac .sm3 [] (Tie.KeySched.ofBytes t)) } [7] .client [1, 2]) := by decide
set_option maxRecDepth 16384 in
example : (Src.dtlcp.fin.finishedHash.clientSum toyExt { msgHash := { alg := .sm3, key := [], input := [1#8, 2#8] }, version := 0x0101#16 } [7#8]).toOption ≠
    (Src.dtlcp.fin.finishedHash.serverSum toyExt { msgHash := { alg := .sm3, key := [], input := [1#8, 2#8] }, version := 0x0101#16 } [7#8]).toOption := by decide

end Gotlcp.Props.C04

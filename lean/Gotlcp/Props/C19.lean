/-
C19 — the DTLCP handshake survives datagram loss, duplication and reordering.

Property theorems only (helpers are in `Gotlcp.Lemmas.Flights`).  The model is `Gotlcp.Model.Flights`
with its code-dependent parameters taken from the regenerated facts (`Oracle.C19.paramsOfFacts`, the very
parameters the correspondence oracle runs with); the spec is `Gotlcp.Spec.Flights`.

What is PROOF (all inputs): `C19_backoff*` (any number of expiries), `C19_sched_*`, `C19_budget_bounds` and
`C19_deadline_is_budget` (the time allowed, for every number of expiries), `C19_no_data_before_finished` and
`C19_agree_if_both_complete` (one endpoint fed with ANY sequence of datagrams — arbitrary records, epochs,
sequence numbers, order, duplicates — and deadline expiries at ANY times).
What is EVALUATION of the executable model by the kernel (`decide`, no `native_decide`):
`C19_no_fault_no_timeout` (all modes × listed timer settings) and `C19_bounded_faults_partial_1/_2`
(EVERY pattern of ≤ 1 / exactly 2 faults on the first 6 datagrams of both directions × resumed × client
auth × both timer-tie orders, outside the decidable predicate `KnownFatal`). No liveness claim is made for
k > 2 or for other timer settings.
-/
import Gotlcp.Lemmas.Flights
import Gotlcp.Lemmas.FlightsEval
import Gotlcp.Lemmas.FlightsEval2FF
import Gotlcp.Lemmas.FlightsEval2FT
import Gotlcp.Lemmas.FlightsEval2TF
import Gotlcp.Lemmas.FlightsEval2TT
import Gotlcp.Oracle.C19
import Gotlcp.Spec.FlightsSpec
import Gotlcp.Generated.Facts
import Gotlcp.Tie.Timer

namespace Gotlcp.Props.C19
open Gotlcp.Model.Flights
open Gotlcp.Lemmas.Flights
open Gotlcp.Oracle.C19 (paramsOfFacts)
open Gotlcp.Spec.Flights (sched budget)

/-- the facts the theorems below rely on, as extracted from this tree -/
theorem C19_facts :
    Facts.dtlcp.flBackoffMul = 2 ∧ Facts.dtlcp.flBackoffCapsAtMax = true ∧
    Facts.dtlcp.flBackoffRestarts = true ∧ Facts.dtlcp.flResetToInitial = true ∧
    Facts.dtlcp.flStartUsesCurrent = true ∧
    Facts.dtlcp.flHelloWaitMul = 2 ∧ Facts.dtlcp.flHelloWaitCapsAtMax = true ∧
    Facts.dtlcp.flCookieBreakLeavesLoop = true ∧
    Facts.dtlcp.flAppDataNeedsComplete = true ∧ Facts.dtlcp.flAppDataNeedsCipher = true ∧
    Facts.dtlcp.flReadBufOnlyInAppCase = true ∧
    Facts.dtlcp.flClientDoneAfterReadFinished = true ∧ Facts.dtlcp.flServerDoneAfterReadFinished = true ∧
    Facts.dtlcp.flHandshakeCompleteIsStateFinished = true ∧ Facts.dtlcp.flStateFinishedStores = 2 ∧
    Facts.dtlcp.flDecryptBeforeEpochCheck = true ∧ Facts.dtlcp.flCCSDeferredWhenHandPending = true ∧
    Facts.missing = [] := by decide

/-- the back-off law of `RetransmitTimer.backoff` as extracted -/
def timerLaw : BackoffLaw := ⟨Facts.dtlcp.flBackoffMul, Facts.dtlcp.flBackoffCapsAtMax⟩
/-- the back-off law of the local `timeout` of `readNextClientHello` as extracted -/
def helloLaw : BackoffLaw := ⟨Facts.dtlcp.flHelloWaitMul, Facts.dtlcp.flHelloWaitCapsAtMax⟩

theorem backoff_fold (i m : Nat) (nows : List Nat) :
    ∀ (t : Timer) (k : Nat), t.max = m → t.current = Nat.min (i * 2 ^ k) m →
      (nows.foldl (fun t n => t.backoff timerLaw n) t).current = Nat.min (i * 2 ^ (k + nows.length)) m ∧
      (nows.foldl (fun t n => t.backoff timerLaw n) t).max = m := by
  have hl : timerLaw = ⟨2, true⟩ := by decide
  induction nows with
  | nil => intro t k hm hc; exact ⟨by simpa using hc, hm⟩
  | cons n ns ih =>
    intro t k hm hc
    simp only [List.foldl_cons, List.length_cons]
    have h1 : (t.backoff timerLaw n).current = Nat.min (i * 2 ^ (k + 1)) m := by
      simp only [Timer.backoff, Timer.start, hl, hc, hm]
      exact backoffValue_step i m k
    have h2 : (t.backoff timerLaw n).max = m := by simp only [Timer.backoff, Timer.start, hm]
    have := ih (t.backoff timerLaw n) (k + 1) h2 h1
    have e : k + 1 + ns.length = k + (ns.length + 1) := by omega
    rw [e] at this
    exact this

/-- **Back-off.** After a reset and k expiries (at any times) the timeout of `RetransmitTimer` is the k-th
term of the documented schedule `min(initial·2^k, max)`; by induction on k over the extracted statements
of `backoff` (`current *= 2`, cap at `max`) and `reset`. -/
theorem C19_backoff (t : Timer) (h : t.initial ≤ t.max) (now0 : Nat) (nows : List Nat) :
    (nows.foldl (fun t n => t.backoff timerLaw n) (t.reset now0)).current
      = sched t.initial t.max nows.length := by
  have h0 : (t.reset now0).current = Nat.min (t.initial * 2 ^ 0) t.max := by
    simp only [Timer.reset, Timer.start, Nat.pow_zero, Nat.mul_one]
    exact (Nat.min_eq_left h).symm
  have := (backoff_fold t.initial t.max nows (t.reset now0) 0 (by simp [Timer.reset, Timer.start]) h0).1
  simpa [sched] using this

/-- the timer is always re-armed with the value just computed (`backoff` ends in `start`) -/
theorem C19_backoff_rearms (t : Timer) (now : Nat) :
    (t.backoff timerLaw now).armed = some (now + (t.backoff timerLaw now).current) := rfl

/-- the local `timeout` of `readNextClientHello` after k expiries -/
def helloWaitAfter (init max : Nat) : Nat → Nat
  | 0 => init
  | k + 1 => backoffValue helloLaw (helloWaitAfter init max k) max

/-- the server's wait for the second ClientHello (`readNextClientHello`) follows the same schedule -/
theorem C19_backoff_hello (init max : Nat) (h : init ≤ max) (k : Nat) :
    helloWaitAfter init max k = sched init max k := by
  have hl : helloLaw = ⟨2, true⟩ := by decide
  induction k with
  | zero => simp [helloWaitAfter, sched, Nat.min_eq_left h]
  | succ n ih =>
    simp only [helloWaitAfter]
    rw [ih, hl]
    exact backoffValue_step init max n

/-- both endpoints start in a state satisfying the invariant -/
theorem init_inv (p : Params) (hp : p.appNeedsComplete = true) (isClient : Bool) :
    Lemmas.Flights.Inv (if isClient then (clientInit p).e else (serverInit p).e) := by
  have base : ∀ (pc : Pc) (c : Bool), pc ≠ .app → pc ≠ .stop →
      Lemmas.Flights.Inv ({ isClient := c, pc := pc, timer := Timer.new p.init p.max } : Ep) := by
    intro pc c _ _
    exact ⟨fun h => by simp at h, fun h => by simp at h, fun h => by simp at h⟩
  cases isClient with
  | true =>
    simp only [if_true, clientInit]
    exact advance_inv p hp 0 _ _ _ (sendHello_inv 0 (base .cHello true (by decide) (by decide)) rfl)
  | false =>
    simp only [Bool.false_eq_true, if_false, serverInit]
    exact advance_inv p hp 0 _ _ _ (base .sHello0 false (by decide) (by decide))

theorem reach_inv (p : Params) (hp : p.appNeedsComplete = true) (ins : List Input) :
    ∀ e, Lemmas.Flights.Inv e → Lemmas.Flights.Inv (reach p e ins) := by
  induction ins with
  | nil => intro e h; exact h
  | cons i is ih =>
    intro e h
    simp only [reach, List.foldl_cons]
    apply ih
    cases i with
    | dgram now d => exact onDatagram_inv p hp now d h
    | deadline now => exact onDeadline_inv p hp now h

theorem params_appNeedsComplete (init max : Nat) (resume auth : Bool) :
    (paramsOfFacts init max resume auth).appNeedsComplete = true := by
  show Facts.dtlcp.flAppDataNeedsComplete = true
  decide

/-- **No application data before Finished.** Whatever arrives at an endpoint — any datagrams with any
records, epochs and sequence numbers, in any order, with any deadline expiries in between — it hands
application data to the application only after it completed, and it completes only after it verified the
peer's Finished. (From the decision of `readRecordOrCCS` for application data and the position of
`hsState.Store(stateFinished)`, both regenerated facts.) -/
theorem C19_no_data_before_finished (init max : Nat) (resume auth isClient : Bool) (ins : List Input) :
    let p := paramsOfFacts init max resume auth
    let e := reach p (if isClient then (clientInit p).e else (serverInit p).e) ins
    0 < e.delivered → e.complete = true ∧ e.verified = true := by
  intro p e hd
  have hp := params_appNeedsComplete init max resume auth
  have h := reach_inv p hp ins _ (init_inv p hp isClient)
  exact ⟨h.deliveredComplete hd, h.completeVerified (h.deliveredComplete hd)⟩

/-- What the agreement theorem assumes about the Finished exchange (the transcript argument shared with
C03, as a hypothesis structure — NOT an axiom): the network does not forge, and the Finished MAC is ideal,
so a Finished value an endpoint ACCEPTED was computed by the peer over the peer's transcript; `tag` is the
transcript identity (`H` injective on transcripts: equal digests ⇒ equal transcripts). -/
structure FinishedAuthentic (c s : Ep) : Prop where
  fromServer : ∀ t, c.peerTag = some t → t = s.tag
  fromClient : ∀ t, s.peerTag = some t → t = c.tag

/-- **Agreement.** For ALL network behaviours (each endpoint fed with an arbitrary input sequence): an
endpoint that completed accepted a Finished computed over exactly its own transcript; hence, when the
accepted values are authentic, both ends hold the same transcript and every negotiated parameter —
a function of the transcript — is the same on both sides. -/
theorem C19_agree_if_both_complete {α : Type} (negotiated : Nat → α)
    (init max : Nat) (resume auth : Bool) (insC insS : List Input) :
    let p := paramsOfFacts init max resume auth
    let c := reach p (clientInit p).e insC
    let s := reach p (serverInit p).e insS
    c.complete = true → s.complete = true →
      (c.peerTag = some c.tag ∧ s.peerTag = some s.tag) ∧
      (FinishedAuthentic c s → c.tag = s.tag ∧ negotiated c.tag = negotiated s.tag) := by
  intro p c s hc hs
  have hp := params_appNeedsComplete init max resume auth
  have ic := reach_inv p hp insC _ (init_inv p hp true)
  have is := reach_inv p hp insS _ (init_inv p hp false)
  have h1 := (ic.acceptedOwn (ic.completeVerified hc)).1
  have h2 := (is.acceptedOwn (is.completeVerified hs)).1
  refine ⟨⟨h1, h2⟩, fun ha => ?_⟩
  have : c.tag = s.tag := ha.fromServer _ h1
  exact ⟨this, by rw [this]⟩

/-! ### liveness: evaluation of the executable model by the kernel -/

open Gotlcp.Lemmas.FlightsEval (bools settings repairedAt noFaultOkP sliceOk patternOkP pats1 pats2)

/-- the regenerated facts amount to exactly the parameter record the evaluations were made for
(a moved fact — e.g. the K2 repair reverted, the back-off factor or cap changed — breaks this) -/
theorem params_eq (init max : Nat) (resume auth : Bool) :
    paramsOfFacts init max resume auth = repairedAt init max resume auth := rfl

/-- **No fault ⇒ no timeout** (full statement; false before the K2 repair): with no fault the handshake
completes on both sides at virtual time 0, no read deadline expires on either side, data flows both ways
and both hashed the same ClientHello — full and resumed, with and without client authentication, either
tie order, for each of the listed timer settings. -/
theorem C19_no_fault_no_timeout :
    (bools.all fun r => bools.all fun a => bools.all fun t => settings.all fun im =>
      noFaultOkP (paramsOfFacts im.1 im.2 r a) t) = true := by
  simp only [params_eq]
  exact Lemmas.FlightsEval.noFault_all

/-- **≤ 1 fault** (partial: outside `KnownFatal` = K1 ∪ F11 ∪ F12 ∪ F44 ∪ F45): every pattern of at most one
drop / duplicate / swap on any of the first 6 datagrams of either direction, full and resumed, with and
without client authentication, both tie orders: both ends complete within the first timeout of the
schedule, exchange data, agree, and hand over nothing early. -/
theorem C19_bounded_faults_partial_1 :
    (bools.all fun r => bools.all fun t => sliceOk (paramsOfFacts 1 4) r t pats1) = true := by
  have : paramsOfFacts 1 4 = repairedAt 1 4 := rfl
  rw [this]
  exact Lemmas.FlightsEval.single_all

/-- **2 faults** (partial, same predicate): every pair of faults on distinct datagrams among the first 6 of
either direction (594 pairs × 8 configurations), within the first two timeouts of the schedule. -/
theorem C19_bounded_faults_partial_2 :
    (bools.all fun r => bools.all fun t => sliceOk (paramsOfFacts 1 4) r t pats2) = true := by
  have : paramsOfFacts 1 4 = repairedAt 1 4 := rfl
  rw [this]
  simp only [bools, List.all_cons, List.all_nil, Bool.and_true, Bool.and_eq_true]
  exact ⟨⟨Lemmas.FlightsEval.pairs_FF, Lemmas.FlightsEval.pairs_FT⟩,
         ⟨Lemmas.FlightsEval.pairs_TF, Lemmas.FlightsEval.pairs_TT⟩⟩

/-! ### non-vacuity and witnesses of the findings -/

/-- the hypotheses of the agreement theorem are satisfiable: the fault-free run of the closed model -/
example :
    let n := run (paramsOfFacts 1 4 false false) [] true 24
    n.c.complete = true ∧ n.s.complete = true ∧ n.c.peerTag = some n.s.tag ∧ n.s.peerTag = some n.c.tag := by
  decide

/-- K2, on the unrepaired code (`cookieBreakLeaves := false`): the fault-free handshake waits one full
initial timeout -/
example :
    let p := { paramsOfFacts 1 4 false false with cookieBreakLeaves := false }
    let n := run p [] true 24
    n.c.hsAt = some 1 ∧ n.c.timeouts = 1 := by decide

/-- K1: losing the first datagram of client flight 5 is fatal on both sides -/
example :
    let n := run (paramsOfFacts 1 4 false false) [⟨true, 2, .drop⟩] true 24
    outcome n.c = .err ∧ outcome n.s = .err ∧ KnownFatal false n.hits = true := by decide

/-- F12: swapping the client's two flight-5 datagrams is fatal -/
example :
    let n := run (paramsOfFacts 1 4 false false) [⟨true, 2, .swap⟩] true 24
    outcome n.c = .err ∧ outcome n.s = .err := by decide

/-- F11: losing server flight 4 is fatal when the client's timer goes first (transcripts diverge),
and recovers when the server's goes first -/
example :
    let n := run (paramsOfFacts 1 4 false false) [⟨false, 1, .drop⟩] true 24
    outcome n.c = .err ∧ outcome n.s = .err ∧ n.c.tag ≠ n.s.tag := by decide
example : success (run (paramsOfFacts 1 4 false false) [⟨false, 1, .drop⟩] false 24) = true := by decide

/-- F44 / F45: the last flight lost, or overtaken by application data -/
example :
    let n := run (paramsOfFacts 1 4 false false) [⟨false, 2, .drop⟩] true 24
    outcome n.c = .err ∧ outcome n.s = .ok := by decide
example :
    let n := run (paramsOfFacts 1 4 true false) [⟨true, 2, .swap⟩] true 24
    outcome n.c = .ok ∧ outcome n.s = .err := by decide

/-- a recoverable fault costs exactly the first timeout -/
example :
    let n := run (paramsOfFacts 1 4 false false) [⟨true, 3, .drop⟩] true 24
    success n = true ∧ n.c.hsAt = some 1 ∧ n.c.timeouts = 1 := by decide

/-! ### the time allowed by the schedule

The statement's "within the time allowed by the retransmission schedule" is `budget init max k`, the sum
of the first k timeouts; the spec that judges the real endpoints and the evaluated theorems below use it.
These theorems say what that number is, for every k. -/

/-- no timeout of the schedule exceeds the configured maximum -/
theorem C19_sched_le_max (i m k : Nat) : sched i m k ≤ m := Nat.min_le_right _ _

/-- the schedule never shrinks -/
theorem C19_sched_mono (i m k : Nat) : sched i m k ≤ sched i m (k + 1) := by
  have hp : i * 2 ^ (k + 1) = i * 2 ^ k * 2 := by rw [Nat.pow_succ, Nat.mul_assoc]
  show min (i * 2 ^ k) m ≤ min (i * 2 ^ (k + 1)) m
  rw [hp]; omega

/-- once the doubling has reached the maximum the timeout stays there ("doubling up to the maximum") -/
theorem C19_sched_saturates (i m k : Nat) (h : m ≤ i * 2 ^ k) (j : Nat) : sched i m (k + j) = m := by
  have hle : i * 2 ^ k ≤ i * 2 ^ (k + j) :=
    Nat.mul_le_mul_left i (Nat.pow_le_pow_right (by decide) (Nat.le_add_right k j))
  show min (i * 2 ^ (k + j)) m = m
  omega

/-- before that point it is exactly the doubled initial timeout -/
theorem C19_sched_doubles (i m k : Nat) (h : i * 2 ^ k ≤ m) : sched i m k = i * 2 ^ k := by
  show min (i * 2 ^ k) m = i * 2 ^ k
  omega

/-- the time allowed for k faults is at most k maximal timeouts and less than `initial·2^k`, and (for a
well-formed timer) at least k initial timeouts -/
theorem C19_budget_bounds (i m k : Nat) :
    budget i m k ≤ k * m ∧ budget i m k + i ≤ i * 2 ^ k ∧ (i ≤ m → k * i ≤ budget i m k) := by
  induction k with
  | zero => simp [budget]
  | succ n ih =>
    obtain ⟨h1, h2, h3⟩ := ih
    have hs : sched i m n ≤ m := C19_sched_le_max i m n
    have hs2 : sched i m n ≤ i * 2 ^ n := Nat.min_le_left _ _
    have hp : i * 2 ^ (n + 1) = i * 2 ^ n * 2 := by rw [Nat.pow_succ, Nat.mul_assoc]
    have hpos : i ≤ i * 2 ^ n := Nat.le_mul_of_pos_right i (Nat.pow_pos (by decide))
    refine ⟨?_, ?_, ?_⟩
    · simp only [budget, Nat.succ_mul]; omega
    · simp only [budget]; rw [hp]; omega
    · intro him
      have hge : i ≤ sched i m n := by
        show i ≤ min (i * 2 ^ n) m
        omega
      have := h3 him
      simp only [budget, Nat.succ_mul]; omega

/-- k expiries, each handled at the moment the armed deadline passes (`armed` is never `none` after a
`reset`; the `none` arm leaves the timer alone) -/
def expireAtDeadline : Nat → Timer → Timer
  | 0, t => t
  | k + 1, t =>
    match (expireAtDeadline k t).armed with
    | some d => (expireAtDeadline k t).backoff timerLaw d
    | none => expireAtDeadline k t

/-- **Deadlines are the budget.** A flight sent at `now0` and retransmitted at every expiry: after k
expiries the timer is armed for `now0 + budget initial max (k+1)`, i.e. the (k+1)-th retransmission happens
exactly when the first k+1 timeouts of the schedule have elapsed — for every k, by induction over the
extracted statements of `reset`, `backoff` and `start`. -/
theorem C19_deadline_is_budget (t : Timer) (h : t.initial ≤ t.max) (now0 k : Nat) :
    (expireAtDeadline k (t.reset now0)).armed = some (now0 + budget t.initial t.max (k + 1)) ∧
    (expireAtDeadline k (t.reset now0)).current = sched t.initial t.max k ∧
    (expireAtDeadline k (t.reset now0)).max = t.max := by
  have hl : timerLaw = ⟨2, true⟩ := by decide
  induction k with
  | zero =>
    refine ⟨?_, ?_, rfl⟩
    · simp only [expireAtDeadline, Timer.reset, Timer.start, budget, sched, Nat.pow_zero, Nat.mul_one,
        Nat.zero_add]
      rw [show Nat.min t.initial t.max = t.initial from Nat.min_eq_left h]
    · simp only [expireAtDeadline, Timer.reset, Timer.start, sched, Nat.pow_zero, Nat.mul_one]
      exact (Nat.min_eq_left h).symm
  | succ n ih =>
    obtain ⟨ha, hc, hm⟩ := ih
    simp only [expireAtDeadline, ha]
    refine ⟨?_, ?_, ?_⟩
    · simp only [Timer.backoff, Timer.start, hl, hc, hm, sched]
      rw [backoffValue_step, Nat.add_assoc]
      rfl
    · simp only [Timer.backoff, Timer.start, hl, hc, hm, sched]
      exact backoffValue_step _ _ _
    · simp only [Timer.backoff, Timer.start, hm]

/-- non-vacuity: 1 s initial, 4 s maximum, sent at t = 10: retransmissions at 11, 13, 17, 21, 25 -/
example : (List.range 5).map (fun k => (expireAtDeadline k ((Timer.new 1 4).reset 10)).armed)
    = [some 11, some 13, some 17, some 21, some 25] := by decide

/-! ### the back-off law of the SOURCE TEXT

`Gotlcp.Src.dtlcp.RetransmitTimer.{backoff, reset}` are regenerated from dtlcp/retransmit.go by the
translator `harness/cmd/go2lean` on every run (`time.Duration` = `int64` as `BitVec 64`, signed
comparison; `start()` is a stub that counts how often the timer is re-armed). -/

theorem C19_src_translated : Src.untranslated = [] := by decide

/-- After a reset and k expiries the TRANSLATED timer holds the k-th term of the documented schedule
`min(initial·2^k, max)` (nanoseconds, `0 ≤ initial ≤ max < 2^62` ≈ 146 years), never exceeds `max`,
and has been re-armed exactly once per expiry. -/
theorem C19_src_backoff (t : Src.dtlcp.RetransmitTimer) (hi : 0 ≤ t.initial.toInt)
    (him : t.initial.toInt ≤ t.max.toInt) (hm : t.max.toInt < 2 ^ 62) (k : Nat) :
    let tk := Tie.Timer.backoffs k (Src.dtlcp.RetransmitTimer.reset t)
    tk.current.toInt.toNat = sched t.initial.toInt.toNat t.max.toInt.toNat k
      ∧ tk.current.toInt ≤ t.max.toInt ∧ tk.starts = t.starts + 1 + k := by
  have h := Tie.Timer.tie_schedule t hi him hm k
  exact ⟨h.1, h.2.2.1, h.2.2.2.2⟩

/-- non-vacuity: 1 s initial, 4 s maximum, three expiries on the translated code (kernel evaluation) -/
example :
    ((Tie.Timer.backoffs 3 (Src.dtlcp.RetransmitTimer.reset
      { initial := 1000000000#64, current := 0#64, max := 4000000000#64, starts := 0 })).current.toNat,
     (Tie.Timer.backoffs 1 (Src.dtlcp.RetransmitTimer.reset
      { initial := 1000000000#64, current := 0#64, max := 4000000000#64, starts := 0 })).current.toNat)
      = (4000000000, 2000000000) := by decide

end Gotlcp.Props.C19

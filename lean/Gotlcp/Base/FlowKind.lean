/-
The alphabet of property C08: what a peer can put on the wire during a handshake, seen as a
sequence of *message kinds* — the handshake message types plus the non-handshake records
`ccs` (ChangeCipherSpec), `warningAlert` (an alert of level warning other than close_notify),
`appData` (a non-empty application-data record) and `emptyRecord` (a handshake-type record with
an empty payload).  `certificateEmpty` is a Certificate message with an empty list (a client
that has no certificate).  Core Lean only; shared by the spec, the model and the oracle.
-/
namespace Gotlcp.Flow

inductive Kind
  | clientHello | serverHello | helloVerifyRequest
  | certificate | certificateEmpty
  | serverKeyExchange | certificateRequest | serverHelloDone
  | clientKeyExchange | certificateVerify | finished
  | ccs | warningAlert | appData | emptyRecord
  deriving DecidableEq, Repr, Inhabited

namespace Kind

def all : List Kind :=
  [clientHello, serverHello, helloVerifyRequest, certificate, certificateEmpty, serverKeyExchange,
   certificateRequest, serverHelloDone, clientKeyExchange, certificateVerify, finished,
   ccs, warningAlert, appData, emptyRecord]

theorem mem_all (k : Kind) : k ∈ all := by cases k <;> decide

/-- a (non-empty) handshake message -/
def isHandshake : Kind → Bool
  | ccs | warningAlert | appData | emptyRecord => false
  | _ => true

/-- token used on the oracle's line protocol -/
def token : Kind → String
  | clientHello => "CH" | serverHello => "SH" | helloVerifyRequest => "HVR"
  | certificate => "Cert" | certificateEmpty => "CertE"
  | serverKeyExchange => "SKX" | certificateRequest => "CR" | serverHelloDone => "SHD"
  | clientKeyExchange => "CKX" | certificateVerify => "CV" | finished => "Fin"
  | ccs => "ccs" | warningAlert => "warn" | appData => "app" | emptyRecord => "empty"

def ofToken (s : String) : Option Kind := all.find? (fun k => k.token == s)

end Kind

/-- parse `K,K,...` (`-` = empty word) -/
def parseWord (s : String) : Option (List Kind) :=
  if s == "-" || s == "" then some [] else (s.splitOn ",").mapM Kind.ofToken

/-- parse `K,K+K,...`: each comma-separated item is one record, `+` joins the handshake messages
coalesced into it -/
def parseRecords (s : String) : Option (List (List Kind)) :=
  if s == "-" || s == "" then some [] else (s.splitOn ",").mapM (fun r => (r.splitOn "+").mapM Kind.ofToken)

def showWord (w : List Kind) : String :=
  if w.isEmpty then "-" else ",".intercalate (w.map Kind.token)

end Gotlcp.Flow

/-
Wire primitives shared by the codec models: big-endian integers, total parsers mirroring
`golang.org/x/crypto/cryptobyte.String` (ReadUintN, ReadBytes, Skip, ReadUintNLengthPrefixed,
Empty), builders mirroring `cryptobyte.Builder` (AddUintN, AddUintNLengthPrefixed: the builder
fails when the child does not fit the prefix), checked slice accessors for hand-indexed Go code
(a Go index/slice expression out of range is the outcome `panic`), and loops
`for !s.Empty() { item }`.

Core Lean only (linked into the oracle executable).  The generic lemmas (`readVecN_append`,
`frame_injective`, …) are at the end of the file; they need no Mathlib.
-/
import Gotlcp.Base.Hex

namespace Gotlcp.Wire

/-- `uint8(n)` of Go: truncation -/
def u8 (n : Nat) : UInt8 := UInt8.ofNat n

/-- `[uint8(n>>8), uint8(n)]` (truncating like the Go conversions) -/
def be16 (n : Nat) : Bytes := [u8 (n / 256), u8 n]
/-- `[uint8(n>>16), uint8(n>>8), uint8(n)]` -/
def be24 (n : Nat) : Bytes := [u8 (n / 65536), u8 (n / 256), u8 n]

def nat16 (a b : UInt8) : Nat := a.toNat * 256 + b.toNat
def nat24 (a b c : UInt8) : Nat := a.toNat * 65536 + b.toNat * 256 + c.toNat

/-- a 16-bit value that is only carried (never used as a length): its two bytes -/
abbrev W16 := UInt8 × UInt8

def W16.bytes (w : W16) : Bytes := [w.1, w.2]
def W16.toNat (w : W16) : Nat := nat16 w.1 w.2
def W16.ofNat (n : Nat) : W16 := (u8 (n / 256), u8 n)

/-! ### cryptobyte.String -/

abbrev Parser (α : Type) := Bytes → Option (α × Bytes)

def readU8 : Parser UInt8
  | a :: r => some (a, r)
  | [] => none

def readW16 : Parser W16
  | a :: b :: r => some ((a, b), r)
  | _ => none

def readU16 : Parser Nat
  | a :: b :: r => some (nat16 a b, r)
  | _ => none

def readU24 : Parser Nat
  | a :: b :: c :: r => some (nat24 a b c, r)
  | _ => none

/-- `s.ReadBytes(&out, n)` / `s.read(n)` -/
def readBytes (n : Nat) : Parser Bytes := fun s =>
  if n ≤ s.length then some (s.take n, s.drop n) else none

/-- `s.Skip(n)` -/
def skip (n : Nat) : Bytes → Option Bytes := fun s =>
  if n ≤ s.length then some (s.drop n) else none

def readVec8 : Parser Bytes := fun s =>
  match readU8 s with
  | some (n, r) => readBytes n.toNat r
  | none => none

def readVec16 : Parser Bytes := fun s =>
  match readU16 s with
  | some (n, r) => readBytes n r
  | none => none

def readVec24 : Parser Bytes := fun s =>
  match readU24 s with
  | some (n, r) => readBytes n r
  | none => none

/-- `for !s.Empty() { step }` with loop state; `step` returns the new state and the rest.
Fuel bounds the iterations (callers pass the input length: every step consumes a byte). -/
def foldMany {σ : Type} (step : σ → Bytes → Option (σ × Bytes)) : Nat → σ → Bytes → Option σ
  | _, st, [] => some st
  | 0, _, _ :: _ => none
  | f + 1, st, a :: s =>
    match step st (a :: s) with
    | none => none
    | some (st', r) => foldMany step f st' r

/-- `for !s.Empty() { x := item; out = append(out, x) }` -/
def many {α : Type} (p : Parser α) : Nat → Bytes → Option (List α)
  | _, [] => some []
  | 0, _ :: _ => none
  | f + 1, a :: s =>
    match p (a :: s) with
    | none => none
    | some (x, r) =>
      match many p f r with
      | none => none
      | some xs => some (x :: xs)

/-! ### cryptobyte.Builder (a builder is `Option Bytes`; `none` = `Bytes()` returns an error) -/

def vec8 (c : Bytes) : Option Bytes :=
  if c.length < 256 then some (u8 c.length :: c) else none

def vec16 (c : Bytes) : Option Bytes :=
  if c.length < 65536 then some (be16 c.length ++ c) else none

def vec24 (c : Bytes) : Option Bytes :=
  if c.length < 16777216 then some (be24 c.length ++ c) else none

/-- concatenation of item encodings -/
def concatMap {α : Type} (f : α → Bytes) : List α → Bytes
  | [] => []
  | x :: xs => f x ++ concatMap f xs

def concatMapM {α : Type} (f : α → Option Bytes) : List α → Option Bytes
  | [] => some []
  | x :: xs =>
    match f x, concatMapM f xs with
    | some a, some b => some (a ++ b)
    | _, _ => none

def w16s (l : List W16) : Bytes := concatMap W16.bytes l

/-! ### hand-indexed Go code: outcomes and checked accessors -/

inductive Outcome (α : Type) where
  | ok (a : α)
  | reject
  | panic
  deriving Repr, DecidableEq

namespace Outcome
def bind {α β : Type} : Outcome α → (α → Outcome β) → Outcome β
  | ok a, f => f a
  | reject, _ => reject
  | panic, _ => panic
instance : Monad Outcome where
  pure := ok
  bind := bind
def ofOption {α : Type} : Option α → Outcome α
  | some a => ok a
  | none => reject
def isOk {α : Type} : Outcome α → Bool
  | ok _ => true
  | _ => false
def toOption {α : Type} : Outcome α → Option α
  | ok a => some a
  | _ => none
end Outcome

/-- `d[i]` -/
def idx (d : Bytes) (i : Nat) : Outcome UInt8 :=
  match d[i]? with
  | some b => .ok b
  | none => .panic

/-- `d[i:]` -/
def sliceFrom (d : Bytes) (i : Nat) : Outcome Bytes :=
  if i ≤ d.length then .ok (d.drop i) else .panic

/-- `d[i:j]` -/
def slice (d : Bytes) (i j : Nat) : Outcome Bytes :=
  if i ≤ j ∧ j ≤ d.length then .ok ((d.drop i).take (j - i)) else .panic

/-- `uint32(d[i])<<16 | uint32(d[i+1])<<8 | uint32(d[i+2])` -/
def idx24 (d : Bytes) (i : Nat) : Outcome Nat :=
  match idx d i, idx d (i + 1), idx d (i + 2) with
  | .ok a, .ok b, .ok c => .ok (nat24 a b c)
  | _, _, _ => .panic

def idx16 (d : Bytes) (i : Nat) : Outcome Nat :=
  match idx d i, idx d (i + 1) with
  | .ok a, .ok b => .ok (nat16 a b)
  | _, _ => .panic

def idxW16 (d : Bytes) (i : Nat) : Outcome W16 :=
  match idx d i, idx d (i + 1) with
  | .ok a, .ok b => .ok (a, b)
  | _, _ => .panic

/-! ### message records (shared by model and spec; DTLCP messages carry a `DHdr` besides) -/

namespace Msg

/-- the three DTLCP header fields every dtlcp message struct stores -/
structure DHdr where
  seq : W16
  fragOff : Nat
  fragLen : Nat
  deriving Repr, DecidableEq, Inhabited

structure Blob where          -- finished / certificateVerify / key exchanges: one opaque field
  data : Bytes
  deriving Repr, DecidableEq, Inhabited

structure Certificate where
  certs : List Bytes
  deriving Repr, DecidableEq, Inhabited

structure CertificateRequest where
  types : Bytes
  cas : List Bytes
  deriving Repr, DecidableEq, Inhabited

structure HelloVerifyRequest where
  vers : W16
  cookie : Bytes
  deriving Repr, DecidableEq, Inhabited

structure ServerHello where
  vers : W16
  random : Bytes
  sessionId : Bytes
  suite : W16
  compression : UInt8
  ocsp : Bool
  ocspResponse : Bytes
  alpn : Bytes
  sniAck : Bool
  deriving Repr, DecidableEq, Inhabited

structure TA where
  ty : UInt8
  id : Bytes
  deriving Repr, DecidableEq, Inhabited

structure ClientHello where
  vers : W16
  random : Bytes
  sessionId : Bytes
  cookie : Bytes              -- dtlcp only; tlcp never sets or emits it
  suites : List W16
  compression : Bytes
  serverName : Bytes
  tas : List TA
  ocsp : Bool
  curves : List W16
  sigAlgs : List W16
  alpn : List Bytes
  clientId : Bytes
  deriving Repr, DecidableEq, Inhabited

end Msg

/-! ### lemmas -/

theorem u8_toNat (n : Nat) : (u8 n).toNat = n % 256 := by
  simp [u8, UInt8.toNat_ofNat']

theorem u8_of_toNat (b : UInt8) : u8 b.toNat = b := by
  simp [u8]

theorem toNat_lt (b : UInt8) : b.toNat < 256 := UInt8.toNat_lt b

theorem nat16_lt (a b : UInt8) : nat16 a b < 65536 := by
  have := toNat_lt a; have := toNat_lt b; unfold nat16; omega

theorem nat24_lt (a b c : UInt8) : nat24 a b c < 16777216 := by
  have := toNat_lt a; have := toNat_lt b; have := toNat_lt c; unfold nat24; omega

theorem be16_length (n : Nat) : (be16 n).length = 2 := rfl
theorem be24_length (n : Nat) : (be24 n).length = 3 := rfl

theorem readU16_be16 {n : Nat} (h : n < 65536) (r : Bytes) : readU16 (be16 n ++ r) = some (n, r) := by
  simp only [be16, List.cons_append, List.nil_append, readU16, nat16, u8_toNat]
  congr 2; omega

theorem readU24_be24 {n : Nat} (h : n < 16777216) (r : Bytes) : readU24 (be24 n ++ r) = some (n, r) := by
  simp only [be24, List.cons_append, List.nil_append, readU24, nat24, u8_toNat]
  congr 2; omega

theorem be16_nat16 (a b : UInt8) : be16 (nat16 a b) = [a, b] := by
  have ha := toNat_lt a; have hb := toNat_lt b
  simp only [be16, nat16]
  have h1 : (a.toNat * 256 + b.toNat) / 256 = a.toNat := by omega
  rw [h1, u8_of_toNat]
  have h2 : u8 (a.toNat * 256 + b.toNat) = b := by
    apply UInt8.toNat_inj.mp; rw [u8_toNat]; omega
  rw [h2]

theorem be24_nat24 (a b c : UInt8) : be24 (nat24 a b c) = [a, b, c] := by
  have ha := toNat_lt a; have hb := toNat_lt b; have hc := toNat_lt c
  simp only [be24, nat24]
  have h1 : u8 ((a.toNat * 65536 + b.toNat * 256 + c.toNat) / 65536) = a := by
    apply UInt8.toNat_inj.mp; rw [u8_toNat]; omega
  have h2 : u8 ((a.toNat * 65536 + b.toNat * 256 + c.toNat) / 256) = b := by
    apply UInt8.toNat_inj.mp; rw [u8_toNat]; omega
  have h3 : u8 (a.toNat * 65536 + b.toNat * 256 + c.toNat) = c := by
    apply UInt8.toNat_inj.mp; rw [u8_toNat]; omega
  rw [h1, h2, h3]

theorem readBytes_append (a r : Bytes) : readBytes a.length (a ++ r) = some (a, r) := by
  simp [readBytes]

theorem readBytes_eq_some {n : Nat} {s c r : Bytes} (h : readBytes n s = some (c, r)) :
    s = c ++ r ∧ c.length = n := by
  unfold readBytes at h
  split at h
  · rename_i hn
    simp only [Option.some.injEq, Prod.mk.injEq] at h
    obtain ⟨h1, h2⟩ := h
    subst h1; subst h2
    exact ⟨(List.take_append_drop n s).symm, by simp [List.length_take]; omega⟩
  · cases h

theorem skip_append (a r : Bytes) : skip a.length (a ++ r) = some r := by
  simp [skip]

theorem readU8_eq_some {s r : Bytes} {a : UInt8} (h : readU8 s = some (a, r)) : s = a :: r := by
  cases s with
  | nil => cases h
  | cons x xs => simp only [readU8, Option.some.injEq, Prod.mk.injEq] at h; rw [h.1, h.2]

theorem readU16_eq_some {s r : Bytes} {n : Nat} (h : readU16 s = some (n, r)) :
    s = be16 n ++ r ∧ n < 65536 := by
  match s, h with
  | a :: b :: t, h =>
    simp only [readU16, Option.some.injEq, Prod.mk.injEq] at h
    obtain ⟨h1, h2⟩ := h
    subst h1; subst h2
    exact ⟨by rw [be16_nat16]; rfl, nat16_lt a b⟩

theorem readU24_eq_some {s r : Bytes} {n : Nat} (h : readU24 s = some (n, r)) :
    s = be24 n ++ r ∧ n < 16777216 := by
  match s, h with
  | a :: b :: c :: t, h =>
    simp only [readU24, Option.some.injEq, Prod.mk.injEq] at h
    obtain ⟨h1, h2⟩ := h
    subst h1; subst h2
    exact ⟨by rw [be24_nat24]; rfl, nat24_lt a b c⟩

theorem readW16_eq_some {s r : Bytes} {w : W16} (h : readW16 s = some (w, r)) : s = w.bytes ++ r := by
  match s, h with
  | a :: b :: t, h =>
    simp only [readW16, Option.some.injEq, Prod.mk.injEq] at h
    obtain ⟨h1, h2⟩ := h
    subst h1; subst h2; rfl

theorem readW16_append (w : W16) (r : Bytes) : readW16 (w.bytes ++ r) = some (w, r) := rfl

/-- `readVecN_append`, N = 1: reading back a length-prefixed vector -/
theorem readVec8_append {c : Bytes} (h : c.length < 256) (r : Bytes) :
    readVec8 (u8 c.length :: c ++ r) = some (c, r) := by
  have : (u8 c.length).toNat = c.length := by rw [u8_toNat]; omega
  simp only [readVec8, List.cons_append, readU8, this]
  exact readBytes_append c r

theorem readVec16_append {c : Bytes} (h : c.length < 65536) (r : Bytes) :
    readVec16 (be16 c.length ++ c ++ r) = some (c, r) := by
  rw [List.append_assoc]
  simp only [readVec16, readU16_be16 h]
  exact readBytes_append c r

theorem readVec24_append {c : Bytes} (h : c.length < 16777216) (r : Bytes) :
    readVec24 (be24 c.length ++ c ++ r) = some (c, r) := by
  rw [List.append_assoc]
  simp only [readVec24, readU24_be24 h]
  exact readBytes_append c r

theorem readVec8_eq_some {s c r : Bytes} (h : readVec8 s = some (c, r)) :
    s = u8 c.length :: c ++ r ∧ c.length < 256 := by
  unfold readVec8 at h
  cases hs : readU8 s with
  | none => rw [hs] at h; cases h
  | some p =>
    obtain ⟨n, t⟩ := p
    rw [hs] at h
    simp only at h
    have h1 := readU8_eq_some hs
    obtain ⟨h2, h3⟩ := readBytes_eq_some h
    have := toNat_lt n
    refine ⟨?_, by omega⟩
    rw [h1, h2, h3, u8_of_toNat]; rfl

theorem readVec16_eq_some {s c r : Bytes} (h : readVec16 s = some (c, r)) :
    s = be16 c.length ++ c ++ r ∧ c.length < 65536 := by
  unfold readVec16 at h
  cases hs : readU16 s with
  | none => rw [hs] at h; cases h
  | some p =>
    obtain ⟨n, t⟩ := p
    rw [hs] at h
    simp only at h
    obtain ⟨h1, hn⟩ := readU16_eq_some hs
    obtain ⟨h2, h3⟩ := readBytes_eq_some h
    refine ⟨?_, by omega⟩
    rw [h1, h2, h3, List.append_assoc]

theorem readVec24_eq_some {s c r : Bytes} (h : readVec24 s = some (c, r)) :
    s = be24 c.length ++ c ++ r ∧ c.length < 16777216 := by
  unfold readVec24 at h
  cases hs : readU24 s with
  | none => rw [hs] at h; cases h
  | some p =>
    obtain ⟨n, t⟩ := p
    rw [hs] at h
    simp only at h
    obtain ⟨h1, hn⟩ := readU24_eq_some hs
    obtain ⟨h2, h3⟩ := readBytes_eq_some h
    refine ⟨?_, by omega⟩
    rw [h1, h2, h3, List.append_assoc]

/-- a length-prefixed frame determines its content and what follows it -/
theorem frame_injective16 {a a' r r' : Bytes} (ha : a.length < 65536) (ha' : a'.length < 65536)
    (h : be16 a.length ++ a ++ r = be16 a'.length ++ a' ++ r') : a = a' ∧ r = r' := by
  have h1 := readVec16_append ha r
  rw [h, readVec16_append ha' r'] at h1
  simp only [Option.some.injEq, Prod.mk.injEq] at h1
  exact ⟨h1.1.symm, h1.2.symm⟩

theorem frame_injective24 {a a' r r' : Bytes} (ha : a.length < 16777216) (ha' : a'.length < 16777216)
    (h : be24 a.length ++ a ++ r = be24 a'.length ++ a' ++ r') : a = a' ∧ r = r' := by
  have h1 := readVec24_append ha r
  rw [h, readVec24_append ha' r'] at h1
  simp only [Option.some.injEq, Prod.mk.injEq] at h1
  exact ⟨h1.1.symm, h1.2.symm⟩

theorem frame_injective8 {a a' r r' : Bytes} (ha : a.length < 256) (ha' : a'.length < 256)
    (h : u8 a.length :: a ++ r = u8 a'.length :: a' ++ r') : a = a' ∧ r = r' := by
  have h1 := readVec8_append ha r
  rw [h, readVec8_append ha' r'] at h1
  simp only [Option.some.injEq, Prod.mk.injEq] at h1
  exact ⟨h1.1.symm, h1.2.symm⟩

theorem vec8_eq_some {c b : Bytes} (h : vec8 c = some b) : b = u8 c.length :: c ∧ c.length < 256 := by
  unfold vec8 at h; split at h
  · simp only [Option.some.injEq] at h; exact ⟨h.symm, by assumption⟩
  · cases h

theorem vec16_eq_some {c b : Bytes} (h : vec16 c = some b) : b = be16 c.length ++ c ∧ c.length < 65536 := by
  unfold vec16 at h; split at h
  · simp only [Option.some.injEq] at h; exact ⟨h.symm, by assumption⟩
  · cases h

theorem vec24_eq_some {c b : Bytes} (h : vec24 c = some b) : b = be24 c.length ++ c ∧ c.length < 16777216 := by
  unfold vec24 at h; split at h
  · simp only [Option.some.injEq] at h; exact ⟨h.symm, by assumption⟩
  · cases h

theorem vec8_of_lt {c : Bytes} (h : c.length < 256) : vec8 c = some (u8 c.length :: c) := by simp [vec8, h]
theorem vec16_of_lt {c : Bytes} (h : c.length < 65536) : vec16 c = some (be16 c.length ++ c) := by simp [vec16, h]
theorem vec24_of_lt {c : Bytes} (h : c.length < 16777216) : vec24 c = some (be24 c.length ++ c) := by simp [vec24, h]

/-- reading back a concatenation of items, one loop iteration per item -/
theorem many_concatMap {α : Type} (p : Parser α) (enc : α → Bytes) (P : α → Prop)
    (hp : ∀ x r, P x → p (enc x ++ r) = some (x, r))
    (hne : ∀ x, P x → enc x ≠ []) :
    ∀ (xs : List α) (fuel : Nat), (∀ x ∈ xs, P x) → xs.length ≤ fuel →
      many p fuel (concatMap enc xs) = some xs := by
  intro xs
  induction xs with
  | nil => intro fuel _ _; cases fuel <;> rfl
  | cons x xs ih =>
    intro fuel hP hlen
    have hx := hP x (List.mem_cons_self)
    cases fuel with
    | zero => simp at hlen
    | succ f =>
      have hne' := hne x hx
      simp only [concatMap]
      cases hex : enc x with
      | nil => exact absurd hex hne'
      | cons a t =>
        have h1 := hp x (concatMap enc xs) hx
        rw [hex] at h1
        simp only [List.cons_append] at h1 ⊢
        simp only [many, h1]
        have := ih f (fun y hy => hP y (List.mem_cons_of_mem _ hy)) (by simp at hlen; omega)
        rw [this]

/-- a successful item loop consumed exactly a concatenation of item encodings -/
theorem many_eq_some {α : Type} (p : Parser α) (enc : α → Bytes)
    (hp : ∀ s x r, p s = some (x, r) → s = enc x ++ r) :
    ∀ (fuel : Nat) (s : Bytes) (xs : List α), many p fuel s = some xs → s = concatMap enc xs := by
  intro fuel
  induction fuel with
  | zero =>
    intro s xs h
    cases s with
    | nil => simp only [many, Option.some.injEq] at h; subst h; rfl
    | cons a t => simp [many] at h
  | succ f ih =>
    intro s xs h
    cases s with
    | nil => simp only [many, Option.some.injEq] at h; subst h; rfl
    | cons a t =>
      simp only [many] at h
      cases hps : p (a :: t) with
      | none => rw [hps] at h; cases h
      | some pr =>
        obtain ⟨x, r⟩ := pr
        rw [hps] at h
        simp only at h
        cases hm : many p f r with
        | none => rw [hm] at h; cases h
        | some ys =>
          rw [hm] at h
          simp only [Option.some.injEq] at h
          subst h
          rw [hp _ _ _ hps, ih r ys hm]; rfl

theorem concatMap_length_ge {α : Type} (enc : α → Bytes) (P : α → Prop) (hne : ∀ x, P x → enc x ≠ []) :
    ∀ xs : List α, (∀ x ∈ xs, P x) → xs.length ≤ (concatMap enc xs).length := by
  intro xs
  induction xs with
  | nil => intro _; simp [concatMap]
  | cons x xs ih =>
    intro hP
    have h1 := hne x (hP x List.mem_cons_self)
    have h2 := ih (fun y hy => hP y (List.mem_cons_of_mem _ hy))
    have h3 : 0 < (enc x).length := List.length_pos_iff.mpr h1
    simp only [concatMap, List.length_append, List.length_cons]
    omega

theorem w16s_length (l : List W16) : (w16s l).length = 2 * l.length := by
  induction l with
  | nil => rfl
  | cons x xs ih => simp only [w16s, concatMap, List.length_append, List.length_cons] at *; simp [W16.bytes]; omega

theorem many_w16s (l : List W16) (fuel : Nat) (h : l.length ≤ fuel) : many readW16 fuel (w16s l) = some l :=
  many_concatMap readW16 W16.bytes (fun _ => True) (fun x r _ => readW16_append x r)
    (fun x _ => by simp [W16.bytes]) l fuel (fun _ _ => trivial) h

end Gotlcp.Wire

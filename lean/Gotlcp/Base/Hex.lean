/-
Line-protocol helpers shared by all oracle drivers: hex <-> bytes, token parsing.
Core Lean only.
-/
namespace Gotlcp

abbrev Bytes := List UInt8

namespace Hex

def digit (n : Nat) : Char :=
  if n < 10 then Char.ofNat (48 + n) else Char.ofNat (87 + n)

def ofByte (b : UInt8) : String :=
  String.ofList [digit (b.toNat / 16), digit (b.toNat % 16)]

/-- lower-case hex, "-" for the empty string so that tokens never vanish -/
def encode (bs : Bytes) : String :=
  if bs.isEmpty then "-" else String.join (bs.map ofByte)

def nib (c : Char) : Option Nat :=
  if '0' ≤ c ∧ c ≤ '9' then some (c.toNat - 48)
  else if 'a' ≤ c ∧ c ≤ 'f' then some (c.toNat - 87)
  else if 'A' ≤ c ∧ c ≤ 'F' then some (c.toNat - 55)
  else none

def decodeChars : List Char → Option Bytes
  | [] => some []
  | [_] => none
  | a :: b :: rest => do
    let x ← nib a
    let y ← nib b
    let r ← decodeChars rest
    pure (UInt8.ofNat (x * 16 + y) :: r)

def decode (s : String) : Option Bytes :=
  if s == "-" then some [] else decodeChars s.toList

end Hex

/-- split a line into non-empty whitespace separated tokens -/
def isWs (c : Char) : Bool := c == ' ' || c == '\t' || c == '\n' || c == '\r'

def tokensAux : List Char → List Char → List String → List String
  | [], cur, acc => (if cur.isEmpty then acc else String.ofList cur.reverse :: acc).reverse
  | c :: cs, cur, acc =>
    if isWs c then tokensAux cs [] (if cur.isEmpty then acc else String.ofList cur.reverse :: acc)
    else tokensAux cs (c :: cur) acc

def tokens (line : String) : List String := tokensAux line.toList [] []

def stripEol (s : String) : String :=
  String.ofList ((s.toList.reverse.dropWhile (fun c => c == '\n' || c == '\r')).reverse)

/-- `key=value` lookup in a token list -/
def kv (toks : List String) (key : String) : Option String :=
  toks.findSome? fun t =>
    match t.splitOn "=" with
    | k :: rest => if k == key ∧ !rest.isEmpty then some ("=".intercalate rest) else none
    | _ => none

def kvNat (toks : List String) (key : String) : Option Nat := (kv toks key).bind String.toNat?

def kvHex (toks : List String) (key : String) : Option Bytes := (kv toks key).bind Hex.decode

/-- read all lines of stdin -/
partial def readLines (h : IO.FS.Stream) (acc : Array String := #[]) : IO (Array String) := do
  let line ← h.getLine
  if line.isEmpty then return acc
  readLines h (acc.push (stripEol line))

end Gotlcp

/-
Semantics of the Go constructs that `harness/cmd/go2lean` does not map to a plain Lean
operator: everything that can panic at run time (index, slice, copy into a slice, `make`,
integer division) is a checked helper in `Except String`; bitwise operators on `int` go through
the 64-bit two's-complement representation (which is what Go's `int` is on every platform
gotlcp targets).

Go `int` itself is translated to `Int`: additions and multiplications do not wrap.  This is
the one place where the generated definitions are *not* bit-exact; every function translated
so far only handles lengths and offsets far below 2^63 (documented in DESIGN.md section 12).

Core Lean only.
-/
namespace Gotlcp.Go

/-- `a[i]` -/
def idx {α : Type} (a : List α) (i : Int) : Except String α :=
  if i < 0 then .error "index out of range"
  else match a[i.toNat]? with
    | some x => .ok x
    | none => .error "index out of range"

/-- `a[i] = v` -/
def set {α : Type} (a : List α) (i : Int) (v : α) : Except String (List α) :=
  if i < 0 then .error "index out of range"
  else if i.toNat < a.length then .ok (a.set i.toNat v)
  else .error "index out of range"

/-- `a[lo:hi]` (capacity is not modelled: `hi ≤ len a` is required, as for an array-backed
slice whose capacity equals its length) -/
def slice {α : Type} (a : List α) (lo hi : Int) : Except String (List α) :=
  if lo < 0 ∨ hi < lo ∨ (a.length : Int) < hi then .error "slice bounds out of range"
  else .ok ((a.drop lo.toNat).take (hi.toNat - lo.toNat))

/-- `copy(a[lo:hi], src)` as a new value of `a` (copies `min (hi-lo) (len src)` elements) -/
def copyInto {α : Type} (a : List α) (lo hi : Int) (src : List α) : Except String (List α) :=
  if lo < 0 ∨ hi < lo ∨ (a.length : Int) < hi then .error "slice bounds out of range"
  else
    let n := min (hi.toNat - lo.toNat) src.length
    .ok (a.take lo.toNat ++ src.take n ++ a.drop (lo.toNat + n))

/-- `make([]T, n)` -/
def make {α : Type} (zero : α) (n : Int) : Except String (List α) :=
  if n < 0 then .error "makeslice: len out of range" else .ok (List.replicate n.toNat zero)

/-- `a / b` on `int` (truncated) -/
def divInt (a b : Int) : Except String Int :=
  if b = 0 then .error "integer divide by zero" else .ok (Int.tdiv a b)

/-- `a % b` on `int` (sign of the dividend) -/
def modInt (a b : Int) : Except String Int :=
  if b = 0 then .error "integer divide by zero" else .ok (Int.tmod a b)

def udiv {n : Nat} (a b : BitVec n) : Except String (BitVec n) :=
  if b = 0#n then .error "integer divide by zero" else .ok (a / b)

def urem {n : Nat} (a b : BitVec n) : Except String (BitVec n) :=
  if b = 0#n then .error "integer divide by zero" else .ok (a % b)

def sdiv {n : Nat} (a b : BitVec n) : Except String (BitVec n) :=
  if b = 0#n then .error "integer divide by zero" else .ok (BitVec.sdiv a b)

def srem {n : Nat} (a b : BitVec n) : Except String (BitVec n) :=
  if b = 0#n then .error "integer divide by zero" else .ok (BitVec.srem a b)

/-- `a & b` on `int` -/
def andInt (a b : Int) : Int := (BitVec.ofInt 64 a &&& BitVec.ofInt 64 b).toInt
/-- `a | b` on `int` -/
def orInt (a b : Int) : Int := (BitVec.ofInt 64 a ||| BitVec.ofInt 64 b).toInt
/-- `a ^ b` on `int` -/
def xorInt (a b : Int) : Int := (BitVec.ofInt 64 a ^^^ BitVec.ofInt 64 b).toInt

end Gotlcp.Go

namespace Gotlcp.Go

/-- a hash algorithm (`func() hash.Hash`): `sm3.New`, `sha256.New` -/
inductive HashAlg where
  | sm3 | sha256
  /-- no hash at all: the `alg` of a nil `hash.Hash` -/
  | none
deriving Repr, DecidableEq

/-- Library functions the translator models by a parameter: the generated definitions that call
them take `(ext : Extern)` and the theorems quantify over every `ext`. -/
structure Extern where
  /-- `hmac.New(alg, key)`, `Write`s, `Sum(nil)`: the MAC of the concatenated input -/
  hmac : HashAlg → List (BitVec 8) → List (BitVec 8) → List (BitVec 8)

/-- HMAC-SM3 -/
abbrev Extern.hmacSM3 (ext : Extern) : List (BitVec 8) → List (BitVec 8) → List (BitVec 8) := ext.hmac .sm3

/-- a keyed hash object between `hmac.New` and `Sum`: algorithm, key and the input written so far -/
structure Hmac where
  alg : HashAlg := .sm3
  key : List (BitVec 8) := []
  input : List (BitVec 8) := []
deriving Repr, DecidableEq

/-- `subtle.ConstantTimeCompare(x, y)`: 1 when equal, else 0 (timing is not modelled) -/
def constantTimeCompare (x y : List (BitVec 8)) : Int := if x = y then 1 else 0

/-- `subtle.ConstantTimeSelect(v, x, y)`, the library's own expression `^(v-1)&x | (v-1)&y` on `int` -/
def constantTimeSelect (v x y : Int) : Int := orInt (andInt (xorInt (v - 1) (-1)) x) (andInt (v - 1) y)

/-- `*p` / `p.f` for a struct pointer held as `Option` (nil = none) -/
def deref {α : Type} (p : Option α) : Except String α :=
  match p with
  | some v => .ok v
  | none => .error "invalid memory address or nil pointer dereference"

/-- one hexadecimal digit of `encoding/hex` (lower case) -/
def hexDigit (n : Nat) : BitVec 8 := BitVec.ofNat 8 (if n < 10 then 48 + n else 87 + n)

/-- `hex.EncodeToString(src)`: two lower-case hexadecimal digits per byte (as the bytes of the string) -/
def hexEncode (src : List (BitVec 8)) : List (BitVec 8) :=
  src.flatMap fun b => [hexDigit (b.toNat / 16), hexDigit (b.toNat % 16)]

/-- `strings.HasSuffix(s, suffix)` on the bytes of the strings -/
def hasSuffix (s suffix : List (BitVec 8)) : Bool := suffix.isSuffixOf s

/-- `h != nil` for a `hash.Hash` -/
def Hmac.present (h : Hmac) : Bool := h.alg != .none

/-- `h.Size()`: 32 for HMAC-SM3 and HMAC-SHA256 (library knowledge); a nil `hash.Hash` panics -/
def hashSize (h : Hmac) : Except String Int :=
  if h.alg = .none then .error "invalid memory address or nil pointer dereference" else .ok 32

/-- a Go `error` value as far as the translated code can tell them apart: an `alert` (the
package's own error type, `type alert uint8`) or some other, opaque, error.  `error` itself
is `Option Error` (`nil` = `none`). -/
inductive Error where
  | alert (a : BitVec 8)
  | other
  /-- `io.EOF`, `io.ErrUnexpectedEOF` -/
  | eof
  | unexpectedEOF
deriving Repr, DecidableEq

/-- The record ciphers of the receive path, modelled by parameters (as `Extern` does for HMAC):
the generated definitions that call them take `(rx : RxExtern)` and the theorems quantify over
every `rx`.  The key is part of the cipher object and hence of the function. -/
structure RxExtern where
  /-- `cipher.Stream.XORKeyStream`: the output for this input (same length in the library) -/
  xorKeyStream : List (BitVec 8) → List (BitVec 8)
  /-- `cipher.AEAD.Open(_, nonce, ciphertext, additionalData)` succeeds -/
  aeadOk : List (BitVec 8) → List (BitVec 8) → List (BitVec 8) → Bool
  /-- … and the plaintext it then appends -/
  aeadPlain : List (BitVec 8) → List (BitVec 8) → List (BitVec 8) → List (BitVec 8)
  /-- CBC decryption of whole blocks under the given IV (same length in the library) -/
  cbcDecrypt : List (BitVec 8) → List (BitVec 8) → List (BitVec 8)
  /-- `s != nil` for a byte slice: nil and empty slices are the same `List`, so the outcome of
  the test is a parameter (sound for code whose results do not depend on it, which the
  theorems establish by holding for every `rx`) -/
  nonNil : List (BitVec 8) → Bool

end Gotlcp.Go

/-
Semantics of the Go constructs that `harness/cmd/go2lean` does not map to a plain Lean
operator: everything that can panic at run time (index, slice, copy into a slice, `make`,
integer division) is a checked helper in `Except String`; bitwise operators on `int` go through
the 64-bit two's-complement representation (which is what Go's `int` is on every platform
gotlcp targets).

Go `int` itself is translated to `Int`: additions and multiplications do not wrap.  This is
the one place where the generated definitions are *not* bit-exact; every function translated
so far only handles lengths and offsets far below 2^63 (documented in DESIGN.md section 12).

Core Lean only.
-/
namespace Gotlcp.Go

/-- `a[i]` -/
def idx {α : Type} (a : List α) (i : Int) : Except String α :=
  if i < 0 then .error "index out of range"
  else match a[i.toNat]? with
    | some x => .ok x
    | none => .error "index out of range"

/-- `a[i] = v` -/
def set {α : Type} (a : List α) (i : Int) (v : α) : Except String (List α) :=
  if i < 0 then .error "index out of range"
  else if i.toNat < a.length then .ok (a.set i.toNat v)
  else .error "index out of range"

/-- `a[lo:hi]` (capacity is not modelled: `hi ≤ len a` is required, as for an array-backed
slice whose capacity equals its length) -/
def slice {α : Type} (a : List α) (lo hi : Int) : Except String (List α) :=
  if lo < 0 ∨ hi < lo ∨ (a.length : Int) < hi then .error "slice bounds out of range"
  else .ok ((a.drop lo.toNat).take (hi.toNat - lo.toNat))

/-- `copy(a[lo:hi], src)` as a new value of `a` (copies `min (hi-lo) (len src)` elements) -/
def copyInto {α : Type} (a : List α) (lo hi : Int) (src : List α) : Except String (List α) :=
  if lo < 0 ∨ hi < lo ∨ (a.length : Int) < hi then .error "slice bounds out of range"
  else
    let n := min (hi.toNat - lo.toNat) src.length
    .ok (a.take lo.toNat ++ src.take n ++ a.drop (lo.toNat + n))

/-- `make([]T, n)` -/
def make {α : Type} (zero : α) (n : Int) : Except String (List α) :=
  if n < 0 then .error "makeslice: len out of range" else .ok (List.replicate n.toNat zero)

/-- `a / b` on `int` (truncated) -/
def divInt (a b : Int) : Except String Int :=
  if b = 0 then .error "integer divide by zero" else .ok (Int.tdiv a b)

/-- `a % b` on `int` (sign of the dividend) -/
def modInt (a b : Int) : Except String Int :=
  if b = 0 then .error "integer divide by zero" else .ok (Int.tmod a b)

def udiv {n : Nat} (a b : BitVec n) : Except String (BitVec n) :=
  if b = 0#n then .error "integer divide by zero" else .ok (a / b)

def urem {n : Nat} (a b : BitVec n) : Except String (BitVec n) :=
  if b = 0#n then .error "integer divide by zero" else .ok (a % b)

def sdiv {n : Nat} (a b : BitVec n) : Except String (BitVec n) :=
  if b = 0#n then .error "integer divide by zero" else .ok (BitVec.sdiv a b)

def srem {n : Nat} (a b : BitVec n) : Except String (BitVec n) :=
  if b = 0#n then .error "integer divide by zero" else .ok (BitVec.srem a b)

/-- `a & b` on `int` -/
def andInt (a b : Int) : Int := (BitVec.ofInt 64 a &&& BitVec.ofInt 64 b).toInt
/-- `a | b` on `int` -/
def orInt (a b : Int) : Int := (BitVec.ofInt 64 a ||| BitVec.ofInt 64 b).toInt
/-- `a ^ b` on `int` -/
def xorInt (a b : Int) : Int := (BitVec.ofInt 64 a ^^^ BitVec.ofInt 64 b).toInt

end Gotlcp.Go

namespace Gotlcp.Go

/-- a hash algorithm (`func() hash.Hash`): `sm3.New`, `sha256.New` -/
inductive HashAlg where
  | sm3 | sha256
deriving Repr, DecidableEq

/-- Library functions the translator models by a parameter: the generated definitions that call
them take `(ext : Extern)` and the theorems quantify over every `ext`. -/
structure Extern where
  /-- `hmac.New(alg, key)`, `Write`s, `Sum(nil)`: the MAC of the concatenated input -/
  hmac : HashAlg → List (BitVec 8) → List (BitVec 8) → List (BitVec 8)

/-- HMAC-SM3 -/
abbrev Extern.hmacSM3 (ext : Extern) : List (BitVec 8) → List (BitVec 8) → List (BitVec 8) := ext.hmac .sm3

/-- a keyed hash object between `hmac.New` and `Sum`: algorithm, key and the input written so far -/
structure Hmac where
  alg : HashAlg := .sm3
  key : List (BitVec 8) := []
  input : List (BitVec 8) := []
deriving Repr, DecidableEq

/-- `subtle.ConstantTimeCompare(x, y)`: 1 when equal, else 0 (timing is not modelled) -/
def constantTimeCompare (x y : List (BitVec 8)) : Int := if x = y then 1 else 0

end Gotlcp.Go

/-
The lock side of the protocol adapter's public object (`pa.ProtocolSwitchServerConn`), for C20's
"an error, not a hang": `detect()` holds `c.lock` for the whole blocking peek of the record
header, so a goroutine inside the first `Read` / `Write` is PARKED in a transport read while it
holds that mutex, for as long as the client stays silent.  The only things that get it back are
the calls the `net.Conn` contract offers for that: `Close` and the deadline setters, made by
another goroutine.  They must therefore run to their end without needing any mutex the parked
goroutine holds.

The programs are REGENERATED from the Go AST (`Facts.pa.swProgs`, `Facts.pa.swUnblockers`, see
harness/cmd/extract/facts_pa.go); the interleaving semantics is C13's (`Gotlcp.Model.Locks`).
Core Lean only (linked into `oracle_c20`).
-/
import Gotlcp.Model.Locks

namespace Gotlcp.Model.PA
open Gotlcp.Model.Locks

/-- event kinds of `Facts.pa.swProgs` -/
def evTransportRead : Nat := 9
def evIntoStack : Nat := 12

/-- mutexes an event list acquires -/
def acquiresEv : List (Nat × Nat) → List Nat
  | [] => []
  | (0, l) :: r => l :: acquiresEv r
  | _ :: r => acquiresEv r

/-- a goroutine running `evs` is parked at its first event of kind `k`: the mutexes it holds
there and the rest of its program -/
def parkAt (k : Nat) : List Nat → List (Nat × Nat) → Option (List Nat × List (Nat × Nat))
  | _, [] => none
  | held, (0, l) :: r => parkAt k (l :: held) r
  | held, (1, l) :: r => parkAt k (held.erase l) r
  | held, (kk, _) :: r => if kk == k then some (held, r) else parkAt k held r

/-- Goroutine 0 is parked in method `parked` at its first event of kind `k` and does not move
(the client is silent); goroutine 1 calls `unb`.  Does that call return?  (`run` skips a thread
that cannot step, so a call that needs a held mutex is still where it was after any number of
turns.) -/
def unblockerReturns (progs unblockers : List (String × List (Nat × Nat)))
    (parked : String) (k : Nat) (unb : String) : Bool :=
  match parkAt k [] (lookupProg progs parked) with
  | none => true
  | some (held, rest) =>
    let t0 : Thread Unit := { held := held, prog := ofEvents Unit rest }
    let t1 : Thread Unit := { prog := ofEvents Unit (lookupProg unblockers unb) }
    let s := run (LockM Unit) ⟨[t0, t1], {}⟩ (List.replicate (lookupProg unblockers unb).length 1)
    match s.ths[1]? with
    | some t => t.prog.isEmpty
    | none => false

end Gotlcp.Model.PA

/-
The LISTENER of the protocol adapter (`pa.listener.Accept`, pa/pa.go) in front of several peers.

A server has ONE accept loop (`for { c, _ := ln.Accept(); go serve(c) }`); every accepted connection is
served by a goroutine of its own whose first `Read` / `Write` runs the detection.  The transports are
blocking here (phase `listen` of the driver): a read parks until the bytes are there or the peer has
gone away.  Time is counted in ticks; within one tick everything that can happen without further input
from a peer happens (the driver advances the tick only when every goroutine is parked).

* a peer = the tick at which its connection is established (as a gap after the previous peer's arrival:
  the accept queue is in list order) and its acts, each a gap after the previous one: send a chunk, or
  disconnect.  Every list of peers is a well-formed schedule.
* `readyAt need t acts` — the tick at which a blocking `io.ReadFull` of `need` bytes started at `t`
  returns: the bytes are there, or the peer has gone away; `none` = it parks for ever (a silent peer).
* `listenRun` — the accept loop as a fold over the queue, carrying the tick at which the loop is free
  again (`none` = it never is).  `peeks` (fact `Facts.pa.acceptProg`) says whether `Accept` itself runs
  the header peek on the accepted connection before returning it: then the loop is busy until THAT peer
  has sent five bytes or gone away, and everybody behind it in the queue waits.
* per connection, the detector is the one of `Model.PA` (`detect` / `call` / `reads`) over the peer's own
  script; nothing of another connection enters it.

Core Lean only (linked into `oracle_c20`).
-/
import Gotlcp.Model.PA

namespace Gotlcp.Model.PA

inductive PAct where
  | send (c : Bytes)
  | close
  deriving Repr, DecidableEq

structure Peer where
  /-- ticks after the previous peer's arrival at which this peer's connection is established -/
  arrive : Nat
  /-- `(gap, act)`: `gap` ticks after the previous act (after the arrival for the first) -/
  acts : List (Nat × PAct)
  deriving Repr, DecidableEq

/-- everything the peer sends before it goes away, in order -/
def stream : List (Nat × PAct) → Bytes
  | [] => []
  | (_, .send c) :: r => c ++ stream r
  | (_, .close) :: _ => []

/-- the peer's transport script for `Model.PA`: its chunks, the end of the script being end-of-stream.
(A peer that never disconnects never lets a reader reach that end: `readyAt` decides whether a read
returns at all.) -/
def script : List (Nat × PAct) → List Ev
  | [] => []
  | (_, .send c) :: r => .data c :: script r
  | (_, .close) :: _ => []

/-- the tick at which a blocking read of `need` more bytes, started at tick `t` with the acts still to
come, returns; `none`: never -/
def readyAt : Nat → Nat → List (Nat × PAct) → Option Nat
  | 0, t, _ => some t
  | _ + 1, _, [] => none
  | _ + 1, t, (g, .close) :: _ => some (t + g)
  | n + 1, t, (g, .send c) :: r => readyAt (n + 1 - c.length) (t + g) r

/-- what became of one connection when the world has come to rest -/
structure Outcome where
  /-- tick at which `Accept` returned it (`none`: never) -/
  acc : Option Nat := none
  /-- tick and answer of the first call made on it (`none`: the call has not returned) -/
  dec : Option (Nat × Route) := none
  /-- what the serving stack has read through `ProtocolDetectConn.Read` in the end -/
  got : Bytes := []
  deriving Repr, DecidableEq

/-- the object `Accept` hands to the application for a peer with these acts: a fresh detector over the
raw connection — or, when `Accept` peeks, the detector after one `detect()` whose error was dropped -/
def handed (P : Params) (cfg : Cfg) (peeks : Bool) (acts : List (Nat × PAct)) : SC :=
  let c0 : SC := { p := { evs := script acts } }
  if peeks then (detect P cfg c0).2 else c0

/-- bytes and events still in a script (every read with a non-empty buffer consumes one of them) -/
def evCount : List Ev → Nat
  | [] => 0
  | .data c :: r => c.length + 1 + evCount r
  | .timeout :: r => 1 + evCount r

/-- enough reads of `rb ≥ 1` bytes to drain the replayed header and everything the peer sends -/
def drainReads (s : PD) (rb : Nat) : List Nat :=
  List.replicate (s.hdr.length + evCount s.evs) rb

/-- one connection, given the tick `ret` at which `Accept` returned it (`none` = never): the serving
goroutine makes its first call at once; the call returns when the header peek can complete; once a stack
serves the connection it reads with `rb`-byte buffers until nothing is left -/
def serveConn (P : Params) (cfg : Cfg) (peeks : Bool) (rb : Nat) (a : Nat) (acts : List (Nat × PAct))
    (ret : Option Nat) : Outcome :=
  match ret with
  | none => {}
  | some t =>
    match readyAt P.headerLen a acts with
    | none => { acc := some t }
    | some r =>
      let d := call P cfg { c := handed P cfg peeks acts }
      { acc := some t, dec := some (max t r, d.1),
        got := if d.1.served then delivered (reads d.2.c.p (drainReads d.2.c.p rb)).1 else [] }

/-- the accept loop over the queue.  `free`: the tick from which the loop can take the next connection
(`none`: it is parked for good); `t0`: arrival tick of the previous peer. -/
def listenRun (P : Params) (cfg : Cfg) (peeks : Bool) (rb : Nat) :
    Option Nat → Nat → List Peer → List Outcome
  | _, _, [] => []
  | free, t0, p :: ps =>
    let a := t0 + p.arrive
    let ret : Option Nat := match free with
      | none => none
      | some f => if peeks then (readyAt P.headerLen a p.acts).map (max (max f a)) else some (max f a)
    serveConn P cfg peeks rb a p.acts ret :: listenRun P cfg peeks rb ret a ps

/-- a server started at tick 0 -/
def listen (P : Params) (cfg : Cfg) (peeks : Bool) (rb : Nat) (peers : List Peer) : List Outcome :=
  listenRun P cfg peeks rb (some 0) 0 peers

/-- absolute arrival ticks -/
def arrivals : Nat → List Peer → List (Nat × Peer)
  | _, [] => []
  | t0, p :: ps => (t0 + p.arrive, p) :: arrivals (t0 + p.arrive) ps

/-- one connection on its own: accepted the tick it arrives, served from its own script -/
def solo (P : Params) (cfg : Cfg) (rb : Nat) (a : Nat) (p : Peer) : Outcome :=
  serveConn P cfg false rb a p.acts (some a)

/-- `Accept` touches the accepted connection before returning it: its extracted program has a transport
read or a call into the selected stack after the inner listener's `Accept` -/
def acceptPeeksOf (prog : List (Nat × Nat)) : Bool :=
  prog.any (fun e => e.1 == 9 || e.1 == 12)

end Gotlcp.Model.PA

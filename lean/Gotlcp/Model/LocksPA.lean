/-
C13 for the protocol ADAPTER's public object (`pa.ProtocolSwitchServerConn`): the object an
application gets from the adaptive listener's `Accept` and then uses from several goroutines like
any `net.Conn`.  Its methods are few, but one of them is special: the FIRST `Read` / `Write` runs
`detect()`, which holds the object's mutex across a blocking transport read (the peek of the
client's record header).  A goroutine inside that first call is parked for as long as the client
is silent, WITH the mutex held.  "Close unblocks pending calls" and "no deadlock" then need: the
calls that get such a goroutine back (`Close`, the deadline setters) must not queue behind it.

The lock programs of EVERY method the object declares (`Facts.pa.swProgs`) and of the four
unblocking calls, declared or promoted from the embedded raw connection (`Facts.pa.swUnblockers`),
are regenerated from the Go AST (harness/cmd/extract/facts_pa.go; events: 0 acquire, 1 release,
2 transport write, 8 transport close, 9 transport read, 12 call into the selected stack — which
reads and writes the transport —, 13 transport deadline).  Semantics: `Model.Locks`.
Core Lean only (linked into `oracle_c13`).
-/
import Gotlcp.Model.Locks
import Gotlcp.Model.PALock

namespace Gotlcp.Model.LocksPA
open Gotlcp.Model.Locks

/-- mutexes a goroutine running `evs` holds at some point where it can be parked for an unbounded
time: a transport write (2), a transport read (9), a call into the selected stack (12) -/
def heldAtBlocking : List Nat → List (Nat × Nat) → List Nat
  | _, [] => []
  | held, (0, l) :: r => heldAtBlocking (l :: held) r
  | held, (1, l) :: r => heldAtBlocking (held.erase l) r
  | held, (2, _) :: r => held ++ heldAtBlocking held r
  | held, (9, _) :: r => held ++ heldAtBlocking held r
  | held, (12, _) :: r => held ++ heldAtBlocking held r
  | held, _ :: r => heldAtBlocking held r

/-- the places where a method can be parked -/
def parkKinds : List Nat := [Model.PA.evTransportRead, Model.PA.evIntoStack]

/-- names of the unblocking calls by the driver's `how=` token -/
def unblockerOf (how : String) : String :=
  if how == "d" then "SetDeadline" else if how == "r" then "SetReadDeadline"
  else if how == "w" then "SetWriteDeadline" else "Close"

/-- scenario `pafirst`: the first call `m` (Read / Write) of a fresh adapter connection is parked
— in the header peek while fewer than `headerLen` bytes have arrived, else inside the selected
stack — and another goroutine makes the unblocking call `how`: does that call return? -/
def pafirstReturns (progs unblockers : List (String × List (Nat × Nat))) (headerLen : Nat)
    (m : String) (k : Nat) (how : String) : Bool :=
  Model.PA.unblockerReturns progs unblockers m
    (if k < headerLen then Model.PA.evTransportRead else Model.PA.evIntoStack) (unblockerOf how)

end Gotlcp.Model.LocksPA

/-
Model of the sending side of the TLCP record layer (tlcp/conn.go): `maxPayloadSizeForWrite`
(exact integer arithmetic), the split loop of `writeRecordLocked`, the ciphertext length of
`halfConn.encrypt` per protection mode, and the `bytesSent` / `packetsSent` counters.

The cipher itself is not modelled (C04 does that): a record is its payload; what matters here
is how many bytes go into each record and how long the protected record is.

Core Lean only (linked into `oracle_c06`).
-/
import Gotlcp.Base.Hex

namespace Gotlcp.Model.RecordTx

/-- protection installed in `c.out` (TLCP has no stream-cipher suite; that branch of the code
is unreachable and not modelled) -/
inductive Kind where
  | none | aead | cbc
  deriving Repr, DecidableEq

/-- what of the source the model depends on (regenerated facts) -/
structure Params where
  tcpMSSEstimate : Nat
  recordHeaderLen : Nat
  maxPlaintext : Nat
  maxCiphertext : Nat
  boostThreshold : Nat
  /-- the literal in `if pkt > 1000` -/
  pktGuard : Nat
  /-- explicit nonce of the AEAD suites: `aeadNonceLength - noncePrefixLength` -/
  aeadExplicit : Nat
  /-- `cipher.AEAD.Overhead()` of GCM: the tag -/
  aeadOverhead : Nat
  /-- SM4 block size = explicit IV length of the CBC suites -/
  blockSize : Nat
  /-- `c.out.mac.Size()` of the CBC suites (HMAC-SM3) -/
  macSize : Nat
  deriving Repr

/-- The literal in `if pkt > 1000` of `maxPayloadSizeForWrite` as it is in the tree.  It is NOT read
from a text-matching fact (the extractor used to look for a comparison whose left operand is spelled
`pkt`): `Gotlcp.Tie.RecordSize.Tlcp` proves, for all inputs, that the function TRANSLATED from
tlcp/conn.go on every run computes exactly `maxPayload` instantiated with this value (and with the
named constants, which the extractor evaluates with go/types), so a semantic change of the guard
breaks that proof while a renaming or an equivalent re-arrangement of the function does not. -/
def treePktGuard : Nat := 1000

structure TxState where
  bytesSent : Nat
  packetsSent : Nat
  deriving Repr, DecidableEq

/-- `hc.explicitNonceLen()` -/
def explicitNonceLen (P : Params) : Kind → Nat
  | .none => 0
  | .aead => P.aeadExplicit
  | .cbc => P.blockSize

/-- Go's `x & ^(b - 1)` on a non-negative `int` -/
def andNotMask (x b : Nat) : Nat := x - (x &&& (b - 1))

/-- `payloadBytes` after the cipher switch of `maxPayloadSizeForWrite` (an `int`: it could go
negative if the constants were changed) -/
def payloadBytes (P : Params) (k : Kind) : Int :=
  let base : Int := (P.tcpMSSEstimate : Int) - P.recordHeaderLen - explicitNonceLen P k
  match k with
  | .none => base
  | .aead => base - P.aeadOverhead
  | .cbc =>
    -- payloadBytes = (payloadBytes & ^(blockSize - 1)) - 1 ; payloadBytes -= mac.Size()
    ((andNotMask base.toNat P.blockSize : Nat) : Int) - 1 - P.macSize

/-- `maxPayloadSizeForWrite(typ)`; `appData` is `typ == recordTypeApplicationData` -/
def maxPayload (P : Params) (dynDisabled : Bool) (k : Kind) (appData : Bool) (s : TxState) :
    Int × TxState :=
  if dynDisabled || !appData then (P.maxPlaintext, s)
  else if P.boostThreshold ≤ s.bytesSent then (P.maxPlaintext, s)
  else
    let pb := payloadBytes P k
    let pkt := s.packetsSent
    let s1 := { s with packetsSent := s.packetsSent + 1 }
    if P.pktGuard < pkt then (P.maxPlaintext, s1)
    else
      let n := pb * ((pkt : Int) + 1)
      if (P.maxPlaintext : Int) < n then (P.maxPlaintext, s1) else (n, s1)

/-- length of the protected fragment `encrypt` produces for an `n`-byte payload -/
def cipherLen (P : Params) (k : Kind) (n : Nat) : Nat :=
  match k with
  | .none => n
  | .aead => P.aeadExplicit + n + P.aeadOverhead
  | .cbc =>
    let plaintextLen := n + P.macSize
    let paddingLen := P.blockSize - plaintextLen % P.blockSize
    P.blockSize + plaintextLen + paddingLen

/-- the `for len(data) > 0` loop of `writeRecordLocked`: the payloads of the records written
and the state afterwards.  `none` = the loop cannot make progress (`m ≤ 0`: the Go code would
spin or panic on `data[:m]`); the fuel is only there to make the definition total. -/
def splitLoop (P : Params) (dyn : Bool) (k : Kind) (appData : Bool) :
    Nat → TxState → Bytes → Option (List Bytes × TxState)
  | _, s, [] => some ([], s)
  | 0, _, _ :: _ => none
  | fuel + 1, s, d :: ds =>
    let data := d :: ds
    let mp := maxPayload P dyn k appData s
    let m : Int := if mp.1 < (data.length : Int) then mp.1 else data.length
    if m ≤ 0 then none
    else
      let m := m.toNat
      -- c.write(outBuf): bytesSent += len(header) + len(protected fragment)
      let s2 := { mp.2 with bytesSent := mp.2.bytesSent + P.recordHeaderLen + cipherLen P k m }
      match splitLoop P dyn k appData fuel s2 (data.drop m) with
      | none => none
      | some (rs, s3) => some (data.take m :: rs, s3)

/-- `writeRecordLocked(typ, data)`: records, the returned `n`, the state -/
def writeRecord (P : Params) (dyn : Bool) (k : Kind) (appData : Bool) (s : TxState) (data : Bytes) :
    Option (List Bytes × Nat × TxState) :=
  match splitLoop P dyn k appData data.length s data with
  | none => none
  | some (rs, s') => some (rs, (rs.map (·.length)).sum, s')

/-- a sequence of `Write` calls -/
def writes (P : Params) (dyn : Bool) (k : Kind) : TxState → List Bytes → Option (List Bytes × List Nat × TxState)
  | s, [] => some ([], [], s)
  | s, d :: ds =>
    match writeRecord P dyn k true s d with
    | none => none
    | some (rs, n, s1) =>
      match writes P dyn k s1 ds with
      | none => none
      | some (rs', ns, s2) => some (rs ++ rs', n :: ns, s2)

end Gotlcp.Model.RecordTx

/-
Model of `dtlcp/replay.go` (`replayWindow`, `newReplayWindow`, `check`) and of the way the
five construction sites in `dtlcp/dtlcp.go` / `dtlcp/conn.go` turn `Config.ReplayWindow`
into the argument of `newReplayWindow`.

Go types and their images:
  * `right uint48` (`type uint48 uint64`)  ↦ `Nat`  (only compared and subtracted after a
    comparison, so no wrap-around can occur for arguments `< 2^64`);
  * `size int` (never below the floor after `newReplayWindow`) ↦ `Nat`;
  * `bitmap uint64` ↦ `BitVec 64`.  Go defines `x << n` for an unsigned count `n ≥ 64` as 0;
    `BitVec.shiftLeft` by a `Nat` has the same meaning.

The source text differs before and after the repair of finding F7 (a configured size above
64 was used as the window width although the bitmap has 64 bits).  Which text the tree has is
told by regenerated facts, collected in `Params`:
  * `floor`    — the literal of `if size < 32 { size = 32 }` in `newReplayWindow`;
  * `newCeil`  — the literal of an `if size > K { size = K }` in `newReplayWindow`, if any;
  * `spanCeil` — the bound `K` when `check` compares against `w.span()` with
                 `span() = if w.size > K { K } else { uint48(w.size) }`, `none` when `check`
                 compares against `uint48(w.size)` directly (the code before the repair).

Core Lean only: this file is linked into the oracle executable.
-/
namespace Gotlcp.Model.Replay

structure Params where
  floor    : Nat
  newCeil  : Option Nat
  spanCeil : Option Nat
  /-- `defaultReplayWindowSize` -/
  default  : Nat
deriving Repr, DecidableEq

/-- The parameters of the code in the tree: floor 32 in `newReplayWindow`, no ceiling there, the
ceiling 64 in `span()`.  They are NOT read from text-matching facts: `Gotlcp.Tie.Replay` proves, for
all inputs, that the functions TRANSLATED from dtlcp/replay.go on every run compute exactly the model
instantiated with these values, so a semantic change of replay.go breaks that proof while a
renaming or an equivalent re-arrangement does not.  `default` is the constant
`defaultReplayWindowSize` (evaluated by the extractor). -/
def treeParams (default : Nat) : Params := { floor := 32, newCeil := none, spanCeil := some 64, default := default }

/-- `replayWindow` -/
structure Window where
  right  : Nat
  size   : Nat
  bitmap : BitVec 64
deriving Repr, DecidableEq

/-- `newReplayWindow(size int)` -/
def newWindow (p : Params) (size : Int) : Window :=
  let s : Int := if size < (p.floor : Int) then (p.floor : Int) else size
  let s : Int := match p.newCeil with
    | some k => if s > (k : Int) then (k : Int) else s
    | none => s
  { right := 0, size := s.toNat, bitmap := 0#64 }

/-- the construction sites: `windowSize := defaultReplayWindowSize;
    if config != nil && config.ReplayWindow > 0 { windowSize = config.ReplayWindow }` -/
def configArg (p : Params) (configured : Int) : Int :=
  if configured > 0 then configured else (p.default : Int)

def newFromConfig (p : Params) (configured : Int) : Window := newWindow p (configArg p configured)

/-- the width `check` compares distances with: `uint48(w.size)` before the repair of F7,
`w.span()` after it -/
def span (p : Params) (w : Window) : Nat :=
  match p.spanCeil with
  | some k => if w.size > k then k else w.size
  | none => w.size

/-- `(*replayWindow).check(seq)`, branch by branch; returns the new window and the result -/
def check (p : Params) (w : Window) (seq : Nat) : Window × Bool :=
  if seq > w.right then
    -- 情况1: window moves right
    let diff := seq - w.right
    let bm : BitVec 64 := if diff ≥ span p w then 0#64 else w.bitmap <<< diff
    ({ w with bitmap := bm ||| 1#64, right := seq }, true)
  else
    let diff := w.right - seq
    if diff ≥ span p w then
      -- 情况2: left of the window
      (w, false)
    else
      -- 情况3: inside the window
      let bit : BitVec 64 := 1#64 <<< diff
      if w.bitmap &&& bit ≠ 0#64 then (w, false)
      else ({ w with bitmap := w.bitmap ||| bit }, true)

/-- a delivery history: final window and the answers, in order -/
def run (p : Params) (w : Window) : List Nat → Window × List Bool
  | [] => (w, [])
  | s :: ss =>
    let (w1, b) := check p w s
    let (w2, bs) := run p w1 ss
    (w2, b :: bs)

/-- the sequence numbers a history accepted, in order of acceptance -/
def accepted (p : Params) (w : Window) : List Nat → List Nat
  | [] => []
  | s :: ss =>
    let (w1, b) := check p w s
    if b then s :: accepted p w1 ss else accepted p w1 ss

end Gotlcp.Model.Replay

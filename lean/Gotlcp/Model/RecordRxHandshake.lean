/-
Model of the receiving side of the TLCP record layer *during the handshake* and of the
transition into the application phase (tlcp/conn.go, tlcp/handshake_{client,server}.go):
`readRecordOrCCS` with `handshakeComplete = false` (the ChangeCipherSpec switch, `c.hand`
growing), `readChangeCipherSpec`, `readHandshake` (the two `for c.hand.Len() < …` loops and
`c.hand.Next`), `readFinished`, and the end of `handshake()`: `handshakeStatus := 1` and
nothing else — the receive half that `Conn.Read` continues with is the one the handshake
left, *including whatever `readFromUntil` has already buffered in `c.rawInput` behind the
peer's Finished* (`readFromUntil` deliberately over-reads: one transport read may carry the
last handshake records together with the first application records).

Why this is part of C06: the property quantifies over every way the transport segments the
bytes; the boundary between the peer's last handshake record and its first application record
is one of the places a segment can straddle.

The transport and `c.rawInput` are `Raw` of `Model.RecordRxStream`; record protection is the
same parameter `dec` (used once the ChangeCipherSpec has been received; before that the
connection has no read cipher and `decrypt` hands the fragment through).

Scope: the first (and, TLCP having no renegotiation, only) handshake of a connection, from
the point where the version is negotiated (`c.haveVers`).  `c.input` is empty during the
handshake (nothing sets it before `handshakeComplete`).  That `nextCipher` is prepared when
the ChangeCipherSpec arrives is the handshake's order of steps (C02/C04), not modelled here.

Core Lean only (linked into `oracle_c06`).
-/
import Gotlcp.Model.RecordRxStream

namespace Gotlcp.Model.RecordRx

/-- constants of the handshake layer the receive path consults -/
structure HsParams where
  typeFinished : Nat
  maxHandshake : Nat
  deriving Repr

/-- the receiving half of a `Conn` during the handshake -/
structure HsRx where
  io : Raw
  /-- `c.hand`: handshake bytes received and not yet consumed -/
  hand : Bytes := []
  /-- read sequence number -/
  seq : Nat := 0
  /-- `c.in.cipher != nil`: the peer's ChangeCipherSpec has been received -/
  keyed : Bool := false
  /-- `c.retryCount` -/
  retry : Nat := 0
  /-- `c.in.err` (sticky) -/
  err : Option RxErr := none
  deriving Repr, DecidableEq

inductive HsStep where
  | grew | ccs | retry | err (e : RxErr)
  deriving Repr, DecidableEq

/-- `c.in.decrypt`: without a read cipher the fragment is the plaintext -/
def hsDec (dec : Dec) (s : HsRx) (typ : UInt8) (body : Bytes) : Option Bytes :=
  if s.keyed then dec s.seq typ body else some body

/-- one pass through `readRecordOrCCS(expectChangeCipherSpec)` with the handshake not yet
complete, up to the point where it returns or calls `retryReadRecord` -/
def readOneHs (P : Params) (dec : Dec) (expectCCS : Bool) (s : HsRx) : HsStep × HsRx :=
  let f1 := s.io.fill P P.recordHeaderLen
  -- `if !handshakeComplete && typ == 0x80` (SSLv2 hello), checked on the header alone
  if f1.2.2 ∧ (f1.1.getD 0 0).toNat = 0x80 then
    (.err .badVersion, { s with io := { s.io with raw := f1.1, chunks := f1.2.1 } })
  else
  match nextFrame P s.io with
  | (.err e, io') => (.err e, { s with io := io' })
  | (.frame typ body, io') =>
    match hsDec dec s typ body with
    | none => (.err .badRecordMAC, { s with io := io' })
    | some data =>
      let s1 : HsRx := { s with io := io', seq := s.seq + 1 }
      if P.maxPlaintext < data.length then (.err .recordOverflow, s1)
      -- `if c.in.cipher == nil && typ == recordTypeApplicationData`
      else if s.keyed = false ∧ typ.toNat = P.typeAppData then (.err .unexpectedMessage, s1)
      else
        let s2 : HsRx := if typ.toNat ≠ P.typeAlert ∧ typ.toNat ≠ P.typeCCS ∧ data.length > 0
          then { s1 with retry := 0 } else s1
        if typ.toNat = P.typeAlert then
          if data.length ≠ 2 then (.err .unexpectedMessage, s2)
          else if (data.getD 1 0).toNat = P.alertCloseNotify then (.err .eof, s2)
          else if (data.getD 0 0).toNat = P.levelWarning then (.retry, s2)
          else if (data.getD 0 0).toNat = P.levelError then (.err (.remoteAlert (data.getD 1 0).toNat), s2)
          else (.err .unexpectedMessage, s2)
        else if typ.toNat = P.typeCCS then
          if data ≠ [1] then (.err .decodeError, s2)
          -- handshake messages are not allowed to fragment across the CCS
          else if s2.hand.length > 0 then (.err .unexpectedMessage, s2)
          else if expectCCS = false then (.err .unexpectedMessage, s2)
          -- `c.in.changeCipherSpec()`: the prepared cipher becomes active, the sequence number restarts
          else (.ccs, { s2 with keyed := true, seq := 0 })
        else if typ.toNat = P.typeAppData then
          -- `if !handshakeComplete || expectChangeCipherSpec`
          (.err .unexpectedMessage, s2)
        else if typ.toNat = P.typeHandshake then
          if data.length = 0 ∨ expectCCS = true then (.err .unexpectedMessage, s2)
          else (.grew, { s2 with hand := s2.hand ++ data })
        else (.err .unexpectedMessage, s2)

/-- `readRecordOrCCS(expectCCS)` with its `retryReadRecord` recursion -/
def readRecordHs (P : Params) (dec : Dec) (expectCCS : Bool) : Nat → HsRx → Option RxErr × HsRx
  | 0, s => (some .internal, s)
  | fuel + 1, s =>
    match s.err with
    | some e => (some e, s)
    | none =>
      match readOneHs P dec expectCCS s with
      | (.grew, s1) => (none, s1)
      | (.ccs, s1) => (none, s1)
      | (.err e, s1) => (some e, if e = .timeout then s1 else { s1 with err := some e })
      | (.retry, s1) =>
        let s2 := { s1 with retry := s1.retry + 1 }
        if P.maxUselessRecords < s2.retry then (some .tooManyIgnored, { s2 with err := some .tooManyIgnored })
        else readRecordHs P dec expectCCS fuel s2

/-- `for c.hand.Len() < k { if err := c.readRecord(); err != nil { return nil, err } }` -/
def fillHand (P : Params) (dec : Dec) (k : Nat) : Nat → HsRx → Option RxErr × HsRx
  | 0, s => (some .internal, s)
  | fuel + 1, s =>
    if k ≤ s.hand.length then (none, s)
    else
      match readRecordHs P dec false (recFuel P) s with
      | (some e, s1) => (some e, s1)
      | (none, s1) => fillHand P dec k fuel s1

/-- enough fuel for `fillHand`: every pass consumes at least a record header -/
def hsFuel (s : HsRx) : Nat := s.io.all.length + 2

def be24 (a b c : UInt8) : Nat := a.toNat * 65536 + b.toNat * 256 + c.toNat

/-- `readHandshake`: the next handshake message (header and body) off `c.hand`, reading
records as needed -/
def readHandshakeMsg (P : Params) (H : HsParams) (dec : Dec) (s : HsRx) : Option Bytes × Option RxErr × HsRx :=
  match fillHand P dec 4 (hsFuel s) s with
  | (some e, s1) => (none, some e, s1)
  | (none, s1) =>
    let n := be24 (s1.hand.getD 1 0) (s1.hand.getD 2 0) (s1.hand.getD 3 0)
    if H.maxHandshake < n then (none, some .handshakeTooLong, { s1 with err := some .handshakeTooLong })
    else
      match fillHand P dec (4 + n) (hsFuel s1) s1 with
      | (some e, s2) => (none, some e, s2)
      | (none, s2) =>
        -- data = c.hand.Next(4 + n)
        (some (s2.hand.take (4 + n)), none, { s2 with hand := s2.hand.drop (4 + n) })

/-- `readFinished`: `readChangeCipherSpec`, `readHandshake`, the message must be a Finished and
its verify data the expected one.  `okFin` is the key-schedule side of that comparison
(C02/C03); a wrong Finished fails the handshake without touching `c.in.err`. -/
def readLastFlight (P : Params) (H : HsParams) (dec : Dec) (okFin : Bytes → Bool) (s : HsRx) :
    Option RxErr × HsRx :=
  match readRecordHs P dec true (recFuel P) s with
  | (some e, s1) => (some e, s1)
  | (none, s1) =>
    match readHandshakeMsg P H dec s1 with
    | (_, some e, s2) => (some e, s2)
    | (none, none, s2) => (some .internal, s2)
    | (some m, none, s2) =>
      if (m.getD 0 0).toNat ≠ H.typeFinished then (some .unexpectedMessage, { s2 with err := some .unexpectedMessage })
      else if okFin m = false then (some .handshakeFailure, s2)
      else (none, s2)

/-- the end of `handshake()` on either side: `atomic.StoreUint32(&c.handshakeStatus, 1)`.
Nothing there touches the receive half (`Facts.tlcp.rxRawInputUsers`: only the record layer
mentions `c.rawInput`), so `Conn.Read` continues with the transport and `c.rawInput` as the
handshake left them, the read sequence number after the Finished, the retry count and the
sticky error; `c.input` is empty. -/
def finishHandshake (s : HsRx) : Rx :=
  { io := s.io, input := [], seq := s.seq, retry := s.retry, err := s.err }

/-- a connection whose peer sends the last flight: the handshake's last receive, then `Read`s -/
def lastFlightThenReads (P : Params) (H : HsParams) (dec : Dec) (okFin : Bytes → Bool) (s : HsRx)
    (bufs : List Nat) : Option RxErr × List (Bytes × Option RxErr) :=
  match readLastFlight P H dec okFin s with
  | (some e, _) => (some e, [])
  | (none, s1) => (none, (reads P dec (finishHandshake s1) bufs).1)

end Gotlcp.Model.RecordRx

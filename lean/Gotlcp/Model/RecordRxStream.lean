/-
Model of the receiving side of the TLCP record layer as a byte stream (tlcp/conn.go):
`readFromUntil` / `atLeastReader` / `rawInput` (framing over a transport that hands over the
bytes in arbitrary chunks), the length checks and the record-type switch of
`readRecordOrCCS` after the handshake, `retryReadRecord`, and `Conn.Read` draining `c.input`
across calls, including the close-notify look-ahead.

Record protection is a parameter (`dec`): the model never decrypts (C04 does); `dec seq typ
body` is what `halfConn.decrypt` returns for the protected fragment `body` at read sequence
number `seq` (`none` = bad_record_mac).

The transport is a list of chunks: one `Read` of the underlying connection returns one chunk
(`bytes.Buffer.ReadFrom` always offers at least `bytes.MinRead` = 512 bytes of room, so a
real read is never cut short when chunks are at most 512 bytes; every other behaviour is
the same as some other chunking).  The end of the list is end-of-stream, which a transport may
report in two ways (io.Reader allows both): by a separate `Read` that returns `(0, io.EOF)`, or
TOGETHER with the last chunk (`n > 0, err == io.EOF`) — `Raw.eofWithLast`.  `atLeastReader.Read`
is modelled statement by statement (`atLeast`): the bytes that arrive with the end count.
A transport whose read deadline has passed (`Raw.expired`) answers every `Read` with a timeout
(net.Conn: the deadline is checked before any byte is handed over), which is a temporary
`net.Error`: `readRecordOrCCS` returns it without latching it in `c.in.err`.

Core Lean only (linked into `oracle_c06`).
-/
import Gotlcp.Base.Hex

namespace Gotlcp.Model.RecordRx

structure Params where
  recordHeaderLen : Nat
  maxPlaintext : Nat
  maxCiphertext : Nat
  maxUselessRecords : Nat
  /-- negotiated record version (`c.vers`, 0x0101) -/
  version : Nat
  typeAlert : Nat
  typeAppData : Nat
  typeHandshake : Nat
  typeCCS : Nat
  alertCloseNotify : Nat
  levelWarning : Nat
  levelError : Nat
  /-- `atLeastReader.Read` turns the transport's `io.EOF` into `io.ErrUnexpectedEOF` only when
  bytes are still missing (`if r.N > 0 && err == io.EOF`); `false` = it does so for every
  `io.EOF` (regenerated fact `rxAtLeastShortOnlyWhenShort`) -/
  eofShortOnlyWhenShort : Bool := true
  deriving Repr

inductive RxErr where
  | eof | unexpectedEOF | recordOverflow | badVersion | badRecordMAC | unexpectedMessage
  | remoteAlert (code : Nat) | tooManyIgnored | noRenegotiation | internal
  /- the transport's read deadline has passed (temporary: not latched) -/
  | timeout
  /- raised only while the handshake is still running (`Model.RecordRxHandshake`) -/
  | decodeError | handshakeTooLong | handshakeFailure
  deriving Repr, DecidableEq

/-- `c.rawInput` and the transport behind it -/
structure Raw where
  raw : Bytes
  chunks : List Bytes
  /-- the transport reports end-of-stream together with its last chunk (`n > 0, err == io.EOF`)
  instead of by a separate empty `Read` -/
  eofWithLast : Bool := false
  /-- the transport's read deadline lies in the past: every `Read` of it fails with a timeout -/
  expired : Bool := false
  deriving Repr, DecidableEq

/-- everything still to come, in order -/
def Raw.all (r : Raw) : Bytes := r.raw ++ r.chunks.flatten

/-- what `rawInput.ReadFrom` is told by one `atLeastReader.Read` -/
inductive ALRes where
  /-- `(n, nil)`: `ReadFrom` reads again -/
  | more
  /-- `(n, io.EOF)`: `ReadFrom` returns nil — `readFromUntil` succeeded -/
  | done
  /-- `(n, io.ErrUnexpectedEOF)`: `readFromUntil` fails -/
  | short
  deriving Repr, DecidableEq

/-- `atLeastReader.Read` after the transport answered `(got bytes, io.EOF iff eof)` while `need`
(> 0) bytes were still wanted:
```
r.N -= int64(n)
if r.N > 0 && err == io.EOF { return n, io.ErrUnexpectedEOF }      -- `guard` = the `r.N > 0 &&`
if r.N <= 0 && err == nil  { return n, io.EOF }
return n, err
``` -/
def atLeast (guard : Bool) (need got : Nat) (eof : Bool) : ALRes :=
  if eof then
    -- with the guard: only a stream that ends while bytes are missing is short; else `return n, err`
    -- hands `io.EOF` through, which ends `ReadFrom` without error: the bytes count
    if (!guard) || got < need then .short else .done
  else if need ≤ got then .done else .more

/-- `readFromUntil(n)`: `if rawInput.Len() >= n { return nil }`, else
`rawInput.ReadFrom(&atLeastReader{r, n - rawInput.Len()})` — whole chunks are appended until at
least `n` bytes are buffered; `false` = it failed (the stream ended first, or the read deadline
has passed).  `g` is `Params.eofShortOnlyWhenShort`, `e`/`x` are `Raw.eofWithLast`/`Raw.expired`. -/
def fill (g e x : Bool) (n : Nat) (raw : Bytes) : List Bytes → Bytes × List Bytes × Bool
  | [] =>
    -- the transport answers `(0, io.EOF)` (or a timeout): `r.N > 0` ⇒ failure
    (raw, [], decide (n ≤ raw.length))
  | c :: cs =>
    if n ≤ raw.length then (raw, c :: cs, true)
    else if x then (raw, c :: cs, false)
    else
      match atLeast g (n - raw.length) c.length (e && cs.isEmpty) with
      | .more => fill g e x n (raw ++ c) cs
      | .done => (raw ++ c, cs, true)
      | .short => (raw ++ c, cs, false)

/-- `readFromUntil` on the receive half `r` -/
def Raw.fill (P : Params) (r : Raw) (n : Nat) : Bytes × List Bytes × Bool :=
  Gotlcp.Model.RecordRx.fill P.eofShortOnlyWhenShort r.eofWithLast r.expired n r.raw r.chunks

/-- why `readFromUntil` failed with `len` bytes buffered -/
def Raw.failure (r : Raw) (len : Nat) : RxErr :=
  if r.expired then .timeout
  -- `if err == io.ErrUnexpectedEOF && c.rawInput.Len() == 0 { err = io.EOF }`
  else if len = 0 then .eof else .unexpectedEOF

inductive FrameRes where
  | frame (typ : UInt8) (body : Bytes)
  | err (e : RxErr)
  deriving Repr, DecidableEq

def be16 (a b : UInt8) : Nat := a.toNat * 256 + b.toNat

/-- the framing part of `readRecordOrCCS`: header, version and length check, body -/
def nextFrame (P : Params) (r : Raw) : FrameRes × Raw :=
  let f1 := r.fill P P.recordHeaderLen
  if !f1.2.2 then
    (.err (r.failure f1.1.length), { r with raw := f1.1, chunks := f1.2.1 })
  else
    let hdr := f1.1
    let typ := hdr.getD 0 0
    let vers := be16 (hdr.getD 1 0) (hdr.getD 2 0)
    let n := be16 (hdr.getD 3 0) (hdr.getD 4 0)
    if vers ≠ P.version then (.err .badVersion, { r with raw := f1.1, chunks := f1.2.1 })
    else if P.maxCiphertext < n then (.err .recordOverflow, { r with raw := f1.1, chunks := f1.2.1 })
    else
      let r1 : Raw := { r with raw := f1.1, chunks := f1.2.1 }
      let f2 := r1.fill P (P.recordHeaderLen + n)
      -- the body: a failure here is never downgraded to end-of-stream
      if !f2.2.2 then (.err (if r.expired then .timeout else .unexpectedEOF), { r with raw := f2.1, chunks := f2.2.1 })
      else
        -- record := c.rawInput.Next(recordHeaderLen + n)
        (.frame typ ((f2.1.take (P.recordHeaderLen + n)).drop P.recordHeaderLen),
          { r with raw := f2.1.drop (P.recordHeaderLen + n), chunks := f2.2.1 })

abbrev Dec := Nat → UInt8 → Bytes → Option Bytes

/-- the receiving half of a `Conn` after the handshake -/
structure Rx where
  io : Raw
  /-- `c.input`: application data waiting to be read -/
  input : Bytes := []
  /-- read sequence number -/
  seq : Nat := 0
  /-- `c.retryCount` -/
  retry : Nat := 0
  /-- `c.in.err` (sticky) -/
  err : Option RxErr := none
  deriving Repr, DecidableEq

inductive Step where
  | ok | retry | err (e : RxErr)
  deriving Repr, DecidableEq

/-- one pass through `readRecordOrCCS(false)` with the handshake complete, up to the point
where it either returns or calls `retryReadRecord` -/
def readOne (P : Params) (dec : Dec) (s : Rx) : Step × Rx :=
  match nextFrame P s.io with
  | (.err e, io') => (.err e, { s with io := io' })
  | (.frame typ body, io') =>
    match dec s.seq typ body with
    | none => (.err .badRecordMAC, { s with io := io' })
    | some data =>
      let s1 : Rx := { s with io := io', seq := s.seq + 1 }
      if P.maxPlaintext < data.length then (.err .recordOverflow, s1)
      else
        -- state-advancing message: reset the retry count
        let s2 : Rx := if typ.toNat ≠ P.typeAlert ∧ typ.toNat ≠ P.typeCCS ∧ data.length > 0
          then { s1 with retry := 0 } else s1
        if typ.toNat = P.typeAlert then
          if data.length ≠ 2 then (.err .unexpectedMessage, s2)
          else if (data.getD 1 0).toNat = P.alertCloseNotify then (.err .eof, s2)
          else if (data.getD 0 0).toNat = P.levelWarning then (.retry, s2)
          else if (data.getD 0 0).toNat = P.levelError then (.err (.remoteAlert (data.getD 1 0).toNat), s2)
          else (.err .unexpectedMessage, s2)
        else if typ.toNat = P.typeCCS then (.err .unexpectedMessage, s2)
        else if typ.toNat = P.typeAppData then
          if data.length = 0 then (.retry, s2) else (.ok, { s2 with input := data })
        else if typ.toNat = P.typeHandshake then
          -- after the handshake there is no consumer for handshake messages: refused
          -- (`if handshakeComplete { … alertNoRenegotiation }`, fix 8b57d0c)
          if data.length = 0 then (.err .unexpectedMessage, s2) else (.err .noRenegotiation, s2)
        else (.err .unexpectedMessage, s2)

/-- `readRecord()` = `readRecordOrCCS(false)` with its `retryReadRecord` recursion; `fuel`
bounds the recursion (the retry counter does too: at most `maxUselessRecords` retries) -/
def readRecord (P : Params) (dec : Dec) : Nat → Rx → Option RxErr × Rx
  | 0, s => (some .internal, s)
  | fuel + 1, s =>
    match s.err with
    | some e => (some e, s)
    | none =>
      if s.input.length ≠ 0 then (some .internal, { s with err := some .internal })
      else
        match readOne P dec s with
        | (.ok, s1) => (none, s1)
        -- `if e, ok := err.(net.Error); !ok || !e.Temporary() { c.in.setErrorLocked(err) }`
        | (.err e, s1) => (some e, if e = .timeout then s1 else { s1 with err := some e })
        | (.retry, s1) =>
          let s2 := { s1 with retry := s1.retry + 1 }
          if P.maxUselessRecords < s2.retry then (some .tooManyIgnored, { s2 with err := some .tooManyIgnored })
          else readRecord P dec fuel s2

def recFuel (P : Params) : Nat := P.maxUselessRecords + 2

/-- `for c.input.Len() == 0 { if err := c.readRecord(); err != nil { return 0, err } }` -/
def fillInput (P : Params) (dec : Dec) : Nat → Rx → Option RxErr × Rx
  | 0, s => (some .internal, s)
  | fuel + 1, s =>
    if s.input.length ≠ 0 then (none, s)
    else
      match readRecord P dec (recFuel P) s with
      | (some e, s1) => (some e, s1)
      | (none, s1) => fillInput P dec fuel s1

/-- enough fuel for `fillInput`: every pass consumes at least a record header -/
def loopFuel (s : Rx) : Nat := s.io.all.length + 2

/-- the part of `Conn.Read` after `c.input` has been filled: `n, _ := c.input.Read(b)` and the
close-notify look-ahead -/
def drainInput (P : Params) (dec : Dec) (s1 : Rx) (n : Nat) : Bytes × Option RxErr × Rx :=
  let out := s1.input.take n
  let s2 := { s1 with input := s1.input.drop n }
  if out.length ≠ 0 ∧ s2.input.length = 0 ∧ s2.io.raw.length > 0 ∧
      (s2.io.raw.getD 0 0).toNat = P.typeAlert then
    match readRecord P dec (recFuel P) s2 with
    | (some e, s3) => (out, some e, s3)
    | (none, s3) => (out, none, s3)
  else (out, none, s2)

/-- `Conn.Read(b)` with `len(b) = n` -/
def connRead (P : Params) (dec : Dec) (s : Rx) (n : Nat) : Bytes × Option RxErr × Rx :=
  if n = 0 then ([], none, s)
  else
    match fillInput P dec (loopFuel s) s with
    | (some e, s1) => ([], some e, s1)
    | (none, s1) => drainInput P dec s1 n

/-- a sequence of `Read` calls with the given buffer sizes -/
def reads (P : Params) (dec : Dec) (s : Rx) : List Nat → List (Bytes × Option RxErr) × Rx
  | [] => ([], s)
  | n :: ns =>
    let r := connRead P dec s n
    let rest := reads P dec r.2.2 ns
    ((r.1, r.2.1) :: rest.1, rest.2)

def delivered (outs : List (Bytes × Option RxErr)) : Bytes := (outs.map (·.1)).flatten

/-- all frames of a stream, as `readRecord` would see them one after the other (framing only) -/
def frames (P : Params) : Nat → Raw → List (UInt8 × Bytes) × Option RxErr
  | 0, _ => ([], some .internal)
  | fuel + 1, r =>
    match nextFrame P r with
    | (.err e, _) => ([], some e)
    | (.frame t b, r') =>
      let rest := frames P fuel r'
      ((t, b) :: rest.1, rest.2)

end Gotlcp.Model.RecordRx

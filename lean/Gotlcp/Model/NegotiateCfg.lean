/-
C01 — abstract configurations of a client and a server, and what both ends report after a
handshake.  These are the *inputs and outputs* shared by the model (`Model/Negotiate.lean`),
the spec (`Spec/NegotiateSpec.lean`) and the oracle; nothing here depends on the Go code.

A configuration is what an application writes into `tlcp.Config` / `dtlcp.Config`; the
driver `harness/cmd/c01` builds the real `Config` from exactly these fields:

* `suites`     `Config.CipherSuites` (`none` = nil slice = library default, any list in any order)
* `nCerts`     `len(Config.Certificates)`: 0, 1 = [signing], 2 = [signing, encryption]
* `getCert`, `getKECert`  the callbacks `GetClientCertificate`/`GetClientKECertificate`
               (client) or `GetCertificate`/`GetKECertificate` (server) are set; they return
               the signing / encryption key pair unconditionally
* `family`     which CA issued the client's certificates; `cas` = the server's `ClientCAs`
               (x509 verdicts are inputs of the model: a chain verifies iff `cas` is that CA)
* `sigKey`, `encKey`  type of the server's private keys
* `alpn`       `Config.NextProtos`;  `serverName`/`nameIsIP`  `Config.ServerName` and whether
               it is an IP literal (no SNI is sent for those)
* `cache`      a session cache is configured;  `minV`/`maxV`  `MinVersion`/`MaxVersion`
* `clone`      the endpoint is given `cfg.Clone()` instead of `cfg`

A *history* is a sequence of connections between the same two parties: the identity of each
side (key pairs, certificates, CA pools, policy, names, version window, the client's session
cache) stays, while `Reconf` lists what an operator may change from one connection to the
next: the enabled suites and protocols of either side, whether the server configuration in
use refers to the (shared) server session cache, and whether a `Clone()` is handed out.
-/
namespace Gotlcp.Negotiate

inductive KeyKind where
  | sm2 | p256 | ed25519 | rsa
  deriving DecidableEq, Repr, Inhabited

/-- the server's `ClientCAs` -/
inductive CAKind where
  | none | root | other
  deriving DecidableEq, Repr, Inhabited

/-- the issuer of the client's certificates -/
inductive Family where
  | root | other
  deriving DecidableEq, Repr, Inhabited

/-- `ClientAuthType`, by name (the numeric value is an extracted fact) -/
inductive ClientAuth where
  | noClientCert
  | requestClientCert
  | requireAnyClientCert
  | verifyClientCertIfGiven
  | requireAndVerifyClientCert
  | requireAndVerifyAnyKeyUsageClientCert
  deriving DecidableEq, Repr, Inhabited

/-- position in the documented list of policies -/
def ClientAuth.idx : ClientAuth → Nat
  | .noClientCert => 0
  | .requestClientCert => 1
  | .requireAnyClientCert => 2
  | .verifyClientCertIfGiven => 3
  | .requireAndVerifyClientCert => 4
  | .requireAndVerifyAnyKeyUsageClientCert => 5

/-- a certificate of the peer, identified by its role: signing or encryption certificate -/
inductive CertSym where
  | S | E
  deriving DecidableEq, Repr, Inhabited

structure ClientCfg where
  suites : Option (List Nat) := none
  nCerts : Nat := 0
  getCert : Bool := false
  getKECert : Bool := false
  family : Family := .root
  alpn : List String := []
  serverName : String := ""
  nameIsIP : Bool := false
  cache : Bool := false
  minV : Nat := 0
  maxV : Nat := 0
  clone : Bool := false
  deriving DecidableEq, Repr, Inhabited

structure ServerCfg where
  suites : Option (List Nat) := none
  nCerts : Nat := 2
  getCert : Bool := false
  getKECert : Bool := false
  sigKey : KeyKind := .sm2
  encKey : KeyKind := .sm2
  alpn : List String := []
  auth : ClientAuth := .noClientCert
  cas : CAKind := .none
  cache : Bool := false
  minV : Nat := 0
  maxV : Nat := 0
  clone : Bool := false
  deriving DecidableEq, Repr, Inhabited

/-- what one endpoint's `ConnectionState()` reports after a completed handshake -/
structure View where
  vers : Nat
  suite : Nat
  /-- `NegotiatedProtocol`; the empty string means none -/
  alpn : String
  resumed : Bool
  peerCerts : List CertSym
  serverName : String
  deriving DecidableEq, Repr, Inhabited

structure Agreed where
  client : View
  server : View
  deriving DecidableEq, Repr, Inhabited

/-- the reconfigurable part of a pair of configurations (one connection of a history) -/
structure Reconf where
  cs : Option (List Nat) := none
  calpn : List String := []
  cclone : Bool := false
  ss : Option (List Nat) := none
  salpn : List String := []
  scache : Bool := false
  sclone : Bool := false
  deriving DecidableEq, Repr, Inhabited

/-- the client configuration of a connection: the party `c` with the settings of `r` -/
def Reconf.client (r : Reconf) (c : ClientCfg) : ClientCfg :=
  { c with suites := r.cs, alpn := r.calpn, clone := r.cclone }

/-- the server configuration of a connection: the party `s` with the settings of `r` -/
def Reconf.server (r : Reconf) (s : ServerCfg) : ServerCfg :=
  { s with suites := r.ss, alpn := r.salpn, cache := r.scache, clone := r.sclone }

/-- the settings a pair of configurations has -/
def Reconf.of (c : ClientCfg) (s : ServerCfg) : Reconf :=
  { cs := c.suites, calpn := c.alpn, cclone := c.clone,
    ss := s.suites, salpn := s.alpn, scache := s.cache, sclone := s.clone }

/-- does a chain issued by `f` verify against the pool `c`? (x509 verdict, an input) -/
def CAKind.verifies : CAKind → Family → Bool
  | .root, .root => true
  | .other, .other => true
  | _, _ => false

/-- does a server advertising the CA names of `c` accept a certificate issued by `f`?
(no names advertised = anything goes) -/
def CAKind.accepts : CAKind → Family → Bool
  | .none, _ => true
  | c, f => c.verifies f

end Gotlcp.Negotiate

/-
Model of the two application read APIs of a DTLCP connection used TOGETHER, with caller buffers
of any size, on top of the one-datagram steps of `Gotlcp.Model.DtlcpRx`:

  * `Conn.Read(b)` (dtlcp/conn.go): when `c.readBuf` is empty it runs `readRecord` →
    `readRecordOrCCS(false)`, which first works on what is left in `c.rawInputBuf` and then on
    datagram after datagram from the socket until one record is accepted (`c.readBuf = data`), a
    close_notify is accepted (`io.EOF` latched), a permanent error is latched, or the socket has
    nothing (`timeout`).  Then `copy(b, c.readBuf)`; the rest stays in `c.readBuf` for the next
    `Read`.  When that emptied `c.readBuf` and `c.rawInputBuf` still holds at least a record
    header whose type byte says "alert", `Read` runs `readRecord` once more before it returns
    and returns the bytes TOGETHER with that call's error.
  * `Conn.ReadFrom(p)`: reads datagram after datagram (`readDatagram` overwrites
    `c.rawInputBuf`, nothing looks at `c.readBuf` or at the latched error), first record of each
    only, until one application record is accepted (`copy(p, plaintext)`, the rest of the record
    is discarded — datagram semantics), a close_notify is accepted (`io.EOF`, not latched) or
    the socket has nothing.  It leaves the last datagram it looked at in `c.rawInputBuf`,
    decrypted in place, where the next `Read` finds it (`staleOf`): a record there no longer
    authenticates.

State added to `DtlcpRx.State`: `buf` = `c.readBuf` (which record, how many of its bytes are
gone), `raw` = what `ReadFrom` left in `c.rawInputBuf` (only when it has at least a header),
`queue` = the datagrams waiting in the socket.

A payload is identified by a number (`Rec.payload`, as in `DtlcpRx`); `plen` gives the number
of bytes of the payload with that number (application records are non-empty, as in `DtlcpRx`).
What a call hands over is `chunk r off cnt`: bytes `off … off+cnt-1` of the payload of `r`.

Single-record datagrams, as in `DtlcpRx`.  Core Lean only.
-/
import Gotlcp.Model.DtlcpRx

namespace Gotlcp.Model.DtlcpRx
open Gotlcp.Model.Replay

/-- a datagram, and whether the type byte of its (first) header says "alert" (only looked at
by `Read`'s look-ahead) -/
structure MD where
  d : Dgram
  alertHdr : Bool
deriving Repr, DecidableEq

/-- what `ReadFrom` leaves in `c.rawInputBuf` for a later `Read`: nothing usable when shorter
than a header; a well-formed record has been through `decrypt` in place and will not
authenticate again; `readDatagram` skips datagrams from another address before storing -/
def staleOf (prev : Option MD) (m : MD) : Option MD :=
  match m.d with
  | .otherAddr => prev
  | .short => none
  | .record r => some { m with d := .record { r with auth := false } }
  | _ => some m

/-- result of the record loops -/
inductive Got where
  | record (r : Rec)   -- an application record was accepted
  | timeout
  | eof
  | error
deriving Repr, DecidableEq

/-- one datagram's outcome ↦ does the loop end, and how (`none` = go on) -/
def gotOf (d : Dgram) : Out → Option Got
  | .timeout => none
  | .eof => some .eof
  | .error => some .error
  | .data _ => match d with
    | .record r => some (.record r)
    | _ => some .error          -- unreachable: only records carry data

/-- `readRecordOrCCS(false)` past its entry checks: datagram after datagram -/
def recLoop (p : Params) (q : RxParams) (st : State) : List MD → State × Got × List MD
  | [] => (st, .timeout, [])
  | m :: ms =>
    let (st1, o) := read p q st m.d
    match gotOf m.d o with
    | none => recLoop p q st1 ms
    | some g => (st1, g, ms)

/-- the datagram loop of `ReadFrom`; also tracks what stays in `c.rawInputBuf` -/
def fromLoop (p : Params) (st : State) (raw : Option MD) : List MD → State × Got × Option MD × List MD
  | [] => (st, .timeout, raw, [])
  | m :: ms =>
    let raw1 := staleOf raw m
    let (st1, o) := readFrom p st m.d
    match gotOf m.d o with
    | none => fromLoop p st1 raw1 ms
    | some g => (st1, g, raw1, ms)

structure Mix where
  st    : State
  buf   : Option (Rec × Nat)   -- `c.readBuf`: the record being handed over by `Read`, bytes already gone
  raw   : Option MD            -- `c.rawInputBuf` as `ReadFrom` left it
  queue : List MD              -- the socket
deriving Repr, DecidableEq

def Mix.start (st : State) : Mix := { st := st, buf := none, raw := none, queue := [] }

/-- `readRecord()` as `Read` calls it (`c.readBuf` is empty): a latched error answers at once;
otherwise the loop works on the stale `c.rawInputBuf` first, then on the socket.  Afterwards
`c.rawInputBuf` holds nothing a later call could act on. -/
def recCall (p : Params) (q : RxParams) (m : Mix) : Mix × Got :=
  match m.st.err with
  | some .eof => (m, .eof)
  | some .fatal => (m, .error)
  | none =>
    let (st1, g, rest) := recLoop p q m.st (m.raw.toList ++ m.queue)
    ({ m with st := st1, raw := none, queue := rest }, g)

inductive Tail where
  | none | timeout | eof | error
deriving Repr, DecidableEq

inductive MOut where
  | chunk (r : Rec) (off cnt : Nat) (tail : Tail)  -- bytes handed over (and the error returned with them)
  | timeout | eof | error
  | queued                                          -- a delivery: no call
deriving Repr, DecidableEq

def rawIsAlert : Option MD → Bool
  | some m => m.alertHdr
  | none => false

/-- `copy(b, c.readBuf)` for an `n`-byte buffer with `off` bytes of `r` already gone, and the
look-ahead for an alert -/
def handOver (p : Params) (q : RxParams) (plen : Nat → Nat) (m : Mix) (r : Rec) (off n : Nat) : Mix × MOut :=
  let cnt := min n (plen r.payload - off)
  if off + cnt < plen r.payload then
    ({ m with buf := some (r, off + cnt) }, .chunk r off cnt .none)
  else
    let m0 := { m with buf := none }
    if cnt != 0 && rawIsAlert m.raw then
      let (m1, g) := recCall p q m0
      match g with
      | .record r' => ({ m1 with buf := some (r', 0) }, .chunk r off cnt .none)
      | .timeout => (m1, .chunk r off cnt .timeout)
      | .eof => (m1, .chunk r off cnt .eof)
      | .error => (m1, .chunk r off cnt .error)
    else (m0, .chunk r off cnt .none)

/-- `Read` with an `n`-byte buffer, `n > 0` -/
def mixRead (p : Params) (q : RxParams) (plen : Nat → Nat) (m : Mix) (n : Nat) : Mix × MOut :=
  match m.buf with
  | some (r, off) => handOver p q plen m r off n
  | none =>
    let (m1, g) := recCall p q m
    match g with
    | .record r => handOver p q plen m1 r 0 n
    | .timeout => (m1, .timeout)
    | .eof => (m1, .eof)
    | .error => (m1, .error)

/-- `ReadFrom` with an `n`-byte buffer -/
def mixReadFrom (p : Params) (plen : Nat → Nat) (m : Mix) (n : Nat) : Mix × MOut :=
  let (st1, g, raw1, rest) := fromLoop p m.st m.raw m.queue
  let m1 := { m with st := st1, raw := raw1, queue := rest }
  match g with
  | .record r => (m1, .chunk r 0 (min n (plen r.payload)) .none)
  | .timeout => (m1, .timeout)
  | .eof => (m1, .eof)
  | .error => (m1, .error)

inductive Act where
  | deliver (m : MD)       -- the network puts a datagram into the socket
  | read (n : Nat)
  | readFrom (n : Nat)
deriving Repr, DecidableEq

def mixStep (p : Params) (q : RxParams) (plen : Nat → Nat) (m : Mix) : Act → Mix × MOut
  | .deliver d => ({ m with queue := m.queue ++ [d] }, .queued)
  | .read n => mixRead p q plen m n
  | .readFrom n => mixReadFrom p plen m n

def mixRun (p : Params) (q : RxParams) (plen : Nat → Nat) (m : Mix) : List Act → Mix × List MOut
  | [] => (m, [])
  | a :: as =>
    let (m1, o) := mixStep p q plen m a
    let (m2, os) := mixRun p q plen m1 as
    (m2, o :: os)

end Gotlcp.Model.DtlcpRx

/-
Heap model for C11: what the session cache does to the *fields* of the session objects it
holds, with the real sharing structure of Go slices.

A `SessionState` has reference fields (slices: `sessionId`, `masterSecret`,
`peerCertificates`); a struct copy (`cp := *s`, what `SessionState.clone()` starts with, what
`c.peerCertificates = session.peerCertificates` does for a connection) shares their backing
arrays. The model therefore keeps, for every object the history has introduced — sessions,
private copies used by a handshake, connection states — the list of `Ref`s "field `f` of
object `o` points at backing array `b`".

The only code of the cache that writes through a session pointer is the eviction path of
`Put` (regenerated facts `lruTouchesElsewhere = false`, `lruEvictOpaque = false`). What it does
there is described by `Evict`:
  * `inPlace`  fields whose backing array it overwrites (`setZero(x.F)`, `clear(x.F)`);
  * `dropped`  fields it then sets to nil on the evicted object (`x.F = nil`).
Both lists are regenerated from the source (`Facts.*.lruEvictInPlace/Dropped`).

The objects an execution has evicted are exactly `State.zeroed` of `Gotlcp.Model.LRU`; the
state of every field of every object is a function of that list and of the allocation
(`status`) — an overwritten backing array is overwritten for everybody who points at it.

Core Lean only: linked into the oracle executable.
-/
import Gotlcp.Model.LRU

namespace Gotlcp.Model.LRUHeap
open Gotlcp.Model.LRU

abbrev Field := String
abbrev BufId := Nat

/-- field `field` of object `obj` points at backing array `buf` (a nil field has no `Ref`) -/
structure Ref where
  obj   : ObjId
  field : Field
  buf   : BufId
deriving Repr, DecidableEq, Inhabited

/-- what the eviction path does to the evicted object -/
structure Evict where
  inPlace : List Field
  dropped : List Field
deriving Repr

inductive Status where
  | ok        -- the field still has the content it had when the object was introduced
  | cleared   -- its backing array was overwritten in place
  | dropped   -- the field was set to nil
deriving Repr, DecidableEq

/-- has backing array `b` of field `f` been overwritten, given the evicted objects -/
def bufCleared (E : Evict) (alloc : List Ref) (evicted : List ObjId) (f : Field) (b : BufId) : Bool :=
  E.inPlace.contains f && alloc.any (fun r => r.buf == b && r.field == f && evicted.contains r.obj)

/-- the state of one reference of one object -/
def status (E : Evict) (alloc : List Ref) (evicted : List ObjId) (r : Ref) : Status :=
  if evicted.contains r.obj && E.dropped.contains r.field then .dropped
  else if bufCleared E alloc evicted r.field r.buf then .cleared
  else .ok

end Gotlcp.Model.LRUHeap

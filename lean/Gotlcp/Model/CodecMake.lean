/-
The emission path of the ClientHello (C14 "every message the library emits decodes"):
`makeClientHello` of both stacks, branch by branch, as a function of the configuration fields it
reads (`ClientCfg`), with its helper `hostnameInSNI` (bracket / zone stripping, the IP-literal
test, the trailing-dot loop) and a transcription of the standard library's `net.ParseIP`
(go1.25: `netip.ParseAddr` refused when it carries a zone), which the helper calls.

`hostnameInSNI` takes the IP test as a parameter so that the theorem "the emitted server name never
ends in a dot" (`Props.C14.C14_sni_no_trailing_dot`) is independent of the ParseIP transcription;
the oracle instantiates it with `isIP`.

Core Lean only (linked into the oracle executable).
-/
import Gotlcp.Base.Wire
import Gotlcp.Model.CodecEmitted

namespace Gotlcp.Model.Make
open Gotlcp Gotlcp.Wire Gotlcp.Wire.Msg
open Gotlcp.Model.Emitted (EmitParams)

/-! ### net.ParseIP (netip.ParseAddr, zone refused) -/

def isDigit (c : UInt8) : Bool := 48 ≤ c && c ≤ 57

/-- `parseIPv4Fields(in, off, end, fields)` on `s = in[off:end]`: succeeds or not.
State: value and digit count of the current octet, number of completed octets, whether this is the
first character, whether the previous character was a dot. -/
def v4go : Bytes → (val pos digLen : Nat) → (first prevDot : Bool) → Bool
  | [], _, pos, _, _, _ => decide (3 ≤ pos)                 -- `pos < 3`: address too short
  | c :: r, val, pos, digLen, first, prevDot =>
    if isDigit c then
      if digLen == 1 && val == 0 then false                  -- octet with leading zero
      else
        let val' := val * 10 + (c.toNat - 48)
        if val' > 255 then false else v4go r val' pos (digLen + 1) false false
    else if c == 46 then
      if first || r.isEmpty || prevDot then false            -- `.1.2.3`, `1.2.3.`, `1..2.3`
      else if pos == 3 then false                            -- `1.2.3.4.5`
      else v4go r 0 (pos + 1) 0 false true
    else false                                               -- unexpected character

def ipv4Fields (s : Bytes) : Bool := v4go s 0 0 0 true false

def hexVal (c : UInt8) : Option Nat :=
  if 48 ≤ c && c ≤ 57 then some (c.toNat - 48)
  else if 97 ≤ c && c ≤ 102 then some (c.toNat - 97 + 10)
  else if 65 ≤ c && c ≤ 70 then some (c.toNat - 65 + 10)
  else none

/-- the inner `for ; off < len(s); off++` of parseIPv6: number of hex digits and the rest, or
`none` when a group has more than four digits / overflows 16 bits -/
def hexGroup : Bytes → (off acc : Nat) → Option (Nat × Bytes)
  | [], off, _ => some (off, [])
  | c :: r, off, acc =>
    match hexVal c with
    | none => some (off, c :: r)
    | some v =>
      let acc' := acc * 16 + v
      if off > 3 then none
      else if acc' > 65535 then none
      else hexGroup r (off + 1) acc'

/-- the `for i < 16` loop of parseIPv6: returns the rest of the string, `i` and the ellipsis
position, or `none` for an error return. `s` always starts at the current group. -/
def v6loop : Nat → Bytes → Nat → Option Nat → Option (Bytes × Nat × Option Nat)
  | 0, _, _, _ => none
  | fuel + 1, s, i, ell =>
    if 16 ≤ i then some (s, i, ell) else
    match hexGroup s 0 0 with
    | none => none
    | some (off, rest) =>
      if off == 0 then none else                             -- no digits
      match rest with
      | [] => some ([], i + 2, ell)                          -- end of string
      | c :: r1 =>
        if c == 46 then                                      -- trailing IPv4
          if ell.isNone && i != 12 then none
          else if i + 4 > 16 then none
          else if ipv4Fields s then some ([], i + 4, ell) else none
        else if c != 58 then none                            -- want colon
        else
          match r1 with
          | [] => none                                       -- colon must be followed by more
          | c2 :: r2 =>
            if c2 == 58 then
              if ell.isSome then none                        -- multiple ::
              else if r2.isEmpty then some ([], i + 2, some (i + 2))
              else v6loop fuel r2 (i + 2) (some (i + 2))
            else v6loop fuel r1 (i + 2) ell

/-- `parseIPv6` followed by net.parseIP's `ip.Zone() != ""` refusal: an address with a `%` either
fails (empty zone) or carries a zone, so it is never an IP for `net.ParseIP` -/
def parseIPv6 (s : Bytes) : Bool :=
  if s.contains 37 then false else
  let (s, ell) : Bytes × Option Nat :=
    match s with
    | 58 :: 58 :: r => (r, some 0)
    | _ => (s, none)
  if ell.isSome && s.isEmpty then true else                  -- only `::`
  match v6loop 9 s 0 ell with
  | none => false
  | some (rest, i, ell') =>
    if !rest.isEmpty then false                              -- trailing garbage
    else if i < 16 then ell'.isSome                          -- too short unless an ellipsis expands
    else !ell'.isSome                                        -- `::` must expand to at least one group

/-- `net.ParseIP(s) != nil`: the first of `.`, `:`, `%` decides the family -/
def isIPfrom (whole : Bytes) : Bytes → Bool
  | [] => false
  | c :: r =>
    if c == 46 then ipv4Fields whole
    else if c == 58 then parseIPv6 whole
    else if c == 37 then false
    else isIPfrom whole r

def isIP (s : Bytes) : Bool := isIPfrom s s

/-! ### hostnameInSNI -/

/-- `strings.LastIndex(host, "%")` -/
def lastIndexPct : Bytes → Nat → Option Nat → Option Nat
  | [], _, acc => acc
  | c :: r, i, acc => lastIndexPct r (i + 1) (if c == 37 then some i else acc)

/-- `if len(host) > 0 && host[0] == '[' && host[len(host)-1] == ']' { host = host[1:len(host)-1] }`
then `if i := strings.LastIndex(host, "%"); i > 0 { host = host[:i] }` -/
def sniHost (name : Bytes) : Bytes :=
  let host :=
    if name.length > 0 && name.head? == some 91 && name.getLast? == some 93 then (name.drop 1).dropLast
    else name
  match lastIndexPct host 0 none with
  | some i => if i > 0 then host.take i else host
  | none => host

/-- `for len(name) > 0 && name[len(name)-1] == '.' { name = name[:len(name)-1] }` (fuel: the length) -/
def trimDotsLoop : Nat → Bytes → Bytes
  | 0, s => s
  | n + 1, s => if s.length > 0 && s.getLast? == some 46 then trimDotsLoop n s.dropLast else s

def trimDots (s : Bytes) : Bytes := trimDotsLoop s.length s

def hostnameInSNI (ip : Bytes → Bool) (name : Bytes) : Bytes :=
  if ip (sniHost name) then [] else trimDots name

/-! ### makeClientHello -/

/-- constants of makeClientHello beyond `EmitParams` (filled from the regenerated facts) -/
structure MakeParams where
  /-- `ECDHE_SM4_GCM_SM3`, `ECDHE_SM4_CBC_SM3`: need both client key pairs -/
  ecdhe : List Nat
  /-- the suites that make the client send signature_algorithms -/
  sigSuites : List Nat
  /-- `defaultCipherSuites` -/
  defaultSuites : List Nat
  /-- `CurveSM2` -/
  curveSM2 : Nat
  /-- N when makeClientHello refuses a key/cert SM3-hash trusted-CA entry whose identifier is not N
  bytes long (repair F60); 0 = the list is copied unchecked -/
  taHashLen : Nat
  /-- `IdentifierTypeKeySM3Hash`, `IdentifierTypeCertSM3Hash` -/
  taHashTypes : List Nat
  deriving Repr

/-- the configuration fields makeClientHello (and loadSession / the cookie exchange) read -/
structure ClientCfg where
  /-- `Config.ServerName` -/
  serverName : Bytes
  /-- `Config.NextProtos` -/
  nextProtos : List Bytes
  /-- `Config.CurvePreferences` (`none` = nil) -/
  curves : Option (List W16)
  /-- `Config.TrustedCAIndications` -/
  tas : List TA
  /-- `Config.CipherSuites` (`none` = nil: the defaults) -/
  suites : Option (List Nat)
  /-- `len(Config.Certificates)` (the Get…Certificate callbacks are not modelled: nil) -/
  nCerts : Nat
  /-- what `config.rand()` can deliver (`io.ReadFull(…, rd)` takes 32 bytes; fewer = a short read) -/
  rnd : Bytes
  /-- `config.Time().Unix()` -/
  unixTime : Nat
  /-- the id of a cached session (loadSession), empty without one -/
  sid : Bytes
  /-- dtlcp: the cookie of the HelloVerifyRequest being answered (empty in the first hello) -/
  cookie : Bytes
  deriving Repr

/-- the NextProtos validation (F29): every name 1..255 bytes, the list at most 65535 bytes -/
def alpnOK (l : List Bytes) : Bool :=
  l.all (fun a => !(a.length == 0 || a.length > 255)) &&
  !(l.foldl (fun n a => n + 1 + a.length) 0 > 65535)

/-- `tlcpRand`: 32 bytes from Rand, the first four overwritten by the time -/
def tlcpRand (p : EmitParams) (rnd : Bytes) (unixTime : Nat) : Option Bytes :=
  if rnd.length < p.randLen then none                        -- io.ReadFull: short read
  else some ([u8 (unixTime / 16777216), u8 (unixTime / 65536), u8 (unixTime / 256), u8 unixTime] ++
    (rnd.take p.randLen).drop 4)

/-- the TrustedCAIndications validation (F60): hash identifiers have exactly `n` bytes -/
def tasOK (q : MakeParams) (l : List TA) : Bool :=
  l.all fun t => !(q.taHashTypes.contains t.ty.toNat && t.id.length != q.taHashLen)

def makeClientHello (p : EmitParams) (q : MakeParams) (cfg : ClientCfg) : Option ClientHello :=
  let serverName := hostnameInSNI isIP cfg.serverName
  let curves := match cfg.curves with
    | some l => l
    | none => [W16.ofNat q.curveSM2]
  if q.taHashLen != 0 && !tasOK q cfg.tas then none else
  if cfg.nextProtos.length > 0 && !alpnOK cfg.nextProtos then none else
  let hasAuth := decide (cfg.nCerts > 0)
  let hasEnc := decide (cfg.nCerts > 1)
  let have_ := match cfg.suites with
    | some l => l
    | none => q.defaultSuites
  let suites := p.suites.filter fun s =>
    have_.contains s && !(q.ecdhe.contains s && !(hasAuth && hasEnc))
  let sigAlgs := if suites.any (fun s => q.sigSuites.contains s) then [W16.ofNat p.sigSM2] else []
  match tlcpRand p cfg.rnd cfg.unixTime with
  | none => none
  | some random =>
    some { vers := W16.ofNat p.vers, random := random, sessionId := cfg.sid, cookie := cfg.cookie,
           suites := suites.map W16.ofNat, compression := [u8 p.compressionNone],
           serverName := serverName, tas := cfg.tas, ocsp := false, curves := curves,
           sigAlgs := sigAlgs, alpn := cfg.nextProtos, clientId := [] }

end Gotlcp.Model.Make

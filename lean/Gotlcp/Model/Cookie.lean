/-
Executable model of the DTLCP stateless cookie exchange (C18), core Lean only.

Mirrors, branch by branch:
  * `clientHelloMsg.marshalForCookie`  (dtlcp/handshake_server.go) — the byte layout is the literal
    definition `marshalForCookie` below.  It is NOT read from text-matching facts:
    `Gotlcp.Tie.Cookie.tie_marshalForCookie` proves, for all hellos, that the function TRANSLATED from
    the Go source on every run produces exactly these bytes, so a semantic change of the Go function
    breaks that proof while a renaming or an equivalent re-arrangement does not;
  * `generateCookie` (dtlcp/cookie.go) — what is written into the HMAC is the literal definition
    `cookieInputFramed` (tied by `tie_generateCookie` / `tie_cookieInput`: HMAC-SM3 under the secret
    over 16-bit address length ‖ address ‖ parameters); `cookieInputPlain` is the input of the tree
    before the F15 repair, kept for the witness of that finding;
  * `verifyCookie` — recompute and compare; the MAC itself is an opaque function of
    (key, input) and is never computed here;
  * the fixed-size framing of ClientHello / HelloVerifyRequest datagrams (13-byte record
    header, 12-byte handshake header) and the core layout of a ClientHello body;
  * the cookie loop at the start of `serverHandshake` as a step function over received hellos.
-/
import Gotlcp.Base.Hex
import Gotlcp.Model.Fragment

namespace Gotlcp.Model.Cookie

/-- the ClientHello fields the cookie covers (`clientHelloMsg` after `unmarshal`) -/
structure Hello where
  vers : Nat
  random : Bytes
  sessionId : Bytes
  suites : List Nat
  compression : Bytes
  deriving DecidableEq, Repr, Inhabited

/-- Go `byte(x)` -/
def b8 (n : Nat) : UInt8 := UInt8.ofNat n

/-- Go `byte(x>>8), byte(x)` -/
def u16 (n : Nat) : Bytes := [b8 (n / 256), b8 n]

/-- decodable hellos: what `clientHelloMsg.unmarshal` can produce (fixed 32-byte random,
8-bit length prefixes, a 16-bit byte length for the suites, 16-bit values) -/
structure Hello.WF (h : Hello) : Prop where
  vers : h.vers < 65536
  random : h.random.length = 32
  sid : h.sessionId.length < 256
  suites : h.suites.length < 65536
  suiteVals : ∀ s ∈ h.suites, s < 65536
  comp : h.compression.length < 256

def Hello.wf (h : Hello) : Bool :=
  h.vers < 65536 && h.random.length == 32 && h.sessionId.length < 256 && h.suites.length < 65536
    && h.suites.all (· < 65536) && h.compression.length < 256

/-! ### marshalForCookie -/

/-- `marshalForCookie` as written in the source today: version, random, length-prefixed session id,
count-prefixed suites, length-prefixed compression methods (tied to the translated Go text by
`Gotlcp.Tie.Cookie.tie_marshalForCookie`) -/
def marshalForCookie (h : Hello) : Bytes :=
  u16 h.vers ++ (h.random ++ ([b8 h.sessionId.length] ++ (h.sessionId ++ (u16 h.suites.length ++
    (h.suites.flatMap u16 ++ ([b8 h.compression.length] ++ h.compression))))))

/-! ### generateCookie / verifyCookie -/

/-- the unrepaired input: address bytes immediately followed by the parameters -/
def cookieInputPlain (addr params : Bytes) : Bytes := addr ++ params

/-- the MAC input of `generateCookie(secret, addr, params)` in the source today (the repaired
input): 16-bit address length, address, parameters (tied to the translated Go text by
`Gotlcp.Tie.Cookie.tie_generateCookie` and `tie_cookieInput`) -/
def cookieInputFramed (addr params : Bytes) : Bytes := u16 addr.length ++ (addr ++ params)

/-- HMAC keys are zero-padded to the block size: secrets that differ only in trailing zero
bytes are the same key (for secrets up to one block of 64 bytes). -/
def stripZeros (k : Bytes) : Bytes := (k.reverse.dropWhile (· == 0)).reverse

def sameKey (k k' : Bytes) : Bool :=
  k == k' || (k.length ≤ 64 && k'.length ≤ 64 && stripZeros k == stripZeros k')

/-- `verifyCookie` with an ideal MAC: the presented cookie is the one issued under `key` for
`input`, possibly altered (`altered`); it is accepted iff it is unaltered and recomputation
uses the same key and the same input. -/
def acceptsIdeal (issuedKey issuedInput key input : Bytes) (altered : Bool) : Bool :=
  !altered && sameKey issuedKey key && issuedInput == input

/-! ### effectiveCookieSecret -/

/-- `effectiveCookieSecret`: the configured secret when non-empty; otherwise the connection's
own field, filled on first use with `draw` (bytes read from `config.rand()`).
Returns (secret used, new value of the connection field). -/
def effectiveSecret (configured connField draw : Bytes) : Bytes × Bytes :=
  if configured.length > 0 then (configured, connField)
  else if connField.length == 0 then (draw, draw)
  else (connField, connField)

/-- `io.ReadFull(r, buf)` with `len(buf) = n` over a reader that may return short reads:
`chunks` = how many bytes the successive `Read` calls are willing to deliver (a `Read` returns
at least one byte and never more than the rest of the buffer), `stream` = the bytes the reader
produces.  The loop of `io.ReadAtLeast`: keep reading into the rest of the buffer until it is
full.  (The list of chunks running out = the reader failing; not modelled further.) -/
def readFull (stream : Bytes) : List Nat → Nat → Bytes
  | _, 0 => []
  | [], _ + 1 => []
  | c :: cs, n + 1 =>
    let k := min (max c 1) (n + 1)
    stream.take k ++ readFull (stream.drop k) cs (n + 1 - k)

/-- the per-connection secret when none is configured: `secretLen` bytes read with `io.ReadFull`
from the connection's random source (`config.rand()`), whatever the sizes of its reads -/
def drawSecret (secretLen : Nat) (stream : Bytes) (chunks : List Nat) : Bytes :=
  (effectiveSecret [] [] (readFull stream chunks secretLen)).1

/-! ### the address text

`serverHandshake` passes `c.remoteAddr.String()` to `generateCookie` / `verifyCookie`.  For the
addresses the net package reports (`*net.UDPAddr`) that text is
`net.JoinHostPort(host, strconv.Itoa(port))`: the printed host (an IPv6 literal, with its zone, in
brackets), a colon, the decimal port. -/

/-- `strconv.Itoa` of a natural number, ASCII -/
def dec (n : Nat) : Bytes :=
  if n < 10 then [b8 (48 + n)] else dec (n / 10) ++ [b8 (48 + n % 10)]
decreasing_by omega

def colon : UInt8 := 0x3a

/-- printed host ‖ ":" ‖ decimal port -/
def hostPort (host : Bytes) (port : Nat) : Bytes := host ++ colon :: dec port

def isDigit (b : UInt8) : Bool := 48 ≤ b.toNat && b.toNat ≤ 57

/-- split an address text at its last colon and read the decimal port after it -/
def splitHostPort (t : Bytes) : Option (Bytes × Nat) :=
  let r := t.reverse
  let digits := (r.takeWhile (· != colon)).reverse
  match r.dropWhile (· != colon) with
  | [] => none
  | _ :: hostRev =>
    if digits.isEmpty || !digits.all isDigit then none
    else some (hostRev.reverse, digits.foldl (fun a d => a * 10 + (d.toNat - 48)) 0)

/-- the (host, port) an address text of the form host:port stands for; `none` when the text is not
the canonical print of a host and a 16-bit port (leading zeros, port out of range, no colon) -/
def endpointOf (t : Bytes) : Option (Bytes × Nat) :=
  match splitHostPort t with
  | some (h, p) => if p < 65536 && hostPort h p == t then some (h, p) else none
  | none => none

/-! ### sizes -/

def recordHeaderLen : Nat := 13
def handshakeHeaderLen : Nat := 12

/-- body of a HelloVerifyRequest: version(2) + cookie length(1) + cookie -/
def hvrBodyLen (cookieLen : Nat) : Nat := 2 + 1 + cookieLen

/-- one handshake message carried unfragmented in one record in one datagram -/
def datagramLen (rh hh body : Nat) : Nat := rh + hh + body

/-- total bytes on the wire of a handshake body of `body` bytes sent as `k ≥ 1` fragments,
one record and one datagram per fragment -/
def fragmentedLen (rh hh body k : Nat) : Nat := k * (rh + hh) + body

/-! ### core layout of a ClientHello body (what `clientHelloMsg.unmarshal` requires at least) -/

def take? (n : Nat) (bs : Bytes) : Option (Bytes × Bytes) :=
  if n ≤ bs.length then some (bs.take n, bs.drop n) else none

def beNat (bs : Bytes) : Nat := bs.foldl (fun acc b => acc * 256 + b.toNat) 0

def pairs : Bytes → List Nat
  | a :: b :: rest => (a.toNat * 256 + b.toNat) :: pairs rest
  | _ => []

structure Decoded where
  hello : Hello
  cookie : Bytes
  rest : Bytes
  deriving Repr

/-- version(2) random(32) session_id<0..255> cookie<0..255> cipher_suites<0..2^16-1> (even)
compression_methods<0..255>, rest = extensions (not interpreted here) -/
def decodeCore (body : Bytes) : Option Decoded := do
  let (v, r1) ← take? 2 body
  let (rnd, r2) ← take? 32 r1
  let (sl, r3) ← take? 1 r2
  let (sid, r4) ← take? (beNat sl) r3
  let (cl, r5) ← take? 1 r4
  let (ck, r6) ← take? (beNat cl) r5
  let (ssl, r7) ← take? 2 r6
  let (ss, r8) ← take? (beNat ssl) r7
  if ss.length % 2 != 0 then none else
  let (cml, r9) ← take? 1 r8
  let (cm, r10) ← take? (beNat cml) r9
  pure { hello := { vers := beNat v, random := rnd, sessionId := sid, suites := pairs ss, compression := cm },
         cookie := ck, rest := r10 }

/-- encode a hello body the way a client does (no extensions) -/
def encodeBody (h : Hello) (cookie : Bytes) : Bytes :=
  u16 h.vers ++ h.random ++ [b8 h.sessionId.length] ++ h.sessionId ++ [b8 cookie.length] ++ cookie ++
    u16 (2 * h.suites.length) ++ h.suites.flatMap u16 ++ [b8 h.compression.length] ++ h.compression

/-! ### the cookie loop of serverHandshake -/

/-- what the server does on one received ClientHello while no valid cookie has been seen:
either a HelloVerifyRequest (and nothing else), or it leaves the loop. -/
inductive Action where
  | hvr (cookieLen : Nat)   -- writeHandshakeRecord(hvr); flush
  | proceed                 -- break: certificate selection, key work … start here
  deriving DecidableEq, Repr

/-- one iteration: `if len(cookie) == 0 || !verifyCookie(..) { send HVR; continue }; break` -/
def loopStep (cookieEmpty cookieValid : Bool) (macLen : Nat) : Action :=
  if cookieEmpty || !cookieValid then .hvr macLen else .proceed

/-- version selection in `readClientHello` (first hello of a connection only): TLS/SSL
versions 0x03xx are refused, otherwise the highest supported version not above the client's;
`tlcp` = the one supported version (0x0101). Failure = protocol_version alert, handshake over. -/
def versionOk (tlcp vers : Nat) : Bool := (vers / 256 != 3) && tlcp ≤ vers

/-- HelloVerifyRequests sent for one datagram that carries `hellos` complete cookieless (or
wrongly cookied) ClientHellos: the loop runs once per hello still buffered, unless the rest of
the datagram is discarded after the first reply (`dropsLeftover`, regenerated fact). -/
def answersPerDatagram (dropsLeftover : Bool) (hellos : Nat) : Nat :=
  if dropsLeftover then min 1 hellos else hellos

/-- bytes of one datagram carrying `n` handshake messages of `body` bytes each, either packed
into one record or one record each -/
def packedLen (rh hh body n : Nat) (oneRecord : Bool) : Nat :=
  if oneRecord then rh + n * (hh + body) else n * (rh + hh + body)

/-! ### a ClientHello received in fragments during the cookie phase

`readClientHello` / `readNextClientHello` take their message from `readHandshake`
(`Gotlcp.Model.Fragment.apply`: per-`message_seq` reassembly buffers, the buffer of a rebuilt
message is dropped before the message is delivered). `message_seq` is not checked on receipt, so
which datagrams make a ClientHello reach the cookie loop is decided by those buffers alone. -/

/-- a series of datagrams that each carry one slice [off, off+len) of ONE message of `total` bytes
under one `message_seq`: for each datagram, does `readHandshake` deliver the message (`true`) or
keep reading (`false`)? The list ends at a fatal condition. Payload bytes play no part in that. -/
def rxFragments (strict : Bool) (total : Nat) : Fragment.Pending → List (Nat × Nat) → List Bool
  | _, [] => []
  | st, (off, len) :: rest =>
    match Fragment.apply strict st ⟨1, total, 0, off, len, List.replicate len 0⟩ with
    | (st', .cont) => false :: rxFragments strict total st' rest
    | (st', .deliver _) => true :: rxFragments strict total st' rest
    | (_, .fatal _) => []

/-- run the loop over the hellos received so far; `true` = it has exited -/
def runLoop (macLen : Nat) : List (Bool × Bool) → List Action × Bool
  | [] => ([], false)
  | (e, v) :: rest =>
    match loopStep e v macLen with
    | .proceed => ([.proceed], true)
    | a => let (as, d) := runLoop macLen rest; (a :: as, d)

end Gotlcp.Model.Cookie

/-
Model of the call-level behaviour of a TLCP stream connection (`/repo/tlcp/conn.go`):
`Conn.Read`, `Conn.Write`, `Conn.Close`, `Conn.CloseWrite`, `closeNotify`, `Handshake` /
`handshakeContext`, together with the events of the transport underneath.

State (the fields of `Conn` the calls look at):
  * `hsDone` (`handshakeStatus == 1`), `hsErr` (`handshakeErr`), `hsScript` — what `handshakeFn`
    will do the one time it runs (the handshake itself is other properties' subject);
  * `rx` — the receiving record layer of `Model/RecordRx` (`in.err`, `c.input`, `retryCount`, …);
  * `outErr` (`out.err`), `cnSent` / `cnErr` (`closeNotifySent` / `closeNotifyErr`);
  * `closedBit` (low bit of `activeCall`) and `inflight` (the rest of `activeCall`: a `Write` that has
    passed every test of `Conn.Write`, holds `c.out` and sits in the transport write — the one
    concurrent situation the model covers, because `Close` is documented to be callable then:
    "this Close is really just being used to break the Write").  While it is set, calls that need
    `c.out` and whose result depends on how that Write ends do not return (`wouldBlock`: another
    `Write`, `CloseWrite`); `Close` only closes the transport; `writeEnd` is the transport write
    returning.  One approximation: a `Read` that has to SEND an alert would wait for `c.out` too —
    here it proceeds (the driver never runs such a history; waiting on mutexes is C13's subject);
  * `localClosed` — `c.conn.Close()` has been called: every later transport read or write fails
    with `net.ErrClosed`;
  * `queue` — what the transport will hand to this side, in order: whole records of the peer
    (plaintext view: the peer is honest here, protection is C05's subject), a temporary error
    (e.g. a read deadline), a permanent error, or the end of the stream — cleanly or inside a
    header / a body;
  * `wfail` — how the transport answers writes from now on;
  * `outLog` — the records this side wrote (type, first payload bytes), to state "close_notify once".

  * `seg` / `raw` — how the transport cuts the byte stream into reads, and what `c.rawInput`
    therefore holds beyond the record being processed.  `seg = .record`: one transport read never
    crosses a record boundary (a pipe that delivers one write per read), `c.rawInput` never holds
    bytes of a later record and the close-notify look-ahead of `Read` never fires.  `seg = .all`:
    a transport read returns everything the transport holds at that moment (a TCP socket whose
    receive buffer holds several segments; exact for real reads while fewer than `bytes.MinRead`
    = 512 bytes are pending), so the records the peer wrote back to back — its last data record
    and its close_notify — sit in `c.rawInput` together.  `raw` counts the leading items of `queue`
    whose bytes are already buffered in `c.rawInput`.

Core Lean only.
-/
import Gotlcp.Model.RecordRx

namespace Gotlcp.Model.ConnAPI
open Gotlcp.Model.RecordRx

inductive ApiErr
  | eof | unexpectedEOF
  | closed              -- net.ErrClosed (also as the cause inside a permanentError)
  | shutdown            -- errShutdown
  | earlyCloseWrite     -- errEarlyCloseWrite
  | remoteAlert (a : Nat)
  | localAlert (a : Nat)
  | recordHeader
  | tooManyIgnored
  | ctxCanceled         -- context.Canceled
  | transportTemp       -- a net.Error with Temporary() = true (timeout)
  | transportPerm       -- any other transport error
  | handshakeFailed (tag : Nat)   -- whatever handshakeFn returned
  | internal
  | block               -- the call had not returned when the caller's deadline passed (nothing latched)
deriving Repr, DecidableEq

def ofRx : RxErr → ApiErr
  | .eof => .eof
  | .unexpectedEOF => .unexpectedEOF
  | .localAlert a => .localAlert a
  | .remoteAlert a => .remoteAlert a
  | .header => .recordHeader
  | .tooManyIgnored => .tooManyIgnored
  | .internalPending => .internal

/-- what the transport delivers next -/
inductive InItem
  | record (w : Wire Bytes)
  | tempErr
  | permErr
  | eof (part : Option Partial)
deriving Repr, DecidableEq

/-- what `handshakeFn` does when it runs -/
inductive HsScript
  | succeed
  | fail (tag : Nat)                 -- returns an error (alert, verification failure, …)
deriving Repr, DecidableEq

/-- the transport's answer to a write -/
inductive WFail | none | temp | perm
deriving Repr, DecidableEq

/-- how the transport cuts the byte stream into reads -/
inductive Seg
  | record     -- a transport read never crosses a record boundary
  | all        -- a transport read returns everything the transport holds
deriving Repr, DecidableEq

structure Conn where
  /-- the source's `Read` starts with the `activeCall` close-bit test (the repair of F38) -/
  rcc : Bool := Facts.tlcp.apiReadChecksClosed
  hsDone : Bool := false
  hsErr : Option ApiErr := none
  hsScript : HsScript := .succeed
  rx : RxState := {}
  /-- `in.err` values that do not come from the record layer model (transport errors, closed) -/
  inErrX : Option ApiErr := none
  outErr : Option ApiErr := none
  cnSent : Bool := false
  cnErr : Option ApiErr := none
  closedBit : Bool := false
  localClosed : Bool := false
  queue : List InItem := []
  wfail : WFail := .none
  outLog : List (Nat × Bytes) := []
  seg : Seg := .record
  /-- number of leading items of `queue` whose bytes `c.rawInput` already holds -/
  raw : Nat := 0
  /-- payload of the `Write` that is inside the transport write right now (`activeCall ≥ 2`): it got
      past the interlock, `Handshake()`, `c.out.err`, `closeNotifySent`, and holds `c.out` -/
  inflight : Option Bytes := none
deriving Repr, DecidableEq

inductive Call
  | read (n : Nat)
  | write (data : Bytes)
  | close
  | closeWrite
  /-- `HandshakeContext(ctx)`; `cancelBefore = true`: the context is cancelled while `handshakeFn`
      is running (the interrupter closes the transport), `false`: never or after it returned -/
  | handshake (cancelBefore : Bool)
  -- transport events
  | arrive (it : InItem)
  | setWFail (w : WFail)
  -- a `Write` on another goroutine, cut in two at the transport write
  /-- `Write(data)` is called and runs up to `c.conn.Write`, where the transport makes it wait
      (result `wouldBlock`: the call has not returned) — unless it returns before getting there -/
  | writeStart (data : Bytes)
  /-- the transport write of the `Write` in flight returns (accepted, refused, or broken by the
      transport having been closed); the result is that `Write`'s -/
  | writeEnd
deriving Repr, DecidableEq

inductive Res
  | ok (data : Bytes)            -- Read: bytes; Write: `[]` and n = len; others: nil
  | okErr (data : Bytes) (e : ApiErr)
  | err (e : ApiErr)
  | wouldBlock                   -- the call would not return (nothing arrives)
  | event                        -- a transport event, no result
deriving Repr, DecidableEq

def P : Params := tlcpParams

/-- record types from this value on mark a wire record that does not authenticate (garbage or
plaintext injected into the protected stream): `type - forgedMark` is the type byte on the wire -/
def forgedMark : Nat := 256

/-- the peer is honest and protection transparent: every body opens to itself — except the
marked forgeries, which `hc.decrypt` refuses with bad_record_mac -/
def plainDec : Dec Bytes :=
  { len := List.length, raw := id,
    decrypt := fun _ typ _ b => if typ ≥ forgedMark then .fail P.aBadMAC .aeadOpen else .ok b }

/-- the error a transport write produces, as `c.out.setErrorLocked` stores it -/
def wErr (c : Conn) : Option ApiErr :=
  if c.localClosed then some .closed else
  match c.wfail with
  | .none => none
  | .temp => some .transportTemp     -- wrapped in permanentError: Temporary() is false from now on
  | .perm => some .transportPerm

/-- `handshakeContext`: returns the new state and the error (none = nil) -/
def handshake (c : Conn) (cancelBefore : Bool) : Conn × Option ApiErr :=
  if c.hsDone then (c, none) else
  match c.hsErr with
  | some e => (c, some e)
  | none =>
    if cancelBefore then
      -- the interrupter closed the transport: handshakeFn fails on its next transport operation,
      -- that error is latched; the caller gets the context's error
      ({ c with hsErr := some .closed, localClosed := true }, some .ctxCanceled)
    else if c.localClosed then ({ c with hsErr := some .closed }, some .closed)
    else match c.hsScript with
      | .succeed => ({ c with hsDone := true }, none)
      | .fail t => ({ c with hsErr := some (.handshakeFailed t) }, some (.handshakeFailed t))

/-- leading whole records of the queue, the item after them, and what follows that item -/
def splitQueue : List InItem → List (Wire Bytes) × Option InItem × List InItem
  | [] => ([], none, [])
  | .record w :: q => let (ws, e, r) := splitQueue q; (w :: ws, e, r)
  | it :: q => ([], some it, q)

def requeue (ws : List (Wire Bytes)) (e : Option InItem) (rest : List InItem) : List InItem :=
  ws.map InItem.record ++ (match e with | some it => [it] | none => []) ++ rest

/-- how the transport looks to one `Read`: closed after the leading records only at a real end -/
def tailOf : Option InItem → Tail
  | some (.eof part) => { part := part, closed := true }
  | _ => { part := none, closed := false }

/-- the effective latch of the read half -/
def inErr (c : Conn) : Option ApiErr :=
  match c.inErrX with
  | some e => some e
  | none => c.rx.err.map ofRx

/-- `sendAlert` latches `out.err`: when the record layer sent an alert during this call, later
writes fail with that local error -/
def outErrAfter (old new : RxState) (outErr : Option ApiErr) : Option ApiErr :=
  match (new.alerts.drop old.alerts.length).getLast? with
  | some a => some (.localAlert a)
  | none => outErr

/-- the type byte a record carries on the wire (see `forgedMark`) -/
def wireType (t : Nat) : Nat := if t ≥ forgedMark then t - forgedMark else t

/-- first byte of what follows in the transport stream, if any -/
def nextWire (ws : List (Wire Bytes)) (t : Tail) : Option Nat := (nextType ws t).map wireType

/-- the transport stream ends with the bytes of an incomplete record -/
def tailBytes : Option InItem → Bool
  | some (.eof (some _)) => true
  | _ => false

/-- `raw` after `k` more leading records were consumed and `m` are left: served from
`c.rawInput` while it lasts; otherwise a transport read happened (`readFromUntil`), which in
`.record` mode fetched exactly the record asked for and in `.all` mode everything there was -/
def rawAfter (seg : Seg) (raw k m : Nat) (tb : Bool) : Nat :=
  if k ≤ raw then raw - k else
  match seg with
  | .record => 0
  | .all => m + (if tb then 1 else 0)

/-- the end of `Conn.Read` after `n, _ := c.input.Read(b)`:
`if n != 0 && c.input.Len() == 0 && c.rawInput.Len() > 0 && recordType(c.rawInput.Bytes()[0]) == recordTypeAlert`
one more `c.readRecord()`, whose error (end-of-stream for a close_notify) is returned with the
bytes.  `pk` = the last two conjuncts. -/
def lookAhead (t : Tail) (pk : Bool) (rx : RxState) (ws : List (Wire Bytes)) (out : Bytes) :
    (RxState × List (Wire Bytes)) × ReadRes :=
  if out ≠ [] && rx.input == [] && pk then
    match pump P plainDec Ctx.established t true rx ws with
    | (s3, ws3, .err e) => ((s3, ws3), .okErr out e)
    | (s3, ws3, .blocked) => ((s3, ws3), .blocked out)
    | (s3, ws3, _) => ((s3, ws3), .ok out)
  else ((rx, ws), .ok out)

/-- the record-layer part of one `Read` over the leading records `ws` of the transport queue:
the loop `for c.input.Len() == 0 { c.readRecord() }`, `c.input.Read(b)`, the look-ahead; with the
bookkeeping of `c.rawInput` -/
def readRec (t : Tail) (seg : Seg) (raw : Nat) (tb : Bool) (rx : RxState) (ws : List (Wire Bytes)) (n : Nat) :
    ((RxState × List (Wire Bytes)) × ReadRes) × Nat :=
  let r1 := readCall P plainDec Ctx.established t rx ws n false
  let raw1 := rawAfter seg raw (ws.length - r1.1.2.length) r1.1.2.length tb
  let r2 := match r1.2 with
    | .ok out => lookAhead t (decide (raw1 > 0) && nextWire r1.1.2 t == some P.tAlert) r1.1.1 r1.1.2 out
    | _ => r1
  (r2, rawAfter seg raw1 (r1.1.2.length - r2.1.2.length) r2.1.2.length tb)

def read (c : Conn) (n : Nat) : Conn × Res :=
  if c.rcc && c.closedBit then (c, .err .closed) else
  match handshake c false with
  | (c, some e) => (c, .err e)
  | (c, none) =>
    if n = 0 then (c, .ok []) else
    match c.inErrX with
    | some e => if c.rx.input = [] then (c, .err e) else
        -- pending plaintext is still handed out (the loop `for c.input.Len() == 0` is skipped)
        let out := c.rx.input.take n
        ({ c with rx := { c.rx with input := c.rx.input.drop n } }, .ok out)
    | none =>
    if c.rx.err = none ∧ c.rx.input = [] ∧ c.localClosed then
      ({ c with inErrX := some .closed }, .err .closed)
    else
    let (ws, it, rest) := splitQueue c.queue
    let (((rx', ws'), r), raw') := readRec (tailOf it) c.seg c.raw (tailBytes it) c.rx ws n
    let c' := { c with rx := rx', raw := raw', queue := requeue ws' it rest, outErr := outErrAfter c.rx rx' c.outErr }
    match r with
    | .ok d => (c', .ok d)
    | .okErr d e => (c', .okErr d (ofRx e))
    | .err e => (c', .err (ofRx e))
    | .blocked d =>
      match it with
      | some .tempErr =>
        -- not latched; the transport recovers afterwards
        ({ c' with queue := requeue ws' none rest }, if d = [] then .err .transportTemp else .okErr d .transportTemp)
      | some .permErr =>
        ({ c' with inErrX := some .transportPerm }, if d = [] then .err .transportPerm else .okErr d .transportPerm)
      | _ => (c', if d = [] then .wouldBlock else .okErr d .block)

/-- `sendAlertLocked(alertCloseNotify)` inside `closeNotify` -/
def closeNotify (c : Conn) : Conn × Option ApiErr :=
  if c.cnSent then (c, c.cnErr) else
  let e := wErr c
  let log := if e = none then c.outLog ++ [(P.tAlert, [UInt8.ofNat P.lvlWarning, UInt8.ofNat P.aCloseNotify])] else c.outLog
  ({ c with cnSent := true, cnErr := e, outLog := log }, e)

def write (c : Conn) (data : Bytes) : Conn × Res :=
  if c.closedBit then (c, .err .closed) else
  match handshake c false with
  | (c, some e) => (c, .err e)
  | (c, none) =>
    match c.outErr with
    | some e => (c, .err e)
    | none =>
      if !c.hsDone then (c, .err .internal) else
      if c.cnSent then (c, .err .shutdown) else
      -- `c.out.Lock()` is held by the Write in flight: this call returns only after that one, with a
      -- result that depends on how that one ends.  (The code takes the lock before the three tests
      -- above; a latched `out.err` / `closeNotifySent` cannot change while the lock is held, so when
      -- one of them is set what the call returns is what is stated above, whenever it returns.)
      if c.inflight.isSome then (c, .wouldBlock) else
      if data = [] then (c, .ok []) else     -- `writeRecordLocked` writes nothing for an empty slice
      match wErr c with
      | some e => ({ c with outErr := some e }, .err e)
      | none => ({ c with outLog := c.outLog ++ [(P.tApp, data.take 4)] }, .ok [])

/-- `Write(data)` up to the point where `c.conn.Write` makes it wait: the same tests as `write`;
a call that gets through all of them is in flight (`activeCall += 2`, `c.out` held) -/
def writeStart (c : Conn) (data : Bytes) : Conn × Res :=
  if c.closedBit then (c, .err .closed) else
  match handshake c false with
  | (c, some e) => (c, .err e)
  | (c, none) =>
    match c.outErr with
    | some e => (c, .err e)
    | none =>
      if !c.hsDone then (c, .err .internal) else
      if c.cnSent then (c, .err .shutdown) else
      if c.inflight.isSome then (c, .wouldBlock) else
      if data = [] then (c, .ok []) else
      ({ c with inflight := some data }, .wouldBlock)

/-- the transport write of the Write in flight returns: `return n, c.out.setErrorLocked(err)`,
`defer atomic.AddInt32(&c.activeCall, -2)` -/
def writeEnd (c : Conn) : Conn × Res :=
  match c.inflight with
  | none => (c, .event)
  | some data =>
    let c := { c with inflight := none }
    match wErr c with
    | some e => ({ c with outErr := some e }, .err e)
    | none => ({ c with outLog := c.outLog ++ [(P.tApp, data.take 4)] }, .ok [])

/-- the part of `Close` between setting the close bit and closing the transport -/
def closeSend (c : Conn) : Conn × Option ApiErr := if c.hsDone then closeNotify c else (c, none)

def close (c : Conn) : Conn × Res :=
  if c.closedBit then (c, .err .closed) else
  -- `if x != 0 { return c.conn.Close() }`: a Write is in flight; the close bit has been set by the
  -- compare-and-swap loop (`x|1`) all the same, no close_notify is attempted
  if c.inflight.isSome then ({ c with closedBit := true, localClosed := true }, .ok []) else
  let r := closeSend { c with closedBit := true }
  -- "failed to send closeNotify alert (but connection was closed anyway): %w"
  ({ r.1 with localClosed := true }, match r.2 with | some e => .err e | none => .ok [])

def closeWrite (c : Conn) : Conn × Res :=
  if !c.hsDone then (c, .err .earlyCloseWrite) else
  -- `closeNotify` takes `c.out`, which the Write in flight holds (same remark as in `write`)
  if c.inflight.isSome && !c.cnSent then (c, .wouldBlock) else
  match closeNotify c with
  | (c, some e) => (c, .err e)
  | (c, none) => (c, .ok [])

def step (c : Conn) : Call → Conn × Res
  | .read n => read c n
  | .write d => write c d
  | .close => close c
  | .closeWrite => closeWrite c
  | .handshake cb =>
    match handshake c cb with
    | (c, some e) => (c, .err e)
    | (c, none) => (c, .ok [])
  | .arrive it =>
    -- a pending timeout is reported only when nothing is readable: what arrives meanwhile comes first
    match it, c.queue.getLast? with
    | .record _, some .tempErr => ({ c with queue := c.queue.dropLast ++ [it, .tempErr] }, .event)
    | _, _ => ({ c with queue := c.queue ++ [it] }, .event)
  | .setWFail w => ({ c with wfail := w }, .event)
  | .writeStart d => writeStart c d
  | .writeEnd => writeEnd c

def run (c : Conn) : List Call → List Res
  | [] => []
  | k :: ks => let (c', r) := step c k; r :: run c' ks

/-- the state after a history -/
def after (c : Conn) : List Call → Conn
  | [] => c
  | k :: ks => after (step c k).1 ks

/-! ## notions the end-of-stream theorems are stated with -/

/-- a close_notify alert record (description 0 whatever the level byte says) -/
def isCN (w : Wire Bytes) : Bool :=
  w.typ == P.tAlert && (match w.body with | [_, d] => d.toNat == P.aCloseNotify | _ => false)

/-- the bytes a record entitles the application to -/
def contrib (w : Wire Bytes) : Bytes := if w.typ == P.tApp then w.body else []

/-- items after which the peer's byte stream is over: its close_notify, or the transport's end -/
def terminal : InItem → Bool
  | .record w => isCN w
  | .eof _ => true
  | _ => false

/-- every byte the peer wrote before it closed (or before the transport ended): the application
data of the records in front of the first terminal item -/
def appOf : List InItem → Bytes
  | [] => []
  | .record w :: q => if isCN w then [] else contrib w ++ appOf q
  | .eof _ :: _ => []
  | .tempErr :: q => appOf q
  | .permErr :: q => appOf q

def closedQ (q : List InItem) : Bool := q.any terminal

/-- a legitimate reason for end-of-stream is present in a stream: a close_notify record, or a
transport end exactly on a record boundary -/
def CauseIn (q : List InItem) : Prop :=
  (∃ w, InItem.record w ∈ q ∧ isCN w = true) ∨ InItem.eof none ∈ q

def Res.isEOF : Res → Bool
  | .err .eof => true
  | .okErr _ .eof => true
  | _ => false

def Res.bytes : Res → Bytes
  | .ok d => d
  | .okErr d _ => d
  | _ => []

/-- items the transport delivered during a history -/
def arrivals : List Call → List InItem
  | [] => []
  | .arrive it :: ks => it :: arrivals ks
  | _ :: ks => arrivals ks

/-- some `Read` of the history reports end-of-stream -/
def ReadsEOF (c : Conn) : List Call → Prop
  | [] => False
  | k :: ks => ((∃ n, k = .read n) ∧ (step c k).2.isEOF = true) ∨ ReadsEOF (step c k).1 ks

/-- run a history up to the first `Read` that reports end-of-stream: the bytes all reads delivered
up to and including that call, and what the transport had delivered by then -/
def untilEOF (c : Conn) : List Call → Bytes → List InItem → Option (Bytes × List InItem)
  | [], _, _ => none
  | .read n :: ks, acc, arr =>
    if (step c (.read n)).2.isEOF then some (acc ++ (step c (.read n)).2.bytes, arr)
    else untilEOF (step c (.read n)).1 ks (acc ++ (step c (.read n)).2.bytes) arr
  | .arrive it :: ks, acc, arr => untilEOF (step c (.arrive it)).1 ks acc (arr ++ [it])
  | k :: ks, acc, arr => untilEOF (step c k).1 ks acc arr

/-- no end-of-stream is latched anywhere yet -/
def NoEof (c : Conn) : Prop :=
  c.rx.err ≠ some .eof ∧ c.inErrX ≠ some .eof ∧ c.hsErr ≠ some .eof

end Gotlcp.Model.ConnAPI

/-
C01 — executable model of parameter negotiation between two unmodified endpoints
(tlcp and dtlcp share this code, function by function):

  client  `makeClientHello`, `pickProtocolVersion`, `processServerHello`
          (`pickCipherSuite`, `checkALPN`, resumption checks), the client half of
          `doFullHandshake` (`getClientCertificate`, `getClientKECertificate`, the certificate
          list, CertificateVerify), `Config.supportedVersions`, `Config.cipherSuites`
  server  `readClientHello` (`supportedVersionsFromMax`, `mutualVersion`),
          `processClientHello` (`negotiateALPN`, `getCertificate`, `getEKCertificate`, key
          types), `checkForResumption`, `pickCipherSuite`, `selectCipherSuite`,
          `cipherSuiteOk` (dead RSA/ECDHE branches included), the ECDHE override of the
          client-authentication policy, `processCertsFromClient`, the CertificateVerify
          expectation
  both    `Config.Clone`

Everything the Go code takes from a table or a constant is a field of `Params`, filled from
the regenerated `Gotlcp.Facts` by the oracle and by `Props/C01.lean`.  Cryptographic and
X.509 verdicts are functions of the abstract configuration (`CAKind.verifies`, the server's
signature verifies iff its signing key is SM2).  Core Lean only.
-/
import Gotlcp.Model.NegotiateCfg

namespace Gotlcp.Model.Negotiate
open Gotlcp.Negotiate

/-- tables and shapes extracted from the Go source -/
structure Params where
  /-- `supportedVersions` -/
  versions : List Nat
  /-- `cipherSuitesPreferenceOrder` -/
  pref : List Nat
  /-- `disabledCipherSuites` -/
  disabled : List Nat
  /-- keys of the `cipherSuites` map with their `flags` -/
  known : List (Nat × Nat)
  flagECDHE : Nat
  flagECSign : Nat
  /-- the ids named in the ECDHE guards (`ECDHE_SM4_GCM_SM3`, `ECDHE_SM4_CBC_SM3`) -/
  ecdheIds : List Nat
  /-- numeric value of each `ClientAuthType`, in the order of `ClientAuth.idx` -/
  authIota : List Nat
  /-- numeric values for which `requiresClientCert` answers true -/
  requires : List Nat
  /-- `selectCipherSuite` walks the server's preference list and looks each entry up in the
  client's offer (false: the other way round) -/
  serverPrefFirst : Bool
  /-- `negotiateALPN` walks the server's list in the outer loop -/
  alpnServerFirst : Bool
  /-- `makeClientHello` offers ECDHE suites only with both client key pairs -/
  clientEcdheGuard : Bool
  /-- the client appends its encryption certificate only after a signing certificate (F36 repaired) -/
  encCertNeedsSig : Bool
  /-- `checkForResumption` honours the client-authentication policy and `doResumeHandshake`
  re-checks the recorded client certificates (F6 repaired) -/
  resumeHonoursPolicy : Bool
  /-- `checkForResumption` resumes only a session of the negotiated version whose suite the
  ClientHello still offers and the configuration in use still enables (with usable keys) -/
  resumeSuiteGuards : Bool
  /-- `Config` fields that `Clone` does not copy -/
  cloneMissing : List String
  deriving DecidableEq, Repr

/-! ### parameters justified by the translation tie

`Config.supportedVersions`, `Config.mutualVersion`, `supportedVersionsFromMax`, `negotiateALPN` and
`checkALPN` of both stacks are TRANSLATED to Lean on every run (`Gotlcp.Src.{tlcp,dtlcp}[.neg]`), and
`Gotlcp.Tie.Negotiate` proves, for all inputs, that the translated text computes exactly the functions
below instantiated with the two literals that follow.  They are therefore NOT read from text-matching
facts: a semantic change of those Go functions breaks a tie proof, a renaming or an equivalent
re-arrangement breaks nothing. -/

/-- the `supportedVersions` table of this tree (`tie_versions_table_*`) -/
def treeVersions : List Nat := [0x0101]

/-- `negotiateALPN(a, b)` walks its FIRST argument in the outer loop, returns the first entry of `a`
that `b` contains, and applies the fallback rule with `a`'s entry "h2" and `b`'s entry "http/1.1"
(`tie_negotiateALPN_*`).  Which list the caller passes first is a fact about the untranslated
`processClientHello` (`Facts.*.negAlpnCallServerFirst`). -/
def treeAlpnOuterIsFirstArg : Bool := true

/-! The server's cipher-suite selection and its resumption decision are TRANSLATED as well
(`Gotlcp.Src.{tlcp,dtlcp}.sel`: `Config.cipherSuites`, `mutualCipherSuite`, `selectCipherSuite`,
`serverHandshakeState.cipherSuiteOk`, `serverHandshakeState.pickCipherSuite`,
`serverHandshakeState.checkForResumption`, and the package variables `cipherSuitesPreferenceOrder`,
`disabledCipherSuites`, `defaultCipherSuites`).  `Gotlcp.Tie.Select` / `Gotlcp.Tie.ResumeDecision` prove, for all
inputs, that the translated text computes `serverPick`, `selectCipherSuite`, `cipherSuiteOk`, `configSuites`,
`mutualCipherSuite` and the guards of `serverResumes` below, instantiated with the literals that follow (and
with the flag constants 2 and 1).  A semantic change of those Go functions breaks a tie proof; a renaming or an
equivalent re-arrangement breaks nothing. -/

/-- `cipherSuitesPreferenceOrder` of this tree: ECC-GCM, ECC-CBC, ECDHE-GCM, ECDHE-CBC (`tie_tables_*`) -/
def treePref : List Nat := [0xe053, 0xe013, 0xe051, 0xe011]

/-- `disabledCipherSuites` of this tree (`tie_tables_*`) -/
def treeDisabled : List Nat := []

/-- the server's `pickCipherSuite` walks ITS preference list in the outer loop of `selectCipherSuite` and only looks
each entry up in the client's offer (`tie_pickCipherSuite_*`) -/
def treeServerPrefFirst : Bool := true

/-- `checkForResumption` applies the two client-authentication guards (`tie_resumeDecision_*`); that
`doResumeHandshake` re-checks the recorded certificates is a fact about untranslated code
(`Facts.*.negResumeReprocessesCerts`) -/
def treeResumePolicyGuards : Bool := true

/-- `checkForResumption` applies the version guard, the "client still offers the suite" guard and the
"configuration in use still enables the suite, with usable keys" guard (`tie_resumeDecision_*`) -/
def treeResumeSuiteGuards : Bool := true

inductive Failure where
  | clientNoVersion      -- makeClientHello: no supported versions
  | version              -- server: client offered only unsupported versions
  | alpn                 -- server: no_application_protocol
  | serverNoCert         -- server: errNoCertificates (unrecognized_name)
  | serverKeyType        -- server: unsupported signing / decryption key type
  | noSuite              -- server: no cipher suite supported by both
  | clientSuite          -- client: server chose an unconfigured cipher suite
  | clientALPN           -- client: unrequested / unadvertised ALPN protocol
  | clientVersion        -- client: server selected unsupported protocol version
  | skxSignature         -- client: ServerKeyExchange signature does not verify
  | clientNoEncCert      -- client: ECDHE without an encryption certificate to present
  | certMissing          -- server: client didn't provide a certificate
  | ecdheCerts           -- server: client didn't provide both certificates for ECDHE
  | certVerify           -- server: client certificate chain does not verify
  | certVerifyMsg        -- server: CertificateVerify expected, ChangeCipherSpec received
  | resumeMismatch       -- client: server resumed with a different version / suite
  deriving DecidableEq, Repr

/-- a cached session, as far as negotiation is concerned -/
structure Session where
  vers : Nat
  suite : Nat
  /-- the certificates the client recorded for the server -/
  clientPeer : List CertSym
  /-- the certificates the server recorded for the client -/
  serverPeer : List CertSym
  deriving DecidableEq, Repr

def isOk {ε α} : Except ε α → Bool
  | .ok _ => true
  | .error _ => false

/-! ### Config.Clone -/

def cloneClient (p : Params) (c : ClientCfg) : ClientCfg :=
  if !c.clone then c else
  let m := p.cloneMissing
  { c with
    suites := if m.contains "CipherSuites" then none else c.suites
    nCerts := if m.contains "Certificates" then 0 else c.nCerts
    getCert := if m.contains "GetClientCertificate" then false else c.getCert
    getKECert := if m.contains "GetClientKECertificate" then false else c.getKECert
    alpn := if m.contains "NextProtos" then [] else c.alpn
    serverName := if m.contains "ServerName" then "" else c.serverName
    nameIsIP := if m.contains "ServerName" then false else c.nameIsIP
    cache := if m.contains "SessionCache" then false else c.cache
    minV := if m.contains "MinVersion" then 0 else c.minV
    maxV := if m.contains "MaxVersion" then 0 else c.maxV }

def cloneServer (p : Params) (c : ServerCfg) : ServerCfg :=
  if !c.clone then c else
  let m := p.cloneMissing
  { c with
    suites := if m.contains "CipherSuites" then none else c.suites
    nCerts := if m.contains "Certificates" then 0 else c.nCerts
    getCert := if m.contains "GetCertificate" then false else c.getCert
    getKECert := if m.contains "GetKECertificate" then false else c.getKECert
    alpn := if m.contains "NextProtos" then [] else c.alpn
    auth := if m.contains "ClientAuth" then .noClientCert else c.auth
    cas := if m.contains "ClientCAs" then .none else c.cas
    cache := if m.contains "SessionCache" then false else c.cache
    minV := if m.contains "MinVersion" then 0 else c.minV
    maxV := if m.contains "MaxVersion" then 0 else c.maxV }

/-! ### versions -/

/-- `Config.supportedVersions` -/
def supportedVersions (p : Params) (minV maxV : Nat) : List Nat :=
  p.versions.filter fun v => !(minV != 0 && v < minV) && !(maxV != 0 && v > maxV)

/-- `supportedVersionsFromMax` (0x03xx is refused) -/
def versionsFromMax (p : Params) (maxVersion : Nat) : List Nat :=
  if maxVersion &&& 0xFF00 == 0x0300 then [] else p.versions.filter fun v => !(v > maxVersion)

/-- `Config.mutualVersion`: the peer's order has priority -/
def mutualVersion (p : Params) (minV maxV : Nat) (peer : List Nat) : Option Nat :=
  peer.find? fun pv => (supportedVersions p minV maxV).contains pv

/-! ### cipher suites -/

/-- `Config.cipherSuites` with `defaultCipherSuites` -/
def configSuites (p : Params) (s : Option (List Nat)) : List Nat :=
  match s with
  | some l => l
  | none => p.pref.take (p.pref.length - p.disabled.length)

def flagsOf (p : Params) (id : Nat) : Option Nat := (p.known.find? fun r => r.1 == id).map (·.2)

/-- `mutualCipherSuite(have, want)` is non-nil -/
def mutualCipherSuite (p : Params) (have_ : List Nat) (want : Nat) : Bool :=
  have_.contains want && (flagsOf p want).isSome

def hasAuthKeyPair (c : ClientCfg) : Bool := decide (c.nCerts > 0) || c.getCert
def hasEncKeyPair (c : ClientCfg) : Bool := decide (c.nCerts > 1) || c.getKECert

/-- `makeClientHello`: the offered list -/
def offeredSuites (p : Params) (c : ClientCfg) : List Nat :=
  p.pref.filter fun id =>
    mutualCipherSuite p (configSuites p c.suites) id &&
    !(p.clientEcdheGuard && p.ecdheIds.contains id && !(hasAuthKeyPair c && hasEncKeyPair c))

structure KeyFlags where
  ecdheOk : Bool := false
  ecSignOk : Bool
  ecDecryptOk : Bool
  rsaDecryptOk : Bool
  rsaSignOk : Bool

/-- `cipherSuiteOk`, branch by branch (all four suites carry `suiteECSign`, so the second and
third branches are dead today) -/
def cipherSuiteOk (p : Params) (k : KeyFlags) (flags : Nat) : Bool :=
  if flags &&& p.flagECSign != 0 then
    if !k.ecSignOk then false
    else if !k.ecDecryptOk then false
    else true
  else if flags &&& p.flagECDHE != 0 then
    if !k.ecdheOk then false
    else if flags &&& p.flagECSign != 0 then (if !k.ecSignOk then false else true)
    else if !k.rsaSignOk then false
    else true
  else if !k.rsaDecryptOk then false
  else true

/-- `selectCipherSuite(ids, supportedIDs, ok)` -/
def selectCipherSuite (p : Params) (ids supported : List Nat) (ok : Nat → Bool) : Option Nat :=
  ids.find? fun id =>
    match flagsOf p id with
    | none => false
    | some f => ok f && supported.contains id

/-- the server's `pickCipherSuite`: preference list = preference order ∩ configured -/
def serverPick (p : Params) (k : KeyFlags) (s : ServerCfg) (offered : List Nat) : Option Nat :=
  let cfg := configSuites p s.suites
  let preferenceList := p.pref.filter fun sid => cfg.contains sid
  if p.serverPrefFirst then selectCipherSuite p preferenceList offered (cipherSuiteOk p k)
  else selectCipherSuite p offered preferenceList (cipherSuiteOk p k)

/-! ### ALPN -/

/-- inner loop of `negotiateALPN` for one outer element -/
def alpnInner (a : String) (isServer : Bool) : List String → Bool → Option String × Bool
  | [], fb => (none, fb)
  | b :: bs, fb =>
    if a == b then (some a, fb)
    else
      let (s, c) := if isServer then (a, b) else (b, a)
      alpnInner a isServer bs (fb || (s == "h2" && c == "http/1.1"))

def alpnOuter (isServer : Bool) : List String → List String → Bool → Option String × Bool
  | [], _, fb => (none, fb)
  | a :: as, inner, fb =>
    match alpnInner a isServer inner fb with
    | (some r, fb') => (some r, fb')
    | (none, fb') => alpnOuter isServer as inner fb'

/-- `negotiateALPN(serverProtos, clientProtos)`; `none` = error -/
def negotiateALPN (p : Params) (server client : List String) : Option String :=
  if server.isEmpty || client.isEmpty then some ""
  else
    let r := if p.alpnServerFirst then alpnOuter true server client false
             else alpnOuter false client server false
    match r with
    | (some s, _) => some s
    | (none, true) => some ""
    | (none, false) => none

/-- `checkALPN(clientProtos, serverProto)` succeeds -/
def checkALPN (client : List String) (serverProto : String) : Bool :=
  if serverProto == "" then true
  else if client.isEmpty then false
  else client.contains serverProto

/-! ### client authentication -/

def authVal (p : Params) (a : ClientAuth) : Nat := p.authIota.getD a.idx 0

/-- `requiresClientCert` -/
def requiresClientCert (p : Params) (a : ClientAuth) : Bool := p.requires.contains (authVal p a)

/-- the policy `doFullHandshake` works with: ECDHE turns everything but RequestClientCert
into RequireAndVerifyClientCert -/
def authPolice (p : Params) (s : ServerCfg) (suite : Nat) : Nat :=
  if p.ecdheIds.contains suite then
    if authVal p s.auth != authVal p .requestClientCert then authVal p .requireAndVerifyClientCert
    else authVal p s.auth
  else authVal p s.auth

def certRequested (p : Params) (s : ServerCfg) (suite : Nat) : Bool :=
  decide (authPolice p s suite ≥ authVal p .requestClientCert)

/-- client half: which certificates go into the Certificate message, and whether a
CertificateVerify follows; fails for ECDHE without an encryption certificate -/
def clientCerts (p : Params) (c : ClientCfg) (s : ServerCfg) (suite : Nat) :
    Except Failure (List CertSym × Bool) :=
  let supports := s.cas.accepts c.family
  -- getClientCertificate
  let sig := if c.getCert then true else decide (c.nCerts > 0) && supports
  -- getClientKECertificate
  let enc := if c.getKECert then true else decide (c.nCerts > 1) && supports
  if !enc && p.ecdheIds.contains suite then .error .clientNoEncCert
  else
    let l1 : List CertSym := if sig then [.S] else []
    let l2 : List CertSym := if enc && (!p.encCertNeedsSig || sig) then [.E] else []
    .ok (l1 ++ l2, sig)

/-- server half: `processCertsFromClient` and the CertificateVerify expectation -/
def serverCheckCerts (p : Params) (c : ClientCfg) (s : ServerCfg) (suite : Nat)
    (certs : List CertSym) (verifySent : Bool) : Except Failure Unit :=
  let isECDHE := p.ecdheIds.contains suite
  if certs.length == 0 && requiresClientCert p s.auth then .error .certMissing
  else if decide (certs.length < 2) && isECDHE then .error .ecdheCerts
  else if decide (authVal p s.auth ≥ authVal p .verifyClientCertIfGiven) && decide (certs.length > 0)
          && !s.cas.verifies c.family then .error .certVerify
  else if decide (certs.length > 0) && !verifySent then .error .certVerifyMsg
  else .ok ()

/-- the client-authentication part of a full handshake: the certificates the server ends up
with (none when it does not ask) -/
def clientAuthStage (p : Params) (c : ClientCfg) (s : ServerCfg) (suite : Nat) :
    Except Failure (List CertSym) :=
  if certRequested p s suite then
    match clientCerts p c s suite with
    | .error e => .error e
    | .ok (certs, verifySent) =>
      match serverCheckCerts p c s suite certs verifySent with
      | .error e => .error e
      | .ok () => .ok certs
  else .ok []

/-! ### the handshake -/

/-- SNI as sent: `hostnameInSNI` (IP literals are not sent) -/
def sniOf (c : ClientCfg) : String := if c.nameIsIP then "" else c.serverName

/-- key types found by `processClientHello` -/
def keyFlags (s : ServerCfg) : Except Failure KeyFlags :=
  -- signing key: every kind is a crypto.Signer
  let sig : Except Failure (Bool × Bool) :=
    match s.sigKey with
    | .sm2 => .ok (true, false)
    | .p256 => .ok (true, false)
    | .rsa => .ok (false, true)
    | .ed25519 => .error .serverKeyType
  match sig with
  | .error e => .error e
  | .ok (ecSign, rsaSign) =>
    -- decryption key: ecdsa and ed25519 private keys are not crypto.Decrypter
    let (ecDec, rsaDec) :=
      match s.encKey with
      | .sm2 => (true, false)
      | .rsa => (false, true)
      | _ => (false, false)
    .ok { ecSignOk := ecSign, ecDecryptOk := ecDec, rsaDecryptOk := rsaDec, rsaSignOk := rsaSign }

/-- `getCertificate` / `getEKCertificate` find both key pairs -/
def serverHasCerts (s : ServerCfg) : Bool :=
  ((s.getCert && s.nCerts == 0) || decide (s.nCerts ≥ 1)) &&
  ((s.getKECert && decide (s.nCerts < 2)) || decide (s.nCerts ≥ 2))

/-- `checkForResumption` given the session the client offered and the server still holds -/
def serverResumes (p : Params) (k : KeyFlags) (s : ServerCfg) (vers : Nat) (offered : List Nat)
    (sess : Session) : Bool :=
  let sessionHasClientCerts := decide (sess.serverPeer.length ≠ 0)
  !(p.resumeHonoursPolicy && requiresClientCert p s.auth && !sessionHasClientCerts) &&
  !(p.resumeHonoursPolicy && sessionHasClientCerts && authVal p s.auth == authVal p .noClientCert) &&
  (if p.resumeSuiteGuards then
    vers == sess.vers && offered.contains sess.suite &&
    (selectCipherSuite p [sess.suite] (configSuites p s.suites) (cipherSuiteOk p k)).isSome
   else (selectCipherSuite p [sess.suite] [sess.suite] (cipherSuiteOk p k)).isSome)

/-- One handshake between a client and a server configuration. `sess` is the session both
ends still hold from an earlier connection (offered by the client, found by the server),
if any. -/
def handshake (p : Params) (sess : Option Session) (c0 : ClientCfg) (s0 : ServerCfg) :
    Except Failure Agreed :=
  let c := cloneClient p c0
  let s := cloneServer p s0
  -- makeClientHello
  match supportedVersions p c.minV c.maxV with
  | [] => .error .clientNoVersion
  | helloVers :: _ =>
  let offered := offeredSuites p c
  -- readClientHello
  match mutualVersion p s.minV s.maxV (versionsFromMax p helloVers) with
  | none => .error .version
  | some vers =>
  -- processClientHello
  match negotiateALPN p s.alpn c.alpn with
  | none => .error .alpn
  | some proto =>
  if !serverHasCerts s then .error .serverNoCert else
  match keyFlags s with
  | .error e => .error e
  | .ok k =>
  -- pickProtocolVersion (client)
  if !(supportedVersions p c.minV c.maxV).contains vers then .error .clientVersion else
  let resumed : Option Session :=
    match sess with
    | some ss => if c.cache && s.cache && serverResumes p k s vers offered ss then some ss else none
    | none => none
  match resumed with
  | some ss =>
    -- doResumeHandshake / processServerHello
    if !mutualCipherSuite p offered ss.suite then .error .clientSuite
    else if !checkALPN c.alpn proto then .error .clientALPN
    else if ss.vers != vers then .error .resumeMismatch
    -- doResumeHandshake re-runs processCertsFromClient on the recorded certificates
    else if p.resumeHonoursPolicy && !isOk (serverCheckCerts p c s ss.suite ss.serverPeer true) then .error .certVerify
    else
      .ok { client := { vers := vers, suite := ss.suite, alpn := proto, resumed := true,
                        peerCerts := ss.clientPeer, serverName := c.serverName },
            server := { vers := vers, suite := ss.suite, alpn := proto, resumed := true,
                        peerCerts := ss.serverPeer, serverName := sniOf c } }
  | none =>
  match serverPick p k s offered with
  | none => .error .noSuite
  | some suite =>
  -- processServerHello
  if !mutualCipherSuite p offered suite then .error .clientSuite
  else if !checkALPN c.alpn proto then .error .clientALPN
  -- ServerKeyExchange: signed with the server's signing key, checked as an SM2 signature
  else if s.sigKey != .sm2 then .error .skxSignature
  else
    match clientAuthStage p c s suite with
    | .error e => .error e
    | .ok certs =>
      .ok { client := { vers := vers, suite := suite, alpn := proto, resumed := false,
                        peerCerts := [.S, .E], serverName := c.serverName },
            server := { vers := vers, suite := suite, alpn := proto, resumed := false,
                        peerCerts := certs, serverName := sniOf c } }

/-- the first handshake between two configurations -/
def negotiate (p : Params) (c : ClientCfg) (s : ServerCfg) : Except Failure Agreed :=
  handshake p none c s

/-- the session both caches hold after a completed full handshake -/
def sessionOf (a : Agreed) : Session :=
  { vers := a.client.vers, suite := a.client.suite, clientPeer := a.client.peerCerts,
    serverPeer := a.server.peerCerts }

/-- the next handshake with the same configuration objects -/
def negotiateNext (p : Params) (c : ClientCfg) (s : ServerCfg) (first : Agreed) : Except Failure Agreed :=
  handshake p (some (sessionOf first)) c s

/-! ### histories: several connections between the same two parties

Between connections the only state is what the two session caches hold.  The client keeps
one session per destination (`createNewSession` overwrites it, a failed handshake that had
loaded it deletes it: the deferred `Put(dst, nil)` of `clientHandshake`); the server keeps
sessions by their random 32-byte id (`createSessionState`), so the only server entry that can
ever be looked up again is the one with the id of the session the client still holds. -/

structure Caches where
  /-- the session the client's cache holds for this server -/
  sess : Option Session := none
  /-- the server's cache holds the entry with the same id -/
  known : Bool := false
  deriving DecidableEq, Repr

/-- One connection of a history: the handshake, and the caches after it. -/
def connect (p : Params) (st : Caches) (c : ClientCfg) (s : ServerCfg) :
    Except Failure Agreed × Caches :=
  let ccache := (cloneClient p c).cache
  let scache := (cloneServer p s).cache
  -- loadSession: only a configuration with a cache offers a session
  let offered := if ccache then st.sess else none
  -- checkForResumption: found only through a cache that holds the id
  let found := if scache && st.known then offered else none
  let r := handshake p found c s
  let st' : Caches :=
    match r with
    | .error _ => if offered.isSome then {} else st
    | .ok a =>
      if a.client.resumed then st
      else if ccache then { sess := some (sessionOf a), known := scache }
      else st
  (r, st')

/-- the connections of a history, in order: party `c`/`s` under each reconfiguration -/
def runHistory (p : Params) (c : ClientCfg) (s : ServerCfg) : Caches → List Reconf → List (Except Failure Agreed)
  | _, [] => []
  | st, r :: rs =>
    let o := connect p st (r.client c) (r.server s)
    o.1 :: runHistory p c s o.2 rs

end Gotlcp.Model.Negotiate

/-
Executable model of dtlcp/handshake_messages.go (12-byte header with message_seq,
fragment_offset, fragment_length; helloVerifyRequestMsg; the cookie in ClientHello).
A dtlcp message is a pair (header fields, body record).

`Codes.complete` lists the type codes of the messages whose `unmarshal` starts with
`dtlcpIsCompleteMessage(data, type)` (repair F18a); on a tree without the repair it is empty and
the model shows the original looseness.  `Codes.curvesMode` / `sigAlgsMode` mirror where the `make` of
the ClientHello curve / signature-algorithm lists sits (F28).
-/
import Gotlcp.Model.Codec

namespace Gotlcp.Model.CodecDtlcp
open Gotlcp Gotlcp.Wire Gotlcp.Wire.Msg Gotlcp.Model.Codec

/-- `dtlcpWriteHeader` -/
def writeHeader (t : Nat) (bodyLen : Nat) (seq : W16) (fragOff fragLen : Nat) : Bytes :=
  u8 t :: be24 bodyLen ++ seq.bytes ++ be24 fragOff ++ be24 fragLen

/-- the header every dtlcp marshal writes: `fragLen := m.fragmentLength; if fragLen == 0 { fragLen = bodyLen }` -/
def header (t : Nat) (bodyLen : Nat) (h : DHdr) : Bytes :=
  writeHeader t bodyLen h.seq h.fragOff (if h.fragLen = 0 then bodyLen else h.fragLen)

/-- `dtlcpUnmarshalHeader`: (msgType, bodyLen, header fields, body) -/
def unmarshalHeader (data : Bytes) : Option (UInt8 × Nat × DHdr × Bytes) :=
  match readU8 data with
  | none => none
  | some (t, s1) =>
  match readU24 s1 with
  | none => none
  | some (bodyLen, s2) =>
  match readW16 s2 with
  | none => none
  | some (seq, s3) =>
  match readU24 s3 with
  | none => none
  | some (fo, s4) =>
  match readU24 s4 with
  | none => none
  | some (fl, s) =>
    if fl > 0 then
      (if fl > s.length then none else some (t, bodyLen, ⟨seq, fo, fl⟩, s.take fl))
    else some (t, bodyLen, ⟨seq, fo, fl⟩, s)

/-- `dtlcpIsCompleteMessage(data, msgType)` (repair F18a), hand-indexed -/
def isCompleteMessage (hl : Nat) (data : Bytes) (t : Nat) : Outcome Bool :=
  if data.length < hl then .ok false else do
    let ty ← idx data 0
    if ty ≠ u8 t then .ok false else do
      let bodyLen ← idx24 data 1
      let fragOff ← idx24 data 6
      let fragLen ← idx24 data 9
      .ok (decide (fragOff = 0 ∧ fragLen = bodyLen ∧ data.length - hl = bodyLen))

/-- the guardD at the top of an unmarshal: `if !dtlcpIsCompleteMessage(data, t) { return false }` -/
def guardD {α : Type} (c : Codes) (t : Nat) (data : Bytes) (k : Outcome α) : Outcome α :=
  guardWith (c.complete.contains t) (isCompleteMessage c.hl data t) k

/-- `m.messageSeq = uint16(data[4])<<8 | uint16(data[5])` … of the hand-indexed unmarshals -/
def hdrFields (data : Bytes) : Outcome DHdr := do
  let seq ← idxW16 data 4
  let fo ← idx24 data 6
  let fl ← idx24 data 9
  pure ⟨seq, fo, fl⟩

/-! ## messages parsed through dtlcpUnmarshalHeader -/

/-- finishedMsg.marshal (hand-written) -/
def encFinished (c : Codes) (h : DHdr) (m : Blob) : Option Bytes :=
  some (header c.tFinished m.data.length h ++ m.data)

/-- `make([]byte, bodyLen); copy(…, body)` -/
def padTo (n : Nat) (b : Bytes) : Bytes := (b ++ List.replicate n 0).take n

def decFinished (c : Codes) (data : Bytes) : Outcome (DHdr × Blob) :=
  guardD c c.tFinished data <|
  match unmarshalHeader data with
  | none => .reject
  | some (t, bodyLen, h, body) =>
    if t ≠ u8 c.tFinished then .reject
    else if bodyLen > c.maxHandshake then .reject
    else .ok (h, ⟨padTo bodyLen body⟩)

/-- certificateVerifyMsg.marshal (hand-written: `x[12] = byte(sigLen>>8)` …) -/
def encCertificateVerify (c : Codes) (h : DHdr) (m : Blob) : Option Bytes :=
  some (header c.tCertificateVerify (2 + m.data.length) h ++ be16 m.data.length ++ m.data)

def decCertificateVerify (c : Codes) (data : Bytes) : Outcome (DHdr × Blob) :=
  guardD c c.tCertificateVerify data <|
  match unmarshalHeader data with
  | none => .reject
  | some (t, _, h, body) =>
    if t ≠ u8 c.tCertificateVerify then .reject else
    match readVec16 body with
    | none => .reject
    | some (sig, r) => if isEmpty r then .ok (h, ⟨sig⟩) else .reject

/-- helloVerifyRequestMsg.marshal (hand-written) -/
def encHelloVerifyRequest (c : Codes) (h : DHdr) (m : HelloVerifyRequest) : Option Bytes :=
  some (header c.tHelloVerifyRequest (3 + m.cookie.length) h ++ m.vers.bytes ++ [u8 m.cookie.length] ++ m.cookie)

def decHelloVerifyRequest (c : Codes) (data : Bytes) : Outcome (DHdr × HelloVerifyRequest) :=
  guardD c c.tHelloVerifyRequest data <|
  match unmarshalHeader data with
  | none => .reject
  | some (t, _, h, body) =>
    if t ≠ u8 c.tHelloVerifyRequest then .reject else
    match readW16 body with
    | none => .reject
    | some (vers, s1) =>
      match readVec8 s1 with
      | none => .reject
      | some (ck, r) => if isEmpty r then .ok (h, ⟨vers, ck⟩) else .reject

/-- clientHelloMsg.marshal: cryptobyte body, then `dtlcpMarshalHeader` -/
def encClientHello (c : Codes) (h : DHdr) (m : ClientHello) : Option Bytes :=
  match encClientHelloBody c true m with
  | none => none
  | some body => some (header c.tClientHello body.length h ++ body)

def decClientHello (c : Codes) (data : Bytes) : Outcome (DHdr × ClientHello) :=
  guardD c c.tClientHello data <|
  match unmarshalHeader data with
  | none => .reject
  | some (t, _, h, body) =>
    if t ≠ u8 c.tClientHello then .reject else
    match decClientHelloBody c true body with
    | none => .reject
    | some m => .ok (h, m)

def encServerHello (c : Codes) (h : DHdr) (m : ServerHello) : Option Bytes :=
  match encServerHelloBody c m with
  | none => none
  | some body => some (header c.tServerHello body.length h ++ body)

def decServerHello (c : Codes) (data : Bytes) : Outcome (DHdr × ServerHello) :=
  guardD c c.tServerHello data <|
  match unmarshalHeader data with
  | none => .reject
  | some (t, _, h, body) =>
    if t ≠ u8 c.tServerHello then .reject else
    match decServerHelloBody c body with
    | none => .reject
    | some m => .ok (h, m)

/-! ## hand-indexed messages -/

/-- serverHelloDoneMsg.marshal: only type and message_seq are written -/
def encServerHelloDone (c : Codes) (h : DHdr) : Option Bytes :=
  some (u8 c.tServerHelloDone :: [0, 0, 0] ++ h.seq.bytes ++ [0, 0, 0, 0, 0, 0])

def decServerHelloDone (c : Codes) (data : Bytes) : Outcome (DHdr × Unit) :=
  guardD c c.tServerHelloDone data <|
  if data.length < c.hl then .reject else do
    let h ← hdrFields data
    let bodyLen ← idx24 data 1
    let t ← idx data 0
    if bodyLen = 0 ∧ t = u8 c.tServerHelloDone then .ok (h, ()) else .reject

/-- serverKeyExchangeMsg.marshal / clientKeyExchangeMsg.marshal -/
def encKeyMsg (t : Nat) (h : DHdr) (m : Blob) : Option Bytes :=
  some (header t m.data.length h ++ m.data)

def decServerKeyExchange (c : Codes) (data : Bytes) : Outcome (DHdr × Blob) :=
  guardD c c.tServerKeyExchange data <|
  if data.length < c.hl then .reject else do
    let h ← hdrFields data
    let k ← sliceFrom data c.hl        -- make(len(data)-12) + copy
    pure (h, ⟨k⟩)

def decClientKeyExchange (c : Codes) (data : Bytes) : Outcome (DHdr × Blob) :=
  guardD c c.tClientKeyExchange data <|
  if data.length < c.hl then .reject else do
    let h ← hdrFields data
    let l ← idx24 data 1
    if l ≠ data.length - c.hl then .reject else do
      let k ← sliceFrom data c.hl      -- make(l) + copy
      pure (h, ⟨k.take l⟩)

def encCertificate (c : Codes) (h : DHdr) (m : Certificate) : Option Bytes :=
  let body := encCertificateBody m
  some (header c.tCertificate body.length h ++ body)

def decCertificate (c : Codes) (data : Bytes) : Outcome (DHdr × Certificate) :=
  guardD c c.tCertificate data <|
  if data.length < c.hl + 3 then .reject else do
    let h ← hdrFields data
    let m ← decCertificateAt c.hl data
    pure (h, m)

def encCertificateRequest (c : Codes) (h : DHdr) (m : CertificateRequest) : Option Bytes :=
  let body := encCertificateRequestBody m
  some (header c.tCertificateRequest body.length h ++ body)

def decCertificateRequest (c : Codes) (data : Bytes) : Outcome (DHdr × CertificateRequest) :=
  guardD c c.tCertificateRequest data <|
  if data.length < c.hl + 1 then .reject else do
    let h ← hdrFields data
    let m ← decCertificateRequestAt c.hl data
    pure (h, m)

end Gotlcp.Model.CodecDtlcp
